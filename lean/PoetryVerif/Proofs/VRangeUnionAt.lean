/-
`VersionUnion.of` on range members at one probe (helper lemmas for C04/C05): the hull of two ranges that overlap or
touch admits a probe exactly when one of them does — at every probe that is fine for the end shapes, where "fine"
for an inclusive lower end also asks that the end is unstable or the probe regular for it (the hull of `<M` and
`>=M`, `M` stable, covers the pre-releases of `M` that neither range admits).
-/
import PoetryVerif.Proofs.VRangeWalkAt
import PoetryVerif.Proofs.VRangeFinalSet
import PoetryVerif.Proofs.VRangeSep
import PoetryVerif.Proofs.VRangeInv

set_option linter.unusedSimpArgs false
set_option linter.unusedVariables false

namespace Poetry
open Version

namespace VRange

/-- the lower end: the probe is regular for it, or it is inclusive and unstable -/
def LoOK' (r : VRange) (p : Version) : Prop :=
  ∀ m, r.min = some m → Reg1 p m ∨ (r.imin = true ∧ m.isUnstable = true)

/-- the inclusive ends are drawn from the given lists (so that "no inclusive lower end equals an inclusive upper
end" can be stated once, on the lists) -/
def Ends (LoI HiI : List Version) (r : VRange) : Prop :=
  (∀ m, r.min = some m → r.imin = true → m ∈ LoI) ∧ (∀ M, r.max = some M → r.imax = true → M ∈ HiI)

/-- what a range member carries through `VersionUnion.of` and `intersect` at the probe `p` -/
def PSem (LoI HiI : List Version) (r : VRange) (p : Version) : Prop :=
  r.WF ∧ r.Tidy ∧ (∀ e ∈ r.bounds, e.isLocal = false) ∧ r.LoOK' p ∧ r.HiOK p ∧ r.Ends LoI HiI

theorem PSem.okat {LoI HiI : List Version} {r : VRange} {p : Version} (h : r.PSem LoI HiI p) : r.OKat p :=
  ⟨fun m hm => (h.2.2.2.1 m hm).elim Or.inr (fun x => Or.inl x.1), h.2.2.2.2.1⟩

/-- nothing lies above the top of `a` and below the bottom of `b` when the two overlap or touch -/
theorem no_hole (a b : VRange) (ha : a.WF) (hb : b.WF) (hta : a.Tidy) (htb : b.Tidy) (p : Version) (hbl : b.LoOK' p)
    (La : a.denLo p) (nHa : ¬ a.denHi p) (nLb : ¬ b.denLo p)
    (hc : a.isStrictlyLower b = false ∨ (optVerEq a.max b.min = true ∧ (a.imax = true ∨ b.imin = true)) ∨
      (optVerEq a.min b.max = true ∧ (a.imin = true ∨ b.imax = true))) : False := by
  -- the ends in play
  cases hM : a.max with
  | none => simp [denHi, allowedMax_none hM] at nHa
  | some M =>
    cases hA : a.allowedMax with
    | none => have := allowedMax_isSome (r := a); simp [hA, hM] at this
    | some A =>
      cases hy : b.min with
      | none => simp [denLo, hy] at nLb
      | some y =>
        have hAp : vk A ≤ vk p := by
          simp only [denHi, hA] at nHa
          cases hi : a.imax <;> simp [hi] at nHa
          · exact nHa
          · exact le_of_lt nHa
        have hpy : vk p ≤ vk y := by
          simp only [denLo, hy] at nLb
          cases hi : b.imin <;> simp [hi] at nLb
          · exact nLb
          · exact le_of_lt nLb
        rcases hc with hsl | ⟨hov, hfl⟩ | ⟨hov, hfl2⟩
        · have h := strictlyLower_false hsl
          rw [hA, hy] at h
          simp only at h
          rcases h with h | ⟨h1, h2, h3⟩
          · exact absurd (lt_of_lt_of_le h hAp) (not_lt.2 hpy)
          · simp only [denHi, hA, h2, if_true, not_le] at nHa
            simp only [denLo, hy, h3, if_true, not_le] at nLb
            rw [h1] at nLb
            exact absurd (lt_trans nHa nLb) (lt_irrefl _)
        · rw [hM, hy] at hov
          have hMy : vk M = vk y := (eqv_iff _ _).1 (by simpa [optVerEq] using hov)
          rcases allowedMax_cases hM with h1 | ⟨h1, himax, hst⟩
          · rw [h1] at hA; injection hA with hA; subst hA
            have hpM : vk p = vk M := le_antisymm (hMy ▸ hpy) hAp
            rcases hfl with hf | hf
            · simp only [denHi, h1, hf, if_true, not_le] at nHa
              exact absurd nHa (by rw [hpM]; exact lt_irrefl _)
            · simp only [denLo, hy, hf, if_true, not_le] at nLb
              exact absurd nLb (by rw [hpM, hMy]; exact lt_irrefl _)
          · rw [h1] at hA; injection hA with hA; subst hA
            have hbi : b.imin = true := by
              rcases hfl with hf | hf
              · rw [himax] at hf; cases hf
              · exact hf
            simp only [denLo, hy, hbi, if_true, not_le] at nLb
            rcases hbl y hy with hr | ⟨_, hu⟩
            · rcases hr with hr | hr
              · exact absurd nLb (by rw [hr]; exact lt_irrefl _)
              · apply hr
                have := relKey_sandwich (a := M.firstDevrelease) (b := p) (c := y) hAp (le_of_lt nLb)
                  (by rw [relKey_firstDev]; exact relKey_of_vk_eq hMy)
                rw [this, relKey_firstDev]; exact relKey_of_vk_eq hMy
            · rw [isUnstable_of_vk_eq hMy.symm, hst] at hu; cases hu
        · -- `a` starts where `b` ends: `p` is above the start of `a`, hence above all of `b`
          cases hm : a.min with
          | none =>
            cases hN : b.max with
            | some N => rw [hm, hN] at hov; simp [optVerEq] at hov
            | none =>
              rcases hfl2 with hf | hf
              · rw [hta.1 hm] at hf; cases hf
              · rw [htb.2 hN] at hf; cases hf
          | some m =>
            cases hN : b.max with
            | none => rw [hm, hN] at hov; simp [optVerEq] at hov
            | some N =>
              rw [hm, hN] at hov
              have hmN : vk m = vk N := (eqv_iff _ _).1 (by simpa [optVerEq] using hov)
              have hmp : vk m ≤ vk p := by
                simp only [denLo, hm] at La
                cases hi : a.imin <;> simp [hi] at La
                · exact le_of_lt La
                · exact La
              have := hb.2 y N hy hN
              exact absurd (lt_of_lt_of_le (hmN ▸ this) hmp) (not_lt.2 hpy)

theorem denLo_hull (a b : VRange) (p : Version) : (hull a b).denLo p ↔ a.denLo p ∨ b.denLo p := by
  cases h : a.allowsLower b
  · have e : (hull a b).denLo p ↔ b.denLo p := by simp [hull, denLo, h]
    rw [e]
    exact ⟨Or.inr, fun x => x.elim (allowsLower_false h p) id⟩
  · have e : (hull a b).denLo p ↔ a.denLo p := by simp [hull, denLo, h]
    rw [e]
    exact ⟨Or.inl, fun x => x.elim id (allowsLower_true h p)⟩

theorem denHi_hull (a b : VRange) (ha : a.WF) (hb : b.WF) (p : Version) :
    (hull a b).denHi p ↔ a.denHi p ∨ b.denHi p := by
  obtain ⟨t1, t2⟩ := hull_top a b ha hb
  cases h : a.allowsHigher b
  · rw [h] at t1 t2
    have e : (hull a b).denHi p ↔ b.denHi p := by simp [denHi, t1, t2]
    rw [e]
    exact ⟨Or.inr, fun x => x.elim (allowsHigher_false h p) id⟩
  · rw [h] at t1 t2
    have e : (hull a b).denHi p ↔ a.denHi p := by simp [denHi, t1, t2]
    rw [e]
    exact ⟨Or.inl, fun x => x.elim id (allowsHigher_true h p)⟩

/-- **the hull of two ranges that overlap or touch is their union at the probe** -/
theorem hull_at {LoI HiI : List Version} (a b : VRange) (p : Version) (hp : p.wf = true)
    (ha : a.PSem LoI HiI p) (hb : b.PSem LoI HiI p)
    (hm : (!(edgesTouch a b) && (b.isStrictlyLower a || a.isStrictlyLower b)) = false) :
    (hull a b).PSem LoI HiI p ∧ (hull a b).allows p = (a.allows p || b.allows p) := by
  obtain ⟨haw, hat, hal, halo, hahi, hae⟩ := ha
  obtain ⟨hbw, hbt, hbl, hblo, hbhi, hbe⟩ := hb
  have hps : (hull a b).PSem LoI HiI p := by
    refine ⟨hull_WF a b haw hbw, hull_Tidy a b hat hbt, ?_, ?_, ?_, ⟨?_, ?_⟩⟩
    · intro e he
      rcases hull_bounds a b e he with h | h
      · exact hal e h
      · exact hbl e h
    · intro m hm'
      cases h : a.allowsLower b <;> simp [hull, h] at hm' ⊢
      · exact hblo m hm'
      · exact halo m hm'
    · intro M hM
      cases h : a.allowsHigher b <;> simp [hull, h] at hM ⊢
      · exact hbhi M hM
      · exact hahi M hM
    · intro m hm' hi
      cases h : a.allowsLower b <;> simp [hull, h] at hm' hi
      · exact hbe.1 m hm' hi
      · exact hae.1 m hm' hi
    · intro M hM hi
      cases h : a.allowsHigher b <;> simp [hull, h] at hM hi
      · exact hbe.2 M hM hi
      · exact hae.2 M hM hi
  refine ⟨hps, ?_⟩
  have oka : a.OKat p := PSem.okat ⟨haw, hat, hal, halo, hahi, hae⟩
  have okb : b.OKat p := PSem.okat ⟨hbw, hbt, hbl, hblo, hbhi, hbe⟩
  apply bool_eq_of_iff
  rw [allows_iff_den_at _ p hps.1.1 hp hps.okat, Bool.or_eq_true, allows_iff_den_at a p haw.1 hp oka,
    allows_iff_den_at b p hbw.1 hp okb]
  unfold den
  rw [denLo_hull, denHi_hull a b haw hbw]
  -- the merge condition, oriented both ways
  have hcond : (a.isStrictlyLower b = false ∨ (optVerEq a.max b.min = true ∧ (a.imax = true ∨ b.imin = true)) ∨
      (optVerEq a.min b.max = true ∧ (a.imin = true ∨ b.imax = true))) ∧
      (b.isStrictlyLower a = false ∨ (optVerEq b.max a.min = true ∧ (b.imax = true ∨ a.imin = true)) ∨
      (optVerEq b.min a.max = true ∧ (b.imin = true ∨ a.imax = true))) := by
    have sym : ∀ x y : Option Version, optVerEq x y = optVerEq y x := by
      intro x y
      cases x <;> cases y <;> simp [optVerEq]
      rename_i u v
      apply bool_eq_of_iff; rw [eqv_iff, eqv_iff]; exact ⟨Eq.symm, Eq.symm⟩
    by_cases ht : edgesTouch a b = true
    · simp only [edgesTouch, Bool.or_eq_true, Bool.and_eq_true] at ht
      rcases ht with ⟨h1, h2⟩ | ⟨h1, h2⟩
      · exact ⟨Or.inr (Or.inl ⟨h1, h2⟩), Or.inr (Or.inr ⟨by rw [sym]; exact h1, h2.symm⟩)⟩
      · exact ⟨Or.inr (Or.inr ⟨h1, h2⟩), Or.inr (Or.inl ⟨by rw [sym]; exact h1, h2.symm⟩)⟩
    · simp only [ht, Bool.not_false, Bool.true_and, Bool.or_eq_false_iff] at hm
      exact ⟨Or.inl hm.2, Or.inl hm.1⟩
  constructor
  · rintro ⟨hl, hh⟩
    by_cases h1 : a.denLo p ∧ a.denHi p
    · exact Or.inl h1
    · by_cases h2 : b.denLo p ∧ b.denHi p
      · exact Or.inr h2
      · exfalso
        rcases hl with la | lb
        · have nha : ¬ a.denHi p := fun x => h1 ⟨la, x⟩
          have hbh : b.denHi p := hh.resolve_left nha
          have nlb : ¬ b.denLo p := fun x => h2 ⟨x, hbh⟩
          exact no_hole a b haw hbw hat hbt p hblo la nha nlb hcond.1
        · have nhb : ¬ b.denHi p := fun x => h2 ⟨lb, x⟩
          have hah : a.denHi p := hh.resolve_right nhb
          have nla : ¬ a.denLo p := fun x => h1 ⟨x, hah⟩
          exact no_hole b a hbw haw hbt hat p halo lb nhb nla hcond.2
  · rintro (⟨l, h⟩ | ⟨l, h⟩)
    · exact ⟨Or.inl l, Or.inl h⟩
    · exact ⟨Or.inr l, Or.inr h⟩

end VRange
/-- a range member with what it carries at the probe -/
def RC.PSem (LoI HiI : List Version) (c : RC) (p : Version) : Prop := ∃ r, c = .rng r ∧ r.PSem LoI HiI p

/-- **the merge loop of `VersionUnion.of` on range members, at the probe**: whenever it returns, the merged members
admit the probe exactly when an input does, and carry the same invariants -/
theorem mergeLoop_at {LoI HiI : List Version} (p : Version) (hp : p.wf = true) :
    ∀ (l acc res : List RC), mergeLoop l acc = .ok res →
    (∀ c ∈ l ++ acc, c.PSem LoI HiI p) → (∀ c ∈ res, c.PSem LoI HiI p) ∧ anyAllows res p = anyAllows (l ++ acc) p
  | [], acc, res, h, hg => by
    simp only [mergeLoop, Except.ok.injEq] at h
    subst h
    exact ⟨fun c hc => hg c (by simpa using hc), by simp [anyAllows, List.any_reverse]⟩
  | c :: rest, [], res, h, hg => by
    simp only [mergeLoop] at h
    have ih := mergeLoop_at p hp rest [c] res h (fun x hx => hg x (by simp at hx ⊢; grind))
    refine ⟨ih.1, ?_⟩
    rw [ih.2]
    simp [anyAllows, List.any_append, Bool.or_comm]
  | c :: rest, last :: more, res, h, hg => by
    obtain ⟨any, hany⟩ := RC.allowsAny_ok last c
    simp only [mergeLoop, hany, bind, Except.bind] at h
    by_cases hb : (!any && !(last.view.isAdjacentTo c.view)) = true
    · simp only [hb, if_true] at h
      have ih := mergeLoop_at p hp rest (c :: last :: more) res h (fun x hx => hg x (by simp at hx ⊢; grind))
      refine ⟨ih.1, ?_⟩
      rw [ih.2]
      simp only [anyAllows, List.any_append, List.any_cons]
      cases c.allows p <;> cases last.allows p <;> cases (rest.any fun c => c.allows p) <;> simp
    · simp only [hb, Bool.false_eq_true, if_false] at h
      obtain ⟨a, rfl, ha⟩ := hg last (by simp)
      obtain ⟨b, rfl, hb'⟩ := hg c (by simp)
      by_cases hcond : (!(VRange.edgesTouch a b) && (b.isStrictlyLower a || a.isStrictlyLower b)) = true
      · rw [VRange.rcUnionSingle_rng_none a b hcond] at h
        simp at h
      · simp only [Bool.not_eq_true] at hcond
        rw [VRange.rcUnionSingle_rng_some a b hcond] at h
        simp only at h
        obtain ⟨hups, hex⟩ := VRange.hull_at a b p hp ha hb' hcond
        have ih := mergeLoop_at p hp rest (.rng (VRange.hull a b) :: more) res h (by
          intro x hx
          simp only [List.mem_append, List.mem_cons] at hx
          rcases hx with hx | rfl | hx
          · exact hg x (by simp [hx])
          · exact ⟨_, rfl, hups⟩
          · exact hg x (by simp [hx]))
        refine ⟨ih.1, ?_⟩
        rw [ih.2]
        simp only [anyAllows, List.any_append, List.any_cons, RC.allows, hex]
        cases a.allows p <;> cases b.allows p <;> cases (rest.any fun c => c.allows p) <;> simp

/-- **`VersionUnion.of` on range members at the probe**: total, the result is well-formed (sorted, separated), its
members are range members carrying the invariants, and it admits the probe exactly when an input does -/
theorem unionOfFlat_at {LoI HiI : List Version} (p : Version) (hp : p.wf = true) (l : List RC)
    (hm : ∀ c ∈ l, RngMember c ∧ c.PSem LoI HiI p) :
    ∃ res, unionOfFlat l = .ok res ∧ res.WF ∧ (∀ c ∈ res.flatten, RngMember c ∧ c.PSem LoI HiI p) ∧
      res.allowsPlain p = anyAllows l p := by
  unfold unionOfFlat
  by_cases h1 : l.isEmpty = true
  · refine ⟨.empty, by simp [h1], trivial, by simp [VC.flatten], ?_⟩
    have : l = [] := by simpa using h1
    simp [this, VC.allowsPlain, VC.flatten, anyAllows]
  · by_cases h2 : l.any RC.isAny = true
    · have hanyWF : VRange.any.WF :=
        ⟨by intro e he; simp [VRange.bounds, VRange.any] at he, by intro m M hm'; simp [VRange.any] at hm'⟩
      refine ⟨VC.any, by simp [h1, h2], ?_, ?_, ?_⟩
      · refine ⟨hanyWF, ?_⟩
        show VRange.any.isStrictlyLower VRange.any = false
        simp [VRange.isStrictlyLower, VRange.any, VRange.allowedMax]
      · intro c hc
        simp only [VC.any, VC.flatten, List.mem_singleton] at hc
        subst hc
        refine ⟨⟨hanyWF, ⟨fun _ => rfl, fun _ => rfl⟩, ?_, ⟨_, rfl⟩⟩, _, rfl, hanyWF, ⟨fun _ => rfl, fun _ => rfl⟩, ?_, ?_, ?_,
          ⟨by intro m hm'; simp [VRange.any] at hm', by intro M hM; simp [VRange.any] at hM⟩⟩
        · show VRange.any.isStrictlyLower VRange.any = false
          simp [VRange.isStrictlyLower, VRange.any, VRange.allowedMax]
        · intro e he; simp [VRange.bounds, VRange.any] at he
        · intro m hm'; simp [VRange.any] at hm'
        · intro M hM; simp [VRange.any] at hM
      · obtain ⟨c, hc, hca⟩ := List.any_eq_true.1 h2
        have : c.allows p = true := by
          cases c with
          | ver x => simp [RC.isAny] at hca
          | rng r =>
            simp only [RC.isAny, VRange.isAny, Bool.and_eq_true, Option.isNone_iff_eq_none] at hca
            simp [RC.allows, VRange.allows, VRange.allowsLo, VRange.allowsHi, hca.1, hca.2]
        have e : anyAllows l p = true := List.any_eq_true.2 ⟨c, hc, this⟩
        rw [e]
        simp [VC.any, VC.allowsPlain, VC.flatten, RC.allows, VRange.allows, VRange.allowsLo, VRange.allowsHi, VRange.any]
    · have hs := sortRCs_sorted l
      have hpw : (sortRCs l).Pairwise (fun x y => VRange.minLE x.view y.view) :=
        hs.1.imp (fun {x y} hxy => VRange.minLE_of_cmp (by
          rw [← RC.lt_iff_cmp]; simp [hxy]))
      obtain ⟨merged, hmer, hmem, hsep⟩ := mergeLoop_sep (sortRCs l) []
        (fun c hc => (hm c (by simpa [mem_sortRCs] using hc)).1) hpw trivial (fun last hl => by simp at hl)
      obtain ⟨hps, hsem⟩ := mergeLoop_at p hp (sortRCs l) [] merged hmer
        (fun c hc => (hm c (by simpa [mem_sortRCs] using hc)).2)
      have hne : merged ≠ [] := mergeLoop_ne_nil _ _ _ hmer (by
        simp only [List.append_nil]
        intro e
        have : l = [] := by
          cases l with
          | nil => rfl
          | cons a as =>
            have : a ∈ sortRCs (a :: as) := (mem_sortRCs a _).2 (by simp)
            rw [e] at this; simp at this
        simp [this] at h1)
      have hsem' : anyAllows merged p = anyAllows l p := by
        rw [hsem, List.append_nil]
        exact anyAllows_eq_of_mem (fun c => mem_sortRCs c l) p
      simp only [h1, h2, Bool.false_eq_true, if_false, hmer, bind, Except.bind]
      cases merged with
      | nil => exact absurd rfl hne
      | cons a as =>
        cases as with
        | nil =>
          refine ⟨.single a, rfl, ⟨(hmem a (by simp)).1, (hmem a (by simp)).2.2.1⟩, ?_, ?_⟩
          · intro c hc; simp [VC.flatten] at hc; subst hc; exact ⟨hmem c (by simp), hps c (by simp)⟩
          · rw [← hsem']; simp [VC.allowsPlain, VC.flatten, anyAllows]
        | cons b bs =>
          refine ⟨.union (a :: b :: bs), rfl, ⟨by simp, fun c hc => ⟨(hmem c hc).1, (hmem c hc).2.2.1⟩, ?_, hsep⟩, ?_, ?_⟩
          · exact consecSep_sorted _ (fun c hc => (hmem c hc).2.2.1) hsep
          · intro c hc; exact ⟨hmem c (by simpa [VC.flatten] using hc), hps c (by simpa [VC.flatten] using hc)⟩
          · rw [← hsem']; rfl

end Poetry
