/-
C14: `Dependency.to_pep_508()` (Model/Dep.lean `Dep.toPep508`, default `with_extras=True`) emits no CR/LF when the parts
of the dependency object hold none.  Core Lean only.
-/
import PoetryVerif.Proofs.MetaConstraintText
import PoetryVerif.Proofs.MetaMarkerText

set_option linter.unusedSimpArgs false
set_option linter.unusedVariables false

namespace Poetry.Meta
open Poetry Poetry.Dep Poetry.Marker

theorem sl_app {a b : String} (ha : SingleLine a) (hb : SingleLine b) : SingleLine (a ++ b) :=
  singleLine_append.2 ⟨ha, hb⟩

theorem removeSpaces_singleLine (s : String) (h : SingleLine s) : SingleLine (removeSpaces s) := by
  unfold removeSpaces
  rw [singleLine_ofList]
  intro c hc
  exact h c (List.mem_filter.1 hc).1

theorem optGetD_singleLine (o : Option String) (h : ∀ s, o = some s → SingleLine s) : SingleLine (o.getD "") := by
  cases o with
  | none => exact singleLine_empty
  | some s => exact h s rfl

/-- the strings a dependency object holds verbatim -/
structure KindLineFree (k : Kind) : Prop where
  url : ∀ u dir, k = .url u dir → SingleLine u ∧ ∀ s, dir = some s → SingleLine s
  vcs : ∀ v src b t r dir, k = .vcs v src b t r dir →
    SingleLine v ∧ SingleLine src ∧ (∀ s, b = some s → SingleLine s) ∧ (∀ s, t = some s → SingleLine s) ∧
    (∀ s, r = some s → SingleLine s) ∧ (∀ s, dir = some s → SingleLine s) ∧
    (∀ p, parseGitUrl src = .ok p → SingleLine p.url)

/-- every string stored in the dependency object is line-free -/
structure DepLineFree (d : Dep) : Prop where
  name : SingleLine d.spec.completePrettyName
  kind : KindLineFree d.kind
  constraint : BoundsLineFree d.constraint
  /-- the `VersionUnion` branch of `base_pep_508_name` re-parses the comma pieces of the pretty constraint -/
  pretty : ∀ p ∈ splitOnL [','] d.prettyConstraint.toList, ∀ pc, VParser.parseConstraint (String.ofList p) = .ok pc →
    BoundsLineFree pc
  python : BoundsLineFree d.pythonConstraint
  marker : M.Good LeafLineFree d.marker
  inExtras : ∀ e ∈ d.inExtras, SingleLine e

theorem pyOr_ok (a b : Option String) (P : String → Prop) (ha : ∀ s, a = some s → P s) (hb : ∀ s, b = some s → P s) :
    ∀ s, pyOr a b = some s → P s := by
  intro s hs
  unfold pyOr at hs
  split at hs
  · exact ha s hs
  · exact hb s hs

theorem vcsReference_singleLine (b t r : Option String) (hb : ∀ s, b = some s → SingleLine s)
    (ht : ∀ s, t = some s → SingleLine s) (hr : ∀ s, r = some s → SingleLine s) : SingleLine (vcsReference b t r) := by
  unfold vcsReference
  apply optGetD_singleLine
  apply pyOr_ok _ _ SingleLine
  · apply pyOr_ok _ _ SingleLine
    · exact pyOr_ok _ _ SingleLine hb ht
    · exact hr
  · intro s hs; simp at hs; subst hs; exact singleLine_empty

theorem mapM_pieces_singleLine (f : List Char → PyM String) :
    ∀ (ps : List (List Char)) (parts : List String), ps.mapM f = .ok parts →
      (∀ p ∈ ps, ∀ t, f p = .ok t → SingleLine t) → ∀ t ∈ parts, SingleLine t
  | [], parts, h, _ => by
    simp [List.mapM_nil, pure, Except.pure] at h; subst h; intro t ht; simp at ht
  | p :: ps, parts, h, hf => by
    rw [List.mapM_cons] at h
    simp only [bind, Except.bind, pure, Except.pure] at h
    cases h1 : f p with
    | error e => simp [h1] at h
    | ok t1 =>
      simp only [h1] at h
      cases h2 : ps.mapM f with
      | error e => simp [h2] at h
      | ok rest =>
        simp only [h2] at h
        simp at h; subst h
        intro t ht
        simp at ht
        rcases ht with rfl | ht
        · exact hf p (by simp) _ h1
        · exact mapM_pieces_singleLine f ps rest h2 (fun q hq => hf q (by simp [hq])) t ht

theorem constraintSuffix_singleLine (c : VC) (pretty : String) (s : String) (h : constraintSuffix c pretty = .ok s)
    (hc : BoundsLineFree c)
    (hp : ∀ p ∈ splitOnL [','] pretty.toList, ∀ pc, VParser.parseConstraint (String.ofList p) = .ok pc → BoundsLineFree pc) :
    SingleLine s := by
  unfold constraintSuffix at h
  split at h
  · -- union
    rename_i rs
    simp only [bind, Except.bind, pure, Except.pure] at h
    cases h1 : VC.excludedSingleVersion rs with
    | error e => simp [h1] at h
    | ok single =>
      simp only [h1] at h
      split at h
      · cases h2 : (VC.union rs).toStr with
        | error e => simp [h2] at h
        | ok t =>
          simp only [h2] at h
          simp at h; subst h
          exact sl_app (sl_app (by decide) (VC.toStr_singleLine _ t h2 hc)) (by decide)
      · split at h
        · simp at h
        · rename_i parts h2
          have := Except.ok.inj h; subst this
          refine sl_app (sl_app (by decide) (joinWith_singleLine "," (by decide) parts ?_)) (by decide)
          apply mapM_pieces_singleLine _ _ _ h2
          intro p hpm t ht
          cases h3 : VParser.parseConstraint (String.ofList p) with
          | error e => simp [h3] at ht
          | ok pc =>
            simp only [h3] at ht
            exact VC.toStr_singleLine pc t ht (hp p hpm pc h3)
  · -- single version
    rename_i v
    simp [pure, Except.pure] at h; subst h
    have hv : SingleLine v.text := hc v (by simp [VC.bounds, RC.bounds, RC.view, VRange.bounds, RC.min, RC.max])
    exact sl_app (sl_app (by decide) hv) (by decide)
  · split at h
    · simp [pure, Except.pure] at h; subst h; exact singleLine_empty
    · simp only [bind, Except.bind, pure, Except.pure] at h
      cases h2 : c.toStr with
      | error e => simp [h2] at h
      | ok t =>
        simp only [h2] at h
        simp at h; subst h
        exact sl_app (sl_app (by decide) (removeSpaces_singleLine t (VC.toStr_singleLine c t h2 hc))) (by decide)

theorem ite_sl {p : Prop} [Decidable p] {a b : String} (ha : SingleLine a) (hb : SingleLine b) :
    SingleLine (if p then a else b) := by split <;> assumption

theorem basePep508Name_singleLine (d : Dep) (s : String) (h : d.basePep508Name = .ok s) (hd : DepLineFree d) :
    SingleLine s := by
  unfold Dep.basePep508Name at h
  split at h
  · simp only [bind, Except.bind, pure, Except.pure] at h
    cases h1 : constraintSuffix d.constraint d.prettyConstraint with
    | error e => simp [h1] at h
    | ok t =>
      simp only [h1] at h
      simp at h; subst h
      exact sl_app hd.name (constraintSuffix_singleLine _ _ t h1 hd.constraint hd.pretty)
  · rename_i url directory hk
    obtain ⟨hu, hdir⟩ := hd.kind.url url directory hk
    simp only [pure, Except.pure] at h
    have := Except.ok.inj h; subst this
    exact sl_app (sl_app (sl_app hd.name (by decide)) hu)
      (ite_sl (sl_app (by decide) (optGetD_singleLine directory hdir)) singleLine_empty)
  · rename_i vcs source branch tag rev directory hk
    obtain ⟨hv, hsrc, hb, ht, hr, hdir, hpu⟩ := hd.kind.vcs vcs source branch tag rev directory hk
    simp only [bind, Except.bind, pure, Except.pure] at h
    cases h1 : parseGitUrl source with
    | error e => simp [h1] at h
    | ok parsed =>
      simp only [h1] at h
      have := Except.ok.inj h; subst this
      have href := vcsReference_singleLine branch tag rev hb ht hr
      refine sl_app (sl_app (sl_app hd.name ?_) (ite_sl (sl_app (by decide) href) singleLine_empty))
        (ite_sl (sl_app (by decide) (optGetD_singleLine directory hdir)) singleLine_empty)
      exact ite_sl (sl_app (sl_app (sl_app (by decide) hv) (by decide)) hsrc)
        (sl_app (sl_app (sl_app (by decide) hv) (by decide)) (hpu parsed h1))
  · simp at h

/-! ### `to_pep_508` in three stages (a restatement of the model's definition, checked by `rfl`) -/

/-- the marker / python clause -/
def pepStage1 (d : Dep) : PyM (List String × Bool) :=
  if !d.marker.isAny then do
    let m ← (pure d.marker : PyM M)
    let texts ← (if m.isEmpty || m.isAny then pure [] else do pure [← m.toStr])
    let ex ← convertMarkersFor "extra" m
    pure (texts, ex.isSome)
  else if d.pythonVersions != "*" then do
    pure ([← createNestedMarker "python_version" d.pythonConstraint], false)
  else pure (([] : List String), false)

/-- the optional `extra == …` clause -/
def pepStage2 (d : Dep) (markers : List String) (hasExtras : Bool) : PyM (List String) :=
  let inExtras := joinWith " || " d.inExtras
  if inExtras != "" && true && !hasExtras then do
    let gc ← Generic.parseConstraint inExtras
    pure (markers ++ [← nestedGC "extra" gc])
  else pure markers

def pepJoin (requirement : String) (markers : List String) : PyM String :=
  match markers with
  | [] => pure requirement
  | [m] => pure (requirement ++ " ; " ++ m)
  | ms => pure (requirement ++ " ; " ++ joinWith " and " (ms.map (fun m => "(" ++ m ++ ")")))

theorem toPep508_stages (d : Dep) :
    d.toPep508 = (do
      let requirement ← d.basePep508Name
      let (markers, hasExtras) ← pepStage1 d
      let markers ← pepStage2 d markers hasExtras
      pepJoin requirement markers) := rfl

theorem pepJoin_singleLine (req : String) (markers : List String) (out : String) (h : pepJoin req markers = .ok out)
    (hreq : SingleLine req) (hm : ∀ m ∈ markers, SingleLine m) : SingleLine out := by
  match markers, hm, h with
  | [], _, h => have := Except.ok.inj h; subst this; exact hreq
  | [m], hm, h => have := Except.ok.inj h; subst this; exact sl_app (sl_app hreq (by decide)) (hm m (by simp))
  | a :: b :: rest, hm, h =>
    have := Except.ok.inj h; subst this
    refine sl_app (sl_app hreq (by decide)) (joinWith_singleLine " and " (by decide) _ ?_)
    intro x hx
    simp only [List.mem_map] at hx
    obtain ⟨m, hm', rfl⟩ := hx
    exact sl_app (sl_app (by decide) (hm m hm')) (by decide)

theorem pepStage1_singleLine (d : Dep) (ms : List String) (hx : Bool) (h : pepStage1 d = .ok (ms, hx))
    (hd : DepLineFree d) : ∀ m ∈ ms, SingleLine m := by
  unfold pepStage1 at h
  simp only [bind, Except.bind, pure, Except.pure] at h
  split at h
  · split at h
    · simp at h
    · rename_i texts heq
      have htexts : ∀ m ∈ texts, SingleLine m := by
        split at heq
        · have := Except.ok.inj heq; subst this; intro m hm; simp at hm
        · cases h3 : d.marker.toStr with
          | error e => simp [h3] at heq
          | ok t =>
            simp only [h3] at heq
            have := Except.ok.inj heq; subst this
            intro m hm; simp at hm; rw [hm]
            exact M.toStr_singleLine d.marker t h3 hd.marker
      cases h4 : convertMarkersFor "extra" d.marker with
      | error e => simp [h4] at h
      | ok ex =>
        simp only [h4] at h
        have := Except.ok.inj h
        simp only [Prod.mk.injEq] at this
        obtain ⟨rfl, _⟩ := this
        exact htexts
  · split at h
    · cases h2 : createNestedMarker "python_version" d.pythonConstraint with
      | error e => simp [h2] at h
      | ok t =>
        simp only [h2] at h
        have := Except.ok.inj h
        simp only [Prod.mk.injEq] at this
        obtain ⟨rfl, _⟩ := this
        intro m hm; simp at hm; rw [hm]
        exact createNestedMarker_singleLine "python_version" d.pythonConstraint t h2 (by decide) hd.python
    · have := Except.ok.inj h
      simp only [Prod.mk.injEq] at this
      obtain ⟨rfl, _⟩ := this
      intro m hm; simp at hm

theorem pepStage2_singleLine (d : Dep) (markers : List String) (hx : Bool) (out : List String)
    (h : pepStage2 d markers hx = .ok out) (hd : DepLineFree d) (hm : ∀ m ∈ markers, SingleLine m) :
    ∀ m ∈ out, SingleLine m := by
  have hin : SingleLine (joinWith " || " d.inExtras) := joinWith_singleLine " || " (by decide) _ hd.inExtras
  unfold pepStage2 at h
  simp only [bind, Except.bind, pure, Except.pure] at h
  split at h
  · cases h2 : Generic.parseConstraint (joinWith " || " d.inExtras) with
    | error e => simp [h2] at h
    | ok gc =>
      simp only [h2] at h
      cases h3 : nestedGC "extra" gc with
      | error e => simp [h3] at h
      | ok t =>
        simp only [h3] at h
        have := Except.ok.inj h; subst this
        have ht : SingleLine t :=
          nestedGC_singleLine "extra" gc t h3 (by decide) (parseConstraint_lineFree _ gc hin h2)
        intro m hm'
        rcases List.mem_append.1 hm' with h' | h'
        · exact hm m h'
        · simp at h'; rw [h']; exact ht
  · have := Except.ok.inj h; subst this; exact hm

/-- **`to_pep_508()` emits no CR/LF** when the strings held by the dependency object contain none -/
theorem Dep.toPep508_singleLine (d : Dep) (s : String) (h : d.toPep508 = .ok s) (hd : DepLineFree d) : SingleLine s := by
  rw [toPep508_stages] at h
  simp only [bind, Except.bind, pure, Except.pure] at h
  cases h1 : d.basePep508Name with
  | error e => simp [h1] at h
  | ok req =>
    simp only [h1] at h
    cases h2 : pepStage1 d with
    | error e => simp [h2] at h
    | ok mh =>
      obtain ⟨ms, hx⟩ := mh
      simp only [h2] at h
      cases h3 : pepStage2 d ms hx with
      | error e => simp [h3] at h
      | ok out =>
        simp only [h3] at h
        exact pepJoin_singleLine req out s h (basePep508Name_singleLine d req h1 hd)
          (pepStage2_singleLine d ms hx out h3 hd (pepStage1_singleLine d ms hx h2 hd))

end Poetry.Meta
