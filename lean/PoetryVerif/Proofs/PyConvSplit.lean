/-
The constraint parser's two splitting steps on texts made of clauses without blanks: `re.split` on `||` and on
the and-separator (helper lemmas for C11 `SplitSound`).
-/
import PoetryVerif.Proofs.PyConvRange

set_option linter.unusedSimpArgs false
set_option linter.unusedVariables false

namespace Poetry
open Version VParser

/-- a character that may follow a blank as the first character of a clause -/
def startOK (c : Char) : Prop := c ≠ ' ' ∧ c ≠ ',' ∧ c ≠ '-' ∧ c ≠ '\n' ∧ c ≠ '|' ∧ isSpace c = false

theorem countSpaces_head {c : Char} (cs : List Char) (h : c ≠ ' ') : countSpaces (c :: cs) = 0 := by
  unfold countSpaces; split
  · rename_i heq; simp at heq; exact absurd heq.1 h
  · rfl

theorem countSpaces_space (cs : List Char) : countSpaces (' ' :: cs) = countSpaces cs + 1 := by
  rw [countSpaces]

theorem andSepTail_start {c : Char} (cs : List Char) (h : startOK c) : andSepTail (c :: cs) = some (c :: cs) := by
  obtain ⟨h1, h2, h3, h4, _, _⟩ := h
  unfold andSepTail
  split
  · rename_i heq; simp at heq; exact absurd heq.1 h3
  · rw [countSpaces_head cs h1]
    simp only [andSepTail.go, List.drop_zero]
    split
    · rename_i heq; cases heq
    · rename_i heq; simp at heq; exact absurd heq.1 h4
    · rename_i heq; simp at heq; exact absurd heq.1 h2
    · rfl

/-- the and-separator at a single blank between two clauses -/
theorem andSep_space (p c : Char) (cs : List Char) (hp : badPrev p = false) (hp' : p ≠ '-') (hc : startOK c) :
    andSep? (some p) (' ' :: c :: cs) = some (c :: cs) := by
  have hc1 := hc.1
  have hc2 := hc.2.1
  simp only [andSep?, hp, Bool.false_eq_true, if_false]
  rw [countSpaces_space, countSpaces_head cs hc1]
  have hpb : (p == '-') = false := by simpa using hp'
  have hinner : (match (c :: cs) with
      | ',' :: r => andSepTail r
      | ' ' :: r => andSepTail r
      | _ => none) = none := by
    split
    · rename_i heq; simp at heq; exact absurd heq.1 hc2
    · rename_i heq; simp at heq; exact absurd heq.1 hc1
    · rfl
  simp only [andSep?.go, Nat.zero_add, Nat.lt_irrefl, gt_iff_lt, Nat.lt_add_one, if_true, List.drop_succ_cons,
    List.drop_zero]
  have e1 : ((' ' : Char) == '-') = false := by decide
  simp only [e1, Bool.false_eq_true, if_false]
  split
  · rename_i r' heq
    exfalso
    revert heq
    split <;> simp_all
  · simp [hpb, andSepTail_start cs hc]


/-- no and-separator starts at a character that is neither blank nor comma -/
theorem andSep_head (prev : Option Char) {c : Char} (cs : List Char) (h1 : c ≠ ' ') (h2 : c ≠ ',') :
    andSep? prev (c :: cs) = none := by
  cases prev with
  | none => rfl
  | some p =>
    simp only [andSep?]
    split
    · rfl
    · rw [countSpaces_head cs h1]
      simp only [andSep?.go, List.drop_zero]
      have e0 : (if 0 > 0 then ' ' else p) = p := by simp
      rw [e0]
      by_cases hp : (p == '-') = true
      · simp [hp]
      · simp only [hp]
        split
        · rename_i r' heq
          exfalso
          revert heq
          split <;> simp_all
        · simp

def lastOr (p : Option Char) (it : List Char) : Option Char :=
  match it.getLast? with
  | some l => some l
  | none => p

theorem lastOr_cons (p : Option Char) (c : Char) (cs : List Char) : lastOr p (c :: cs) = lastOr (some c) cs := by
  cases cs with
  | nil => simp [lastOr]
  | cons d ds =>
    have : ∃ l, (d :: ds).getLast? = some l := ⟨(d :: ds).getLast (by simp), List.getLast?_eq_some_getLast (by simp)⟩
    obtain ⟨l, hl⟩ := this
    simp [lastOr, List.getLast?_cons_cons, hl]

/-- inside a clause nothing is split -/
theorem splitAndAux_item (it : List Char) (h : NoSep it) (prev : Option Char) (cur rest : List Char) (fuel : Nat) :
    splitAndAux (fuel + it.length) prev (it ++ rest) cur =
      splitAndAux fuel (lastOr prev it) rest (it.reverse ++ cur) := by
  induction it generalizing prev cur with
  | nil => simp [lastOr]
  | cons c cs ih =>
    have hc := h c (by simp)
    rw [show fuel + (c :: cs).length = (fuel + cs.length) + 1 by simp; omega]
    rw [List.cons_append, splitAndAux]
    simp only [andSep_head prev (cs ++ rest) hc.1 hc.2.1]
    rw [ih h.tail (some c) (c :: cur), lastOr_cons]
    simp


/-- a clause text as the normaliser prints it: no blank, comma or bar inside, a first character that may follow a
separator, a last character after which a separator may start -/
structure ItemOK (it : List Char) : Prop where
  nosep : NoSep it
  start : ∃ c cs, it = c :: cs ∧ startOK c
  fin : ∃ l, it.getLast? = some l ∧ badPrev l = false ∧ l ≠ '-'

/-- clauses joined by single blanks -/
def spJoin : List (List Char) → List Char
  | [] => []
  | [a] => a
  | a :: b :: rest => a ++ ' ' :: spJoin (b :: rest)

def need : List (List Char) → Nat
  | [] => 0
  | a :: rest => a.length + 1 + need rest

theorem splitAndAux_nil (fuel : Nat) (prev : Option Char) (cur : List Char) :
    splitAndAux fuel prev [] cur = [cur.reverse] := by
  cases fuel <;> simp [splitAndAux]

theorem splitAndAux_items (it : List Char) (rest : List (List Char)) (hall : ∀ x ∈ it :: rest, ItemOK x)
    (prev : Option Char) (cur : List Char) (k : Nat) :
    splitAndAux (k + need (it :: rest)) prev (spJoin (it :: rest)) cur = (cur.reverse ++ it) :: rest := by
  induction rest generalizing it prev cur k with
  | nil =>
    have hi := hall it (by simp)
    have := splitAndAux_item it hi.nosep prev cur [] (k + 1)
    simp only [List.append_nil] at this
    simp only [spJoin, need]
    rw [show k + (it.length + 1 + 0) = k + 1 + it.length by omega, this, splitAndAux_nil]
    simp
  | cons it2 rest ih =>
    have hi := hall it (by simp)
    have hi2 := hall it2 (by simp)
    obtain ⟨l, hl, hlb, hlm⟩ := hi.fin
    obtain ⟨c2, cs2, hc2, hs2⟩ := hi2.start
    have hsp : ∃ tl, spJoin (it2 :: rest) = c2 :: tl := by
      cases rest with
      | nil => exact ⟨cs2, by simp [spJoin, hc2]⟩
      | cons r rs => exact ⟨cs2 ++ ' ' :: spJoin (r :: rs), by simp [spJoin, hc2]⟩
    obtain ⟨tl, htl⟩ := hsp
    have hlast : lastOr prev it = some l := by simp [lastOr, hl]
    simp only [spJoin, need]
    rw [show k + (it.length + 1 + (it2.length + 1 + need rest)) = (k + (it2.length + 1 + need rest) + 1) + it.length by omega,
      splitAndAux_item it hi.nosep prev cur _ _, hlast, htl]
    rw [splitAndAux]
    simp only [andSep_space l c2 tl hlb hlm hs2]
    rw [← htl]
    have := ih it2 (fun x hx => hall x (by simp [hx])) ((' ' :: c2 :: tl).take ((' ' :: c2 :: tl).length - (spJoin (it2 :: rest)).length)).getLast? [] k
    simp only [need, List.reverse_nil, List.nil_append] at this
    rw [htl] at this ⊢
    rw [this]
    simp

theorem length_spJoin (items : List (List Char)) (h : items ≠ []) : (spJoin items).length + 1 = need items := by
  induction items with
  | nil => exact absurd rfl h
  | cons a rest ih =>
    cases rest with
    | nil => simp [spJoin, need]
    | cons b rs =>
      have := ih (by simp)
      simp only [spJoin, need, List.length_append, List.length_cons] at this ⊢
      omega

/-- **the and-split of a group**: clauses joined by single blanks are split back into the clauses -/
theorem splitAnd_items (items : List (List Char)) (hne : items ≠ []) (hall : ∀ x ∈ items, ItemOK x) :
    splitAnd (spJoin items) = items := by
  cases items with
  | nil => exact absurd rfl hne
  | cons it rest =>
    unfold splitAnd
    rw [length_spJoin _ hne]
    have := splitAndAux_items it rest hall none [] 0
    simpa using this


/-! ### the `||` split -/

theorem orSep_item_char {c : Char} (cs : List Char) (h1 : isSpace c = false) (h2 : c ≠ '|') :
    orSep? (c :: cs) = none := by
  rw [orSep?]
  have : dropSpaces (c :: cs) = c :: cs := by simp [dropSpaces, h1]
  rw [this]
  split
  · rename_i heq; simp at heq; exact absurd heq.1 h2
  · rename_i heq; simp at heq; exact absurd heq.1 h2
  · rfl

theorem orSep_inner_space {c : Char} (cs : List Char) (h : startOK c) : orSep? (' ' :: c :: cs) = none := by
  rw [orSep?]
  have : dropSpaces (' ' :: c :: cs) = c :: cs := by
    have hsp : isSpace ' ' = true := by decide
    simp [dropSpaces, hsp, h.2.2.2.2.2]
  rw [this]
  split
  · rename_i heq; simp at heq; exact absurd heq.1 h.2.2.2.2.1
  · rename_i heq; simp at heq; exact absurd heq.1 h.2.2.2.2.1
  · rfl

theorem splitOrAux_item (it : List Char) (h : NoSep it) (cur rest : List Char) (fuel : Nat) :
    splitOrAux (fuel + it.length) (it ++ rest) cur = splitOrAux fuel rest (it.reverse ++ cur) := by
  induction it generalizing cur with
  | nil => simp
  | cons c cs ih =>
    have hc := h c (by simp)
    rw [show fuel + (c :: cs).length = (fuel + cs.length) + 1 by simp; omega]
    rw [List.cons_append, splitOrAux.eq_def]
    simp only [orSep_item_char (cs ++ rest) hc.2.2.2 hc.2.2.1]
    rw [ih h.tail (c :: cur)]
    simp

theorem splitOrAux_group (it : List Char) (more : List (List Char)) (hall : ∀ x ∈ it :: more, ItemOK x)
    (cur rest : List Char) (fuel : Nat) :
    splitOrAux (fuel + (spJoin (it :: more)).length) (spJoin (it :: more) ++ rest) cur =
      splitOrAux fuel rest ((spJoin (it :: more)).reverse ++ cur) := by
  induction more generalizing it cur with
  | nil => simpa [spJoin] using splitOrAux_item it (hall it (by simp)).nosep cur rest fuel
  | cons it2 more ih =>
    have hi := hall it (by simp)
    obtain ⟨c2, cs2, hc2, hs2⟩ := (hall it2 (by simp)).start
    have hsp : ∃ tl, spJoin (it2 :: more) = c2 :: tl := by
      cases more with
      | nil => exact ⟨cs2, by simp [spJoin, hc2]⟩
      | cons r rs => exact ⟨cs2 ++ ' ' :: spJoin (r :: rs), by simp [spJoin, hc2]⟩
    obtain ⟨tl, htl⟩ := hsp
    simp only [spJoin, List.length_append, List.length_cons, List.append_assoc, List.cons_append]
    rw [show fuel + (it.length + ((spJoin (it2 :: more)).length + 1)) =
      (fuel + (spJoin (it2 :: more)).length + 1) + it.length by omega,
      splitOrAux_item it hi.nosep cur _ _]
    rw [splitOrAux.eq_def]
    rw [htl]
    simp only [List.cons_append, orSep_inner_space (tl ++ rest) hs2]
    rw [← List.cons_append, ← htl]
    rw [ih it2 (fun x hx => hall x (by simp [hx]))]
    simp

/-- groups joined by ` || ` -/
def orJoin : List (List Char) → List Char
  | [] => []
  | [a] => a
  | a :: b :: rest => a ++ ' ' :: '|' :: '|' :: ' ' :: orJoin (b :: rest)

def needO : List (List Char) → Nat
  | [] => 0
  | a :: rest => a.length + 1 + needO rest

/-- a group text: one or more clause texts joined by single blanks -/
def GroupOK (g : List Char) : Prop := ∃ it more, (∀ x ∈ it :: more, ItemOK x) ∧ g = spJoin (it :: more)

theorem groupOK_head {g : List Char} (h : GroupOK g) : ∃ c tl, g = c :: tl ∧ startOK c := by
  obtain ⟨it, more, hall, rfl⟩ := h
  obtain ⟨c, cs, hc, hs⟩ := (hall it (by simp)).start
  cases more with
  | nil => exact ⟨c, cs, by simp [spJoin, hc], hs⟩
  | cons r rs => exact ⟨c, cs ++ ' ' :: spJoin (r :: rs), by simp [spJoin, hc], hs⟩

theorem splitOrAux_nil (fuel : Nat) (cur : List Char) : splitOrAux fuel [] cur = [cur.reverse] := by
  rw [splitOrAux.eq_def]; cases fuel <;> rfl

theorem splitOrAux_groups (g : List Char) (gs : List (List Char)) (hall : ∀ x ∈ g :: gs, GroupOK x)
    (cur : List Char) (k : Nat) :
    splitOrAux (k + needO (g :: gs)) (orJoin (g :: gs)) cur = (cur.reverse ++ g) :: gs := by
  induction gs generalizing g cur k with
  | nil =>
    obtain ⟨it, more, hi, rfl⟩ := hall g (by simp)
    have := splitOrAux_group it more hi cur [] (k + 1)
    simp only [List.append_nil] at this
    simp only [orJoin, needO]
    rw [show k + ((spJoin (it :: more)).length + 1 + 0) = k + 1 + (spJoin (it :: more)).length by omega, this,
      splitOrAux_nil]
    simp
  | cons g2 gs ih =>
    obtain ⟨it, more, hi, rfl⟩ := hall g (by simp)
    obtain ⟨c2, tl, hg2, hs2⟩ := groupOK_head (hall g2 (by simp))
    have hoj : ∃ tl', orJoin (g2 :: gs) = c2 :: tl' := by
      cases gs with
      | nil => exact ⟨tl, by simp [orJoin, hg2]⟩
      | cons r rs => exact ⟨tl ++ ' ' :: '|' :: '|' :: ' ' :: orJoin (r :: rs), by simp [orJoin, hg2]⟩
    obtain ⟨tl', htl'⟩ := hoj
    simp only [orJoin, needO]
    rw [show k + ((spJoin (it :: more)).length + 1 + (g2.length + 1 + needO gs)) =
      (k + (g2.length + 1 + needO gs) + 1) + (spJoin (it :: more)).length by omega,
      splitOrAux_group it more hi cur _ _]
    rw [splitOrAux.eq_def]
    have hos : orSep? (' ' :: '|' :: '|' :: ' ' :: orJoin (g2 :: gs)) = some (orJoin (g2 :: gs)) := by
      rw [orSep?]
      have hsp : isSpace ' ' = true := by decide
      have hb : isSpace '|' = false := by decide
      have : dropSpaces (' ' :: '|' :: '|' :: ' ' :: orJoin (g2 :: gs)) = '|' :: '|' :: ' ' :: orJoin (g2 :: gs) := by
        simp [dropSpaces, hsp, hb]
      rw [this]
      simp only
      rw [htl']
      simp [dropSpaces, hsp, hs2.2.2.2.2.2]
    simp only [hos]
    have := ih g2 (fun x hx => hall x (by simp [hx])) [] k
    simp only [needO, List.reverse_nil, List.nil_append] at this
    rw [this]
    simp

theorem length_orJoin (gs : List (List Char)) (h : gs ≠ []) : (orJoin gs).length + 1 ≥ needO gs := by
  induction gs with
  | nil => exact absurd rfl h
  | cons a rest ih =>
    cases rest with
    | nil => simp [orJoin, needO]
    | cons b rs =>
      have := ih (by simp)
      simp only [orJoin, needO, List.length_append, List.length_cons] at this ⊢
      omega

/-- **the `||` split**: groups joined by ` || ` are split back into the groups -/
theorem splitOr_groups (gs : List (List Char)) (hne : gs ≠ []) (hall : ∀ x ∈ gs, GroupOK x) :
    splitOr (orJoin gs) = gs := by
  cases gs with
  | nil => exact absurd rfl hne
  | cons g rest =>
    unfold splitOr
    obtain ⟨k, hk⟩ : ∃ k, (orJoin (g :: rest)).length + 1 = k + needO (g :: rest) :=
      ⟨(orJoin (g :: rest)).length + 1 - needO (g :: rest), by have := length_orJoin (g :: rest) hne; omega⟩
    rw [hk]
    have := splitOrAux_groups g rest hall [] k
    simpa using this

end Poetry
