/-
Combining discharged fragments: the leaf facts for two invariants whose leaves never share a variable (and
are never the python_version/python_full_version pairing) give the leaf facts for their disjunction —
`_merge_single_markers` does not merge leaves on different variables, and `__eq__` compares the names.
-/
import PoetryVerif.Proofs.MarkerAlgSoundExtra

set_option linter.unusedSimpArgs false
set_option linter.unusedVariables false

namespace Poetry.Marker

/-- the python_version / python_full_version pairing test of `_merge_single_markers` -/
def pyPair (a b : Leaf) : Bool :=
  (a.name == "python_version" && b.name == "python_full_version") ||
  (a.name == "python_full_version" && b.name == "python_version")

theorem mergeLeaves_diff_names (l1 l2 : Leaf) (im : Bool) (hp : pyPair l1 l2 = false)
    (hn : (l1.name != l2.name) = true) : mergeLeaves l1 l2 im = .ok none := by
  simp only [mergeLeaves]
  rw [mergeSingle.eq_def]
  dsimp only
  simp only [pyPair] at hp
  rw [hp, if_neg Bool.false_ne_true, if_pos hn]

theorem Leaf.beq_name {a b : Leaf} (h : Leaf.beq a b = true) : a.name = b.name := by
  cases a <;> cases b <;> simp_all [Leaf.beq, Leaf.name]

/-- two name-disjoint fragments combine -/
theorem LeafSpec.or {ev : Leaf → Bool} {G1 G2 : Leaf → Prop} (S1 : LeafSpec ev G1) (S2 : LeafSpec ev G2)
    (hd : ∀ a b, G1 a → G2 b → (a.name != b.name) = true ∧ pyPair a b = false ∧ pyPair b a = false) :
    LeafSpec ev (fun l => G1 l ∨ G2 l) where
  congr := by
    intro a b ha hb h
    have hn := Leaf.beq_name h
    rcases ha with ha | ha <;> rcases hb with hb | hb
    · exact S1.congr a b ha hb h
    · have := (hd a b ha hb).1; simp [hn] at this
    · have := (hd b a hb ha).1; simp [hn] at this
    · exact S2.congr a b ha hb h
  merge := by
    intro l1 l2 im r h1 h2 h
    rcases h1 with h1 | h1 <;> rcases h2 with h2 | h2
    · obtain ⟨g, e⟩ := S1.merge l1 l2 im r h1 h2 h
      exact ⟨M.good_mono (fun l hl => Or.inl hl) r g, e⟩
    · obtain ⟨a, b, _⟩ := hd l1 l2 h1 h2
      rw [mergeLeaves_diff_names l1 l2 im b a] at h; cases h
    · obtain ⟨a, _, c⟩ := hd l2 l1 h2 h1
      have a' : (l1.name != l2.name) = true := by
        simp only [bne_iff_ne, ne_eq] at a ⊢; exact fun e => a e.symm
      rw [mergeLeaves_diff_names l1 l2 im c a'] at h; cases h
    · obtain ⟨g, e⟩ := S2.merge l1 l2 im r h1 h2 h
      exact ⟨M.good_mono (fun l hl => Or.inr hl) r g, e⟩

/-- plain string variables and plain `extra` leaves together -/
def PlainLeaf (E : Env) (l : Leaf) : Prop := PlainStrLeaf E l ∨ XLeafW PlainValue l

theorem xLeaf_name {l : Leaf} (h : XLeaf l) : l.name = "extra" := by
  cases l with
  | single s => exact h.1
  | amulti n c => exact h.1
  | aunion n c => exact h.1

theorem leafSpec_plain {E : Env} {ex : List String} (hE : E.extras = some ex) :
    LeafSpec (leafEval E) (PlainLeaf E) := by
  refine LeafSpec.or (leafSpec_strPlain E) (leafSpec_extraPlain hE) ?_
  intro a b ha hb
  obtain ⟨hx, hp, _⟩ := strLeaf_view ha.1
  have hb' := xLeaf_name hb.1
  obtain ⟨p1, p2⟩ := isPyName_false hp
  refine ⟨?_, ?_, ?_⟩
  · rw [hb']; simpa using hx
  · simp [pyPair, p1, p2]
  · simp [pyPair, p1, p2]

theorem plainLeaf_evaluable {E : Env} {ex : List String} (hE : E.extras = some ex) {l : Leaf}
    (h : PlainLeaf E l) : ∃ b, l.validate E = .ok b := by
  rcases h with h | h
  · exact plainStrLeaf_evaluable h
  · exact xLeaf_evaluable mkExtraOKW_plain hE h

end Poetry.Marker
