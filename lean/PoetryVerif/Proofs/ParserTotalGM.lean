/-
Helper lemmas for C19 (version / generic-constraint / marker part): which error values the parsers of
`Model/Version.lean`, `Model/Generic.lean`, `Model/MarkerSyn.lean`, `Model/Marker.lean` can return, and
that what they return can be printed.
-/
import PoetryVerif.Proofs.Generic
import PoetryVerif.Proofs.VersionParse
import PoetryVerif.Model.MarkerAlg
import PoetryVerif.Proofs.MarkerEval

set_option linter.unusedSimpArgs false
set_option linter.unusedVariables false

namespace Poetry.ParserTotal
open Poetry

/-! ## version parser -/

theorem version_parse_err (s : String) (e : PyErr) (h : Version.parse s = .error e) : e = .value := by
  unfold Version.parse at h
  simp only at h
  split at h
  · cases h; rfl
  · split at h
    · cases h
    · cases h; rfl

/-! ## generic constraint parser -/

open Generic

/-- facts about the extracted tables (re-checked whenever `Generated.lean` is regenerated) -/
theorem lookup_basic_ops :
    Op.lookup "!=" = .ok .ne ∧ Op.lookup "==" = .ok .eq ∧ Op.lookup "in" = .ok .in_ ∧
    Op.lookup "not in" = .ok .nc := ⟨rfl, rfl, rfl, rfl⟩

theorem mapE_length {α β : Type} (f : α → PyM β) : ∀ (l : List α) (r : List β), mapE f l = .ok r →
    r.length = l.length := by
  intro l
  induction l with
  | nil => intro r h; simp [mapE] at h; subst h; rfl
  | cons a as ih =>
    intro r h
    unfold mapE at h
    cases hfa : f a with
    | error e => simp [hfa] at h
    | ok b =>
      cases hr : mapE f as with
      | error e => simp [hfa, hr] at h
      | ok bs =>
        simp [hfa, hr] at h
        subst h
        simp [ih bs hr]

theorem mapE_err {α β : Type} (f : α → PyM β) (e : PyErr) : ∀ (l : List α), mapE f l = .error e →
    ∃ a ∈ l, f a = .error e := by
  intro l
  induction l with
  | nil => intro h; simp [mapE] at h
  | cons a as ih =>
    intro h
    unfold mapE at h
    cases hfa : f a with
    | error e' => simp [hfa] at h; subst h; exact ⟨a, by simp, hfa⟩
    | ok b =>
      cases hr : mapE f as with
      | error e' =>
        simp [hfa, hr] at h; subst h
        obtain ⟨a', ha', hfa'⟩ := ih hr
        exact ⟨a', by simp [ha'], hfa'⟩
      | ok bs => simp [hfa, hr] at h

theorem mapE_ok_mem {α β : Type} (f : α → PyM β) : ∀ (l : List α) (r : List β), mapE f l = .ok r →
    ∀ b ∈ r, ∃ a ∈ l, f a = .ok b := by
  intro l
  induction l with
  | nil => intro r h b hb; simp [mapE] at h; subst h; simp at hb
  | cons a as ih =>
    intro r h b hb
    unfold mapE at h
    cases hfa : f a with
    | error e => simp [hfa] at h
    | ok b' =>
      cases hr : mapE f as with
      | error e => simp [hfa, hr] at h
      | ok bs =>
        simp [hfa, hr] at h
        subst h
        simp at hb
        rcases hb with rfl | hb
        · exact ⟨a, by simp, hfa⟩
        · obtain ⟨a', ha', hfa'⟩ := ih bs hr b hb
          exact ⟨a', by simp [ha'], hfa'⟩

/-- `re.split` returns at least one piece -/
theorem splitBy_ne_nil (sep : List Char → Option (List Char)) :
    ∀ (n : Nat) (l acc : List Char), splitBy sep n l acc ≠ [] := by
  intro n
  induction n with
  | zero => intro l acc; simp [splitBy]
  | succ n ih =>
    intro l acc
    cases l with
    | nil => simp [splitBy]
    | cons c cs =>
      unfold splitBy
      cases sep (c :: cs) with
      | some rest => simp
      | none => simp; exact ih cs (c :: acc)

theorem reSplit_ne_nil (sep : List Char → Option (List Char)) (l : List Char) : reSplit sep l ≠ [] :=
  splitBy_ne_nil sep _ _ _

/-! ### the constructor and its inverse table -/

theorem mkMulti_err (x : Bool) (cs : List Atom) (e : PyErr) (h : mkMulti x cs = .error e) : e = .value := by
  unfold mkMulti at h
  split at h
  · cases h; rfl
  · cases h

theorem mkMulti_ok (x : Bool) (cs : List Atom) (m : GS) (h : mkMulti x cs = .ok m) :
    m = .multi x cs ∧ ∀ c ∈ cs, (multiOps x).contains c.op.str = true := by
  unfold mkMulti at h
  split at h
  · cases h
  · rename_i hn
    cases h
    refine ⟨rfl, ?_⟩
    intro c hc
    simp only [List.any_eq_true, not_exists, not_and] at hn
    have := hn c hc
    simpa using this

/-- `Constraint.invert` on any atom: only `ValueError` (an `ExtraConstraint` with `in`/`not in`), never
`KeyError` — both extracted operator tables are closed under inversion. -/
theorem atom_invert_err (a : Atom) (e : PyErr) (h : a.invert = .error e) : e = .value := by
  obtain ⟨v, op, x⟩ := a
  cases op <;> cases x
  all_goals first
    | (rw [Op.inv_eq] at h; cases h)
    | (rw [Op.inv_ne] at h; cases h)
    | (rw [Op.inv_in] at h; cases h)
    | (rw [Op.inv_nc] at h; cases h)
    | (rw [Op.inv_in_x] at h; cases h; rfl)
    | (rw [Op.inv_nc_x] at h; cases h; rfl)

theorem atom_invert_ok (a b : Atom) (h : a.invert = .ok b) : b.x = a.x := by
  obtain ⟨v, op, x⟩ := a
  cases op <;> cases x
  all_goals first
    | (rw [Op.inv_eq] at h; cases h; rfl)
    | (rw [Op.inv_ne] at h; cases h; rfl)
    | (rw [Op.inv_in] at h; cases h; rfl)
    | (rw [Op.inv_nc] at h; cases h; rfl)
    | (rw [Op.inv_in_x] at h; cases h)
    | (rw [Op.inv_nc_x] at h; cases h)

/-! ### `intersect` along the comma-separated clauses raises `ValueError` at most -/

theorem intersectA_err (a o : Atom) (e : PyErr) (h : a.intersectA o = .error e) : e = .value := by
  unfold Atom.intersectA at h
  repeat' split at h
  all_goals first
    | cases h
    | exact mkMulti_err _ _ _ h

theorem multiIntersectA_err (x : Bool) (cs : List Atom) (o : Atom) (e : PyErr)
    (h : multiIntersectA x cs o = .error e) : e = .value := by
  unfold multiIntersectA at h
  split at h
  · cases h
  · split at h
    · split at h <;> cases h
    · cases hi : o.invert with
      | error e' =>
        simp only [hi] at h
        cases h
        exact atom_invert_err o _ hi
      | ok i =>
        simp only [hi] at h
        split at h
        · cases h
        · exact mkMulti_err _ _ _ h

theorem intersectS_atom_err (c : GS) (a : Atom) (e : PyErr) (h : c.intersectS (.atom a) = .error e) :
    e = .value := by
  cases c with
  | any => simp [GS.intersectS] at h
  | empty => simp [GS.intersectS] at h
  | atom b => simp only [GS.intersectS] at h; exact intersectA_err _ _ _ h
  | multi x cs => simp only [GS.intersectS] at h; exact multiIntersectA_err _ _ _ _ h

theorem foldIntersect_err (as : List Atom) : ∀ (c : GS) (e : PyErr), foldIntersect c as = .error e →
    e = .value := by
  induction as with
  | nil => intro c e h; simp [foldIntersect] at h
  | cons a as ih =>
    intro c e h
    unfold foldIntersect at h
    cases hc : c.intersectS (.atom a) with
    | error e' => simp only [hc] at h; cases h; exact intersectS_atom_err c a _ hc
    | ok c' => simp only [hc] at h; exact ih c' e h

/-! ### one clause -/

/-- the operator text of a clause is one the `Constraint` table knows -/
def OpKnown (op : String) : Prop := ∃ o, Op.lookup (if op == "=" then "==" else op) = .ok o

theorem atom_mk_err (x : Bool) (v op : String) (e : PyErr) (h : Atom.mk? x v op = .error e) :
    e = .value ∨ (e = .key ∧ ¬ OpKnown op) := by
  unfold Atom.mk? at h
  simp only at h
  cases hl : Op.lookup (if op == "=" then "==" else op) with
  | error e' =>
    simp only [hl] at h
    cases h
    right
    constructor
    · unfold Op.lookup at hl
      split at hl
      · cases hl
      · cases hl; rfl
    · rintro ⟨o, ho⟩
      rw [hl] at ho; cases ho
  | ok o =>
    simp only [hl] at h
    split at h
    · cases h; left; rfl
    · cases h

theorem atom_mk_err_known (x : Bool) (v op : String) (e : PyErr) (hop : OpKnown op)
    (h : Atom.mk? x v op = .error e) : e = .value := by
  rcases atom_mk_err x v op e h with h | ⟨_, h⟩
  · exact h
  · exact absurd hop h

theorem opKnown_basic : OpKnown "!=" ∧ OpKnown "==" ∧ OpKnown "=" ∧ OpKnown "in" ∧ OpKnown "not in" := by
  refine ⟨⟨.ne, rfl⟩, ⟨.eq, rfl⟩, ⟨.eq, rfl⟩, ⟨.in_, rfl⟩, ⟨.nc, rfl⟩⟩

theorem map_pair_fst {k op : Option String} {o : Option (List Char)} {v : List Char}
    (h : o.map (fun v => (k, v)) = some (op, v)) : op = k := by
  cases o with
  | none => simp at h
  | some w => simp at h; exact h.1.symm

theorem matchBasic_op (cs : List Char) (op : Option String) (v : List Char)
    (h : matchBasic cs = some (op, v)) : op = some "!=" ∨ op = some "==" ∨ op = some "=" ∨ op = none := by
  unfold matchBasic at h
  simp only at h
  split at h
  · rename_i r hr
    cases h
    split at hr
    · exact .inl (map_pair_fst hr)
    · cases hr
  · split at h
    · rename_i r hr
      cases h
      split at hr
      · exact .inr (.inl (map_pair_fst hr))
      · cases hr
    · split at h
      · rename_i r hr
        cases h
        split at hr
        · exact .inr (.inr (.inl (map_pair_fst hr)))
        · cases hr
      · exact .inr (.inr (.inr (map_pair_fst h)))

/-- one clause: `ParseConstraintError` or the constructors' `ValueError`; the operator handed to the
constructor is `in`/`not in` (clause form `'value' op`, normalised since repo fix 4011dd2) or one of
`!=`, `==`, `=`, default `==` (basic form) — all in the extracted table, so no `KeyError`. -/
theorem parseSingle_err (x : Bool) (c : List Char) (e : PyErr) (h : parseSingle x c = .error e) :
    e = .value := by
  unfold parseSingle at h
  cases hm : Generic.matchStrCmp c with
  | some p =>
    obtain ⟨v, op⟩ := p
    simp only [hm] at h
    apply atom_mk_err_known _ _ _ _ _ h
    split
    · exact opKnown_basic.2.2.2.2
    · exact opKnown_basic.2.2.2.1
  | none =>
    simp only [hm] at h
    cases hb : matchBasic c with
    | none => simp only [hb] at h; cases h; rfl
    | some p =>
      obtain ⟨op, v⟩ := p
      simp only [hb] at h
      apply atom_mk_err_known _ _ _ _ _ h
      rcases matchBasic_op c op v hb with rfl | rfl | rfl | rfl
      · exact opKnown_basic.1
      · exact opKnown_basic.2.1
      · exact opKnown_basic.2.2.1
      · exact opKnown_basic.2.1

/-! ### a group and the whole text -/

theorem parseGroup_err (x : Bool) (g : List Char) (e : PyErr) (h : parseGroup x g = .error e) :
    e = .value := by
  unfold parseGroup at h
  cases hm : mapE (parseSingle x) (reSplit sepComma g) with
  | error e' =>
    simp only [hm] at h
    cases h
    obtain ⟨c, hc, hce⟩ := mapE_err _ _ _ hm
    exact parseSingle_err x c _ hce
  | ok l =>
    simp only [hm] at h
    cases l with
    | nil =>
      have := mapE_length _ _ _ hm
      have hne := reSplit_ne_nil sepComma g
      cases hr : reSplit sepComma g with
      | nil => exact absurd hr hne
      | cons a as => rw [hr] at this; simp at this
    | cons a as =>
      simp only at h
      exact foldIntersect_err as _ _ h

theorem parseWith_err (x : Bool) (s : String) (e : PyErr) (h : parseWith x s = .error e) :
    e = .value := by
  unfold parseWith at h
  split at h
  · cases h
  · cases hm : mapE (parseGroup x) (reSplit sepOr (strip s.toList)) with
    | error e' =>
      simp only [hm] at h
      cases h
      obtain ⟨g, hg, hge⟩ := mapE_err _ _ _ hm
      exact parseGroup_err x g _ hge
    | ok l =>
      simp only [hm] at h
      cases l with
      | nil => simp at h
      | cons g gs => cases gs <;> simp at h

/-! ### what a successful parse returns (shape of the constraint object) -/

/-- a parser atom of variant `x`: it carries the variant flag, and an `ExtraConstraint` has `==`/`!=` -/
def PAtom (x : Bool) (a : Atom) : Prop := a.x = x ∧ (x = true → a.isEqNe = true)

/-- shape of a non-union constraint the parser of variant `x` returns: a `[Extra]MultiConstraint` has at
least two members, all of the variant, all with an operator from the class's `OPERATORS` table -/
def GS.wfP (x : Bool) : GS → Prop
  | .any => True
  | .empty => True
  | .atom a => PAtom x a
  | .multi y cs => y = x ∧ 2 ≤ cs.length ∧ ∀ c ∈ cs, PAtom x c ∧ (multiOps x).contains c.op.str = true

/-- … and a `UnionConstraint` has at least two members, none of them a union -/
def GC.wfP (x : Bool) : GC → Prop
  | .s c => GS.wfP x c
  | .union ms => 2 ≤ ms.length ∧ ∀ m ∈ ms, GS.wfP x m

theorem atom_mk_ok (x : Bool) (v op : String) (a : Atom) (h : Atom.mk? x v op = .ok a) : PAtom x a := by
  unfold Atom.mk? at h
  simp only at h
  cases hl : Op.lookup (if op == "=" then "==" else op) with
  | error e' => simp only [hl] at h; cases h
  | ok o =>
    simp only [hl] at h
    split at h
    · cases h
    · rename_i hn
      cases h
      refine ⟨rfl, ?_⟩
      intro hx
      subst hx
      cases o <;> simp [Op.str, Atom.isEqNe] at hn ⊢

theorem parseSingle_ok (x : Bool) (c : List Char) (a : Atom) (h : parseSingle x c = .ok a) : PAtom x a := by
  unfold parseSingle at h
  split at h
  · exact atom_mk_ok _ _ _ _ h
  · split at h
    · exact atom_mk_ok _ _ _ _ h
    · cases h

theorem intersectA_wfP (x : Bool) (a o : Atom) (ha : PAtom x a) (ho : PAtom x o) (r : GS)
    (h : a.intersectA o = .ok r) : GS.wfP x r := by
  unfold Atom.intersectA at h
  have hm : ∀ y, y = x → mkMulti y [a, o] = .ok r → GS.wfP x r := by
    intro y hy hmk
    subst hy
    obtain ⟨rfl, hops⟩ := mkMulti_ok _ _ _ hmk
    refine ⟨rfl, by simp, ?_⟩
    intro c hc
    refine ⟨?_, hops c hc⟩
    simp at hc
    rcases hc with rfl | rfl <;> assumption
  repeat' split at h
  all_goals first
    | (cases h; first | exact ha | exact ho | trivial)
    | (apply hm _ _ h; rw [← ha.1]; simp_all)

theorem multiIntersectA_wfP (x : Bool) (cs : List Atom) (o : Atom) (hcs : GS.wfP x (.multi x cs))
    (ho : PAtom x o) (r : GS) (h : multiIntersectA x cs o = .ok r) : GS.wfP x r := by
  unfold multiIntersectA at h
  split at h
  · cases h; exact hcs
  · split at h
    · split at h <;> cases h
      · exact ho
      · trivial
    · cases hi : o.invert with
      | error e' => simp only [hi] at h; cases h
      | ok i =>
        simp only [hi] at h
        split at h
        · cases h; trivial
        · obtain ⟨rfl, hops⟩ := mkMulti_ok _ _ _ h
          obtain ⟨_, hlen, hall⟩ := hcs
          refine ⟨rfl, by simp; omega, ?_⟩
          intro c hc
          refine ⟨?_, hops c hc⟩
          simp at hc
          rcases hc with hc | rfl
          · exact (hall c hc).1
          · exact ho

theorem intersectS_atom_wfP (x : Bool) (c : GS) (a : Atom) (hc : GS.wfP x c) (ha : PAtom x a) (r : GS)
    (h : c.intersectS (.atom a) = .ok r) : GS.wfP x r := by
  cases c with
  | any => simp [GS.intersectS] at h; subst h; exact ha
  | empty => simp [GS.intersectS] at h; subst h; trivial
  | atom b => simp only [GS.intersectS] at h; exact intersectA_wfP x b a hc ha r h
  | multi y cs =>
    simp only [GS.intersectS] at h
    obtain ⟨rfl, h2⟩ := hc
    exact multiIntersectA_wfP _ cs a ⟨rfl, h2⟩ ha r h

theorem foldIntersect_wfP (x : Bool) (as : List Atom) (has : ∀ a ∈ as, PAtom x a) :
    ∀ (c r : GS), GS.wfP x c → foldIntersect c as = .ok r → GS.wfP x r := by
  induction as with
  | nil => intro c r hc h; simp [foldIntersect] at h; subst h; exact hc
  | cons a as ih =>
    intro c r hc h
    unfold foldIntersect at h
    cases hi : c.intersectS (.atom a) with
    | error e' => simp only [hi] at h; cases h
    | ok c' =>
      simp only [hi] at h
      exact ih (fun b hb => has b (by simp [hb])) c' r
        (intersectS_atom_wfP x c a hc (has a (by simp)) c' hi) h

theorem parseGroup_wfP (x : Bool) (g : List Char) (r : GS) (h : parseGroup x g = .ok r) : GS.wfP x r := by
  unfold parseGroup at h
  cases hm : mapE (parseSingle x) (reSplit sepComma g) with
  | error e' => simp only [hm] at h; cases h
  | ok l =>
    simp only [hm] at h
    have hall : ∀ a ∈ l, PAtom x a := by
      intro a ha
      obtain ⟨c, _, hc⟩ := mapE_ok_mem _ _ _ hm a ha
      exact parseSingle_ok x c a hc
    cases l with
    | nil => cases h
    | cons a as =>
      simp only at h
      exact foldIntersect_wfP x as (fun b hb => hall b (by simp [hb])) (.atom a) r (hall a (by simp)) h

theorem parseWith_wfP (x : Bool) (s : String) (c : GC) (h : parseWith x s = .ok c) : GC.wfP x c := by
  unfold parseWith at h
  split at h
  · cases h; trivial
  · cases hm : mapE (parseGroup x) (reSplit sepOr (strip s.toList)) with
    | error e' => simp only [hm] at h; cases h
    | ok l =>
      simp only [hm] at h
      have hall : ∀ m ∈ l, GS.wfP x m := by
        intro m hm'
        obtain ⟨g, _, hg⟩ := mapE_ok_mem _ _ _ hm m hm'
        exact parseGroup_wfP x g m hg
      have hlen := mapE_length _ _ _ hm
      have hne := reSplit_ne_nil sepOr (strip s.toList)
      cases l with
      | nil =>
        cases hr : reSplit sepOr (strip s.toList) with
        | nil => exact absurd hr hne
        | cons a as => rw [hr] at hlen; simp at hlen
      | cons g gs =>
        cases gs with
        | nil => simp at h; subst h; exact hall g (by simp)
        | cons g' gs' => simp at h; subst h; exact ⟨by simp, hall⟩

/-! ## marker grammar and leaf construction -/

open Marker

theorem parseText_err (s : String) (e : PyErr) (h : parseText s = .error e) : e = .syntax := by
  unfold parseText at h
  simp only at h
  split at h
  · split at h
    · cases h
    · cases h; rfl
  · cases h; rfl

/-- the version-constraint parser raises `ValueError` at most (established for `VParser` separately) -/
def VCErrDocumented : Prop := ∀ s e, VParser.parseMarkerVersionConstraint s = .error e → e = .value

theorem leafPrepare_err (name cstr : String) (sw : Bool) (e : PyErr)
    (h : leafPrepare name cstr sw = .error e) : e = .value := by
  unfold leafPrepare at h
  simp only at h
  repeat' split at h
  all_goals first
    | (cases h; done)
    | (cases h; rfl)

theorem leafPrepare_kind (name cstr : String) (sw : Bool) (p : LeafPrep)
    (h : leafPrepare name cstr sw = .ok p) (hk : p.kind = .version false) : name = "platform_release" := by
  unfold leafPrepare at h
  simp only at h
  repeat' split at h
  all_goals first
    | (cases h; done)
    | (cases h
       simp only at hk
       first
         | (cases hk; done)
         | (split at hk <;> cases hk)
         | (simp only [LeafKind.version.injEq, bne_eq_false_iff_eq] at hk; exact hk))

theorem parseVersionKind_err (hvc : VCErrDocumented) (p : Bool) (s : String) (e : PyErr)
    (h : parseVersionKind p s = .error e) : e = .value ∨ (e = .unmodelled ∧ p = false) := by
  unfold parseVersionKind at h
  split at h
  · split at h
    · cases h; exact .inl rfl
    · rename_i hp; cases h; right; exact ⟨rfl, by simpa using hp⟩
  · exact .inl (hvc s e h)

theorem except_map_err {α β : Type} (f : α → β) (x : PyM α) (e : PyErr)
    (h : (x.map f) = .error e) : x = .error e := by
  cases x with
  | error e' => simpa [Except.map] using h
  | ok a => simp [Except.map] at h

theorem except_functor_map_err {α β : Type} (f : α → β) (x : PyM α) (e : PyErr)
    (h : (f <$> x) = .error e) : x = .error e := except_map_err f x e h

theorem parseByKind_err (hvc : VCErrDocumented) (k : LeafKind) (s : String) (e : PyErr)
    (h : parseByKind k s = .error e) :
    e = .value ∨ (e = .unmodelled ∧ k = .version false) := by
  unfold parseByKind at h
  cases k with
  | version p =>
    simp only at h
    have h' := except_map_err _ _ _ h
    rcases parseVersionKind_err hvc p s e h' with h1 | ⟨h1, h2⟩
    · exact .inl h1
    · exact .inr ⟨h1, by rw [h2]⟩
  | extra =>
    simp only at h
    exact .inl (parseWith_err true s e (except_map_err _ _ _ h))
  | generic =>
    simp only at h
    exact .inl (parseWith_err false s e (except_map_err _ _ _ h))

/-- errors of `SingleMarker(name, constraint_string, swapped)` -/
theorem mkSingle_err (hvc : VCErrDocumented) (name cstr : String) (sw : Bool) (e : PyErr)
    (h : mkSingle name cstr sw = .error e) :
    e = .value ∨ (e = .unmodelled ∧ name = "platform_release") := by
  unfold mkSingle at h
  cases hp : leafPrepare name cstr sw with
  | error e' =>
    simp only [hp, bind, Except.bind] at h
    cases h
    exact .inl (leafPrepare_err _ _ _ _ hp)
  | ok p =>
    simp only [hp, bind, Except.bind] at h
    cases hc : parseByKind p.kind p.cstr with
    | error e' =>
      simp only [hc] at h
      cases h
      rcases parseByKind_err hvc _ _ _ hc with h1 | ⟨h1, h2⟩
      · exact .inl h1
      · exact .inr ⟨h1, leafPrepare_kind _ _ _ _ hp h2⟩
    | ok c => simp only [hc, pure, Except.pure] at h; cases h

/-- the two outcomes a failing leaf has: `ValueError`, or the text leaves the model -/
def LeafErr (e : PyErr) : Prop := e = .value ∨ e = .unmodelled

theorem mkSingle_leafErr (hvc : VCErrDocumented) (name cstr : String) (sw : Bool) (e : PyErr)
    (h : mkSingle name cstr sw = .error e) : LeafErr e := by
  rcases mkSingle_err hvc name cstr sw e h with h | ⟨h, _⟩
  · exact .inl h
  · exact .inr h

/-! ### `_compact_markers` -/

mutual
theorem compactAtom_err (hvc : VCErrDocumented) : ∀ (a : Marker.Atom) (e : PyErr),
    compactAtom a = .error e → LeafErr e
  | .item n op v sw, e, h => by
    unfold compactAtom at h
    cases hs : mkSingle n (itemConstraintString op v sw) sw with
    | error e' =>
      simp only [hs, bind, Except.bind] at h
      cases h
      exact mkSingle_leafErr hvc _ _ _ _ hs
    | ok s => simp only [hs, bind, Except.bind, pure, Except.pure] at h; cases h
  | .paren m, e, h => by
    unfold compactAtom at h
    cases hg : compactGroups m with
    | error e' =>
      simp only [hg, bind, Except.bind] at h
      cases h
      exact compactGroups_err hvc m _ hg
    | ok gs => simp only [hg, bind, Except.bind, pure, Except.pure] at h; cases h
theorem compactGroups_err (hvc : VCErrDocumented) : ∀ (s : Syn) (e : PyErr),
    compactGroups s = .error e → LeafErr e
  | .one a, e, h => by
    unfold compactGroups at h
    cases ha : compactAtom a with
    | error e' =>
      simp only [ha, bind, Except.bind] at h
      cases h
      exact compactAtom_err hvc a _ ha
    | ok x => simp only [ha, bind, Except.bind, pure, Except.pure] at h; cases h
  | .more a isOr rest, e, h => by
    unfold compactGroups at h
    cases ha : compactAtom a with
    | error e' =>
      simp only [ha, bind, Except.bind] at h
      cases h
      exact compactAtom_err hvc a _ ha
    | ok x =>
      simp only [ha, bind, Except.bind] at h
      cases hg : compactGroups rest with
      | error e' =>
        simp only [hg] at h
        cases h
        exact compactGroups_err hvc rest _ hg
      | ok gs =>
        simp only [hg, pure, Except.pure] at h
        split at h
        · cases h
        · split at h <;> cases h
end

theorem compactSubMarkers_err (hvc : VCErrDocumented) (m : Syn) (e : PyErr)
    (h : compactSubMarkers m = .error e) : LeafErr e := by
  unfold compactSubMarkers at h
  cases hg : compactGroups m with
  | error e' =>
    simp only [hg, bind, Except.bind] at h
    cases h
    exact compactGroups_err hvc m _ hg
  | ok gs => simp only [hg, bind, Except.bind, pure, Except.pure] at h; cases h

theorem compactRaw_err (hvc : VCErrDocumented) (m : Syn) (e : PyErr)
    (h : compactRaw m = .error e) : LeafErr e := by
  unfold compactRaw at h
  cases hg : compactSubMarkers m with
  | error e' =>
    simp only [hg, bind, Except.bind] at h
    cases h
    exact compactSubMarkers_err hvc m _ hg
  | ok gs => simp only [hg, bind, Except.bind, pure, Except.pure] at h; cases h

/-! ### raw markers print -/

mutual
/-- the marker objects `_compact_markers(…, top_level=False)` builds: `SingleMarker` leaves under
`MultiMarker` / `MarkerUnion` nodes (no `AtomicMultiMarker`/`AtomicMarkerUnion`, no any/empty) -/
def RawM : M → Bool
  | .leaf (.single _) => true
  | .multi ms => RawMList ms
  | .union ms => RawMList ms
  | _ => false
def RawMList : List M → Bool
  | [] => true
  | m :: ms => RawM m && RawMList ms
end

theorem rawMList_iff (ms : List M) : RawMList ms = true ↔ ∀ m ∈ ms, RawM m = true := by
  induction ms with
  | nil => simp [RawMList]
  | cons m ms ih => simp [RawMList, ih]

theorem appendNew_raw (ms : List M) : ∀ (acc : List M), (∀ m ∈ acc, RawM m = true) →
    (∀ m ∈ ms, RawM m = true) → ∀ m ∈ appendNew acc ms, RawM m = true := by
  induction ms with
  | nil => intro acc hacc _; simpa [appendNew] using hacc
  | cons x xs ih =>
    intro acc hacc hms
    have hx := hms x (by simp)
    have hxs : ∀ m ∈ xs, RawM m = true := fun m hm => hms m (by simp [hm])
    simp only [appendNew, List.foldl_cons]
    split
    · exact ih acc hacc hxs
    · apply ih _ _ hxs
      intro m hm
      simp at hm
      rcases hm with hm | rfl
      · exact hacc m hm
      · exact hx

theorem flattenAux_raw (b : Bool) (ms acc : List M) (hms : RawMList ms = true)
    (hacc : ∀ m ∈ acc, RawM m = true) : ∀ m ∈ flattenAux b ms acc, RawM m = true := by
  fun_induction flattenAux b ms acc with
  | case1 acc => simpa using hacc
  | case2 rest acc inner hb ih1 ih2 =>
    subst hb
    simp only [RawMList, RawM, Bool.and_eq_true] at hms
    exact ih2 hms.2 (appendNew_raw _ _ hacc (ih1 hms.1 (by simp)))
  | case3 rest acc inner hb ih1 ih2 =>
    subst hb
    simp only [RawMList, RawM, Bool.and_eq_true] at hms
    exact ih2 hms.2 (appendNew_raw _ _ hacc (ih1 hms.1 (by simp)))
  | case4 rest acc m _ _ ih =>
    simp only [RawMList, Bool.and_eq_true] at hms
    apply ih hms.2
    split
    · exact hacc
    · intro m' hm'
      simp at hm'
      rcases hm' with hm' | rfl
      · exact hacc m' hm'
      · exact hms.1

theorem mkUnion_raw (ms : List M) (h : ∀ m ∈ ms, RawM m = true) : RawM (mkUnion ms) = true := by
  unfold mkUnion flattenMarkers
  simp only [RawM]
  rw [rawMList_iff]
  exact flattenAux_raw false ms [] ((rawMList_iff ms).2 h) (by simp)

theorem mkMulti_raw (ms : List M) (h : ∀ m ∈ ms, RawM m = true) : RawM (Marker.mkMulti ms) = true := by
  unfold Marker.mkMulti flattenMarkers
  simp only [RawM]
  rw [rawMList_iff]
  exact flattenAux_raw true ms [] ((rawMList_iff ms).2 h) (by simp)

theorem groupMarker_raw (ms : List M) (h : ∀ m ∈ ms, RawM m = true) : RawM (groupMarker ms) = true := by
  unfold groupMarker
  split
  · exact h _ (by simp)
  · exact mkMulti_raw ms h

theorem map_groupMarker_raw (gs : List (List M)) (h : ∀ g ∈ gs, ∀ m ∈ g, RawM m = true) :
    ∀ m ∈ gs.map groupMarker, RawM m = true := by
  intro m hm
  simp at hm
  obtain ⟨g, hg, rfl⟩ := hm
  exact groupMarker_raw g (h g hg)

mutual
theorem compactAtom_raw : ∀ (a : Marker.Atom) (m : M), compactAtom a = .ok m → RawM m = true
  | .item n op v sw, m, h => by
    unfold compactAtom at h
    cases hs : mkSingle n (itemConstraintString op v sw) sw with
    | error e' => simp only [hs, bind, Except.bind] at h; cases h
    | ok s => simp only [hs, bind, Except.bind, pure, Except.pure] at h; cases h; rfl
  | .paren syn, m, h => by
    unfold compactAtom at h
    cases hg : compactGroups syn with
    | error e' => simp only [hg, bind, Except.bind] at h; cases h
    | ok gs =>
      simp only [hg, bind, Except.bind, pure, Except.pure] at h
      cases h
      exact mkUnion_raw _ (map_groupMarker_raw gs (compactGroups_raw syn gs hg))
theorem compactGroups_raw : ∀ (s : Syn) (gs : List (List M)), compactGroups s = .ok gs →
    ∀ g ∈ gs, ∀ m ∈ g, RawM m = true
  | .one a, gs, h => by
    unfold compactGroups at h
    cases ha : compactAtom a with
    | error e' => simp only [ha, bind, Except.bind] at h; cases h
    | ok x =>
      simp only [ha, bind, Except.bind, pure, Except.pure] at h
      cases h
      have := compactAtom_raw a x ha
      simpa using this
  | .more a isOr rest, gs, h => by
    unfold compactGroups at h
    cases ha : compactAtom a with
    | error e' => simp only [ha, bind, Except.bind] at h; cases h
    | ok x =>
      simp only [ha, bind, Except.bind] at h
      have hx := compactAtom_raw a x ha
      cases hg : compactGroups rest with
      | error e' => simp only [hg] at h; cases h
      | ok gs' =>
        have hrest := compactGroups_raw rest gs' hg
        simp only [hg, pure, Except.pure] at h
        split at h
        · cases h
          intro g hg' m hm
          simp at hg'
          rcases hg' with rfl | hg'
          · simp at hm; subst hm; exact hx
          · exact hrest g hg' m hm
        · split at h
          · rename_i g gs'' 
            cases h
            intro g' hg' m hm
            simp at hg'
            rcases hg' with rfl | hg'
            · simp at hm
              rcases hm with rfl | hm
              · exact hx
              · exact hrest g (by simp) m hm
            · exact hrest g' (by simp [hg']) m hm
          · cases h
            intro g' hg' m hm
            simp at hg'
            subst hg'
            simp at hm; subst hm; exact hx
end

theorem compactSubMarkers_raw (syn : Syn) (subs : List M) (h : compactSubMarkers syn = .ok subs) :
    ∀ m ∈ subs, RawM m = true := by
  unfold compactSubMarkers at h
  cases hg : compactGroups syn with
  | error e' => simp only [hg, bind, Except.bind] at h; cases h
  | ok gs =>
    simp only [hg, bind, Except.bind, pure, Except.pure] at h
    cases h
    exact map_groupMarker_raw gs (compactGroups_raw syn gs hg)

theorem compactRaw_raw (syn : Syn) (m : M) (h : compactRaw syn = .ok m) : RawM m = true := by
  unfold compactRaw at h
  cases hg : compactSubMarkers syn with
  | error e' => simp only [hg, bind, Except.bind] at h; cases h
  | ok subs =>
    simp only [hg, bind, Except.bind, pure, Except.pure] at h
    cases h
    exact mkUnion_raw _ (compactSubMarkers_raw syn subs hg)

mutual
theorem raw_toStr : ∀ (m : M), RawM m = true → ∃ t, M.toStr m = .ok t
  | .any, h => by simp [RawM] at h
  | .empty, h => by simp [RawM] at h
  | .leaf (.single s), _ => by simp [M.toStr, Leaf.toStr]
  | .leaf (.amulti _ _), h => by simp [RawM] at h
  | .leaf (.aunion _ _), h => by simp [RawM] at h
  | .multi ms, h => by
    obtain ⟨ps, hps⟩ := raw_toStrMultiParts ms (by simpa [RawM] using h)
    simp [M.toStr, hps, bind, Except.bind, pure, Except.pure]
  | .union ms, h => by
    obtain ⟨ps, hps⟩ := raw_toStrList ms (by simpa [RawM] using h)
    simp [M.toStr, hps, bind, Except.bind, pure, Except.pure]
theorem raw_toStrMultiParts : ∀ (ms : List M), RawMList ms = true → ∃ ps, M.toStrMultiParts ms = .ok ps
  | [], _ => ⟨[], by simp [M.toStrMultiParts]⟩
  | m :: ms, h => by
    simp only [RawMList, Bool.and_eq_true] at h
    obtain ⟨t, ht⟩ := raw_toStr m h.1
    obtain ⟨ps, hps⟩ := raw_toStrMultiParts ms h.2
    simp [M.toStrMultiParts, ht, hps, bind, Except.bind, pure, Except.pure]
theorem raw_toStrList : ∀ (ms : List M), RawMList ms = true → ∃ ps, M.toStrList ms = .ok ps
  | [], _ => ⟨[], by simp [M.toStrList]⟩
  | m :: ms, h => by
    simp only [RawMList, Bool.and_eq_true] at h
    obtain ⟨t, ht⟩ := raw_toStr m h.1
    obtain ⟨ps, hps⟩ := raw_toStrList ms h.2
    simp [M.toStrList, ht, hps, bind, Except.bind, pure, Except.pure]
end

/-! ### `parse_marker` -/

/-- `parse_marker` = special texts, else grammar, then leaf construction, then the simplifier -/
theorem parseMarker_cases (s : String) (r : PyM M) (h : parseMarker s = r) :
    (s = "<empty>" ∧ r = .ok .empty) ∨
    (s ≠ "<empty>" ∧ (s.isEmpty = true ∨ s = "*") ∧ r = .ok .any) ∨
    (s ≠ "<empty>" ∧ s.isEmpty = false ∧ s ≠ "*" ∧
      ((∃ e, parseText s = .error e ∧ r = .error e) ∨
       (∃ syn e, parseText s = .ok syn ∧ compactSubMarkers syn = .error e ∧ r = .error e) ∨
       (∃ syn subs, parseText s = .ok syn ∧ compactSubMarkers syn = .ok subs ∧
          r = unionF defaultFuel [] subs))) := by
  unfold parseMarker at h
  by_cases h1 : s = "<empty>"
  · left; subst h1; simp at h; exact ⟨rfl, h.symm⟩
  · right
    simp only [beq_iff_eq, h1, if_false] at h
    by_cases h2 : s.isEmpty = true ∨ s = "*"
    · left
      simp only [Bool.or_eq_true, beq_iff_eq, h2, if_true] at h
      exact ⟨h1, h2, h.symm⟩
    · right
      simp only [Bool.or_eq_true, beq_iff_eq, h2, if_false] at h
      have h2' : s.isEmpty = false ∧ s ≠ "*" := by
        constructor
        · cases hs : s.isEmpty with
          | true => exact absurd (.inl hs) h2
          | false => rfl
        · intro hs; exact h2 (.inr hs)
      refine ⟨h1, h2'.1, h2'.2, ?_⟩
      cases hp : parseText s with
      | error e => left; simp only [hp, bind, Except.bind] at h; exact ⟨e, rfl, h.symm⟩
      | ok syn =>
        right
        simp only [hp, bind, Except.bind] at h
        cases hc : compactSubMarkers syn with
        | error e => left; simp only [hc] at h; exact ⟨syn, e, rfl, hc, h.symm⟩
        | ok subs => right; simp only [hc] at h; exact ⟨syn, subs, rfl, hc, h.symm⟩

theorem parseText_text (s : String) (v : Version) (h : Version.parse s = .ok v) : v.text = s := by
  unfold Version.parse at h
  simp only at h
  split at h
  · cases h
  · rename_i v' rest hb
    split at h
    · cases h
      unfold Version.parseBody at hb
      split at hb
      · cases hb
      · simp only [Option.some.injEq, Prod.mk.injEq] at hb
        rw [← hb.1]
    · cases h

theorem parseMarker_of_leaf_err (s : String) (syn : Syn) (e : PyErr) (h1 : s ≠ "<empty>")
    (h2 : s.isEmpty = false) (h3 : s ≠ "*") (hp : parseText s = .ok syn)
    (hc : compactSubMarkers syn = .error e) : parseMarker s = .error e := by
  unfold parseMarker
  simp [h1, h2, h3, hp, hc, bind, Except.bind]

theorem parseMarker_of_syntax_err (s : String) (e : PyErr) (h1 : s ≠ "<empty>")
    (h2 : s.isEmpty = false) (h3 : s ≠ "*") (hp : parseText s = .error e) : parseMarker s = .error e := by
  unfold parseMarker
  simp [h1, h2, h3, hp, bind, Except.bind]

/-! ### decidable equality for kernel evaluation of the `example`s (`decide +kernel`) -/

-- derived inside this module's own namespace under `ParserTotal.DecEq` and only `scoped`-visible, so that it cannot
-- clash with the instance another module (Props/C06.lean) derives for the same types
namespace DecEq
deriving instance DecidableEq for Marker.Atom, Marker.Syn
end DecEq
open DecEq

/-- scoped, so that it cannot clash with an instance declared elsewhere -/
scoped instance exceptDecEq {ε α : Type} [DecidableEq ε] [DecidableEq α] : DecidableEq (Except ε α)
  | .ok a, .ok b => if h : a = b then isTrue (by rw [h]) else isFalse (by intro h'; cases h'; exact h rfl)
  | .error a, .error b => if h : a = b then isTrue (by rw [h]) else isFalse (by intro h'; cases h'; exact h rfl)
  | .ok _, .error _ => isFalse (by intro h; cases h)
  | .error _, .ok _ => isFalse (by intro h; cases h)

end Poetry.ParserTotal
