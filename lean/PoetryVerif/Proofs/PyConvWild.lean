/-
Wildcard Python ranges through poetry's own evaluation (helper lemmas for C11): the trees `create_nested_marker`
prints for ranges with dev-release bounds, their value under `_compact_markers` + `validate`, and the composition with
C07's `union` soundness.
-/
import PoetryVerif.Proofs.PyConvDevLeaf

set_option linter.unusedSimpArgs false
set_option linter.unusedVariables false

namespace Poetry.Marker
open Poetry Poetry.Version Poetry.VParser Std

/-! ### trees of items with a value under poetry's own evaluation -/

/-- the item builds a coherent leaf whose `validate` on `E` is `b` -/
def ItemVal (E : Env) (n op v : String) (b : Bool) : Prop :=
  itemV E n op v false = .ok b ∧ itemCoherent n op v false = true

mutual
/-- every item of the tree has a value -/
def AtomVal (E : Env) : Atom → Prop
  | .item n op v sw => sw = false ∧ ∃ b, ItemVal E n op v b
  | .paren m => SynVal E m
def SynVal (E : Env) : Syn → Prop
  | .one a => AtomVal E a
  | .more a _ rest => AtomVal E a ∧ SynVal E rest
end

mutual
theorem atomVal_items (E : Env) : ∀ a : Atom, AtomVal E a → AtomItems (CompLeaf E) a ∧ a.coh = true
  | .item n op v sw, h => by
    simp only [AtomVal] at h
    obtain ⟨rfl, b, hb, hc⟩ := h
    refine ⟨?_, by simpa [Atom.coh] using hc⟩
    intro s hs
    simp only [itemV, hs] at hb
    simp only [itemCoherent, hs] at hc
    exact ⟨s, rfl, hc, ⟨b, by simpa [Leaf.validate] using hb⟩, by
      show aliasName s.name = s.name
      rw [mkSingle_name' _ _ _ _ hs, aliasName_idem]⟩
  | .paren m, h => by
    have := synVal_items E m (by simpa [AtomVal] using h)
    exact ⟨by simpa [AtomItems] using this.1, by simpa [Atom.coh] using this.2⟩
theorem synVal_items (E : Env) : ∀ s : Syn, SynVal E s → SynItems (CompLeaf E) s ∧ s.coh = true
  | .one a, h => by
    have := atomVal_items E a (by simpa [SynVal] using h)
    exact ⟨by simpa [SynItems] using this.1, by simpa [Syn.coh] using this.2⟩
  | .more a _ rest, h => by
    simp only [SynVal] at h
    have h1 := atomVal_items E a h.1
    have h2 := synVal_items E rest h.2
    exact ⟨⟨h1.1, h2.1⟩, by simp [Syn.coh, h1.2, h2.2]⟩
end

/-- **`parse_marker` of a text whose items have values**: the marker satisfies `CompLeaf E` and validates to the lazy
value `synV` of the tree (C06's compaction, C07's `union` soundness) -/
theorem parseMarker_synV (E : Env) (S : LeafSpec (leafEval E) (CompLeaf E)) (txt : String) (syn : Syn) (m : M)
    (b : Bool) (hne : txt.isEmpty = false) (hp : parseText txt = .ok syn) (hv : SynVal E syn)
    (hb : synV E (.ok true) syn = .ok b) (hm : parseMarker txt = .ok m) :
    M.Good (CompLeaf E) m ∧ M.validate E m = .ok b := by
  have h1 : (txt == "<empty>") = false := by
    cases h : txt == "<empty>" with
    | false => rfl
    | true =>
      have : txt = "<empty>" := by simpa using h
      subst this
      have : parseText "<empty>" = .error .syntax := rfl
      rw [this] at hp; cases hp
  have h2 : (txt == "*") = false := by
    cases h : txt == "*" with
    | false => rfl
    | true =>
      have : txt = "*" := by simpa using h
      subst this
      have : parseText "*" = .error .syntax := rfl
      rw [this] at hp; cases hp
  simp only [parseMarker, h1, hne, h2, Bool.false_eq_true, if_false, Bool.or_false, hp, bind, Except.bind] at hm
  split at hm
  · cases hm
  · rename_i subs hs
    obtain ⟨hit, hco⟩ := synVal_items E syn hv
    have hg := compactSub_good syn subs hs hit
    have hgl := (M.goodAll_iff subs).1 hg
    have hraw : compactRaw syn = .ok (mkUnion subs) := by
      simp [compactRaw, hs, bind, Except.bind, pure, Except.pure]
    have hval : M.validate E (mkUnion subs) = .ok b := by
      rw [(compactRaw_sem E syn _ hraw hco).2, hb]
    have hev : ∀ x, M.Good (CompLeaf E) x → M.Evaluable E x := fun x hx =>
      M.good_mono (fun l hl => by obtain ⟨s, _, _, hb, _⟩ := hl; exact hb) x hx
    rw [M.validate_eq_sem E _ (hev _ (mkUnion_good subs hgl))] at hval
    injection hval with hval
    rw [(mkUnion_spec S subs hgl).2, ← M.semAny_eq] at hval
    have hu := unionF_sound S hg hm
    refine ⟨hu.1, ?_⟩
    rw [M.validate_eq_sem E m (hev m hu.1), hu.2, hval]

end Poetry.Marker
