/-
C18 helper lemmas, part 14 (layer 4 of the `allows` congruence): `difference` on range constraints, the loop of
`VersionRange.difference(VersionUnion)`, `VersionUnion._inverted`, `excludes_single_version` and `allows` itself
respect the structural relation; equal well-formed constraints are related.  Hence: equal constraints admit the same
versions through `allows`, unions included, on every probe.
-/
import PoetryVerif.Proofs.EqHashRelUnion

set_option linter.unusedSimpArgs false
set_option linter.unusedVariables false

namespace Poetry.EqHash
open Poetry Poetry.Version Poetry.Marker

theorem PRel.bind {α β : Type} {R : α → α → Prop} {S : β → β → Prop} {x y : PyM α} {f g : α → PyM β}
    (h : PRel R x y) (hf : ∀ a b, R a b → PRel S (f a) (g b)) : PRel S (x >>= f) (y >>= g) := by
  cases x <;> cases y <;> simp only [PRel] at h
  · subst h; show PRel S (Except.error _) (Except.error _); exact rfl
  · show PRel S (f _) (g _); exact hf _ _ h

theorem PRel.ok {α : Type} {R : α → α → Prop} {a b : α} (h : R a b) : PRel R (.ok a) (.ok b) := h

theorem RRel.any : RRel VRange.any VRange.any := ⟨trivial, trivial, rfl, rfl⟩

/-! ### `difference` between range constraints -/

theorem verDifference_congr {a a' : Version} {c c' : RC} (ha : SameBound a a') (hc : CRel c c') :
    VCRel (RC.verDifference a c) (RC.verDifference a' c') := by
  unfold RC.verDifference
  rw [rcAllows_congr2 hc ha]
  split
  · trivial
  · exact ha

theorem rngDifferenceVer_congr {r r' : VRange} {v v' : Version} (hr : RRel r r') (hv : SameBound v v') :
    PRel VCRel (RC.rngDifferenceVer r v) (RC.rngDifferenceVer r' v') := by
  have ov : ORel (some v) (some v') := hv
  unfold RC.rngDifferenceVer
  rw [rangeAllows_congr2 hr hv, optVerEq_congr2 ov hr.min, optVerEq_congr2 ov hr.max, hr.imin, hr.imax]
  split
  · exact hr
  · split
    · split
      · exact hr
      · exact ⟨hr.min, hr.max, rfl, rfl⟩
    · split
      · split
        · exact hr
        · exact ⟨hr.min, hr.max, rfl, rfl⟩
      · exact unionOfFlat_congr ⟨⟨hr.min, ov, rfl, rfl⟩, ⟨ov, hr.max, rfl, rfl⟩, trivial⟩

theorem rngDifferenceRng_congr {a a' b b' : VRange} (ha : RRel a a') (hb : RRel b b') :
    PRel VCRel (RC.rngDifferenceRng a b) (RC.rngDifferenceRng a' b') := by
  obtain ⟨any, hany⟩ := allowsAny_ok (.rng a) (.rng b)
  have hany' : RC.allowsAny (.rng a') (.rng b') = .ok any := by
    rw [← rcAllowsAny_congr (a := .rng a) (a' := .rng a') (b := .rng b) (b' := .rng b') ha hb]; exact hany
  unfold RC.rngDifferenceRng
  simp only [hany, hany', bind, Except.bind]
  split
  · exact ha
  · rw [allowsLower_congr ha hb, allowsHigher_congr ha hb, optVerEq_congr2 ha.min hb.min,
      optVerEq_congr2 ha.max hb.max]
    -- the piece below `b` …
    have hbefore : PRel OCRel
        (if (!a'.allowsLower b') = true then .ok none
         else if optVerEq a'.min b'.min = true then
           (match a.min with | some m => .ok (some (.ver m)) | none => .error .attribute)
         else .ok (some (.rng ⟨a.min, b.min, a.imin, !b.imin⟩)))
        (if (!a'.allowsLower b') = true then .ok none
         else if optVerEq a'.min b'.min = true then
           (match a'.min with | some m => .ok (some (.ver m)) | none => .error .attribute)
         else .ok (some (.rng ⟨a'.min, b'.min, a'.imin, !b'.imin⟩))) := by
      split
      · trivial
      · split
        · rcases ha.min.cases with ⟨h1, h2⟩ | ⟨m, m', h1, h2, hm⟩
          · simp [h1, h2, PRel]
          · simp only [h1, h2]; exact hm
        · rw [ha.imin, hb.imin]; exact ⟨ha.min, hb.min, rfl, rfl⟩
    -- … and the piece above it
    have hafter : PRel OCRel
        (if (!a'.allowsHigher b') = true then .ok none
         else if optVerEq a'.max b'.max = true then
           (match a.max with | some m => .ok (some (.ver m)) | none => .error .attribute)
         else .ok (some (.rng ⟨b.max, a.max, !b.imax, a.imax⟩)))
        (if (!a'.allowsHigher b') = true then .ok none
         else if optVerEq a'.max b'.max = true then
           (match a'.max with | some m => .ok (some (.ver m)) | none => .error .attribute)
         else .ok (some (.rng ⟨b'.max, a'.max, !b'.imax, a'.imax⟩))) := by
      split
      · trivial
      · split
        · rcases ha.max.cases with ⟨h1, h2⟩ | ⟨m, m', h1, h2, hm⟩
          · simp [h1, h2, PRel]
          · simp only [h1, h2]; exact hm
        · rw [ha.imax, hb.imax]; exact ⟨hb.max, ha.max, rfl, rfl⟩
    refine PRel.bind hbefore (fun x x' hx => PRel.bind hafter (fun y y' hy => ?_))
    cases x <;> cases x' <;> simp only [OCRel] at hx <;> cases y <;> cases y' <;> simp only [OCRel] at hy
    · trivial
    · exact hy
    · exact hx
    · exact unionOfFlat_congr ⟨hx, hy, trivial⟩

theorem rcDifference_congr {a a' b b' : RC} (ha : CRel a a') (hb : CRel b b') :
    PRel VCRel (RC.difference a b) (RC.difference a' b') := by
  cases a <;> cases a' <;> simp only [CRel] at ha
  · exact verDifference_congr ha hb
  · cases b <;> cases b' <;> simp only [CRel] at hb
    · exact rngDifferenceVer_congr ha hb
    · exact rngDifferenceRng_congr ha hb

end Poetry.EqHash
