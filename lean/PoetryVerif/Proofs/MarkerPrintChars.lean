/-
Character level: the text of a grammar tree whose items use the grammar's own names and operators and
values free of `"`, `\` and newlines is lexed and parsed by the model of `markers.lark` (`parseText`) back to
that tree.
-/
import PoetryVerif.Proofs.MarkerPrint

set_option linter.unusedSimpArgs false
set_option linter.unusedVariables false

namespace Poetry.Marker

theorem names_list : names = ["platform_python_implementation", "platform.python_implementation",
    "implementation_version", "python_implementation", "implementation_name", "python_full_version",
    "platform_release", "platform_version", "platform_machine", "platform.version", "platform.machine",
    "platform_system", "python_version", "sys_platform", "sys.platform", "os_name", "os.name", "extra"] := by
  decide

theorem ops_list : ops = ["not in", "===", "==", ">=", "<=", "!=", "~=", "in", ">", "<"] := by decide
theorem boolOps_list : boolOps = ["and", "or"] := by decide

/-- a value the printer can put between double quotes -/
def ValOk (v : String) : Prop := ∀ c ∈ v.toList, c ≠ '"' ∧ c ≠ '\\' ∧ c ≠ '\n'

theorem escapedQuoted_ok (l rest : List Char) (h : ∀ c ∈ l, c ≠ '"' ∧ c ≠ '\\' ∧ c ≠ '\n') :
    escapedQuoted false (l ++ '"' :: rest) = some (l, rest) := by
  induction l with
  | nil => simp [escapedQuoted]
  | cons c cs ih =>
    have hc := h c (by simp)
    have := ih (fun d hd => h d (by simp [hd]))
    simp only [List.cons_append]
    rw [escapedQuoted]
    · simp [this]
    all_goals simp_all

/-- a name of the grammar followed by a blank -/
theorem matchName_sp (n : String) (hn : n ∈ names) (rest : List Char) :
    matchWord names (n.toList ++ ' ' :: rest) = some (n, ' ' :: rest) := by
  rw [names_list] at hn ⊢
  simp only [List.mem_cons, List.mem_nil_iff, or_false] at hn
  rcases hn with rfl | rfl | rfl | rfl | rfl | rfl | rfl | rfl | rfl | rfl | rfl | rfl | rfl | rfl | rfl | rfl | rfl | rfl <;>
    simp [matchWord, stripPrefix?]

/-- what may follow a complete item or marker inside a marker text -/
def NameStop (rest : List Char) : Prop := rest = [] ∨ (∃ r, rest = ' ' :: r) ∨ ∃ r, rest = ')' :: r

/-- a name of the grammar at the end of an item (`"v" op name`) -/
theorem matchName_stop (n : String) (hn : n ∈ names) (rest : List Char) (hr : NameStop rest) :
    matchWord names (n.toList ++ rest) = some (n, rest) := by
  rw [names_list] at hn ⊢
  simp only [List.mem_cons, List.mem_nil_iff, or_false] at hn
  rcases hr with rfl | ⟨r, rfl⟩ | ⟨r, rfl⟩ <;>
  rcases hn with rfl | rfl | rfl | rfl | rfl | rfl | rfl | rfl | rfl | rfl | rfl | rfl | rfl | rfl | rfl | rfl | rfl | rfl <;>
    simp [matchWord, stripPrefix?]

theorem matchOp_sp (op : String) (ho : op ∈ ops) (rest : List Char) :
    matchWord ops (op.toList ++ ' ' :: rest) = some (op, ' ' :: rest) := by
  rw [ops_list] at ho ⊢
  simp only [List.mem_cons, List.mem_nil_iff, or_false] at ho
  rcases ho with rfl | rfl | rfl | rfl | rfl | rfl | rfl | rfl | rfl | rfl <;>
    simp [matchWord, stripPrefix?]

/-- a name does not start like a string, a blank or a parenthesis -/
theorem name_head (n : String) (hn : n ∈ names) (rest : List Char) :
    markerValue (n.toList ++ rest) = none ∧ skipWs (n.toList ++ rest) = n.toList ++ rest ∧
    ∀ r, n.toList ++ rest ≠ '(' :: r := by
  rw [names_list] at hn
  simp only [List.mem_cons, List.mem_nil_iff, or_false] at hn
  rcases hn with rfl | rfl | rfl | rfl | rfl | rfl | rfl | rfl | rfl | rfl | rfl | rfl | rfl | rfl | rfl | rfl | rfl | rfl <;>
    simp [markerValue, skipWs]

theorem op_head (op : String) (ho : op ∈ ops) (rest : List Char) :
    skipWs (op.toList ++ rest) = op.toList ++ rest := by
  rw [ops_list] at ho
  simp only [List.mem_cons, List.mem_nil_iff, or_false] at ho
  rcases ho with rfl | rfl | rfl | rfl | rfl | rfl | rfl | rfl | rfl | rfl <;> simp [skipWs]

theorem skipWs_sp (s : List Char) : skipWs (' ' :: s) = skipWs s := by simp [skipWs]

theorem markerValue_dq (v rest : List Char) (h : ∀ c ∈ v, c ≠ '"' ∧ c ≠ '\\' ∧ c ≠ '\n') :
    markerValue ('"' :: (v ++ '"' :: rest)) = some (String.ofList v, rest) := by
  simp [markerValue, escapedQuoted_ok v rest h]

/-- `name op "value"` -/
theorem parseItem_plain (n op v : String) (hn : n ∈ names) (ho : op ∈ ops) (hv : ValOk v) (rest : List Char) :
    parseItem (n.toList ++ ' ' :: (op.toList ++ ' ' :: '"' :: (v.toList ++ '"' :: rest))) =
      some (.item n op v false, rest) := by
  have h0 := (name_head n hn (' ' :: (op.toList ++ ' ' :: '"' :: (v.toList ++ '"' :: rest)))).1
  have h1 := matchName_sp n hn (op.toList ++ ' ' :: '"' :: (v.toList ++ '"' :: rest))
  have h2 := matchOp_sp op ho ('"' :: (v.toList ++ '"' :: rest))
  have h3 := markerValue_dq v.toList rest hv
  unfold parseItem
  simp only [h0, h1, skipWs_sp, op_head op ho, h2]
  have e : skipWs ('"' :: (v.toList ++ '"' :: rest)) = '"' :: (v.toList ++ '"' :: rest) := by simp [skipWs]
  simp only [e, h3, String.ofList_toList]

/-- `"value" op name` -/
theorem parseItem_swapped (n op v : String) (hn : n ∈ names) (ho : op ∈ ops) (hv : ValOk v) (rest : List Char)
    (hr : NameStop rest) :
    parseItem ('"' :: (v.toList ++ '"' :: ' ' :: (op.toList ++ ' ' :: (n.toList ++ rest)))) =
      some (.item n op v true, rest) := by
  have h1 := matchName_stop n hn rest hr
  have h2 := matchOp_sp op ho (n.toList ++ rest)
  have h3 := markerValue_dq v.toList (' ' :: (op.toList ++ ' ' :: (n.toList ++ rest))) hv
  have h4 := (name_head n hn rest).2.1
  unfold parseItem
  simp only [h3, skipWs_sp, op_head op ho, h2, h4, h1, String.ofList_toList]

/-! ### the characters of a tree's text -/

mutual
def Atom.chars : Atom → List Char
  | .item n op v false => n.toList ++ ' ' :: (op.toList ++ ' ' :: '"' :: (v.toList ++ ['"']))
  | .item n op v true => '"' :: (v.toList ++ '"' :: ' ' :: (op.toList ++ ' ' :: n.toList))
  | .paren m => '(' :: (m.chars ++ [')'])
def Syn.chars : Syn → List Char
  | .one a => a.chars
  | .more a isOr rest => a.chars ++ ((if isOr then " or " else " and ").toList ++ rest.chars)
end

mutual
/-- every item uses a name and an operator of the grammar and a value that can stand between double quotes -/
def Atom.Lexable : Atom → Prop
  | .item n op v _ => n ∈ names ∧ op ∈ ops ∧ ValOk v
  | .paren m => m.Lexable
def Syn.Lexable : Syn → Prop
  | .one a => a.Lexable
  | .more a _ rest => a.Lexable ∧ rest.Lexable
end

theorem ValOk.quoteOf {v : String} (h : ValOk v) : quoteOf v = "\"" := quoteOf_dq (fun c hc => ⟨(h c hc).1, (h c hc).2.1⟩)

mutual
/-- a lexable tree is printed with double quotes (a value holding a double quote would be written in single quotes) -/
theorem Atom.text_chars : ∀ a : Atom, a.Lexable → a.text.toList = a.chars
  | .item n op v false, h => by simp [Atom.text, Atom.chars, leafText, String.toList_append, ValOk.quoteOf h.2.2]
  | .item n op v true, h => by simp [Atom.text, Atom.chars, leafText, String.toList_append, ValOk.quoteOf h.2.2]
  | .paren m, h => by simp [Atom.text, Atom.chars, String.toList_append, Syn.text_chars m h]
theorem Syn.text_chars : ∀ t : Syn, t.Lexable → t.text.toList = t.chars
  | .one a, h => by simp [Syn.text, Syn.chars, Atom.text_chars a h]
  | .more a isOr rest, h => by
      simp [Syn.text, Syn.chars, String.toList_append, Atom.text_chars a h.1, Syn.text_chars rest h.2]
end

/-- what may follow a complete `marker` -/
def EndOk (rest : List Char) : Prop := rest = [] ∨ ∃ r, rest = ')' :: r

theorem EndOk.nameStop {rest : List Char} (h : EndOk rest) : NameStop rest := by
  rcases h with h | h
  · exact Or.inl h
  · exact Or.inr (Or.inr h)

theorem noBool_of_endOk {rest : List Char} (h : EndOk rest) : matchWord boolOps (skipWs rest) = none := by
  rcases h with rfl | ⟨r, rfl⟩ <;> simp [boolOps_list, matchWord, skipWs, stripPrefix?]

theorem parseAtom_skip (f : Nat) (s : List Char) : parseAtom f (' ' :: s) = parseAtom f s := by
  cases f with
  | zero => simp [parseAtom]
  | succ f => rw [parseAtom, parseAtom, skipWs_sp]

theorem parseSyn_skip (f : Nat) (s : List Char) : parseSyn f (' ' :: s) = parseSyn f s := by
  cases f with
  | zero => simp [parseSyn]
  | succ f => rw [parseSyn, parseSyn, parseAtom_skip]

theorem parseAtom_item (f : Nat) (s : List Char) (h1 : skipWs s = s) (h2 : ∀ r, s ≠ '(' :: r) :
    parseAtom (f + 1) s = parseItem s := by
  rw [parseAtom, h1]
  split
  · rename_i r; exact absurd rfl (h2 r)
  · rfl

mutual
theorem parseAtom_chars : ∀ (a : Atom) (fuel : Nat) (rest : List Char), a.Lexable → a.size < fuel →
    NameStop rest → parseAtom fuel (a.chars ++ rest) = some (a, rest)
  | .item n op v false, fuel, rest, hl, hf, hr => by
      obtain ⟨hn, ho, hv⟩ := hl
      cases fuel with
      | zero => simp [Atom.size] at hf
      | succ fuel =>
        have e : (Atom.item n op v false).chars ++ rest =
            n.toList ++ ' ' :: (op.toList ++ ' ' :: '"' :: (v.toList ++ '"' :: rest)) := by
          simp [Atom.chars]
        rw [e]
        have hh := name_head n hn (' ' :: (op.toList ++ ' ' :: '"' :: (v.toList ++ '"' :: rest)))
        rw [parseAtom_item fuel _ hh.2.1 hh.2.2]
        exact parseItem_plain n op v hn ho hv rest
  | .item n op v true, fuel, rest, hl, hf, hr => by
      obtain ⟨hn, ho, hv⟩ := hl
      cases fuel with
      | zero => simp [Atom.size] at hf
      | succ fuel =>
        have e : (Atom.item n op v true).chars ++ rest =
            '"' :: (v.toList ++ '"' :: ' ' :: (op.toList ++ ' ' :: (n.toList ++ rest))) := by
          simp [Atom.chars]
        rw [e]
        rw [parseAtom_item fuel _ (by simp [skipWs]) (by intro r h; cases h)]
        exact parseItem_swapped n op v hn ho hv rest hr
  | .paren m, fuel, rest, hl, hf, hr => by
      cases fuel with
      | zero => simp [Atom.size] at hf
      | succ fuel =>
        simp only [Atom.size] at hf
        have ih := parseSyn_chars m fuel (')' :: rest) hl (by omega) (Or.inr ⟨rest, rfl⟩)
        have e : (Atom.paren m).chars ++ rest = '(' :: (m.chars ++ ')' :: rest) := by simp [Atom.chars]
        rw [e, parseAtom]
        simp [skipWs, ih]
theorem parseSyn_chars : ∀ (t : Syn) (fuel : Nat) (rest : List Char), t.Lexable → t.size < fuel →
    EndOk rest → parseSyn fuel (t.chars ++ rest) = some (t, rest)
  | .one a, fuel, rest, hl, hf, hr => by
      cases fuel with
      | zero => simp [Syn.size] at hf
      | succ fuel =>
        simp only [Syn.size] at hf
        have ih := parseAtom_chars a fuel rest hl (by omega) hr.nameStop
        rw [Syn.chars, parseSyn, ih]
        simp [noBool_of_endOk hr]
  | .more a isOr r, fuel, rest, hl, hf, hr => by
      cases fuel with
      | zero => simp [Syn.size] at hf
      | succ fuel =>
        simp only [Syn.size] at hf
        have ih2 := parseSyn_chars r fuel rest hl.2 (by omega) hr
        cases isOr with
        | false =>
          have e : (Syn.more a false r).chars ++ rest =
              a.chars ++ (' ' :: 'a' :: 'n' :: 'd' :: ' ' :: (r.chars ++ rest)) := by
            simp [Syn.chars]
          have ih1 := parseAtom_chars a fuel (' ' :: 'a' :: 'n' :: 'd' :: ' ' :: (r.chars ++ rest)) hl.1
            (by omega) (Or.inr (Or.inl ⟨_, rfl⟩))
          rw [e, parseSyn, ih1]
          simp [boolOps_list, matchWord, stripPrefix?, skipWs, parseSyn_skip, ih2]
        | true =>
          have e : (Syn.more a true r).chars ++ rest =
              a.chars ++ (' ' :: 'o' :: 'r' :: ' ' :: (r.chars ++ rest)) := by
            simp [Syn.chars]
          have ih1 := parseAtom_chars a fuel (' ' :: 'o' :: 'r' :: ' ' :: (r.chars ++ rest)) hl.1
            (by omega) (Or.inr (Or.inl ⟨_, rfl⟩))
          rw [e, parseSyn, ih1]
          simp [boolOps_list, matchWord, stripPrefix?, skipWs, parseSyn_skip, ih2]
end

mutual
theorem Atom.size_le_chars : ∀ a : Atom, a.size ≤ a.chars.length
  | .item n op v false => by simp [Atom.size, Atom.chars]; omega
  | .item n op v true => by simp [Atom.size, Atom.chars]
  | .paren m => by have := Syn.size_le_chars m; simp [Atom.size, Atom.chars]; omega
theorem Syn.size_le_chars : ∀ t : Syn, t.size ≤ t.chars.length + 1
  | .one a => by have := Atom.size_le_chars a; simp [Syn.size, Syn.chars]; omega
  | .more a isOr r => by
      have h1 := Atom.size_le_chars a
      have h2 := Syn.size_le_chars r
      cases isOr <;> simp [Syn.size, Syn.chars] <;> omega
end

/-- **the text of a lexable tree parses back to the tree** (poetry-core's marker grammar as modelled) -/
theorem parseText_text (t : Syn) (hl : t.Lexable) : parseText t.text = .ok t := by
  have hs := Syn.size_le_chars t
  have := parseSyn_chars t (2 * t.chars.length + 2) [] hl (by omega) (Or.inl rfl)
  simp only [List.append_nil] at this
  simp [parseText, Syn.text_chars t hl, this, skipWs]

/-! ### the tree of a marker over lexable leaves is lexable -/

/-- the leaf's own text uses grammar names/operators and quotable values -/
def Leaf.Lexable (l : Leaf) : Prop := ∀ t, l.toSyn = some t → t.Lexable

theorem Syn.lexable_append : ∀ (t1 : Syn) (isOr : Bool) (t2 : Syn), t1.Lexable → t2.Lexable →
    (t1.append isOr t2).Lexable
  | .one a, isOr, t2, h1, h2 => by simpa [Syn.append, Syn.Lexable] using ⟨h1, h2⟩
  | .more a o rest, isOr, t2, h1, h2 => by
      simp only [Syn.append, Syn.Lexable] at h1 ⊢
      exact ⟨h1.1, Syn.lexable_append rest isOr t2 h1.2 h2⟩

mutual
theorem M.toSyn_lexable : ∀ (m : M) (t : Syn), M.Good Leaf.Lexable m → M.toSyn m = some t → t.Lexable
  | .any, t, _, h => by simp [M.toSyn] at h
  | .empty, t, _, h => by simp [M.toSyn] at h
  | .leaf l, t, hg, h => by
      simp only [M.toSyn] at h
      exact (by simpa using hg : Leaf.Lexable l) t h
  | .multi ms, t, hg, h => by
      simp only [M.toSyn] at h
      exact M.toSynMulti_lexable ms t (by simpa using hg) h
  | .union ms, t, hg, h => by
      simp only [M.toSyn] at h
      exact M.toSynUnion_lexable ms t (by simpa using hg) h
theorem M.toSynMulti_lexable : ∀ (ms : List M) (t : Syn), (∀ x ∈ ms, M.Good Leaf.Lexable x) →
    M.toSynMulti ms = some t → t.Lexable
  | [], t, _, h => by simp [M.toSynMulti] at h
  | [m], t, hg, h => by
      simp only [M.toSynMulti] at h
      cases hm : M.toSyn m with
      | none => simp [hm] at h
      | some tm =>
        simp only [hm, Option.some.injEq] at h; subst h
        have := M.toSyn_lexable m tm (hg m (by simp)) hm
        split
        · exact this
        · simpa [Syn.Lexable, Atom.Lexable] using this
  | m :: m' :: ms, t, hg, h => by
      rw [toSynMulti_cons2] at h
      cases hm : M.toSyn m with
      | none => simp [hm] at h
      | some tm =>
        cases hr : M.toSynMulti (m' :: ms) with
        | none => simp [hm, hr] at h
        | some r =>
          simp only [hm, hr, Option.some.injEq] at h; subst h
          have h1 := M.toSyn_lexable m tm (hg m (by simp)) hm
          have h2 := M.toSynMulti_lexable (m' :: ms) r (fun x hx => hg x (by simp [hx])) hr
          apply Syn.lexable_append _ _ _ _ h2
          split
          · exact h1
          · simpa [Syn.Lexable, Atom.Lexable] using h1
theorem M.toSynUnion_lexable : ∀ (ms : List M) (t : Syn), (∀ x ∈ ms, M.Good Leaf.Lexable x) →
    M.toSynUnion ms = some t → t.Lexable
  | [], t, _, h => by simp [M.toSynUnion] at h
  | [m], t, hg, h => by
      simp only [M.toSynUnion] at h
      cases hm : M.toSyn m with
      | none => simp [hm] at h
      | some tm =>
        simp only [hm, Option.some.injEq] at h; subst h
        exact M.toSyn_lexable m tm (hg m (by simp)) hm
  | m :: m' :: ms, t, hg, h => by
      rw [toSynUnion_cons2] at h
      cases hm : M.toSyn m with
      | none => simp [hm] at h
      | some tm =>
        cases hr : M.toSynUnion (m' :: ms) with
        | none => simp [hm, hr] at h
        | some r =>
          simp only [hm, hr, Option.some.injEq] at h; subst h
          exact Syn.lexable_append _ _ _ (M.toSyn_lexable m tm (hg m (by simp)) hm)
            (M.toSynUnion_lexable (m' :: ms) r (fun x hx => hg x (by simp [hx])) hr)
end

/-- a `SingleMarker` is lexable when its stored name/operator are grammar words and its value quotable -/
theorem leafLexable_single {s : Single} (hn : s.name ∈ names) (ho : s.op ∈ ops) (hv : ValOk s.value) :
    Leaf.Lexable (.single s) := by
  intro t ht
  simp only [Leaf.toSyn, Option.some.injEq] at ht; subst ht
  exact ⟨hn, ho, hv⟩

/-- **`parse_marker`'s grammar reads `str(m)` back to the tree of `m`** -/
theorem M.parseText_toStr {m : M} {t : Syn} {ev : Leaf → Bool} {G : Leaf → Prop} (S : LeafSpec ev G)
    (hL : ∀ l, G l → LeafPrintOK ev G l) (hX : ∀ l, G l → Leaf.Lexable l) (hg : M.Good G m)
    (h : M.toSyn m = some t) :
    ∃ s, M.toStr m = .ok s ∧ parseText s = .ok t ∧
      ∃ m', compactRaw t = .ok m' ∧ M.Good G m' ∧ M.sem ev m' = M.sem ev m := by
  obtain ⟨h1, h2⟩ := M.print_reparse S hL hg h
  exact ⟨t.text, h1, parseText_text t (M.toSyn_lexable m t (M.good_mono hX m hg) h), h2⟩

end Poetry.Marker
