/-
Discharge of `LeafSpec` on the string fragment: leaves over plain string variables (not `extra`, not
`python_version`/`python_full_version`) whose constraint is a `==`/`!=` atom or an `AtomicMultiMarker` /
`AtomicMarkerUnion` over such atoms, in environments that define the variable.  Same-variable merging is
sound there because the generic constraint algebra is exact (C16: `GC.intersect_G`, `GC.unionWith_G`,
`GC.allows_eqAtom`).  The one fact left as a hypothesis is about the *constructor* only (`MkAtomOK`:
`SingleMarker(name, str(atom))` stores that atom again).
-/
import PoetryVerif.Proofs.MarkerAlgSoundOps
import PoetryVerif.Proofs.Generic
import PoetryVerif.Proofs.MarkerLeaf
import PoetryVerif.Proofs.MarkerAlgSoundVals

set_option linter.unusedSimpArgs false
set_option linter.unusedVariables false

namespace Poetry.Marker
open Poetry.Generic

/-- a leaf of the string fragment, in an environment defining its variable -/
def StrLeaf (E : Env) : Leaf → Prop
  | .single s => (s.name == "extra") = false ∧ isPyName s.name = false ∧ (∃ v, E.get? s.name = some v) ∧
      s.swapped = false ∧
      ∃ a : Generic.Atom, s.c = .gen (.s (.atom a)) ∧ a.x = false ∧ a.isEqNe = true ∧ s.op = a.op.str ∧ s.value = a.value
  | .amulti n c => (n == "extra") = false ∧ isPyName n = false ∧ (∃ v, E.get? n = some v) ∧ c.wfG = true
  | .aunion n c => (n == "extra") = false ∧ isPyName n = false ∧ (∃ v, E.get? n = some v) ∧ c.wfG = true

/-- `SingleMarker(name, str(atom))` stores the atom it was built from (a statement about the constructor
and the constraint parser only; `rfl` on concrete values) -/
def MkAtomOK (E : Env) : Prop :=
  ∀ (n : String) (a : Generic.Atom) (s : Single), (n == "extra") = false → isPyName n = false →
    (∃ v, E.get? n = some v) → a.x = false → a.isEqNe = true →
    mkSingleOfC n (.gen (.s (.atom a))) = .ok s →
    s.name = n ∧ s.swapped = false ∧ s.c = .gen (.s (.atom a)) ∧ s.op = a.op.str ∧ s.value = a.value

/-- what a leaf of the fragment is: a well-formed string constraint on a defined plain variable, and
its truth value is membership of the environment's value -/
theorem strLeaf_view {E : Env} {l : Leaf} (h : StrLeaf E l) :
    (l.name == "extra") = false ∧ isPyName l.name = false ∧
    ∃ gc v, l.c = .gen gc ∧ gc.wfG = true ∧ E.get? l.name = some v ∧ l.validate E = .ok (gc.den v) := by
  cases l with
  | single s =>
    obtain ⟨h1, h2, ⟨v, hv⟩, h3, a, hc, hx, he, _, _⟩ := h
    refine ⟨h1, h2, .s (.atom a), v, hc, by simp [GC.wfG, GS.wfG, hx, he], hv, ?_⟩
    simp only [Leaf.validate, validateLike, h1, Leaf.name, hv, hc, validateValue, Bool.false_eq_true, if_false]
    exact GC.allows_eqAtom _ v false
  | amulti n c =>
    obtain ⟨h1, h2, ⟨v, hv⟩, hw⟩ := h
    refine ⟨h1, h2, c, v, rfl, hw, hv, ?_⟩
    simp only [Leaf.validate, validateLike, h1, Leaf.name, hv, validateValue, Bool.false_eq_true, if_false]
    exact GC.allows_eqAtom _ v false
  | aunion n c =>
    obtain ⟨h1, h2, ⟨v, hv⟩, hw⟩ := h
    refine ⟨h1, h2, c, v, rfl, hw, hv, ?_⟩
    simp only [Leaf.validate, validateLike, h1, Leaf.name, hv, validateValue, Bool.false_eq_true, if_false]
    exact GC.allows_eqAtom _ v false

theorem strLeaf_eval {E : Env} {l : Leaf} {gc : GC} {v : String} (hc : l.validate E = .ok (gc.den v)) :
    leafEval E l = gc.den v := by simp [leafEval, hc]

theorem strLeaf_evaluable {E : Env} {l : Leaf} (h : StrLeaf E l) : ∃ b, l.validate E = .ok b := by
  obtain ⟨_, _, gc, v, _, _, _, hv⟩ := strLeaf_view h
  exact ⟨_, hv⟩

theorem Op.str_inj_eqne {a b : Generic.Atom} (ha : a.isEqNe = true) (hb : b.isEqNe = true)
    (h : a.op.str = b.op.str) : a.op = b.op := by
  cases a with | mk va oa xa => cases b with | mk vb ob xb =>
    cases oa <;> cases ob <;> simp_all [Atom.isEqNe, Op.str] <;> revert h <;> decide

theorem isPyName_false {n : String} (h : isPyName n = false) :
    (n == "python_version") = false ∧ (n == "python_full_version") = false := by
  simp [isPyName, Gen.pythonVersionMarkers] at h
  exact ⟨by simpa using h.2, by simpa using h.1⟩

theorem strLeaf_congr {E : Env} (a b : Leaf) (ha : StrLeaf E a) (hb : StrLeaf E b)
    (h : Leaf.beq a b = true) : leafEval E a = leafEval E b := by
  cases a with
  | single sa =>
    cases b with
    | single sb =>
      obtain ⟨_, _, _, hsa, a1, hca, hxa, hea, hoa, hva⟩ := ha
      obtain ⟨_, _, _, hsb, b1, hcb, hxb, heb, hob, hvb⟩ := hb
      simp only [Leaf.beq, Bool.and_eq_true, beq_iff_eq] at h
      obtain ⟨⟨⟨hn, ho⟩, hv⟩, hs⟩ := h
      have hop : a1.op = b1.op := Op.str_inj_eqne hea heb (by rw [← hoa, ← hob, ho])
      have hab : a1 = b1 := by
        cases a1; cases b1; simp_all
      have hc : sa.c = sb.c := by rw [hca, hcb, hab]
      simp only [leafEval, Leaf.validate, hn, hc]
    | amulti _ _ => simp [Leaf.beq] at h
    | aunion _ _ => simp [Leaf.beq] at h
  | amulti n c =>
    cases b with
    | single _ => simp [Leaf.beq] at h
    | amulti n' c' =>
      simp only [Leaf.beq, Bool.and_eq_true, beq_iff_eq] at h
      obtain ⟨rfl, rfl⟩ := h; rfl
    | aunion n' c' =>
      simp only [Leaf.beq, Bool.and_eq_true, beq_iff_eq] at h
      obtain ⟨rfl, rfl⟩ := h
      simp only [leafEval, Leaf.validate, ha.1, Bool.false_eq_true, if_false]
  | aunion n c =>
    cases b with
    | single _ => simp [Leaf.beq] at h
    | amulti n' c' =>
      simp only [Leaf.beq, Bool.and_eq_true, beq_iff_eq] at h
      obtain ⟨rfl, rfl⟩ := h
      simp only [leafEval, Leaf.validate, ha.1, Bool.false_eq_true, if_false]
    | aunion n' c' =>
      simp only [Leaf.beq, Bool.and_eq_true, beq_iff_eq] at h
      obtain ⟨rfl, rfl⟩ := h; rfl

theorem gc_den_of_isEmpty {c : GC} {v : String} (h : (LeafC.gen c).isEmpty = true) : c.den v = false := by
  match c, h with
  | .s .empty, _ => rfl

theorem gc_den_of_isAny {c : GC} {v : String} (h : (LeafC.gen c).isAny = true) : c.den v = true := by
  match c, h with
  | .s .any, _ => rfl

theorem strLeaf_atomic_eval {E : Env} {l : Leaf} (h : StrLeaf E l) {gc : GC} {v : String}
    (hc : l.c = .gen gc) (hv : E.get? l.name = some v) : leafEval E l = gc.den v := by
  obtain ⟨_, _, g', v', hc', _, hv', he⟩ := strLeaf_view h
  rw [hc] at hc'; cases hc'
  rw [hv] at hv'; cases hv'
  exact strLeaf_eval he

/-- the atoms of a leaf's string constraint -/
def leafAtoms (l : Leaf) : List Generic.Atom :=
  match l.c with
  | .gen c => c.atoms
  | .ver _ => []

/-- the string fragment restricted to variable names satisfying `N` and atom values satisfying `W` -/
def StrLeafW (N W : String → Prop) (E : Env) (l : Leaf) : Prop :=
  StrLeaf E l ∧ N l.name ∧ ∀ x ∈ leafAtoms l, W x.value

/-- the constructor fact, for names in `N` and values in `W` -/
def MkAtomOKW (N W : String → Prop) (E : Env) : Prop :=
  ∀ (n : String) (a : Generic.Atom) (s : Single), N n → W a.value → (n == "extra") = false → isPyName n = false →
    (∃ v, E.get? n = some v) → a.x = false → a.isEqNe = true →
    mkSingleOfC n (.gen (.s (.atom a))) = .ok s →
    s.name = n ∧ s.swapped = false ∧ s.c = .gen (.s (.atom a)) ∧ s.op = a.op.str ∧ s.value = a.value

set_option hygiene false in
/-- the tail of `_merge_single_markers` once the merged constraint `r0` is known (used for both merge
classes) -/
macro "str_tail" : tactic => `(tactic| (
  by_cases q1 : (LeafC.gen r0).isEmpty = true
  · rw [if_pos q1, pure_ok] at h; cases h
    exact ⟨by simp, by simp [gc_den_of_isEmpty q1]⟩
  rw [if_neg q1] at h
  by_cases q2 : (LeafC.gen r0).isAny = true
  · rw [if_pos q2, pure_ok] at h; cases h
    exact ⟨by simp, by simp [gc_den_of_isAny q2]⟩
  rw [if_neg q2] at h
  by_cases q3 : (LeafC.gen r0).eqv (LeafC.gen g1) = true
  · rw [if_pos q3, pure_ok] at h; cases h
    have hr : r0 = g1 := by simpa [LeafC.eqv] using q3
    exact ⟨(M.good_leaf _).2 hh1, by simp [e1, hr]⟩
  rw [if_neg q3] at h
  by_cases q4 : (LeafC.gen r0).eqv (LeafC.gen g2) = true
  · rw [if_pos q4, pure_ok] at h; cases h
    have hr : r0 = g2 := by simpa [LeafC.eqv] using q4
    exact ⟨(M.good_leaf _).2 hh2, by simp [e2, hr]⟩
  rw [if_neg q4] at h
  obtain ⟨b, hb, h⟩ := bind_ok.1 h
  cases b
  · rw [if_neg Bool.false_ne_true] at h
    cases r0 with
    | union ms =>
      dsimp only at h
      simp only [hx1, Bool.false_eq_true, if_false] at h
      split at h
      · rw [pure_ok] at h; cases h
        have hs : StrLeaf E (.aunion l1.name (.union ms)) := ⟨hx1, hp1, ⟨v2, hv1⟩, hw0⟩
        exact ⟨(M.good_leaf _).2 (⟨hs, hh1.2.1, hv0⟩ : StrLeafW N W E (.aunion l1.name (.union ms))),
          by simpa using strLeaf_atomic_eval hs rfl hv1⟩
      · rw [pure_ok] at h; cases h
    | s gs =>
      cases gs with
      | multi x cs =>
        dsimp only at h
        simp only [hx1, Bool.false_eq_true, if_false] at h
        split at h
        · rw [pure_ok] at h; cases h
          have hs : StrLeaf E (.amulti l1.name (.s (.multi x cs))) := ⟨hx1, hp1, ⟨v2, hv1⟩, hw0⟩
          exact ⟨(M.good_leaf _).2 (⟨hs, hh1.2.1, hv0⟩ : StrLeafW N W E (.amulti l1.name (.s (.multi x cs)))),
            by simpa using strLeaf_atomic_eval hs rfl hv1⟩
        · rw [pure_ok] at h; cases h
      | any => dsimp only at h; rw [pure_ok] at h; cases h
      | empty => dsimp only at h; rw [pure_ok] at h; cases h
      | atom a => dsimp only at hb; cases hb
  · rw [if_pos rfl] at h
    obtain ⟨s, hs, h⟩ := bind_ok.1 h
    rw [pure_ok] at h; cases h
    cases r0 with
    | union ms => dsimp only at hb; cases hb
    | s gs =>
      cases gs with
      | atom a =>
        have hwa : a.x = false ∧ a.isEqNe = true := by
          have := hw0; simpa [GC.wfG, GS.wfG] using this
        have hxa : a.x = false := hwa.1
        have hea : a.isEqNe = true := hwa.2
        have hWa : W a.value := hv0 a (by simp [GC.atoms, GS.atoms])
        obtain ⟨k1, k2, k3, k4, k5⟩ := H l1.name a s hh1.2.1 hWa hx1 hp1 ⟨v2, hv1⟩ hxa hea hs
        have hsl : StrLeaf E (.single s) := by
          refine ⟨by rw [k1]; exact hx1, by rw [k1]; exact hp1, ⟨v2, by rw [k1]; exact hv1⟩, k2, a, k3, hxa, hea, k4, k5⟩
        have hslw : StrLeafW N W E (.single s) := by
          refine ⟨hsl, by simpa [Leaf.name, k1] using hh1.2.1, ?_⟩
          intro x hx
          simp only [leafAtoms, Leaf.c, k3, GC.atoms, GS.atoms, List.mem_singleton] at hx
          subst hx; exact hWa
        exact ⟨(M.good_leaf _).2 hslw, by simpa using strLeaf_atomic_eval hsl k3 (by simpa [Leaf.name, k1] using hv1)⟩
      | any => dsimp only at hb; cases hb
      | empty => dsimp only at hb; cases hb
      | multi x cs => dsimp only at hb; cases hb))

/-- `_merge_single_markers` on the fragment: every outcome is good and is the exact conjunction/disjunction -/
theorem strLeafW_merge {N W : String → Prop} {E : Env} (H : MkAtomOKW N W E) (l1 l2 : Leaf) (im : Bool) (r : M)
    (hh1 : StrLeafW N W E l1) (hh2 : StrLeafW N W E l2) (h : mergeLeaves l1 l2 im = .ok (some r)) :
    M.Good (StrLeafW N W E) r ∧
      M.sem (leafEval E) r = (if im then (leafEval E l1 && leafEval E l2) else (leafEval E l1 || leafEval E l2)) := by
  have h1 := hh1.1
  have h2 := hh2.1
  obtain ⟨hx1, hp1, g1, v1, hc1, hw1, hv1, he1⟩ := strLeaf_view h1
  obtain ⟨hx2, hp2, g2, v2, hc2, hw2, hv2, he2⟩ := strLeaf_view h2
  have hW1 : ∀ x ∈ g1.atoms, W x.value := by have := hh1.2.2; simpa [leafAtoms, hc1] using this
  have hW2 : ∀ x ∈ g2.atoms, W x.value := by have := hh2.2.2; simpa [leafAtoms, hc2] using this
  have e1 := strLeaf_eval he1
  have e2 := strLeaf_eval he2
  obtain ⟨hp1a, hp1b⟩ := isPyName_false hp1
  obtain ⟨hp2a, hp2b⟩ := isPyName_false hp2
  simp only [mergeLeaves] at h
  rw [mergeSingle.eq_def] at h
  dsimp only at h
  rw [hp1a, hp1b, hp2a, hp2b] at h
  simp only [Bool.false_and, Bool.or_self, Bool.false_eq_true, if_false] at h
  by_cases hn : (l1.name != l2.name) = true
  · rw [if_pos hn] at h; cases h
  rw [if_neg hn] at h
  have hname : l2.name = l1.name := (by simpa using hn : l1.name = l2.name).symm
  have hv : v2 = v1 := by rw [hname, hv1] at hv2; exact (Option.some.inj hv2).symm
  subst hv
  rw [hc1, hc2] at h
  dsimp only at h
  have key : ∃ r0, (if im = true then (LeafC.gen g1).intersect (.gen g2) else (LeafC.gen g1).union (.gen g2)) =
        .ok (.gen r0) ∧ r0.wfG = true ∧ (∀ x ∈ r0.atoms, W x.value) ∧
        r0.den v2 = (if im = true then (g1.den v2 && g2.den v2) else (g1.den v2 || g2.den v2)) := by
    cases im
    · obtain ⟨r0, a, b, c, d⟩ := GC.unionWith_GW W g1 g2 hw1 hw2 hW1 hW2
      exact ⟨r0, by simp [LeafC.union, a, Except.map], b, c, by simp [d]⟩
    · obtain ⟨r0, a, b, c, d⟩ := GC.intersect_GW W g1 g2 hw1 hw2 hW1 hW2
      exact ⟨r0, by simp [LeafC.intersect, a, Except.map], b, c, by simp [d]⟩
  obtain ⟨r0, hk, hw0, hv0, hden⟩ := key
  have hgoal : (if im = true then (leafEval E l1 && leafEval E l2) else (leafEval E l1 || leafEval E l2)) =
      r0.den v2 := by rw [hden, e1, e2]
  rw [hgoal]
  clear hgoal hden
  cases im
  · simp only [Bool.false_eq_true, if_false] at h hk ⊢
    obtain ⟨rc, hrc, h⟩ := bind_ok.1 h
    rw [hk] at hrc; cases hrc
    str_tail
  · simp only [if_true] at h hk ⊢
    obtain ⟨rc, hrc, h⟩ := bind_ok.1 h
    rw [hk] at hrc; cases hrc
    str_tail

/-- **`LeafSpec` holds on the string fragment** (names in `N`, values in `W`), given the constructor fact -/
theorem leafSpec_strW {N W : String → Prop} {E : Env} (H : MkAtomOKW N W E) :
    LeafSpec (leafEval E) (StrLeafW N W E) where
  congr := fun a b ha hb h => strLeaf_congr a b ha.1 hb.1 h
  merge := fun l1 l2 im r h1 h2 h => strLeafW_merge H l1 l2 im r h1 h2 h

/-- transport of the leaf facts along an equivalence of invariants -/
theorem LeafSpec.of_iff {ev : Leaf → Bool} {G G' : Leaf → Prop} (hiff : ∀ l, G l ↔ G' l) (S : LeafSpec ev G) :
    LeafSpec ev G' where
  congr := fun a b ha hb h => S.congr a b ((hiff a).2 ha) ((hiff b).2 hb) h
  merge := fun l1 l2 im r h1 h2 h => by
    obtain ⟨g, e⟩ := S.merge l1 l2 im r ((hiff l1).2 h1) ((hiff l2).2 h2) h
    exact ⟨M.good_mono (fun l hl => (hiff l).1 hl) r g, e⟩

/-- the unrestricted form (every name, every value), given the universal constructor fact -/
theorem leafSpec_str {E : Env} (H : MkAtomOK E) : LeafSpec (leafEval E) (StrLeaf E) :=
  LeafSpec.of_iff (G := StrLeafW (fun _ => True) (fun _ => True) E)
    (fun l => ⟨fun h => h.1, fun h => ⟨h, trivial, fun _ _ => trivial⟩⟩)
    (leafSpec_strW (fun n a s _ _ => H n a s))

/-! ### the constructor fact `MkAtomOK` on plain values (through C06's text-level lemmas) -/

/-- a first character that cannot start one of the operators of `_CONSTRAINT_RE_PATTERN_1`
(`~= != >= > <= < === == = not in in`, case-insensitively) nor be `*` -/
def StartOk (c : Char) : Prop :=
  lowerChar c ≠ '~' ∧ lowerChar c ≠ '!' ∧ lowerChar c ≠ '>' ∧ lowerChar c ≠ '<' ∧ lowerChar c ≠ '=' ∧
  lowerChar c ≠ 'n' ∧ lowerChar c ≠ 'i' ∧ c ≠ '*' ∧ c ≠ '!' ∧ c ≠ '='

/-- a value of plain characters (non-empty; no white space, quote, `|`, `,`) that does not start with `=`
(`SingleMarker(name, Constraint(v))` re-reads the text `"==" ++ v`, and `===` is an operator of its own).  Values
that start like another operator (`inotify`, `interix`, `not-…`, `~x`, `<x`) are included: since the repository's
fix the constructor puts the `==` back before the value. -/
def PlainValue (v : String) : Prop := PlainTok v ∧ v.toList.head? ≠ some '='

theorem matchPattern1_bare (c : Char) (cs : List Char) (hc : StartOk c) (hv : valueOk (c :: cs)) :
    matchPattern1 (c :: cs) = some (none, String.ofList (c :: cs)) := by
  obtain ⟨h1, h2, h3, h4, h5, h6, h7, _⟩ := hc
  have hs := spacesThenValue?_ok _ hv
  simp [matchPattern1, matchPattern1.tryOps, pattern1Ops, stripPrefixCI?_cons, stripPrefixCI?_nil,
    lc_eq, lc_tilde, lc_bang, lc_gt, lc_lt, lc_n, lc_i, h1, h2, h3, h4, h5, h6, h7, hs]

theorem gparseSingle_bare (x : Bool) (c : Char) (cs : List Char) (hq : c ≠ '"' ∧ c ≠ '\'')
    (hb : c ≠ '!' ∧ c ≠ '=') (hp : ∀ d ∈ c :: cs, isSpace d = false) :
    Generic.parseSingle x (c :: cs) = .ok ⟨String.ofList (c :: cs), .eq, x⟩ := by
  have h1 := matchBasicRest_noSpace (c :: cs) (by simp) hp
  have hm : Generic.matchBasic (c :: cs) = some (none, c :: cs) := by
    unfold Generic.matchBasic
    simp only [h1, Option.map_some]
    split <;> simp_all
  have hsc : Generic.matchStrCmp (c :: cs) = none := by
    simp [Generic.matchStrCmp, hq.1, hq.2]
  simp [Generic.parseSingle, hsc, hm, gstrip_noSpace (c :: cs) hp]
  cases x <;> rfl

theorem gparseWith_bare (x : Bool) (c : Char) (cs : List Char) (hq : c ≠ '"' ∧ c ≠ '\'')
    (hb : c ≠ '!' ∧ c ≠ '=') (hstar : c ≠ '*') (hp : ∀ d ∈ c :: cs, gPlain d) :
    Generic.parseWith x (String.ofList (c :: cs)) = .ok (.atom ⟨String.ofList (c :: cs), .eq, x⟩) := by
  unfold Generic.parseWith
  rw [ofList_ne_star _ _ hstar]
  simp only [Bool.false_eq_true, if_false, String.toList_ofList]
  rw [gstrip_noSpace _ (fun d hd => (hp d hd).1), reSplit_sepOr_plain _ hp]
  simp only [Generic.mapE, Generic.parseGroup, reSplit_sepComma_plain _ hp,
    gparseSingle_bare x c cs hq hb (fun d hd => (hp d hd).1), Generic.foldIntersect]

theorem mkSingle_string_bare (n v : String) (hn : n ∈ stringVarNames) (hv : PlainTok v)
    (hst : ∀ c, v.toList.head? = some c → StartOk c) :
    mkSingle n v false = .ok ⟨aliasName n, "==", v, false, .gen (.atom ⟨v, .eq, false⟩)⟩ := by
  obtain ⟨f1, f2, f3, _⟩ := stringVar_facts n hn
  have hvo := hv.valueOk
  cases hl : v.toList with
  | nil => exact absurd hl hv.1
  | cons c cs =>
    rw [hl] at hvo
    have hc : StartOk c := hst c (by simp [hl])
    have htok := hv.2 c (by simp [hl])
    have hm := matchPattern1_bare c cs hc hvo
    have hvs : String.ofList (c :: cs) = v := by rw [← hl]; simp
    have hp := gparseWith_bare false c cs ⟨htok.2.2.2.1, htok.2.2.2.2⟩ ⟨hc.2.2.2.2.2.2.2.2.1, hc.2.2.2.2.2.2.2.2.2⟩
      hc.2.2.2.2.2.2.2.1 (by rw [← hl]; exact hv.gPlain)
    rw [hvs] at hp
    have hprep : leafPrepare n v false =
        .ok { name := aliasName n, op := "==", value := v, swapped := false, cstr := v, kind := .generic } := by
      unfold leafPrepare
      simp only [Bool.false_eq_true, if_false, hl, hm, hvs, Option.getD_none, f1, f2, Bool.false_and]
      simp
    simp only [mkSingle, hprep, bind, Except.bind, parseByKind,
      Generic.parseConstraint, hp, Except.map, pure, Except.pure]

/-- canonical plain string variables (no alias spelling) -/
def plainStringVars : List String :=
  ["os_name", "sys_platform", "platform_machine", "platform_system", "platform_python_implementation",
   "implementation_name", "platform_version"]

theorem plainStringVars_facts (n : String) (h : n ∈ plainStringVars) :
    n ∈ stringVarNames ∧ aliasName n = n := by
  simp only [plainStringVars, List.mem_cons, List.mem_nil_iff, or_false] at h
  rcases h with rfl | rfl | rfl | rfl | rfl | rfl | rfl <;> decide

/-- **`MkAtomOK` on plain values**: for the canonical string variables and `==`/`!=` atoms over plain
values, `SingleMarker(name, str(atom))` stores that atom again -/
theorem mkAtomOK_plain (n : String) (a : Generic.Atom) (s : Single) (hn : n ∈ plainStringVars)
    (hv : PlainValue a.value) (hx : a.x = false) (he : a.isEqNe = true)
    (h : mkSingleOfC n (.gen (.s (.atom a))) = .ok s) :
    s.name = n ∧ s.swapped = false ∧ s.c = .gen (.s (.atom a)) ∧ s.op = a.op.str ∧ s.value = a.value := by
  obtain ⟨hn1, hn2⟩ := plainStringVars_facts n hn
  cases a with | mk v op x =>
  simp only at hx hv; subst hx
  cases op with
  | eq =>
    have := mkSingle_string_eq n v hn1 hv.1 hv.2
    simp only [mkSingleOfC, LeafC.toStr, GC.toStr, GS.toStr, Generic.Atom.toStr, bind, Except.bind] at h
    simp at h
    rw [this] at h; cases h
    simp [hn2, Generic.Op.str]
  | ne =>
    have := mkSingle_string_ne n v hn1 hv.1
    simp only [mkSingleOfC, LeafC.toStr, GC.toStr, GS.toStr, Generic.Atom.toStr, bind, Except.bind] at h
    simp [Generic.Op.str] at h
    rw [this] at h; cases h
    simp [hn2, Generic.Op.str]
  | in_ => simp [Generic.Atom.isEqNe] at he
  | nc => simp [Generic.Atom.isEqNe] at he

/-- **the fully discharged string fragment**: canonical string variables, plain values -/
def PlainStrLeaf (E : Env) : Leaf → Prop := StrLeafW (fun n => n ∈ plainStringVars) PlainValue E

theorem mkAtomOKW_plain (E : Env) : MkAtomOKW (fun n => n ∈ plainStringVars) PlainValue E :=
  fun n a s hn hv _ _ _ hx he h => mkAtomOK_plain n a s hn hv hx he h

/-- **`LeafSpec` on the plain string fragment, no hypothesis left** -/
theorem leafSpec_strPlain (E : Env) : LeafSpec (leafEval E) (PlainStrLeaf E) :=
  leafSpec_strW (mkAtomOKW_plain E)

theorem plainStrLeaf_evaluable {E : Env} {l : Leaf} (h : PlainStrLeaf E l) : ∃ b, l.validate E = .ok b :=
  strLeaf_evaluable h.1

end Poetry.Marker
