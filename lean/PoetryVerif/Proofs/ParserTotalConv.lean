/-
C19: `convert_markers` (packages/utils/utils.py, called by the `Dependency.marker` setter) raises nothing of
its own — its `assert` on the members of a DNF conjunction is dead, because `dnf` returns a disjunctive normal
form for EVERY marker (`dnf_isDnf`, Proofs/MarkerShape.lean).  Helper lemmas for Part XI of Props/C19.lean.
-/
import PoetryVerif.Proofs.MarkerShape
import PoetryVerif.Proofs.ParserTotalSimp
import PoetryVerif.Model.MarkerOps

set_option linter.unusedSimpArgs false
set_option linter.unusedVariables false

namespace Poetry.ParserTotal
open Poetry Marker

/-- a fold in the error monad whose step succeeds on every leaf succeeds on a list of leaves -/
theorem foldlM_leaves_ok {β : Type} (f : β → M → PyM β) (hf : ∀ acc l, ∃ r, f acc (.leaf l) = .ok r) :
    ∀ (ms : List M) (acc : β), ms.all M.isLeaf = true → ∃ r, ms.foldlM f acc = .ok r
  | [], acc, _ => ⟨acc, by simp [pure, Except.pure]⟩
  | m :: ms, acc, h => by
    simp only [List.all_cons, Bool.and_eq_true] at h
    cases m with
    | leaf l =>
      obtain ⟨r, hr⟩ := hf acc l
      rw [List.foldlM_cons]
      simp only [hr, bind, Except.bind]
      exact foldlM_leaves_ok f hf ms r h.2
    | _ => simp [M.isLeaf] at h

/-- **the `assert` of `convert_markers` is dead on a conjunction of leaves** (and on anything that is not a
`MultiMarker`) -/
theorem conjPairs_ok (key : String) (conj : M) (h : ∀ ms, conj = .multi ms → ms.all M.isLeaf = true) :
    ∃ ps, conjPairs key conj = .ok ps := by
  unfold conjPairs
  split
  · next ms =>
    apply foldlM_leaves_ok
    · intro acc l; exact ⟨_, rfl⟩
    · exact h ms rfl
  · exact ⟨_, rfl⟩
  · exact ⟨_, rfl⟩

/-- every member of a disjunctive normal form is a leaf, a conjunction of leaves, Any or Empty -/
theorem dnf_members_cubes {d : M} (hd : d.isDnf = true) :
    ∀ c ∈ membersIfUnion d, ∀ ms, c = .multi ms → ms.all M.isLeaf = true := by
  intro c hc ms hms
  subst hms
  cases d with
  | union cs =>
    simp only [membersIfUnion] at hc
    simp only [M.isDnf, Bool.and_eq_true, List.all_eq_true] at hd
    have := hd.2 _ hc
    simp only [M.isCube, Bool.and_eq_true] at this
    exact this.2
  | multi ls =>
    simp only [membersIfUnion, List.mem_singleton] at hc
    cases hc
    simp only [M.isDnf, M.isCube, Bool.and_eq_true] at hd
    exact hd.2
  | _ => simp [membersIfUnion] at hc

theorem mapM_total {α β : Type} (f : α → PyM β) : ∀ l : List α, (∀ x ∈ l, ∃ y, f x = .ok y) →
    ∃ ys, l.mapM f = .ok ys
  | [], _ => ⟨[], by simp [pure, Except.pure]⟩
  | a :: l, h => by
    obtain ⟨y, hy⟩ := h a (List.mem_cons_self ..)
    obtain ⟨ys, hys⟩ := mapM_total f l (fun x hx => h x (List.mem_cons_of_mem _ hx))
    exact ⟨y :: ys, by rw [List.mapM_cons]; simp [hy, hys, bind, Except.bind, pure, Except.pure]⟩

/-- **an error of `convert_markers(marker)[key]` is an error of `dnf(marker)`** — every marker, every key -/
theorem convertMarkersFor_err (key : String) (m : M) (e : PyErr) (h : convertMarkersFor key m = .error e) :
    dnf defaultFuel [] m = .error e := by
  unfold convertMarkersFor at h
  cases hd : dnf defaultFuel [] m with
  | error e' => simp [hd, bind, Except.bind] at h; rw [h]
  | ok d =>
    exfalso
    obtain ⟨gs, hgs⟩ := mapM_total (conjPairs key) (membersIfUnion d)
      (fun c hc => conjPairs_ok key c (dnf_members_cubes (dnf_isDnf hd) c hc))
    simp only [hd, hgs, bind, Except.bind, pure, Except.pure] at h
    split at h <;> cases h

end Poetry.ParserTotal
