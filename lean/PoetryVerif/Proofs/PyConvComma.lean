/-
The constraint parser on the text `VersionRange.__str__` prints for a two-sided range, `>=V,<W`: one `||` group,
split at the comma into the two clauses (helper lemmas for the python_version / python_full_version pairing).
-/
import PoetryVerif.Proofs.PyConvSplitSem

set_option linter.unusedSimpArgs false
set_option linter.unusedVariables false

namespace Poetry
open Poetry.Marker Poetry.Version VParser

/-- the and-separator at a comma between two clauses -/
theorem andSep_comma (p c : Char) (cs : List Char) (hp : badPrev p = false) (hp' : p ≠ '-') (hc : startOK c) :
    andSep? (some p) (',' :: c :: cs) = some (c :: cs) := by
  simp only [andSep?, hp, Bool.false_eq_true, if_false]
  rw [countSpaces_head (c :: cs) (by decide)]
  have hpb : (p == '-') = false := by simpa using hp'
  simp only [andSep?.go, List.drop_zero, Nat.lt_irrefl, gt_iff_lt, if_false, hpb, Bool.false_eq_true,
    andSepTail_start cs hc]

/-- a text without blanks and bars is one `||` group -/
def NoBar (cs : List Char) : Prop := ∀ c ∈ cs, isSpace c = false ∧ c ≠ '|'

theorem splitOrAux_noBar (cs cur : List Char) (fuel : Nat) (hf : cs.length < fuel) (h : NoBar cs) :
    splitOrAux fuel cs cur = [cur.reverse ++ cs] := by
  induction cs generalizing cur fuel with
  | nil =>
    rw [splitOrAux.eq_def]
    cases fuel <;> simp
  | cons c cs ih =>
    cases fuel with
    | zero => simp at hf
    | succ f =>
      have hc := h c (by simp)
      rw [splitOrAux.eq_def]
      simp only [orSep_item_char cs hc.1 hc.2]
      rw [ih (c :: cur) f (by simpa using hf) (fun d hd => h d (by simp [hd]))]
      simp

theorem splitOr_noBar (cs : List Char) (h : NoBar cs) : splitOr cs = [cs] := by
  unfold splitOr
  rw [splitOrAux_noBar cs [] _ (by omega) h]
  simp

theorem noBar_of_noSep {cs : List Char} (h : NoSep cs) : NoBar cs :=
  fun c hc => ⟨(h c hc).2.2.2, (h c hc).2.2.1⟩

theorem noBar_append {a b : List Char} (ha : NoBar a) (hb : NoBar b) : NoBar (a ++ b) := by
  intro c hc
  rcases List.mem_append.1 hc with h | h
  · exact ha c h
  · exact hb c h

/-- two clauses joined by a comma are split back into the two clauses -/
theorem splitAnd_comma2 (it1 it2 : List Char) (h1 : ItemOK it1) (h2 : ItemOK it2) :
    splitAnd (it1 ++ ',' :: it2) = [it1, it2] := by
  obtain ⟨l, hl, hlb, hlm⟩ := h1.fin
  obtain ⟨c2, cs2, hc2, hs2⟩ := h2.start
  unfold splitAnd
  have hlen : (it1 ++ ',' :: it2).length + 1 = (it2.length + 1 + 1) + it1.length := by
    simp; omega
  rw [hlen, splitAndAux_item it1 h1.nosep none [] (',' :: it2) (it2.length + 1 + 1)]
  have hlast : lastOr none it1 = some l := by simp [lastOr, hl]
  rw [hlast, hc2, splitAndAux]
  simp only [andSep_comma l c2 cs2 hlb hlm hs2]
  rw [← hc2]
  have := splitAndAux_item it2 h2.nosep
    ((',' :: it2).take ((',' :: it2).length - it2.length)).getLast? [] [] 1
  simp only [List.append_nil] at this
  rw [show it2.length + 1 = 1 + it2.length by omega, this, splitAndAux_nil]
  simp

theorem comma_last (it1 it2 : List Char) (h2 : ItemOK it2) :
    ∃ l, (it1 ++ ',' :: it2).getLast? = some l ∧ l ≠ ',' ∧ isSpace l = false := by
  obtain ⟨l, hl, h1, h2'⟩ := itemOK_last h2
  refine ⟨l, ?_, h1, h2'⟩
  rw [show it1 ++ ',' :: it2 = (it1 ++ [',']) ++ it2 by simp, List.getLast?_append, hl]; rfl

/-- **the text `V-clause,W-clause`** parses to the intersection of the two clauses -/
theorem parse_commaPair {B : List Version} (hpb : ∀ e ∈ B, PyBound e = true) (X Y Z : Nat)
    (q1 q2 : List Char × VC)
    (h1 : ItemOK q1.1 ∧ parseSingle q1.1 true = .ok q1.2 ∧ RegVC B q1.2)
    (h2 : ItemOK q2.1 ∧ parseSingle q2.1 true = .ok q2.2 ∧ RegVC B q2.2)
    (s : String) (hs : s.toList = q1.1 ++ ',' :: q2.1) :
    ∃ res, parseConstraintAux s true = .ok res ∧ RegVC B res ∧
      res.allowsPlain (pyV X Y Z) = (q1.2.allowsPlain (pyV X Y Z) && q2.2.allowsPlain (pyV X Y Z)) := by
  have hB := regB_of_pyBound B hpb
  have hr := regular_pyV B hpb X Y Z
  have hp := pyV_wf X Y Z
  obtain ⟨c1, cs1, hc1, hst1⟩ := h1.1.start
  have hstar : (s == "*") = false := by
    rw [beq_eq_false_iff_ne]
    intro e
    have := congrArg String.toList e
    rw [hs, hc1] at this
    simp at this
  obtain ⟨l, hl, hl1, hl2⟩ := comma_last q1.1 q2.1 h2.1
  have hdrop : dropSpaces (q1.1 ++ ',' :: q2.1) = q1.1 ++ ',' :: q2.1 := by
    rw [hc1]; simp [dropSpaces, hst1.2.2.2.2.2]
  have hstrip : strip s.toList = q1.1 ++ ',' :: q2.1 := by
    rw [hs, strip, hdrop, rstripSpaces_last hl hl2]
  have hnb : NoBar (q1.1 ++ ',' :: q2.1) := by
    apply noBar_append (noBar_of_noSep h1.1.nosep)
    intro c hc
    rcases List.mem_cons.1 hc with rfl | hc
    · exact ⟨by decide, by decide⟩
    · exact noBar_of_noSep h2.1.nosep c hc
  obtain ⟨res, hres, hreg, hex⟩ := fold_intersect hB (pyV X Y Z) hp hr q1.2 [q2.2] h1.2.2
    (by intro x hx; simp at hx; subst hx; exact h2.2.2)
  refine ⟨res, ?_, hreg, by rw [hex]; simp⟩
  simp only [parseConstraintAux, hstar, Bool.false_eq_true, if_false, hstrip, splitOr_noBar _ hnb, List.mapM_cons,
    List.mapM_nil, bind, Except.bind, parseGroup, rstripCommas_last hl hl1, rstripSpaces_last hl hl2,
    splitAnd_comma2 q1.1 q2.1 h1.1 h2.1, h1.2.1, h2.2.1, pure, Except.pure]
  simp only [List.foldlM, bind, Except.bind, pure, Except.pure] at hres ⊢
  rw [hres]

end Poetry
