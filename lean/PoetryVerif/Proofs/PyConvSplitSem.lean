/-
`SplitSound` (C11): the constraint parser on a text of several normalised clauses — blanks = and, `||` = or —
from the splitting lemmas (Proofs/PyConvSplit.lean), the clause shapes (Proofs/PyConvShape.lean) and C05's
intersect / `VersionUnion.of` exactness in the regular setting.
-/
import PoetryVerif.Proofs.PyConvShape
import PoetryVerif.Proofs.VRangeInterU

set_option linter.unusedSimpArgs false
set_option linter.unusedVariables false

namespace Poetry
open Poetry.Marker Poetry.Version VParser Std

/-! ### Python bounds form a regular set -/

theorem regB_of_pyBound (B : List Version) (h : ∀ e ∈ B, PyBound e = true) : RegB B where
  reg := by
    intro x hx y hy
    by_cases e : stripZeros x.release = stripZeros y.release
    · left
      rw [vk_eq_iff, cmp_plain (pyBound_plain (h x hx)) (pyBound_plain (h y hy)), e]
      exact compare_self_eq _
    · right
      intro hk
      apply e
      have := congrArg Prod.snd hk
      simpa [relKey] using this
  noloc := fun e he => by simp [Version.isLocal, (pyBound_plain (h e he)).2.2.2.2]

theorem regular_pyV (B : List Version) (h : ∀ e ∈ B, PyBound e = true) (X Y Z : Nat) : Regular B (pyV X Y Z) :=
  fun e he => regular_py (h e he) X Y Z

/-- a constraint of the regular setting over the bound set `B` -/
def RegVC (B : List Version) (vc : VC) : Prop := vc.WF ∧ ∀ c ∈ vc.flatten, RegMember B c

theorem regVC_of_ok {B : List Version} {vc : VC} (h : PyVCok vc) (hb : ∀ c ∈ vc.flatten, ∀ e ∈ c.bounds, e ∈ B) :
    RegVC B vc :=
  ⟨h.1, fun c hc => ⟨(h.2 c hc).1, (h.2 c hc).2.1, (h.2 c hc).2.2.1, hb c hc⟩⟩

theorem regular_sub {B : List Version} {p : Version} (hp : Regular B p) {a b : VC} (ha : RegVC B a) (hb : RegVC B b) :
    Regular (boundsOf a.flatten ++ boundsOf b.flatten) p := by
  apply hp.mono
  intro e he
  simp only [List.mem_append, boundsOf, List.mem_flatMap] at he
  rcases he with ⟨c, hc, hec⟩ | ⟨c, hc, hec⟩
  · exact (ha.2 c hc).2.2.2 e hec
  · exact (hb.2 c hc).2.2.2 e hec

/-- the `for` loop of one group: the intersection of the clauses -/
theorem fold_intersect {B : List Version} (hB : RegB B) (p : Version) (hp : p.wf = true) (hr : Regular B p)
    (c : VC) (rest : List VC) (hc : RegVC B c) (hrest : ∀ x ∈ rest, RegVC B x) :
    ∃ res, rest.foldlM (fun acc n => VC.intersect acc n) c = .ok res ∧ RegVC B res ∧
      res.allowsPlain p = (c.allowsPlain p && rest.all (fun x => x.allowsPlain p)) := by
  induction rest generalizing c with
  | nil => exact ⟨c, rfl, hc, by simp⟩
  | cons x xs ih =>
    have hx := hrest x (by simp)
    obtain ⟨i, hi, hwf, hm, hex⟩ := VC.intersect_reg hB c x hc.1 hx.1 hc.2 hx.2
    obtain ⟨res, h1, h2, h3⟩ := ih i ⟨hwf, hm⟩ (fun y hy => hrest y (by simp [hy]))
    refine ⟨res, by simp [List.foldlM, hi, bind, Except.bind, h1], h2, ?_⟩
    rw [h3, hex p hp (regular_sub hr hc hx)]
    simp [Bool.and_assoc]


/-! ### one group -/

theorem rstripCommas_last {s : List Char} {l : Char} (h : s.getLast? = some l) (hl : l ≠ ',') : rstripCommas s = s := by
  unfold rstripCommas
  have hr : s.reverse.head? = some l := by simpa using h
  cases hs : s.reverse with
  | nil => simp [hs] at hr
  | cons c r =>
    rw [hs] at hr; simp at hr; subst hr
    have hb : (c == ',') = false := by simpa using hl
    have : (c :: r).dropWhile (· == ',') = c :: r := by simp [List.dropWhile, hb]
    rw [this, ← hs]; simp

theorem rstripSpaces_last {s : List Char} {l : Char} (h : s.getLast? = some l) (hl : isSpace l = false) :
    rstripSpaces s = s := by
  unfold rstripSpaces
  have hr : s.reverse.head? = some l := by simpa using h
  cases hs : s.reverse with
  | nil => simp [hs] at hr
  | cons c r =>
    rw [hs] at hr; simp at hr; subst hr
    have : dropSpaces (c :: r) = c :: r := by simp [dropSpaces, hl]
    rw [this, ← hs]; simp

theorem itemOK_last {it : List Char} (h : ItemOK it) :
    ∃ l, it.getLast? = some l ∧ l ≠ ',' ∧ isSpace l = false := by
  obtain ⟨l, hl, hb, _⟩ := h.fin
  have hm : l ∈ it := List.mem_of_getLast? hl
  refine ⟨l, hl, ?_, (h.nosep l hm).2.2.2⟩
  intro e; subst e; revert hb; decide

theorem spJoin_last (it : List Char) (more : List (List Char)) (hall : ∀ x ∈ it :: more, ItemOK x) :
    ∃ l, (spJoin (it :: more)).getLast? = some l ∧ l ≠ ',' ∧ isSpace l = false := by
  induction more generalizing it with
  | nil => simpa [spJoin] using itemOK_last (hall it (by simp))
  | cons it2 more ih =>
    obtain ⟨l, hl, h1, h2⟩ := ih it2 (fun x hx => hall x (by simp [hx]))
    refine ⟨l, ?_, h1, h2⟩
    have : spJoin (it :: it2 :: more) = (it ++ [' ']) ++ spJoin (it2 :: more) := by simp [spJoin]
    rw [this, List.getLast?_append, hl]; rfl

theorem mapM_parseSingle (ivs : List (List Char × VC)) (h : ∀ p ∈ ivs, parseSingle p.1 true = .ok p.2) :
    (ivs.map (·.1)).mapM (fun q => parseSingle q true) = .ok (ivs.map (·.2)) := by
  induction ivs with
  | nil => rfl
  | cons p ps ih =>
    simp only [List.map_cons, List.mapM_cons, h p (by simp), bind, Except.bind,
      ih (fun q hq => h q (by simp [hq])), pure, Except.pure]

/-- **one `||` group**: clauses joined by blanks parse to the intersection of the clauses -/
theorem parseGroup_items {B : List Version} (hB : RegB B) (p : Version) (hp : p.wf = true) (hr : Regular B p)
    (iv : List Char × VC) (ivs : List (List Char × VC))
    (h : ∀ q ∈ iv :: ivs, ItemOK q.1 ∧ parseSingle q.1 true = .ok q.2 ∧ RegVC B q.2) :
    ∃ res, parseGroup (spJoin ((iv :: ivs).map (·.1))) true = .ok res ∧ RegVC B res ∧
      res.allowsPlain p = (iv :: ivs).all (fun q => q.2.allowsPlain p) := by
  have hall : ∀ x ∈ iv.1 :: ivs.map (·.1), ItemOK x := by
    intro x hx
    simp only [List.mem_cons, List.mem_map] at hx
    rcases hx with rfl | ⟨q, hq, rfl⟩
    · exact (h iv (by simp)).1
    · exact (h q (by simp [hq])).1
  obtain ⟨l, hl, h1, h2⟩ := spJoin_last iv.1 (ivs.map (·.1)) hall
  obtain ⟨res, hres, hreg, hex⟩ := fold_intersect hB p hp hr iv.2 (ivs.map (·.2)) (h iv (by simp)).2.2
    (by intro x hx; obtain ⟨q, hq, rfl⟩ := List.mem_map.1 hx; exact (h q (by simp [hq])).2.2)
  refine ⟨res, ?_, hreg, ?_⟩
  · simp only [parseGroup, List.map_cons, rstripCommas_last hl h1, rstripSpaces_last hl h2,
      splitAnd_items _ (by simp) hall, bind, Except.bind]
    have := mapM_parseSingle (iv :: ivs) (fun q hq => (h q hq).2.1)
    simp only [List.map_cons] at this
    rw [this]
    exact hres
  · rw [hex]; simp [List.all_map]; rfl


/-! ### the whole text -/

abbrev Grp := (List Char × VC) × List (List Char × VC)
def Grp.items (g : Grp) : List (List Char × VC) := g.1 :: g.2
def Grp.chars (g : Grp) : List Char := spJoin (g.items.map (·.1))

theorem grp_groupOK (g : Grp) (h : ∀ q ∈ g.items, ItemOK q.1) : GroupOK g.chars := by
  refine ⟨g.1.1, g.2.map (·.1), ?_, by simp [Grp.chars, Grp.items]⟩
  intro x hx
  simp only [List.mem_cons, List.mem_map] at hx
  rcases hx with rfl | ⟨q, hq, rfl⟩
  · exact h g.1 (by simp [Grp.items])
  · exact h q (by simp [Grp.items, hq])

theorem mapM_parseGroup {B : List Version} (hB : RegB B) (p : Version) (hp : p.wf = true) (hr : Regular B p)
    (gvs : List Grp) (h : ∀ g ∈ gvs, ∀ q ∈ g.items, ItemOK q.1 ∧ parseSingle q.1 true = .ok q.2 ∧ RegVC B q.2) :
    ∃ ress : List VC, (gvs.map Grp.chars).mapM (fun g => parseGroup g true) = .ok ress ∧
      ress.length = gvs.length ∧ (∀ r ∈ ress, RegVC B r) ∧
      ress.map (fun r => r.allowsPlain p) = gvs.map (fun g => g.items.all (fun q => q.2.allowsPlain p)) := by
  induction gvs with
  | nil => exact ⟨[], rfl, rfl, by simp, rfl⟩
  | cons g gs ih =>
    obtain ⟨res, h1, h2, h3⟩ := parseGroup_items hB p hp hr g.1 g.2 (h g (by simp))
    obtain ⟨ress, k1, k2, k3, k4⟩ := ih (fun g' hg' => h g' (by simp [hg']))
    refine ⟨res :: ress, ?_, by simp [k2], ?_, ?_⟩
    · simp only [List.map_cons, List.mapM_cons, bind, Except.bind, pure, Except.pure]
      have : parseGroup g.chars true = .ok res := h1
      rw [this, k1]
    · intro r hr'
      rcases List.mem_cons.1 hr' with rfl | hr'
      · exact h2
      · exact k3 r hr'
    · simp only [List.map_cons, k4]
      congr 1

theorem strip_ends {s : List Char} {c : Char} {t : List Char} {l : Char} (hs : s = c :: t) (hc : isSpace c = false)
    (hl : s.getLast? = some l) (hls : isSpace l = false) : strip s = s := by
  unfold strip
  have : dropSpaces s = s := by rw [hs]; simp [dropSpaces, hc]
  rw [this, rstripSpaces_last hl hls]

theorem orJoin_head (g : List Char) (gs : List (List Char)) : ∃ tl, orJoin (g :: gs) = g ++ tl := by
  cases gs with
  | nil => exact ⟨[], by simp [orJoin]⟩
  | cons b r => exact ⟨' ' :: '|' :: '|' :: ' ' :: orJoin (b :: r), by simp [orJoin]⟩

theorem orJoin_last (g : List Char) (gs : List (List Char)) (hall : ∀ x ∈ g :: gs, GroupOK x) :
    ∃ l, (orJoin (g :: gs)).getLast? = some l ∧ isSpace l = false := by
  induction gs generalizing g with
  | nil =>
    obtain ⟨it, more, hi, rfl⟩ := hall g (by simp)
    obtain ⟨l, hl, _, h2⟩ := spJoin_last it more hi
    exact ⟨l, by simpa [orJoin] using hl, h2⟩
  | cons g2 gs ih =>
    obtain ⟨l, hl, h2⟩ := ih g2 (fun x hx => hall x (by simp [hx]))
    refine ⟨l, ?_, h2⟩
    have : orJoin (g :: g2 :: gs) = (g ++ [' ', '|', '|', ' ']) ++ orJoin (g2 :: gs) := by simp [orJoin]
    rw [this, List.getLast?_append, hl]; rfl

theorem anyAllows_flatMap (ress : List VC) (p : Version) :
    anyAllows (ress.flatMap VC.flatten) p = ress.any (fun r => r.allowsPlain p) := by
  induction ress with
  | nil => rfl
  | cons r rs ih =>
    simp only [List.flatMap_cons, anyAllows, List.any_append, List.any_cons] at ih ⊢
    rw [ih]; rfl

/-- **a text of normalised clauses**: groups joined by ` || `, clauses inside a group by blanks — the parser returns a
constraint of the regular setting that admits the interpreter iff all clauses of some group do, and `allows` of it
never raises -/
theorem parse_groups {B : List Version} (hpb : ∀ e ∈ B, PyBound e = true) (X Y Z : Nat)
    (gvs : List Grp) (hne : gvs ≠ [])
    (h : ∀ g ∈ gvs, ∀ q ∈ g.items, ItemOK q.1 ∧ parseSingle q.1 true = .ok q.2 ∧ RegVC B q.2)
    (hstar : ∀ g ∈ gvs, ∀ q ∈ g.items, q.1 ≠ ['*'])
    (s : String) (hs : s.toList = orJoin (gvs.map Grp.chars)) :
    ∃ res, parseConstraintAux s true = .ok res ∧ RegVC B res ∧
      res.allowsPlain (pyV X Y Z) = gvs.any (fun g => g.items.all (fun q => q.2.allowsPlain (pyV X Y Z))) ∧
      res.allows (pyV X Y Z) = .ok (res.allowsPlain (pyV X Y Z)) := by
  have hB := regB_of_pyBound B hpb
  have hr := regular_pyV B hpb X Y Z
  have hp := pyV_wf X Y Z
  obtain ⟨g, gs, rfl⟩ : ∃ g gs, gvs = g :: gs := by cases gvs <;> simp_all
  have hgo : ∀ x ∈ (g :: gs).map Grp.chars, GroupOK x := by
    intro x hx
    obtain ⟨g', hg', rfl⟩ := List.mem_map.1 hx
    exact grp_groupOK g' (fun q hq => (h g' hg' q hq).1)
  -- the text is not the lone `*`
  have hnotstar : (s == "*") = false := by
    cases hb : s == "*" with
    | false => rfl
    | true =>
      exfalso
      have : s = "*" := by simpa using hb
      have ht : orJoin ((g :: gs).map Grp.chars) = ['*'] := by rw [← hs, this]; rfl
      cases gs with
      | nil =>
        simp only [List.map_cons, List.map_nil, orJoin, Grp.chars] at ht
        cases hg2 : g.2 with
        | nil =>
          simp [Grp.items, hg2, spJoin] at ht
          exact hstar g (by simp) g.1 (by simp [Grp.items]) ht
        | cons q qs =>
          simp [Grp.items, hg2, spJoin] at ht
          have := congrArg List.length ht
          simp at this
          obtain ⟨c, cs, hc, _⟩ := (h g (by simp) g.1 (by simp [Grp.items])).1.start
          rw [hc] at this; simp at this; omega
      | cons g2 gs' =>
        simp only [List.map_cons, orJoin] at ht
        have := congrArg List.length ht
        simp at this
        omega
  -- strip
  obtain ⟨c, tl, hch, hcs⟩ := groupOK_head (hgo g.chars (by simp))
  obtain ⟨tl2, htl2⟩ := orJoin_head g.chars (gs.map Grp.chars)
  obtain ⟨l, hl, hls⟩ := orJoin_last g.chars (gs.map Grp.chars) (by simpa using hgo)
  have hstrip : strip s.toList = s.toList := by
    rw [hs]
    simp only [List.map_cons] at htl2 hl ⊢
    exact strip_ends (c := c) (t := tl ++ tl2) (by rw [htl2, hch]; simp) hcs.2.2.2.2.2 hl hls
  obtain ⟨ress, k1, k2, k3, k4⟩ := mapM_parseGroup hB (pyV X Y Z) hp hr (g :: gs) h
  have hsplit : splitOr s.toList = (g :: gs).map Grp.chars := by
    rw [hs]; exact splitOr_groups _ (by simp) hgo
  simp only [parseConstraintAux, hnotstar, Bool.false_eq_true, if_false, hstrip, hsplit, k1, bind, Except.bind]
  -- one group or several
  cases ress with
  | nil => simp at k2
  | cons r rs =>
    cases rs with
    | nil =>
      have hgs : gs = [] := by
        cases gs with
        | nil => rfl
        | cons _ _ => simp at k2
      subst hgs
      have hr1 := k3 r (by simp)
      refine ⟨r, rfl, hr1, ?_, VC.allows_of_reg hB r hr1.1 hr1.2 _⟩
      simp at k4
      simp [k4]
    | cons r2 rs =>
      obtain ⟨res, h1, h2, h3, h4⟩ := unionOfFlat_reg hB ((r :: r2 :: rs).flatMap VC.flatten) (by
        intro x hx
        obtain ⟨v, hv, hxv⟩ := List.mem_flatMap.1 hx
        exact (k3 v hv).2 x hxv)
      refine ⟨res, ?_, ⟨h2, h3⟩, ?_, VC.allows_of_reg hB res h2 h3 _⟩
      · simp only [VC.unionOf]; exact h1
      · rw [h4 (pyV X Y Z) hp (hr.mono (by
          intro e he
          simp only [boundsOf, List.mem_flatMap] at he
          obtain ⟨x, ⟨v, hv, hxv⟩, hex⟩ := he
          exact ((k3 v hv).2 x hxv).2.2.2 e hex)), anyAllows_flatMap]
        have : (r :: r2 :: rs).any (fun r => r.allowsPlain (pyV X Y Z)) =
            ((r :: r2 :: rs).map (fun r => r.allowsPlain (pyV X Y Z))).any id := by simp [List.any_map]
        rw [this, k4]
        simp [List.any_map]

end Poetry
