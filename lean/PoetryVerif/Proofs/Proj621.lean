/-
C02, PEP 621 tables: `meta.requires_dist` keeps every declared entry (in order, with multiplicity) — an entry is left out
only when its own marker is empty; what the OTHER entries are (equal under `Dependency.__eq__`, same distribution under a
different marker or extra) plays no role.
-/
import PoetryVerif.Model.Proj621

namespace Poetry.Proj621
open Poetry Poetry.Marker Poetry.Dep

theorem mapM_ok_cons {α β : Type} (f : α → PyM β) (a : α) (as : List α) (ys : List β)
    (h : (a :: as).mapM f = .ok ys) : ∃ y ys', f a = .ok y ∧ as.mapM f = .ok ys' ∧ ys = y :: ys' := by
  rw [List.mapM_cons] at h
  cases hf : f a with
  | error e => simp [hf, bind, Except.bind] at h
  | ok y =>
    cases hr : as.mapM f with
    | error e => simp [hf, hr, bind, Except.bind] at h
    | ok ys' =>
      simp only [hf, hr, bind, Except.bind, pure, Except.pure, Except.ok.injEq] at h
      exact ⟨y, ys', rfl, rfl, h.symm⟩

/-- the lines are exactly the entries' own lines, in table order and with multiplicity -/
theorem requiresDist_eq (es : List Entry) (ls : List String) (h : requiresDist es = .ok ls) :
    ∃ os : List (Option String), es.mapM entryLine = .ok os ∧ ls = os.filterMap id := by
  unfold requiresDist at h
  cases hm : es.mapM entryLine with
  | error e => simp [hm, bind, Except.bind] at h
  | ok os =>
    simp only [hm, bind, Except.bind, pure, Except.pure, Except.ok.injEq] at h
    exact ⟨os, rfl, h.symm⟩

theorem mapM_ok_length {α β : Type} (f : α → PyM β) (as : List α) (ys : List β) (h : as.mapM f = .ok ys) :
    ys.length = as.length := by
  induction as generalizing ys with
  | nil => simp [List.mapM_nil, pure, Except.pure] at h; subst h; rfl
  | cons a as ih =>
    obtain ⟨y, ys', _, h2, rfl⟩ := mapM_ok_cons f a as ys h
    simp [ih ys' h2]

theorem mapM_ok_mem {α β : Type} (f : α → PyM β) (as : List α) (ys : List β) (h : as.mapM f = .ok ys)
    (a : α) (ha : a ∈ as) : ∃ y ∈ ys, f a = .ok y := by
  induction as generalizing ys with
  | nil => cases ha
  | cons b bs ih =>
    obtain ⟨y, ys', h1, h2, rfl⟩ := mapM_ok_cons f b bs ys h
    rcases List.mem_cons.mp ha with rfl | hm
    · exact ⟨y, by simp, h1⟩
    · obtain ⟨y', hy', hf⟩ := ih ys' h2 hm
      exact ⟨y', List.mem_cons_of_mem _ hy', hf⟩

/-- **no declared entry is dropped**: every entry that has a line of its own has that line in Requires-Dist,
whatever else the table contains -/
theorem entry_kept (es : List Entry) (ls : List String) (h : requiresDist es = .ok ls)
    (e : Entry) (he : e ∈ es) (t : String) (ht : entryLine e = .ok (some t)) : t ∈ ls := by
  obtain ⟨os, hm, rfl⟩ := requiresDist_eq es ls h
  obtain ⟨o, ho, hf⟩ := mapM_ok_mem entryLine es os hm e he
  rw [ht] at hf
  cases hf
  exact List.mem_filterMap.mpr ⟨some t, ho, rfl⟩

theorem filterMap_id_length (os : List (Option String)) : (os.filterMap id).length = (os.filter Option.isSome).length := by
  induction os with
  | nil => rfl
  | cons o os ih => cases o <;> simp [ih]

/-- as many lines as entries with a line, one answer per entry: a repeated entry is repeated -/
theorem requiresDist_length (es : List Entry) (ls : List String) (h : requiresDist es = .ok ls) :
    ∃ os : List (Option String), es.mapM entryLine = .ok os ∧ os.length = es.length ∧
      ls.length = (os.filter Option.isSome).length := by
  obtain ⟨os, hm, rfl⟩ := requiresDist_eq es ls h
  exact ⟨os, hm, mapM_ok_length entryLine es os hm, filterMap_id_length os⟩

/-- an entry of `[project.optional-dependencies]` has a line iff its own marker is not empty -/
theorem optional_entry_line (text x : String) (d : Dep) (h : createFromPep508Top text = .ok d) :
    ∃ d', entryDependency ⟨text, some x⟩ = .ok d' ∧ d'.marker = d.marker ∧ d'.inExtras = [canonName x] ∧
      Dep02.selected d' = !d.marker.isEmpty := by
  refine ⟨{ d with optional := true, inExtras := [canonName x] }, ?_, rfl, rfl, ?_⟩
  · simp [entryDependency, h, bind, Except.bind, pure, Except.pure]
  · simp [Dep02.selected]

/-- an entry of `[project] dependencies` is the parsed dependency itself -/
theorem plain_entry (text : String) : entryDependency ⟨text, none⟩ = createFromPep508Top text := by
  unfold entryDependency
  cases createFromPep508Top text <;> rfl

/-- the walk order: `dependencies` first, then the extras -/
theorem entries_length (deps : List String) (opt : List (String × List String)) :
    (entries deps opt).length = deps.length + (opt.map (·.2.length)).sum := by
  unfold entries
  rw [List.length_append, List.length_map]
  congr 1
  induction opt with
  | nil => rfl
  | cons p ps ih => simp [List.flatMap_cons, ih]

end Poetry.Proj621
