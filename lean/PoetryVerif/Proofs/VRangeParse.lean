/- Small facts about the constraint tokeniser used by the token-level theorems of C15. -/
import PoetryVerif.Model.VParser

set_option linter.unusedSimpArgs false

namespace Poetry
open VParser

theorem x_none_gt (r : List Char) : xConstraint? ('>' :: r) = none := by
  simp [xConstraint?, dropSpaces, isSpace, takeDigits, isDigit]
theorem x_none_lt (r : List Char) : xConstraint? ('<' :: r) = none := by
  simp [xConstraint?, dropSpaces, isSpace, takeDigits, isDigit]


end Poetry
