/-
`platform_release` as a version-like variable: same-name leaves `platform_release <op> "x.y…"` whose literal is a
release number of one to three components, in environments whose `platform_release` is a release number
(C05's regular setting over Python-style bounds).  No padding, no pairing, no special branch: the constructor
fact `MkVerOK` is proved and the generic version fragment applies.
-/
import PoetryVerif.Proofs.MarkerAlgSoundPyInv

set_option linter.unusedSimpArgs false
set_option linter.unusedVariables false

namespace Poetry.Marker
open Poetry Poetry.Version

/-- `platform_release op "x.r…"` -/
def prLeafOf (sop : Spec.SOp) (ops : String) (x : Nat) (r : List Nat) : Single :=
  ⟨"platform_release", ops, Version.relText (x :: r), false, .ver (pvClause sop (litV x r))⟩

theorem parseByKind_verF (s : String) (c : VC) (h : VParser.parseMarkerVersionConstraint s = .ok c) :
    parseByKind (.version false) s = .ok (.ver c) := by
  simp [parseByKind, parseVersionKind, h, Except.map]

theorem leafPrepare_pr (cstr : String) (opG : Option String) (v : String)
    (hm : matchPattern1 cstr.toList = some (opG, v))
    (l1 : (opG.getD "==" == "in") = false) (l2 : (opG.getD "==" == "not in") = false) :
    leafPrepare "platform_release" cstr false =
      .ok { name := "platform_release", op := opG.getD "==", value := v, swapped := false,
            cstr := cstr, kind := .version false } := by
  unfold leafPrepare
  simp only [Bool.false_eq_true, if_false, hm, l1, l2, Bool.false_and, Bool.or_false]
  have f1 : Gen.versionLikeMarkerNames.contains "platform_release" = true := by decide
  have f1' : "platform_release" ∈ Gen.versionLikeMarkerNames := by decide
  have f2 : ("platform_release" == "python_full_version") = false := by decide
  have f3 : aliasName "platform_release" = "platform_release" := by decide
  have f4 : ("platform_release" != "platform_release") = false := by decide
  simp [f1, f1', f2, f3, f4]

theorem mkSingle_prLeaf {sop ops} (h : (sop, ops) ∈ pvOps) (x : Nat) (r : List Nat) :
    mkSingle "platform_release" (ops ++ Version.relText (x :: r)) false = .ok (prLeafOf sop ops x r) := by
  obtain ⟨h1, h2, _⟩ := pvOps_facts h (litV x r)
  obtain ⟨l1, l2⟩ := verOp_not_list sop ops h2
  have hp := pmvc_op sop ops h2 x r
  rw [h1] at hp
  have hprep := leafPrepare_pr (ops ++ Version.relText (x :: r)) (some ops) _
    (matchPattern1_ver sop ops h2 x r) (by simpa using l1) (by simpa using l2)
  simp [mkSingle, hprep, bind, Except.bind, parseByKind_verF _ _ hp, pure, Except.pure, prLeafOf]

theorem mkSingle_pr_bare (x : Nat) (r : List Nat) :
    mkSingle "platform_release" (Version.relText (x :: r)) false = .ok (prLeafOf .eq "==" x r) := by
  have hprep := leafPrepare_pr (Version.relText (x :: r)) none _ (matchPattern1_relText x r) (by decide) (by decide)
  simp [mkSingle, hprep, bind, Except.bind, parseByKind_verF _ _ (pmvc_bare x r), pure, Except.pure,
    prLeafOf, pvClause]

/-- **`SingleMarker("platform_release", str(c))` for a simple constraint over release-number bounds** is the leaf
on that bound with the matching comparison operator, admitting the final releases exactly when `c` does -/
theorem mkSingleOfC_pr {rc : VC} (hok : PyVCok rc) (he : rc.isEmpty = false) (ha : rc.isAny = false)
    (hs : rc.isSimple = .ok true) {s : Single} (hmk : mkSingleOfC "platform_release" (.ver rc) = .ok s) :
    ∃ sop ops x r, (sop, ops) ∈ pvOps ∧ r.length ≤ 2 ∧ litV x r ∈ boundsOf rc.flatten ∧
      s = prLeafOf sop ops x r ∧
      ∀ l, l ≠ [] → (pvClause sop (litV x r)).allowsPlain (finalV l) = rc.allowsPlain (finalV l) := by
  cases rc with
  | empty => simp [VC.isEmpty] at he
  | single c =>
    have hcm := hok.2 c (by simp [VC.flatten])
    cases c with
    | ver V =>
      obtain ⟨x, r, hr, rfl⟩ := pyBound_lit (hcm.2.2.2 V (by simp [RC.bounds, RC.view, VRange.bounds, RC.min]))
      simp only [mkSingleOfC, LeafC.toStr, VC.toStr, RC.toStr, litV_text, bind, Except.bind,
        mkSingle_pr_bare x r] at hmk
      cases hmk
      exact ⟨.eq, "==", x, r, by decide, hr,
        by simp [boundsOf, VC.flatten, RC.bounds, RC.view, VRange.bounds, RC.min], rfl,
        fun l _ => rfl⟩
    | rng R =>
      obtain ⟨mn, mx, imin, imax⟩ := R
      have htidy := hcm.2.1
      cases mn with
      | none =>
        cases mx with
        | none => simp [VC.isAny, RC.isAny, VRange.isAny] at ha
        | some V =>
          have him : imin = false := htidy.1 rfl
          subst him
          obtain ⟨x, r, hr, rfl⟩ := pyBound_lit (hcm.2.2.2 V
            (by simp [RC.bounds, RC.view, VRange.bounds, RC.min, RC.max]))
          cases imax with
          | false =>
            simp only [mkSingleOfC, LeafC.toStr, VC.toStr, RC.toStr, VRange.toStr, litV_text, bind, Except.bind,
              Bool.false_eq_true, if_false, mkSingle_prLeaf (sop := .lt) (ops := "<") (by decide) x r] at hmk
            cases hmk
            exact ⟨.lt, "<", x, r, by decide, hr,
              by simp [boundsOf, VC.flatten, RC.bounds, RC.view, VRange.bounds, RC.min, RC.max], rfl,
              fun l _ => rfl⟩
          | true =>
            simp only [mkSingleOfC, LeafC.toStr, VC.toStr, RC.toStr, VRange.toStr, litV_text, bind, Except.bind,
              if_true, mkSingle_prLeaf (sop := .le) (ops := "<=") (by decide) x r] at hmk
            cases hmk
            exact ⟨.le, "<=", x, r, by decide, hr,
              by simp [boundsOf, VC.flatten, RC.bounds, RC.view, VRange.bounds, RC.min, RC.max], rfl,
              fun l _ => rfl⟩
      | some V =>
        cases mx with
        | some W => simp [VC.isSimple, RC.isSimple, VRange.isSimple] at hs
        | none =>
          have him : imax = false := htidy.2 rfl
          subst him
          obtain ⟨x, r, hr, rfl⟩ := pyBound_lit (hcm.2.2.2 V
            (by simp [RC.bounds, RC.view, VRange.bounds, RC.min, RC.max]))
          cases imin with
          | false =>
            simp only [mkSingleOfC, LeafC.toStr, VC.toStr, RC.toStr, VRange.toStr, litV_text, bind, Except.bind,
              Bool.false_eq_true, if_false, mkSingle_prLeaf (sop := .gt) (ops := ">") (by decide) x r] at hmk
            cases hmk
            exact ⟨.gt, ">", x, r, by decide, hr,
              by simp [boundsOf, VC.flatten, RC.bounds, RC.view, VRange.bounds, RC.min, RC.max], rfl,
              fun l _ => rfl⟩
          | true =>
            simp only [mkSingleOfC, LeafC.toStr, VC.toStr, RC.toStr, VRange.toStr, litV_text, bind, Except.bind,
              if_true, mkSingle_prLeaf (sop := .ge) (ops := ">=") (by decide) x r] at hmk
            cases hmk
            exact ⟨.ge, ">=", x, r, by decide, hr,
              by simp [boundsOf, VC.flatten, RC.bounds, RC.view, VRange.bounds, RC.min, RC.max], rfl,
              fun l _ => rfl⟩
  | union rs =>
    -- the `!= V` shape
    let B : List Version := boundsOf rs
    have hpb : ∀ e ∈ B, PyBound e = true := by
      intro e he'
      simp only [B, boundsOf, List.mem_flatMap] at he'
      obtain ⟨c, hc, hec⟩ := he'
      exact (hok.2 c (by simpa [VC.flatten] using hc)).2.2.2 e hec
    have hB := regB_of_pyBound B hpb
    have hreg := regVC_of_ok (B := B) hok (fun c hc e he' => by
      simp only [B, boundsOf, List.mem_flatMap]; exact ⟨c, by simpa [VC.flatten] using hc, he'⟩)
    have hmr : ∀ c ∈ rs, RegMember B c := by simpa [VC.flatten] using hreg.2
    obtain ⟨hUok, hN⟩ := unionOK_of_reg hB rs hmr hok.1.2.2.1
    have hex : ∃ v, VC.excludedSingleVersion rs = .ok (some v) := by
      simp only [VC.isSimple, bind, Except.bind, pure, Except.pure] at hs
      cases h : VC.excludedSingleVersion rs with
      | error e => simp [h] at hs
      | ok o =>
        cases o with
        | none => simp [h] at hs
        | some v => exact ⟨v, rfl⟩
    obtain ⟨v, hv⟩ := hex
    have hinv : VC.inverted rs = .ok (.single (.ver v)) := by
      simp only [VC.excludedSingleVersion, bind, Except.bind, pure, Except.pure] at hv
      cases h : VC.inverted rs with
      | error e => simp [h] at hv
      | ok res =>
        simp only [h] at hv
        split at hv
        · cases hv; rfl
        · cases hv
    obtain ⟨_, hb, hsem⟩ := inverted_sem rs hUok _ hinv
    have hvB : v ∈ B := hb v (by simp [VC.bounds, RC.bounds, RC.view, VRange.bounds, RC.min])
    have hvb := hpb v hvB
    obtain ⟨x, r, hr, rfl⟩ := pyBound_lit hvb
    have hstr : (LeafC.ver (.union rs)).toStr = .ok ("!=" ++ Version.relText (x :: r)) := by
      simp [LeafC.toStr, VC.toStr, hv, bind, Except.bind, pure, Except.pure, litV_text]
    simp only [mkSingleOfC, hstr, bind, Except.bind,
      mkSingle_prLeaf (sop := .ne) (ops := "!=") (by decide) x r] at hmk
    cases hmk
    refine ⟨.ne, "!=", x, r, by decide, hr, by simpa [VC.flatten, B] using hvB, rfl, ?_⟩
    intro l hl
    have hp : (finalV l).wf = true := finalV_wf l hl
    have hregp := regular_final B hpb l
    have h1 := hsem (finalV l) hp hregp
    rw [anyAllows_eq_allowsPlain] at h1
    have hr1 : Reg1 (finalV l) (litV x r) := reg1_final l hvb
    have hva : (VC.single (.ver (litV x r))).allowsPlain (finalV l) = (litV x r).allows (finalV l) := by
      simp [VC.allowsPlain, VC.flatten, RC.allows]
    rw [hva] at h1
    have h2' : (VC.union rs).allowsPlain (finalV l) = !(litV x r).allows (finalV l) := by rw [h1]; simp
    rw [h2']
    simp only [pvClause, VC.allowsPlain, VC.flatten, List.any_cons, List.any_nil, Bool.or_false, RC.allows]
    rw [Bool.eq_iff_iff]
    simp only [Bool.or_eq_true, Bool.not_eq_true', ← Bool.not_eq_true,
      upper_allows (litV x r) (finalV l) false (litV_wf x r) hp hr1,
      lower_allows (litV x r) (finalV l) false (litV_wf x r) hp hr1,
      RC.ver_allows_iff (litV x r) (finalV l) (litV_wf x r) hp hr1, Bool.false_eq_true, if_false]
    exact ⟨fun h => by rcases h with h | h; exact ne_of_lt h; exact fun e => (ne_of_lt h) e.symm,
      fun h => lt_or_gt_of_ne h⟩

/-- a leaf of this form is a leaf of the regular fragment -/
theorem pr_verLeaf {B : List Version} {sop ops} (h : (sop, ops) ∈ pvOps) (x : Nat) (r : List Nat)
    (hb : PyBound (litV x r) = true) (hB : litV x r ∈ B) :
    VerLeaf B "platform_release" (.single (prLeafOf sop ops x r)) := by
  have hok := pvClause_okV h hb
  have hreg := regVC_of_ok (B := B) hok (fun m hm e he => by rw [pvClause_bounds h _ m hm e he]; exact hB)
  refine ⟨rfl, ?_, _, rfl, hreg.1, hreg.2⟩
  simp only [Single.coherent, prLeafOf, itemConstraintString, Bool.false_eq_true, if_false]
  rw [mkSingle_prLeaf h x r]
  simp [prLeafOf]

/-- **the constructor fact for `platform_release` over release-number bounds**, at every final release -/
theorem mkVerOK_pr {B : List Version} (hpb : ∀ e ∈ B, PyBound e = true) (X : Nat) (R : List Nat) :
    MkVerOK B "platform_release" (litV X R) := by
  intro rc s hw hm he ha hsimp hmk
  obtain ⟨sop, ops, x, r, hmem, hr, hxB, rfl, hall⟩ :=
    mkSingleOfC_pr (pyVCok_of_reg hpb ⟨hw, hm⟩) he ha hsimp hmk
  have hxB' : litV x r ∈ B := by
    simp only [boundsOf, List.mem_flatMap] at hxB
    obtain ⟨m, hm', hxm⟩ := hxB
    exact (hm m hm').2.2.2 _ hxm
  exact ⟨pr_verLeaf hmem x r (hpb _ hxB') hxB', fun vc hvc => by cases hvc; exact hall (X :: R) (by simp)⟩

theorem verEnv_pr {B : List Version} (hpb : ∀ e ∈ B, PyBound e = true) {E : Env} (x : Nat) (r : List Nat)
    (hE : E.get? "platform_release" = some (Version.relText (x :: r))) :
    VerEnv B E "platform_release" (litV x r) where
  get := ⟨_, hE, by
    have f4 : ("platform_release" != "platform_release") = false := by decide
    simp [parseVersionKind, f4, pmvc_bare x r, Except.map]⟩
  wf := litV_wf x r
  reg := regular_final B hpb (x :: r)

/-- **`LeafSpec` on same-name `platform_release` leaves over release-number bounds**, no hypothesis left -/
theorem leafSpec_pr {B : List Version} (hpb : ∀ e ∈ B, PyBound e = true) {E : Env} {X : Nat} {R : List Nat}
    (hE : E.get? "platform_release" = some (Version.relText (X :: R))) :
    LeafSpec (leafEval E) (VerLeaf B "platform_release") :=
  leafSpec_ver' (regB_of_pyBound B hpb) (verEnv_pr hpb X R hE) (by decide) (by decide) (mkVerOK_pr hpb X R)

/-- the full comparison-operator domain with `platform_release` leaves over the bounds `B` -/
def FullLeafR (B : List Version) (E : Env) (l : Leaf) : Prop := FullLeaf E l ∨ VerLeaf B "platform_release" l

theorem fullLeaf_name {E : Env} {l : Leaf} (h : FullLeaf E l) :
    l.name = "extra" ∨ l.name ∈ plainStringVars ∨ l.name = "python_version" ∨ l.name = "python_full_version" := by
  rcases h with h | h | h
  · rcases plainLeaf_name h with h | h
    · exact Or.inl h
    · exact Or.inr (Or.inl h)
  · exact Or.inr (Or.inr (Or.inl (pvLeaf_name h)))
  · exact Or.inr (Or.inr (Or.inr (pfv3_name h)))

theorem leafSpec_fullR {B : List Version} (hpb : ∀ e ∈ B, PyBound e = true) {E : Env} {ex : List String}
    (hX : E.extras = some ex) {X Y Z : Nat} (hE : EnvPy E X Y Z) {P : Nat} {Q : List Nat}
    (hP : E.get? "platform_release" = some (Version.relText (P :: Q)))
    (HP : PairSound (leafEval E) PvLeaf Pfv3Leaf) : LeafSpec (leafEval E) (FullLeafR B E) := by
  refine LeafSpec.or (leafSpec_full hX hE HP) (leafSpec_pr hpb hP) ?_
  intro a b ha hb
  have hb' := verLeaf_name hb
  rcases fullLeaf_name ha with h | h | h | h
  · rw [pyPair, pyPair, h, hb']; decide
  · simp only [plainStringVars, List.mem_cons, List.mem_nil_iff, or_false] at h
    rcases h with h | h | h | h | h | h | h <;> (rw [pyPair, pyPair, h, hb']; decide)
  · rw [pyPair, pyPair, h, hb']; decide
  · rw [pyPair, pyPair, h, hb']; decide

theorem fullLeafR_evaluable {B : List Version} (hpb : ∀ e ∈ B, PyBound e = true) {E : Env} {ex : List String}
    (hX : E.extras = some ex) {X Y Z : Nat} (hE : EnvPy E X Y Z) {P : Nat} {Q : List Nat}
    (hP : E.get? "platform_release" = some (Version.relText (P :: Q))) {l : Leaf} (h : FullLeafR B E l) :
    ∃ b, l.validate E = .ok b := by
  rcases h with h | h
  · exact fullLeaf_evaluable hX hE h
  · exact verLeaf_evaluable (regB_of_pyBound B hpb) (verEnv_pr hpb P Q hP) (by decide) h

/-! ### inversion -/

/-- `invert()` of a `platform_release` leaf is the leaf with the flipped operator -/
theorem invert_pr {sop ops sop' ops'} (h : (sop, ops, sop', ops') ∈ flipOps) (x : Nat) (r : List Nat) :
    Leaf.invert (.single (prLeafOf sop ops x r)) = .ok (.leaf (.single (prLeafOf sop' ops' x r))) := by
  obtain ⟨_, h2, hinv, hops, htilde, hsp, _⟩ := flip_facts h
  have h1 : Leaf.invert (.single (prLeafOf sop ops x r)) =
      parseItemMarker (leafText "platform_release" ops' (Version.relText (x :: r)) false) := by
    simp only [Leaf.invert, prLeafOf, htilde, Bool.false_eq_true, if_false, invertSimple, hinv, invertedLeafText]
  rw [h1, parseItemMarker_leafText _ _ _ false (by decide) hops (relText_valOk x r)]
  simp only [itemConstraintString, Bool.false_eq_true, if_false, mkSingle_prLeaf h2 x r]

/-- the `platform_release` leaves with a comparison operator and a bound of `B` -/
def PrLeafIn (B : List Version) (l : Leaf) : Prop :=
  ∃ sop ops x r, (sop, ops) ∈ pvOps ∧ litV x r ∈ B ∧ l = .single (prLeafOf sop ops x r)

theorem prLeafIn_verLeaf {B : List Version} (hpb : ∀ e ∈ B, PyBound e = true) {l : Leaf} (h : PrLeafIn B l) :
    VerLeaf B "platform_release" l := by
  obtain ⟨sop, ops, x, r, hm, hB, rfl⟩ := h
  exact pr_verLeaf hm x r (hpb _ hB) hB

/-- **inverting a `platform_release` leaf is sound** -/
theorem invOK_pr {B : List Version} (hpb : ∀ e ∈ B, PyBound e = true) {E : Env} {X : Nat} {R : List Nat}
    (hE : E.get? "platform_release" = some (Version.relText (X :: R))) {l : Leaf} (h : PrLeafIn B l) :
    InvOK (leafEval E) (VerLeaf B "platform_release") l := by
  obtain ⟨sop, ops, x, r, hm, hxB, rfl⟩ := h
  obtain ⟨sop', ops', hf⟩ := pvOps_flip hm
  obtain ⟨_, h2, _⟩ := flip_facts hf
  intro res hi
  rw [invert_pr hf x r] at hi; cases hi
  have hb := hpb _ hxB
  have g1 := pr_verLeaf (B := B) hm x r hb hxB
  have g2 := pr_verLeaf (B := B) h2 x r hb hxB
  refine ⟨(M.good_leaf _).2 g2, ?_⟩
  have hB := regB_of_pyBound B hpb
  have hV := verEnv_pr hpb X R hE
  obtain ⟨_, _, v1, hv1, hw1, hm1⟩ := g1
  obtain ⟨_, _, v2, hv2, hw2, hm2⟩ := g2
  have e1 := verLeaf_eval hB hV (by decide) (s := prLeafOf sop ops x r) rfl hv1 hw1 hm1
  have e2 := verLeaf_eval hB hV (by decide) (s := prLeafOf sop' ops' x r) rfl hv2 hw2 hm2
  simp only [prLeafOf] at hv1 hv2
  cases hv1; cases hv2
  rw [M.sem_leaf]
  have hc := pvClause_complement hf (litV x r) (litV X R) (PyBound_wf hb) (litV_wf X R) (reg1_final (X :: R) hb)
  simpa [leafEval, e1, e2] using hc

/-- the invertible full domain with `platform_release` -/
def FullInvLeafR (B : List Version) (E : Env) (l : Leaf) : Prop :=
  FullInvLeaf E l ∨ VerLeaf B "platform_release" l

def FullInvReadyR (B : List Version) (E : Env) (l : Leaf) : Prop := FullInvReady E l ∨ PrLeafIn B l

theorem leafSpec_fullInvR {B : List Version} (hpb : ∀ e ∈ B, PyBound e = true) {E : Env} {ex : List String}
    (hX : E.extras = some ex) {X Y Z : Nat} (hE : EnvPy E X Y Z) {P : Nat} {Q : List Nat}
    (hP : E.get? "platform_release" = some (Version.relText (P :: Q)))
    (HP : PairSound (leafEval E) PvLeaf Pfv3Leaf) : LeafSpec (leafEval E) (FullInvLeafR B E) := by
  refine LeafSpec.or (leafSpec_fullInv hX hE HP) (leafSpec_pr hpb hP) ?_
  intro a b ha hb
  have hb' := verLeaf_name hb
  have ha' : a.name = "extra" ∨ a.name ∈ plainStringVars ∨ a.name = "python_version" ∨
      a.name = "python_full_version" := by
    rcases ha with ha | ha
    · rcases invLeaf_name ha with h | h
      · exact Or.inl h
      · exact Or.inr (Or.inl h)
    · rcases pyLeaf_name ha with h | h
      · exact Or.inr (Or.inr (Or.inl h))
      · exact Or.inr (Or.inr (Or.inr h))
  rcases ha' with h | h | h | h
  · rw [pyPair, pyPair, h, hb']; decide
  · simp only [plainStringVars, List.mem_cons, List.mem_nil_iff, or_false] at h
    rcases h with h | h | h | h | h | h | h <;> (rw [pyPair, pyPair, h, hb']; decide)
  · rw [pyPair, pyPair, h, hb']; decide
  · rw [pyPair, pyPair, h, hb']; decide

theorem M.invert_sound_fullR {B : List Version} (hpb : ∀ e ∈ B, PyBound e = true) {E : Env} {ex : List String}
    (hX : E.extras = some ex) {X Y Z : Nat} (hE : EnvPy E X Y Z) {P : Nat} {Q : List Nat}
    (hP : E.get? "platform_release" = some (Version.relText (P :: Q)))
    (HP : PairSound (leafEval E) PvLeaf Pfv3Leaf) {a r : M}
    (ha : M.Good (FullInvReadyR B E) a) (h : M.invert a = .ok r) :
    M.Good (FullInvLeafR B E) r ∧ M.sem (leafEval E) r = !M.sem (leafEval E) a := by
  refine M.invert_sound_on (leafSpec_fullInvR hpb hX hE hP HP) a r (M.good_mono ?_ a ha) h
  intro l hl
  rcases hl with (hl | hl) | hl
  · obtain ⟨g, ok⟩ := invReady_ok hX hl
    exact ⟨Or.inl (Or.inl g), ok.mono (fun l hl => Or.inl (Or.inl hl))⟩
  · exact ⟨Or.inl (Or.inr hl), (invOK_py hE hl).mono (fun l hl => Or.inl (Or.inr hl))⟩
  · exact ⟨Or.inr (prLeafIn_verLeaf hpb hl), (invOK_pr hpb hP hl).mono (fun l hl => Or.inr hl)⟩

theorem fullInvLeafR_evaluable {B : List Version} (hpb : ∀ e ∈ B, PyBound e = true) {E : Env} {ex : List String}
    (hX : E.extras = some ex) {X Y Z : Nat} (hE : EnvPy E X Y Z) {P : Nat} {Q : List Nat}
    (hP : E.get? "platform_release" = some (Version.relText (P :: Q))) {l : Leaf} (h : FullInvLeafR B E l) :
    ∃ b, l.validate E = .ok b := by
  rcases h with h | h
  · exact fullInvLeaf_evaluable hX hE h
  · exact verLeaf_evaluable (regB_of_pyBound B hpb) (verEnv_pr hpb P Q hP) (by decide) h

end Poetry.Marker
