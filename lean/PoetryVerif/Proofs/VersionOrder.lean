/-
Order-theoretic facts about the version key (helper lemmas for C03, C04, C05, C12, C15, C18).
-/
import PoetryVerif.Model.Version
import PoetryVerif.Spec.Pep440

set_option linter.unusedSimpArgs false

namespace Poetry
open Version Std

attribute [local instance] lexOrd

theorem compare_pair {α β : Type} [Ord α] [Ord β] (a c : α) (b d : β) :
    compare (a, b) (c, d) = (compare a c).then (compare b d) := rfl

instance : TransOrd Key := inferInstance
instance : LawfulEqOrd Key := inferInstance
instance : OrientedOrd Key := inferInstance

theorem cmpKey_eq_compare (a b : Key) : cmpKey a b = compare a b := rfl

namespace Version

/-! ### the comparison is a total preorder whose equivalence is key equality -/

theorem cmp_refl (v : Version) : cmp v v = .eq := by
  unfold cmp; rw [cmpKey_eq_compare]; exact ReflCmp.compare_self

theorem cmp_swap (a b : Version) : cmp a b = (cmp b a).swap := by
  unfold cmp; rw [cmpKey_eq_compare, cmpKey_eq_compare]; exact OrientedCmp.eq_swap

theorem cmp_eq_iff_key (a b : Version) : cmp a b = .eq ↔ key a = key b := by
  unfold cmp; rw [cmpKey_eq_compare]; exact compare_eq_iff_eq

theorem cmp_lt_trans {a b c : Version} (h1 : cmp a b = .lt) (h2 : cmp b c = .lt) : cmp a c = .lt := by
  unfold cmp at *; rw [cmpKey_eq_compare] at *; exact TransCmp.lt_trans h1 h2

theorem cmp_gt_iff_lt (a b : Version) : cmp a b = .gt ↔ cmp b a = .lt := by
  rw [cmp_swap a b]; cases cmp b a <;> simp [Ordering.swap]

theorem cmp_congr_left {a a' : Version} (h : cmp a a' = .eq) (b : Version) : cmp a b = cmp a' b := by
  unfold cmp; rw [(cmp_eq_iff_key a a').1 h]

theorem cmp_congr_right {b b' : Version} (h : cmp b b' = .eq) (a : Version) : cmp a b = cmp a b' := by
  unfold cmp; rw [(cmp_eq_iff_key b b').1 h]

/-! ### release key -/

theorem stripZeros_append_zero (r : List Nat) : stripZeros (r ++ [0]) = stripZeros r := by
  induction r with
  | nil => simp [stripZeros]
  | cons x xs ih => simp [stripZeros, ih]

theorem stripZeros_eq_ref (r : List Nat) : stripZeros r = Spec.refRelease r := by
  unfold Spec.refRelease
  induction r with
  | nil => simp [stripZeros]
  | cons x xs ih =>
    simp only [stripZeros, List.reverse_cons, List.dropWhile_append, ih]
    by_cases h : (List.dropWhile (fun x => x == 0) xs.reverse).isEmpty
    · have h' : List.dropWhile (fun x => x == 0) xs.reverse = [] := List.isEmpty_iff.mp h
      by_cases hx : x = 0 <;> simp [h', hx]
    · have h' : List.dropWhile (fun x => x == 0) xs.reverse ≠ [] := fun e => h (by simp [e])
      simp [h, h']

end Version
end Poetry

/-! ## agreement of the poetry key order with the reference order -/
namespace Poetry
open Version Std Spec
attribute [local instance] lexOrd

namespace Version

/-- phase strings taken from the source sort like the reference letters -/
theorem phaseStr_order (p q : Phase) :
    compare p.str q.str = compare (refLetter p) (refLetter q) := by
  cases p <;> cases q <;> decide

theorem negInfPhase_lt (p : Phase) : compare Gen.negInfTagPhase p.str = .lt := by
  cases p <;> decide

theorem prePhase_lt_inf (p : Phase) (h : (p == .a || p == .b || p == .rc) = true) :
    compare p.str Gen.infTagPhase = .lt := by
  cases p <;> first | decide | (simp at h)

theorem devPhase_lt_inf : compare Phase.dev.str Gen.infTagPhase = .lt := by decide

theorem compare_numK_fin (n m : Nat) : compare (NumK.fin n) (NumK.fin m) = compare n m := by
  simp [NumK.fin, compare_pair, Ordering.then]

theorem compare_tagK (s t : Tag) :
    compare (tagK s) (tagK t) = cmpTag (refLetter s.phase, s.num) (refLetter t.phase, t.num) := by
  simp only [tagK, compare_pair, cmpTag, phaseStr_order, compare_numK_fin]

theorem compare_self_eq {α : Type} [Ord α] [ReflOrd α] (a : α) : compare a a = .eq :=
  ReflCmp.compare_self

theorem compare_negInfTag_tag (t : Tag) : compare negInfTagK (tagK t) = .lt := by
  simp [negInfTagK, tagK, compare_pair, negInfPhase_lt, Ordering.then]

theorem compare_tag_negInfTag (t : Tag) : compare (tagK t) negInfTagK = .gt := by
  rw [OrientedCmp.eq_swap (cmp := compare) (a := tagK t)]; simp [compare_negInfTag_tag]

theorem compare_preTag_infTag (t : Tag) (h : t.isPre = true) : compare (tagK t) infTagK = .lt := by
  simp [infTagK, tagK, compare_pair, prePhase_lt_inf t.phase (by simpa [Tag.isPre] using h), Ordering.then]

theorem compare_infTag_preTag (t : Tag) (h : t.isPre = true) : compare infTagK (tagK t) = .gt := by
  rw [OrientedCmp.eq_swap (cmp := compare) (a := infTagK)]; simp [compare_preTag_infTag t h]

theorem compare_devTag_infTag (t : Tag) (h : t.phase = .dev) : compare (tagK t) infTagK = .lt := by
  simp [infTagK, tagK, compare_pair, h, devPhase_lt_inf, Ordering.then]

theorem compare_infTag_devTag (t : Tag) (h : t.phase = .dev) : compare infTagK (tagK t) = .gt := by
  rw [OrientedCmp.eq_swap (cmp := compare) (a := infTagK)]; simp [compare_devTag_infTag t h]

theorem compare_negInf_inf : compare negInfTagK infTagK = .lt := by decide
theorem compare_inf_negInf : compare infTagK negInfTagK = .gt := by decide

theorem wf_pre {v : Version} (h : v.wf = true) {t : Tag} (ht : v.pre = some t) : t.isPre = true := by
  simp [wf, ht, optAll] at h; exact h.1.1.1.2
theorem wf_post {v : Version} (h : v.wf = true) {t : Tag} (ht : v.post = some t) : t.phase = .post := by
  simp [wf, ht, optAll] at h; exact h.1.1.2
theorem wf_dev {v : Version} (h : v.wf = true) {t : Tag} (ht : v.dev = some t) : t.phase = .dev := by
  simp [wf, ht, optAll] at h; exact h.1.2
theorem wf_loc {v : Version} (h : v.wf = true) {ps : List String} (ht : v.loc = some ps) :
    ps ≠ [] ∧ ∀ s ∈ ps, s ≠ "" := by
  simp [wf, ht, optAll] at h; exact h.2

theorem pre_agree (a b : Version) (ha : a.wf = true) (hb : b.wf = true) :
    compare (preK a) (preK b) = Ext.cmp cmpTag (refPre a) (refPre b) := by
  unfold preK refPre
  by_cases ca : (a.pre.isNone && a.post.isNone && a.dev.isSome) = true <;>
  by_cases cb : (b.pre.isNone && b.post.isNone && b.dev.isSome) = true <;>
  simp only [ca, cb, if_true, if_false]
  · simp [Ext.cmp, compare_self_eq]
  · cases hb' : b.pre with
    | none => simp [Ext.cmp, compare_negInf_inf]
    | some t => simp [Ext.cmp, compare_negInfTag_tag]
  · cases ha' : a.pre with
    | none => simp [Ext.cmp, compare_inf_negInf]
    | some t => simp [Ext.cmp, compare_tag_negInfTag]
  · cases ha' : a.pre <;> cases hb' : b.pre
    · simp [Ext.cmp, compare_self_eq]
    · rename_i t; simp [Ext.cmp, compare_infTag_preTag t (wf_pre hb hb')]
    · rename_i t; simp [Ext.cmp, compare_preTag_infTag t (wf_pre ha ha')]
    · simp [Ext.cmp, compare_tagK]

theorem post_agree (a b : Version) :
    compare (postK a) (postK b) = Ext.cmp cmpTag (refPost a) (refPost b) := by
  unfold postK refPost
  cases a.post <;> cases b.post <;>
    simp [Ext.cmp, compare_self_eq, compare_negInfTag_tag, compare_tag_negInfTag, compare_tagK]

theorem dev_agree (a b : Version) (ha : a.wf = true) (hb : b.wf = true) :
    compare (devK a) (devK b) = Ext.cmp cmpTag (refDev a) (refDev b) := by
  unfold devK refDev
  cases ha' : a.dev <;> cases hb' : b.dev
  · simp [Ext.cmp, compare_self_eq]
  · rename_i t; simp [Ext.cmp, compare_infTag_devTag t (wf_dev hb hb')]
  · rename_i t; simp [Ext.cmp, compare_devTag_infTag t (wf_dev ha ha')]
  · simp [Ext.cmp, compare_tagK]

theorem compare_negInfNum_fin (n : Nat) : compare NumK.negInf (NumK.fin n) = .lt := by
  simp [NumK.negInf, NumK.fin, compare_pair, Ordering.then]
  have : compare (0:Nat) 1 = .lt := by decide
  rw [this]

theorem compare_fin_negInfNum (n : Nat) : compare (NumK.fin n) NumK.negInf = .gt := by
  rw [OrientedCmp.eq_swap (cmp := compare) (a := NumK.fin n)]; simp [compare_negInfNum_fin]

theorem locSeg_agree (p q : String) :
    compare (locSegK p) (locSegK q) = cmpLocSeg (refLocSeg p) (refLocSeg q) := by
  unfold locSegK refLocSeg cmpLocSeg
  by_cases hp : isNumericStr p = true <;> by_cases hq : isNumericStr q = true <;>
    simp [hp, hq, compare_pair, Ext.cmp, compare_numK_fin, compare_negInfNum_fin,
      compare_fin_negInfNum, compare_self_eq]

theorem locList_agree (ps qs : List String) :
    compare (ps.map locSegK) (qs.map locSegK) = cmpLocList (ps.map refLocSeg) (qs.map refLocSeg) := by
  induction ps generalizing qs with
  | nil => cases qs <;> simp [cmpLocList, List.compare_nil_nil, List.compare_nil_cons]
  | cons p ps ih =>
    cases qs with
    | nil => simp [cmpLocList, List.compare_cons_nil]
    | cons q qs => simp [cmpLocList, List.compare_cons_cons, locSeg_agree, ih]

theorem compare_empty_str_lt (s : String) (h : s ≠ "") : compare "" s = .lt := by
  have hlt : "" < s := by
    rw [String.lt_iff]
    cases hs : s.toList with
    | nil => exact absurd (String.toList_eq_nil_iff.mp hs) h
    | cons c cs => simp
  show String.compare "" s = .lt
  unfold String.compare
  exact compareOfLessAndEq_eq_lt.mpr hlt

theorem noLocal_lt_local (ps : List String) (h : ps ≠ [] ∧ ∀ s ∈ ps, s ≠ "") :
    compare (locK none) (locK (some ps)) = .lt := by
  cases ps with
  | nil => exact absurd rfl h.1
  | cons p ps =>
    simp only [locK, List.map_cons, List.compare_cons_cons]
    unfold locSegK
    by_cases hp : isNumericStr p = true
    · simp [hp, compare_pair, compare_negInfNum_fin, Ordering.then]
    · have hne : p ≠ "" := h.2 p (by simp)
      simp [hp, compare_pair, compare_self_eq, compare_empty_str_lt p hne, Ordering.then]

theorem loc_agree (a b : Version) (ha : a.wf = true) (hb : b.wf = true) :
    compare (locK a.loc) (locK b.loc) = Ext.cmp cmpLocList (refLocal a) (refLocal b) := by
  unfold refLocal
  cases ha' : a.loc <;> cases hb' : b.loc
  · simp [Ext.cmp, compare_self_eq]
  · rename_i ps; simp [Ext.cmp, noLocal_lt_local ps (wf_loc hb hb')]
  · rename_i ps
    rw [OrientedCmp.eq_swap (cmp := compare) (a := locK (some ps))]
    simp [Ext.cmp, noLocal_lt_local ps (wf_loc ha ha')]
  · simp [Ext.cmp, locK, locList_agree]

/-- **Agreement with the reference order.**  For well-formed versions the model of poetry-core's
comparison (lexicographic comparison of `_make_compare_key`, with the phase strings and sentinels
taken from the source) equals the PEP 440 reference comparison (packaging's `_cmpkey`). -/
theorem cmp_eq_cmpRef (a b : Version) (ha : a.wf = true) (hb : b.wf = true) :
    cmp a b = cmpRef a b := by
  unfold cmp cmpKey key cmpRef
  simp only [compare_pair, stripZeros_eq_ref, pre_agree a b ha hb, post_agree, dev_agree a b ha hb,
    loc_agree a b ha hb]

end Version
end Poetry
