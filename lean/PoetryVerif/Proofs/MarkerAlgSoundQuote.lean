/-
String / `extra` leaves with `==` / `!=` whose value may hold a double quote or a backslash (written in single
quotes by `_quoted`, repo fixes 3046ca3, 7b51c5a): the constructor facts.  C06's constructor lemmas for `==` / `!=` use of the value only
that it is non-empty and free of white space, `|` and `,` (`GTok`: the characters that cannot take part in a
separator of the generic constraint grammar) — quotes are not looked at by `_CONSTRAINT_RE_PATTERN_1` nor by the
generic constraint parser; they are re-proved here over `GTok` (copies of the C06 proofs).
-/
import PoetryVerif.Proofs.MarkerAlgSoundStr4
import PoetryVerif.Proofs.MarkerAlgSoundExtra
import PoetryVerif.Proofs.MarkerPrintQ
import PoetryVerif.Proofs.MarkerAlgSoundInvert

set_option linter.unusedSimpArgs false
set_option linter.unusedVariables false

namespace Poetry.Marker
open Poetry
open Poetry.Generic (GC GS)

/-- a non-empty literal of characters that cannot take part in a separator of the generic constraint grammar
(quotes allowed) -/
def GTok (v : String) : Prop := v.toList ≠ [] ∧ ∀ c ∈ v.toList, gPlain c

theorem GTok.valueOk {v : String} (h : GTok v) : valueOk v.toList := ⟨h.1, fun c hc => (h.2 c hc).1⟩

theorem GTok.gPlain {v : String} (h : GTok v) : ∀ c ∈ v.toList, gPlain c := h.2

theorem PlainTok.gTok {v : String} (h : PlainTok v) : GTok v := ⟨h.1, h.gPlain⟩

theorem leafPrepare_string_eqG (n v : String) (hn : n ∈ stringVarNames) (hv : GTok v)
    (h0 : v.toList.head? ≠ some '=') :
    leafPrepare n ("==" ++ v) false =
      .ok { name := aliasName n, op := "==", value := v, swapped := false, cstr := "==" ++ v, kind := .generic } := by
  obtain ⟨f1, f2, f3, _⟩ := stringVar_facts n hn
  have hvo := hv.valueOk
  cases hl : v.toList with
  | nil => exact absurd hl hv.1
  | cons c cs =>
    rw [hl] at hvo h0
    have hc : c ≠ '=' := by simpa using h0
    have hm := matchPattern1_eq c cs hc hvo
    have hvs : String.ofList (c :: cs) = v := by rw [← hl]; simp
    unfold leafPrepare
    simp only [Bool.false_eq_true, if_false, String.toList_append, hl]
    have : "==".toList = ['=', '='] := rfl
    simp only [this, List.cons_append, List.nil_append, hm, hvs, Option.getD_some, f1, f2, Bool.false_and]
    simp

theorem mkSingle_string_eqG (n v : String) (hn : n ∈ stringVarNames) (hv : GTok v)
    (h0 : v.toList.head? ≠ some '=') :
    mkSingle n ("==" ++ v) false =
      .ok ⟨aliasName n, "==", v, false, .gen (.atom ⟨v, .eq, false⟩)⟩ := by
  have hs : "==" ++ v = String.ofList ('=' :: '=' :: v.toList) := str_eq_of_toList (by simp)
  have hp := gparseWith_eq false v.toList hv.1 hv.gPlain
  rw [← hs] at hp
  simp only [String.ofList_toList] at hp
  simp only [mkSingle, leafPrepare_string_eqG n v hn hv h0, bind, Except.bind, parseByKind,
    Generic.parseConstraint, hp, Except.map, pure, Except.pure]

theorem mkSingle_string_neG (n v : String) (hn : n ∈ stringVarNames) (hv : GTok v) :
    mkSingle n ("!=" ++ v) false =
      .ok ⟨aliasName n, "!=", v, false, .gen (.atom ⟨v, .ne, false⟩)⟩ := by
  obtain ⟨f1, f2, f3, _⟩ := stringVar_facts n hn
  have hvo := hv.valueOk
  have hs : "!=" ++ v = String.ofList ('!' :: '=' :: v.toList) := str_eq_of_toList (by simp)
  have hp := gparseWith_ne false v.toList hv.1 hv.gPlain
  rw [← hs] at hp
  simp only [String.ofList_toList] at hp
  have hprep : leafPrepare n ("!=" ++ v) false =
      .ok { name := aliasName n, op := "!=", value := v, swapped := false, cstr := "!=" ++ v, kind := .generic } := by
    cases hl : v.toList with
    | nil => exact absurd hl hv.1
    | cons c cs =>
      rw [hl] at hvo
      have hm := matchPattern1_ne c cs hvo
      have hvs : String.ofList (c :: cs) = v := by rw [← hl]; simp
      unfold leafPrepare
      simp only [Bool.false_eq_true, if_false, String.toList_append, hl]
      have : "!=".toList = ['!', '='] := rfl
      simp only [this, List.cons_append, List.nil_append, hm, hvs, Option.getD_some, f1, f2, Bool.false_and]
      simp
  simp only [mkSingle, hprep, bind, Except.bind, parseByKind,
    Generic.parseConstraint, hp, Except.map, pure, Except.pure]

theorem mkSingle_extra_eqG (v : String) (hv : GTok v) (h0 : v.toList.head? ≠ some '=') :
    mkSingle "extra" ("==" ++ v) false =
      .ok ⟨"extra", "==", v, false, .gen (.atom ⟨v, .eq, true⟩)⟩ := by
  have hvo := hv.valueOk
  have hs : "==" ++ v = String.ofList ('=' :: '=' :: v.toList) := str_eq_of_toList (by simp)
  have hp := gparseWith_eq true v.toList hv.1 hv.gPlain
  rw [← hs] at hp
  simp only [String.ofList_toList] at hp
  have hprep : leafPrepare "extra" ("==" ++ v) false =
      .ok { name := "extra", op := "==", value := v, swapped := false, cstr := "==" ++ v, kind := .extra } := by
    cases hl : v.toList with
    | nil => exact absurd hl hv.1
    | cons c cs =>
      rw [hl] at hvo h0
      have hc : c ≠ '=' := by simpa using h0
      have hm := matchPattern1_eq c cs hc hvo
      have hvs : String.ofList (c :: cs) = v := by rw [← hl]; simp
      unfold leafPrepare
      simp only [Bool.false_eq_true, if_false, String.toList_append, hl]
      have : "==".toList = ['=', '='] := rfl
      have f2 : Gen.versionLikeMarkerNames.contains "extra" = false := by decide
      have f3 : aliasName "extra" = "extra" := by decide
      simp only [this, List.cons_append, List.nil_append, hm, hvs, Option.getD_some, f2, f3, Bool.false_and]
      simp
  simp only [mkSingle, hprep, bind, Except.bind, parseByKind,
    Generic.parseExtraConstraint, hp, Except.map, pure, Except.pure]

theorem mkSingle_extra_neG (v : String) (hv : GTok v) :
    mkSingle "extra" ("!=" ++ v) false =
      .ok ⟨"extra", "!=", v, false, .gen (.atom ⟨v, .ne, true⟩)⟩ := by
  have hvo := hv.valueOk
  have hs : "!=" ++ v = String.ofList ('!' :: '=' :: v.toList) := str_eq_of_toList (by simp)
  have hp := gparseWith_ne true v.toList hv.1 hv.gPlain
  rw [← hs] at hp
  simp only [String.ofList_toList] at hp
  have hprep : leafPrepare "extra" ("!=" ++ v) false =
      .ok { name := "extra", op := "!=", value := v, swapped := false, cstr := "!=" ++ v, kind := .extra } := by
    cases hl : v.toList with
    | nil => exact absurd hl hv.1
    | cons c cs =>
      rw [hl] at hvo
      have hm := matchPattern1_ne c cs hvo
      have hvs : String.ofList (c :: cs) = v := by rw [← hl]; simp
      unfold leafPrepare
      simp only [Bool.false_eq_true, if_false, String.toList_append, hl]
      have : "!=".toList = ['!', '='] := rfl
      have f2 : Gen.versionLikeMarkerNames.contains "extra" = false := by decide
      have f3 : aliasName "extra" = "extra" := by decide
      simp only [this, List.cons_append, List.nil_append, hm, hvs, Option.getD_some, f2, f3, Bool.false_and]
      simp
  simp only [mkSingle, hprep, bind, Except.bind, parseByKind,
    Generic.parseExtraConstraint, hp, Except.map, pure, Except.pure]

end Poetry.Marker

namespace Poetry.Marker
open Poetry.Generic

/-- a value for `==` / `!=` leaves: free of white space, `|`, `,`, not starting with `=`, and writable (`ValOkQ`):
free of `"` and `\` (double quotes), or holding a `"` or a `\` and no `'` (single quotes) -/
def QuoteValue (v : String) : Prop := (GTok v ∧ v.toList.head? ≠ some '=') ∧ ValOkQ v

theorem QuotableValue.quote {v : String} (h : QuotableValue v) : QuoteValue v :=
  ⟨⟨h.1.1.gTok, h.1.2⟩, Or.inl h.2⟩

theorem mkAtomOK_quote (n : String) (a : Generic.Atom) (s : Single) (hn : n ∈ plainStringVars)
    (hv : QuoteValue a.value) (hx : a.x = false) (he : a.isEqNe = true)
    (h : mkSingleOfC n (.gen (.s (.atom a))) = .ok s) :
    s.name = n ∧ s.swapped = false ∧ s.c = .gen (.s (.atom a)) ∧ s.op = a.op.str ∧ s.value = a.value := by
  obtain ⟨hn1, hn2⟩ := plainStringVars_facts n hn
  cases a with | mk v op x =>
  simp only at hx hv; subst hx
  cases op with
  | eq =>
    have := mkSingle_string_eqG n v hn1 hv.1.1 hv.1.2
    simp only [mkSingleOfC, LeafC.toStr, GC.toStr, GS.toStr, Generic.Atom.toStr, bind, Except.bind] at h
    simp at h
    rw [this] at h; cases h
    simp [hn2, Generic.Op.str]
  | ne =>
    have := mkSingle_string_neG n v hn1 hv.1.1
    simp only [mkSingleOfC, LeafC.toStr, GC.toStr, GS.toStr, Generic.Atom.toStr, bind, Except.bind] at h
    simp [Generic.Op.str] at h
    rw [this] at h; cases h
    simp [hn2, Generic.Op.str]
  | in_ => simp [Generic.Atom.isEqNe] at he
  | nc => simp [Generic.Atom.isEqNe] at he

theorem mkExtraOK_quote (a : Generic.Atom) (hv : QuoteValue a.value) (hx : a.x = true) (he : a.isEqNe = true) :
    mkSingleOfC "extra" (.gen (.s (.atom a))) = .ok (sOfAtom a) := by
  cases a with | mk v op x =>
  simp only at hx hv; subst hx
  cases op with
  | eq =>
    have := mkSingle_extra_eqG v hv.1.1 hv.1.2
    simp only [mkSingleOfC, LeafC.toStr, GC.toStr, GS.toStr, Generic.Atom.toStr, bind, Except.bind]
    simp
    rw [this]; simp [sOfAtom, Generic.Op.str]
  | ne =>
    have := mkSingle_extra_neG v hv.1.1
    simp only [mkSingleOfC, LeafC.toStr, GC.toStr, GS.toStr, Generic.Atom.toStr, bind, Except.bind]
    simp [Generic.Op.str]
    rw [this]; simp [sOfAtom, Generic.Op.str]
  | in_ => simp [Generic.Atom.isEqNe] at he
  | nc => simp [Generic.Atom.isEqNe] at he

theorem mkAtomOKW_quote (E : Env) : MkAtomOKW (fun n => n ∈ plainStringVars) QuoteValue E :=
  fun n a s hn hv _ _ _ hx he h => mkAtomOK_quote n a s hn hv hx he h

theorem mkExtraOKW_quote : MkExtraOKW QuoteValue := fun a hv hx he => mkExtraOK_quote a hv hx he

end Poetry.Marker
