/-
Inversion of the `in` / `not in` list leaves on the python variables, in the merge domain: `in` becomes `not in`
on the same list (and back), the constructor builds the list leaf of the other polarity, and its meaning is the
negation.  With the comparison operators and `~=` this gives inversion on the whole python pair with lists.
-/
import PoetryVerif.Proofs.MarkerAlgSoundPairLL
import PoetryVerif.Proofs.MarkerPrint4LL
import PoetryVerif.Proofs.MarkerAlgSoundFullC
import PoetryVerif.Proofs.MarkerAlgSoundInvLists

set_option linter.unusedSimpArgs false
set_option linter.unusedVariables false

namespace Poetry.Marker
open Poetry Poetry.Spec Poetry.Spec.Pep508 Poetry.VParser Poetry.Version Poetry.Generic

/-- **what a `python_version` list leaf means**: `(X, Y)` is listed (`in`) / is not listed (`not in`) -/
theorem pvListLeaf_means {E : Env} {X Y Z : Nat} (hE : EnvPy E X Y Z) (isIn : Bool) (p0 : Nat × Nat)
    (rest : List (String × (Nat × Nat))) (hs : ∀ q ∈ rest, SepRun q.1) {res : VC}
    (hres : parseMarkerVersionConstraint (listText isIn p0 (rest.map (·.2))) = .ok res) :
    leafEval E (.single ⟨"python_version", listOp isIn, verList2 p0 rest, false, .ver res⟩) =
      (if isIn then (p0 :: rest.map (·.2)).any (fun p => decide (X = p.1 ∧ Y = p.2))
        else !(p0 :: rest.map (·.2)).any (fun p => decide (X = p.1 ∧ Y = p.2))) := by
  rw [← (list_exact hE isIn p0 rest hs hres).1]
  cases isIn
  · obtain ⟨vc, hvc, hb⟩ := neEntry_means p0 (rest.map (·.2)) X Y Z
    simp only [listText, Bool.false_eq_true, if_false] at hres ⊢
    rw [hres] at hvc; cases hvc; exact hb
  · obtain ⟨r', h1, h2, _⟩ := parse_starList p0 (rest.map (·.2)) X Y Z
    simp only [listText, if_true] at hres ⊢
    rw [hres] at h1; cases h1; exact h2

theorem invertOp_list (isIn : Bool) : invertOp? (listOp isIn) = some (listOp (!isIn)) := by
  cases isIn <;> decide

theorem listOp_ne_special (isIn : Bool) : listOp isIn ≠ "<special>" := by cases isIn <;> decide

theorem listOp_ne_compat (isIn : Bool) : (listOp isIn == "~=") = false := by cases isIn <;> decide

/-- the inverse of a list leaf is the text of the list with the other operator -/
theorem invert_list (n v : String) (isIn : Bool) (c : LeafC) :
    Leaf.invert (.single ⟨n, listOp isIn, v, false, c⟩) = parseItemMarker (leafText n (listOp (!isIn)) v false) := by
  have h := invertOp_list isIn
  simp only [Leaf.invert, listOp_ne_compat, Bool.false_eq_true, if_false, invertSimple, h, invertedLeafText]
  split
  · rename_i heq; cases heq
  · rename_i heq
    exact absurd (Option.some.inj heq) (listOp_ne_special _)
  · rename_i op' _ heq
    cases heq
    rfl

/-- a `python_version` list leaf inverts soundly, into the list leaf of the other polarity -/
theorem invOK_pvList {E : Env} {X Y Z : Nat} (hE : EnvPy E X Y Z) {l : Leaf} (h : PvListLeaf l) :
    InvOK (leafEval E) PvLeafL l := by
  obtain ⟨isIn, p0, rest, res, hs, hres, rfl⟩ := h
  intro r hr
  obtain ⟨res', B, hres', _⟩ := parse_list_reg (!isIn) p0 (rest.map (·.2))
  rw [invert_list, parseItemMarker_leafText _ _ _ false (by decide) (listOp_ops _) (valOk_verList2 p0 rest hs)] at hr
  simp only [itemConstraintString, Bool.false_eq_true, if_false, mkSingle_pvList (!isIn) p0 rest hs hres'] at hr
  cases hr
  refine ⟨(M.good_leaf _).2 (Or.inr ⟨!isIn, p0, rest, res', hs, hres', rfl⟩), ?_⟩
  rw [M.sem_leaf, pvListLeaf_means hE (!isIn) p0 rest hs hres', pvListLeaf_means hE isIn p0 rest hs hres]
  cases isIn <;> simp

/-- a `python_full_version` list leaf inverts soundly, into the list leaf of the other polarity -/
theorem invOK_pfvList {E : Env} {X Y Z : Nat}
    (hE : E.get? "python_full_version" = some (Version.relText [X, Y, Z])) {l : Leaf} (h : PfvListLeaf l) :
    InvOK (leafEval E) PfvLeafL l := by
  obtain ⟨isIn, t0, rest, res, hs, hres, rfl⟩ := h
  intro r hr
  obtain ⟨res', B, hres', _⟩ := parse_pfvList_reg (!isIn) t0 (rest.map (·.2))
  have hvo : ValOk (pfvList t0 rest) := valOk_verListN _ _ (pfvList_seps hs)
  rw [invert_list, parseItemMarker_leafText _ _ _ false (by decide) (listOp_ops _) hvo] at hr
  simp only [itemConstraintString, Bool.false_eq_true, if_false, mkSingle_pfvList (!isIn) t0 rest hs hres'] at hr
  cases hr
  refine ⟨(M.good_leaf _).2 (Or.inr ⟨!isIn, t0, rest, res', hs, hres', rfl⟩), ?_⟩
  rw [M.sem_leaf, pfvListLeaf_means hE (!isIn) t0 rest hs hres', pfvListLeaf_means hE isIn t0 rest hs hres]
  cases isIn <;> simp

/-- **every leaf of the python pair with lists inverts soundly, into the pair** -/
theorem invOK_pyLL {E : Env} {X Y Z : Nat} (hE : EnvPy E X Y Z) {l : Leaf} (h : PyLeafLL l) :
    InvOK (leafEval E) PyLeafLL l := by
  rcases h with (h | h) | (h | h)
  · exact (invOK_pyC hE (Or.inl h)).mono (fun l hl => by
      rcases hl with hl | hl
      · exact Or.inl (Or.inl hl)
      · exact Or.inr (Or.inl hl))
  · exact (invOK_pvList hE h).mono (fun l hl => Or.inl hl)
  · exact (invOK_pyC hE (Or.inr h)).mono (fun l hl => by
      rcases hl with hl | hl
      · exact Or.inl (Or.inl hl)
      · exact Or.inr (Or.inl hl))
  · exact (invOK_pfvList hE.2 h).mono (fun l hl => Or.inr hl)

/-- quotable string / `extra` leaves together with the python pair with lists -/
def FullInvLeafLL (E : Env) (l : Leaf) : Prop := InvLeaf E l ∨ PyLeafLL l

/-- leaves of that domain that are ready to be inverted -/
def FullInvReadyLL (E : Env) (l : Leaf) : Prop := InvReady E l ∨ PyLeafLL l

theorem leafSpec_fullInvLL {E : Env} {ex : List String} (hX : E.extras = some ex) {X Y Z : Nat}
    (hE : EnvPy E X Y Z) : LeafSpec (leafEval E) (FullInvLeafLL E) := by
  refine LeafSpec.or (leafSpec_inv hX) (leafSpec_pyLL hE) ?_
  intro a b ha hb
  have hb' := pyLeafLL_name hb
  rcases invLeaf_name ha with h | h
  · rcases hb' with hb' | hb' <;> (rw [pyPair, pyPair, h, hb']; decide)
  · simp only [plainStringVars, List.mem_cons, List.mem_nil_iff, or_false] at h
    rcases hb' with hb' | hb' <;>
      rcases h with h | h | h | h | h | h | h <;> (rw [pyPair, pyPair, h, hb']; decide)

theorem M.invert_sound_fullLL {E : Env} {ex : List String} (hX : E.extras = some ex) {X Y Z : Nat}
    (hE : EnvPy E X Y Z) {a r : M}
    (ha : M.Good (FullInvReadyLL E) a) (h : M.invert a = .ok r) :
    M.Good (FullInvLeafLL E) r ∧ M.sem (leafEval E) r = !M.sem (leafEval E) a := by
  refine M.invert_sound_on (leafSpec_fullInvLL hX hE) a r (M.good_mono ?_ a ha) h
  intro l hl
  rcases hl with hl | hl
  · obtain ⟨g, ok⟩ := invReady_ok hX hl
    exact ⟨Or.inl g, ok.mono (fun l hl => Or.inl hl)⟩
  · exact ⟨Or.inr hl, (invOK_pyLL hE hl).mono (fun l hl => Or.inr hl)⟩

theorem fullInvLeafLL_evaluable {E : Env} {ex : List String} (hX : E.extras = some ex) {X Y Z : Nat}
    (hE : EnvPy E X Y Z) {l : Leaf} (h : FullInvLeafLL E l) : ∃ b, l.validate E = .ok b := by
  rcases h with h | h
  · exact invLeaf_evaluable hX h
  · exact pyLeafLL_evaluable hE h

theorem fullInvReadyLL_leaf {E : Env} {l : Leaf} (h : FullInvReadyLL E l) : FullInvLeafLL E l := by
  rcases h with h | h
  · cases l with
    | single s => exact Or.inl h
    | amulti n c => exact Or.inl h.1
    | aunion n c => exact Or.inl h.1
  · exact Or.inr h

end Poetry.Marker
