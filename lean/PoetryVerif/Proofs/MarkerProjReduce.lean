/-
`reduce_by_python_constraint` is exact on every environment whose interpreter lies in the range (helper lemmas
for C17), by structural induction, with C07's simplifier soundness and the variable bookkeeping of
Proofs/MarkerProjVars.lean used as proved.
-/
import PoetryVerif.Proofs.MarkerProjVars
import PoetryVerif.Proofs.VRangeOps

set_option linter.unusedSimpArgs false
set_option linter.unusedVariables false

namespace Poetry.Marker

variable {ev : Leaf → Bool} {G : Leaf → Prop}

/-! ### `reduce_by_python_constraint` -/

/-- what the reduction theorem needs from the other developments, at one environment (leaf truth `ev`,
interpreter `py`) and one Python range `pc` that admits `py`.  `G` is the leaf invariant of the simplifier's
soundness; `P` is an additional shape the python leaves of the *input* marker have (the results need not); `W` is
the class of constraints on which C12's two answers are used (what `get_python_constraint_from_marker` returns) -/
structure ReduceCtx (ev : Leaf → Bool) (G P : Leaf → Prop) (W : VC → Prop) (pc : VC) (py : Version) : Prop where
  /-- C07's leaf specification (marker equality and leaf merging respect truth) -/
  spec : LeafSpec ev G
  /-- the variables of the leaves are spelt canonically (true of what `SingleMarker.__init__` stores;
  `leafSpec_canon` adds it to any invariant) -/
  canon : ∀ l, G l → Canon l
  /-- C11 `pyConstraint_exact` for a single-marker-like -/
  gpcLeaf_exact : ∀ (l : Leaf) (c : VC), G l → P l → isPyName l.name = true → gpcLeaf l = .ok c →
    W c ∧ c.allowsPlain py = ev l
  /-- C11 `pyConstraint_exact` (the direction used) for python-only markers -/
  gpc_lower : ∀ (u : M) (g : VC), M.Good G u → (∀ n ∈ M.vars u, n ∈ pyNames) → gpc u = .ok g →
    W g ∧ (g.allowsPlain py = true → M.sem ev u = true)
  /-- C12 containment / overlap soundness at the probe `py` -/
  allowsAll_sound : ∀ c : VC, W c → c.allowsAll pc = .ok true → c.allowsPlain py = true
  allowsAny_sound : ∀ c : VC, W c → c.allowsAny pc = .ok false → c.allowsPlain py = true → False
  /-- C11 `createNested_exact` through poetry's own parser, at a range admitting `py` -/
  nested_true : ∀ (txt : String) (pm : M), createNestedMarker "python_version" pc = .ok txt → parseMarker txt = .ok pm →
    M.Good G pm ∧ M.sem ev pm = true

theorem Leaf.reduce_exact {P : Leaf → Prop} {W : VC → Prop} {pc : VC} {py : Version} (C : ReduceCtx ev G P W pc py)
    (l : Leaf) (r : M) (hg : G l) (hP : P l) (h : Leaf.reduce l pc = .ok r) : M.Good G r ∧ M.sem ev r = ev l := by
  cases l with
  | amulti n c => simp [Leaf.reduce, pure, Except.pure] at h; subst h; exact ⟨by simpa using hg, by simp⟩
  | aunion n c => simp [Leaf.reduce, pure, Except.pure] at h; subst h; exact ⟨by simpa using hg, by simp⟩
  | single s =>
    simp only [Leaf.reduce] at h
    by_cases hp : isPyName s.name = true
    · simp only [hp, if_true, bind, Except.bind] at h
      split at h
      · cases h
      · rename_i c hc
        obtain ⟨hw, hex⟩ := C.gpcLeaf_exact (.single s) c hg hP hp hc
        split at h
        · cases h
        · rename_i ball hall
          by_cases hb : ball = true
          · subst hb
            simp [pure, Except.pure] at h; subst h
            have := C.allowsAll_sound c hw hall
            rw [hex] at this
            refine ⟨by simp, ?_⟩
            simp only [M.sem]; exact this.symm
          · have hb' : ball = false := by cases ball <;> simp_all
            subst hb'
            simp only [Bool.false_eq_true, if_false] at h
            split at h
            · cases h
            · rename_i bany hany
              cases bany with
              | false =>
                simp [pure, Except.pure] at h; subst h
                refine ⟨by simp, ?_⟩
                simp only [M.sem]
                cases hev : ev (.single s) with
                | false => rfl
                | true => exact (C.allowsAny_sound c hw hany (by rw [hex, hev])).elim
              | true =>
                simp only [Bool.not_true, Bool.false_eq_true, if_false] at h
                split at h
                · cases h
                · rename_i txt htxt
                  split at h
                  · cases h
                  · rename_i pm hpm
                    split at h
                    · cases h
                    · rename_i i hi
                      have hn := C.nested_true txt pm htxt hpm
                      have hs := mIntersect_sound C.spec (by simpa using hg) hn.1 hi
                      rw [hn.2] at hs
                      split at h <;> simp [pure, Except.pure] at h <;> subst h
                      · exact ⟨hs.1, by simpa [M.sem] using hs.2⟩
                      · exact ⟨by simpa using hg, by simp⟩
    · simp [hp, pure, Except.pure] at h; subst h; exact ⟨by simpa using hg, by simp⟩

mutual
theorem reduce_exact_aux {P : Leaf → Prop} {W : VC → Prop} {pc : VC} {py : Version} (C : ReduceCtx ev G P W pc py)
    (m r : M) (hgp : M.Good (fun l => G l ∧ P l) m) (h : M.reduce pc m = .ok r) :
    M.Good G r ∧ M.sem ev r = M.sem ev m := by
  have hg : M.Good G m := M.good_mono (fun l hl => hl.1) m hgp
  cases m with
  | any => simp [M.reduce] at h; subst h; simp
  | empty => simp [M.reduce] at h; subst h; simp
  | leaf l =>
    simp only [M.reduce] at h
    have hl : G l ∧ P l := by simpa using hgp
    have := Leaf.reduce_exact C l r hl.1 hl.2 h
    exact ⟨this.1, by simpa [M.sem] using this.2⟩
  | multi ms =>
    simp only [M.reduce, bind, Except.bind] at h
    split at h
    · cases h
    · rename_i xs hx
      have hl := reduce_exact_list C ms xs (by simpa [M.Good] using hgp) hx
      have hs := multiOf_sound C.spec hl.1 h
      exact ⟨hs.1, by rw [hs.2, hl.2.1]; simp only [M.sem]⟩
  | union ms =>
    have hgl : M.GoodAll G ms := by simpa [M.Good] using hg
    simp only [M.reduce, bind, Except.bind] at h
    split at h
    · cases h
    · rename_i sc hsc
      cases sc with
      | true =>
        simp [pure, Except.pure] at h; subst h
        refine ⟨by simp, ?_⟩
        -- the shortcut answered yes
        by_cases hr : isRangeOrUnion pc = true
        · simp only [hr, if_true] at hsc
          split at hsc
          · cases hsc
          · rename_i pyOnly hpo
            split at hsc
            · cases hsc
            · rename_i u hu
              split at hsc
              · cases hsc
              · rename_i g hg'
                have hmem := filterM_mem _ ms pyOnly hpo
                have hgp : M.GoodAll G pyOnly :=
                  (M.goodAll_iff pyOnly).2 (fun m hm => (M.goodAll_iff ms).1 hgl m (hmem m hm).1)
                have hvars : ∀ n ∈ M.vars u, n ∈ pyNames := by
                  intro n hn
                  obtain ⟨m, hm, hnm⟩ := varsList_mem pyOnly n
                    ((of_vars C.spec C.canon _ _ pyOnly u hgp).2 hu n hn)
                  have := (hmem m hm).2
                  split at this
                  · cases this
                  · rename_i o ho
                    simp [pure, Except.pure] at this
                    rw [beq_vars _ _ this] at hnm
                    exact only_mentions_thm C.spec C.canon pyNames m o
                      ((M.goodAll_iff ms).1 hgl m (hmem m hm).1) ho n hnm
                obtain ⟨hwg, hlow⟩ := C.gpc_lower u g (unionOf_sound C.spec hgp hu).1 hvars hg'
                have hsu := hlow (C.allowsAll_sound g hwg hsc)
                rw [(unionOf_sound C.spec hgp hu).2] at hsu
                obtain ⟨m, hm, hs⟩ := semAny_exists ev pyOnly hsu
                simp only [M.sem]
                exact (semAny_of_mem ev ms m (hmem m hm).1 hs).symm ▸ rfl
        · simp [hr, pure, Except.pure] at hsc
      | false =>
        simp only [Bool.false_eq_true, if_false] at h
        split at h
        · cases h
        · rename_i xs hx
          have hl := reduce_exact_list C ms xs (by simpa [M.Good] using hgp) hx
          have hs := unionOf_sound C.spec hl.1 h
          exact ⟨hs.1, by rw [hs.2, hl.2.2]; simp only [M.sem]⟩
theorem reduce_exact_list {P : Leaf → Prop} {W : VC → Prop} {pc : VC} {py : Version} (C : ReduceCtx ev G P W pc py)
    (ms xs : List M) (hg : M.GoodAll (fun l => G l ∧ P l) ms) (h : M.reduceList pc ms = .ok xs) :
    M.GoodAll G xs ∧ M.semAll ev xs = M.semAll ev ms ∧ M.semAny ev xs = M.semAny ev ms := by
  cases ms with
  | nil => simp [M.reduceList] at h; subst h; simp [M.GoodAll]
  | cons m rest =>
    simp only [M.reduceList, bind, Except.bind] at h
    split at h
    · cases h
    · rename_i x hx
      split at h
      · cases h
      · rename_i ys hys
        simp [pure, Except.pure] at h; subst h
        have ih := reduce_exact_list C rest ys hg.2 hys
        have ih1 := reduce_exact_aux C m x hg.1 hx
        simp only [M.semAll, M.semAny, ih1.2, ih.2.1, ih.2.2, and_self, M.GoodAll, and_true]
        exact ⟨ih1.1, ih.1⟩
end

end Poetry.Marker
