/-
C14: facts about `Package.all_classifiers` as modelled in `Model/Meta.lean`:
the string order, `sorted`, the python-block insertion, membership / duplicate-freeness / shape of
`allClassifiersFrom`, and the `AVAILABLE_PYTHONS` loop.
-/
import PoetryVerif.Model.Meta

namespace Poetry.Meta
open Poetry

/-! ## (a) the code-point order -/

theorem leChars_refl (a : List Char) : leChars a a = true := by
  induction a with
  | nil => simp [leChars]
  | cons x xs ih => simp [leChars, ih]

theorem leChars_trans (a b c : List Char) : leChars a b = true → leChars b c = true → leChars a c = true := by
  induction a generalizing b c with
  | nil => intros; simp [leChars]
  | cons x xs ih =>
    cases b with
    | nil => simp [leChars]
    | cons y ys =>
      cases c with
      | nil => simp [leChars]
      | cons z zs =>
        simp only [leChars]
        intro h1 h2
        split at h1
        · split at h2
          · have : x.toNat < z.toNat := by omega
            simp [this]
          · split at h2
            · simp at h2
            · have : x.toNat < z.toNat := by omega
              simp [this]
        · split at h1
          · simp at h1
          · split at h2
            · have : x.toNat < z.toNat := by omega
              simp [this]
            · split at h2
              · simp at h2
              · have e1 : ¬ x.toNat < z.toNat := by omega
                have e2 : ¬ z.toNat < x.toNat := by omega
                simp only [e1, e2, if_false]
                exact ih _ _ h1 h2

theorem leChars_total (a b : List Char) : (leChars a b || leChars b a) = true := by
  induction a generalizing b with
  | nil => simp [leChars]
  | cons x xs ih =>
    cases b with
    | nil => simp [leChars]
    | cons y ys =>
      simp only [leChars]
      by_cases h1 : x.toNat < y.toNat
      · simp [h1]
      · by_cases h2 : y.toNat < x.toNat
        · simp [h2]
        · simp only [h1, h2, if_false]; exact ih ys

theorem leChars_antisymm (a b : List Char) : leChars a b = true → leChars b a = true → a = b := by
  induction a generalizing b with
  | nil => cases b <;> simp [leChars]
  | cons x xs ih =>
    cases b with
    | nil => simp [leChars]
    | cons y ys =>
      simp only [leChars]
      by_cases h1 : x.toNat < y.toNat
      · have : ¬ y.toNat < x.toNat := by omega
        simp [h1, this]
      · by_cases h2 : y.toNat < x.toNat
        · simp [h1, h2]
        · simp only [h1, h2, if_false]
          intro p q
          have : x = y := Char.toNat_inj.mp (by omega)
          rw [this, ih ys p q]

theorem leStr_refl (a : String) : leStr a a = true := leChars_refl _

theorem leStr_trans (a b c : String) : leStr a b = true → leStr b c = true → leStr a c = true :=
  leChars_trans _ _ _

theorem leStr_total (a b : String) : (leStr a b || leStr b a) = true := leChars_total _ _

theorem leStr_antisymm (a b : String) : leStr a b = true → leStr b a = true → a = b := fun h1 h2 =>
  String.ext (leChars_antisymm _ _ h1 h2)

/-! ## (b) `sorted` -/

theorem sortStrs_perm (xs : List String) : (sortStrs xs).Perm xs := List.mergeSort_perm _ _

theorem sortStrs_sorted (xs : List String) : (sortStrs xs).Pairwise (fun a b => leStr a b = true) :=
  List.pairwise_mergeSort leStr_trans leStr_total xs

theorem mem_sortStrs {c : String} {xs : List String} : c ∈ sortStrs xs ↔ c ∈ xs :=
  (sortStrs_perm xs).mem_iff


/-! ## (c) the insertion loop -/

theorem insertPython_true (py L : List String) : insertPython py L true = L := by
  induction L with
  | nil => simp [insertPython]
  | cons c cs ih => simp [insertPython, ih]

theorem insertPython_eq (py L : List String) :
    insertPython py L false =
      L.takeWhile (fun c => leStr c Gen.pythonClassifierPrefix) ++ py ++
        L.dropWhile (fun c => leStr c Gen.pythonClassifierPrefix) := by
  induction L with
  | nil => simp [insertPython]
  | cons c cs ih =>
    by_cases h : leStr c Gen.pythonClassifierPrefix = true
    · simp [insertPython, h, ih]
    · simp at h
      simp [insertPython, h, insertPython_true]

/-! ## auxiliary: `eraseDups`, `setMinus` -/

theorem nodup_eraseDups {α} [BEq α] [LawfulBEq α] (l : List α) : l.eraseDups.Nodup := by
  match l with
  | [] => simp
  | a :: as =>
    rw [List.eraseDups_cons, List.nodup_cons]
    have : (as.filter fun b => !b == a).length < as.length + 1 :=
      Nat.lt_add_one_of_le (List.length_filter_le _ as)
    refine ⟨?_, nodup_eraseDups _⟩
    simp [List.mem_eraseDups, List.mem_filter]
termination_by l.length

theorem mem_setMinus {c : String} {xs ys : List String} : c ∈ setMinus xs ys ↔ c ∈ xs ∧ c ∉ ys := by
  simp [setMinus, List.mem_eraseDups, List.mem_filter]

theorem setMinus_nodup (xs ys : List String) : (setMinus xs ys).Nodup := nodup_eraseDups _

/-- the sorted, duplicate-free list the insertion loop runs over -/
def sortedRest (declared py : List String) (lic : Option License) : List String :=
  sortStrs (setMinus (declared ++ (match lic with | some l => [l.classifier] | none => [])) py)

theorem allClassifiersFrom_def (declared py : List String) (lic : Option License) :
    allClassifiersFrom declared py lic = insertPython py (sortedRest declared py lic) false := rfl

theorem mem_sortedRest {c : String} {declared py : List String} {lic : Option License} :
    c ∈ sortedRest declared py lic ↔
      (c ∈ declared ∨ ∃ l, lic = some l ∧ c = l.classifier) ∧ c ∉ py := by
  unfold sortedRest
  rw [mem_sortStrs, mem_setMinus]
  cases lic <;> simp

theorem sortedRest_nodup (declared py : List String) (lic : Option License) :
    (sortedRest declared py lic).Nodup :=
  (sortStrs_perm _).nodup_iff.mpr (setMinus_nodup _ _)

theorem sortedRest_sorted (declared py : List String) (lic : Option License) :
    (sortedRest declared py lic).Pairwise (fun a b => leStr a b = true) := sortStrs_sorted _

/-! ## (d) membership -/

theorem mem_allClassifiersFrom {c : String} {declared py : List String} {lic : Option License} :
    c ∈ allClassifiersFrom declared py lic ↔
      c ∈ declared ∨ c ∈ py ∨ (∃ l, lic = some l ∧ c = l.classifier) := by
  rw [allClassifiersFrom_def, insertPython_eq]
  have key : c ∈ sortedRest declared py lic ∨ c ∈ py ↔
      c ∈ declared ∨ c ∈ py ∨ (∃ l, lic = some l ∧ c = l.classifier) := by
    rw [mem_sortedRest]
    by_cases h : c ∈ py <;> simp [h]
  rw [← key]
  conv => rhs; rw [← List.takeWhile_append_dropWhile (p := fun c => leStr c Gen.pythonClassifierPrefix)
    (l := sortedRest declared py lic)]
  simp only [List.mem_append]
  constructor
  · rintro ((h | h) | h) <;> simp [h]
  · rintro ((h | h) | h) <;> simp [h]

/-! ## (e) no duplicates -/

theorem allClassifiersFrom_nodup {declared py : List String} {lic : Option License} (hpy : py.Nodup) :
    (allClassifiersFrom declared py lic).Nodup := by
  rw [allClassifiersFrom_def, insertPython_eq]
  have hL := sortedRest_nodup declared py lic
  have hdisj : ∀ x ∈ sortedRest declared py lic, x ∉ py := fun x hx => (mem_sortedRest.mp hx).2
  generalize sortedRest declared py lic = L at hL hdisj
  have hperm : (L.takeWhile (fun c => leStr c Gen.pythonClassifierPrefix) ++ py ++
        L.dropWhile (fun c => leStr c Gen.pythonClassifierPrefix)).Perm (py ++ L) := by
    conv => rhs; rw [← List.takeWhile_append_dropWhile (p := fun c => leStr c Gen.pythonClassifierPrefix) (l := L)]
    rw [← List.append_assoc]
    exact List.Perm.append_right _ List.perm_append_comm
  rw [hperm.nodup_iff, List.nodup_append]
  refine ⟨hpy, hL, ?_⟩
  intro a ha b hb hab
  subst hab
  exact hdisj _ hb ha

/-! ## (f) shape -/

theorem mem_takeWhile_imp' {α} {p : α → Bool} {L : List α} {a : α} (h : a ∈ L.takeWhile p) : p a = true := by
  induction L with
  | nil => simp at h
  | cons x xs ih =>
    by_cases hx : p x = true
    · simp [hx] at h
      rcases h with rfl | h
      · exact hx
      · exact ih h
    · simp [hx] at h

theorem dropWhile_le_false {L : List String} {p : String}
    (hs : L.Pairwise (fun a b => leStr a b = true)) :
    ∀ b ∈ L.dropWhile (fun c => leStr c p), leStr b p = false := by
  induction L with
  | nil => simp
  | cons x xs ih =>
    rw [List.pairwise_cons] at hs
    by_cases h : leStr x p = true
    · simpa [List.dropWhile_cons, h] using ih hs.2
    · simp at h
      simp only [List.dropWhile_cons, h]
      intro b hb
      simp at hb
      rcases hb with rfl | hb
      · exact h
      · cases hbp : leStr b p with
        | false => rfl
        | true =>
          have := leStr_trans _ _ _ (hs.1 b hb) hbp
          simp [h] at this

theorem allClassifiersFrom_shape (declared py : List String) (lic : Option License) :
    ∃ A B, allClassifiersFrom declared py lic = A ++ py ++ B ∧
      (A ++ B).Pairwise (fun a b => leStr a b = true ∧ a ≠ b) ∧
      (∀ a ∈ A, leStr a Gen.pythonClassifierPrefix = true) ∧
      (∀ b ∈ B, leStr b Gen.pythonClassifierPrefix = false) ∧
      (∀ x ∈ A ++ B, x ∉ py) := by
  refine ⟨(sortedRest declared py lic).takeWhile (fun c => leStr c Gen.pythonClassifierPrefix),
          (sortedRest declared py lic).dropWhile (fun c => leStr c Gen.pythonClassifierPrefix),
          ?_, ?_, ?_, ?_, ?_⟩
  · rw [allClassifiersFrom_def, insertPython_eq]
  · rw [List.takeWhile_append_dropWhile]
    exact (sortedRest_sorted declared py lic).and (sortedRest_nodup declared py lic)
  · intro a ha
    exact mem_takeWhile_imp' (p := fun c => leStr c Gen.pythonClassifierPrefix) ha
  · exact dropWhile_le_false (sortedRest_sorted declared py lic)
  · rw [List.takeWhile_append_dropWhile]
    exact fun x hx => (mem_sortedRest.mp hx).2


/-! ## (g) the `AVAILABLE_PYTHONS` loop -/

/-- `v` is admitted by the python constraint `pc` -/
def Admitted (pc : VC) (v : String) : Prop :=
  ∃ t, pythonTarget v = .ok t ∧ pc.allowsAny t = .ok true

theorem pythonClassifiersLoop_inv (pc : VC) (vs acc cs : List String)
    (h : pythonClassifiersLoop pc vs acc = .ok cs) :
    (acc.Nodup → cs.Nodup) ∧
    (∀ c, c ∈ cs ↔ c ∈ acc ∨ ∃ v ∈ vs, c = pythonClassifierOf v ∧ Admitted pc v) := by
  induction vs generalizing acc with
  | nil =>
    simp [pythonClassifiersLoop] at h
    subst h
    simp
  | cons v vs ih =>
    unfold pythonClassifiersLoop at h
    cases ht : pythonTarget v with
    | error e => simp [ht, bind, Except.bind] at h
    | ok t =>
      cases ha : pc.allowsAny t with
      | error e => simp [ht, ha, bind, Except.bind] at h
      | ok b =>
        simp only [ht, ha, bind, Except.bind] at h
        cases b with
        | false =>
          simp at h
          have ⟨i1, i2⟩ := ih acc h
          refine ⟨i1, fun c => ?_⟩
          rw [i2]
          constructor
          · rintro (h | ⟨w, hw, e, ad⟩)
            · exact .inl h
            · exact .inr ⟨w, List.mem_cons_of_mem _ hw, e, ad⟩
          · rintro (h | ⟨w, hw, e, ad⟩)
            · exact .inl h
            · rcases List.mem_cons.mp hw with rfl | hw
              · obtain ⟨t', ht', ha'⟩ := ad
                rw [ht] at ht'; cases ht'
                rw [ha] at ha'; cases ha'
              · exact .inr ⟨w, hw, e, ad⟩
        | true =>
          have adv : Admitted pc v := ⟨t, ht, ha⟩
          simp only [if_true] at h
          by_cases hc : acc.contains (pythonClassifierOf v) = true
          · simp only [hc, if_true] at h
            have ⟨i1, i2⟩ := ih acc h
            refine ⟨i1, fun c => ?_⟩
            rw [i2]
            constructor
            · rintro (h | ⟨w, hw, e, ad⟩)
              · exact .inl h
              · exact .inr ⟨w, List.mem_cons_of_mem _ hw, e, ad⟩
            · rintro (h | ⟨w, hw, e, ad⟩)
              · exact .inl h
              · rcases List.mem_cons.mp hw with rfl | hw
                · subst e; exact .inl (by simpa using hc)
                · exact .inr ⟨w, hw, e, ad⟩
          · simp only [hc] at h
            simp at h hc
            have ⟨i1, i2⟩ := ih _ h
            refine ⟨fun hn => i1 ?_, fun c => ?_⟩
            · rw [List.nodup_append]
              refine ⟨hn, by simp, ?_⟩
              intro a ha b hb
              simp at hb; subst hb
              intro e; subst e; exact hc ha
            · rw [i2]
              constructor
              · rintro (h | ⟨w, hw, e, ad⟩)
                · rcases List.mem_append.mp h with h | h
                  · exact .inl h
                  · simp at h
                    exact .inr ⟨v, List.mem_cons_self, h, adv⟩
                · exact .inr ⟨w, List.mem_cons_of_mem _ hw, e, ad⟩
              · rintro (h | ⟨w, hw, e, ad⟩)
                · exact .inl (List.mem_append_left _ h)
                · rcases List.mem_cons.mp hw with rfl | hw
                  · exact .inl (by simp [e])
                  · exact .inr ⟨w, hw, e, ad⟩

theorem mem_availablePythonsSorted {v : String} : v ∈ availablePythonsSorted ↔ v ∈ Gen.availablePythons :=
  (List.mergeSort_perm _ _).mem_iff

theorem pythonClassifiers_mem {pc : VC} {cs : List String} (h : pythonClassifiers pc = .ok cs) (c : String) :
    c ∈ cs ↔ ∃ v ∈ Gen.availablePythons, c = pythonClassifierOf v ∧
      ∃ t, pythonTarget v = .ok t ∧ pc.allowsAny t = .ok true := by
  have := (pythonClassifiersLoop_inv pc _ _ _ h).2 c
  rw [this]
  simp only [List.not_mem_nil, false_or, mem_availablePythonsSorted, Admitted]

theorem pythonClassifiers_nodup {pc : VC} {cs : List String} (h : pythonClassifiers pc = .ok cs) : cs.Nodup :=
  (pythonClassifiersLoop_inv pc _ _ _ h).1 List.nodup_nil

/-- `Package.all_classifiers` (dynamic case): no duplicates -/
theorem allClassifiers_nodup {p : Pkg} {cs : List String} (hd : p.dynamicClassifiers = true)
    (h : p.allClassifiers = .ok cs) : cs.Nodup := by
  unfold Pkg.allClassifiers at h
  simp only [hd, if_true] at h
  cases hpc : p.classifierPython with
  | error e => simp [hpc, bind, Except.bind] at h
  | ok pc =>
    cases hpy : pythonClassifiers pc with
    | error e => simp [hpc, hpy, bind, Except.bind] at h
    | ok py =>
      simp [hpc, hpy, bind, Except.bind, pure, Except.pure] at h
      subst h
      exact allClassifiersFrom_nodup (pythonClassifiers_nodup hpy)

end Poetry.Meta
