/-
The per-leaf hypotheses of the marker-text theorems (`LeafPrintOK`: re-reading a leaf's own text gives its
truth value back; `Leaf.Lexable`: the text uses grammar words and quotable values) discharged on the quotable
string / `extra` fragment `InvLeaf E`.
-/
import PoetryVerif.Proofs.MarkerAlgSoundInvert

set_option linter.unusedSimpArgs false
set_option linter.unusedVariables false

namespace Poetry.Marker
open Poetry.Generic

/-- the `SingleMarker` on the string variable `n` carrying the atom `a` -/
def strLeafOf (n : String) (a : Generic.Atom) : Single := ⟨n, a.op.str, a.value, false, .gen (.s (.atom a))⟩

/-- the constructor on the item text of an atom (string variables) -/
theorem compactAtom_str (n : String) (hn : n ∈ plainStringVars) (a : Generic.Atom) (hx : a.x = false)
    (he : a.isEqNe = true) (hq : QuotableValue a.value) :
    compactAtom (.item n a.op.str a.value false) = .ok (.leaf (.single (strLeafOf n a))) := by
  obtain ⟨hn1, hn2⟩ := plainStringVars_facts n hn
  cases a with | mk v op x =>
  simp only at hx hq; subst hx
  cases op with
  | eq =>
    have := mkSingle_string_eq n v hn1 hq.1.1 (startOk_head hq.1)
    simp [compactAtom, itemConstraintString, Generic.Op.str, this, hn2, strLeafOf, bind, Except.bind, pure, Except.pure]
  | ne =>
    have := mkSingle_string_ne n v hn1 hq.1.1
    simp [compactAtom, itemConstraintString, Generic.Op.str, this, hn2, strLeafOf, bind, Except.bind, pure, Except.pure]
  | in_ => simp [Atom.isEqNe] at he
  | nc => simp [Atom.isEqNe] at he

theorem compactAtom_extra (a : Generic.Atom) (hx : a.x = true) (he : a.isEqNe = true) (hq : QuotableValue a.value) :
    compactAtom (.item "extra" a.op.str a.value false) = .ok (.leaf (.single (sOfAtom a))) := by
  cases a with | mk v op x =>
  simp only at hx hq; subst hx
  cases op with
  | eq =>
    have := mkSingle_extra_eq v hq.1.1 (startOk_head hq.1)
    simp [compactAtom, itemConstraintString, Generic.Op.str, this, sOfAtom, bind, Except.bind, pure, Except.pure]
  | ne =>
    have := mkSingle_extra_ne v hq.1.1
    simp [compactAtom, itemConstraintString, Generic.Op.str, this, sOfAtom, bind, Except.bind, pure, Except.pure]
  | in_ => simp [Atom.isEqNe] at he
  | nc => simp [Atom.isEqNe] at he

/-- the groups of an `and`-chain / `or`-chain of items -/
theorem compactGroups_atomItems (n : String) (f : Generic.Atom → Single) :
    ∀ (as : List Generic.Atom) (t : Syn),
      (∀ a ∈ as, compactAtom (.item n a.op.str a.value false) = .ok (.leaf (.single (f a)))) →
      (atomItems n false as = some t → compactGroups t = .ok [as.map (fun a => M.leaf (.single (f a)))]) ∧
      (atomItems n true as = some t → compactGroups t = .ok (as.map (fun a => [M.leaf (.single (f a))])))
  | [], t, _ => by simp [atomItems]
  | [a], t, h => by
      have ha := h a (by simp)
      constructor <;>
      · intro ht
        simp only [atomItems, Option.some.injEq] at ht; subst ht
        simp [compactGroups, ha, bind, Except.bind, pure, Except.pure]
  | a :: b :: rest, t, h => by
      have ha := h a (by simp)
      constructor
      · intro ht
        simp only [atomItems, Option.map_eq_some_iff] at ht
        obtain ⟨t', ht', rfl⟩ := ht
        have := (compactGroups_atomItems n f (b :: rest) t' (fun x hx => h x (by simp [hx]))).1 ht'
        simp [compactGroups, ha, this, bind, Except.bind, pure, Except.pure]
      · intro ht
        simp only [atomItems, Option.map_eq_some_iff] at ht
        obtain ⟨t', ht', rfl⟩ := ht
        have := (compactGroups_atomItems n f (b :: rest) t' (fun x hx => h x (by simp [hx]))).2 ht'
        simp [compactGroups, ha, this, bind, Except.bind, pure, Except.pure]

theorem list_all_congr {α : Type} {l : List α} {f g : α → Bool} (h : ∀ a ∈ l, f a = g a) : l.all f = l.all g := by
  induction l with
  | nil => rfl
  | cons a l ih => simp [h a (by simp), ih (fun b hb => h b (by simp [hb]))]

theorem list_any_congr {α : Type} {l : List α} {f g : α → Bool} (h : ∀ a ∈ l, f a = g a) : l.any f = l.any g := by
  induction l with
  | nil => rfl
  | cons a l ih => simp [h a (by simp), ih (fun b hb => h b (by simp [hb]))]

theorem gsAtoms_eq : ∀ (ms : List GS) (as : List Generic.Atom), gsAtoms ms = some as → ms = as.map GS.atom
  | [], as, h => by simp [gsAtoms] at h; subst h; rfl
  | .atom a :: rest, as, h => by
      simp only [gsAtoms, Option.map_eq_some_iff] at h
      obtain ⟨as', h', rfl⟩ := h
      simp [gsAtoms_eq rest as' h']
  | .any :: _, as, h => by simp [gsAtoms] at h
  | .empty :: _, as, h => by simp [gsAtoms] at h
  | .multi _ _ :: _, as, h => by simp [gsAtoms] at h

/-- **re-reading the text of a string-fragment leaf gives its truth value back** -/
theorem printOK_str {E : Env} {l : Leaf} (h : InvStrLeaf E l) : LeafPrintOK (leafEval E) (InvStrLeaf E) l := by
  obtain ⟨hs, hN, hW⟩ := h
  have hs' := hs
  cases l with
  | single s =>
    obtain ⟨hx, hp, ⟨ve, hve⟩, hsw, a, hc, hax, hae, hop, hval⟩ := hs
    have hq : QuotableValue a.value := hW a (by simp [leafAtoms, Leaf.c, hc, GC.atoms, GS.atoms])
    have hca := compactAtom_str s.name hN a hax hae hq
    apply leafPrintOK_single (⟨hs', hN, hW⟩ : InvStrLeaf E (.single s))
    simp only [compactAtom, bind, Except.bind, pure, Except.pure] at hca
    rw [hsw, hop, hval]
    cases hm : mkSingle s.name (itemConstraintString a.op.str a.value false) false with
    | error e => simp [hm] at hca
    | ok s' =>
      simp only [hm, Except.ok.injEq, M.leaf.injEq, Leaf.single.injEq] at hca
      subst hca
      cases s
      simp_all [strLeafOf]
  | amulti n c =>
    obtain ⟨hx, hp, ⟨ve, hve⟩, hw⟩ := hs
    intro t ht
    cases c with
    | union _ => simp [Leaf.toSyn] at ht
    | s gs =>
      cases gs with
      | multi x cs =>
        simp only [Leaf.toSyn] at ht
        obtain ⟨_, hcs⟩ := wfG_multi hw
        have hat : ∀ a ∈ cs, compactAtom (.item n a.op.str a.value false) = .ok (.leaf (.single (strLeafOf n a))) := by
          intro a ha
          exact compactAtom_str n hN a (hcs a ha).1 (by simp [Atom.isEqNe, (hcs a ha).2])
            (hW a (by simp [leafAtoms, Leaf.c, GC.atoms, GS.atoms, ha]))
        have hg := (compactGroups_atomItems n (strLeafOf n) cs t hat).1 ht
        have hleaf : ∀ a ∈ cs, InvStrLeaf E (.single (strLeafOf n a)) ∧
            leafEval E (.single (strLeafOf n a)) = a.den ve := by
          intro a ha
          have hsl : StrLeaf E (.single (strLeafOf n a)) :=
            ⟨hx, hp, ⟨ve, hve⟩, rfl, a, rfl, (hcs a ha).1, by simp [Atom.isEqNe, (hcs a ha).2], rfl, rfl⟩
          refine ⟨⟨hsl, hN, ?_⟩, ?_⟩
          · intro y hy
            simp only [leafAtoms, Leaf.c, strLeafOf, GC.atoms, GS.atoms, List.mem_singleton] at hy
            rw [hy]
            exact hW a (by simp [leafAtoms, Leaf.c, GC.atoms, GS.atoms, ha])
          · rw [strLeaf_atomic_eval hsl rfl hve]; simp [GC.den, GC.sem, GS.sem]
        refine ⟨_, hg, ?_, ?_, fun _ => ⟨_, rfl⟩⟩
        · intro g hgm x hx'
          simp only [List.mem_singleton] at hgm; subst hgm
          simp only [List.mem_map] at hx'
          obtain ⟨a, ha, rfl⟩ := hx'
          exact (M.good_leaf _).2 (hleaf a ha).1
        · rw [strLeaf_atomic_eval hs' rfl hve]
          simp only [gsem, List.any_cons, List.any_nil, Bool.or_false, List.all_map, Function.comp_def, M.sem_leaf,
            GC.den, GC.sem, GS.sem]
          apply list_all_congr
          intro a ha
          exact (hleaf a ha).2
      | _ => simp [Leaf.toSyn] at ht
  | aunion n c =>
    obtain ⟨hx, hp, ⟨ve, hve⟩, hw⟩ := hs
    intro t ht
    cases c with
    | s _ => simp [Leaf.toSyn] at ht
    | union ms =>
      simp only [Leaf.toSyn, Option.bind_eq_some_iff] at ht
      obtain ⟨as, hga, ht⟩ := ht
      have hms := gsAtoms_eq ms as hga
      subst hms
      have hcs : ∀ a ∈ as, a.x = false ∧ a.isEqNe = true := by
        intro a ha
        have := hw
        simp only [GC.wfG, Bool.and_eq_true, List.all_eq_true, List.mem_map] at this
        have := this.2 (.atom a) ⟨a, ha, rfl⟩
        simpa [GS.wfG] using this
      have hWa : ∀ a ∈ as, QuotableValue a.value := by
        intro a ha
        apply hW a
        simp only [leafAtoms, Leaf.c, GC.atoms, List.mem_flatMap, List.mem_map]
        exact ⟨.atom a, ⟨a, ha, rfl⟩, by simp [GS.atoms]⟩
      have hat : ∀ a ∈ as, compactAtom (.item n a.op.str a.value false) = .ok (.leaf (.single (strLeafOf n a))) :=
        fun a ha => compactAtom_str n hN a (hcs a ha).1 (hcs a ha).2 (hWa a ha)
      have hg := (compactGroups_atomItems n (strLeafOf n) as t hat).2 ht
      have hleaf : ∀ a ∈ as, InvStrLeaf E (.single (strLeafOf n a)) ∧
          leafEval E (.single (strLeafOf n a)) = a.den ve := by
        intro a ha
        have hsl : StrLeaf E (.single (strLeafOf n a)) :=
          ⟨hx, hp, ⟨ve, hve⟩, rfl, a, rfl, (hcs a ha).1, (hcs a ha).2, rfl, rfl⟩
        refine ⟨⟨hsl, hN, ?_⟩, ?_⟩
        · intro y hy
          simp only [leafAtoms, Leaf.c, strLeafOf, GC.atoms, GS.atoms, List.mem_singleton] at hy
          rw [hy]
          exact hWa a ha
        · rw [strLeaf_atomic_eval hsl rfl hve]; simp [GC.den, GC.sem, GS.sem]
      refine ⟨_, hg, ?_, ?_, fun hno => absurd rfl (hno n _)⟩
      · intro g hgm x hx'
        simp only [List.mem_map] at hgm
        obtain ⟨a, ha, rfl⟩ := hgm
        simp only [List.mem_singleton] at hx'; subst hx'
        exact (M.good_leaf _).2 (hleaf a ha).1
      · rw [strLeaf_atomic_eval hs' rfl hve]
        simp only [gsem, List.any_map, Function.comp_def, List.all_cons, List.all_nil, Bool.and_true, M.sem_leaf,
          GC.den, GC.sem, GS.sem]
        apply list_any_congr
        intro a ha
        exact (hleaf a ha).2

/-- **…and of an `extra` leaf** -/
theorem printOK_extra {E : Env} {ex : List String} (hE : E.extras = some ex) {l : Leaf}
    (h : XLeafW QuotableValue l) : LeafPrintOK (leafEval E) (XLeafW QuotableValue) l := by
  have h' := h
  obtain ⟨hs, hW⟩ := h
  have hsingle : ∀ a : Generic.Atom, a.x = true → a.isEqNe = true → QuotableValue a.value →
      XLeafW QuotableValue (.single (sOfAtom a)) ∧
      leafEval E (.single (sOfAtom a)) = a.denX (extrasPred ex) := by
    intro a hx he hq
    have hsl : XLeafW QuotableValue (.single (sOfAtom a)) := by
      refine ⟨⟨rfl, rfl, a, rfl, hx, he, rfl, rfl⟩, ?_⟩
      intro y hy
      simp only [leafAtoms, Leaf.c, sOfAtom, GC.atoms, GS.atoms, List.mem_singleton] at hy
      rw [hy]; exact hq
    exact ⟨hsl, by rw [xLeaf_eval mkExtraOKW_quotable hE hsl rfl]; simp [GC.denX, GC.sem, GS.sem]⟩
  cases l with
  | single s =>
    obtain ⟨hnm, hsw, a, hc, hax, hae, hop, hval⟩ := hs
    have hq : QuotableValue a.value := hW a (by simp [leafAtoms, Leaf.c, hc, GC.atoms, GS.atoms])
    have hca := compactAtom_extra a hax hae hq
    apply leafPrintOK_single h'
    simp only [compactAtom, bind, Except.bind, pure, Except.pure] at hca
    rw [hsw, hop, hval, hnm]
    cases hm : mkSingle "extra" (itemConstraintString a.op.str a.value false) false with
    | error e => simp [hm] at hca
    | ok s' =>
      simp only [hm, Except.ok.injEq, M.leaf.injEq, Leaf.single.injEq] at hca
      subst hca
      cases s
      simp_all [sOfAtom]
  | amulti n c =>
    obtain ⟨rfl, hw, x, cs, rfl⟩ := hs
    intro t ht
    simp only [Leaf.toSyn] at ht
    obtain ⟨_, hcs, _⟩ := wfX_multi hw
    have hWa : ∀ a ∈ cs, QuotableValue a.value :=
      fun a ha => hW a (by simp [leafAtoms, Leaf.c, GC.atoms, GS.atoms, ha])
    have hat : ∀ a ∈ cs, compactAtom (.item "extra" a.op.str a.value false) = .ok (.leaf (.single (sOfAtom a))) :=
      fun a ha => compactAtom_extra a (hcs a ha).1 (hcs a ha).2 (hWa a ha)
    have hg := (compactGroups_atomItems "extra" sOfAtom cs t hat).1 ht
    refine ⟨_, hg, ?_, ?_, fun _ => ⟨_, rfl⟩⟩
    · intro g hgm y hy
      simp only [List.mem_singleton] at hgm; subst hgm
      simp only [List.mem_map] at hy
      obtain ⟨a, ha, rfl⟩ := hy
      exact (M.good_leaf _).2 (hsingle a (hcs a ha).1 (hcs a ha).2 (hWa a ha)).1
    · rw [xLeaf_eval mkExtraOKW_quotable hE h' rfl]
      simp only [gsem, List.any_cons, List.any_nil, Bool.or_false, List.all_map, Function.comp_def, M.sem_leaf,
        GC.denX, GC.sem, GS.sem]
      apply list_all_congr
      intro a ha
      exact (hsingle a (hcs a ha).1 (hcs a ha).2 (hWa a ha)).2
  | aunion n c =>
    obtain ⟨rfl, hw, ms, rfl, hall⟩ := hs
    intro t ht
    simp only [Leaf.toSyn, Option.bind_eq_some_iff] at ht
    obtain ⟨as, hga, ht⟩ := ht
    have hms := gsAtoms_eq ms as hga
    subst hms
    have hcs : ∀ a ∈ as, a.x = true ∧ a.isEqNe = true := by
      intro a ha
      have := hw
      simp only [GC.wfX, Bool.and_eq_true, List.all_eq_true, List.mem_map] at this
      have := this.2 (.atom a) ⟨a, ha, rfl⟩
      simpa [GS.wfX] using this
    have hWa : ∀ a ∈ as, QuotableValue a.value := by
      intro a ha
      apply hW a
      simp only [leafAtoms, Leaf.c, GC.atoms, List.mem_flatMap, List.mem_map]
      exact ⟨.atom a, ⟨a, ha, rfl⟩, by simp [GS.atoms]⟩
    have hat : ∀ a ∈ as, compactAtom (.item "extra" a.op.str a.value false) = .ok (.leaf (.single (sOfAtom a))) :=
      fun a ha => compactAtom_extra a (hcs a ha).1 (hcs a ha).2 (hWa a ha)
    have hg := (compactGroups_atomItems "extra" sOfAtom as t hat).2 ht
    refine ⟨_, hg, ?_, ?_, fun hno => absurd rfl (hno "extra" _)⟩
    · intro g hgm y hy
      simp only [List.mem_map] at hgm
      obtain ⟨a, ha, rfl⟩ := hgm
      simp only [List.mem_singleton] at hy; subst hy
      exact (M.good_leaf _).2 (hsingle a (hcs a ha).1 (hcs a ha).2 (hWa a ha)).1
    · rw [xLeaf_eval mkExtraOKW_quotable hE h' rfl]
      simp only [gsem, List.any_map, Function.comp_def, List.all_cons, List.all_nil, Bool.and_true, M.sem_leaf,
        GC.denX, GC.sem, GS.sem]
      apply list_any_congr
      intro a ha
      exact (hsingle a (hcs a ha).1 (hcs a ha).2 (hWa a ha)).2

theorem LeafPrintOK.mono {ev : Leaf → Bool} {G G' : Leaf → Prop} (hGG : ∀ l, G l → G' l) {l : Leaf}
    (h : LeafPrintOK ev G l) : LeafPrintOK ev G' l := by
  intro t ht
  obtain ⟨gs, h1, h2, h3, h4⟩ := h t ht
  exact ⟨gs, h1, fun g hg x hx => M.good_mono hGG x (h2 g hg x hx), h3, h4⟩

/-- **the per-leaf text hypothesis holds on the whole quotable fragment** -/
theorem printOK_inv {E : Env} {ex : List String} (hE : E.extras = some ex) :
    ∀ l, InvLeaf E l → LeafPrintOK (leafEval E) (InvLeaf E) l := by
  intro l hl
  rcases hl with hl | hl
  · exact (printOK_str hl).mono (fun l h => Or.inl h)
  · exact (printOK_extra hE hl).mono (fun l h => Or.inr h)

/-! ### lexability -/

theorem atomItems_lexable (n : String) (hn : n ∈ names) (isOr : Bool) : ∀ (as : List Generic.Atom) (t : Syn),
    (∀ a ∈ as, a.isEqNe = true ∧ ValOk a.value) → atomItems n isOr as = some t → t.Lexable
  | [], t, _, h => by simp [atomItems] at h
  | [a], t, ha, h => by
      simp only [atomItems, Option.some.injEq] at h; subst h
      have := ha a (by simp)
      refine ⟨hn, ?_, this.2⟩
      cases a with | mk v op x => cases op <;> simp_all [Atom.isEqNe, Generic.Op.str] <;> decide
  | a :: b :: rest, t, ha, h => by
      simp only [atomItems, Option.map_eq_some_iff] at h
      obtain ⟨t', h', rfl⟩ := h
      have := ha a (by simp)
      refine ⟨⟨hn, ?_, this.2⟩, atomItems_lexable n hn isOr (b :: rest) t' (fun x hx => ha x (by simp [hx])) h'⟩
      cases a with | mk v op x => cases op <;> simp_all [Atom.isEqNe, Generic.Op.str] <;> decide

theorem invLeaf_atoms {E : Env} {l : Leaf} (h : InvLeaf E l) :
    l.name ∈ names ∧ ∀ a ∈ leafAtoms l, a.isEqNe = true ∧ ValOk a.value := by
  rcases h with h | h
  · refine ⟨plainStringVars_names _ h.2.1, fun a ha => ⟨?_, (h.2.2 a ha).2⟩⟩
    obtain ⟨_, _, gc, v, hc, hw, _⟩ := strLeaf_view h.1
    simp only [leafAtoms, hc] at ha
    cases gc with
    | s gs =>
      cases gs with
      | atom b => simp [GC.atoms, GS.atoms] at ha; subst ha; have := hw; simp [GC.wfG, GS.wfG] at this; exact this.2
      | multi x cs =>
        simp [GC.atoms, GS.atoms] at ha
        have := (wfG_multi hw).2 a ha
        simp [Atom.isEqNe, this.2]
      | any => simp [GC.atoms, GS.atoms] at ha
      | empty => simp [GC.atoms, GS.atoms] at ha
    | union ms =>
      simp only [GC.atoms, List.mem_flatMap] at ha
      obtain ⟨m, hm, ham⟩ := ha
      have := hw
      simp only [GC.wfG, Bool.and_eq_true, List.all_eq_true] at this
      have hmw := this.2 m hm
      cases m with
      | atom b => simp [GS.atoms] at ham; subst ham; have := hmw; simp [GS.wfG] at this; exact this.2
      | multi x cs =>
        simp [GS.atoms] at ham
        have := (wfG_multi hmw).2 a ham
        simp [Atom.isEqNe, this.2]
      | any => simp [GS.atoms] at ham
      | empty => simp [GS.atoms] at ham
  · have hn := xLeaf_name h.1
    refine ⟨by rw [hn]; decide, fun a ha => ⟨?_, (h.2 a ha).2⟩⟩
    cases l with
    | single s =>
      obtain ⟨_, _, b, hc, _, hbe, _, _⟩ := h.1
      simp [leafAtoms, Leaf.c, hc, GC.atoms, GS.atoms] at ha; subst ha; exact hbe
    | amulti n c =>
      obtain ⟨_, hw, x, cs, rfl⟩ := h.1
      simp [leafAtoms, Leaf.c, GC.atoms, GS.atoms] at ha
      exact ((wfX_multi hw).2.1 a ha).2
    | aunion n c =>
      obtain ⟨_, hw, ms, rfl, hall⟩ := h.1
      obtain ⟨as, rfl⟩ := atoms_of_all ms hall
      simp only [leafAtoms, Leaf.c, GC.atoms, List.mem_flatMap, List.mem_map] at ha
      obtain ⟨m, ⟨b, hb, rfl⟩, ham⟩ := ha
      simp [GS.atoms] at ham; subst ham
      have := hw
      simp only [GC.wfX, Bool.and_eq_true, List.all_eq_true, List.mem_map] at this
      have := this.2 (.atom a) ⟨a, hb, rfl⟩
      simp [GS.wfX] at this; exact this.2

/-- **the texts of the fragment's leaves are lexable** -/
theorem lexable_inv {E : Env} : ∀ l, InvLeaf E l → Leaf.Lexable l := by
  intro l hl t ht
  obtain ⟨hn, hat⟩ := invLeaf_atoms hl
  cases l with
  | single s =>
    simp only [Leaf.toSyn, Option.some.injEq] at ht; subst ht
    have hop : s.op ∈ ops ∧ ValOk s.value := by
      rcases hl with hl | hl
      · obtain ⟨_, _, _, _, a, hc, _, hae, hop, hval⟩ := hl.1
        have := hat a (by simp [leafAtoms, Leaf.c, hc, GC.atoms, GS.atoms])
        rw [hop, hval]
        refine ⟨?_, this.2⟩
        cases a with | mk v op x => cases op <;> simp_all [Atom.isEqNe, Generic.Op.str] <;> decide
      · obtain ⟨_, _, a, hc, _, hae, hop, hval⟩ := hl.1
        have := hat a (by simp [leafAtoms, Leaf.c, hc, GC.atoms, GS.atoms])
        rw [hop, hval]
        refine ⟨?_, this.2⟩
        cases a with | mk v op x => cases op <;> simp_all [Atom.isEqNe, Generic.Op.str] <;> decide
    exact ⟨hn, hop.1, hop.2⟩
  | amulti n c =>
    cases c with
    | union _ => simp [Leaf.toSyn] at ht
    | s gs =>
      cases gs with
      | multi x cs =>
        simp only [Leaf.toSyn] at ht
        exact atomItems_lexable n hn false cs t (fun a ha => hat a (by simp [leafAtoms, Leaf.c, GC.atoms, GS.atoms, ha])) ht
      | _ => simp [Leaf.toSyn] at ht
  | aunion n c =>
    cases c with
    | s _ => simp [Leaf.toSyn] at ht
    | union ms =>
      simp only [Leaf.toSyn, Option.bind_eq_some_iff] at ht
      obtain ⟨as, hga, ht⟩ := ht
      have hms := gsAtoms_eq ms as hga
      subst hms
      refine atomItems_lexable n hn true as t (fun a ha => hat a ?_) ht
      simp only [leafAtoms, Leaf.c, GC.atoms, List.mem_flatMap, List.mem_map]
      exact ⟨.atom a, ⟨a, ha, rfl⟩, by simp [GS.atoms]⟩

end Poetry.Marker
