/-
The simplifier mentions no variable its operands do not mention (helper lemmas for C17 `only_mentions`,
C11 `pyConstraint_exact`): the variable name of every leaf a successful `_merge_single_markers` returns is the
name of an operand (for the python_version / python_full_version pairing: one of the two), and this is carried
through `MultiMarker.of`, `MarkerUnion.of`, `intersect`, `union`, `cnf`, `dnf` by C07's soundness induction,
instantiated with the leaf invariant "satisfies `G` and is named in `N`".
-/
import PoetryVerif.Proofs.MarkerProj
import PoetryVerif.Proofs.MarkerShape
import PoetryVerif.Proofs.MarkerAlgSoundOps
import PoetryVerif.Proofs.PyConvMarker

set_option linter.unusedSimpArgs false
set_option linter.unusedVariables false

namespace Poetry.Marker
open Poetry

/-! ### names of rebuilt leaves -/

theorem leafPrepare_name' (name cstr : String) (sw : Bool) (p : LeafPrep) (h : leafPrepare name cstr sw = .ok p) :
    p.name = aliasName name := by
  unfold leafPrepare at h
  simp only at h
  split at h
  · cases h
  · repeat' split at h
    all_goals (first | cases h; rfl | skip)

theorem mkSingle_name' (name cstr : String) (sw : Bool) (s : Single) (h : mkSingle name cstr sw = .ok s) :
    s.name = aliasName name := by
  simp only [mkSingle, bind, Except.bind] at h
  split at h
  · cases h
  · rename_i p hp
    split at h
    · cases h
    · simp [pure, Except.pure] at h
      rw [← h]; exact leafPrepare_name' name cstr sw p hp

theorem mkSingleOfC_name (name : String) (c : LeafC) (s : Single) (h : mkSingleOfC name c = .ok s) :
    s.name = aliasName name := by
  simp only [mkSingleOfC, bind, Except.bind] at h
  split at h
  · cases h
  · exact mkSingle_name' _ _ _ _ h

/-- `parse_marker("python_version == \"…\"")`, whatever the value text: the item read is on `python_version` -/
theorem parseItemMarker_pv_name (t : String) (r : M)
    (h : parseItemMarker ("python_version == \"" ++ t ++ "\"") = .ok r) :
    ∃ s, r = .leaf (.single s) ∧ s.name = "python_version" := by
  unfold parseItemMarker at h
  split at h
  · cases h
  · rename_i n op v sw hp
    obtain ⟨s, hs, h2⟩ := bind_ok.1 h
    rw [pure_ok] at h2; subst h2
    refine ⟨s, rfl, ?_⟩
    rw [mkSingle_name' _ _ _ _ hs]
    -- the name the recogniser reads
    have hn : n = "python_version" := by
      unfold parseText at hp
      simp only [String.toList_append] at hp
      generalize hfuel : 2 * ("python_version == \"".toList ++ t.toList ++ "\"".toList).length + 2 = fuel at hp
      obtain ⟨f, rfl⟩ : ∃ f, fuel = f + 2 := ⟨fuel - 2, by omega⟩
      rw [parseSyn] at hp
      rw [parseAtom] at hp
      simp [skipWs, parseItem, markerValue, names_eq, matchWord, stripPrefix?] at hp
      repeat' (split at hp)
      all_goals (first | (cases hp; done) | skip)
      all_goals simp_all
      rename_i heq _
      repeat' (split at heq)
      all_goals (first | (cases heq; done) | skip)
      all_goals (simp at heq)
      rename_i heq2 _ _
      obtain ⟨rfl, rfl⟩ := heq
      repeat' (split at heq2)
      all_goals (first | (cases heq2; done) | skip)
      all_goals (simp at heq2)
      all_goals (exact heq2.1.1.symm)
    rw [hn]; decide
  · cases h


/-! ### `_merge_single_markers` returns leaves named like an operand -/

/-- the leaf's variable is one of `N` and is spelt canonically (aliases resolved, as `SingleMarker.__init__`
stores it) -/
def Named (N : List String) (l : Leaf) : Prop := l.name ∈ N ∧ aliasName l.name = l.name

theorem cand_named (N : List String) (m1 : Leaf) (h1 : Named N m1) (l : Leaf) (t : String)
    (hpi : parseItemMarker ("python_version == \"" ++ t ++ "\"") = .ok (.leaf l))
    (hne : ¬ ((m1.name != "python_version") = true)) : M.Good (Named N) (.leaf l) := by
  obtain ⟨s, hs, hsn⟩ := parseItemMarker_pv_name _ _ hpi
  cases hs
  have hm1 : m1.name = "python_version" := by simpa using hne
  simp only [M.good_leaf, Named, Leaf.name, hsn]
  exact ⟨hm1 ▸ h1.1, by decide⟩

theorem mergeSingle_nonpy_named (N : List String) (depth : Nat) (m1 m2 : Leaf) (im : Bool) (r : M)
    (hp : ((m1.name == "python_version" && m2.name == "python_full_version") ||
                (m1.name == "python_full_version" && m2.name == "python_version")) = false)
    (h1 : Named N m1) (h2 : Named N m2)
    (h : mergeSingle depth m1 m2 im = .ok (some r)) : M.Good (Named N) r := by
  have hs1 : ∀ rc s, mkSingleOfC m1.name rc = .ok s → Named N (.single s) := by
    intro rc s hs
    have hname : (Leaf.single s).name = m1.name := by
      show s.name = _
      rw [mkSingleOfC_name _ _ _ hs, h1.2]
    exact ⟨by rw [hname]; exact h1.1, by rw [hname]; exact h1.2⟩
  rw [mergeSingle.eq_def] at h
  dsimp only at h
  rw [hp] at h
  rw [if_neg Bool.false_ne_true] at h
  by_cases hn : (m1.name != m2.name) = true
  · rw [if_pos hn] at h; cases h
  rw [if_neg hn] at h
  split at h
  · cases h
  · cases h
  · rename_i c1 c2 _ _
    cases im <;> simp only [Bool.false_eq_true, if_false, if_true] at h <;>
    (obtain ⟨rc, _, h⟩ := bind_ok.1 h
     by_cases e1 : rc.isEmpty = true
     · rw [if_pos e1, pure_ok] at h; cases h; simp
     rw [if_neg e1] at h
     by_cases e2 : rc.isAny = true
     · rw [if_pos e2, pure_ok] at h; cases h; simp
     rw [if_neg e2] at h
     by_cases e3 : rc.eqv m1.c = true
     · rw [if_pos e3, pure_ok] at h; cases h; simpa using h1
     rw [if_neg e3] at h
     by_cases e4 : rc.eqv m2.c = true
     · rw [if_pos e4, pure_ok] at h; cases h; simpa using h2
     rw [if_neg e4] at h
     obtain ⟨b, _, h⟩ := bind_ok.1 h
     cases b
     · rw [if_neg Bool.false_ne_true] at h
       repeat' (first
         | (split at h)
         | (obtain ⟨_, hq, h⟩ := bind_ok.1 h)
         | (rw [pure_ok] at h))
       all_goals (first | (cases h; done) | (cases h; simp; done) | (cases h; cases hq; done) | skip)
       all_goals (first
         | (cases h; simpa [Named, Leaf.name] using h1; done)
         | (cases h; simpa using hs1 _ _ hq; done)
         | skip)
       all_goals (
         cases h
         simp only [pure_ok] at hq
         cases hq
         exact cand_named N m1 h1 _ _ (by assumption) (by assumption))
     · rw [if_pos rfl] at h
       obtain ⟨s, hs, h⟩ := bind_ok.1 h
       rw [pure_ok] at h; cases h; simpa using hs1 _ _ hs)


/-! ### the python_version / python_full_version pairing -/

def PyNamed (l : Leaf) : Prop := l.name = "python_version" ∨ l.name = "python_full_version"

/-- the text `_merge_python_version_single_markers` re-parses: the merged `python_full_version` marker, renamed
to `python_version` and/or re-padded -/
def pyRewrite (ms : Single) : String :=
  let str := leafText ms.name ms.op ms.value ms.swapped
  let precision := countChar '.' str + 1
  let lt_ge := ms.op == "<" || ms.op == ">="
  if precision < 3 then
    let target := if lt_ge then 2 else 3
    let s1 := if lt_ge then strReplace str "python_full_version" "python_version" else str
    dropRight s1 1 ++ String.join (List.replicate (target - precision) ".0") ++ "\""
  else if precision == 3 && lt_ge && (dropRight str 1).endsWith ".0" then
    let s1 := strReplace str "python_full_version" "python_version"
    dropRight s1 3 ++ "\""
  else str

/-- the one fact about `_merge_python_version_single_markers` that is taken as a hypothesis: re-parsing the
rewritten text of a `python_full_version` marker gives a marker on `python_version` or `python_full_version`
(the rewriting is Python's `str.replace` on the marker text) -/
def ReparseNames : Prop :=
  ∀ (ms : Single) (r : M), ms.name = "python_full_version" → parseItemMarker (pyRewrite ms) = .ok r →
    M.Good PyNamed r

theorem pyNamed_named (N : List String) (h1 : "python_version" ∈ N) (h2 : "python_full_version" ∈ N) (r : M)
    (h : M.Good PyNamed r) : M.Good (Named N) r :=
  M.good_mono (fun l hl => by
    rcases hl with h | h
    · exact ⟨h ▸ h1, by rw [h]; decide⟩
    · exact ⟨h ▸ h2, by rw [h]; decide⟩) r h

theorem mergePythonVersion_named (HR : ReparseNames) (depth : Nat) (s1 s2 : Single) (im : Bool) (r : M)
    (hpair : (s1.name = "python_version" ∧ s2.name = "python_full_version") ∨
             (s1.name = "python_full_version" ∧ s2.name = "python_version"))
    (h : mergePythonVersion depth s1 s2 im = .ok (some r)) : M.Good PyNamed r := by
  -- which operand is the python_version marker
  obtain ⟨vm, fm, hvf, hvm, hfm, hvm12⟩ : ∃ vm fm, (if s1.name == "python_version" then (s1, s2) else (s2, s1)) = (vm, fm) ∧
      vm.name = "python_version" ∧ fm.name = "python_full_version" ∧ (vm = s1 ∨ vm = s2) := by
    rcases hpair with ⟨a, b⟩ | ⟨a, b⟩
    · exact ⟨s1, s2, by simp [a], a, b, Or.inl rfl⟩
    · exact ⟨s2, s1, by simp [a], b, a, Or.inr rfl⟩
  rw [mergePythonVersion.eq_def] at h
  dsimp only at h
  rw [hvf] at h
  dsimp only at h
  obtain ⟨nc, _, h⟩ := bind_ok.1 h
  obtain ⟨nm, hnm, h⟩ := bind_ok.1 h
  obtain ⟨merged, hmerged, h⟩ := bind_ok.1 h
  have hnmn : nm.name = "python_full_version" := by
    rw [mkSingleOfC_name _ _ _ hnm]; decide
  cases merged with
  | none => simp only [pure_ok] at h; cases h
  | some mm =>
    have hinner : M.Good (Named ["python_full_version"]) mm :=
      mergeSingle_nonpy_named ["python_full_version"] depth (.single nm) (.single fm) im mm
        (by simp [Leaf.name, hnmn, hfm]) ⟨by simp [Leaf.name, hnmn], by simp [Leaf.name, hnmn]; decide⟩
        ⟨by simp [Leaf.name, hfm], by simp [Leaf.name, hfm]; decide⟩ hmerged
    simp only at h
    by_cases hb : M.beq mm (.leaf (.single nm)) = true
    · rw [if_pos hb, pure_ok] at h
      cases h
      simp only [M.good_leaf, PyNamed, Leaf.name]
      exact Or.inl hvm
    · rw [if_neg hb] at h
      cases mm with
      | leaf l =>
        cases l with
        | single ms =>
          simp only at h
          obtain ⟨w, hw, h⟩ := bind_ok.1 h
          rw [pure_ok] at h; cases h
          have hmsn : ms.name = "python_full_version" := by
            have := hinner
            simp only [M.good_leaf, Named, Leaf.name, List.mem_singleton] at this
            exact this.1
          exact HR ms _ hmsn hw
        | amulti n c =>
          simp only [pure_ok] at h; cases h
          have := hinner
          simp only [M.good_leaf, Named, Leaf.name, List.mem_singleton] at this
          simp only [M.good_leaf, PyNamed, Leaf.name]; exact Or.inr this.1
        | aunion n c =>
          simp only [pure_ok] at h; cases h
          have := hinner
          simp only [M.good_leaf, Named, Leaf.name, List.mem_singleton] at this
          simp only [M.good_leaf, PyNamed, Leaf.name]; exact Or.inr this.1
      | any => simp only [pure_ok] at h; cases h; simp
      | empty => simp only [pure_ok] at h; cases h; simp
      | multi xs =>
        simp only [pure_ok] at h; cases h
        exact M.good_mono (fun l hl => Or.inr (by simpa [Named] using hl.1)) _ hinner
      | union xs =>
        simp only [pure_ok] at h; cases h
        exact M.good_mono (fun l hl => Or.inr (by simpa [Named] using hl.1)) _ hinner


/-- **`_merge_single_markers` mentions only the variables of its operands.** -/
theorem mergeLeaves_named (HR : ReparseNames) (N : List String) (l1 l2 : Leaf) (im : Bool) (r : M)
    (h1 : Named N l1) (h2 : Named N l2) (h : mergeLeaves l1 l2 im = .ok (some r)) : M.Good (Named N) r := by
  unfold mergeLeaves at h
  cases hp : ((l1.name == "python_version" && l2.name == "python_full_version") ||
              (l1.name == "python_full_version" && l2.name == "python_version")) with
  | false => exact mergeSingle_nonpy_named N 2 l1 l2 im r hp h1 h2 h
  | true =>
    rw [mergeSingle.eq_def] at h
    dsimp only at h
    rw [hp] at h
    rw [if_pos rfl] at h
    split at h
    · rename_i s1 s2
      have hpair : (s1.name = "python_version" ∧ s2.name = "python_full_version") ∨
             (s1.name = "python_full_version" ∧ s2.name = "python_version") := by
        simpa [Leaf.name] using hp
      have hpy := mergePythonVersion_named HR 1 s1 s2 im r hpair h
      have hin : "python_version" ∈ N ∧ "python_full_version" ∈ N := by
        rcases hpair with ⟨a, b⟩ | ⟨a, b⟩
        · exact ⟨by simpa [Leaf.name, a] using h1.1, by simpa [Leaf.name, b] using h2.1⟩
        · exact ⟨by simpa [Leaf.name, b] using h2.1, by simpa [Leaf.name, a] using h1.1⟩
      exact pyNamed_named N hin.1 hin.2 r hpy
    · cases h

/-! ### the leaf specification with names, and what the simplifier mentions -/

variable {ev : Leaf → Bool} {G : Leaf → Prop}

theorem good_and {P Q : Leaf → Prop} (m : M) (h1 : M.Good P m) (h2 : M.Good Q m) :
    M.Good (fun l => P l ∧ Q l) m := by
  have key : ∀ n : Nat, ∀ m : M, sizeOf m ≤ n → M.Good P m → M.Good Q m → M.Good (fun l => P l ∧ Q l) m := by
    intro n
    induction n with
    | zero => intro m hm; cases m <;> simp at hm
    | succ n ih =>
      intro m hm h1 h2
      cases m with
      | any => simp
      | empty => simp
      | leaf l => exact ⟨by simpa using h1, by simpa using h2⟩
      | multi ms =>
        simp only [M.good_multi] at h1 h2 ⊢
        intro x hx
        have : sizeOf x < sizeOf (M.multi ms) := by
          have := List.sizeOf_lt_of_mem hx; simp; omega
        exact ih x (by omega) (h1 x hx) (h2 x hx)
      | union ms =>
        simp only [M.good_union] at h1 h2 ⊢
        intro x hx
        have : sizeOf x < sizeOf (M.union ms) := by
          have := List.sizeOf_lt_of_mem hx; simp; omega
        exact ih x (by omega) (h1 x hx) (h2 x hx)
  exact key _ m (Nat.le_refl _) h1 h2

/-- C07's leaf specification, strengthened with the names: if it holds for `G`, it holds for "`G` and named in
`N`" -/
theorem leafSpec_named (HR : ReparseNames) (S : LeafSpec ev G) (N : List String) :
    LeafSpec ev (fun l => G l ∧ Named N l) where
  congr := fun a b ha hb h => S.congr a b ha.1 hb.1 h
  merge := fun l1 l2 im r h1 h2 h => by
    have := S.merge l1 l2 im r h1.1 h2.1 h
    exact ⟨good_and r this.1 (mergeLeaves_named HR N l1 l2 im r h1.2 h2.2 h), this.2⟩

mutual
theorem good_vars (N : List String) (m : M) (h : M.Good (fun l => G l ∧ Named N l) m) : ∀ n ∈ M.vars m, n ∈ N := by
  cases m with
  | any => simp [M.vars]
  | empty => simp [M.vars]
  | leaf l => have := (by simpa using h : G l ∧ Named N l); simpa [M.vars] using this.2.1
  | multi ms => simpa [M.vars] using good_varsList N ms (by simpa [M.Good] using h)
  | union ms => simpa [M.vars] using good_varsList N ms (by simpa [M.Good] using h)
theorem good_varsList (N : List String) (ms : List M) (h : M.GoodAll (fun l => G l ∧ Named N l) ms) :
    ∀ n ∈ M.varsList ms, n ∈ N := by
  cases ms with
  | nil => simp [M.varsList]
  | cons m ms =>
    intro n hn
    simp only [M.varsList, List.mem_append] at hn
    rcases hn with hn | hn
    · exact good_vars N m h.1 n hn
    · exact good_varsList N ms h.2 n hn
end


/-- the variable is spelt canonically (aliases resolved) -/
def Canon (l : Leaf) : Prop := aliasName l.name = l.name

/-- the leaf specification may always be taken to include canonical spelling -/
theorem leafSpec_canon (HR : ReparseNames) (S : LeafSpec ev G) : LeafSpec ev (fun l => G l ∧ Canon l) where
  congr := fun a b ha hb h => S.congr a b ha.1 hb.1 h
  merge := fun l1 l2 im r h1 h2 h => by
    have := S.merge l1 l2 im r h1.1 h2.1 h
    have hn := mergeLeaves_named HR [l1.name, l2.name] l1 l2 im r ⟨by simp, h1.2⟩ ⟨by simp, h2.2⟩ h
    exact ⟨good_and r this.1 (M.good_mono (fun l hl => hl.2) r hn), this.2⟩

mutual
theorem named_of_vars (hc : ∀ l, G l → Canon l) (N : List String) (m : M) (hg : M.Good G m)
    (hv : ∀ n ∈ M.vars m, n ∈ N) : M.Good (fun l => G l ∧ Named N l) m := by
  cases m with
  | any => simp
  | empty => simp
  | leaf l =>
    have hgl : G l := by simpa using hg
    simpa using (⟨hgl, hv l.name (by simp [M.vars]), hc l hgl⟩ : G l ∧ Named N l)
  | multi ms =>
    have := named_of_varsList hc N ms (by simpa [M.Good] using hg) (by simpa [M.vars] using hv)
    simpa [M.Good] using this
  | union ms =>
    have := named_of_varsList hc N ms (by simpa [M.Good] using hg) (by simpa [M.vars] using hv)
    simpa [M.Good] using this
theorem named_of_varsList (hc : ∀ l, G l → Canon l) (N : List String) (ms : List M) (hg : M.GoodAll G ms)
    (hv : ∀ n ∈ M.varsList ms, n ∈ N) : M.GoodAll (fun l => G l ∧ Named N l) ms := by
  cases ms with
  | nil => trivial
  | cons m ms =>
    exact ⟨named_of_vars hc N m hg.1 (fun n hn => hv n (by simp [M.varsList, hn])),
      named_of_varsList hc N ms hg.2 (fun n hn => hv n (by simp [M.varsList, hn]))⟩
end

/-! ### `only` -/

mutual
theorem only_named (HR : ReparseNames) (S : LeafSpec ev G) (hc : ∀ l, G l → Canon l) (names : List String)
    (m r : M) (hg : M.Good G m) (h : M.only names m = .ok r) :
    M.Good (fun l => G l ∧ Named names l) r := by
  cases m with
  | any => simp [M.only] at h; subst h; simp
  | empty => simp [M.only] at h; subst h; simp
  | leaf l =>
    simp [M.only] at h; subst h
    have hgl : G l := by simpa using hg
    split
    · rename_i hin
      simpa using (⟨hgl, hin, hc l hgl⟩ : G l ∧ Named names l)
    · simp
  | multi ms =>
    simp only [M.only, bind, Except.bind] at h
    split at h
    · cases h
    · rename_i xs hx
      have hl := only_namedList HR S hc names ms xs (by simpa [M.Good] using hg) hx
      exact (multiOf_sound (leafSpec_named HR S names) hl h).1
  | union ms =>
    simp only [M.only, bind, Except.bind] at h
    split at h
    · cases h
    · rename_i xs hx
      have hl := only_namedList HR S hc names ms xs (by simpa [M.Good] using hg) hx
      exact (unionOf_sound (leafSpec_named HR S names) hl h).1
theorem only_namedList (HR : ReparseNames) (S : LeafSpec ev G) (hc : ∀ l, G l → Canon l) (names : List String)
    (ms xs : List M) (hg : M.GoodAll G ms) (h : M.onlyList names ms = .ok xs) :
    M.GoodAll (fun l => G l ∧ Named names l) xs := by
  cases ms with
  | nil => simp [M.onlyList] at h; subst h; trivial
  | cons m rest =>
    simp only [M.onlyList, bind, Except.bind] at h
    split at h
    · cases h
    · rename_i x hx
      split at h
      · cases h
      · rename_i ys hys
        simp [pure, Except.pure] at h; subst h
        exact ⟨only_named HR S hc names m x hg.1 hx, only_namedList HR S hc names rest ys hg.2 hys⟩
end

/-- **`only` mentions only the requested variables** -/
theorem only_mentions_thm (HR : ReparseNames) (S : LeafSpec ev G) (hc : ∀ l, G l → Canon l) (names : List String)
    (m r : M) (hg : M.Good G m) (h : M.only names m = .ok r) : ∀ n ∈ M.vars r, n ∈ names :=
  good_vars names r (only_named HR S hc names m r hg h)

/-- the simplifier's entry points mention no variable their operands do not mention -/
theorem of_vars (HR : ReparseNames) (S : LeafSpec ev G) (hc : ∀ l, G l → Canon l) (fuel : Nat) (stk : Stack)
    (ms : List M) (r : M) (hg : M.GoodAll G ms) :
    (multiOf fuel stk ms = .ok r → ∀ n ∈ M.vars r, n ∈ M.varsList ms) ∧
    (unionOf fuel stk ms = .ok r → ∀ n ∈ M.vars r, n ∈ M.varsList ms) := by
  have hn := named_of_varsList hc (M.varsList ms) ms hg (fun n hn => hn)
  exact ⟨fun h => good_vars _ r (multiOf_sound (leafSpec_named HR S _) hn h).1,
    fun h => good_vars _ r (unionOf_sound (leafSpec_named HR S _) hn h).1⟩

theorem dnf_vars (HR : ReparseNames) (S : LeafSpec ev G) (hc : ∀ l, G l → Canon l) (fuel : Nat) (stk : Stack)
    (m d : M) (hg : M.Good G m) (h : dnf fuel stk m = .ok d) : ∀ n ∈ M.vars d, n ∈ M.vars m :=
  good_vars _ d (dnf_sound (leafSpec_named HR S _) (named_of_vars hc (M.vars m) m hg (fun n hn => hn)) h).1

end Poetry.Marker
