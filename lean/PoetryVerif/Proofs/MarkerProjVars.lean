/-
The simplifier mentions no variable its operands do not mention (helper lemmas for C17 `only_mentions`,
C11 `pyConstraint_exact`): the variable name of every leaf a successful `_merge_single_markers` returns is the
name of an operand (for the python_version / python_full_version pairing: one of the two), and this is carried
through `MultiMarker.of`, `MarkerUnion.of`, `intersect`, `union`, `cnf`, `dnf` by C07's soundness induction,
instantiated with the leaf invariant "satisfies `G` and is named in `N`".
-/
import PoetryVerif.Proofs.MarkerProjReparse

set_option linter.unusedSimpArgs false
set_option linter.unusedVariables false

namespace Poetry.Marker
open Poetry

theorem pyNamed_named (N : List String) (h1 : "python_version" ∈ N) (h2 : "python_full_version" ∈ N) (r : M)
    (h : M.Good PyNamed r) : M.Good (Named N) r :=
  M.good_mono (fun l hl => by
    rcases hl with h | h
    · exact ⟨h ▸ h1, by rw [h]; decide⟩
    · exact ⟨h ▸ h2, by rw [h]; decide⟩) r h

theorem mergePythonVersion_named (depth : Nat) (s1 s2 : Single) (im : Bool) (r : M)
    (hpair : (s1.name = "python_version" ∧ s2.name = "python_full_version") ∨
             (s1.name = "python_full_version" ∧ s2.name = "python_version"))
    (h : mergePythonVersion depth s1 s2 im = .ok (some r)) : M.Good PyNamed r := by
  -- which operand is the python_version marker
  obtain ⟨vm, fm, hvf, hvm, hfm, hvm12⟩ : ∃ vm fm, (if s1.name == "python_version" then (s1, s2) else (s2, s1)) = (vm, fm) ∧
      vm.name = "python_version" ∧ fm.name = "python_full_version" ∧ (vm = s1 ∨ vm = s2) := by
    rcases hpair with ⟨a, b⟩ | ⟨a, b⟩
    · exact ⟨s1, s2, by simp [a], a, b, Or.inl rfl⟩
    · exact ⟨s2, s1, by simp [a], b, a, Or.inr rfl⟩
  rw [mergePythonVersion.eq_def] at h
  dsimp only at h
  rw [hvf] at h
  dsimp only at h
  obtain ⟨nc, _, h⟩ := bind_ok.1 h
  obtain ⟨nm, hnm, h⟩ := bind_ok.1 h
  obtain ⟨merged, hmerged, h⟩ := bind_ok.1 h
  have hnmn : nm.name = "python_full_version" := by
    rw [mkSingleOfC_name _ _ _ hnm]; decide
  cases merged with
  | none => simp only [pure_ok] at h; cases h
  | some mm =>
    have hinner : M.Good (Named ["python_full_version"]) mm :=
      mergeSingle_nonpy_named ["python_full_version"] depth (.single nm) (.single fm) im mm
        (by simp [Leaf.name, hnmn, hfm]) ⟨by simp [Leaf.name, hnmn], by simp [Leaf.name, hnmn]; decide⟩
        ⟨by simp [Leaf.name, hfm], by simp [Leaf.name, hfm]; decide⟩ hmerged
    simp only at h
    by_cases hb : M.beq mm (.leaf (.single nm)) = true
    · rw [if_pos hb, pure_ok] at h
      cases h
      simp only [M.good_leaf, PyNamed, Leaf.name]
      exact Or.inl hvm
    · rw [if_neg hb] at h
      cases mm with
      | leaf l =>
        cases l with
        | single ms =>
          simp only at h
          have hmsn : ms.name = "python_full_version" := by
            have := hinner
            simp only [M.good_leaf, Named, Leaf.name, List.mem_singleton] at this
            exact this.1
          by_cases hop : (ms.op == "in" || ms.op == "not in") = true
          · rw [if_pos hop, pure_ok] at h; cases h
            simp only [M.good_leaf, PyNamed, Leaf.name]; exact Or.inr hmsn
          · rw [if_neg hop] at h
            obtain ⟨w, hw, h⟩ := bind_ok.1 h
            rw [pure_ok] at h; cases h
            exact reparseNames_holds ms _ hmsn hw
        | amulti n c =>
          simp only [pure_ok] at h; cases h
          have := hinner
          simp only [M.good_leaf, Named, Leaf.name, List.mem_singleton] at this
          simp only [M.good_leaf, PyNamed, Leaf.name]; exact Or.inr this.1
        | aunion n c =>
          simp only [pure_ok] at h; cases h
          have := hinner
          simp only [M.good_leaf, Named, Leaf.name, List.mem_singleton] at this
          simp only [M.good_leaf, PyNamed, Leaf.name]; exact Or.inr this.1
      | any => simp only [pure_ok] at h; cases h; simp
      | empty => simp only [pure_ok] at h; cases h; simp
      | multi xs =>
        simp only [pure_ok] at h; cases h
        exact M.good_mono (fun l hl => Or.inr (by simpa [Named] using hl.1)) _ hinner
      | union xs =>
        simp only [pure_ok] at h; cases h
        exact M.good_mono (fun l hl => Or.inr (by simpa [Named] using hl.1)) _ hinner


/-- **`_merge_single_markers` mentions only the variables of its operands.** -/
theorem mergeLeaves_named (N : List String) (l1 l2 : Leaf) (im : Bool) (r : M)
    (h1 : Named N l1) (h2 : Named N l2) (h : mergeLeaves l1 l2 im = .ok (some r)) : M.Good (Named N) r := by
  unfold mergeLeaves at h
  cases hp : ((l1.name == "python_version" && l2.name == "python_full_version") ||
              (l1.name == "python_full_version" && l2.name == "python_version")) with
  | false => exact mergeSingle_nonpy_named N 2 l1 l2 im r hp h1 h2 h
  | true =>
    rw [mergeSingle.eq_def] at h
    dsimp only at h
    rw [hp] at h
    rw [if_pos rfl] at h
    split at h
    · rename_i s1 s2
      have hpair : (s1.name = "python_version" ∧ s2.name = "python_full_version") ∨
             (s1.name = "python_full_version" ∧ s2.name = "python_version") := by
        simpa [Leaf.name] using hp
      have hpy := mergePythonVersion_named 1 s1 s2 im r hpair h
      have hin : "python_version" ∈ N ∧ "python_full_version" ∈ N := by
        rcases hpair with ⟨a, b⟩ | ⟨a, b⟩
        · exact ⟨by simpa [Leaf.name, a] using h1.1, by simpa [Leaf.name, b] using h2.1⟩
        · exact ⟨by simpa [Leaf.name, b] using h2.1, by simpa [Leaf.name, a] using h1.1⟩
      exact pyNamed_named N hin.1 hin.2 r hpy
    · cases h

/-! ### the leaf specification with names, and what the simplifier mentions -/

variable {ev : Leaf → Bool} {G : Leaf → Prop}

theorem good_and {P Q : Leaf → Prop} (m : M) (h1 : M.Good P m) (h2 : M.Good Q m) :
    M.Good (fun l => P l ∧ Q l) m := by
  have key : ∀ n : Nat, ∀ m : M, sizeOf m ≤ n → M.Good P m → M.Good Q m → M.Good (fun l => P l ∧ Q l) m := by
    intro n
    induction n with
    | zero => intro m hm; cases m <;> simp at hm
    | succ n ih =>
      intro m hm h1 h2
      cases m with
      | any => simp
      | empty => simp
      | leaf l => exact ⟨by simpa using h1, by simpa using h2⟩
      | multi ms =>
        simp only [M.good_multi] at h1 h2 ⊢
        intro x hx
        have : sizeOf x < sizeOf (M.multi ms) := by
          have := List.sizeOf_lt_of_mem hx; simp; omega
        exact ih x (by omega) (h1 x hx) (h2 x hx)
      | union ms =>
        simp only [M.good_union] at h1 h2 ⊢
        intro x hx
        have : sizeOf x < sizeOf (M.union ms) := by
          have := List.sizeOf_lt_of_mem hx; simp; omega
        exact ih x (by omega) (h1 x hx) (h2 x hx)
  exact key _ m (Nat.le_refl _) h1 h2

/-- C07's leaf specification, strengthened with the names: if it holds for `G`, it holds for "`G` and named in
`N`" -/
theorem leafSpec_named (S : LeafSpec ev G) (N : List String) :
    LeafSpec ev (fun l => G l ∧ Named N l) where
  congr := fun a b ha hb h => S.congr a b ha.1 hb.1 h
  merge := fun l1 l2 im r h1 h2 h => by
    have := S.merge l1 l2 im r h1.1 h2.1 h
    exact ⟨good_and r this.1 (mergeLeaves_named N l1 l2 im r h1.2 h2.2 h), this.2⟩

mutual
theorem good_vars (N : List String) (m : M) (h : M.Good (fun l => G l ∧ Named N l) m) : ∀ n ∈ M.vars m, n ∈ N := by
  cases m with
  | any => simp [M.vars]
  | empty => simp [M.vars]
  | leaf l => have := (by simpa using h : G l ∧ Named N l); simpa [M.vars] using this.2.1
  | multi ms => simpa [M.vars] using good_varsList N ms (by simpa [M.Good] using h)
  | union ms => simpa [M.vars] using good_varsList N ms (by simpa [M.Good] using h)
theorem good_varsList (N : List String) (ms : List M) (h : M.GoodAll (fun l => G l ∧ Named N l) ms) :
    ∀ n ∈ M.varsList ms, n ∈ N := by
  cases ms with
  | nil => simp [M.varsList]
  | cons m ms =>
    intro n hn
    simp only [M.varsList, List.mem_append] at hn
    rcases hn with hn | hn
    · exact good_vars N m h.1 n hn
    · exact good_varsList N ms h.2 n hn
end


/-- the variable is spelt canonically (aliases resolved) -/
def Canon (l : Leaf) : Prop := aliasName l.name = l.name

/-- the leaf specification may always be taken to include canonical spelling -/
theorem leafSpec_canon (S : LeafSpec ev G) : LeafSpec ev (fun l => G l ∧ Canon l) where
  congr := fun a b ha hb h => S.congr a b ha.1 hb.1 h
  merge := fun l1 l2 im r h1 h2 h => by
    have := S.merge l1 l2 im r h1.1 h2.1 h
    have hn := mergeLeaves_named [l1.name, l2.name] l1 l2 im r ⟨by simp, h1.2⟩ ⟨by simp, h2.2⟩ h
    exact ⟨good_and r this.1 (M.good_mono (fun l hl => hl.2) r hn), this.2⟩

mutual
theorem named_of_vars (hc : ∀ l, G l → Canon l) (N : List String) (m : M) (hg : M.Good G m)
    (hv : ∀ n ∈ M.vars m, n ∈ N) : M.Good (fun l => G l ∧ Named N l) m := by
  cases m with
  | any => simp
  | empty => simp
  | leaf l =>
    have hgl : G l := by simpa using hg
    simpa using (⟨hgl, hv l.name (by simp [M.vars]), hc l hgl⟩ : G l ∧ Named N l)
  | multi ms =>
    have := named_of_varsList hc N ms (by simpa [M.Good] using hg) (by simpa [M.vars] using hv)
    simpa [M.Good] using this
  | union ms =>
    have := named_of_varsList hc N ms (by simpa [M.Good] using hg) (by simpa [M.vars] using hv)
    simpa [M.Good] using this
theorem named_of_varsList (hc : ∀ l, G l → Canon l) (N : List String) (ms : List M) (hg : M.GoodAll G ms)
    (hv : ∀ n ∈ M.varsList ms, n ∈ N) : M.GoodAll (fun l => G l ∧ Named N l) ms := by
  cases ms with
  | nil => trivial
  | cons m ms =>
    exact ⟨named_of_vars hc N m hg.1 (fun n hn => hv n (by simp [M.varsList, hn])),
      named_of_varsList hc N ms hg.2 (fun n hn => hv n (by simp [M.varsList, hn]))⟩
end

/-! ### `only` -/

mutual
theorem only_named (S : LeafSpec ev G) (hc : ∀ l, G l → Canon l) (names : List String)
    (m r : M) (hg : M.Good G m) (h : M.only names m = .ok r) :
    M.Good (fun l => G l ∧ Named names l) r := by
  cases m with
  | any => simp [M.only] at h; subst h; simp
  | empty => simp [M.only] at h; subst h; simp
  | leaf l =>
    simp [M.only] at h; subst h
    have hgl : G l := by simpa using hg
    split
    · rename_i hin
      simpa using (⟨hgl, hin, hc l hgl⟩ : G l ∧ Named names l)
    · simp
  | multi ms =>
    simp only [M.only, bind, Except.bind] at h
    split at h
    · cases h
    · rename_i xs hx
      have hl := only_namedList S hc names ms xs (by simpa [M.Good] using hg) hx
      exact (multiOf_sound (leafSpec_named S names) hl h).1
  | union ms =>
    simp only [M.only, bind, Except.bind] at h
    split at h
    · cases h
    · rename_i xs hx
      have hl := only_namedList S hc names ms xs (by simpa [M.Good] using hg) hx
      exact (unionOf_sound (leafSpec_named S names) hl h).1
theorem only_namedList (S : LeafSpec ev G) (hc : ∀ l, G l → Canon l) (names : List String)
    (ms xs : List M) (hg : M.GoodAll G ms) (h : M.onlyList names ms = .ok xs) :
    M.GoodAll (fun l => G l ∧ Named names l) xs := by
  cases ms with
  | nil => simp [M.onlyList] at h; subst h; trivial
  | cons m rest =>
    simp only [M.onlyList, bind, Except.bind] at h
    split at h
    · cases h
    · rename_i x hx
      split at h
      · cases h
      · rename_i ys hys
        simp [pure, Except.pure] at h; subst h
        exact ⟨only_named S hc names m x hg.1 hx, only_namedList S hc names rest ys hg.2 hys⟩
end

/-- **`only` mentions only the requested variables** -/
theorem only_mentions_thm (S : LeafSpec ev G) (hc : ∀ l, G l → Canon l) (names : List String)
    (m r : M) (hg : M.Good G m) (h : M.only names m = .ok r) : ∀ n ∈ M.vars r, n ∈ names :=
  good_vars names r (only_named S hc names m r hg h)

/-- the simplifier's entry points mention no variable their operands do not mention -/
theorem of_vars (S : LeafSpec ev G) (hc : ∀ l, G l → Canon l) (fuel : Nat) (stk : Stack)
    (ms : List M) (r : M) (hg : M.GoodAll G ms) :
    (multiOf fuel stk ms = .ok r → ∀ n ∈ M.vars r, n ∈ M.varsList ms) ∧
    (unionOf fuel stk ms = .ok r → ∀ n ∈ M.vars r, n ∈ M.varsList ms) := by
  have hn := named_of_varsList hc (M.varsList ms) ms hg (fun n hn => hn)
  exact ⟨fun h => good_vars _ r (multiOf_sound (leafSpec_named S _) hn h).1,
    fun h => good_vars _ r (unionOf_sound (leafSpec_named S _) hn h).1⟩

theorem dnf_vars (S : LeafSpec ev G) (hc : ∀ l, G l → Canon l) (fuel : Nat) (stk : Stack)
    (m d : M) (hg : M.Good G m) (h : dnf fuel stk m = .ok d) : ∀ n ∈ M.vars d, n ∈ M.vars m :=
  good_vars _ d (dnf_sound (leafSpec_named S _) (named_of_vars hc (M.vars m) m hg (fun n hn => hn)) h).1

end Poetry.Marker
