/-
`SplitSound` holds (C11): the hypothesis of `pyConstraint_upper` / `pyConstraint_exact` about the constraint parser on
texts of several clauses, proved from Proofs/PyConvSplitSem.lean.
-/
import PoetryVerif.Proofs.PyConvSplitSem
import PoetryVerif.Proofs.PyConvGpc

set_option linter.unusedSimpArgs false
set_option linter.unusedVariables false

namespace Poetry.Marker
open Poetry Poetry.VParser

theorem spJoin_toList : ∀ (g : List String), (joinWith " " g).toList = spJoin (g.map String.toList)
  | [] => rfl
  | [a] => by simp [joinWith, spJoin]
  | a :: b :: r => by
    have := spJoin_toList (b :: r)
    simp only [joinWith, String.toList_append, List.map_cons, spJoin] at this ⊢
    rw [this]; simp

theorem orJoin_toList : ∀ (gs : List String), (joinWith " || " gs).toList = orJoin (gs.map String.toList)
  | [] => rfl
  | [a] => by simp [joinWith, orJoin]
  | a :: b :: r => by
    have := orJoin_toList (b :: r)
    simp only [joinWith, String.toList_append, List.map_cons, orJoin] at this ⊢
    rw [this]; simp

/-- choose the parsed clause of every item of one group -/
theorem choose_items (g : List String) (h : ∀ it ∈ g, ItemShape it) :
    ∃ ivs : List (List Char × VC), ivs.map (·.1) = g.map String.toList ∧
      ∀ q ∈ ivs, ItemOK q.1 ∧ q.1 ≠ ['*'] ∧ parseSingle q.1 true = .ok q.2 ∧ PyVCok q.2 := by
  induction g with
  | nil => exact ⟨[], rfl, by simp⟩
  | cons it rest ih =>
    obtain ⟨hok, hstar, vc, hp, hvc⟩ := h it (by simp)
    obtain ⟨ivs, h1, h2⟩ := ih (fun x hx => h x (by simp [hx]))
    refine ⟨(it.toList, vc) :: ivs, by simp [h1], ?_⟩
    intro q hq
    rcases List.mem_cons.1 hq with rfl | hq
    · exact ⟨hok, hstar, hp, hvc⟩
    · exact h2 q hq

theorem choose_groups_vc (gs : List (List String)) (hnn : ∀ g ∈ gs, g ≠ []) (h : ∀ g ∈ gs, ∀ it ∈ g, ItemShape it) :
    ∃ gvs : List Grp, gvs.map Grp.chars = gs.map (fun g => spJoin (g.map String.toList)) ∧
      gvs.map (fun g => g.items.map (·.1)) = gs.map (fun g => g.map String.toList) ∧
      ∀ g ∈ gvs, ∀ q ∈ g.items, ItemOK q.1 ∧ q.1 ≠ ['*'] ∧ parseSingle q.1 true = .ok q.2 ∧ PyVCok q.2 := by
  induction gs with
  | nil => exact ⟨[], rfl, rfl, by simp⟩
  | cons g rest ih =>
    obtain ⟨ivs, h1, h2⟩ := choose_items g (h g (by simp))
    obtain ⟨gvs, k1, k2, k3⟩ := ih (fun x hx => hnn x (by simp [hx])) (fun x hx => h x (by simp [hx]))
    cases ivs with
    | nil =>
      have : g = [] := by simpa using h1.symm
      exact absurd this (hnn g (by simp))
    | cons iv ivs =>
      refine ⟨(iv, ivs) :: gvs, ?_, ?_, ?_⟩
      · simp only [List.map_cons, k1]
        congr 1
        simp only [Grp.chars, Grp.items]
        rw [← h1]
      · simp only [List.map_cons, k2]
        congr 1
      · intro g' hg' q hq
        rcases List.mem_cons.1 hg' with rfl | hg'
        · exact h2 q hq
        · exact k3 g' hg' q hq

/-- the reference of one clause through its own parse -/
theorem clauseMeans_item {it : String} {X Y Z : Nat} {b : Bool} {vc : VC} (hok : ItemOK it.toList)
    (hstar : it.toList ≠ ['*']) (hp : parseSingle it.toList true = .ok vc) (hm : ClauseMeans it X Y Z b) :
    vc.allowsPlain (pyV X Y Z) = b := by
  obtain ⟨vc', hvc', hb⟩ := hm
  have hne : it ≠ "*" := by intro e; apply hstar; rw [e]; rfl
  rw [parseMarkerVersionConstraint, parseConstraintAux_single it true hok.nosep hne, hp] at hvc'
  injection hvc' with hvc'; subst hvc'; exact hb

/-- **`SplitSound` holds.** -/
theorem splitSound_holds (X Y Z : Nat) : SplitSound X Y Z := by
  intro gs hne hnn hall
  obtain ⟨gvs, k1, k2, k3⟩ := choose_groups_vc gs hnn (fun g hg it hit => (hall g hg it hit).1)
  -- the common bound set
  let B : List Version := gvs.flatMap (fun g => g.items.flatMap (fun q => q.2.flatten.flatMap RC.bounds))
  have hpb : ∀ e ∈ B, PyBound e = true := by
    intro e he
    simp only [B, List.mem_flatMap] at he
    obtain ⟨g, hg, q, hq, c, hc, hec⟩ := he
    exact ((k3 g hg q hq).2.2.2.2 c hc).2.2.2 e hec
  have hreg : ∀ g ∈ gvs, ∀ q ∈ g.items, ItemOK q.1 ∧ parseSingle q.1 true = .ok q.2 ∧ RegVC B q.2 := by
    intro g hg q hq
    obtain ⟨a, _, b, c⟩ := k3 g hg q hq
    refine ⟨a, b, regVC_of_ok c ?_⟩
    intro m hm e he
    simp only [B, List.mem_flatMap]
    exact ⟨g, hg, q, hq, m, hm, he⟩
  have hgne : gvs ≠ [] := by
    intro e; rw [e] at k1
    have := congrArg List.length k1; simp at this
    exact hne (List.length_eq_zero_iff.1 this.symm)
  have hs : (joinWith " || " (gs.map (joinWith " "))).toList = orJoin (gvs.map Grp.chars) := by
    rw [orJoin_toList, k1, List.map_map]
    congr 1
    apply List.map_congr_left
    intro g _
    exact spJoin_toList g
  obtain ⟨res, hres, _, hal, _⟩ := parse_groups hpb X Y Z gvs hgne hreg
    (fun g hg q hq => (k3 g hg q hq).2.1) _ hs
  -- truth of the items through their own parses
  have hitem : ∀ g ∈ gvs, ∀ q ∈ g.items, ∀ b, ClauseMeans (String.ofList q.1) X Y Z b →
      q.2.allowsPlain (pyV X Y Z) = b := by
    intro g hg q hq b hm
    obtain ⟨a, hst, hp, _⟩ := k3 g hg q hq
    exact clauseMeans_item (it := String.ofList q.1) (by simpa using a) (by simpa using hst) (by simpa using hp) hm
  constructor
  · rintro ⟨g, hg, htrue⟩
    refine ⟨res, hres, ?_⟩
    rw [hal, List.any_eq_true]
    -- locate the group in `gvs`
    have hmem : g.map String.toList ∈ gvs.map (fun g => g.items.map (·.1)) := by
      rw [k2]; exact List.mem_map.2 ⟨g, hg, rfl⟩
    obtain ⟨gv, hgv, hgve⟩ := List.mem_map.1 hmem
    refine ⟨gv, hgv, ?_⟩
    rw [List.all_eq_true]
    intro q hq
    have hq1 : q.1 ∈ g.map String.toList := by rw [← hgve]; exact List.mem_map.2 ⟨q, hq, rfl⟩
    obtain ⟨it, hit, hite⟩ := List.mem_map.1 hq1
    have := htrue it hit
    exact hitem gv hgv q hq true (by rw [← hite, String.ofList_toList]; exact this)
  · intro hfalse
    refine ⟨res, hres, ?_⟩
    rw [hal]
    apply Bool.eq_false_iff.2
    intro hany
    rw [List.any_eq_true] at hany
    obtain ⟨gv, hgv, hall'⟩ := hany
    rw [List.all_eq_true] at hall'
    have hmem : gv.items.map (·.1) ∈ gs.map (fun g => g.map String.toList) := by
      rw [← k2]; exact List.mem_map.2 ⟨gv, hgv, rfl⟩
    obtain ⟨g, hg, hge⟩ := List.mem_map.1 hmem
    obtain ⟨it, hit, hf⟩ := hfalse g hg
    have hit1 : it.toList ∈ gv.items.map (·.1) := by rw [← hge]; exact List.mem_map.2 ⟨it, hit, rfl⟩
    obtain ⟨q, hq, hqe⟩ := List.mem_map.1 hit1
    have h1 := hitem gv hgv q hq false (by rw [hqe, String.ofList_toList]; exact hf)
    have h2 := hall' q hq
    rw [h1] at h2; cases h2

end Poetry.Marker
