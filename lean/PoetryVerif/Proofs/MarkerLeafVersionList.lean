/-
`in` lists on the version variables (helper lemmas for C06): `python_version in "X0.Y0 X1.Y1 …"` is rewritten to
`X0.Y0.* || X1.Y1.* || …`, parsed to a `VersionUnion.of` of half-open ranges; `allows` on that union is total
and the plain disjunction (through `unionOfFlat_rng` / `union_allows_total` of the C05 development); on a
two-component final environment value it is token equality.
-/
import PoetryVerif.Proofs.MarkerLeafCompat
import PoetryVerif.Proofs.MarkerLeafString
import PoetryVerif.Proofs.VRangeInv
import PoetryVerif.Proofs.VRangeSep
import PoetryVerif.Proofs.VRangeSepV

set_option linter.unusedSimpArgs false
set_option linter.unusedVariables false
set_option linter.unnecessarySeqFocus false

namespace Poetry.Marker
open Poetry
open Version

/-! ### unions of half-open ranges between final releases -/

/-- final release in the sense of the reference (`Spec.Pep508.isFinal`) and well-formed -/
def FinalV (v : Version) : Prop := Spec.Pep508.isFinal v = true ∧ v.wf = true

theorem FinalV.isFinal' {v : Version} (h : FinalV v) : v.isFinal = true := by
  obtain ⟨_, a2, a3, a4, a5⟩ := pep508_final_parts h.1
  simp [Version.isFinal, a2, a3, a4, a5]

theorem FinalV.notLocal {v : Version} (h : FinalV v) : v.isLocal = false := by
  simp [Version.isLocal, (pep508_final_parts h.1).2.2.2.2]

/-- for a final probe, `< H.dev0` is `< H` -/
theorem lt_firstDev_final {v H : Version} (hv : FinalV v) (hH : FinalV H) :
    vk v < vk H.firstDevrelease ↔ vk v < vk H := by
  have hst : H.isUnstable = false := isUnstable_of_final hH.isFinal'
  constructor
  · intro h; exact lt_trans h (firstDev_lt hst)
  · intro h
    by_cases hr : relKey v = relKey H
    · rcases reg1_of_final hv.1 hH.1 with he | hne
      · rw [he] at h; exact absurd h (lt_irrefl _)
      · exact absurd hr hne
    · have hk : relKey H.firstDevrelease = relKey H := by simp [relKey, firstDevrelease, mk']
      exact (lt_congr_right hk (by rw [hk]; exact fun e => hr e.symm)).2 h

theorem halfOpen_member {V H : Version} (hV : FinalV V) (hH : FinalV H) (hlt : vk V < vk H) :
    RngMember (.rng (VRange.halfOpen V H)) := by
  have hA := VRange.halfOpen_allowedMax (V := V) hH.isFinal' (ne_of_lt hlt)
  refine ⟨⟨?_, ?_⟩, ⟨?_, ?_⟩, ?_, ⟨_, rfl⟩⟩
  · intro e he
    simp [VRange.bounds, VRange.halfOpen] at he
    rcases he with rfl | rfl
    · exact hV.2
    · exact hH.2
  · intro m M hm hM
    simp [VRange.halfOpen] at hm hM
    subst hm; subst hM; exact hlt
  · intro h; simp [VRange.halfOpen] at h
  · intro h; simp [VRange.halfOpen] at h
  · show VRange.isStrictlyLower _ _ = false
    have hVd : vk V < vk H.firstDevrelease := (lt_firstDev_final hV hH).2 hlt
    unfold VRange.isStrictlyLower
    rw [hA]
    simp only [VRange.allowedMin, VRange.halfOpen]
    have h1 : Version.lt H.firstDevrelease V = false := by rw [lt_false_iff]; exact le_of_lt hVd
    have h2 : Version.gt H.firstDevrelease V = true := by rw [gt_iff]; exact hVd
    simp [h1, h2]

/-- membership in `[V, H)` for a final probe -/
theorem halfOpen_allows_final {V H v : Version} (hV : FinalV V) (hH : FinalV H) (hlt : vk V < vk H) (hv : FinalV v) :
    (VRange.halfOpen V H).allows v = true ↔ vk V ≤ vk v ∧ vk v < vk H := by
  rw [halfOpen_allows_iff V H v hV.2 hH.2 hH.isFinal' hlt hv.2 (reg1_of_final hv.1 hV.1),
    lt_firstDev_final hv hH]

theorem finals_mutreg (B : List Version) (h : ∀ e ∈ B, FinalV e) : MutReg B :=
  fun x hx y hy => reg1_of_final (h x hx).1 (h y hy).1

theorem finals_nolocal (B : List Version) (h : ∀ e ∈ B, FinalV e) : NoLocal B :=
  fun e he => (h e he).notLocal

theorem finals_regular (B : List Version) (h : ∀ e ∈ B, FinalV e) (v : Version) (hv : FinalV v) : Regular B v := by
  intro e he
  rcases reg1_of_final hv.1 (h e he).1 with h1 | h1
  · exact Or.inl ((vk_eq_iff _ _).1 h1)
  · exact Or.inr h1

/-- **`allows` on the `VersionUnion.of` of range members over final bounds**: total, and the plain
disjunction, for every final probe -/
theorem unionOf_ranges_allows (l : List RC) (hm : ∀ c ∈ l, RngMember c) (hb : ∀ e ∈ boundsOf l, FinalV e)
    (v : Version) (hv : FinalV v) :
    ∃ res, unionOfFlat l = .ok res ∧ res.allows v = .ok (anyAllows l v) := by
  obtain ⟨res, hres, hwf, hmem⟩ := unionOfFlat_rng l hm
  obtain ⟨hgood, hbounds, _⟩ := unionOfFlat_sem l res hres (fun c hc => ⟨(hm c hc).1, (hm c hc).2.1⟩)
  have hp := hmem v hv.2 (finals_regular _ hb v hv)
  refine ⟨res, hres, ?_⟩
  rw [← hp]
  cases res with
  | empty => rfl
  | single c => simp [VC.allows, VC.allowsPlain, VC.flatten]
  | union rs =>
    have hb' : ∀ e ∈ boundsOf rs, FinalV e := by
      intro e he
      apply hb e (hbounds e _)
      rw [VC.bounds_eq_flatMap]; exact he
    have hok : UnionOK rs := by
      refine ⟨?_, hwf.2.2.1, finals_mutreg _ hb'⟩
      intro c hc
      exact ⟨(hwf.2.1 c hc).1, (hgood c hc).2, (hwf.2.1 c hc).2⟩
    rw [union_allows_total rs hok (finals_nolocal _ hb') v]
    simp [VC.allowsPlain, VC.flatten]

theorem litV_FinalV (x : Nat) (r : List Nat) : FinalV (litV x r) := ⟨litV_final x r, litV_wf x r⟩

theorem vk_le_final {a b : Version} (ha : FinalV a) (hb : FinalV b) :
    vk a ≤ vk b ↔ sc a.release b.release ≠ .gt := by
  rw [vk_le_iff, cmp_eq_cmpRef a b ha.2 hb.2, cmpRef_final ha.1 hb.1]

theorem vk_lt_final {a b : Version} (ha : FinalV a) (hb : FinalV b) :
    vk a < vk b ↔ sc a.release b.release = .lt := by
  rw [vk_lt_iff, cmp_eq_cmpRef a b ha.2 hb.2, cmpRef_final ha.1 hb.1]

/-- the exclusive upper end of `X.Y.*` in marker mode: `X.(Y+1)` -/
def H2 (x y : Nat) : Version := Version.mk' 0 [x, y + 1] none none none none

theorem H2_FinalV (x y : Nat) : FinalV (H2 x y) := by
  constructor
  · simp [Spec.Pep508.isFinal, H2, mk']
  · exact wf_final 0 _ (by simp)

theorem litV_nextStable (x y : Nat) : (litV x [y]).nextStable = H2 x y := by
  simp [nextStable, isStable, isUnstable, isPrerelease, isDevrelease, litV, relVersion, relNext, relNextMinor,
    zeros, H2]

theorem litV_lt_H2 (x y : Nat) : vk (litV x [y]) < vk (H2 x y) := by
  rw [vk_lt_final (litV_FinalV x [y]) (H2_FinalV x y)]
  show sc [x, y] [x, y + 1] = .lt
  rw [sc_cons]; exact sc_lt_head (Nat.lt_succ_self y) _ _

/-- the range `X.Y.*` denotes in a marker constraint -/
def starR (p : Nat × Nat) : RC := .rng (VRange.halfOpen (litV p.1 [p.2]) (H2 p.1 p.2))

theorem sc_nil_nil : sc [] [] = .eq := by simp [sc, stripZeros, List.compare_nil_nil]

theorem sc_pair_eq (x y x' y' : Nat) : sc [x', y'] [x, y] = .eq ↔ x' = x ∧ y' = y := by
  rcases Nat.lt_trichotomy x' x with h | h | h
  · rw [sc_lt_head h]; simp; omega
  · subst h
    rw [sc_cons]
    rcases Nat.lt_trichotomy y' y with h | h | h
    · rw [sc_lt_head h]; simp; omega
    · subst h; rw [sc_cons, sc_nil_nil]; simp
    · rw [sc_gt_head h]; simp; omega
  · rw [sc_gt_head h]; simp; omega

theorem sc_self (a : List Nat) : sc a a = .eq := by
  unfold sc; exact Std.ReflCmp.compare_self

open Spec.Pep508 in
/-- a two-component final candidate lies in `X.Y.*` exactly when it is `X.Y` -/
theorem starR_allows (p : Nat × Nat) (x' y' : Nat) :
    (starR p).allows (litV x' [y']) = decide (x' = p.1 ∧ y' = p.2) := by
  obtain ⟨x, y⟩ := p
  apply bool_eq_of_iff
  simp only [starR, RC.allows, decide_eq_true_eq]
  rw [halfOpen_allows_final (litV_FinalV x [y]) (H2_FinalV x y) (litV_lt_H2 x y) (litV_FinalV x' [y']),
    vk_le_final (litV_FinalV x [y]) (litV_FinalV x' [y']), vk_lt_final (litV_FinalV x' [y']) (H2_FinalV x y)]
  show sc [x, y] [x', y'] ≠ .gt ∧ sc [x', y'] [x, y + 1] = .lt ↔ x' = x ∧ y' = y
  have hpad : sc ([x, y] ++ [0]) [x', y'] = sc [x, y] [x', y'] := by
    unfold sc; rw [stripZeros_append_zero]
  have hpm : prefixMatch [x, y] [x', y'] = true ↔ x' = x ∧ y' = y := by
    simp [prefixMatch_cons_cons, prefixMatch_nil]
  constructor
  · rintro ⟨h1, h2⟩
    have key := compat_prefix [x, y] (by simp) 0 [x', y'] (by rw [hpad]; exact h1)
    exact hpm.1 (key.1 (by simpa [incrLast] using h2))
  · rintro ⟨rfl, rfl⟩
    have h1 : sc [x', y'] [x', y'] ≠ .gt := by rw [sc_self]; simp
    have key := compat_prefix [x', y'] (by simp) 0 [x', y'] (by rw [hpad]; exact h1)
    exact ⟨h1, by simpa [incrLast] using key.2 (hpm.2 ⟨rfl, rfl⟩)⟩

theorem starR_member (p : Nat × Nat) : RngMember (starR p) :=
  halfOpen_member (litV_FinalV p.1 [p.2]) (H2_FinalV p.1 p.2) (litV_lt_H2 p.1 p.2)

theorem starR_bounds (ps : List (Nat × Nat)) : ∀ e ∈ boundsOf (ps.map starR), FinalV e := by
  intro e he
  simp only [boundsOf, List.mem_flatMap, List.mem_map] at he
  obtain ⟨c, ⟨p, _, rfl⟩, hec⟩ := he
  simp [starR, RC.bounds, RC.view, RC.min, RC.max, VRange.bounds, VRange.halfOpen] at hec
  rcases hec with rfl | rfl
  · exact litV_FinalV _ _
  · exact H2_FinalV _ _

/-- **the union `X0.Y0.* || X1.Y1.* || …` admits a two-component final exactly when it is one of the tokens** -/
theorem starUnion_allows (ps : List (Nat × Nat)) (x' y' : Nat) :
    ∃ res, unionOfFlat (ps.map starR) = .ok res ∧
      res.allows (litV x' [y']) = .ok (ps.any fun p => decide (x' = p.1 ∧ y' = p.2)) := by
  obtain ⟨res, h1, h2⟩ := unionOf_ranges_allows (ps.map starR)
    (by intro c hc; obtain ⟨p, _, rfl⟩ := List.mem_map.1 hc; exact starR_member p)
    (starR_bounds ps) (litV x' [y']) (litV_FinalV x' [y'])
  refine ⟨res, h1, ?_⟩
  rw [h2]
  simp [anyAllows, List.any_map, Function.comp_def, starR_allows]

/-! ### text level: `python_version in "X.Y …"` -/

theorem digit_tokChar (c : Char) (h : isDigit c = true) : tokChar c :=
  ⟨digit_not_space c h, digit_ne c '|' h (by decide), digit_ne c ',' h (by decide), digit_ne c '"' h (by decide),
    digit_ne c '\'' h (by decide)⟩

theorem plainTok_relText (x : Nat) (r : List Nat) : PlainTok (Version.relText (x :: r)) := by
  rw [PlainTok, relText_toList]
  obtain ⟨d, ds, hd, _⟩ := relChars_cons x r
  refine ⟨by rw [hd]; simp, ?_⟩
  intro c hc
  rcases relChars_chars x r c hc with h | rfl
  · exact digit_tokChar c h
  · unfold tokChar; decide

theorem splitDots_go_dg (n : Nat) (cur rest : List Char) (hrest : rest = [] ∨ ∃ t, rest = '.' :: t) :
    splitDots.go (dg n ++ rest) cur = splitDots.go rest ((dg n).reverse ++ cur) := by
  have hd := dg_isDigit n
  generalize dg n = l at hd
  induction l generalizing cur with
  | nil => rfl
  | cons c cs ih =>
    have hc : (c == '.') = false := by simpa using digit_ne c '.' (hd c (by simp)) (by decide)
    simp only [List.cons_append, splitDots.go, hc, Bool.false_eq_true, if_false]
    rw [ih (c :: cur) (fun e he => hd e (List.mem_cons_of_mem _ he))]
    simp

theorem splitDots_go_relTail (r : List Nat) : ∀ (cur : List Char),
    splitDots.go (relTail r) cur = cur.reverse :: r.map dg ∨ (r = [] ∧ splitDots.go (relTail r) cur = [cur.reverse]) := by
  induction r with
  | nil => intro cur; right; exact ⟨rfl, rfl⟩
  | cons y r ih =>
    intro cur
    left
    have h1 : splitDots.go (relTail (y :: r)) cur = cur.reverse :: splitDots.go (dg y ++ relTail r) [] := by
      simp [relTail, splitDots.go]
    have hrest : relTail r = [] ∨ ∃ t, relTail r = '.' :: t := by
      cases r with
      | nil => left; rfl
      | cons z r' => right; exact ⟨_, rfl⟩
    rw [h1, splitDots_go_dg y [] (relTail r) hrest]
    rcases ih ((dg y).reverse ++ []) with h | ⟨rfl, h⟩
    · rw [h]; simp
    · rw [h]; simp

/-- `"X.Y.Z".split(".")` -/
theorem splitDots_relChars (x : Nat) (r : List Nat) : splitDots (relChars x r) = dg x :: r.map dg := by
  unfold splitDots relChars
  have hrest : relTail r = [] ∨ ∃ t, relTail r = '.' :: t := by
    cases r with
    | nil => left; rfl
    | cons z r' => right; exact ⟨_, rfl⟩
  rw [splitDots_go_dg x [] (relTail r) hrest]
  rcases splitDots_go_relTail r ((dg x).reverse ++ []) with h | ⟨rfl, h⟩
  · rw [h]; simp
  · rw [h]; simp

/-- the characters of `X.Y.*` -/
def starChars (p : Nat × Nat) : List Char := relChars p.1 [p.2] ++ ['.', '*']

theorem versionListItem_two (p : Nat × Nat) :
    ((if true then "" else "!=") ++ joinChars "." (splitDots (relChars p.1 [p.2]) ++ [['*']])).toList = starChars p := by
  rw [splitDots_relChars]
  simp [joinChars, joinWith, starChars, relChars, relTail]

theorem orSep?_eq_sepOr (s : List Char) : VParser.orSep? s = Generic.sepOr s := by
  unfold VParser.orSep? Generic.sepOr
  generalize dropSpaces s = t
  split <;> split <;> simp_all
  all_goals (first | (rename_i a b; exact absurd b.symm (a _)) | (rename_i a b; exact absurd b (a _)))

theorem splitOrAux_eq_splitBy : ∀ (fuel : Nat) (s cur : List Char),
    VParser.splitOrAux fuel s cur = Generic.splitBy Generic.sepOr fuel s cur := by
  intro fuel
  induction fuel with
  | zero => intro s cur; rw [VParser.splitOrAux.eq_def]; simp [Generic.splitBy]
  | succ n ih =>
    intro s cur
    rw [VParser.splitOrAux.eq_def]
    cases s with
    | nil => simp [Generic.splitBy]
    | cons c cs =>
      simp only [Generic.splitBy, orSep?_eq_sepOr]
      cases Generic.sepOr (c :: cs) with
      | none => simp only; exact ih cs (c :: cur)
      | some r => simp only; rw [ih r []]

theorem splitOr_eq_reSplit (s : List Char) : VParser.splitOr s = Generic.reSplit Generic.sepOr s := by
  simp [VParser.splitOr, Generic.reSplit, splitOrAux_eq_splitBy]

theorem starChars_gPlain (p : Nat × Nat) : ∀ c ∈ starChars p, gPlain c := by
  intro c hc
  simp only [starChars, List.mem_append, List.mem_cons, List.mem_nil_iff, or_false] at hc
  rcases hc with hc | rfl | rfl
  · rcases relChars_chars p.1 [p.2] c hc with h | rfl
    · exact gPlain_of_tokChar c (digit_tokChar c h)
    · unfold gPlain; decide
  · unfold gPlain; decide
  · unfold gPlain; decide

theorem starChars_vPlain (p : Nat × Nat) : ∀ c ∈ starChars p, vPlain c :=
  fun c hc => starChars_gPlain p c hc

theorem starChars_head (p : Nat × Nat) : ∃ d ds, starChars p = d :: ds ∧ isDigit d = true := by
  obtain ⟨d, ds, hd, hdig⟩ := relChars_cons p.1 [p.2]
  exact ⟨d, ds ++ ['.', '*'], by simp [starChars, hd], hdig⟩

/-- `X_CONSTRAINT` on `X.Y.*` -/
theorem xcore_star (p : Nat × Nat) :
    xcore false (starChars p) = some (false, Version.relText [p.1, p.2]) := by
  obtain ⟨x, y⟩ := p
  obtain ⟨d, ds, hd, hdig⟩ := starChars_head (x, y)
  have h1 : vstrip (dropSpaces (starChars (x, y))) = starChars (x, y) := by
    rw [dropSpaces_noSpace _ (fun c hc => (starChars_gPlain (x, y) c hc).1), hd]; exact vstrip_digit d ds hdig
  have ht : takeDigits (starChars (x, y)) = (dg x, '.' :: (dg y ++ ['.', '*'])) := by
    have := takeDigits_append (dg x) ('.' :: (dg y ++ ['.', '*'])) (dg_isDigit x) (by intro c h; simp at h; subst h; decide)
    simpa [starChars, relChars, relTail] using this
  have ht2 : takeDigits (dg y ++ ['.', '*']) = (dg y, ['.', '*']) :=
    takeDigits_append (dg y) ['.', '*'] (dg_isDigit y) (by intro c h; simp at h; subst h; decide)
  have hne : ∀ n, (dg n).isEmpty = false := by
    intro n
    cases h : dg n with
    | nil => exact absurd h (dg_ne_nil n)
    | cons _ _ => rfl
  have hs : String.ofList (dg x ++ '.' :: dg y) = Version.relText [x, y] := by
    rw [← ofList_relChars]; simp [relChars, relTail]
  unfold xcore
  rw [h1]
  unfold xcore2
  simp [ht, hne, xmore, ht2, takeDigits, xtry, VParser.xConstraint?.stars, VParser.atEnd, hs,
    show isDigit '*' = false by decide]

/-- a text starting with a digit on which `X_CONSTRAINT` matches -/
theorem parseSingle_x_aux (d : Char) (hdig : isDigit d = true) (ds : List Char) (t : String) (v : Version)
    (hx : xcore false (d :: ds) = some (false, t)) (hp : Version.parse t = .ok v) :
    VParser.parseSingle (d :: ds) true = VParser.makeXConstraintRange v false true := by
  rcases digit_cases d hdig with rfl | rfl | rfl | rfl | rfl | rfl | rfl | rfl | rfl | rfl <;>
  · unfold VParser.parseSingle
    simp [VParser.isAnyPattern, xConstraint?_eq, xprefix, hx, VParser.parseVersionText, hp,
      bind, Except.bind, pure, Except.pure]

theorem makeX_litV (x y : Nat) :
    VParser.makeXConstraintRange (litV x [y]) false true = .ok (.single (starR (x, y))) := by
  have hn := litV_nextStable x y
  simp [VParser.makeXConstraintRange, isPostrelease, isStable, isUnstable, isPrerelease, isDevrelease, hn, starR,
    VRange.halfOpen, litV, relVersion]
  simpa [litV, relVersion] using hn

theorem parseSingle_star (p : Nat × Nat) :
    VParser.parseSingle (starChars p) true = .ok (.single (starR p)) := by
  obtain ⟨d, ds, hd, hdig⟩ := starChars_head p
  have hx := xcore_star p
  rw [hd] at hx ⊢
  rw [parseSingle_x_aux d hdig ds _ _ hx (parse_relText p.1 [p.2])]
  exact makeX_litV p.1 p.2

theorem parseGroup_plain (l : List Char) (isMarker : Bool) (h : ∀ c ∈ l, vPlain c) (c : VC)
    (hc : VParser.parseSingle l isMarker = .ok c) : VParser.parseGroup l isMarker = .ok c := by
  simp only [VParser.parseGroup, rstripCommas_plain l h, rstripSpaces_plain l h, splitAnd_plain l h,
    List.mapM_cons, List.mapM_nil, bind, Except.bind, pure, Except.pure, hc]
  rfl

theorem mapM_ok {α β : Type} (f : α → PyM β) (g : α → β) :
    ∀ (l : List α), (∀ a ∈ l, f a = .ok (g a)) → l.mapM f = .ok (l.map g) := by
  intro l
  induction l with
  | nil => intro _; rfl
  | cons a as ih =>
    intro h
    simp [List.mapM_cons, h a (by simp), ih (fun b hb => h b (List.mem_cons_of_mem _ hb)), bind, Except.bind,
      pure, Except.pure]

theorem mapM_map_ok {α β γ : Type} (f : β → PyM γ) (h : α → β) (g : α → γ) :
    ∀ (l : List α), (∀ a ∈ l, f (h a) = .ok (g a)) → (l.map h).mapM f = .ok (l.map g) := by
  intro l
  induction l with
  | nil => intro _; rfl
  | cons a as ih =>
    intro hh
    simp [List.mapM_cons, hh a (by simp), ih (fun b hb => hh b (List.mem_cons_of_mem _ hb)), bind, Except.bind,
      pure, Except.pure]

/-- **`parse_marker_version_constraint("X0.Y0.* || X1.Y1.* || …")`**: defined, and it admits a two-component
final exactly when it is one of the tokens -/
theorem pmvc_starList (p0 : Nat × Nat) (ps : List (Nat × Nat)) (x' y' : Nat) :
    ∃ c, VParser.parseMarkerVersionConstraint
        (String.ofList (joinC " || ".toList ((p0 :: ps).map starChars))) = .ok c ∧
      c.allows (litV x' [y']) = .ok ((p0 :: ps).any fun p => decide (x' = p.1 ∧ y' = p.2)) := by
  have hpieces : ∀ q ∈ starChars p0 :: ps.map starChars,
      PieceOk Generic.sepOr q ∧ ∃ c cs, q = c :: cs ∧ isSpace c = false := by
    intro q hq
    rw [← List.map_cons] at hq
    obtain ⟨p, _, rfl⟩ := List.mem_map.1 hq
    refine ⟨?_, ?_⟩
    · have := PieceOk_plain sepOr_like (starChars p) [] (starChars_gPlain p) (PieceOk_nil _)
      simpa using this
    · obtain ⟨d, ds, hd, hdig⟩ := starChars_head p
      exact ⟨d, ds, hd, digit_not_space d hdig⟩
  have hsplit := reSplit_join Generic.sepOr " || ".toList (by decide)
    (fun c cs hc => sepOr_bars c cs hc) (starChars p0) (ps.map starChars) hpieces
  obtain ⟨dl, hdl, hdls⟩ := joinC_last " || ".toList (ps.map starChars) (starChars p0) (by
    intro q hq
    rw [← List.map_cons] at hq
    obtain ⟨p, _, rfl⟩ := List.mem_map.1 hq
    exact ⟨'*', by simp [starChars], by decide⟩)
  obtain ⟨d0, ds0, hd0, hdig0⟩ := starChars_head p0
  have hhead : (joinC " || ".toList (starChars p0 :: ps.map starChars)).head? = some d0 := by
    cases ps <;> simp [joinC, hd0]
  have hstrip : VParser.strip (joinC " || ".toList (starChars p0 :: ps.map starChars)) =
      joinC " || ".toList (starChars p0 :: ps.map starChars) :=
    gstrip_hl _ d0 dl hhead hdl (digit_not_space d0 hdig0) hdls
  have hstar : (String.ofList (joinC " || ".toList (starChars p0 :: ps.map starChars)) == "*") = false := by
    cases hj : joinC " || ".toList (starChars p0 :: ps.map starChars) with
    | nil => rw [hj] at hhead; simp at hhead
    | cons a as =>
      rw [hj] at hhead
      have : a = d0 := by simpa using hhead
      subst this
      exact ofList_ne_star _ _ (digit_ne a '*' hdig0 (by decide))
  have hgroups : ((p0 :: ps).map starChars).mapM (fun g => VParser.parseGroup g true) =
      .ok ((p0 :: ps).map fun p => VC.single (starR p)) :=
    mapM_map_ok _ _ _ (p0 :: ps) (fun p _ =>
      parseGroup_plain (starChars p) true (starChars_vPlain p) _ (parseSingle_star p))
  simp only [List.map_cons] at hgroups
  unfold VParser.parseMarkerVersionConstraint VParser.parseConstraintAux
  simp only [List.map_cons, hstar, Bool.false_eq_true, if_false, String.toList_ofList, hstrip, splitOr_eq_reSplit,
    hsplit, hgroups, bind, Except.bind, pure, Except.pure]
  cases ps with
  | nil =>
    refine ⟨_, rfl, ?_⟩
    simp [VC.allows, starR_allows]
  | cons p1 ps =>
    obtain ⟨res, h1, h2⟩ := starUnion_allows (p0 :: p1 :: ps) x' y'
    refine ⟨res, ?_, h2⟩
    have e : ∀ l : List (Nat × Nat), (l.map fun p => VC.single (starR p)).flatMap VC.flatten = l.map starR := by
      intro l; induction l <;> simp_all [VC.flatten]
    show VC.unionOf ((p0 :: p1 :: ps).map fun p => VC.single (starR p)) = .ok res
    rw [VC.unionOf, e]
    exact h1

/-- text of the two-component token `X.Y` -/
def tok2 (p : Nat × Nat) : String := Version.relText [p.1, p.2]

/-- a list literal of two-component version tokens -/
def verList2 (p0 : Nat × Nat) (rest : List (String × (Nat × Nat))) : String :=
  listLit (tok2 p0) (rest.map fun q => (q.1, tok2 q.2))

theorem verList2_ok (p0 : Nat × Nat) (rest : List (String × (Nat × Nat))) (hs : ∀ q ∈ rest, SepRun q.1) :
    ListLitOk (tok2 p0) (rest.map fun q => (q.1, tok2 q.2)) := by
  refine ⟨plainTok_relText _ _, ?_⟩
  intro q hq
  obtain ⟨r, hr, rfl⟩ := List.mem_map.1 hq
  exact ⟨hs r hr, plainTok_relText _ _⟩

theorem verList2_toksC (p0 : Nat × Nat) (rest : List (String × (Nat × Nat))) :
    listToksC (tok2 p0) (rest.map fun q => (q.1, tok2 q.2)) =
      (p0 :: rest.map (·.2)).map (fun p => relChars p.1 [p.2]) := by
  simp [listToksC, restC, List.map_map, Function.comp_def, tok2, relText_toList]

theorem versionListConstraint_in2 (p0 : Nat × Nat) (rest : List (String × (Nat × Nat)))
    (hs : ∀ q ∈ rest, SepRun q.1) :
    versionListConstraint true (verList2 p0 rest) =
      String.ofList (joinC " || ".toList ((p0 :: rest.map (·.2)).map starChars)) := by
  have hsplit : splitListValue (verList2 p0 rest).toList = (p0 :: rest.map (·.2)).map (fun p => relChars p.1 [p.2]) := by
    rw [verList2, listLit_toList, splitListValue_join _ _ (verList2_ok p0 rest hs).listOk, ← verList2_toksC]; rfl
  have hitems : versionListItems true (verList2 p0 rest) =
      (p0 :: rest.map (·.2)).map (fun p => String.ofList (starChars p)) := by
    simp only [versionListItems, hsplit, List.map_map]
    apply List.map_congr_left
    intro p _
    simp only [Function.comp]
    have h2 : (splitDots (relChars p.1 [p.2])).length = 2 := by rw [splitDots_relChars]; simp
    simp only [h2]
    exact str_eq_of_toList (by rw [String.toList_ofList]; exact versionListItem_two p)
  apply str_eq_of_toList
  rw [versionListConstraint, hitems]
  simp only [if_true, joinWith_toList, String.toList_ofList, List.map_map, Function.comp_def]

theorem leafPrepare_pv_in (p0 : Nat × Nat) (rest : List (String × (Nat × Nat))) (hs : ∀ q ∈ rest, SepRun q.1) :
    leafPrepare "python_version" ("in" ++ verList2 p0 rest) false =
      .ok { name := "python_version", op := "in", value := verList2 p0 rest, swapped := false,
            cstr := String.ofList (joinC " || ".toList ((p0 :: rest.map (·.2)).map starChars)),
            kind := .version true } := by
  have hok := verList2_ok p0 rest hs
  have hvo := listLit_valueOk _ _ hok
  have hc := versionListConstraint_in2 p0 rest hs
  cases hl : (verList2 p0 rest).toList with
  | nil => exact absurd hl hvo.1
  | cons c cs =>
    have hvo' : valueOk' (c :: cs) := by rw [← hl]; exact hvo
    have hm := matchPattern1_in c cs hvo'
    have hvs : String.ofList (c :: cs) = verList2 p0 rest := by rw [← hl]; simp
    unfold leafPrepare
    simp only [Bool.false_eq_true, if_false, String.toList_append, hl]
    have : "in".toList = ['i', 'n'] := rfl
    simp only [this, List.cons_append, List.nil_append, hm, hvs, Option.getD_some]
    have f1 : Gen.versionLikeMarkerNames.contains "python_version" = true := by decide
    have f1' : "python_version" ∈ Gen.versionLikeMarkerNames := by decide
    have f3 : aliasName "python_version" = "python_version" := by decide
    have f4 : ("python_version" != "platform_release") = true := by decide
    simp [f1, f1', f3, f4, hc]

open Spec.Pep508 in
/-- **`python_version in "X0.Y0 X1.Y1 …"`** on the environment value `X'.Y'`: token equality -/
theorem agree_pv_in (E : Env) (p0 : Nat × Nat) (rest : List (String × (Nat × Nat))) (hs : ∀ q ∈ rest, SepRun q.1)
    (x' y' : Nat) (hev : E.get? "python_version" = some (Version.relText [x', y'])) :
    ∃ b, itemV E "python_version" "in" (verList2 p0 rest) false = .ok b ∧
      evalItem "python_version" "in" (verList2 p0 rest) false E = some b ∧
      itemCoherent "python_version" "in" (verList2 p0 rest) false = true := by
  obtain ⟨c, hc, hall⟩ := pmvc_starList p0 (rest.map (·.2)) x' y'
  have hm : mkSingle "python_version" ("in" ++ verList2 p0 rest) false =
      .ok ⟨"python_version", "in", verList2 p0 rest, false, .ver c⟩ := by
    simp only [mkSingle, leafPrepare_pv_in p0 rest hs, bind, Except.bind, parseByKind_ver _ c hc, pure, Except.pure]
  have htok : tokens (verList2 p0 rest) = (p0 :: rest.map (·.2)).map tok2 := by
    rw [verList2, tokens_listLit _ _ (verList2_ok p0 rest hs)]
    simp [listToks, List.map_map, Function.comp_def]
  have hmapM : ((p0 :: rest.map (·.2)).map tok2).mapM parseFinal =
      some ((p0 :: rest.map (·.2)).map fun p => litV p.1 [p.2]) := by
    generalize p0 :: rest.map (·.2) = l
    induction l with
    | nil => rfl
    | cons a as ih => simp [List.mapM_cons, tok2, parseFinal_relText, ih]
  refine ⟨(p0 :: rest.map (·.2)).any fun p => decide (x' = p.1 ∧ y' = p.2), ?_, ?_, ?_⟩
  · simp only [itemV, itemConstraintString, Bool.false_eq_true, if_false, hm]
    rw [validateLike_ver _ (by decide) c E x' [y'] hev, hall]
  · have h1 : canonVar "python_version" = "python_version" := by decide
    have h3 : "python_version" ∈ versionVars := by decide
    simp only [evalItem, h1, show ("python_version" == "extra") = false by decide, Bool.false_eq_true, if_false,
      hev, List.contains_iff_mem, h3, if_true, parseFinal_relText, htok, hmapM]
    simp only [List.isEmpty_cons, List.map_cons, Bool.false_eq_true, if_false, if_true, Option.some.injEq,
      beq_self_eq_true]
    have key : ∀ l : List (Nat × Nat),
        ((l.map fun p => litV p.1 [p.2]).any fun lit => Spec.cmpRef (litV x' [y']) lit == Ordering.eq) =
          l.any fun p => decide (x' = p.1 ∧ y' = p.2) := by
      intro l
      induction l with
      | nil => rfl
      | cons p ps ih =>
        simp only [List.map_cons, List.any_cons, ih]
        congr 1
        apply bool_eq_of_iff
        rw [beq_iff_eq, cmpRef_final (litV_final x' [y']) (litV_final p.1 [p.2]), decide_eq_true_eq]
        exact sc_pair_eq p.1 p.2 x' y'
    exact key (p0 :: rest.map (·.2))
  · simp [itemCoherent, Single.coherent, itemConstraintString, hm]



/-! ### `python_full_version in "X.Y.Z …"` -/

/-- a version token `X.Y.Z…` given by its numbers -/
abbrev VTok := Nat × List Nat

def VTok.text (t : VTok) : String := Version.relText (t.1 :: t.2)
def VTok.ver (t : VTok) : Version := litV t.1 t.2
def VTok.chars (t : VTok) : List Char := relChars t.1 t.2

/-- the characters of `==X.Y.Z` -/
def eqChars (t : VTok) : List Char := '=' :: '=' :: t.chars

/-- a list literal of version tokens -/
def verListN (t0 : VTok) (rest : List (String × VTok)) : String :=
  listLit t0.text (rest.map fun q => (q.1, q.2.text))

theorem verListN_ok (t0 : VTok) (rest : List (String × VTok)) (hs : ∀ q ∈ rest, SepRun q.1) :
    ListLitOk t0.text (rest.map fun q => (q.1, q.2.text)) := by
  refine ⟨plainTok_relText _ _, ?_⟩
  intro q hq
  obtain ⟨r, hr, rfl⟩ := List.mem_map.1 hq
  exact ⟨hs r hr, plainTok_relText _ _⟩

theorem verListN_split (t0 : VTok) (rest : List (String × VTok)) (hs : ∀ q ∈ rest, SepRun q.1) :
    splitListValue (verListN t0 rest).toList = (t0 :: rest.map (·.2)).map VTok.chars := by
  rw [verListN, listLit_toList, splitListValue_join _ _ (verListN_ok t0 rest hs).listOk]
  simp [restC, List.map_map, Function.comp_def, VTok.text, VTok.chars, relText_toList]

open Spec.Pep508 in
theorem verListN_tokens (t0 : VTok) (rest : List (String × VTok)) (hs : ∀ q ∈ rest, SepRun q.1) :
    tokens (verListN t0 rest) = (t0 :: rest.map (·.2)).map VTok.text := by
  rw [verListN, tokens_listLit _ _ (verListN_ok t0 rest hs)]
  simp [listToks, List.map_map, Function.comp_def]

open Spec.Pep508 in
theorem mapM_parseFinal_toks (l : List VTok) : (l.map VTok.text).mapM parseFinal = some (l.map VTok.ver) := by
  induction l with
  | nil => rfl
  | cons a as ih => simp [List.mapM_cons, VTok.text, VTok.ver, parseFinal_relText, ih]

theorem joinChars_splitDots (t : VTok) : joinChars "." (splitDots t.chars) = t.text := by
  rw [VTok.chars, splitDots_relChars]
  have hd : ∀ n, String.ofList (dg n) = natToString n := by intro n; simp [dg]
  have hm : ∀ l : List Nat, (l.map dg).map String.ofList = l.map natToString := by
    intro l; induction l <;> simp_all
  simp only [joinChars, VTok.text, Version.relText, List.map_cons, hd, hm]

theorem versionListItems_in3 (t0 : VTok) (rest : List (String × VTok)) (hs : ∀ q ∈ rest, SepRun q.1)
    (h3 : ∀ t ∈ t0 :: rest.map (·.2), 2 ≤ t.2.length) :
    versionListItems true (verListN t0 rest) = (t0 :: rest.map (·.2)).map (fun t => String.ofList (eqChars t)) := by
  simp only [versionListItems, verListN_split t0 rest hs, List.map_map]
  apply List.map_congr_left
  intro t ht
  simp only [Function.comp]
  have hl : (splitDots t.chars).length = t.2.length + 1 := by rw [VTok.chars, splitDots_relChars]; simp
  have h := h3 t ht
  have h1 : ((splitDots t.chars).length == 1) = false := by rw [beq_eq_false_iff_ne, hl]; omega
  have h2 : ((splitDots t.chars).length == 2) = false := by rw [beq_eq_false_iff_ne, hl]; omega
  simp only [h1, h2, Bool.or_false, Bool.false_eq_true, if_false, if_true, joinChars_splitDots]
  exact str_eq_of_toList (by simp [eqChars, VTok.text, VTok.chars, relText_toList])

theorem finals_regB (B : List Version) (h : ∀ e ∈ B, FinalV e) : RegB B :=
  ⟨finals_mutreg B h, finals_nolocal B h⟩

theorem ver_regMember (B : List Version) (V : Version) (hV : FinalV V) (hm : V ∈ B) : RegMember B (.ver V) := by
  refine ⟨hV.2, trivial, trivial, ?_⟩
  intro e he
  simp [RC.bounds, RC.view, RC.min, RC.max, VRange.bounds] at he
  rcases he with rfl | rfl <;> exact hm

theorem ver_allows_final (V v : Version) (hV : FinalV V) (hv : FinalV v) :
    (RC.ver V).allows v = (Spec.cmpRef v V == .eq) := by
  apply bool_eq_of_iff
  simp only [RC.allows]
  rw [RC.ver_allows_iff V v hV.2 hv.2 (reg1_of_final hv.1 hV.1), vk_eq_iff, cmp_eq_cmpRef v V hv.2 hV.2, beq_iff_eq]

/-- **`allows` on the `VersionUnion.of` of final versions**: total, and equality with one of them -/
theorem unionOf_vers_allows (Vs : List Version) (hVs : ∀ V ∈ Vs, FinalV V) (v : Version) (hv : FinalV v) :
    ∃ res, unionOfFlat (Vs.map RC.ver) = .ok res ∧
      res.allows v = .ok (Vs.any fun V => Spec.cmpRef v V == .eq) := by
  have hB := finals_regB Vs hVs
  have hm : ∀ c ∈ Vs.map RC.ver, RegMember Vs c := by
    intro c hc
    obtain ⟨V, hV, rfl⟩ := List.mem_map.1 hc
    exact ver_regMember Vs V (hVs V hV) hV
  obtain ⟨res, hres, hwf, hmem, hsem⟩ := unionOfFlat_reg hB (Vs.map RC.ver) hm
  refine ⟨res, hres, ?_⟩
  rw [VC.allows_of_reg hB res hwf hmem v, hsem v hv.2]
  · congr 1
    simp only [anyAllows, List.any_map, Function.comp_def]
    have key : ∀ l : List Version, (∀ V ∈ l, FinalV V) →
        (l.any fun x => (RC.ver x).allows v) = l.any fun V => Spec.cmpRef v V == .eq := by
      intro l hl
      induction l with
      | nil => rfl
      | cons a as ih =>
        simp only [List.any_cons, ver_allows_final a v (hl a (by simp)) hv,
          ih (fun V hV => hl V (List.mem_cons_of_mem _ hV))]
    exact key Vs hVs
  · apply finals_regular _ _ v hv
    intro e he
    simp only [boundsOf, List.mem_flatMap, List.mem_map] at he
    obtain ⟨c, ⟨V, hV, rfl⟩, hec⟩ := he
    simp [RC.bounds, RC.view, RC.min, RC.max, VRange.bounds] at hec
    rcases hec with rfl | rfl <;> exact hVs _ hV

/-- **`parse_marker_version_constraint` on `p0 || p1 || …`** for pieces without blanks, commas, bars: the single
constraint, or `VersionUnion.of` of the pieces' constraints -/
theorem pmvc_orJoin {α : Type} (f : α → List Char) (g : α → VC) (a0 : α) (as : List α)
    (hpl : ∀ a, ∀ c ∈ f a, gPlain c) (hne : ∀ a, f a ≠ []) (hstar : ∀ a, (f a).head? ≠ some '*')
    (hparse : ∀ a, VParser.parseSingle (f a) true = .ok (g a)) :
    VParser.parseMarkerVersionConstraint (String.ofList (joinC " || ".toList ((a0 :: as).map f))) =
      (match as with
       | [] => .ok (g a0)
       | _ :: _ => VC.unionOf ((a0 :: as).map g)) := by
  have hhd : ∀ a, ∃ c cs, f a = c :: cs ∧ isSpace c = false := by
    intro a
    cases h : f a with
    | nil => exact absurd h (hne a)
    | cons c cs => exact ⟨c, cs, rfl, (hpl a c (by simp [h])).1⟩
  have hlast : ∀ a, ∃ d, (f a).getLast? = some d ∧ isSpace d = false := by
    intro a
    refine ⟨(f a).getLast (hne a), List.getLast?_eq_some_getLast (hne a), (hpl a _ (List.getLast_mem (hne a))).1⟩
  have hpieces : ∀ q ∈ f a0 :: as.map f, PieceOk Generic.sepOr q ∧ ∃ c cs, q = c :: cs ∧ isSpace c = false := by
    intro q hq
    rw [← List.map_cons] at hq
    obtain ⟨a, _, rfl⟩ := List.mem_map.1 hq
    refine ⟨?_, hhd a⟩
    have := PieceOk_plain sepOr_like (f a) [] (hpl a) (PieceOk_nil _)
    simpa using this
  have hsplit := reSplit_join Generic.sepOr " || ".toList (by decide)
    (fun c cs hc => sepOr_bars c cs hc) (f a0) (as.map f) hpieces
  obtain ⟨dl, hdl, hdls⟩ := joinC_last " || ".toList (as.map f) (f a0) (by
    intro q hq
    rw [← List.map_cons] at hq
    obtain ⟨a, _, rfl⟩ := List.mem_map.1 hq
    exact hlast a)
  obtain ⟨d0, ds0, hd0, hsp0⟩ := hhd a0
  have hhead : (joinC " || ".toList (f a0 :: as.map f)).head? = some d0 := by
    cases as <;> simp [joinC, hd0]
  have hstrip : VParser.strip (joinC " || ".toList (f a0 :: as.map f)) = joinC " || ".toList (f a0 :: as.map f) :=
    gstrip_hl _ d0 dl hhead hdl hsp0 hdls
  have hst : (String.ofList (joinC " || ".toList (f a0 :: as.map f)) == "*") = false := by
    cases hj : joinC " || ".toList (f a0 :: as.map f) with
    | nil => rw [hj] at hhead; simp at hhead
    | cons a as' =>
      rw [hj] at hhead
      have : a = d0 := by simpa using hhead
      subst this
      have := hstar a0
      rw [hd0] at this
      exact ofList_ne_star _ _ (by simpa using this)
  have hgroups : ((a0 :: as).map f).mapM (fun q => VParser.parseGroup q true) = .ok ((a0 :: as).map g) :=
    mapM_map_ok _ _ _ (a0 :: as) (fun a _ =>
      parseGroup_plain (f a) true (fun c hc => hpl a c hc) _ (hparse a))
  simp only [List.map_cons] at hgroups
  unfold VParser.parseMarkerVersionConstraint VParser.parseConstraintAux
  simp only [List.map_cons, hst, Bool.false_eq_true, if_false, String.toList_ofList, hstrip, splitOr_eq_reSplit,
    hsplit, hgroups, bind, Except.bind, pure, Except.pure]
  cases as with
  | nil => rfl
  | cons a1 as => rfl

theorem eqChars_gPlain (t : VTok) : ∀ c ∈ eqChars t, gPlain c := by
  intro c hc
  simp only [eqChars, VTok.chars, List.mem_cons] at hc
  rcases hc with rfl | rfl | hc
  · exact gPlain_eq
  · exact gPlain_eq
  · rcases relChars_chars t.1 t.2 c hc with h | rfl
    · exact gPlain_of_tokChar c (digit_tokChar c h)
    · unfold gPlain; decide

theorem VTok.ver_final (t : VTok) : FinalV t.ver := litV_FinalV t.1 t.2

/-- `==X0.Y0.Z0 || ==X1.Y1.Z1 || …`: defined, admits a final exactly when it equals one of the tokens -/
theorem pmvc_eqList (t0 : VTok) (ts : List VTok) (v : Version) (hv : FinalV v) :
    ∃ c, VParser.parseMarkerVersionConstraint
        (String.ofList (joinC " || ".toList ((t0 :: ts).map eqChars))) = .ok c ∧
      c.allows v = .ok ((t0 :: ts).any fun t => Spec.cmpRef v t.ver == .eq) := by
  have hp := pmvc_orJoin eqChars (fun t => VC.single (.ver t.ver)) t0 ts eqChars_gPlain
    (by intro a; simp [eqChars]) (by intro a; simp [eqChars])
    (by intro a; exact parseSingle_eq a.1 a.2)
  rw [hp]
  cases ts with
  | nil =>
    refine ⟨_, rfl, ?_⟩
    simp [VC.allows, ver_allows_final t0.ver v t0.ver_final hv]
  | cons t1 ts =>
    obtain ⟨res, h1, h2⟩ := unionOf_vers_allows ((t0 :: t1 :: ts).map VTok.ver)
      (by intro V hV; obtain ⟨t, _, rfl⟩ := List.mem_map.1 hV; exact t.ver_final) v hv
    refine ⟨res, ?_, ?_⟩
    · have e : ∀ l : List VTok, (l.map fun t => VC.single (.ver t.ver)).flatMap VC.flatten = (l.map VTok.ver).map RC.ver := by
        intro l; induction l <;> simp_all [VC.flatten]
      show VC.unionOf ((t0 :: t1 :: ts).map fun t => VC.single (.ver t.ver)) = .ok res
      rw [VC.unionOf, e]; exact h1
    · rw [h2, List.any_map]; rfl

theorem leafPrepare_pfv_in (t0 : VTok) (rest : List (String × VTok)) (hs : ∀ q ∈ rest, SepRun q.1)
    (h3 : ∀ t ∈ t0 :: rest.map (·.2), 2 ≤ t.2.length) :
    leafPrepare "python_full_version" ("in" ++ verListN t0 rest) false =
      .ok { name := "python_full_version", op := "in", value := verListN t0 rest, swapped := false,
            cstr := String.ofList (joinC " || ".toList ((t0 :: rest.map (·.2)).map eqChars)),
            kind := .version true } := by
  have hok := verListN_ok t0 rest hs
  have hvo := listLit_valueOk _ _ hok
  have hc : versionListConstraint true (verListN t0 rest) =
      String.ofList (joinC " || ".toList ((t0 :: rest.map (·.2)).map eqChars)) := by
    apply str_eq_of_toList
    rw [versionListConstraint, versionListItems_in3 t0 rest hs h3]
    simp only [if_true, joinWith_toList, String.toList_ofList, List.map_map, Function.comp_def]
  cases hl : (verListN t0 rest).toList with
  | nil => exact absurd hl hvo.1
  | cons c cs =>
    have hvo' : valueOk' (c :: cs) := by rw [← hl]; exact hvo
    have hm := matchPattern1_in c cs hvo'
    have hvs : String.ofList (c :: cs) = verListN t0 rest := by rw [← hl]; simp
    unfold leafPrepare
    simp only [Bool.false_eq_true, if_false, String.toList_append, hl]
    have : "in".toList = ['i', 'n'] := rfl
    simp only [this, List.cons_append, List.nil_append, hm, hvs, Option.getD_some]
    have f1 : Gen.versionLikeMarkerNames.contains "python_full_version" = true := by decide
    have f1' : "python_full_version" ∈ Gen.versionLikeMarkerNames := by decide
    have f3 : aliasName "python_full_version" = "python_full_version" := by decide
    have f4 : ("python_full_version" != "platform_release") = true := by decide
    simp [f1, f1', f3, f4, hc]

open Spec.Pep508 in
/-- **`python_full_version in "X0.Y0.Z0 …"`** (tokens of three or more components), environment value any final
text: equality with one of the tokens -/
theorem agree_pfv_in (E : Env) (t0 : VTok) (rest : List (String × VTok)) (hs : ∀ q ∈ rest, SepRun q.1)
    (h3 : ∀ t ∈ t0 :: rest.map (·.2), 2 ≤ t.2.length) (x' : Nat) (r' : List Nat)
    (hev : E.get? "python_full_version" = some (Version.relText (x' :: r'))) :
    ∃ b, itemV E "python_full_version" "in" (verListN t0 rest) false = .ok b ∧
      evalItem "python_full_version" "in" (verListN t0 rest) false E = some b ∧
      itemCoherent "python_full_version" "in" (verListN t0 rest) false = true := by
  obtain ⟨c, hc, hall⟩ := pmvc_eqList t0 (rest.map (·.2)) (litV x' r') (litV_FinalV x' r')
  have hm : mkSingle "python_full_version" ("in" ++ verListN t0 rest) false =
      .ok ⟨"python_full_version", "in", verListN t0 rest, false, .ver c⟩ := by
    simp only [mkSingle, leafPrepare_pfv_in t0 rest hs h3, bind, Except.bind, parseByKind_ver _ c hc, pure,
      Except.pure]
  refine ⟨(t0 :: rest.map (·.2)).any fun t => Spec.cmpRef (litV x' r') t.ver == .eq, ?_, ?_, ?_⟩
  · simp only [itemV, itemConstraintString, Bool.false_eq_true, if_false, hm]
    rw [validateLike_ver _ (by decide) c E x' r' hev, hall]
  · have h1 : canonVar "python_full_version" = "python_full_version" := by decide
    have h3' : "python_full_version" ∈ versionVars := by decide
    simp only [evalItem, h1, show ("python_full_version" == "extra") = false by decide, Bool.false_eq_true,
      if_false, hev, List.contains_iff_mem, h3', if_true, parseFinal_relText, verListN_tokens t0 rest hs,
      mapM_parseFinal_toks]
    simp only [List.isEmpty_cons, List.map_cons, Bool.false_eq_true, if_false, if_true, Option.some.injEq,
      beq_self_eq_true, List.any_cons, List.any_map]
    rfl
  · simp [itemCoherent, Single.coherent, itemConstraintString, hm]

end Poetry.Marker
