/-
Text level of the constraint round trip (helper lemmas for C15): every version `Version.parse` returns from a
digit-headed run of version characters not ending in `-` carries a re-parsable text (`TextOK`) — whatever the
spelling (`1.0-1`, `1.0RC1`, `1.0.post`): the text is kept, and what `VERSION_PATTERN` leaves unconsumed is made
of characters of the input.
-/
import PoetryVerif.Proofs.VRangeTextC

set_option linter.unusedSimpArgs false
set_option linter.unusedVariables false
set_option linter.unnecessarySeqFocus false

namespace Poetry
open Poetry.Marker
open Version

/-! ### what a sub-recogniser leaves is made of characters of its input -/

theorem stripPrefix?_mem : ∀ (p s r : List Char), stripPrefix? p s = some r → ∀ c ∈ r, c ∈ s
  | [], s, r, h, c, hc => by simp [stripPrefix?] at h; subst h; exact hc
  | _ :: _, [], r, h, c, hc => by simp [stripPrefix?] at h
  | p :: ps, x :: xs, r, h, c, hc => by
    simp only [stripPrefix?] at h
    split at h
    · exact List.mem_cons_of_mem _ (stripPrefix?_mem ps xs r h c hc)
    · cases h

theorem stripWord?_rest : ∀ (ws : List String) (s : List Char) (w : String) (r : List Char),
    stripWord? ws s = some (w, r) → ∀ c ∈ r, c ∈ s
  | [], s, w, r, h, c, hc => by simp [stripWord?] at h
  | x :: xs, s, w, r, h, c, hc => by
    unfold stripWord? at h
    split at h
    · rename_i r' hr'
      simp at h
      exact stripPrefix?_mem _ _ _ hr' c (h.2 ▸ hc)
    · exact stripWord?_rest xs s w r h c hc

theorem optSep_mem (s : List Char) : ∀ c ∈ optSep s, c ∈ s := by
  intro c hc
  unfold optSep at hc
  split at hc
  · split at hc
    · exact List.mem_cons_of_mem _ hc
    · exact hc
  · exact hc

theorem labelled?_rest (ws : List String) (s : List Char) (w : String) (n : Nat) (r : List Char)
    (h : labelled? ws s = some (w, n, r)) : ∀ c ∈ r, c ∈ s := by
  intro c hc
  unfold labelled? at h
  split at h
  · cases h
  · rename_i w' r' hw
    simp at h
    have h1 : c ∈ optSep r' := takeDigits_mem _ c (h.2.2 ▸ hc)
    exact optSep_mem s c (stripWord?_rest ws _ w' r' hw c (optSep_mem r' c h1))

theorem parseLabelled_rest (ws : List String) (s : List Char) : ∀ c ∈ (parseLabelled ws s).2, c ∈ s := by
  intro c hc
  unfold parseLabelled at hc
  split at hc
  · rename_i w n r h
    split at hc
    · exact labelled?_rest ws s w n r h c hc
    · exact hc
  · exact hc

theorem parsePostAlt1_rest (s : List Char) (n : Nat) (r : List Char) (h : parsePostAlt1 s = some (n, r)) :
    ∀ c ∈ r, c ∈ s := by
  intro c hc
  unfold parsePostAlt1 at h
  split at h
  · rename_i cs
    have a := takeDigits_mem cs
    generalize takeDigits cs = p at a h
    obtain ⟨ds, r2⟩ := p
    simp only at a h
    by_cases he : ds.isEmpty = true
    · simp [he] at h
    · simp [he] at h
      exact List.mem_cons_of_mem _ (a c (h.2 ▸ hc))
  · cases h

theorem parsePost_rest (s : List Char) : ∀ c ∈ (parsePost s).2, c ∈ s := by
  intro c hc
  unfold parsePost at hc
  cases h : parsePostAlt1 s with
  | some x =>
    obtain ⟨n, r⟩ := x
    simp only [h] at hc
    exact parsePostAlt1_rest s n r h c hc
  | none =>
    simp only [h] at hc
    exact parseLabelled_rest postWords s c hc

theorem moreRelease_rest : ∀ (fuel : Nat) (s : List Char), ∀ c ∈ (moreRelease fuel s).2, c ∈ s
  | 0, s, c, hc => hc
  | fuel + 1, s, c, hc => by
    unfold moreRelease at hc
    split at hc
    · rename_i cs
      by_cases he : (takeDigits cs).1.isEmpty = true
      · simp only [he, if_true] at hc; exact hc
      · simp only [he] at hc
        exact List.mem_cons_of_mem _ (takeDigits_mem cs c (moreRelease_rest fuel _ c hc))
    · exact hc

theorem parseEpochRelease_rest (s : List Char) (e : Nat) (rel : List Nat) (r : List Char)
    (h : parseEpochRelease s = some (e, rel, r)) : ∀ c ∈ r, c ∈ s := by
  intro c hc
  unfold parseEpochRelease at h
  have a0 := takeDigits_mem s
  generalize takeDigits s = p0 at a0 h
  obtain ⟨d0, r0⟩ := p0
  simp only at a0 h
  by_cases he0 : d0.isEmpty = true
  · simp [he0] at h
  · simp only [he0, Bool.false_eq_true, if_false] at h
    -- the rest handed to `moreRelease` is made of characters of `r0`
    have key : ∀ (ep : Nat) (d1 r1 : List Char), (∀ c ∈ r1, c ∈ r0) →
        some (ep, digitsToNat d1 :: (moreRelease r1.length r1).1, (moreRelease r1.length r1).2) = some (e, rel, r) →
        c ∈ s := by
      intro ep d1 r1 h1 heq
      simp at heq
      exact a0 c (h1 c (moreRelease_rest _ _ c (heq.2.2 ▸ hc)))
    cases r0 with
    | nil => exact key 0 d0 [] (fun c hc => hc) h
    | cons y ys =>
      by_cases hy : y = '!'
      · subst hy
        simp only at h
        have a1 := takeDigits_mem ys
        generalize takeDigits ys = p1 at a1 h
        obtain ⟨d, r1⟩ := p1
        simp only at a1 h
        by_cases hd : d.isEmpty = true
        · simp only [hd, if_true] at h
          exact key 0 d0 _ (fun c hc => hc) h
        · simp only [hd, Bool.false_eq_true, if_false] at h
          exact key _ d r1 (fun c hc => List.mem_cons_of_mem _ (a1 c hc)) h
      · split at h
        · rename_i cs heq; injection heq with h1 _; exact absurd h1 hy
        · exact key 0 d0 _ (fun c hc => hc) h

theorem takeLocalSeg_mem : ∀ (s : List Char), ∀ c ∈ (takeLocalSeg s).2, c ∈ s
  | [], c, hc => by simp [takeLocalSeg] at hc
  | x :: xs, c, hc => by
    unfold takeLocalSeg at hc
    by_cases hx : isLocalChar x = true
    · simp only [hx, if_true] at hc
      exact List.mem_cons_of_mem _ (takeLocalSeg_mem xs c hc)
    · simp only [hx] at hc
      exact hc

theorem localSegs_rest : ∀ (fuel : Nat) (s : List Char) (segs : List String) (r : List Char),
    localSegs fuel s = some (segs, r) → ∀ c ∈ r, c ∈ s
  | 0, s, segs, r, h, c, hc => by simp [localSegs] at h
  | fuel + 1, s, segs, r, h, c, hc => by
    unfold localSegs at h
    have a0 := takeLocalSeg_mem s
    generalize takeLocalSeg s = p0 at a0 h
    obtain ⟨seg, r0⟩ := p0
    simp only at a0 h
    split at h
    · cases h
    · split at h
      · rename_i x xs
        split at h
        · split at h
          · rename_i more r' hm
            simp at h
            exact a0 c (List.mem_cons_of_mem _ (localSegs_rest fuel xs more r' hm c (h.2 ▸ hc)))
          · simp at h
            exact a0 c (h.2 ▸ hc)
        · simp at h
          exact a0 c (h.2 ▸ hc)
      · simp at h
        exact a0 c (h.2 ▸ hc)

theorem parseLocal_rest (s : List Char) : ∀ c ∈ (parseLocal s).2, c ∈ s := by
  intro c hc
  unfold parseLocal at hc
  split at hc
  · rename_i cs
    split at hc
    · rename_i segs r h
      exact List.mem_cons_of_mem _ (localSegs_rest _ cs segs r h c hc)
    · exact hc
  · exact hc

theorem stripV_mem (s : List Char) : ∀ c ∈ stripV s, c ∈ s := by
  intro c hc
  unfold stripV at hc
  split at hc
  · exact List.mem_cons_of_mem _ hc
  · exact hc

/-- **what `VERSION_PATTERN` leaves unconsumed is made of characters of the input** -/
theorem parseBody_rest (t : String) (s : List Char) (v : Version) (rest : List Char)
    (h : parseBody t s = some (v, rest)) : ∀ c ∈ rest, c ∈ s := by
  intro c hc
  unfold parseBody at h
  split at h
  · cases h
  · rename_i e rel r2 h2
    simp at h
    have hr : rest = (parseLocal (parseDev (parsePost (parsePre r2).2).2).2).2 := h.2.symm
    rw [hr] at hc
    exact stripV_mem s c (parseEpochRelease_rest _ e rel r2 h2 c
      (parseLabelled_rest preWords r2 c (parsePost_rest _ c (parseLabelled_rest devWords _ c (parseLocal_rest _ c hc)))))

/-! ### `TextOK` for parsed versions -/

theorem lower_vchar (c : Char) (h : vchar c = true) : vchar (lowerChar c) = true := by
  by_cases hu : 65 ≤ c.toNat ∧ c.toNat ≤ 90
  · have hup : ('A' ≤ c && c ≤ 'Z') = true := by
      simp only [Bool.and_eq_true, decide_eq_true_eq, char_le_iff]; exact hu
    have hn : (Char.ofNat (c.toNat + 32)).toNat = c.toNat + 32 := toNat_ofNat_small _ (by omega)
    have : isLowerAlpha (Char.ofNat (c.toNat + 32)) = true := by
      simp only [isLowerAlpha, Bool.and_eq_true, decide_eq_true_eq, char_le_iff, hn]
      exact ⟨by show 97 ≤ _; omega, by show _ ≤ 122; omega⟩
    simp [lowerChar, hup, vchar, this]
  · rw [lowerChar_of_not_upper c hu]; exact h

/-- **a version parsed from a digit-headed run of version characters not ending in `-` carries a re-parsable
text** -/
theorem textOK_of_parse (s : String) (v : Version) (h : Version.parse s = .ok v)
    (hc : ∀ c ∈ s.toList, vchar c = true) (hh : ∃ d ds, s.toList = d :: ds ∧ isDigit d = true)
    (hl : ∃ pre d, s.toList = pre ++ [d] ∧ d ≠ '-') : TextOK v := by
  obtain ⟨d, ds, hd, hdig⟩ := hh
  have hs : dropSpaces (s.toList.map lowerChar) = s.toList.map lowerChar := by
    rw [hd, lower_digit_head d ds hdig]; exact dropSpaces_of_head d _ (digit_not_space d hdig)
  unfold Version.parse at h
  simp only [hs] at h
  cases hb : parseBody s (s.toList.map lowerChar) with
  | none => simp [hb] at h
  | some p =>
    obtain ⟨v', rest⟩ := p
    simp only [hb] at h
    split at h
    · rename_i hcond
      injection h with h
      subst h
      simp only [Bool.and_eq_true] at hcond
      -- the rest has no blank, so it is empty
      have hrest : rest = [] := by
        cases hr : rest with
        | nil => rfl
        | cons x xs =>
          have hx : x ∈ s.toList.map lowerChar := parseBody_rest _ _ _ _ hb x (by rw [hr]; simp)
          obtain ⟨y, hy, rfl⟩ := List.mem_map.1 hx
          have := vchar_not_space _ (lower_vchar y (hc y hy))
          have h1 := hcond.1
          rw [hr, dropSpaces_of_head _ _ this] at h1
          simp at h1
      subst hrest
      have htext : v'.text = s := by
        rw [parseBody_text] at hb
        cases hb0 : parseBody "" (s.toList.map lowerChar) with
        | none => simp [hb0] at hb
        | some q => simp [hb0] at hb; rw [← hb.1]
      refine ⟨?_, by rw [htext]; exact hc, by rw [htext]; exact ⟨d, ds, hd, hdig⟩, by rw [htext]; exact hl⟩
      rw [htext]
      rw [parseBody_text] at hb
      cases hb0 : parseBody "" (s.toList.map lowerChar) with
      | none => simp [hb0] at hb
      | some q =>
        obtain ⟨q1, q2⟩ := q
        simp [hb0] at hb
        have hq : q1.text = "" := by
          unfold parseBody at hb0
          split at hb0
          · cases hb0
          · simp at hb0; rw [← hb0.1]
        congr 1
        rw [Prod.mk.injEq]
        refine ⟨?_, hb.2⟩
        rw [← hb.1]
        obtain ⟨a1, a2, a3, a4, a5, a6, a7⟩ := q1
        simp only at hq
        subst hq
        rfl
    · cases h

end Poetry
