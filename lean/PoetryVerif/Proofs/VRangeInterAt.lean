/-
`intersect` of arbitrary constraints over range members at one probe (helper lemmas for C04/C05): the pairwise
intersections, the merge walk and `VersionUnion.of` on the collected parts, with an invariant that is kept — so
that a whole fold of `intersect` (a comma-joined specifier set with `!=` clauses) is exact at the probe, without any
regularity of the ends among themselves.
-/
import PoetryVerif.Proofs.VRangeUnionAt
import PoetryVerif.Proofs.VRangeInterU

set_option linter.unusedSimpArgs false
set_option linter.unusedVariables false

namespace Poetry
open Version

/-- the invariant of a constraint at the probe: well-formed (sorted, separated), all members range members carrying
the per-probe facts -/
def VC.PInv (LoI HiI : List Version) (c : VC) (p : Version) : Prop :=
  c.WF ∧ ∀ x ∈ c.flatten, RngMember x ∧ x.PSem LoI HiI p

/-- no inclusive lower end equals an inclusive upper end (so no intersection collapses to a single `Version`) -/
def NoPoint (LoI HiI : List Version) : Prop := ∀ m ∈ LoI, ∀ M ∈ HiI, vk m ≠ vk M

/-- what a part of the walk is -/
def PartOK (LoI HiI : List Version) (p : Version) (q : VC) : Prop :=
  q = .empty ∨ ∃ r, q = .single (.rng r) ∧ RngMember (.rng r) ∧ r.PSem LoI HiI p

theorem rng_intersect_psem {LoI HiI : List Version} (hnp : NoPoint LoI HiI) (a b : VRange) (p : Version)
    (hp : p.wf = true) (ha : a.PSem LoI HiI p) (hb : b.PSem LoI HiI p) (hna : a.NE) (hnb : b.NE) :
    ∃ c, RC.rngIntersectRng a b = .ok c ∧ c.allowsPlain p = (a.allows p && b.allows p) ∧ PartOK LoI HiI p c := by
  obtain ⟨c, h1, _, hmem, _, hsem⟩ := VRange.intersect_exact_at a b ha.1 hb.1 p hp ha.okat hb.okat
  refine ⟨c, h1, hsem, ?_⟩
  have pick : ∀ L : VRange, L = a ∨ L = b → L.PSem LoI HiI p := by
    intro L hL; rcases hL with rfl | rfl <;> assumption
  have anyOK : PartOK LoI HiI p (.single (.rng VRange.any)) := by
    have hanyWF : VRange.any.WF :=
      ⟨by intro e he; simp [VRange.bounds, VRange.any] at he, by intro m M hm'; simp [VRange.any] at hm'⟩
    have hne : VRange.any.NE := by
      show VRange.any.isStrictlyLower VRange.any = false
      simp [VRange.isStrictlyLower, VRange.any, VRange.allowedMax]
    exact Or.inr ⟨_, rfl, ⟨hanyWF, ⟨fun _ => rfl, fun _ => rfl⟩, hne, ⟨_, rfl⟩⟩, hanyWF, ⟨fun _ => rfl, fun _ => rfl⟩,
      by intro e he; simp [VRange.bounds, VRange.any] at he, by intro m hm'; simp [VRange.any] at hm',
      by intro M hM; simp [VRange.any] at hM,
      ⟨by intro m hm'; simp [VRange.any] at hm', by intro M hM; simp [VRange.any] at hM⟩⟩
  rcases VRange.rngIntersectRng_shape a b _ h1 with he | ⟨L, H, hL, hH, hf⟩
  · exact Or.inl he
  · rcases VRange.interFinish_shape _ _ _ _ _ hf with ⟨_, _, hc⟩ | ⟨x, hmn, hov, hi, hj, hc⟩ | ⟨_, hc⟩
    · rw [hc]; exact anyOK
    · exfalso
      cases hM : H.max with
      | none => rw [hmn, hM] at hov; simp [optVerEq] at hov
      | some M =>
        rw [hmn, hM] at hov
        have hk : vk x = vk M := (eqv_iff _ _).1 (by simpa [optVerEq] using hov)
        exact hnp x ((pick L hL).2.2.2.2.2.1 x hmn hi) M ((pick H hH).2.2.2.2.2.2 M hM hj) hk
    · have hrw := (hmem (.rng ⟨L.min, H.max, L.imin, H.imax⟩) (by rw [hc]; simp [VC.flatten])).1
      have htn := VRange.intersect_rng_Tidy_NE a b ha.1 hb.1 ha.2.1 hb.2.1 hna hnb _ (hc ▸ h1)
      have hnl : ∀ e ∈ (⟨L.min, H.max, L.imin, H.imax⟩ : VRange).bounds, e.isLocal = false := by
        intro e he
        simp only [VRange.bounds, List.mem_append, Option.mem_toList] at he
        rcases he with he | he
        · exact (pick L hL).2.2.1 e (VRange.mem_bounds_min he)
        · exact (pick H hH).2.2.1 e (VRange.mem_bounds_max he)
      refine Or.inr ⟨_, hc, ⟨hrw, htn.1, htn.2, ⟨_, rfl⟩⟩, hrw, htn.1, hnl, ?_, ?_, ⟨?_, ?_⟩⟩
      · intro m hm; exact (pick L hL).2.2.2.1 m hm
      · intro M hM; exact (pick H hH).2.2.2.2.1 M hM
      · intro m hm hi; exact (pick L hL).2.2.2.2.2.1 m hm hi
      · intro M hM hi; exact (pick H hH).2.2.2.2.2.2 M hM hi

theorem partOK_flatten {LoI HiI : List Version} {p : Version} {q : VC} (h : PartOK LoI HiI p q) :
    ∀ x ∈ q.flatten, RngMember x ∧ x.PSem LoI HiI p := by
  intro x hx
  rcases h with rfl | ⟨r, rfl, h1, h2⟩
  · simp [VC.flatten] at hx
  · simp [VC.flatten] at hx; subst hx; exact ⟨h1, r, rfl, h2⟩

/-- every part the walk collects comes from a pairwise intersection -/
theorem loop_parts_inv (I J : RC → Prop) (Q : VC → Prop)
    (hstep : ∀ o t i, I o → J t → RC.intersect o t = .ok i → Q i) :
    ∀ (fuel : Nat) (ours theirs : List RC) (acc parts : List VC),
      VC.unionIntersectLoop fuel ours theirs acc = .ok parts → (∀ c ∈ ours, I c) → (∀ c ∈ theirs, J c) →
      (∀ q ∈ acc, Q q) → ∀ q ∈ parts, Q q
  | 0, _, _, _, _, h, _, _, _ => by simp [VC.unionIntersectLoop] at h
  | fuel + 1, [], theirs, acc, parts, h, _, _, ha => by
    simp only [VC.unionIntersectLoop, Except.ok.injEq] at h; subst h; exact ha
  | fuel + 1, o :: os, [], acc, parts, h, _, _, ha => by
    simp only [VC.unionIntersectLoop, Except.ok.injEq] at h; subst h; exact ha
  | fuel + 1, o :: os, t :: ts, acc, parts, h, ho, ht, ha => by
    simp only [VC.unionIntersectLoop, bind, Except.bind] at h
    cases hi : RC.intersect o t with
    | error e => simp [hi] at h
    | ok i =>
      simp only [hi] at h
      have hq := hstep o t i (ho o (by simp)) (ht t (by simp)) hi
      have ha' : ∀ q ∈ (if i.isEmpty = true then acc else acc ++ [i]), Q q := by
        intro q hq'
        split at hq'
        · exact ha q hq'
        · simp only [List.mem_append, List.mem_singleton] at hq'
          rcases hq' with h1 | rfl
          · exact ha q h1
          · exact hq
      split at h
      · exact loop_parts_inv I J Q hstep fuel os (t :: ts) _ parts h (fun c hc => ho c (by simp [hc])) ht ha'
      · exact loop_parts_inv I J Q hstep fuel (o :: os) ts _ parts h ho (fun c hc => ht c (by simp [hc])) ha'

theorem anyAllows_flatMap_parts (parts : List VC) (p : Version) :
    anyAllows (parts.flatMap VC.flatten) p = true ↔ anyPart parts p := by
  simp only [anyAllows, List.any_eq_true, List.mem_flatMap, anyPart, VC.allowsPlain]
  constructor
  · rintro ⟨x, ⟨q, hq, hx⟩, hxp⟩; exact ⟨q, hq, x, hx, hxp⟩
  · rintro ⟨q, hq, x, hx, hxp⟩; exact ⟨x, ⟨q, hq, hx⟩, hxp⟩

/-- **`intersect` of two constraints over range members, at the probe**: defined, the invariant is kept, and the
result admits the probe exactly when both operands do -/
theorem VC.intersect_at {LoI HiI : List Version} (hnp : NoPoint LoI HiI) (p : Version) (hp : p.wf = true)
    (a b : VC) (ha : a.PInv LoI HiI p) (hb : b.PInv LoI HiI p) :
    ∃ c, VC.intersect a b = .ok c ∧ c.PInv LoI HiI p ∧ c.allowsPlain p = (a.allowsPlain p && b.allowsPlain p) := by
  -- the pairwise step on members
  have step : ∀ o t i, (RngMember o ∧ o.PSem LoI HiI p) → (RngMember t ∧ t.PSem LoI HiI p) →
      RC.intersect o t = .ok i → PartOK LoI HiI p i := by
    rintro o t i ⟨ho1, r, rfl, hr⟩ ⟨ht1, s, rfl, hs⟩ hi
    obtain ⟨c, h1, _, h3⟩ := rng_intersect_psem hnp r s p hp hr hs ho1.2.2.1 ht1.2.2.1
    have : i = c := by
      have : RC.rngIntersectRng r s = .ok i := hi
      rw [h1] at this; injection this with this; exact this.symm
    rw [this]; exact h3
  have okOf : ∀ x, (RngMember x ∧ x.PSem LoI HiI p) → x.WF ∧ x.OKat p ∧ x.RngNoLocal := by
    rintro x ⟨hx1, r, rfl, hr⟩
    exact ⟨hx1.1, hr.okat, hr.2.2.1⟩
  have emptyInv : (VC.empty).PInv LoI HiI p := ⟨trivial, by simp [VC.flatten]⟩
  -- the walk followed by `VersionUnion.of`
  have walk : ∀ (fuel : Nat) (ours theirs : List RC), ours.length + theirs.length < fuel →
      (∀ c ∈ ours, RngMember c ∧ c.PSem LoI HiI p) → (∀ c ∈ theirs, RngMember c ∧ c.PSem LoI HiI p) →
      SortedRC ours → SortedRC theirs →
      ∃ c, (do let parts ← VC.unionIntersectLoop fuel ours theirs []; VC.unionOf parts) = .ok c ∧
        c.PInv LoI HiI p ∧ c.allowsPlain p = (anyAllows ours p && anyAllows theirs p) := by
    intro fuel ours theirs hf ho ht hso hst
    obtain ⟨parts, hparts, hsem, _⟩ := unionIntersectLoop_at p hp fuel ours theirs [] hf
      (fun c hc => okOf c (ho c hc)) (fun c hc => okOf c (ht c hc)) hso hst
    have hQ := loop_parts_inv (fun x => RngMember x ∧ x.PSem LoI HiI p) (fun x => RngMember x ∧ x.PSem LoI HiI p)
      (PartOK LoI HiI p) step fuel ours theirs []
      parts hparts ho ht (by simp)
    obtain ⟨res, hres, hwf, hmem, hrsem⟩ := unionOfFlat_at p hp (parts.flatMap VC.flatten) (by
      intro x hx
      obtain ⟨q, hq, hxq⟩ := List.mem_flatMap.1 hx
      exact partOK_flatten (hQ q hq) x hxq)
    refine ⟨res, by simp only [hparts, bind, Except.bind, VC.unionOf]; exact hres, ⟨hwf, hmem⟩, ?_⟩
    rw [hrsem]
    apply bool_eq_of_iff
    rw [anyAllows_flatMap_parts, hsem, Bool.and_eq_true]
    simp [anyPart]
  cases a with
  | empty => exact ⟨.empty, rfl, emptyInv, by simp [VC.allowsPlain, VC.flatten]⟩
  | single x =>
    have hx := ha.2 x (by simp [VC.flatten])
    cases b with
    | empty => exact ⟨.empty, rfl, emptyInv, by simp [VC.allowsPlain, VC.flatten]⟩
    | single y =>
      have hy := hb.2 y (by simp [VC.flatten])
      obtain ⟨hx1, r, rfl, hr⟩ := hx
      obtain ⟨hy1, s, rfl, hs⟩ := hy
      obtain ⟨c, h1, h2, h3⟩ := rng_intersect_psem hnp r s p hp hr hs hx1.2.2.1 hy1.2.2.1
      refine ⟨c, h1, ?_, by simpa [VC.allowsPlain, VC.flatten, RC.allows] using h2⟩
      rcases h3 with rfl | ⟨t, rfl, ht1, ht2⟩
      · exact emptyInv
      · exact ⟨⟨ht1.1, ht1.2.2.1⟩, by intro z hz; simp [VC.flatten] at hz; subst hz; exact ⟨ht1, t, rfl, ht2⟩⟩
    | union rs =>
      obtain ⟨c, h1, h2, h3⟩ := walk (rs.length + 2) rs [x] (by simp)
        (fun c hc => hb.2 c (by simpa [VC.flatten] using hc)) (by intro c hc; simp at hc; subst hc; exact hx)
        hb.1.2.2.1 (by simp [SortedRC])
      refine ⟨c, by rw [VC.intersect_single_union]; exact h1, h2, ?_⟩
      rw [h3, Bool.and_comm]
      simp [VC.allowsPlain, VC.flatten, anyAllows]
  | union rs =>
    obtain ⟨c, h1, h2, h3⟩ := walk (rs.length + b.flatten.length + 1) rs b.flatten (by omega)
      (fun c hc => ha.2 c (by simpa [VC.flatten] using hc)) hb.2 ha.1.2.2.1 (SortedRC_flatten_of_WF b hb.1)
    refine ⟨c, by simp only [VC.intersect]; exact h1, h2, ?_⟩
    rw [h3]
    simp [VC.allowsPlain, VC.flatten, anyAllows]

/-! ### the half-open fragment with unstable lower ends: every probe is fine -/

/-- a half-open range member without local label whose lower end (if any) is unstable — e.g. `[X.dev0, Y.dev0)`,
what `==V.*` builds -/
def RC.HalfOpenDev (x : RC) : Prop :=
  ∃ r, x = .rng r ∧ RngMember (.rng r) ∧ r.HalfOpen ∧ (∀ e ∈ r.bounds, e.isLocal = false) ∧
    ∀ m, r.min = some m → m.isUnstable = true

theorem RC.HalfOpenDev.psem {x : RC} (h : x.HalfOpenDev) (LoI : List Version) (hl : ∀ e ∈ x.bounds, e ∈ LoI)
    (p : Version) : RngMember x ∧ x.PSem LoI [] p := by
  obtain ⟨r, rfl, hm, ho, hnl, hu⟩ := h
  refine ⟨hm, r, rfl, hm.1, hm.2.1, hnl, ?_, ?_, ⟨?_, ?_⟩⟩
  · intro m hmm; exact Or.inr ⟨ho.1 m hmm, hu m hmm⟩
  · intro M hM; exact Or.inl (ho.2 M hM)
  · intro m hmm _; exact hl m (VRange.mem_bounds_min hmm)
  · intro M hM hi; rw [ho.2 M hM] at hi; cases hi

/-! ### a single `Version` (an `==V` clause) against ranges and unions -/

/-- the invariant with one more state: the constraint is a single `Version` the probe is regular for -/
def VC.QInv (LoI HiI : List Version) (c : VC) (p : Version) : Prop :=
  (∃ x, c = .single (.ver x) ∧ x.wf = true ∧ Reg1 p x) ∨ c.PInv LoI HiI p

theorem mergeLoop_vers (x : Version) (hx : x.wf = true) : ∀ (l : List RC), (∀ c ∈ l, c = .ver x) →
    (l ≠ [] → mergeLoop l [] = .ok [.ver x]) ∧ mergeLoop l [.ver x] = .ok [.ver x]
  | [], _ => ⟨fun h => absurd rfl h, rfl⟩
  | c :: rest, h => by
    have hc : c = .ver x := h c (by simp)
    subst hc
    have ih := mergeLoop_vers x hx rest (fun c hc => h c (by simp [hc]))
    have hself : x.allows x = true := Version.allows_of_vk_eq hx hx rfl
    have hany : RC.allowsAny (.ver x) (.ver x) = .ok true := by
      simp [RC.allowsAny, RC.intersect, RC.verIntersectVer, hself, bind, Except.bind, pure, Except.pure, VC.isEmpty]
    have hu : rcUnionSingle (.ver x) (.ver x) = .ok (some (.ver x)) := by
      simp [rcUnionSingle, RC.allows, hself]
    have step : mergeLoop (.ver x :: rest) [.ver x] = .ok [.ver x] := by
      simp only [mergeLoop, hany, bind, Except.bind, Bool.not_true, Bool.false_and, Bool.false_eq_true, if_false, hu]
      exact ih.2
    exact ⟨fun _ => by simp only [mergeLoop]; exact ih.2, step⟩

/-- `VersionUnion.of` on copies of one `Version` -/
theorem unionOfFlat_vers (x : Version) (hx : x.wf = true) (l : List RC) (h : ∀ c ∈ l, c = .ver x) :
    unionOfFlat l = .ok (if l = [] then .empty else .single (.ver x)) := by
  unfold unionOfFlat
  by_cases h1 : l = []
  · simp [h1]
  · have hne : l.isEmpty = false := by simpa using h1
    have hany : l.any RC.isAny = false := by
      rw [Bool.eq_false_iff]; intro ha
      obtain ⟨c, hc, hca⟩ := List.any_eq_true.1 ha
      rw [h c hc] at hca; simp [RC.isAny] at hca
    have hs : ∀ c ∈ sortRCs l, c = .ver x := fun c hc => h c ((mem_sortRCs c l).1 hc)
    have hsne : sortRCs l ≠ [] := by
      obtain ⟨a, as, ha⟩ := List.exists_cons_of_ne_nil h1
      intro e
      have : a ∈ sortRCs l := (mem_sortRCs a l).2 (by rw [ha]; simp)
      rw [e] at this; simp at this
    simp only [hne, hany, Bool.false_eq_true, if_false, (mergeLoop_vers x hx _ hs).1 hsne, bind, Except.bind, h1]
    rfl

/-- **a union of range members ∩ a single `Version`, at the probe** -/
theorem union_inter_ver_at {LoI HiI : List Version} (p : Version) (hp : p.wf = true) (rs : List RC) (x : Version)
    (hrs : (VC.union rs).PInv LoI HiI p) (hx : x.wf = true) (hrx : Reg1 p x) :
    ∃ c, VC.intersect (.union rs) (.single (.ver x)) = .ok c ∧ (c = .empty ∨ c = .single (.ver x)) ∧
      c.allowsPlain p = (anyAllows rs p && x.allows p) := by
  have hmem : ∀ c ∈ rs, RngMember c ∧ c.PSem LoI HiI p := fun c hc => hrs.2 c (by simpa [VC.flatten] using hc)
  have okOf : ∀ c ∈ rs, c.WF ∧ c.OKat p ∧ c.RngNoLocal := by
    intro c hc
    obtain ⟨h1, r, rfl, hr⟩ := hmem c hc
    exact ⟨h1.1, hr.okat, hr.2.2.1⟩
  obtain ⟨parts, hparts, hsem, _⟩ := unionIntersectLoop_at p hp (rs.length + 1 + 1) rs [.ver x] [] (by simp)
    okOf (by intro c hc; simp at hc; subst hc; exact ⟨hx, hrx, trivial⟩) hrs.1.2.2.1 (by simp [SortedRC])
  have hQ := loop_parts_inv (fun c => RngMember c ∧ c.PSem LoI HiI p) (fun c => c = .ver x)
    (fun q => q = .empty ∨ q = .single (.ver x)) (by
      rintro o t i ⟨ho1, r, rfl, hr⟩ rfl hi
      simp only [RC.intersect, Except.ok.injEq] at hi; subst hi
      exact ((RC.rngIntersectVer_at r x p hr.1.1 hx hp hr.okat hrx
        (fun m hm => hr.2.2.1 m (VRange.mem_bounds_min hm))).2).symm)
    (rs.length + 1 + 1) rs [.ver x] [] parts hparts hmem (by intro c hc; simpa using hc) (by simp)
  -- the parts flatten to copies of the version
  have hflat : ∀ c ∈ parts.flatMap VC.flatten, c = .ver x := by
    intro c hc
    obtain ⟨q, hq, hcq⟩ := List.mem_flatMap.1 hc
    rcases hQ q hq with rfl | rfl
    · simp [VC.flatten] at hcq
    · simpa [VC.flatten] using hcq
  have hres := unionOfFlat_vers x hx _ hflat
  refine ⟨_, by simp only [VC.intersect, VC.flatten, List.length_singleton, hparts, bind, Except.bind, VC.unionOf]
                exact hres, ?_, ?_⟩
  · split
    · exact Or.inl rfl
    · exact Or.inr rfl
  · have hs : anyPart parts p ↔ (anyAllows rs p = true ∧ x.allows p = true) := by
      rw [hsem]; simp [anyPart, anyAllows, RC.allows]
    by_cases he : parts.flatMap VC.flatten = []
    · simp only [he, if_true, VC.allowsPlain, VC.flatten, List.any_nil]
      have hno : ¬ anyPart parts p := by
        rw [← anyAllows_flatMap_parts, he]; simp [anyAllows]
      cases h1 : anyAllows rs p <;> cases h2 : x.allows p <;> simp
      exact hno (hs.2 ⟨h1, h2⟩)
    · simp only [he, if_false, VC.allowsPlain, VC.flatten, List.any_cons, List.any_nil, Bool.or_false, RC.allows]
      -- some part is the version: the parts admit `p` iff the version does
      have hsome : anyPart parts p ↔ x.allows p = true := by
        rw [← anyAllows_flatMap_parts]
        obtain ⟨c, cs, hcs⟩ := List.exists_cons_of_ne_nil he
        constructor
        · intro h
          obtain ⟨z, hz, hzp⟩ := List.any_eq_true.1 h
          rw [hflat z hz] at hzp; exact hzp
        · intro h
          refine List.any_eq_true.2 ⟨c, by rw [hcs]; simp, ?_⟩
          rw [hflat c (by rw [hcs]; simp)]; exact h
      apply bool_eq_of_iff
      rw [← hsome, hs, Bool.and_eq_true]

/-- **`intersect` at the probe, a single `Version` allowed as an operand or as the result** -/
theorem VC.intersect_atQ {LoI HiI : List Version} (hnp : NoPoint LoI HiI) (p : Version) (hp : p.wf = true)
    (a b : VC) (ha : a.QInv LoI HiI p) (hb : b.QInv LoI HiI p) :
    ∃ c, VC.intersect a b = .ok c ∧ c.QInv LoI HiI p ∧ c.allowsPlain p = (a.allowsPlain p && b.allowsPlain p) := by
  have emptyQ : (VC.empty).QInv LoI HiI p := Or.inr ⟨trivial, by simp [VC.flatten]⟩
  have verQ : ∀ x : Version, x.wf = true → Reg1 p x → ∀ c : VC, (c = .empty ∨ c = .single (.ver x)) →
      c.QInv LoI HiI p := by
    intro x hx hr c hc
    rcases hc with rfl | rfl
    · exact emptyQ
    · exact Or.inl ⟨x, rfl, hx, hr⟩
  -- a version against a constraint over range members
  have verRng : ∀ (x : Version), x.wf = true → Reg1 p x → ∀ c : VC, c.PInv LoI HiI p →
      (∃ r, VC.intersect (.single (.ver x)) c = .ok r ∧ (r = .empty ∨ r = .single (.ver x)) ∧
        r.allowsPlain p = (x.allows p && c.allowsPlain p)) ∧
      (∃ r, VC.intersect c (.single (.ver x)) = .ok r ∧ (r = .empty ∨ r = .single (.ver x)) ∧
        r.allowsPlain p = (c.allowsPlain p && x.allows p)) := by
    intro x hx hrx c hc
    cases c with
    | empty =>
      exact ⟨⟨.empty, rfl, Or.inl rfl, by simp [VC.allowsPlain, VC.flatten]⟩,
        ⟨.empty, rfl, Or.inl rfl, by simp [VC.allowsPlain, VC.flatten]⟩⟩
    | single y =>
      obtain ⟨hy1, s, rfl, hs⟩ := hc.2 y (by simp [VC.flatten])
      obtain ⟨h1, h2⟩ := RC.rngIntersectVer_at s x p hs.1.1 hx hp hs.okat hrx
        (fun m hm => hs.2.2.1 m (VRange.mem_bounds_min hm))
      exact ⟨⟨_, rfl, h2.symm, by rw [h1, Bool.and_comm]; simp [VC.allowsPlain, VC.flatten, RC.allows]⟩,
        ⟨_, rfl, h2.symm, by rw [h1]; simp [VC.allowsPlain, VC.flatten, RC.allows]⟩⟩
    | union rs =>
      obtain ⟨r, h1, h2, h3⟩ := union_inter_ver_at p hp rs x hc hx hrx
      exact ⟨⟨r, by rw [VC.intersect_single_union]; exact h1, h2, by
          rw [h3, Bool.and_comm]; simp [VC.allowsPlain, VC.flatten, anyAllows]⟩,
        ⟨r, h1, h2, by rw [h3]; simp [VC.allowsPlain, VC.flatten, anyAllows]⟩⟩
  rcases ha with ⟨x, rfl, hx, hrx⟩ | ha
  · rcases hb with ⟨y, rfl, hy, hry⟩ | hb
    · refine ⟨RC.verIntersectVer x y, rfl, ?_, by
        rw [RC.verIntersectVer_exact x y p hx hy hp hrx hry]; simp [VC.allowsPlain, VC.flatten, RC.allows]⟩
      unfold RC.verIntersectVer
      split
      · exact Or.inl ⟨y, rfl, hy, hry⟩
      · split
        · exact Or.inl ⟨x, rfl, hx, hrx⟩
        · exact emptyQ
    · obtain ⟨r, h1, h2, h3⟩ := (verRng x hx hrx b hb).1
      exact ⟨r, h1, verQ x hx hrx r h2, by rw [h3]; simp [VC.allowsPlain, VC.flatten, RC.allows]⟩
  · rcases hb with ⟨y, rfl, hy, hry⟩ | hb
    · obtain ⟨r, h1, h2, h3⟩ := (verRng y hy hry a ha).2
      exact ⟨r, h1, verQ y hy hry r h2, by rw [h3]; simp [VC.allowsPlain, VC.flatten, RC.allows]⟩
    · obtain ⟨c, h1, h2, h3⟩ := VC.intersect_at hnp p hp a b ha hb
      exact ⟨c, h1, Or.inr h2, h3⟩

/-! ### `union` of two constraints over range members, at the probe -/

/-- `is_strictly_lower` on the data it reads -/
def slB (A : Option Version) (ia : Bool) (m : Option Version) (im : Bool) : Bool :=
  match A, m with
  | some x, some y => if Version.lt x y then true else if Version.gt x y then false else !(ia && im)
  | _, _ => false

def hiB (A B : Option Version) (ia ib : Bool) : Bool :=
  match A, B with
  | none, o => o.isSome
  | some _, none => false
  | some x, some y => if Version.lt x y then false else if Version.gt x y then true else ia && !ib

def loB (m n : Option Version) (im jn : Bool) : Bool :=
  match m, n with
  | none, o => o.isSome
  | some _, none => false
  | some x, some y => if Version.lt x y then true else if Version.gt x y then false else im && !jn

theorem slB_hull (A B m n : Option Version) (ia ib im jn : Bool) (h1 : slB A ia m im = false)
    (h2 : slB B ib n jn = false) :
    slB (if hiB A B ia ib then A else B) (if hiB A B ia ib then ia else ib)
      (if loB m n im jn then m else n) (if loB m n im jn then im else jn) = false := by
  unfold slB hiB loB at *
  cases A <;> cases B <;> cases m <;> cases n <;> cases ia <;> cases ib <;> cases im <;> cases jn <;>
    simp [lt_iff, gt_iff] at * <;> grind

/-- the hull of two inhabited ranges is inhabited -/
theorem VRange.hull_NE' (a b : VRange) (ha : a.WF) (hb : b.WF) (hna : a.NE) (hnb : b.NE) : (VRange.hull a b).NE := by
  obtain ⟨t1, t2⟩ := VRange.hull_top a b ha hb
  have e : ∀ x y : VRange, x.isStrictlyLower y = slB x.allowedMax x.imax y.min y.imin := fun _ _ => rfl
  have eh : ∀ x y : VRange, x.allowsHigher y = hiB x.allowedMax y.allowedMax x.imax y.imax := fun _ _ => rfl
  have el : ∀ x y : VRange, x.allowsLower y = loB x.min y.min x.imin y.imin := fun _ _ => rfl
  unfold VRange.NE at *
  rw [e] at hna hnb ⊢
  rw [t1, t2, eh]
  have hm : (VRange.hull a b).min = (if loB a.min b.min a.imin b.imin then a.min else b.min) := by
    simp [VRange.hull, el]
  have hi : (VRange.hull a b).imin = (if loB a.min b.min a.imin b.imin then a.imin else b.imin) := by
    simp [VRange.hull, el]
  rw [hm, hi]
  exact slB_hull _ _ _ _ _ _ _ _ hna hnb

theorem VC.unionWith_at {LoI HiI : List Version} (p : Version) (hp : p.wf = true) (a b : VC)
    (ha : a.PInv LoI HiI p) (hb : b.PInv LoI HiI p) :
    ∃ c, VC.unionWith a b = .ok c ∧ c.PInv LoI HiI p ∧ c.allowsPlain p = (a.allowsPlain p || b.allowsPlain p) := by
  -- `VersionUnion.of` on the two operands
  have viaOf : ∃ c, VC.unionOf [a, b] = .ok c ∧ c.PInv LoI HiI p ∧
      c.allowsPlain p = (a.allowsPlain p || b.allowsPlain p) := by
    obtain ⟨res, h1, h2, h3, h4⟩ := unionOfFlat_at p hp ([a, b].flatMap VC.flatten) (by
      intro x hx
      simp only [List.flatMap_cons, List.flatMap_nil, List.append_nil, List.mem_append] at hx
      rcases hx with hx | hx
      · exact ha.2 x hx
      · exact hb.2 x hx)
    refine ⟨res, h1, ⟨h2, h3⟩, ?_⟩
    rw [h4]
    simp [anyAllows, VC.allowsPlain, List.any_append]
  cases a with
  | empty => exact ⟨b, rfl, hb, by simp [VC.allowsPlain, VC.flatten]⟩
  | union rs => exact viaOf
  | single x =>
    obtain ⟨hx1, r, rfl, hr⟩ := ha.2 x (by simp [VC.flatten])
    cases b with
    | empty => exact viaOf
    | union ts => exact viaOf
    | single y =>
      obtain ⟨hy1, s, rfl, hs⟩ := hb.2 y (by simp [VC.flatten])
      show ∃ c, RC.union (.rng r) (.rng s) = .ok c ∧ _
      by_cases hcond : (!(VRange.edgesTouch r s) && (s.isStrictlyLower r || r.isStrictlyLower s)) = true
      · have hu := VRange.rcUnionSingle_rng_none r s hcond
        have e : RC.union (.rng r) (.rng s) = unionOfFlat [.rng r, .rng s] := by
          simp [RC.union, hu, bind, Except.bind]
        rw [e]
        obtain ⟨c, h1, h2, h3⟩ := viaOf
        refine ⟨c, ?_, h2, h3⟩
        simpa [VC.unionOf, VC.flatten] using h1
      · simp only [Bool.not_eq_true] at hcond
        have hu := VRange.rcUnionSingle_rng_some r s hcond
        obtain ⟨hups, hex⟩ := VRange.hull_at r s p hp hr hs hcond
        have hne := VRange.hull_NE' r s hr.1 hs.1 hx1.2.2.1 hy1.2.2.1
        refine ⟨.single (.rng (VRange.hull r s)), by simp [RC.union, hu, bind, Except.bind, pure, Except.pure], ?_, ?_⟩
        · refine ⟨⟨hups.1, hne⟩, ?_⟩
          intro z hz
          simp [VC.flatten] at hz; subst hz
          exact ⟨⟨hups.1, hups.2.1, hne, ⟨_, rfl⟩⟩, _, rfl, hups⟩
        · simp [VC.allowsPlain, VC.flatten, RC.allows, hex]

end Poetry
