/-
C19 helper lemmas (a3): the text `_merge_python_version_single_markers` rewrites and parses again
(`pyRewrite`, Proofs/MarkerProjNames.lean — the `str'` of `Model/MarkerAlg.mergePythonVersion`) is read back by the
marker grammar, for a non-swapped `python_full_version` marker with a grammar operator and a plain value that does
not hold the letter `y` (so `str.replace("python_full_version", …)` cannot touch the value).
-/
import PoetryVerif.Proofs.ParserTotalLex
import PoetryVerif.Proofs.PyConvPairRewrite

set_option linter.unusedSimpArgs false
set_option linter.unusedVariables false
set_option linter.unusedTactic false

namespace Poetry.ParserTotal
open Poetry Marker

/-- `str.replace("python_full_version", "python_version")` leaves a text without the letter `y` unchanged -/
theorem replaceAux_noY (fuel : Nat) : ∀ (s : List Char), 'y' ∉ s → replaceAux pfvL pvL fuel s = s := by
  induction fuel with
  | zero => intro s _; simp [replaceAux]
  | succ f ih =>
    intro s hs
    cases s with
    | nil => simp [replaceAux]
    | cons c cs =>
      rw [replaceAux]
      have hne : pfvL.isEmpty = false := by simp [pfvL]
      have hsp : stripPrefix? pfvL (c :: cs) = none := by
        cases cs with
        | nil => simp [pfvL, stripPrefix?]
        | cons d ds =>
          have hd : d ≠ 'y' := fun e => hs (by simp [e])
          have hd' : ('y' == d) = false := by rw [beq_eq_false_iff_ne]; exact fun e => hd e.symm
          simp [pfvL, stripPrefix?, hd']
      simp only [hne, Bool.false_eq_true, if_false, hsp]
      rw [ih cs (fun h => hs (by simp [h]))]

theorem ops_noY : ∀ op ∈ ops, 'y' ∉ op.toList := by decide

/-- the characters of a printed `name op "value"` marker with a plain value -/
theorem ltl (n op v : String) (hv : PlainStr v) :
    (leafText n op v false).toList = n.toList ++ ' ' :: (op.toList ++ ' ' :: '"' :: (v.toList ++ ['"'])) := by
  have hq : quoteOf v = "\"" := quoteOf_dq (fun c hc => ⟨(hv c hc).1, (hv c hc).2.1⟩)
  have hq1 : ("\"" : String).toList = ['"'] := by decide
  have hsp : (" " : String).toList = [' '] := by decide
  simp [leafText, String.toList_append, hq1, hsp, hq]

/-- the characters of a printed `python_full_version op "value"` marker -/
theorem pfv_text_chars (op v : String) (hv : PlainStr v) :
    (leafText "python_full_version" op v false).toList =
      pfvL ++ ' ' :: (op.toList ++ ' ' :: '"' :: (v.toList ++ ['"'])) := by
  rw [ltl _ _ _ hv, pfvL_eq]

/-- … and after `str.replace` -/
theorem pfv_text_replaced (op v : String) (ho : op ∈ ops) (hv : PlainStr v) (hy : 'y' ∉ v.toList) :
    (strReplace (leafText "python_full_version" op v false) "python_full_version" "python_version").toList =
      pvL ++ ' ' :: (op.toList ++ ' ' :: '"' :: (v.toList ++ ['"'])) := by
  unfold strReplace
  have hL := pfv_text_chars op v hv
  have hlen : (leafText "python_full_version" op v false).length + 1 =
      ((pfvL ++ ' ' :: (op.toList ++ ' ' :: '"' :: (v.toList ++ ['"']))).length - 1) + 2 := by
    rw [← String.length_toList, hL]
    simp [pfvL]
  simp only [String.toList_ofList, pfvL_eq, pvL_eq, hL]
  rw [hlen, replace_pfv_head, replaceAux_noY]
  intro h
  simp only [List.mem_append, List.mem_cons, List.mem_singleton] at h
  rcases h with h | h | h | h | h
  · exact ops_noY op ho h
  · revert h; decide
  · revert h; decide
  · exact hy h
  · revert h; decide

theorem take_init (A : List Char) (x : Char) : (A ++ [x]).take ((A ++ [x]).length - 1) = A := by
  simp

theorem plain_append_pad {v : String} (hv : PlainStr v) (k : Nat) :
    PlainStr (v ++ String.join (List.replicate k ".0")) := by
  intro c hc
  simp only [String.toList_append, List.mem_append] at hc
  rcases hc with hc | hc
  · exact hv c hc
  · rcases join_dotzero_chars _ c hc with rfl | rfl <;> decide

/-- the printed text with the closing quote dropped, a padding appended and the quote put back is the printed text
of the padded value -/
theorem pad_text (nL : List Char) (n op v : String) (hn : n.toList = nL) (hv : PlainStr v) (k : Nat)
    (X : String)
    (hX : X.toList = (nL ++ ' ' :: (op.toList ++ ' ' :: '"' :: (v.toList ++ ['"']))).take
      ((nL ++ ' ' :: (op.toList ++ ' ' :: '"' :: (v.toList ++ ['"']))).length - 1) ++
      (String.join (List.replicate k ".0")).toList ++ ['"']) :
    X = leafText n op (v ++ String.join (List.replicate k ".0")) false := by
  apply str_eq_of_toList
  have hp := plain_append_pad hv k
  rw [hX, ltl _ _ _ hp, hn]
  have e : nL ++ ' ' :: (op.toList ++ ' ' :: '"' :: (v.toList ++ ['"'])) =
      (nL ++ ' ' :: (op.toList ++ ' ' :: '"' :: v.toList)) ++ ['"'] := by simp
  rw [e, take_init]
  simp [String.toList_append]

theorem noY_pad {v : String} (hy : 'y' ∉ v.toList) (k : Nat) :
    'y' ∉ (v ++ String.join (List.replicate k ".0")).toList := by
  intro h
  simp only [String.toList_append, List.mem_append] at h
  rcases h with h | h
  · exact hy h
  · rcases join_dotzero_chars _ _ h with h | h <;> revert h <;> decide

theorem suffix_dotzero (B V : List Char) (h : ['.', '0'] <:+ (B ++ '"' :: V)) : ∃ W, V = W ++ ['.', '0'] := by
  obtain ⟨t, ht⟩ := h
  have hr := congrArg List.reverse ht
  simp only [List.reverse_append, List.reverse_cons, List.reverse_nil, List.nil_append, List.append_assoc,
    List.cons_append] at hr
  cases hV : V.reverse with
  | nil => rw [hV] at hr; simp at hr
  | cons x r =>
    cases r with
    | nil => rw [hV] at hr; simp at hr
    | cons y r' =>
      rw [hV] at hr
      simp only [List.cons_append, List.cons.injEq] at hr
      refine ⟨r'.reverse, ?_⟩
      have : V = (x :: y :: r').reverse := by rw [← hV, List.reverse_reverse]
      rw [this, ← hr.1, ← hr.2.1]
      simp

theorem take_init3 (A : List Char) (x y z : Char) : (A ++ [x, y, z]).take ((A ++ [x, y, z]).length - 3) = A := by
  simp

/-- the rewriting case that drops a trailing `.0` of the value (`precision == 3`, `<` / `>=`) -/
def DropsZero (ms : Single) : Prop :=
  let str := leafText ms.name ms.op ms.value ms.swapped
  ¬ (countChar '.' str + 1 < 3) ∧
    (countChar '.' str + 1 == 3 && (ms.op == "<" || ms.op == ">=") && (dropRight str 1).endsWith ".0") = true

/-- **the rewritten text of a merged `python_full_version` marker is read back by the grammar** (all four cases) -/
theorem pyRewrite_parses (ms : Single) (hname : ms.name = "python_full_version") (hsw : ms.swapped = false)
    (hop : ms.op ∈ ops) (hv : PlainStr ms.value) (hy : 'y' ∉ ms.value.toList) :
    ∃ n v, (n = "python_version" ∨ n = "python_full_version") ∧ PlainStr v ∧ 'y' ∉ v.toList ∧
      parseText (pyRewrite ms) = .ok (.one (.item n ms.op v false)) := by
  obtain ⟨name, op, value, sw, c⟩ := ms
  simp only at hname hsw hop hv hy
  subst hname hsw
  have hq1 : ("\"" : String).toList = ['"'] := by decide
  unfold pyRewrite
  simp only
  by_cases hprec : countChar '.' (leafText "python_full_version" op value false) + 1 < 3
  · rw [if_pos hprec]
    by_cases hlg : (op == "<" || op == ">=") = true
    · simp only [hlg, if_true]
      generalize (2 - (countChar '.' (leafText "python_full_version" op value false) + 1)) = k
      refine ⟨"python_version", value ++ String.join (List.replicate k ".0"), .inl rfl, plain_append_pad hv k,
        noY_pad hy k, ?_⟩
      rw [pad_text pvL "python_version" op value (by rw [pvL_eq]) hv k
        (dropRight (strReplace (leafText "python_full_version" op value false) "python_full_version"
          "python_version") 1 ++ String.join (List.replicate k ".0") ++ "\"")
        (by simp only [String.toList_append, dropRight_toList, pfv_text_replaced op value hop hv hy, hq1])]
      exact parseText_leafText _ _ _ _ (by decide) hop (plain_append_pad hv _).lex
    · simp only [hlg, if_false, Bool.false_eq_true]
      generalize (3 - (countChar '.' (leafText "python_full_version" op value false) + 1)) = k
      refine ⟨"python_full_version", value ++ String.join (List.replicate k ".0"), .inr rfl,
        plain_append_pad hv k, noY_pad hy k, ?_⟩
      rw [pad_text pfvL "python_full_version" op value (by rw [pfvL_eq]) hv k
        (dropRight (leafText "python_full_version" op value false) 1 ++ String.join (List.replicate k ".0") ++ "\"")
        (by simp only [String.toList_append, dropRight_toList, pfv_text_chars op value hv, hq1])]
      exact parseText_leafText _ _ _ _ (by decide) hop (plain_append_pad hv _).lex
  · rw [if_neg hprec]
    by_cases h3 : (countChar '.' (leafText "python_full_version" op value false) + 1 == 3 &&
        (op == "<" || op == ">=") && (dropRight (leafText "python_full_version" op value false) 1).endsWith ".0") = true
    · rw [if_pos h3]
      simp only [Bool.and_eq_true] at h3
      have hends := (ends_iff _ _).1 h3.2
      have hdz : (".0" : String).toList = ['.', '0'] := by decide
      rw [hdz, dropRight_toList, pfv_text_chars op value hv] at hends
      have e1 : pfvL ++ ' ' :: (op.toList ++ ' ' :: '"' :: (value.toList ++ ['"'])) =
          (pfvL ++ ' ' :: (op.toList ++ ' ' :: '"' :: value.toList)) ++ ['"'] := by simp
      rw [e1, take_init] at hends
      have e2 : pfvL ++ ' ' :: (op.toList ++ ' ' :: '"' :: value.toList) =
          (pfvL ++ ' ' :: (op.toList ++ [' '])) ++ '"' :: value.toList := by simp
      rw [e2] at hends
      obtain ⟨W, hW⟩ := suffix_dotzero _ _ hends
      have hWsub : ∀ c ∈ W, c ∈ value.toList := fun c hc => by rw [hW]; simp [hc]
      have hWp : PlainStr (String.ofList W) := fun c hc => hv c (hWsub c (by simpa using hc))
      have hWy : 'y' ∉ (String.ofList W).toList := fun h => hy (hWsub _ (by simpa using h))
      refine ⟨"python_version", String.ofList W, .inl rfl, hWp, hWy, ?_⟩
      have hX : dropRight (strReplace (leafText "python_full_version" op value false) "python_full_version"
          "python_version") 3 ++ "\"" = leafText "python_version" op (String.ofList W) false := by
        apply str_eq_of_toList
        rw [ltl _ _ _ hWp, pvL_eq]
        simp only [String.toList_append, dropRight_toList, pfv_text_replaced op value hop hv hy, hq1,
          String.toList_ofList]
        have e3 : pvL ++ ' ' :: (op.toList ++ ' ' :: '"' :: (value.toList ++ ['"'])) =
            (pvL ++ ' ' :: (op.toList ++ ' ' :: '"' :: W)) ++ ['.', '0', '"'] := by rw [hW]; simp
        rw [e3, take_init3]
        simp
      rw [hX]
      exact parseText_leafText _ _ _ _ (by decide) hop hWp.lex
    · rw [if_neg h3]
      exact ⟨"python_full_version", value, .inr rfl, hv, hy,
        parseText_leafText _ _ _ _ (by decide) hop hv.lex⟩

/-- hence re-parsing it cannot raise lark's error -/
theorem parseItemMarker_pyRewrite_no_syntax (hvc : VCErrDocumented) (ms : Single)
    (hname : ms.name = "python_full_version") (hsw : ms.swapped = false) (hop : ms.op ∈ ops)
    (hv : PlainStr ms.value) (hy : 'y' ∉ ms.value.toList) (e : PyErr)
    (h : parseItemMarker (pyRewrite ms) = .error e) : e = .value ∨ e = .unmodelled := by
  obtain ⟨n, v, _, _, _, hp⟩ := pyRewrite_parses ms hname hsw hop hv hy
  unfold parseItemMarker at h
  rw [hp] at h
  rcases bind_err _ _ _ h with h | ⟨_, _, h⟩
  · exact mkSingle_leafErr hvc _ _ _ _ h
  · simp [pure, Except.pure] at h

/-- **the text `mergePythonVersion` re-parses is `pyRewrite ms`** (the model's `str'`, definitionally) -/
theorem mergePythonVersion_eq (d : Nat) (s1 s2 : Single) (isMulti : Bool) :
    mergePythonVersion d s1 s2 isMulti = (do
      let (vm, fm) := if s1.name == "python_version" then (s1, s2) else (s2, s1)
      let nc ← gpcLeaf (.single vm)
      let nm ← mkSingleOfC "python_full_version" (.ver nc)
      let merged ← mergeSingle d (.single nm) (.single fm) isMulti
      match merged with
      | none => pure none
      | some mm =>
        if M.beq mm (.leaf (.single nm)) then pure (some (.leaf (.single vm)))
        else
          match mm with
          | .leaf (.single ms) =>
            if ms.op == "in" || ms.op == "not in" then pure (some mm) else do
            let r ← parseItemMarker (pyRewrite ms)
            pure (some r)
          | other => pure (some other)) := by
  rw [mergePythonVersion.eq_def]
  rfl

/-- what the rewriting step needs of the merged `python_full_version` marker -/
def PyRw (ms : Single) : Prop :=
  ms.name = "python_full_version" ∧ ms.swapped = false ∧ ms.op ∈ ops ∧ PlainStr ms.value ∧ 'y' ∉ ms.value.toList

theorem blockErr_false_ne_syntax {e : PyErr} (h : BlockErr (MErrS false) e) : e ≠ .syntax := by
  rcases h with h | h | ⟨hf, _⟩ | h | h
  · rw [h]; decide
  · rw [h]; decide
  · cases hf
  · rw [h]; decide
  · rw [h]; decide

/-- **one step of `_merge_python_version_single_markers`**: if the nested merge of the two `python_full_version`
markers does not raise lark's error and, when it returns a single marker that is re-written, that marker is fit for
rewriting (`PyRw`), then the step does not raise lark's error.  The two hypotheses on the nested merge are what is
still to be transported through `_merge_single_markers` (see Props/C19.lean, Part XIII). -/
theorem mergePythonVersion_no_syntax {P : VC → Prop} (hvc : VCErrDocumented) (hP : VCOpsMin P) (d : Nat)
    (s1 s2 : Single) (isMulti : Bool)
    (hnest_err : ∀ l1 l2 e, mergeSingle d l1 l2 isMulti = .error e → e ≠ .syntax)
    (hnest_ok : ∀ l1 l2 ms, mergeSingle d l1 l2 isMulti = .ok (some (.leaf (.single ms))) →
      ¬ ((ms.op == "in" || ms.op == "not in") = true) → PyRw ms)
    (e : PyErr) (h : mergePythonVersion d s1 s2 isMulti = .error e) : e ≠ .syntax := by
  rw [mergePythonVersion_eq] at h
  split at h
  rename_i vm fm _
  rcases bind_err _ _ _ h with h | ⟨nc, hnc, h⟩
  · exact blockErr_false_ne_syntax ((gpcLeaf_res (sb := false) hvc hP _).of_err h)
  have hpnc : P nc := (gpcLeaf_res (sb := false) hvc hP _).of_ok hnc
  rcases bind_err _ _ _ h with h | ⟨nm, _, h⟩
  · exact blockErr_false_ne_syntax ((mkSingleOfC_res (sb := false) hvc hP _ _ (lcok_ver hpnc)).of_err h)
  rcases bind_err _ _ _ h with h | ⟨merged, hmerged, h⟩
  · exact hnest_err _ _ _ h
  cases merged with
  | none => simp [pure, Except.pure] at h
  | some mm =>
    simp only at h
    split at h
    · simp [pure, Except.pure] at h
    · split at h
      · split at h
        · simp [pure, Except.pure] at h
        · rename_i hin
          rcases bind_err _ _ _ h with h | ⟨_, _, h⟩
          · obtain ⟨h1, h2, h3, h4, h5⟩ := hnest_ok _ _ _ hmerged hin
            rcases parseItemMarker_pyRewrite_no_syntax hvc _ h1 h2 h3 h4 h5 e h with h | h <;> (rw [h]; decide)
          · simp [pure, Except.pure] at h
      · simp [pure, Except.pure] at h

end Poetry.ParserTotal
