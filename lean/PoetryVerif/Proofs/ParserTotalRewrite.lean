/-
C19 helper lemmas (a3): the text `_merge_python_version_single_markers` rewrites and parses again
(`pyRewrite`, Proofs/MarkerProjNames.lean — the `str'` of `Model/MarkerAlg.mergePythonVersion`) is read back by the
marker grammar, for a non-swapped `python_full_version` marker with a grammar operator and a plain value that does
not hold the letter `y` (so `str.replace("python_full_version", …)` cannot touch the value).
-/
import PoetryVerif.Proofs.ParserTotalLex
import PoetryVerif.Proofs.PyConvPairRewrite

set_option linter.unusedSimpArgs false
set_option linter.unusedVariables false
set_option linter.unusedTactic false

namespace Poetry.ParserTotal
open Poetry Marker

/-- `str.replace("python_full_version", "python_version")` leaves a text without the letter `y` unchanged -/
theorem replaceAux_noY (fuel : Nat) : ∀ (s : List Char), 'y' ∉ s → replaceAux pfvL pvL fuel s = s := by
  induction fuel with
  | zero => intro s _; simp [replaceAux]
  | succ f ih =>
    intro s hs
    cases s with
    | nil => simp [replaceAux]
    | cons c cs =>
      rw [replaceAux]
      have hne : pfvL.isEmpty = false := by simp [pfvL]
      have hsp : stripPrefix? pfvL (c :: cs) = none := by
        cases cs with
        | nil => simp [pfvL, stripPrefix?]
        | cons d ds =>
          have hd : d ≠ 'y' := fun e => hs (by simp [e])
          have hd' : ('y' == d) = false := by rw [beq_eq_false_iff_ne]; exact fun e => hd e.symm
          simp [pfvL, stripPrefix?, hd']
      simp only [hne, Bool.false_eq_true, if_false, hsp]
      rw [ih cs (fun h => hs (by simp [h]))]

theorem ops_noY : ∀ op ∈ ops, 'y' ∉ op.toList := by decide

/-- the characters of a printed `name op "value"` marker with a plain value -/
theorem ltl (n op v : String) (hv : PlainStr v) :
    (leafText n op v false).toList = n.toList ++ ' ' :: (op.toList ++ ' ' :: '"' :: (v.toList ++ ['"'])) := by
  have hq : quoteOf v = "\"" := quoteOf_dq (fun c hc => ⟨(hv c hc).1, (hv c hc).2.1⟩)
  have hq1 : ("\"" : String).toList = ['"'] := by decide
  have hsp : (" " : String).toList = [' '] := by decide
  simp [leafText, String.toList_append, hq1, hsp, hq]

/-- the characters of a printed `python_full_version op "value"` marker -/
theorem pfv_text_chars (op v : String) (hv : PlainStr v) :
    (leafText "python_full_version" op v false).toList =
      pfvL ++ ' ' :: (op.toList ++ ' ' :: '"' :: (v.toList ++ ['"'])) := by
  rw [ltl _ _ _ hv, pfvL_eq]

/-- … and after `str.replace` -/
theorem pfv_text_replaced (op v : String) (ho : op ∈ ops) (hv : PlainStr v) (hy : 'y' ∉ v.toList) :
    (strReplace (leafText "python_full_version" op v false) "python_full_version" "python_version").toList =
      pvL ++ ' ' :: (op.toList ++ ' ' :: '"' :: (v.toList ++ ['"'])) := by
  unfold strReplace
  have hL := pfv_text_chars op v hv
  have hlen : (leafText "python_full_version" op v false).length + 1 =
      ((pfvL ++ ' ' :: (op.toList ++ ' ' :: '"' :: (v.toList ++ ['"']))).length - 1) + 2 := by
    rw [← String.length_toList, hL]
    simp [pfvL]
  simp only [String.toList_ofList, pfvL_eq, pvL_eq, hL]
  rw [hlen, replace_pfv_head, replaceAux_noY]
  intro h
  simp only [List.mem_append, List.mem_cons, List.mem_singleton] at h
  rcases h with h | h | h | h | h
  · exact ops_noY op ho h
  · revert h; decide
  · revert h; decide
  · exact hy h
  · revert h; decide

theorem take_init (A : List Char) (x : Char) : (A ++ [x]).take ((A ++ [x]).length - 1) = A := by
  simp

theorem plain_append_pad {v : String} (hv : PlainStr v) (k : Nat) :
    PlainStr (v ++ String.join (List.replicate k ".0")) := by
  intro c hc
  simp only [String.toList_append, List.mem_append] at hc
  rcases hc with hc | hc
  · exact hv c hc
  · rcases join_dotzero_chars _ c hc with rfl | rfl <;> decide

/-- the printed text with the closing quote dropped, a padding appended and the quote put back is the printed text
of the padded value -/
theorem pad_text (nL : List Char) (n op v : String) (hn : n.toList = nL) (hv : PlainStr v) (k : Nat)
    (X : String)
    (hX : X.toList = (nL ++ ' ' :: (op.toList ++ ' ' :: '"' :: (v.toList ++ ['"']))).take
      ((nL ++ ' ' :: (op.toList ++ ' ' :: '"' :: (v.toList ++ ['"']))).length - 1) ++
      (String.join (List.replicate k ".0")).toList ++ ['"']) :
    X = leafText n op (v ++ String.join (List.replicate k ".0")) false := by
  apply str_eq_of_toList
  have hp := plain_append_pad hv k
  rw [hX, ltl _ _ _ hp, hn]
  have e : nL ++ ' ' :: (op.toList ++ ' ' :: '"' :: (v.toList ++ ['"'])) =
      (nL ++ ' ' :: (op.toList ++ ' ' :: '"' :: v.toList)) ++ ['"'] := by simp
  rw [e, take_init]
  simp [String.toList_append]

theorem noY_pad {v : String} (hy : 'y' ∉ v.toList) (k : Nat) :
    'y' ∉ (v ++ String.join (List.replicate k ".0")).toList := by
  intro h
  simp only [String.toList_append, List.mem_append] at h
  rcases h with h | h
  · exact hy h
  · rcases join_dotzero_chars _ _ h with h | h <;> revert h <;> decide

/-- the rewriting case that drops a trailing `.0` of the value (`precision == 3`, `<` / `>=`) -/
def DropsZero (ms : Single) : Prop :=
  let str := leafText ms.name ms.op ms.value ms.swapped
  ¬ (countChar '.' str + 1 < 3) ∧
    (countChar '.' str + 1 == 3 && (ms.op == "<" || ms.op == ">=") && (dropRight str 1).endsWith ".0") = true

/-- **the rewritten text of a merged `python_full_version` marker is read back by the grammar** (padding cases and
the unchanged case; the `.0`-dropping case is `DropsZero`) -/
theorem pyRewrite_parses (ms : Single) (hname : ms.name = "python_full_version") (hsw : ms.swapped = false)
    (hop : ms.op ∈ ops) (hv : PlainStr ms.value) (hy : 'y' ∉ ms.value.toList) (hnz : ¬ DropsZero ms) :
    ∃ n v, (n = "python_version" ∨ n = "python_full_version") ∧ PlainStr v ∧ 'y' ∉ v.toList ∧
      parseText (pyRewrite ms) = .ok (.one (.item n ms.op v false)) := by
  obtain ⟨name, op, value, sw, c⟩ := ms
  simp only at hname hsw hop hv hy
  subst hname hsw
  have hq1 : ("\"" : String).toList = ['"'] := by decide
  unfold pyRewrite
  simp only
  by_cases hprec : countChar '.' (leafText "python_full_version" op value false) + 1 < 3
  · rw [if_pos hprec]
    by_cases hlg : (op == "<" || op == ">=") = true
    · simp only [hlg, if_true]
      generalize (2 - (countChar '.' (leafText "python_full_version" op value false) + 1)) = k
      refine ⟨"python_version", value ++ String.join (List.replicate k ".0"), .inl rfl, plain_append_pad hv k,
        noY_pad hy k, ?_⟩
      rw [pad_text pvL "python_version" op value (by rw [pvL_eq]) hv k
        (dropRight (strReplace (leafText "python_full_version" op value false) "python_full_version"
          "python_version") 1 ++ String.join (List.replicate k ".0") ++ "\"")
        (by simp only [String.toList_append, dropRight_toList, pfv_text_replaced op value hop hv hy, hq1])]
      exact parseText_leafText _ _ _ _ (by decide) hop (plain_append_pad hv _).lex
    · simp only [hlg, if_false, Bool.false_eq_true]
      generalize (3 - (countChar '.' (leafText "python_full_version" op value false) + 1)) = k
      refine ⟨"python_full_version", value ++ String.join (List.replicate k ".0"), .inr rfl,
        plain_append_pad hv k, noY_pad hy k, ?_⟩
      rw [pad_text pfvL "python_full_version" op value (by rw [pfvL_eq]) hv k
        (dropRight (leafText "python_full_version" op value false) 1 ++ String.join (List.replicate k ".0") ++ "\"")
        (by simp only [String.toList_append, dropRight_toList, pfv_text_chars op value hv, hq1])]
      exact parseText_leafText _ _ _ _ (by decide) hop (plain_append_pad hv _).lex
  · rw [if_neg hprec]
    by_cases h3 : (countChar '.' (leafText "python_full_version" op value false) + 1 == 3 &&
        (op == "<" || op == ">=") && (dropRight (leafText "python_full_version" op value false) 1).endsWith ".0") = true
    · exact absurd ⟨hprec, h3⟩ hnz
    · rw [if_neg h3]
      exact ⟨"python_full_version", value, .inr rfl, hv, hy,
        parseText_leafText _ _ _ _ (by decide) hop hv.lex⟩

/-- hence re-parsing it cannot raise lark's error -/
theorem parseItemMarker_pyRewrite_no_syntax (hvc : VCErrDocumented) (ms : Single)
    (hname : ms.name = "python_full_version") (hsw : ms.swapped = false) (hop : ms.op ∈ ops)
    (hv : PlainStr ms.value) (hy : 'y' ∉ ms.value.toList) (hnz : ¬ DropsZero ms) (e : PyErr)
    (h : parseItemMarker (pyRewrite ms) = .error e) : e = .value ∨ e = .unmodelled := by
  obtain ⟨n, v, _, _, _, hp⟩ := pyRewrite_parses ms hname hsw hop hv hy hnz
  unfold parseItemMarker at h
  rw [hp] at h
  rcases bind_err _ _ _ h with h | ⟨_, _, h⟩
  · exact mkSingle_leafErr hvc _ _ _ _ h
  · simp [pure, Except.pure] at h

end Poetry.ParserTotal
