/- Every version returned by the model of `PEP440Parser.parse` is well-formed. -/
import PoetryVerif.Model.Version
set_option linter.unusedSimpArgs false

namespace Poetry.Version

theorem stripWord?_mem (ws : List String) (s : List Char) (w : String) (r : List Char)
    (h : stripWord? ws s = some (w, r)) : w ∈ ws := by
  induction ws with
  | nil => simp [stripWord?] at h
  | cons x xs ih =>
    unfold stripWord? at h
    split at h
    · simp at h; simp [h.1]
    · simp [ih h]

theorem labelled?_mem (ws : List String) (s : List Char) (w : String) (n : Nat) (r : List Char)
    (h : labelled? ws s = some (w, n, r)) : w ∈ ws := by
  unfold labelled? at h
  split at h
  · simp at h
  · rename_i w' r' hw
    simp at h
    exact h.1 ▸ stripWord?_mem ws _ w' r' hw

theorem parseLabelled_phase (ws : List String) (P : Phase → Bool)
    (hws : ∀ w ∈ ws, ∀ p, Phase.ofSpelling w = some p → P p = true) (s : List Char) :
    optAll (fun t => P t.phase) (parseLabelled ws s).1 = true := by
  unfold parseLabelled
  split
  · rename_i w n r h
    split
    · rename_i p hp
      simp [optAll, hws w (labelled?_mem ws s w n r h) p hp]
    · simp [optAll]
  · simp [optAll]

theorem parsePre_wf (s : List Char) : optAll Tag.isPre (parsePre s).1 = true := by
  have := parseLabelled_phase preWords (fun p => p == .a || p == .b || p == .rc)
    (by decide) s
  exact this

theorem parsePost_wf (s : List Char) : optAll (fun t => t.phase == .post) (parsePost s).1 = true := by
  unfold parsePost
  cases parsePostAlt1 s with
  | some x => simp [optAll]
  | none => exact parseLabelled_phase postWords (fun p => p == .post) (by decide) s

theorem parseDev_wf (s : List Char) : optAll (fun t => t.phase == .dev) (parseDev s).1 = true :=
  parseLabelled_phase devWords (fun p => p == .dev) (by decide) s

theorem normLocalSeg_ne_empty (s : String) (h : s.isEmpty = false) : (normLocalSeg s).isEmpty = false := by
  unfold normLocalSeg
  split
  · simp [natToString]
  · exact h

theorem localSegs_ne (fuel : Nat) (s : List Char) (segs : List String) (r : List Char)
    (h : localSegs fuel s = some (segs, r)) :
    segs.isEmpty = false ∧ segs.all (fun x => !x.isEmpty) = true := by
  induction fuel generalizing s segs r with
  | zero => simp [localSegs] at h
  | succ n ih =>
    unfold localSegs at h
    simp only at h
    generalize hts : takeLocalSeg s = ts at h
    obtain ⟨seg, rest⟩ := ts
    simp only at h
    by_cases he : seg.isEmpty = true
    · simp [he] at h
    · have hne : (String.ofList seg).isEmpty = false := by
        cases seg with
        | nil => simp at he
        | cons c cs => simp [String.isEmpty_iff]
      simp only [he] at h
      cases rest with
      | nil => simp at h; obtain ⟨rfl, _⟩ := h; simp [hne]
      | cons c cs =>
        simp only at h
        by_cases hc : isSep c = true
        · simp only [hc, if_true] at h
          cases hrec : localSegs n cs with
          | none => simp [hrec] at h; obtain ⟨rfl, _⟩ := h; simp [hne]
          | some pr =>
            obtain ⟨more, r'⟩ := pr
            simp [hrec] at h
            obtain ⟨rfl, _⟩ := h
            have := ih cs more r' hrec
            simp [hne, this.2]
        · simp [hc] at h; obtain ⟨rfl, _⟩ := h; simp [hne]

theorem parseLocal_wf (s : List Char) :
    optAll (fun ps => !ps.isEmpty && ps.all (fun x => !x.isEmpty)) (parseLocal s).1 = true := by
  unfold parseLocal
  cases s with
  | nil => simp [optAll]
  | cons c cs =>
    by_cases hc : c = '+'
    · subst hc
      simp only
      cases h : localSegs (cs.length + 1) cs with
      | none => simp [optAll]
      | some pr =>
        obtain ⟨segs, r⟩ := pr
        have := localSegs_ne _ cs segs r h
        simp only [optAll, List.isEmpty_map, this.1, Bool.not_false, Bool.true_and, List.all_map]
        rw [List.all_eq_true] at this ⊢
        intro x hx
        have h2 := this.2 x hx
        simp at h2 ⊢
        have := normLocalSeg_ne_empty x (by simpa [String.isEmpty_iff] using h2)
        simpa [String.isEmpty_iff] using this
    · split
      · rename_i heq; simp at heq; exact absurd heq.1 hc
      · simp [optAll]

theorem parseEpochRelease_ne (s : List Char) (e : Nat) (rel : List Nat) (r : List Char)
    (h : parseEpochRelease s = some (e, rel, r)) : rel.isEmpty = false := by
  unfold parseEpochRelease at h
  simp only at h
  split at h
  · simp at h
  · simp at h; rw [← h.2.1]; simp

theorem parseBody_wf (text : String) (s : List Char) (v : Version) (r : List Char)
    (h : parseBody text s = some (v, r)) : v.wf = true := by
  unfold parseBody at h
  simp only at h
  cases her : parseEpochRelease (stripV s) with
  | none => rw [her] at h; cases h
  | some tr =>
    obtain ⟨epoch, release, r2⟩ := tr
    rw [her] at h
    simp only [Option.some.injEq, Prod.mk.injEq] at h
    obtain ⟨rfl, _⟩ := h
    have hrel := parseEpochRelease_ne _ epoch release r2 her
    have hl := parseLocal_wf (parseDev (parsePost (parsePre r2).2).2).2
    simp only [wf, hrel, parsePre_wf, parsePost_wf, parseDev_wf, Bool.not_false, Bool.true_and]
    exact hl

/-- **Parsed versions are well-formed.** -/
theorem parse_wf (s : String) (v : Version) (h : parse s = .ok v) : v.wf = true := by
  unfold parse at h
  simp only at h
  cases hb : parseBody s (dropSpaces (s.toList.map lowerChar)) with
  | none => rw [hb] at h; cases h
  | some pr =>
    obtain ⟨v', rest⟩ := pr
    rw [hb] at h
    simp only at h
    split at h
    · cases h; exact parseBody_wf _ _ _ _ hb
    · cases h

end Poetry.Version
