/-
Semantics of marker trees relative to a leaf evaluator, variables mentioned, and the projection
theorems for `only` / `exclude` (helper lemmas for C17).
-/
import PoetryVerif.Model.MarkerOps

set_option linter.unusedSimpArgs false
set_option linter.unusedVariables false

namespace Poetry.Marker

/-! ### truth of a marker tree, given the truth of its leaves -/

mutual
def M.sem (ev : Leaf → Bool) : M → Bool
  | .any => true
  | .empty => false
  | .leaf l => ev l
  | .multi ms => M.semAll ev ms
  | .union ms => M.semAny ev ms
def M.semAll (ev : Leaf → Bool) : List M → Bool
  | [] => true
  | m :: ms => M.sem ev m && M.semAll ev ms
def M.semAny (ev : Leaf → Bool) : List M → Bool
  | [] => false
  | m :: ms => M.sem ev m || M.semAny ev ms
end

mutual
def M.vars : M → List String
  | .any => []
  | .empty => []
  | .leaf l => [l.name]
  | .multi ms => M.varsList ms
  | .union ms => M.varsList ms
def M.varsList : List M → List String
  | [] => []
  | m :: ms => M.vars m ++ M.varsList ms
end

mutual
theorem only_weakens_aux (ev : Leaf → Bool) (S : List String)
    (hM : ∀ fuel stk ms r, multiOf fuel stk ms = .ok r → M.sem ev r = M.semAll ev ms)
    (hU : ∀ fuel stk ms r, unionOf fuel stk ms = .ok r → M.sem ev r = M.semAny ev ms)
    (m r : M) (h : M.only S m = .ok r) (hs : M.sem ev m = true) : M.sem ev r = true := by
  cases m with
  | any => simp [M.only] at h; subst h; simp [M.sem]
  | empty => simp [M.sem] at hs
  | leaf l =>
    simp [M.only] at h; subst h
    split <;> simp_all [M.sem]
  | multi ms =>
    simp only [M.only, bind, Except.bind] at h
    split at h
    · cases h
    · rename_i xs hx
      rw [hM _ _ _ _ h]
      exact (only_weakens_list ev S hM hU ms xs hx).1 (by simpa [M.sem] using hs)
  | union ms =>
    simp only [M.only, bind, Except.bind] at h
    split at h
    · cases h
    · rename_i xs hx
      rw [hU _ _ _ _ h]
      exact (only_weakens_list ev S hM hU ms xs hx).2 (by simpa [M.sem] using hs)
theorem only_weakens_list (ev : Leaf → Bool) (S : List String)
    (hM : ∀ fuel stk ms r, multiOf fuel stk ms = .ok r → M.sem ev r = M.semAll ev ms)
    (hU : ∀ fuel stk ms r, unionOf fuel stk ms = .ok r → M.sem ev r = M.semAny ev ms)
    (ms xs : List M) (h : M.onlyList S ms = .ok xs) :
    (M.semAll ev ms = true → M.semAll ev xs = true) ∧ (M.semAny ev ms = true → M.semAny ev xs = true) := by
  cases ms with
  | nil => simp [M.onlyList] at h; subst h; simp
  | cons m rest =>
    simp only [M.onlyList, bind, Except.bind] at h
    split at h
    · cases h
    · rename_i x hx
      split at h
      · cases h
      · rename_i ys hys
        simp [pure, Except.pure] at h; subst h
        have ih := only_weakens_list ev S hM hU rest ys hys
        have ih1 := only_weakens_aux ev S hM hU m x hx
        simp only [M.semAll, M.semAny, Bool.and_eq_true, Bool.or_eq_true]
        exact ⟨fun ⟨a, b⟩ => ⟨ih1 a, ih.1 b⟩, fun hab => hab.elim (fun a => Or.inl (ih1 a)) (fun b => Or.inr (ih.2 b))⟩
end

/-! ### `only` mentions only the requested variables -/

mutual
theorem only_mentions_aux (S : List String)
    (hM : ∀ fuel stk ms r, multiOf fuel stk ms = .ok r → ∀ n ∈ M.vars r, n ∈ M.varsList ms)
    (hU : ∀ fuel stk ms r, unionOf fuel stk ms = .ok r → ∀ n ∈ M.vars r, n ∈ M.varsList ms)
    (m r : M) (h : M.only S m = .ok r) : ∀ n ∈ M.vars r, n ∈ S := by
  cases m with
  | any => simp [M.only] at h; subst h; simp [M.vars]
  | empty => simp [M.only] at h; subst h; simp [M.vars]
  | leaf l =>
    simp [M.only] at h; subst h
    split
    · rename_i hc; simpa [M.vars] using hc
    · simp [M.vars]
  | multi ms =>
    simp only [M.only, bind, Except.bind] at h
    split at h
    · cases h
    · rename_i xs hx
      intro n hn
      exact only_mentions_list S hM hU ms xs hx n (hM _ _ _ _ h n hn)
  | union ms =>
    simp only [M.only, bind, Except.bind] at h
    split at h
    · cases h
    · rename_i xs hx
      intro n hn
      exact only_mentions_list S hM hU ms xs hx n (hU _ _ _ _ h n hn)
theorem only_mentions_list (S : List String)
    (hM : ∀ fuel stk ms r, multiOf fuel stk ms = .ok r → ∀ n ∈ M.vars r, n ∈ M.varsList ms)
    (hU : ∀ fuel stk ms r, unionOf fuel stk ms = .ok r → ∀ n ∈ M.vars r, n ∈ M.varsList ms)
    (ms xs : List M) (h : M.onlyList S ms = .ok xs) : ∀ n ∈ M.varsList xs, n ∈ S := by
  cases ms with
  | nil => simp [M.onlyList] at h; subst h; simp [M.varsList]
  | cons m rest =>
    simp only [M.onlyList, bind, Except.bind] at h
    split at h
    · cases h
    · rename_i x hx
      split at h
      · cases h
      · rename_i ys hys
        simp [pure, Except.pure] at h; subst h
        intro n hn
        simp only [M.varsList, List.mem_append] at hn
        rcases hn with hn | hn
        · exact only_mentions_aux S hM hU m x hx n hn
        · exact only_mentions_list S hM hU rest ys hys n hn
end

/-! ### `exclude` on a conjunction of single-marker-likes -/

/-- the members are all single-marker-likes -/
def allLeaves : List M → Bool
  | [] => true
  | .leaf _ :: ms => allLeaves ms
  | _ :: _ => false

/-- the conjunction of the members whose variable is not `x` -/
def semAllExcept (ev : Leaf → Bool) (x : String) : List M → Bool
  | [] => true
  | .leaf l :: ms => (if l.name == x then true else ev l) && semAllExcept ev x ms
  | m :: ms => M.sem ev m && semAllExcept ev x ms

theorem excludeList_leaves (ev : Leaf → Bool) (x : String) (ms : List M) (hl : allLeaves ms = true) :
    ∃ xs, M.excludeList x ms = .ok xs ∧ allLeaves xs = true ∧
      M.semAll ev xs = semAllExcept ev x ms := by
  induction ms with
  | nil => exact ⟨[], by simp [M.excludeList], rfl, rfl⟩
  | cons m rest ih =>
    cases m with
    | leaf l =>
      obtain ⟨ys, hys, hly, hsem⟩ := ih (by simpa [allLeaves] using hl)
      by_cases hn : (l.name == x) = true
      · refine ⟨ys, ?_, hly, ?_⟩
        · simp only [M.excludeList, isLeafNamed, hn, if_true]; exact hys
        · simp [semAllExcept, hn, hsem]
      · refine ⟨.leaf l :: ys, ?_, ?_, ?_⟩
        · simp only [M.excludeList, isLeafNamed, hn, M.exclude, bind, Except.bind, hys, pure, Except.pure]
          simp
        · simpa [allLeaves] using hly
        · simp [semAllExcept, hn, hsem, M.semAll, M.sem]
    | any => simp [allLeaves] at hl
    | empty => simp [allLeaves] at hl
    | multi _ => simp [allLeaves] at hl
    | union _ => simp [allLeaves] at hl

theorem filter_notEmpty_leaves (xs : List M) (h : allLeaves xs = true) :
    xs.filter (fun m => !m.isEmpty) = xs := by
  induction xs with
  | nil => rfl
  | cons m rest ih =>
    cases m with
    | leaf l =>
      have := ih (by simpa [allLeaves] using h)
      rw [List.filter_cons, this]; rfl
    | any => simp [allLeaves] at h
    | empty => simp [allLeaves] at h
    | multi _ => simp [allLeaves] at h
    | union _ => simp [allLeaves] at h

theorem exclude_conj_aux (ev : Leaf → Bool) (x : String)
    (hI : ∀ fuel stk ms r, intersectionF fuel stk ms = .ok r → M.sem ev r = M.semAll ev ms)
    (ms : List M) (hl : allLeaves ms = true) (r : M) (h : M.exclude x (.multi ms) = .ok r) :
    M.sem ev r = semAllExcept ev x ms := by
  obtain ⟨xs, hxs, hlx, hsem⟩ := excludeList_leaves ev x ms hl
  simp only [M.exclude, bind, Except.bind, hxs, filter_notEmpty_leaves xs hlx] at h
  rw [hI _ _ _ _ h, hsem]

/-! ### the tree semantics against poetry's own `validate` -/

mutual
def M.leaves : M → List Leaf
  | .any => []
  | .empty => []
  | .leaf l => [l]
  | .multi ms => M.leavesList ms
  | .union ms => M.leavesList ms
def M.leavesList : List M → List Leaf
  | [] => []
  | m :: ms => M.leaves m ++ M.leavesList ms
end

mutual
theorem validate_eq_sem (E : Env) (ev : Leaf → Bool) (m : M)
    (hl : ∀ l ∈ M.leaves m, Leaf.validate l E = .ok (ev l)) :
    M.validate E m = .ok (M.sem ev m) := by
  cases m with
  | any => simp [M.validate, M.sem]
  | empty => simp [M.validate, M.sem]
  | leaf l => simpa [M.validate, M.sem] using hl l (by simp [M.leaves])
  | multi ms =>
    simp only [M.validate, M.sem]
    exact (validate_eq_semList E ev ms (by simpa [M.leaves] using hl)).1
  | union ms =>
    simp only [M.validate, M.sem]
    exact (validate_eq_semList E ev ms (by simpa [M.leaves] using hl)).2
theorem validate_eq_semList (E : Env) (ev : Leaf → Bool) (ms : List M)
    (hl : ∀ l ∈ M.leavesList ms, Leaf.validate l E = .ok (ev l)) :
    M.validateAll E ms = .ok (M.semAll ev ms) ∧ M.validateAny E ms = .ok (M.semAny ev ms) := by
  cases ms with
  | nil => simp [M.validateAll, M.validateAny, M.semAll, M.semAny]
  | cons m rest =>
    have h1 := validate_eq_sem E ev m (fun l h => hl l (by simp [M.leavesList, h]))
    have h2 := validate_eq_semList E ev rest (fun l h => hl l (by simp [M.leavesList, h]))
    simp only [M.validateAll, M.validateAny, M.semAll, M.semAny, h1]
    cases hb : M.sem ev m <;> simp [h2.1, h2.2]
end

/-! ### `M.beq` preserves the variables mentioned -/

theorem Leaf.beq_name {a b : Leaf} (h : Leaf.beq a b = true) : a.name = b.name := by
  cases a <;> cases b <;> simp [Leaf.beq, Leaf.name] at h ⊢ <;> first | exact h.1.1.1 | exact h.1

mutual
theorem beq_vars (a b : M) (h : M.beq a b = true) : M.vars a = M.vars b := by
  cases a <;> cases b <;> simp [M.beq] at h <;> simp only [M.vars]
  · rw [Leaf.beq_name h]
  · exact beq_varsList _ _ h
  · exact beq_varsList _ _ h
theorem beq_varsList (as bs : List M) (h : M.beqList as bs = true) : M.varsList as = M.varsList bs := by
  cases as <;> cases bs <;> simp [M.beqList] at h <;> simp only [M.varsList]
  rw [beq_vars _ _ h.1, beq_varsList _ _ h.2]
end

/-! ### `filterM` in the exception monad -/

theorem filterAuxM_mem {α : Type} (p : α → PyM Bool) (as acc r : List α)
    (h : List.filterAuxM p as acc = .ok r) :
    ∀ x ∈ r, x ∈ acc ∨ (x ∈ as ∧ p x = .ok true) := by
  induction as generalizing acc with
  | nil => simp [List.filterAuxM, pure, Except.pure] at h; subst h; intro x hx; exact Or.inl hx
  | cons a t ih =>
    simp only [List.filterAuxM, bind, Except.bind] at h
    split at h
    · cases h
    · rename_i b hb
      intro x hx
      rcases ih _ h x hx with h1 | h1
      · cases b
        · simp at h1; exact Or.inl h1
        · simp at h1
          rcases h1 with rfl | h1
          · exact Or.inr ⟨by simp, hb⟩
          · exact Or.inl h1
      · exact Or.inr ⟨by simp [h1.1], h1.2⟩

theorem filterM_mem {α : Type} (p : α → PyM Bool) (as r : List α) (h : as.filterM p = .ok r) :
    ∀ x ∈ r, x ∈ as ∧ p x = .ok true := by
  simp only [List.filterM, bind, Except.bind] at h
  split at h
  · cases h
  · rename_i r' hr
    simp [pure, Except.pure] at h; subst h
    intro x hx
    rcases filterAuxM_mem p as [] r' hr x (by simpa using hx) with h1 | h1
    · simp at h1
    · exact h1

theorem semAny_of_mem (ev : Leaf → Bool) (ms : List M) (m : M) (hm : m ∈ ms) (h : M.sem ev m = true) :
    M.semAny ev ms = true := by
  induction ms with
  | nil => cases hm
  | cons a t ih =>
    simp only [M.semAny, Bool.or_eq_true]
    rcases List.mem_cons.1 hm with rfl | hm
    · exact Or.inl h
    · exact Or.inr (ih hm)

theorem semAny_exists (ev : Leaf → Bool) (ms : List M) (h : M.semAny ev ms = true) :
    ∃ m ∈ ms, M.sem ev m = true := by
  induction ms with
  | nil => simp [M.semAny] at h
  | cons a t ih =>
    simp only [M.semAny, Bool.or_eq_true] at h
    rcases h with h | h
    · exact ⟨a, by simp, h⟩
    · obtain ⟨m, hm, hs⟩ := ih h; exact ⟨m, by simp [hm], hs⟩

theorem varsList_mem (ms : List M) (n : String) (h : n ∈ M.varsList ms) : ∃ m ∈ ms, n ∈ M.vars m := by
  induction ms with
  | nil => simp [M.varsList] at h
  | cons a t ih =>
    simp only [M.varsList, List.mem_append] at h
    rcases h with h | h
    · exact ⟨a, by simp, h⟩
    · obtain ⟨m, hm, hs⟩ := ih h; exact ⟨m, by simp [hm], hs⟩

/-! ### `reduce_by_python_constraint` -/

def pyNames : List String := Gen.pythonVersionMarkers.reverse

/-- what the reduction theorem needs from the other developments, at one environment (leaf truth `ev`,
interpreter `py`) and one Python range `pc` that admits `py` -/
structure ReduceCtx (ev : Leaf → Bool) (pc : VC) (py : Version) : Prop where
  multiOf_sound : ∀ fuel stk ms r, multiOf fuel stk ms = .ok r → M.sem ev r = M.semAll ev ms
  unionOf_sound : ∀ fuel stk ms r, unionOf fuel stk ms = .ok r → M.sem ev r = M.semAny ev ms
  multiOf_vars : ∀ fuel stk ms r, multiOf fuel stk ms = .ok r → ∀ n ∈ M.vars r, n ∈ M.varsList ms
  unionOf_vars : ∀ fuel stk ms r, unionOf fuel stk ms = .ok r → ∀ n ∈ M.vars r, n ∈ M.varsList ms
  intersect_sound : ∀ fuel stk a b r, mIntersect fuel stk a b = .ok r →
    M.sem ev r = (M.sem ev a && M.sem ev b)
  /-- C11 `pyConstraint_exact` for a single-marker-like -/
  gpcLeaf_exact : ∀ (l : Leaf) (c : VC), isPyName l.name = true → gpcLeaf l = .ok c → c.allows py = .ok (ev l)
  /-- C11 `pyConstraint_exact` (the direction used) for python-only markers -/
  gpc_lower : ∀ (u : M) (g : VC), (∀ n ∈ M.vars u, n ∈ pyNames) → gpc u = .ok g → g.allows py = .ok true →
    M.sem ev u = true
  /-- C12 containment / overlap soundness at the probe `py` -/
  allowsAll_sound : ∀ c : VC, c.allowsAll pc = .ok true → c.allows py = .ok true
  allowsAny_sound : ∀ c : VC, c.allowsAny pc = .ok false → c.allows py = .ok true → False
  /-- C11 `createNested_exact` through poetry's own parser, at a range admitting `py` -/
  nested_true : ∀ (txt : String) (pm : M), createNestedMarker "python_version" pc = .ok txt → parseMarker txt = .ok pm →
    M.sem ev pm = true

theorem Leaf.reduce_exact {ev : Leaf → Bool} {pc : VC} {py : Version} (C : ReduceCtx ev pc py)
    (l : Leaf) (r : M) (h : Leaf.reduce l pc = .ok r) : M.sem ev r = ev l := by
  cases l with
  | amulti n c => simp [Leaf.reduce, pure, Except.pure] at h; subst h; rfl
  | aunion n c => simp [Leaf.reduce, pure, Except.pure] at h; subst h; rfl
  | single s =>
    simp only [Leaf.reduce] at h
    by_cases hp : isPyName s.name = true
    · simp only [hp, if_true, bind, Except.bind] at h
      split at h
      · cases h
      · rename_i c hc
        have hex := C.gpcLeaf_exact (.single s) c hp hc
        split at h
        · cases h
        · rename_i ball hall
          by_cases hb : ball = true
          · subst hb
            simp [pure, Except.pure] at h; subst h
            have := C.allowsAll_sound c hall
            rw [hex] at this
            simp only [M.sem]; injection this with this; exact this.symm
          · have hb' : ball = false := by cases ball <;> simp_all
            subst hb'
            simp only [Bool.false_eq_true, if_false] at h
            split at h
            · cases h
            · rename_i bany hany
              cases bany with
              | false =>
                simp [pure, Except.pure] at h; subst h
                simp only [M.sem]
                cases hev : ev (.single s) with
                | false => rfl
                | true => exact (C.allowsAny_sound c hany (by rw [hex, hev])).elim
              | true =>
                simp only [Bool.not_true, Bool.false_eq_true, if_false] at h
                split at h
                · cases h
                · rename_i txt htxt
                  split at h
                  · cases h
                  · rename_i pm hpm
                    split at h
                    · cases h
                    · rename_i i hi
                      have hs := C.intersect_sound _ _ _ _ _ hi
                      rw [C.nested_true txt pm htxt hpm] at hs
                      split at h <;> simp [pure, Except.pure] at h <;> subst h
                      · simpa [M.sem] using hs
                      · rfl
    · simp [hp, pure, Except.pure] at h; subst h; rfl

mutual
theorem reduce_exact_aux {ev : Leaf → Bool} {pc : VC} {py : Version} (C : ReduceCtx ev pc py)
    (m r : M) (h : M.reduce pc m = .ok r) : M.sem ev r = M.sem ev m := by
  cases m with
  | any => simp [M.reduce] at h; subst h; rfl
  | empty => simp [M.reduce] at h; subst h; rfl
  | leaf l => simp only [M.reduce] at h; simpa [M.sem] using Leaf.reduce_exact C l r h
  | multi ms =>
    simp only [M.reduce, bind, Except.bind] at h
    split at h
    · cases h
    · rename_i xs hx
      rw [C.multiOf_sound _ _ _ _ h]
      simpa [M.sem] using (reduce_exact_list C ms xs hx).1
  | union ms =>
    simp only [M.reduce, bind, Except.bind] at h
    split at h
    · cases h
    · rename_i sc hsc
      cases sc with
      | true =>
        simp [pure, Except.pure] at h; subst h
        -- the shortcut answered yes
        by_cases hr : isRangeOrUnion pc = true
        · simp only [hr, if_true] at hsc
          split at hsc
          · cases hsc
          · rename_i pyOnly hpo
            split at hsc
            · cases hsc
            · rename_i u hu
              split at hsc
              · cases hsc
              · rename_i g hg
                have hmem := filterM_mem _ ms pyOnly hpo
                have hvars : ∀ n ∈ M.vars u, n ∈ pyNames := by
                  intro n hn
                  obtain ⟨m, hm, hnm⟩ := varsList_mem pyOnly n (C.unionOf_vars _ _ _ _ hu n hn)
                  have := (hmem m hm).2
                  split at this
                  · cases this
                  · rename_i o ho
                    simp [pure, Except.pure] at this
                    rw [beq_vars _ _ this] at hnm
                    exact only_mentions_aux pyNames C.multiOf_vars C.unionOf_vars m o ho n hnm
                have hsu := C.gpc_lower u g hvars hg (C.allowsAll_sound g hsc)
                rw [C.unionOf_sound _ _ _ _ hu] at hsu
                obtain ⟨m, hm, hs⟩ := semAny_exists ev pyOnly hsu
                simp only [M.sem]
                exact (semAny_of_mem ev ms m (hmem m hm).1 hs).symm ▸ rfl
        · simp [hr, pure, Except.pure] at hsc
      | false =>
        simp only [Bool.false_eq_true, if_false] at h
        split at h
        · cases h
        · rename_i xs hx
          rw [C.unionOf_sound _ _ _ _ h]
          simpa [M.sem] using (reduce_exact_list C ms xs hx).2
theorem reduce_exact_list {ev : Leaf → Bool} {pc : VC} {py : Version} (C : ReduceCtx ev pc py)
    (ms xs : List M) (h : M.reduceList pc ms = .ok xs) :
    M.semAll ev xs = M.semAll ev ms ∧ M.semAny ev xs = M.semAny ev ms := by
  cases ms with
  | nil => simp [M.reduceList] at h; subst h; simp
  | cons m rest =>
    simp only [M.reduceList, bind, Except.bind] at h
    split at h
    · cases h
    · rename_i x hx
      split at h
      · cases h
      · rename_i ys hys
        simp [pure, Except.pure] at h; subst h
        have ih := reduce_exact_list C rest ys hys
        have ih1 := reduce_exact_aux C m x hx
        simp only [M.semAll, M.semAny, ih1, ih.1, ih.2, and_self]
end

end Poetry.Marker
