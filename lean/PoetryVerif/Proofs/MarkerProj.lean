/-
Variables mentioned by a marker tree and the projection theorems for `only` / `exclude` /
`reduce_by_python_constraint` (helper lemmas for C17), over the tree semantics `M.sem` of
Proofs/MarkerSem.lean and the simplifier soundness of Proofs/MarkerAlgSound.lean.
-/
import PoetryVerif.Proofs.MarkerAlgSound

set_option linter.unusedSimpArgs false
set_option linter.unusedVariables false

namespace Poetry.Marker

/-! ### variables mentioned -/

mutual
def M.vars : M → List String
  | .any => []
  | .empty => []
  | .leaf l => [l.name]
  | .multi ms => M.varsList ms
  | .union ms => M.varsList ms
def M.varsList : List M → List String
  | [] => []
  | m :: ms => M.vars m ++ M.varsList ms
end

variable {ev : Leaf → Bool} {G : Leaf → Prop}

mutual
theorem only_weakens_aux (S : LeafSpec ev G) (names : List String)
    (m r : M) (hg : M.Good G m) (h : M.only names m = .ok r) :
    M.Good G r ∧ (M.sem ev m = true → M.sem ev r = true) := by
  cases m with
  | any => simp [M.only] at h; subst h; simp
  | empty => simp [M.only] at h; subst h; simp
  | leaf l =>
    simp [M.only] at h; subst h
    split
    · exact ⟨hg, id⟩
    · simp
  | multi ms =>
    simp only [M.only, bind, Except.bind] at h
    split at h
    · cases h
    · rename_i xs hx
      have hl := only_weakens_list S names ms xs (by simpa [M.Good] using hg) hx
      have hs := multiOf_sound S hl.1 h
      refine ⟨hs.1, fun hm => ?_⟩
      rw [hs.2]; exact hl.2.1 (by simpa only [M.sem] using hm)
  | union ms =>
    simp only [M.only, bind, Except.bind] at h
    split at h
    · cases h
    · rename_i xs hx
      have hl := only_weakens_list S names ms xs (by simpa [M.Good] using hg) hx
      have hs := unionOf_sound S hl.1 h
      refine ⟨hs.1, fun hm => ?_⟩
      rw [hs.2]; exact hl.2.2 (by simpa only [M.sem] using hm)
theorem only_weakens_list (S : LeafSpec ev G) (names : List String)
    (ms xs : List M) (hg : M.GoodAll G ms) (h : M.onlyList names ms = .ok xs) :
    M.GoodAll G xs ∧ (M.semAll ev ms = true → M.semAll ev xs = true) ∧
      (M.semAny ev ms = true → M.semAny ev xs = true) := by
  cases ms with
  | nil => simp [M.onlyList] at h; subst h; simp [M.GoodAll]
  | cons m rest =>
    simp only [M.onlyList, bind, Except.bind] at h
    split at h
    · cases h
    · rename_i x hx
      split at h
      · cases h
      · rename_i ys hys
        simp [pure, Except.pure] at h; subst h
        have ih := only_weakens_list S names rest ys hg.2 hys
        have ih1 := only_weakens_aux S names m x hg.1 hx
        simp only [M.semAll, M.semAny, Bool.and_eq_true, Bool.or_eq_true, M.GoodAll]
        exact ⟨⟨ih1.1, ih.1⟩, fun ⟨a, b⟩ => ⟨ih1.2 a, ih.2.1 b⟩,
          fun hab => hab.elim (fun a => Or.inl (ih1.2 a)) (fun b => Or.inr (ih.2.2 b))⟩
end

/-! ### `exclude` on a conjunction of single-marker-likes -/

/-- the members are all single-marker-likes -/
def allLeaves : List M → Bool
  | [] => true
  | .leaf _ :: ms => allLeaves ms
  | _ :: _ => false

/-- the conjunction of the members whose variable is not `x` -/
def semAllExcept (ev : Leaf → Bool) (x : String) : List M → Bool
  | [] => true
  | .leaf l :: ms => (if l.name == x then true else ev l) && semAllExcept ev x ms
  | m :: ms => M.sem ev m && semAllExcept ev x ms

theorem excludeList_leaves (ev : Leaf → Bool) (G : Leaf → Prop) (x : String) (ms : List M)
    (hl : allLeaves ms = true) (hg : M.GoodAll G ms) :
    ∃ xs, M.excludeList x ms = .ok xs ∧ allLeaves xs = true ∧ M.GoodAll G xs ∧
      M.semAll ev xs = semAllExcept ev x ms := by
  induction ms with
  | nil => exact ⟨[], by simp [M.excludeList], rfl, trivial, rfl⟩
  | cons m rest ih =>
    cases m with
    | leaf l =>
      obtain ⟨ys, hys, hly, hgy, hsem⟩ := ih (by simpa [allLeaves] using hl) hg.2
      by_cases hn : (l.name == x) = true
      · refine ⟨ys, ?_, hly, hgy, ?_⟩
        · simp only [M.excludeList, isLeafNamed, hn, if_true]; exact hys
        · simp [semAllExcept, hn, hsem]
      · refine ⟨.leaf l :: ys, ?_, ?_, ⟨hg.1, hgy⟩, ?_⟩
        · simp only [M.excludeList, isLeafNamed, hn, M.exclude, bind, Except.bind, hys, pure, Except.pure]
          simp
        · simpa [allLeaves] using hly
        · simp [semAllExcept, hn, hsem, M.semAll, M.sem]
    | any => simp [allLeaves] at hl
    | empty => simp [allLeaves] at hl
    | multi _ => simp [allLeaves] at hl
    | union _ => simp [allLeaves] at hl

theorem filter_notEmpty_leaves (xs : List M) (h : allLeaves xs = true) :
    xs.filter (fun m => !m.isEmpty) = xs := by
  induction xs with
  | nil => rfl
  | cons m rest ih =>
    cases m with
    | leaf l =>
      have := ih (by simpa [allLeaves] using h)
      rw [List.filter_cons, this]; rfl
    | any => simp [allLeaves] at h
    | empty => simp [allLeaves] at h
    | multi _ => simp [allLeaves] at h
    | union _ => simp [allLeaves] at h

theorem exclude_conj_aux (S : LeafSpec ev G) (x : String)
    (ms : List M) (hl : allLeaves ms = true) (hg : M.GoodAll G ms) (r : M)
    (h : M.exclude x (.multi ms) = .ok r) :
    M.Good G r ∧ M.sem ev r = semAllExcept ev x ms := by
  obtain ⟨xs, hxs, hlx, hgx, hsem⟩ := excludeList_leaves ev G x ms hl hg
  simp only [M.exclude, bind, Except.bind, hxs, filter_notEmpty_leaves xs hlx] at h
  have := intersectionF_sound S hgx h
  exact ⟨this.1, by rw [this.2, hsem]⟩

/-! ### the leaves of a marker tree -/

mutual
def M.leaves : M → List Leaf
  | .any => []
  | .empty => []
  | .leaf l => [l]
  | .multi ms => M.leavesList ms
  | .union ms => M.leavesList ms
def M.leavesList : List M → List Leaf
  | [] => []
  | m :: ms => M.leaves m ++ M.leavesList ms
end


/-! ### `M.beq` preserves the variables mentioned -/

theorem Leaf.beq_name {a b : Leaf} (h : Leaf.beq a b = true) : a.name = b.name := by
  cases a <;> cases b <;> simp [Leaf.beq, Leaf.name] at h ⊢ <;> first | exact h.1.1.1 | exact h.1

mutual
theorem beq_vars (a b : M) (h : M.beq a b = true) : M.vars a = M.vars b := by
  cases a <;> cases b <;> simp [M.beq] at h <;> simp only [M.vars]
  · rw [Leaf.beq_name h]
  · exact beq_varsList _ _ h
  · exact beq_varsList _ _ h
theorem beq_varsList (as bs : List M) (h : M.beqList as bs = true) : M.varsList as = M.varsList bs := by
  cases as <;> cases bs <;> simp [M.beqList] at h <;> simp only [M.varsList]
  rw [beq_vars _ _ h.1, beq_varsList _ _ h.2]
end

/-! ### `filterM` in the exception monad -/

theorem filterAuxM_mem {α : Type} (p : α → PyM Bool) (as acc r : List α)
    (h : List.filterAuxM p as acc = .ok r) :
    ∀ x ∈ r, x ∈ acc ∨ (x ∈ as ∧ p x = .ok true) := by
  induction as generalizing acc with
  | nil => simp [List.filterAuxM, pure, Except.pure] at h; subst h; intro x hx; exact Or.inl hx
  | cons a t ih =>
    simp only [List.filterAuxM, bind, Except.bind] at h
    split at h
    · cases h
    · rename_i b hb
      intro x hx
      rcases ih _ h x hx with h1 | h1
      · cases b
        · simp at h1; exact Or.inl h1
        · simp at h1
          rcases h1 with rfl | h1
          · exact Or.inr ⟨by simp, hb⟩
          · exact Or.inl h1
      · exact Or.inr ⟨by simp [h1.1], h1.2⟩

theorem filterM_mem {α : Type} (p : α → PyM Bool) (as r : List α) (h : as.filterM p = .ok r) :
    ∀ x ∈ r, x ∈ as ∧ p x = .ok true := by
  simp only [List.filterM, bind, Except.bind] at h
  split at h
  · cases h
  · rename_i r' hr
    simp [pure, Except.pure] at h; subst h
    intro x hx
    rcases filterAuxM_mem p as [] r' hr x (by simpa using hx) with h1 | h1
    · simp at h1
    · exact h1

theorem semAny_of_mem (ev : Leaf → Bool) (ms : List M) (m : M) (hm : m ∈ ms) (h : M.sem ev m = true) :
    M.semAny ev ms = true := by
  induction ms with
  | nil => cases hm
  | cons a t ih =>
    simp only [M.semAny, Bool.or_eq_true]
    rcases List.mem_cons.1 hm with rfl | hm
    · exact Or.inl h
    · exact Or.inr (ih hm)

theorem semAny_exists (ev : Leaf → Bool) (ms : List M) (h : M.semAny ev ms = true) :
    ∃ m ∈ ms, M.sem ev m = true := by
  induction ms with
  | nil => simp [M.semAny] at h
  | cons a t ih =>
    simp only [M.semAny, Bool.or_eq_true] at h
    rcases h with h | h
    · exact ⟨a, by simp, h⟩
    · obtain ⟨m, hm, hs⟩ := ih h; exact ⟨m, by simp [hm], hs⟩

theorem varsList_mem (ms : List M) (n : String) (h : n ∈ M.varsList ms) : ∃ m ∈ ms, n ∈ M.vars m := by
  induction ms with
  | nil => simp [M.varsList] at h
  | cons a t ih =>
    simp only [M.varsList, List.mem_append] at h
    rcases h with h | h
    · exact ⟨a, by simp, h⟩
    · obtain ⟨m, hm, hs⟩ := ih h; exact ⟨m, by simp [hm], hs⟩

def pyNames : List String := Gen.pythonVersionMarkers.reverse

end Poetry.Marker
