/-
Variables mentioned by a marker tree and the projection theorems for `only` / `exclude` /
`reduce_by_python_constraint` (helper lemmas for C17), over the tree semantics `M.sem` of
Proofs/MarkerSem.lean and the simplifier soundness of Proofs/MarkerAlgSound.lean.
-/
import PoetryVerif.Proofs.MarkerAlgSound

set_option linter.unusedSimpArgs false
set_option linter.unusedVariables false

namespace Poetry.Marker

/-! ### variables mentioned -/

mutual
def M.vars : M → List String
  | .any => []
  | .empty => []
  | .leaf l => [l.name]
  | .multi ms => M.varsList ms
  | .union ms => M.varsList ms
def M.varsList : List M → List String
  | [] => []
  | m :: ms => M.vars m ++ M.varsList ms
end

variable {ev : Leaf → Bool} {G : Leaf → Prop}

mutual
theorem only_weakens_aux (S : LeafSpec ev G) (names : List String)
    (m r : M) (hg : M.Good G m) (h : M.only names m = .ok r) :
    M.Good G r ∧ (M.sem ev m = true → M.sem ev r = true) := by
  cases m with
  | any => simp [M.only] at h; subst h; simp
  | empty => simp [M.only] at h; subst h; simp
  | leaf l =>
    simp [M.only] at h; subst h
    split
    · exact ⟨hg, id⟩
    · simp
  | multi ms =>
    simp only [M.only, bind, Except.bind] at h
    split at h
    · cases h
    · rename_i xs hx
      have hl := only_weakens_list S names ms xs (by simpa [M.Good] using hg) hx
      have hs := multiOf_sound S hl.1 h
      refine ⟨hs.1, fun hm => ?_⟩
      rw [hs.2]; exact hl.2.1 (by simpa only [M.sem] using hm)
  | union ms =>
    simp only [M.only, bind, Except.bind] at h
    split at h
    · cases h
    · rename_i xs hx
      have hl := only_weakens_list S names ms xs (by simpa [M.Good] using hg) hx
      have hs := unionOf_sound S hl.1 h
      refine ⟨hs.1, fun hm => ?_⟩
      rw [hs.2]; exact hl.2.2 (by simpa only [M.sem] using hm)
theorem only_weakens_list (S : LeafSpec ev G) (names : List String)
    (ms xs : List M) (hg : M.GoodAll G ms) (h : M.onlyList names ms = .ok xs) :
    M.GoodAll G xs ∧ (M.semAll ev ms = true → M.semAll ev xs = true) ∧
      (M.semAny ev ms = true → M.semAny ev xs = true) := by
  cases ms with
  | nil => simp [M.onlyList] at h; subst h; simp [M.GoodAll]
  | cons m rest =>
    simp only [M.onlyList, bind, Except.bind] at h
    split at h
    · cases h
    · rename_i x hx
      split at h
      · cases h
      · rename_i ys hys
        simp [pure, Except.pure] at h; subst h
        have ih := only_weakens_list S names rest ys hg.2 hys
        have ih1 := only_weakens_aux S names m x hg.1 hx
        simp only [M.semAll, M.semAny, Bool.and_eq_true, Bool.or_eq_true, M.GoodAll]
        exact ⟨⟨ih1.1, ih.1⟩, fun ⟨a, b⟩ => ⟨ih1.2 a, ih.2.1 b⟩,
          fun hab => hab.elim (fun a => Or.inl (ih1.2 a)) (fun b => Or.inr (ih.2.2 b))⟩
end

/-! ### `only` mentions only the requested variables -/

mutual
theorem only_mentions_aux (S : List String)
    (hM : ∀ fuel stk ms r, multiOf fuel stk ms = .ok r → ∀ n ∈ M.vars r, n ∈ M.varsList ms)
    (hU : ∀ fuel stk ms r, unionOf fuel stk ms = .ok r → ∀ n ∈ M.vars r, n ∈ M.varsList ms)
    (m r : M) (h : M.only S m = .ok r) : ∀ n ∈ M.vars r, n ∈ S := by
  cases m with
  | any => simp [M.only] at h; subst h; simp [M.vars]
  | empty => simp [M.only] at h; subst h; simp [M.vars]
  | leaf l =>
    simp [M.only] at h; subst h
    split
    · rename_i hc; simpa [M.vars] using hc
    · simp [M.vars]
  | multi ms =>
    simp only [M.only, bind, Except.bind] at h
    split at h
    · cases h
    · rename_i xs hx
      intro n hn
      exact only_mentions_list S hM hU ms xs hx n (hM _ _ _ _ h n hn)
  | union ms =>
    simp only [M.only, bind, Except.bind] at h
    split at h
    · cases h
    · rename_i xs hx
      intro n hn
      exact only_mentions_list S hM hU ms xs hx n (hU _ _ _ _ h n hn)
theorem only_mentions_list (S : List String)
    (hM : ∀ fuel stk ms r, multiOf fuel stk ms = .ok r → ∀ n ∈ M.vars r, n ∈ M.varsList ms)
    (hU : ∀ fuel stk ms r, unionOf fuel stk ms = .ok r → ∀ n ∈ M.vars r, n ∈ M.varsList ms)
    (ms xs : List M) (h : M.onlyList S ms = .ok xs) : ∀ n ∈ M.varsList xs, n ∈ S := by
  cases ms with
  | nil => simp [M.onlyList] at h; subst h; simp [M.varsList]
  | cons m rest =>
    simp only [M.onlyList, bind, Except.bind] at h
    split at h
    · cases h
    · rename_i x hx
      split at h
      · cases h
      · rename_i ys hys
        simp [pure, Except.pure] at h; subst h
        intro n hn
        simp only [M.varsList, List.mem_append] at hn
        rcases hn with hn | hn
        · exact only_mentions_aux S hM hU m x hx n hn
        · exact only_mentions_list S hM hU rest ys hys n hn
end

/-! ### `exclude` on a conjunction of single-marker-likes -/

/-- the members are all single-marker-likes -/
def allLeaves : List M → Bool
  | [] => true
  | .leaf _ :: ms => allLeaves ms
  | _ :: _ => false

/-- the conjunction of the members whose variable is not `x` -/
def semAllExcept (ev : Leaf → Bool) (x : String) : List M → Bool
  | [] => true
  | .leaf l :: ms => (if l.name == x then true else ev l) && semAllExcept ev x ms
  | m :: ms => M.sem ev m && semAllExcept ev x ms

theorem excludeList_leaves (ev : Leaf → Bool) (G : Leaf → Prop) (x : String) (ms : List M)
    (hl : allLeaves ms = true) (hg : M.GoodAll G ms) :
    ∃ xs, M.excludeList x ms = .ok xs ∧ allLeaves xs = true ∧ M.GoodAll G xs ∧
      M.semAll ev xs = semAllExcept ev x ms := by
  induction ms with
  | nil => exact ⟨[], by simp [M.excludeList], rfl, trivial, rfl⟩
  | cons m rest ih =>
    cases m with
    | leaf l =>
      obtain ⟨ys, hys, hly, hgy, hsem⟩ := ih (by simpa [allLeaves] using hl) hg.2
      by_cases hn : (l.name == x) = true
      · refine ⟨ys, ?_, hly, hgy, ?_⟩
        · simp only [M.excludeList, isLeafNamed, hn, if_true]; exact hys
        · simp [semAllExcept, hn, hsem]
      · refine ⟨.leaf l :: ys, ?_, ?_, ⟨hg.1, hgy⟩, ?_⟩
        · simp only [M.excludeList, isLeafNamed, hn, M.exclude, bind, Except.bind, hys, pure, Except.pure]
          simp
        · simpa [allLeaves] using hly
        · simp [semAllExcept, hn, hsem, M.semAll, M.sem]
    | any => simp [allLeaves] at hl
    | empty => simp [allLeaves] at hl
    | multi _ => simp [allLeaves] at hl
    | union _ => simp [allLeaves] at hl

theorem filter_notEmpty_leaves (xs : List M) (h : allLeaves xs = true) :
    xs.filter (fun m => !m.isEmpty) = xs := by
  induction xs with
  | nil => rfl
  | cons m rest ih =>
    cases m with
    | leaf l =>
      have := ih (by simpa [allLeaves] using h)
      rw [List.filter_cons, this]; rfl
    | any => simp [allLeaves] at h
    | empty => simp [allLeaves] at h
    | multi _ => simp [allLeaves] at h
    | union _ => simp [allLeaves] at h

theorem exclude_conj_aux (S : LeafSpec ev G) (x : String)
    (ms : List M) (hl : allLeaves ms = true) (hg : M.GoodAll G ms) (r : M)
    (h : M.exclude x (.multi ms) = .ok r) :
    M.Good G r ∧ M.sem ev r = semAllExcept ev x ms := by
  obtain ⟨xs, hxs, hlx, hgx, hsem⟩ := excludeList_leaves ev G x ms hl hg
  simp only [M.exclude, bind, Except.bind, hxs, filter_notEmpty_leaves xs hlx] at h
  have := intersectionF_sound S hgx h
  exact ⟨this.1, by rw [this.2, hsem]⟩

/-! ### the leaves of a marker tree -/

mutual
def M.leaves : M → List Leaf
  | .any => []
  | .empty => []
  | .leaf l => [l]
  | .multi ms => M.leavesList ms
  | .union ms => M.leavesList ms
def M.leavesList : List M → List Leaf
  | [] => []
  | m :: ms => M.leaves m ++ M.leavesList ms
end


/-! ### `M.beq` preserves the variables mentioned -/

theorem Leaf.beq_name {a b : Leaf} (h : Leaf.beq a b = true) : a.name = b.name := by
  cases a <;> cases b <;> simp [Leaf.beq, Leaf.name] at h ⊢ <;> first | exact h.1.1.1 | exact h.1

mutual
theorem beq_vars (a b : M) (h : M.beq a b = true) : M.vars a = M.vars b := by
  cases a <;> cases b <;> simp [M.beq] at h <;> simp only [M.vars]
  · rw [Leaf.beq_name h]
  · exact beq_varsList _ _ h
  · exact beq_varsList _ _ h
theorem beq_varsList (as bs : List M) (h : M.beqList as bs = true) : M.varsList as = M.varsList bs := by
  cases as <;> cases bs <;> simp [M.beqList] at h <;> simp only [M.varsList]
  rw [beq_vars _ _ h.1, beq_varsList _ _ h.2]
end

/-! ### `filterM` in the exception monad -/

theorem filterAuxM_mem {α : Type} (p : α → PyM Bool) (as acc r : List α)
    (h : List.filterAuxM p as acc = .ok r) :
    ∀ x ∈ r, x ∈ acc ∨ (x ∈ as ∧ p x = .ok true) := by
  induction as generalizing acc with
  | nil => simp [List.filterAuxM, pure, Except.pure] at h; subst h; intro x hx; exact Or.inl hx
  | cons a t ih =>
    simp only [List.filterAuxM, bind, Except.bind] at h
    split at h
    · cases h
    · rename_i b hb
      intro x hx
      rcases ih _ h x hx with h1 | h1
      · cases b
        · simp at h1; exact Or.inl h1
        · simp at h1
          rcases h1 with rfl | h1
          · exact Or.inr ⟨by simp, hb⟩
          · exact Or.inl h1
      · exact Or.inr ⟨by simp [h1.1], h1.2⟩

theorem filterM_mem {α : Type} (p : α → PyM Bool) (as r : List α) (h : as.filterM p = .ok r) :
    ∀ x ∈ r, x ∈ as ∧ p x = .ok true := by
  simp only [List.filterM, bind, Except.bind] at h
  split at h
  · cases h
  · rename_i r' hr
    simp [pure, Except.pure] at h; subst h
    intro x hx
    rcases filterAuxM_mem p as [] r' hr x (by simpa using hx) with h1 | h1
    · simp at h1
    · exact h1

theorem semAny_of_mem (ev : Leaf → Bool) (ms : List M) (m : M) (hm : m ∈ ms) (h : M.sem ev m = true) :
    M.semAny ev ms = true := by
  induction ms with
  | nil => cases hm
  | cons a t ih =>
    simp only [M.semAny, Bool.or_eq_true]
    rcases List.mem_cons.1 hm with rfl | hm
    · exact Or.inl h
    · exact Or.inr (ih hm)

theorem semAny_exists (ev : Leaf → Bool) (ms : List M) (h : M.semAny ev ms = true) :
    ∃ m ∈ ms, M.sem ev m = true := by
  induction ms with
  | nil => simp [M.semAny] at h
  | cons a t ih =>
    simp only [M.semAny, Bool.or_eq_true] at h
    rcases h with h | h
    · exact ⟨a, by simp, h⟩
    · obtain ⟨m, hm, hs⟩ := ih h; exact ⟨m, by simp [hm], hs⟩

theorem varsList_mem (ms : List M) (n : String) (h : n ∈ M.varsList ms) : ∃ m ∈ ms, n ∈ M.vars m := by
  induction ms with
  | nil => simp [M.varsList] at h
  | cons a t ih =>
    simp only [M.varsList, List.mem_append] at h
    rcases h with h | h
    · exact ⟨a, by simp, h⟩
    · obtain ⟨m, hm, hs⟩ := ih h; exact ⟨m, by simp [hm], hs⟩

/-! ### `reduce_by_python_constraint` -/

def pyNames : List String := Gen.pythonVersionMarkers.reverse

/-- what the reduction theorem needs from the other developments, at one environment (leaf truth `ev`,
interpreter `py`) and one Python range `pc` that admits `py` -/
structure ReduceCtx (ev : Leaf → Bool) (G : Leaf → Prop) (pc : VC) (py : Version) : Prop where
  /-- C07's leaf specification (marker equality and leaf merging respect truth) -/
  spec : LeafSpec ev G
  multiOf_vars : ∀ fuel stk ms r, multiOf fuel stk ms = .ok r → ∀ n ∈ M.vars r, n ∈ M.varsList ms
  unionOf_vars : ∀ fuel stk ms r, unionOf fuel stk ms = .ok r → ∀ n ∈ M.vars r, n ∈ M.varsList ms
  /-- C11 `pyConstraint_exact` for a single-marker-like -/
  gpcLeaf_exact : ∀ (l : Leaf) (c : VC), isPyName l.name = true → gpcLeaf l = .ok c → c.allows py = .ok (ev l)
  /-- C11 `pyConstraint_exact` (the direction used) for python-only markers -/
  gpc_lower : ∀ (u : M) (g : VC), (∀ n ∈ M.vars u, n ∈ pyNames) → gpc u = .ok g → g.allows py = .ok true →
    M.sem ev u = true
  /-- C12 containment / overlap soundness at the probe `py` -/
  allowsAll_sound : ∀ c : VC, c.allowsAll pc = .ok true → c.allows py = .ok true
  allowsAny_sound : ∀ c : VC, c.allowsAny pc = .ok false → c.allows py = .ok true → False
  /-- C11 `createNested_exact` through poetry's own parser, at a range admitting `py` -/
  nested_true : ∀ (txt : String) (pm : M), createNestedMarker "python_version" pc = .ok txt → parseMarker txt = .ok pm →
    M.Good G pm ∧ M.sem ev pm = true

theorem Leaf.reduce_exact {pc : VC} {py : Version} (C : ReduceCtx ev G pc py)
    (l : Leaf) (r : M) (hg : G l) (h : Leaf.reduce l pc = .ok r) : M.Good G r ∧ M.sem ev r = ev l := by
  cases l with
  | amulti n c => simp [Leaf.reduce, pure, Except.pure] at h; subst h; exact ⟨by simpa using hg, by simp⟩
  | aunion n c => simp [Leaf.reduce, pure, Except.pure] at h; subst h; exact ⟨by simpa using hg, by simp⟩
  | single s =>
    simp only [Leaf.reduce] at h
    by_cases hp : isPyName s.name = true
    · simp only [hp, if_true, bind, Except.bind] at h
      split at h
      · cases h
      · rename_i c hc
        have hex := C.gpcLeaf_exact (.single s) c hp hc
        split at h
        · cases h
        · rename_i ball hall
          by_cases hb : ball = true
          · subst hb
            simp [pure, Except.pure] at h; subst h
            have := C.allowsAll_sound c hall
            rw [hex] at this
            refine ⟨by simp, ?_⟩
            simp only [M.sem]; injection this with this; exact this.symm
          · have hb' : ball = false := by cases ball <;> simp_all
            subst hb'
            simp only [Bool.false_eq_true, if_false] at h
            split at h
            · cases h
            · rename_i bany hany
              cases bany with
              | false =>
                simp [pure, Except.pure] at h; subst h
                refine ⟨by simp, ?_⟩
                simp only [M.sem]
                cases hev : ev (.single s) with
                | false => rfl
                | true => exact (C.allowsAny_sound c hany (by rw [hex, hev])).elim
              | true =>
                simp only [Bool.not_true, Bool.false_eq_true, if_false] at h
                split at h
                · cases h
                · rename_i txt htxt
                  split at h
                  · cases h
                  · rename_i pm hpm
                    split at h
                    · cases h
                    · rename_i i hi
                      have hn := C.nested_true txt pm htxt hpm
                      have hs := mIntersect_sound C.spec (by simpa using hg) hn.1 hi
                      rw [hn.2] at hs
                      split at h <;> simp [pure, Except.pure] at h <;> subst h
                      · exact ⟨hs.1, by simpa [M.sem] using hs.2⟩
                      · exact ⟨by simpa using hg, by simp⟩
    · simp [hp, pure, Except.pure] at h; subst h; exact ⟨by simpa using hg, by simp⟩

mutual
theorem reduce_exact_aux {pc : VC} {py : Version} (C : ReduceCtx ev G pc py)
    (m r : M) (hg : M.Good G m) (h : M.reduce pc m = .ok r) : M.Good G r ∧ M.sem ev r = M.sem ev m := by
  cases m with
  | any => simp [M.reduce] at h; subst h; simp
  | empty => simp [M.reduce] at h; subst h; simp
  | leaf l =>
    simp only [M.reduce] at h
    have := Leaf.reduce_exact C l r (by simpa using hg) h
    exact ⟨this.1, by simpa [M.sem] using this.2⟩
  | multi ms =>
    simp only [M.reduce, bind, Except.bind] at h
    split at h
    · cases h
    · rename_i xs hx
      have hl := reduce_exact_list C ms xs (by simpa [M.Good] using hg) hx
      have hs := multiOf_sound C.spec hl.1 h
      exact ⟨hs.1, by rw [hs.2, hl.2.1]; simp only [M.sem]⟩
  | union ms =>
    have hgl : M.GoodAll G ms := by simpa [M.Good] using hg
    simp only [M.reduce, bind, Except.bind] at h
    split at h
    · cases h
    · rename_i sc hsc
      cases sc with
      | true =>
        simp [pure, Except.pure] at h; subst h
        refine ⟨by simp, ?_⟩
        -- the shortcut answered yes
        by_cases hr : isRangeOrUnion pc = true
        · simp only [hr, if_true] at hsc
          split at hsc
          · cases hsc
          · rename_i pyOnly hpo
            split at hsc
            · cases hsc
            · rename_i u hu
              split at hsc
              · cases hsc
              · rename_i g hg'
                have hmem := filterM_mem _ ms pyOnly hpo
                have hgp : M.GoodAll G pyOnly :=
                  (M.goodAll_iff pyOnly).2 (fun m hm => (M.goodAll_iff ms).1 hgl m (hmem m hm).1)
                have hvars : ∀ n ∈ M.vars u, n ∈ pyNames := by
                  intro n hn
                  obtain ⟨m, hm, hnm⟩ := varsList_mem pyOnly n (C.unionOf_vars _ _ _ _ hu n hn)
                  have := (hmem m hm).2
                  split at this
                  · cases this
                  · rename_i o ho
                    simp [pure, Except.pure] at this
                    rw [beq_vars _ _ this] at hnm
                    exact only_mentions_aux pyNames C.multiOf_vars C.unionOf_vars m o ho n hnm
                have hsu := C.gpc_lower u g hvars hg' (C.allowsAll_sound g hsc)
                rw [(unionOf_sound C.spec hgp hu).2] at hsu
                obtain ⟨m, hm, hs⟩ := semAny_exists ev pyOnly hsu
                simp only [M.sem]
                exact (semAny_of_mem ev ms m (hmem m hm).1 hs).symm ▸ rfl
        · simp [hr, pure, Except.pure] at hsc
      | false =>
        simp only [Bool.false_eq_true, if_false] at h
        split at h
        · cases h
        · rename_i xs hx
          have hl := reduce_exact_list C ms xs hgl hx
          have hs := unionOf_sound C.spec hl.1 h
          exact ⟨hs.1, by rw [hs.2, hl.2.2]; simp only [M.sem]⟩
theorem reduce_exact_list {pc : VC} {py : Version} (C : ReduceCtx ev G pc py)
    (ms xs : List M) (hg : M.GoodAll G ms) (h : M.reduceList pc ms = .ok xs) :
    M.GoodAll G xs ∧ M.semAll ev xs = M.semAll ev ms ∧ M.semAny ev xs = M.semAny ev ms := by
  cases ms with
  | nil => simp [M.reduceList] at h; subst h; simp [M.GoodAll]
  | cons m rest =>
    simp only [M.reduceList, bind, Except.bind] at h
    split at h
    · cases h
    · rename_i x hx
      split at h
      · cases h
      · rename_i ys hys
        simp [pure, Except.pure] at h; subst h
        have ih := reduce_exact_list C rest ys hg.2 hys
        have ih1 := reduce_exact_aux C m x hg.1 hx
        simp only [M.semAll, M.semAny, ih1.2, ih.2.1, ih.2.2, and_self, M.GoodAll, and_true]
        exact ⟨ih1.1, ih.1⟩
end

end Poetry.Marker
