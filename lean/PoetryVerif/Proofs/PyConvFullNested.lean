/-
`create_nested_marker` then `parse_marker` on the full domain: for a Python range whose bounds have at least two
components, the marker read back has leaves `python_version op "a.b"` / `python_full_version op "a.b.c"` (so it
lies in `FullLeaf E`, where the leaf specification holds with no hypothesis), and its truth is membership of the
interpreter in the range.
-/
import PoetryVerif.Proofs.PyConvFull

set_option linter.unusedSimpArgs false
set_option linter.unusedVariables false

namespace Poetry.Marker
open Poetry Poetry.Spec.Pep508

/-- the releases `create_nested_marker` prints for bounds of two or three components -/
def Q2 : String → String → List Nat → Prop :=
  fun n _ lit => (n = "python_version" → lit.length = 2) ∧ (n = "python_full_version" → lit.length = 3)

theorem q2_pv (op : String) (a b : Nat) : Q2 "python_version" op [a, b] :=
  ⟨fun _ => rfl, fun h => absurd h (by decide)⟩
theorem q2_pfv (op : String) (a b c : Nat) : Q2 "python_full_version" op [a, b, c] :=
  ⟨fun h => absurd h (by decide), fun _ => rfl⟩

theorem boundLoQ2 (i : Bool) (m : Version) (h : 2 ≤ m.release.length) : BoundLoQ Q2 i m := by
  refine ⟨?_, ?_, ?_⟩
  · intro a e; rw [e] at h; simp at h
  · intro a b _; cases i <;> simp only [Bool.false_eq_true, if_false, if_true] <;>
      first | exact q2_pfv _ _ _ _ | exact q2_pv _ _ _
  · intro a b c _; cases i <;> simp only [Bool.false_eq_true, if_false, if_true] <;>
      first | exact q2_pfv _ _ _ _ | exact q2_pv _ _ _

theorem boundHiQ2 (i : Bool) (m : Version) (h : 2 ≤ m.release.length) : BoundHiQ Q2 i m := by
  refine ⟨?_, ?_, ?_⟩
  · intro a e; rw [e] at h; simp at h
  · intro a b _; cases i <;> simp only [Bool.false_eq_true, if_false, if_true] <;>
      first | exact q2_pfv _ _ _ _ | exact q2_pv _ _ _
  · intro a b c _; cases i <;> simp only [Bool.false_eq_true, if_false, if_true] <;>
      first | exact q2_pfv _ _ _ _ | exact q2_pv _ _ _

/-- the bounds of the constraint have at least two components -/
def PyPrec2 (c : VC) : Prop := ∀ rc ∈ c.flatten, ∀ e ∈ rc.bounds, 2 ≤ e.release.length

theorem rcBoundQ2 (rc : RC) (h : ∀ e ∈ rc.bounds, 2 ≤ e.release.length) : RCBoundQ Q2 rc := by
  cases rc with
  | ver v => exact fun a b c _ => q2_pfv _ a b c
  | rng r =>
    refine ⟨fun m hm => boundLoQ2 _ m (h m ?_), fun m hm => boundHiQ2 _ m (h m ?_)⟩
    · simp [RC.bounds, RC.view, VRange.bounds, RC.min, RC.max, hm]
    · simp [RC.bounds, RC.view, VRange.bounds, RC.min, RC.max, hm]

theorem cmpOp_pvOps {op : String} (h : CmpOp op) : ∃ sop, (sop, op) ∈ pvOps := by
  rcases h with rfl | rfl | rfl | rfl | rfl
  · exact ⟨.ge, by decide⟩
  · exact ⟨.gt, by decide⟩
  · exact ⟨.le, by decide⟩
  · exact ⟨.lt, by decide⟩
  · exact ⟨.eq, by decide⟩

mutual
theorem atomItems_full (E : Env) : ∀ a : Atom, PyAtomQ Q2 a → AtomItems (FullLeaf E) a
  | .item n op v sw, h => by
    simp only [PyAtomQ] at h
    obtain ⟨rfl, lit, hn, hop, hne, _, hq, rfl⟩ := h
    obtain ⟨sop, hs⟩ := cmpOp_pvOps hop
    intro s hs'
    simp only [itemConstraintString, Bool.false_eq_true, if_false] at hs'
    rcases hn with rfl | rfl
    · have hl := hq.1 rfl
      obtain ⟨a, b, rfl⟩ : ∃ a b, lit = [a, b] := by
        match lit, hl with
        | [a, b], _ => exact ⟨a, b, rfl⟩
      rw [mkSingle_pvLeaf hs a b] at hs'
      cases hs'
      exact Or.inr (Or.inl ⟨sop, op, a, b, hs, rfl⟩)
    · have hl := hq.2 rfl
      obtain ⟨a, b, c, rfl⟩ : ∃ a b c, lit = [a, b, c] := by
        match lit, hl with
        | [a, b, c], _ => exact ⟨a, b, c, rfl⟩
      rw [mkSingle_pfvLeaf hs a [b, c]] at hs'
      cases hs'
      exact Or.inr (Or.inr ⟨sop, op, a, b, c, hs, rfl⟩)
  | .paren m, h => by
    simp only [AtomItems]
    exact synItems_full E m (by simpa [PyAtomQ] using h)
theorem synItems_full (E : Env) : ∀ s : Syn, PySynQ Q2 s → SynItems (FullLeaf E) s
  | .one a, h => by
    simp only [SynItems]
    exact atomItems_full E a (by simpa [PySynQ] using h)
  | .more a _ rest, h => by
    simp only [PySynQ] at h
    exact ⟨atomItems_full E a h.1, synItems_full E rest h.2⟩
end

/-- C06's compaction agreement for any invariant with a proved leaf specification -/
theorem compactSub_agree_gen {G : Leaf → Prop} (E : Env) (S : LeafSpec (leafEval E) G)
    (hev : ∀ l, G l → ∃ b, l.validate E = .ok b) (syn : Syn) (subs : List M) (b : Bool)
    (h : compactSubMarkers syn = .ok subs) (hI : SynItems G syn) (ha : syn.agree E) (hc : syn.coh = true)
    (he : evalSyn E syn = some b) :
    M.GoodAll G subs ∧ M.semAny (leafEval E) subs = b := by
  have hg := compactSub_good syn subs h hI
  have hgl := (M.goodAll_iff subs).1 hg
  refine ⟨hg, ?_⟩
  have hraw : compactRaw syn = .ok (mkUnion subs) := by
    simp [compactRaw, h, bind, Except.bind, pure, Except.pure]
  obtain ⟨b', h1, h2⟩ := synV_spec E syn ha true
  have hval : M.validate E (mkUnion subs) = .ok b' := by
    rw [(compactRaw_sem E syn _ hraw hc).2, h1]
  have hb : b' = b := by
    have : evalSyn E syn = some b' := by simpa [evalSyn] using h2
    rw [he] at this; injection this with this; exact this.symm
  subst hb
  have hev' : M.Evaluable E (mkUnion subs) := M.good_mono (fun l hl => hev l hl) _ (mkUnion_good subs hgl)
  rw [M.validate_eq_sem E _ hev'] at hval
  injection hval with hval
  rw [(mkUnion_spec S subs hgl).2, ← M.semAny_eq] at hval
  exact hval

/-- **`create_nested_marker` then `parse_marker`, full domain**: for a Python range of C11's domain whose bounds
have at least two components, the marker read back lies in `FullLeaf E` and its truth is membership of `X.Y.Z` -/
theorem createNested_full {E : Env} {ex : List String} (hX : E.extras = some ex) {X Y Z : Nat}
    (hE : EnvPy E X Y Z) (c : VC) (hd : PyDomVC c = true) (hp2 : PyPrec2 c) (txt : String) (m : M)
    (ht : createNestedMarker "python_version" c = .ok txt) (hm : parseMarker txt = .ok m) :
    M.Good (FullLeaf E) m ∧ M.sem (leafEval E) m = c.allowsPlain (pyV X Y Z) := by
  have S := leafSpec_fullDomain hX hE
  obtain ⟨txt', ht', hcase⟩ := createNested_synQ (Q := Q2) E c hd (fun rc hrc => rcBoundQ2 rc (hp2 rc hrc)) X Y Z hE
  rw [ht] at ht'; injection ht' with ht'; subst ht'
  rcases hcase with ⟨rfl, hall⟩ | ⟨hne, syn, hp, he, hpy⟩
  · simp [parseMarker] at hm; subst hm; simp [hall]
  · have h1 : (txt == "<empty>") = false := by
      cases h : txt == "<empty>" with
      | false => rfl
      | true =>
        have : txt = "<empty>" := by simpa using h
        subst this
        have : parseText "<empty>" = .error .syntax := rfl
        rw [this] at hp; cases hp
    have h2 : (txt == "*") = false := by
      cases h : txt == "*" with
      | false => rfl
      | true =>
        have : txt = "*" := by simpa using h
        subst this
        have : parseText "*" = .error .syntax := rfl
        rw [this] at hp; cases hp
    simp only [parseMarker, h1, hne, h2, Bool.false_eq_true, if_false, Bool.or_false, hp, bind, Except.bind] at hm
    split at hm
    · cases hm
    · rename_i subs hs
      obtain ⟨ha, hc⟩ := pySyn_agree E X Y Z hE syn hpy
      have hca := compactSub_agree_gen E S (fun l hl => fullLeaf_evaluable hX hE hl) syn subs _ hs
        (synItems_full E syn hpy) ha hc he
      have := unionF_sound S hca.1 hm
      exact ⟨this.1, by rw [this.2, hca.2]⟩

end Poetry.Marker
