/-
Semantics of range constraints (`RC`) and constraints (`VC`), and exactness of the
range × range / range × version operations (helper lemmas for C05, C12).
-/
import PoetryVerif.Proofs.VRangeSem

set_option linter.unusedSimpArgs false
set_option linter.unusedVariables false

namespace Poetry
open Version

/-- results of the model (`Except PyErr α`) can be compared by `decide` in examples -/
instance instDecEqPyM {α : Type} [DecidableEq α] : DecidableEq (PyM α) := fun a b =>
  match a, b with
  | .ok x, .ok y => if h : x = y then isTrue (by rw [h]) else isFalse (by intro e; cases e; exact h rfl)
  | .error x, .error y => if h : x = y then isTrue (by rw [h]) else isFalse (by intro e; cases e; exact h rfl)
  | .ok _, .error _ => isFalse (by intro e; cases e)
  | .error _, .ok _ => isFalse (by intro e; cases e)

namespace VRange

/-- a range is non-degenerate when its two ends (if both present) are strictly ordered -/
def Proper (r : VRange) : Prop := ∀ m M, r.min = some m → r.max = some M → vk m < vk M

/-- well-formed range: well-formed bounds, strictly ordered ends -/
def WF (r : VRange) : Prop := r.wfB ∧ r.Proper

theorem allowedMax_le {r : VRange} {M M' : Version} (h : r.max = some M) (h' : r.allowedMax = some M') :
    vk M' ≤ vk M := by
  rcases allowedMax_cases h with h1 | ⟨h1, _, hst⟩
  · rw [h1] at h'; cases h'; exact le_refl _
  · rw [h1] at h'; cases h'; exact le_of_lt (firstDev_lt hst)

/-- the effective upper end depends on (`max`, `imax`) only, for non-degenerate ranges -/
theorem denHi_congr {r s : VRange} (hmax : r.max = s.max) (himax : r.imax = s.imax)
    (hr : ∀ m M, r.min = some m → r.max = some M → vk m ≠ vk M)
    (hs : ∀ m M, s.min = some m → s.max = some M → vk m ≠ vk M) (v : Version) :
    r.denHi v ↔ s.denHi v := by
  unfold denHi
  cases hM : r.max with
  | none => rw [allowedMax_none hM, allowedMax_none (hmax ▸ hM)]
  | some M =>
    rw [allowedMax_eq_of_lt hM (fun m hm => hr m M hm hM),
      allowedMax_eq_of_lt (hmax ▸ hM) (fun m hm => hs m M hm (hmax ▸ hM)), himax]

theorem Proper.ne {r : VRange} (h : r.Proper) : ∀ m M, r.min = some m → r.max = some M → vk m ≠ vk M :=
  fun m M hm hM => ne_of_lt (h m M hm hM)

end VRange

/-! ### range constraints -/

namespace RC

def bounds (c : RC) : List Version := c.view.bounds

def wfB (c : RC) : Prop := ∀ e ∈ c.bounds, e.wf = true

/-- well-formed range constraint -/
def WF : RC → Prop
  | ver v => v.wf = true
  | rng r => r.WF

/-- the set a range constraint stands for, on regular probes: the plain interval `[min, max]` of its view -/
def sem (c : RC) (v : Version) : Prop := c.view.raw v

theorem WF.wfB {c : RC} (h : c.WF) : c.wfB := by
  cases c with
  | ver x => intro e he; simp [bounds, view, VRange.bounds, RC.min, RC.max] at he; rw [he]; exact h
  | rng r => exact h.1

@[simp] theorem view_rng (r : VRange) : (RC.rng r).view = r := rfl

theorem sem_ver (x v : Version) : (RC.ver x).sem v ↔ vk v = vk x := by
  simp [sem, view, VRange.raw, VRange.denLo, VRange.rawHi, RC.min, RC.max, RC.imin, RC.imax]
  constructor
  · intro h; exact le_antisymm h.2 h.1
  · intro h; rw [h]; exact ⟨le_refl _, le_refl _⟩

theorem ver_allows_iff (x v : Version) (hx : x.wf = true) (hv : v.wf = true) (hreg : Reg1 v x) :
    x.allows v = true ↔ vk v = vk x := by
  unfold Version.allows
  rcases hreg with heq | hne
  · have hl : v.isLocal = x.isLocal := isLocal_of_vk_eq hv hx heq
    have e2 : (if (!x.isLocal && v.isLocal) = true then v.withoutLocal else v) = v := by
      rw [hl]; cases x.isLocal <;> simp
    simp only [e2, eqv_iff, heq]
  · generalize ho : (if (!x.isLocal && v.isLocal) = true then v.withoutLocal else v) = o
    have hr : relKey o = relKey v := by rw [← ho]; split <;> simp
    have h1 : vk x ≠ vk o := fun e => hne ((relKey_of_vk_eq e).symm ▸ hr.symm)
    have h2 : vk v ≠ vk x := vk_ne_of_relKey_ne hne
    simp [eqv_iff, h1, h2]

/-- **bridge for range constraints** -/
theorem allows_iff_sem (c : RC) (v : Version) (hc : c.wfB) (hv : v.wf = true)
    (hreg : Regular c.bounds v) : c.allows v = true ↔ c.sem v := by
  cases c with
  | ver x =>
    have hx : x.wf = true := hc x (by simp [bounds, view, VRange.bounds, RC.min])
    have hr : Reg1 v x := hreg.reg1 (by simp [bounds, view, VRange.bounds, RC.min])
    rw [sem_ver]; exact ver_allows_iff x v hx hv hr
  | rng r => exact VRange.allows_iff_raw r v hc hv hreg

end RC

/-! ### constraints -/

namespace VC

def bounds : VC → List Version
  | empty => []
  | single c => c.bounds
  | union rs => rs.flatMap RC.bounds

def sem : VC → Version → Prop
  | empty, _ => False
  | single c, v => c.sem v
  | union rs, v => ∃ c ∈ rs, c.sem v

/-- membership as the disjunction of the members' `allows` (what `VersionUnion.allows` computes
unless the union excludes a single local version) -/
def allowsPlain (c : VC) (v : Version) : Bool := c.flatten.any (fun r => r.allows v)

def wfB (c : VC) : Prop := ∀ r ∈ c.flatten, r.wfB

theorem bounds_eq_flatMap (c : VC) : c.bounds = c.flatten.flatMap RC.bounds := by
  cases c <;> simp [bounds, flatten]

theorem sem_iff (c : VC) (v : Version) : c.sem v ↔ ∃ r ∈ c.flatten, r.sem v := by
  cases c <;> simp [sem, flatten]

theorem allowsPlain_iff_sem (c : VC) (v : Version) (hc : c.wfB) (hv : v.wf = true)
    (hreg : Regular c.bounds v) : c.allowsPlain v = true ↔ c.sem v := by
  rw [sem_iff]
  unfold allowsPlain
  rw [List.any_eq_true]
  rw [bounds_eq_flatMap] at hreg
  constructor
  · rintro ⟨r, hr, h⟩
    exact ⟨r, hr, (RC.allows_iff_sem r v (hc r hr) hv
      (hreg.mono (fun e he => List.mem_flatMap.2 ⟨r, hr, he⟩))).1 h⟩
  · rintro ⟨r, hr, h⟩
    exact ⟨r, hr, (RC.allows_iff_sem r v (hc r hr) hv
      (hreg.mono (fun e he => List.mem_flatMap.2 ⟨r, hr, he⟩))).2 h⟩

theorem allows_empty (v : Version) : VC.allows .empty v = .ok false := rfl
theorem allows_single (c : RC) (v : Version) : VC.allows (.single c) v = .ok (c.allows v) := rfl

end VC

/-! ### range ∩ range -/

namespace VRange

theorem den_any (v : Version) : VRange.any.den v := by
  simp [den, denLo, denHi, any, allowedMax]

/-- the tail of `rngIntersectRng` once the two ends have been chosen -/
def interFinish (imn : Option Version) (iimn : Bool) (imx : Option Version) (iimx : Bool) : PyM VC :=
  if imn.isNone && imx.isNone then .ok (.single (.rng VRange.any))
  else if optVerEq imn imx then
    if iimn && iimx then
      match imn with
      | some v => .ok (.single (.ver v))
      | none => .error .assertion
    else .error .assertion
  else .ok (.single (.rng ⟨imn, imx, iimn, iimx⟩))

theorem rngIntersectRng_eq (a b : VRange) :
    RC.rngIntersectRng a b =
      if a.allowsLower b then
        (if a.isStrictlyLower b then .ok .empty
         else if a.allowsHigher b then interFinish b.min b.imin b.max b.imax
         else interFinish b.min b.imin a.max a.imax)
      else
        (if b.isStrictlyLower a then .ok .empty
         else if a.allowsHigher b then interFinish a.min a.imin b.max b.imax
         else interFinish a.min a.imin a.max a.imax) := by
  unfold RC.rngIntersectRng interFinish
  cases a.allowsLower b <;> cases a.isStrictlyLower b <;> cases b.isStrictlyLower a <;>
    cases a.allowsHigher b <;> rfl

theorem den_split (a b L H : VRange)
    (hlo : ∀ v, L.denLo v ↔ a.denLo v ∧ b.denLo v) (hhi : ∀ v, H.denHi v ↔ a.denHi v ∧ b.denHi v)
    (v : Version) : (L.denLo v ∧ H.denHi v) ↔ (a.den v ∧ b.den v) := by
  unfold den; rw [hlo, hhi]
  constructor <;> rintro ⟨⟨h1, h2⟩, h3, h4⟩ <;> exact ⟨⟨h1, h3⟩, h2, h4⟩

/-- what the chosen ends mean, given that they are the tighter ones -/
theorem interFinish_sem (a b L H : VRange) (hL : L = a ∨ L = b) (hH : H = a ∨ H = b)
    (ha : a.WF) (hb : b.WF)
    (hlo : ∀ v, L.denLo v ↔ a.denLo v ∧ b.denLo v) (hhi : ∀ v, H.denHi v ↔ a.denHi v ∧ b.denHi v)
    (hP : ∀ m M, L.min = some m → H.max = some M →
      vk m < vk M ∨ (vk m = vk M ∧ L.imin = true ∧ H.imax = true)) :
    (∃ x, interFinish L.min L.imin H.max H.imax = .ok (.single (.ver x)) ∧ (x ∈ a.bounds ∨ x ∈ b.bounds) ∧
        ∀ v, (vk v = vk x ↔ a.den v ∧ b.den v)) ∨
    (∃ r, interFinish L.min L.imin H.max H.imax = .ok (.single (.rng r)) ∧ r.WF ∧
        (∀ e ∈ r.bounds, e ∈ a.bounds ∨ e ∈ b.bounds) ∧
        ∀ v, (r.den v ↔ a.den v ∧ b.den v)) := by
  have hLwf : L.WF := by rcases hL with rfl | rfl <;> assumption
  have hHwf : H.WF := by rcases hH with rfl | rfl <;> assumption
  have hLb : ∀ e ∈ L.bounds, e ∈ a.bounds ∨ e ∈ b.bounds := by
    rcases hL with rfl | rfl <;> intro e he <;> simp [he]
  have hHb : ∀ e ∈ H.bounds, e ∈ a.bounds ∨ e ∈ b.bounds := by
    rcases hH with rfl | rfl <;> intro e he <;> simp [he]
  -- the generic range result
  have rngCase : ∀ (hne : ∀ m M, L.min = some m → H.max = some M → vk m < vk M),
      (⟨L.min, H.max, L.imin, H.imax⟩ : VRange).WF ∧
      (∀ e ∈ (⟨L.min, H.max, L.imin, H.imax⟩ : VRange).bounds, e ∈ a.bounds ∨ e ∈ b.bounds) ∧
      ∀ v, ((⟨L.min, H.max, L.imin, H.imax⟩ : VRange).den v ↔ a.den v ∧ b.den v) := by
    intro hne
    refine ⟨⟨?_, ?_⟩, ?_, ?_⟩
    · intro e he
      simp only [bounds, List.mem_append, Option.mem_toList] at he
      rcases he with he | he
      · exact hLwf.1 e (mem_bounds_min he)
      · exact hHwf.1 e (mem_bounds_max he)
    · intro m M hm hM; exact hne m M hm hM
    · intro e he
      simp only [bounds, List.mem_append, Option.mem_toList] at he
      rcases he with he | he
      · exact hLb e (mem_bounds_min he)
      · exact hHb e (mem_bounds_max he)
    · intro v
      rw [← den_split a b L H hlo hhi v]
      unfold den
      have e1 : (⟨L.min, H.max, L.imin, H.imax⟩ : VRange).denLo v ↔ L.denLo v := by simp [denLo]
      have e2 : (⟨L.min, H.max, L.imin, H.imax⟩ : VRange).denHi v ↔ H.denHi v :=
        denHi_congr (r := ⟨L.min, H.max, L.imin, H.imax⟩) (s := H) rfl rfl (fun m M hm hM => ne_of_lt (hne m M hm hM)) hHwf.2.ne v
      rw [e1, e2]
  cases hm : L.min with
  | none =>
    right
    cases hM : H.max with
    | none =>
      refine ⟨VRange.any, by simp [interFinish], ⟨by intro e he; simp [bounds, any] at he, by intro m M hm; simp [any] at hm⟩,
        by intro e he; simp [bounds, any] at he, ?_⟩
      intro v
      rw [← den_split a b L H hlo hhi v]
      simp [den_any, denLo, denHi, hm, allowedMax_none hM]
    | some M =>
      have := rngCase (by intro m M hm'; rw [hm] at hm'; cases hm')
      rw [hm, hM] at this
      exact ⟨_, by simp [interFinish, optVerEq], this⟩
  | some m =>
    cases hM : H.max with
    | none =>
      right
      have := rngCase (by intro m M _ hM'; rw [hM] at hM'; cases hM')
      rw [hm, hM] at this
      exact ⟨_, by simp [interFinish, optVerEq], this⟩
    | some M =>
      rcases hP m M hm hM with hlt | ⟨heq, hi1, hi2⟩
      · right
        have := rngCase (by
          intro m' M' hm' hM'; rw [hm] at hm'; rw [hM] at hM'; cases hm'; cases hM'; exact hlt)
        rw [hm, hM] at this
        have hne : Version.eqv m M = false := (eqv_false_iff _ _).2 (ne_of_lt hlt)
        exact ⟨_, by simp [interFinish, optVerEq, hne], this⟩
      · left
        have he : Version.eqv m M = true := (eqv_iff _ _).2 heq
        refine ⟨m, by simp [interFinish, optVerEq, he, hi1, hi2], hLb m (mem_bounds_min hm), ?_⟩
        intro v
        rw [← den_split a b L H hlo hhi v]
        have hA : H.allowedMax = some M := by
          rcases allowedMax_cases hM with h | h
          · exact h
          · rw [hi2] at h; simp at h
        simp only [denLo, denHi, hm, hi1, hA, hi2, if_true]
        rw [heq]
        constructor
        · intro h; rw [h]; exact ⟨le_refl _, le_refl _⟩
        · intro h; exact le_antisymm h.2 h.1

/-- semantic content of `rngIntersectRng`: never an assertion failure on well-formed ranges, and the
result's denotation is the conjunction -/
theorem intersect_den (a b : VRange) (ha : a.WF) (hb : b.WF) :
    (RC.rngIntersectRng a b = .ok .empty ∧ ∀ v, ¬ (a.den v ∧ b.den v)) ∨
    (∃ x, RC.rngIntersectRng a b = .ok (.single (.ver x)) ∧ (x ∈ a.bounds ∨ x ∈ b.bounds) ∧
        ∀ v, (vk v = vk x ↔ a.den v ∧ b.den v)) ∨
    (∃ r, RC.rngIntersectRng a b = .ok (.single (.rng r)) ∧ r.WF ∧ (∀ e ∈ r.bounds, e ∈ a.bounds ∨ e ∈ b.bounds) ∧
        ∀ v, (r.den v ↔ a.den v ∧ b.den v)) := by
  rw [rngIntersectRng_eq]
  -- the two comparisons give the tighter ends
  have loA : a.allowsLower b = true → ∀ v, b.denLo v ↔ a.denLo v ∧ b.denLo v :=
    fun h v => ⟨fun hb' => ⟨allowsLower_true h v hb', hb'⟩, fun h' => h'.2⟩
  have loB : a.allowsLower b = false → ∀ v, a.denLo v ↔ a.denLo v ∧ b.denLo v :=
    fun h v => ⟨fun ha' => ⟨ha', allowsLower_false h v ha'⟩, fun h' => h'.1⟩
  have hiA : a.allowsHigher b = true → ∀ v, b.denHi v ↔ a.denHi v ∧ b.denHi v :=
    fun h v => ⟨fun hb' => ⟨allowsHigher_true h v hb', hb'⟩, fun h' => h'.2⟩
  have hiB : a.allowsHigher b = false → ∀ v, a.denHi v ↔ a.denHi v ∧ b.denHi v :=
    fun h v => ⟨fun ha' => ⟨ha', allowsHigher_false h v ha'⟩, fun h' => h'.1⟩
  -- the chosen ends are ordered
  have ordSame : ∀ r : VRange, r.WF → ∀ m M, r.min = some m → r.max = some M →
      vk m < vk M ∨ (vk m = vk M ∧ r.imin = true ∧ r.imax = true) :=
    fun r hr m M hm hM => Or.inl (hr.2 m M hm hM)
  have ordCross : ∀ L O : VRange, O.isStrictlyLower L = false → ∀ m M, L.min = some m → O.max = some M →
      vk m < vk M ∨ (vk m = vk M ∧ L.imin = true ∧ O.imax = true) := by
    intro L O hs m M hm hM
    have h := strictlyLower_false hs
    cases hA : O.allowedMax with
    | none => have := allowedMax_isSome (r := O); simp [hA, hM] at this
    | some M' =>
      rw [hA, hm] at h
      simp only at h
      have hle := allowedMax_le hM hA
      rcases h with h | ⟨h1, h2, h3⟩
      · exact Or.inl (lt_of_lt_of_le h hle)
      · rcases lt_or_eq_of_le hle with h4 | h4
        · exact Or.inl (h1 ▸ h4)
        · exact Or.inr ⟨h1.trans h4, h3, h2⟩
  by_cases h1 : a.allowsLower b = true
  · by_cases h2 : a.isStrictlyLower b = true
    · left
      simp only [h1, h2, if_true, true_and]
      intro v hv; exact strictlyLower_true h2 v ⟨hv.1.2, hv.2.1⟩
    · right
      simp only [h1, h2, if_true]
      simp only [Bool.not_eq_true] at h2
      by_cases h3 : a.allowsHigher b = true
      · simp only [h3, if_true]
        exact interFinish_sem a b b b (Or.inr rfl) (Or.inr rfl) ha hb (loA h1) (hiA h3) (ordSame b hb)
      · simp only [h3]
        simp only [Bool.not_eq_true] at h3
        exact interFinish_sem a b b a (Or.inr rfl) (Or.inl rfl) ha hb (loA h1) (hiB h3) (ordCross b a h2)
  · simp only [Bool.not_eq_true] at h1
    by_cases h2 : b.isStrictlyLower a = true
    · left
      simp only [h1, h2, if_true, true_and, Bool.false_eq_true, if_false]
      intro v hv; exact strictlyLower_true h2 v ⟨hv.2.2, hv.1.1⟩
    · right
      simp only [h1, h2, Bool.false_eq_true, if_false]
      simp only [Bool.not_eq_true] at h2
      by_cases h3 : a.allowsHigher b = true
      · simp only [h3, if_true]
        exact interFinish_sem a b a b (Or.inl rfl) (Or.inr rfl) ha hb (loB h1) (hiA h3) (ordCross a b h2)
      · simp only [h3]
        simp only [Bool.not_eq_true] at h3
        exact interFinish_sem a b a a (Or.inl rfl) (Or.inl rfl) ha hb (loB h1) (hiB h3) (ordSame a ha)

theorem den_congr (r : VRange) {p v : Version} (h : vk p = vk v) : r.den p ↔ r.den v := by
  unfold den denLo denHi; rw [h]

theorem raw_congr (r : VRange) {p v : Version} (h : vk p = vk v) : r.raw p ↔ r.raw v := by
  unfold raw denLo rawHi; rw [h]

/-- `allows` of a range respects key equality on regular probes -/
theorem allows_congr (r : VRange) {p v : Version} (hr : r.wfB) (hp : p.wf = true) (hv : v.wf = true)
    (hreg : Regular r.bounds p) (h : vk p = vk v) : r.allows p = r.allows v := by
  have hreg' : Regular r.bounds v := by
    intro e he
    rcases hreg.reg1 he with h1 | h1
    · exact Or.inl ((vk_eq_iff _ _).1 (h.symm.trans h1))
    · exact Or.inr (fun x => h1 ((relKey_of_vk_eq h).trans x))
  have := (allows_iff_den r p hr hp hreg).trans ((den_congr r h).trans (allows_iff_den r v hr hv hreg').symm)
  cases h1 : r.allows p <;> cases h2 : r.allows v <;> simp_all

end VRange

/-! ### version ∩ version, range ∩ version -/

theorem Version.allows_relKey {x y : Version} (h : x.allows y = true) : relKey x = relKey y := by
  unfold Version.allows at h
  generalize ho : (if (!x.isLocal && y.isLocal) = true then y.withoutLocal else y) = o at h
  have hr : relKey o = relKey y := by rw [← ho]; split <;> simp
  rw [← hr]; exact relKey_of_vk_eq ((eqv_iff _ _).1 h)

theorem Version.allows_of_vk_eq {x y : Version} (hx : x.wf = true) (hy : y.wf = true) (h : vk y = vk x) :
    x.allows y = true := (RC.ver_allows_iff x y hx hy (Or.inl h)).2 h

namespace RC

/-- `Version ∩ Version` is exact on regular probes -/
theorem verIntersectVer_exact (a b p : Version) (ha : a.wf = true) (hb : b.wf = true) (hp : p.wf = true)
    (hra : Reg1 p a) (hrb : Reg1 p b) :
    (verIntersectVer a b).allowsPlain p = (a.allows p && b.allows p) := by
  have ea := ver_allows_iff a p ha hp hra
  have eb := ver_allows_iff b p hb hp hrb
  unfold verIntersectVer
  by_cases h1 : a.allows b = true
  · simp only [h1, if_true, VC.allowsPlain, VC.flatten, List.any_cons, List.any_nil, Bool.or_false, RC.allows]
    have hrk := Version.allows_relKey h1
    rcases hrb with hpb | hpb
    · rcases hra with hpa | hpa
      · simp [ea.2 hpa, eb.2 hpb]
      · exact absurd ((relKey_of_vk_eq hpb).trans hrk.symm) hpa
    · have : b.allows p = false := by
        cases h : b.allows p
        · rfl
        · exact absurd (relKey_of_vk_eq (eb.1 h)) hpb
      simp [this]
  · by_cases h2 : b.allows a = true
    · simp only [h1, h2, if_true, VC.allowsPlain, VC.flatten, List.any_cons, List.any_nil, Bool.or_false, RC.allows]
      have hrk := Version.allows_relKey h2
      rcases hra with hpa | hpa
      · rcases hrb with hpb | hpb
        · simp [ea.2 hpa, eb.2 hpb]
        · exact absurd ((relKey_of_vk_eq hpa).trans hrk.symm) hpb
      · have : a.allows p = false := by
          cases h : a.allows p
          · rfl
          · exact absurd (relKey_of_vk_eq (ea.1 h)) hpa
        simp [this]
    · simp only [h1, h2, VC.allowsPlain, VC.flatten, List.any_nil]
      cases h3 : a.allows p <;> cases h4 : b.allows p <;> simp
      exfalso
      have hab : vk b = vk a := (eb.1 h4).symm.trans (ea.1 h3)
      exact h1 (Version.allows_of_vk_eq ha hb hab)

/-- the branch of `VersionRange.intersect(Version)` that returns `[min, v.next_patch)` (known finding
"local-min-intersect"): the range's lower bound is a local build the version weakly equals -/
def LocalMinCase (r : VRange) (v : Version) : Prop :=
  r.allows v = false ∧ ∃ m, r.min = some m ∧ m.isLocal = true ∧ v.allows m = true

/-- `VersionRange ∩ Version` is exact on regular probes, outside the local-min branch -/
theorem rngIntersectVer_exact (r : VRange) (x p : Version) (hr : r.wfB) (hx : x.wf = true) (hp : p.wf = true)
    (hreg : Regular r.bounds p) (hrx : Reg1 p x) (hcase : ¬ LocalMinCase r x) :
    (rngIntersectVer r x).allowsPlain p = (r.allows p && x.allows p) := by
  have ex := ver_allows_iff x p hx hp hrx
  unfold rngIntersectVer
  by_cases h1 : r.allows x = true
  · simp only [h1, if_true, VC.allowsPlain, VC.flatten, List.any_cons, List.any_nil, Bool.or_false, RC.allows]
    cases h2 : x.allows p
    · simp
    · have := VRange.allows_congr r hr hp hx hreg (ex.1 h2)
      simp [this, h1]
  · rw [if_neg h1]
    have hfin : VC.empty.allowsPlain p = (r.allows p && x.allows p) := by
      simp only [VC.allowsPlain, VC.flatten, List.any_nil]
      cases h2 : x.allows p
      · simp
      · have := VRange.allows_congr r hr hp hx hreg (ex.1 h2)
        simp [this, h1]
    cases hm : r.min with
    | none => exact hfin
    | some m =>
      simp only
      by_cases h3 : (m.isLocal && x.allows m) = true
      · exfalso
        simp at h3
        exact hcase ⟨by simpa using h1, m, hm, h3.1, h3.2⟩
      · rw [if_neg h3]; exact hfin

end RC

/-! ### packaging as statements about `VC.allows` -/

def VC.notUnion : VC → Prop
  | .union _ => False
  | _ => True

theorem VC.allows_of_notUnion (c : VC) (p : Version) (h : c.notUnion) : c.allows p = .ok (c.allowsPlain p) := by
  cases c with
  | empty => rfl
  | single c => simp [VC.allows, VC.allowsPlain, VC.flatten]
  | union rs => exact absurd h (by simp [VC.notUnion])

theorem bool_eq_of_iff {x y : Bool} (h : x = true ↔ y = true) : x = y := by
  cases x <;> cases y <;> simp_all

namespace VRange

theorem intersect_exact (a b : VRange) (ha : a.WF) (hb : b.WF) :
    ∃ r, RC.rngIntersectRng a b = .ok r ∧
      ∀ p, p.wf = true → Regular (a.bounds ++ b.bounds) p →
        r.allows p = .ok (a.allows p && b.allows p) := by
  have bridge : ∀ p, p.wf = true → Regular (a.bounds ++ b.bounds) p →
      ((a.allows p && b.allows p) = true ↔ a.den p ∧ b.den p) := by
    intro p hp hreg
    rw [Bool.and_eq_true, allows_iff_den a p ha.1 hp hreg.append_left,
      allows_iff_den b p hb.1 hp hreg.append_right]
  rcases intersect_den a b ha hb with ⟨h, hsem⟩ | ⟨x, h, hx, hsem⟩ | ⟨r, h, hr, hrb, hsem⟩
  · refine ⟨_, h, fun p hp hreg => ?_⟩
    simp only [VC.allows]
    congr 1
    cases hc : (a.allows p && b.allows p)
    · rfl
    · exact absurd ((bridge p hp hreg).1 hc) (hsem p)
  · refine ⟨_, h, fun p hp hreg => ?_⟩
    simp only [VC.allows, RC.allows]
    congr 1
    apply bool_eq_of_iff
    have hxm : x ∈ a.bounds ++ b.bounds := by simpa using hx
    have hxwf : x.wf = true := by
      rcases hx with hx | hx
      · exact ha.1 x hx
      · exact hb.1 x hx
    rw [RC.ver_allows_iff x p hxwf hp (hreg.reg1 hxm), hsem p, bridge p hp hreg]
  · refine ⟨_, h, fun p hp hreg => ?_⟩
    simp only [VC.allows, RC.allows]
    congr 1
    apply bool_eq_of_iff
    have hreg' : Regular r.bounds p := hreg.mono (fun e he => by simpa using hrb e he)
    rw [allows_iff_den r p hr.1 hp hreg', hsem p, bridge p hp hreg]

end VRange

namespace RC

theorem verIntersectVer_notUnion (a b : Version) : (verIntersectVer a b).notUnion := by
  unfold verIntersectVer; split
  · trivial
  · split <;> trivial

theorem rngIntersectVer_notUnion (r : VRange) (x : Version) : (rngIntersectVer r x).notUnion := by
  unfold rngIntersectVer; split
  · trivial
  · split
    · split <;> trivial
    · trivial

theorem bounds_ver (x : Version) : (RC.ver x).bounds = [x, x] := rfl
theorem bounds_rng (r : VRange) : (RC.rng r).bounds = r.bounds := rfl

/-- `a.intersect(b)` for two non-union operands -/
theorem intersect_exact (a b : RC) (ha : a.WF) (hb : b.WF)
    (hcase : ∀ r x, (a = .rng r ∧ b = .ver x) ∨ (a = .ver x ∧ b = .rng r) → ¬ LocalMinCase r x) :
    ∃ r, RC.intersect a b = .ok r ∧
      ∀ p, p.wf = true → Regular (a.bounds ++ b.bounds) p →
        r.allows p = .ok (a.allows p && b.allows p) := by
  cases a with
  | ver x =>
    cases b with
    | ver y =>
      refine ⟨_, rfl, fun p hp hreg => ?_⟩
      rw [VC.allows_of_notUnion _ _ (verIntersectVer_notUnion x y),
        verIntersectVer_exact x y p ha hb hp (hreg.reg1 (by simp [bounds_ver])) (hreg.reg1 (by simp [bounds_ver]))]
      rfl
    | rng r =>
      refine ⟨_, rfl, fun p hp hreg => ?_⟩
      rw [VC.allows_of_notUnion _ _ (rngIntersectVer_notUnion r x),
        rngIntersectVer_exact r x p hb.1 ha hp hreg.append_right (hreg.reg1 (by simp [bounds_ver]))
          (hcase r x (Or.inr ⟨rfl, rfl⟩)), Bool.and_comm]
      rfl
  | rng r =>
    cases b with
    | ver y =>
      refine ⟨_, rfl, fun p hp hreg => ?_⟩
      rw [VC.allows_of_notUnion _ _ (rngIntersectVer_notUnion r y),
        rngIntersectVer_exact r y p ha.1 hb hp hreg.append_left (hreg.reg1 (by simp [bounds_ver]))
          (hcase r y (Or.inl ⟨rfl, rfl⟩))]
      rfl
    | rng s => exact VRange.intersect_exact r s ha hb

end RC
end Poetry
