/-
C18 helper lemmas, part 8: coherence (`mCoherent`) of everything reachable from the parser and the algebra, relative to
the two leaf-level facts it reduces to:
  * `ParsedItemsCoherent` — every item of a PARSED marker text builds a coherent `SingleMarker`
    (C06's `marker_coherent_full_statement` at item level; proved there on its domain), and
  * `MergeClosed leafCoherent` — `_merge_single_markers` returns coherent leaves for coherent operands.
From these: `parse_marker`, intersect, union, intersection(), union(), cnf, dnf, `MultiMarker.of`, `MarkerUnion.of`,
invert, only, exclude, without_extras, reduce_by_python_constraint all return coherent markers.
-/
import PoetryVerif.Proofs.EqHashAlg
import PoetryVerif.Proofs.EqHashMarker
import PoetryVerif.Proofs.MarkerEval

set_option linter.unusedSimpArgs false
set_option linter.unusedVariables false

namespace Poetry.EqHash
open Poetry Poetry.Marker Poetry.Generic

/-! ### the invariant as `M.Good leafCoherent` -/

mutual
theorem mCoherent_iff_good : ∀ m : M, mCoherent m ↔ M.Good leafCoherent m
  | .any => by simp [mCoherent]
  | .empty => by simp [mCoherent]
  | .leaf l => by simp [mCoherent]
  | .multi ms => by simp only [mCoherent, M.Good]; exact mCoherentList_iff_good ms
  | .union ms => by simp only [mCoherent, M.Good]; exact mCoherentList_iff_good ms
theorem mCoherentList_iff_good : ∀ ms : List M, mCoherentList ms ↔ M.GoodAll leafCoherent ms
  | [] => by simp [mCoherentList, M.GoodAll]
  | m :: ms => by simp only [mCoherentList, M.GoodAll, mCoherent_iff_good m, mCoherentList_iff_good ms]
end

/-- C06's Boolean form of coherence of a `SingleMarker` is this invariant -/
theorem singleCoherent_iff (s : Single) : singleCoherent s ↔ s.coherent = true := by
  unfold singleCoherent Single.coherent
  cases h : mkSingle s.name (itemConstraintString s.op s.value s.swapped) s.swapped with
  | error e => simp
  | ok s' => simp

mutual
/-- C06's coherent markers (no atomic leaves) are coherent -/
theorem good_of_Coherent : ∀ m : M, m.Coherent = true → M.Good leafCoherent m
  | .any, _ => by simp
  | .empty, _ => by simp
  | .leaf (.single s), h => by simp only [M.good_leaf, leafCoherent]; exact (singleCoherent_iff s).2 (by simpa [M.Coherent] using h)
  | .leaf (.amulti _ _), h => by simp [M.Coherent] at h
  | .leaf (.aunion _ _), h => by simp [M.Coherent] at h
  | .multi ms, h => by simp only [M.Good]; exact goodAll_of_CoherentL ms (by simpa [M.Coherent] using h)
  | .union ms, h => by simp only [M.Good]; exact goodAll_of_CoherentL ms (by simpa [M.Coherent] using h)
theorem goodAll_of_CoherentL : ∀ ms : List M, M.CoherentL ms = true → M.GoodAll leafCoherent ms
  | [], _ => by simp [M.GoodAll]
  | m :: ms, h => by
    simp only [M.CoherentL, Bool.and_eq_true] at h
    exact ⟨good_of_Coherent m h.1, goodAll_of_CoherentL ms h.2⟩
end

/-! ### the two leaf-level facts -/

/-- every item of a parsed marker text builds a coherent `SingleMarker` (when it builds one at all) -/
def ParsedItemsCoherent : Prop := ∀ (t : String) (syn : Syn), parseText t = .ok syn → syn.coh = true

abbrev MergeCoherent : Prop := MergeClosed leafCoherent

/-! ### the front end -/

theorem compactSubMarkers_good (syn : Syn) (hc : syn.coh = true) (subs : List M)
    (h : compactSubMarkers syn = .ok subs) : GL leafCoherent subs := by
  simp only [compactSubMarkers, bind, Except.bind, pure, Except.pure] at h
  cases hg : compactGroups syn with
  | error e => rw [hg] at h; cases h
  | ok gs =>
    rw [hg] at h
    cases h
    obtain ⟨g, gs', rfl, hcoh, _⟩ := compactGroups_sem ⟨[], none⟩ syn gs hg hc
    have hcl := groups_coherent (g :: gs') hcoh
    intro x hx
    exact good_of_Coherent x ((coherentL_iff _).1 hcl x hx)

theorem parseItemMarker_good (PIC : ParsedItemsCoherent) (text : String) (m : M) (h : parseItemMarker text = .ok m) :
    M.Good leafCoherent m := by
  unfold parseItemMarker at h
  cases hp : parseText text with
  | error e => simp [hp] at h
  | ok syn =>
    have hc := PIC text syn hp
    rw [hp] at h
    cases syn with
    | more a o r => simp at h
    | one a =>
      cases a with
      | paren x => simp at h
      | item n op v sw =>
        simp only [bind, Except.bind, pure, Except.pure] at h
        simp only [Syn.coh, Atom.coh, itemCoherent] at hc
        cases hs : mkSingle n (itemConstraintString op v sw) sw with
        | error e => rw [hs] at h; cases h
        | ok s =>
          rw [hs] at h hc
          cases h
          simp only [M.good_leaf, leafCoherent]
          exact (singleCoherent_iff s).2 hc

/-- **`parse_marker` returns a coherent marker** -/
theorem parseMarker_good (PIC : ParsedItemsCoherent) (MC : MergeCoherent) (text : String) (m : M)
    (h : parseMarker text = .ok m) : M.Good leafCoherent m := by
  unfold parseMarker at h
  split at h
  · cases h; simp
  · split at h
    · cases h; simp
    · obtain ⟨syn, h1, h⟩ := bind_ok.1 h
      obtain ⟨subs, h2, h3⟩ := bind_ok.1 h
      exact (gAt MC defaultFuel).uniF [] subs m (compactSubMarkers_good syn (PIC text syn h1) subs h2) h3

/-! ### `invert` -/

theorem invertSimple_good (PIC : ParsedItemsCoherent) (s : Single) (r : M) (h : invertSimple s = .ok r) :
    M.Good leafCoherent r := by
  unfold invertSimple at h
  split at h
  · cases h
  · cases h
  · exact parseItemMarker_good PIC _ r h

theorem mapM_invertSimple_good (PIC : ParsedItemsCoherent) : ∀ (ms rs : List M),
    (ms.mapM fun m => match m with
      | .leaf (.single x) => invertSimple x
      | _ => (.error .runtime : PyM M)) = .ok rs → GL leafCoherent rs
  | [], rs, h => by simp [pure, Except.pure] at h; rw [h]; exact GL.nil
  | m :: ms, rs, h => by
    simp only [List.mapM_cons] at h
    obtain ⟨x, h1, h⟩ := bind_ok.1 h
    obtain ⟨xs, h2, h3⟩ := bind_ok.1 h
    rw [pure_ok] at h3; subst h3
    refine GL.cons ?_ (mapM_invertSimple_good PIC ms xs h2)
    split at h1
    · exact invertSimple_good PIC _ x h1
    · cases h1

theorem leafInvert_good (PIC : ParsedItemsCoherent) (l : Leaf) (hl : leafCoherent l) (r : M)
    (h : l.invert = .ok r) : M.Good leafCoherent r := by
  cases l with
  | single s =>
    simp only [Leaf.invert] at h
    split at h
    · split at h
      · obtain ⟨a, _, h⟩ := bind_ok.1 h
        obtain ⟨b, _, h⟩ := bind_ok.1 h
        obtain ⟨invs, h3, h4⟩ := bind_ok.1 h
        rw [pure_ok] at h4; subst h4
        exact good_mkUnion (mapM_invertSimple_good PIC _ invs h3)
      · cases h
    · exact invertSimple_good PIC s r h
  | amulti n c =>
    simp only [Leaf.invert] at h
    obtain ⟨inv, _, h⟩ := bind_ok.1 h
    split at h
    · rename_i inv0 ms heq
      generalize (ms.all (atomOpsWithin (if (n == "extra") = true then [Op.eq, Op.ne] else [Op.eq]))) = b at h
      cases b
      · simp at h
      · simp only [if_true, pure_ok] at h; subst h
        simp only [M.good_leaf, leafCoherent]; exact ⟨ms, rfl⟩
    · cases h
  | aunion n c =>
    simp only [Leaf.invert] at h
    obtain ⟨inv, _, h⟩ := bind_ok.1 h
    split at h
    · rename_i inv0 x cs heq
      generalize (cs.all fun a => (if (n == "extra") = true then [Generic.Op.eq, .ne] else [.ne]).contains a.op) = b at h
      cases b
      · simp at h
      · simp only [if_true, pure_ok] at h; subst h
        simp only [M.good_leaf, leafCoherent]; exact ⟨x, cs, rfl⟩
    · cases h

mutual
theorem invert_good (PIC : ParsedItemsCoherent) : ∀ (a r : M), M.Good leafCoherent a → M.invert a = .ok r →
    M.Good leafCoherent r
  | .any, r, _, h => by simp [M.invert] at h; subst h; simp
  | .empty, r, _, h => by simp [M.invert] at h; subst h; simp
  | .leaf l, r, hg, h => by
    simp only [M.invert] at h
    exact leafInvert_good PIC l (by simpa using hg) r h
  | .multi ms, r, hg, h => by
    simp only [M.invert] at h
    obtain ⟨is, h1, h2⟩ := bind_ok.1 h
    rw [pure_ok] at h2; subst h2
    exact good_mkUnion (invertList_good PIC ms is (GL.of_multi hg) h1)
  | .union ms, r, hg, h => by
    simp only [M.invert] at h
    obtain ⟨is, h1, h2⟩ := bind_ok.1 h
    rw [pure_ok] at h2; subst h2
    exact good_mkMulti (invertList_good PIC ms is (GL.of_union hg) h1)
theorem invertList_good (PIC : ParsedItemsCoherent) : ∀ (ms rs : List M), GL leafCoherent ms →
    M.invertList ms = .ok rs → GL leafCoherent rs
  | [], rs, _, h => by simp [M.invertList] at h; subst h; exact GL.nil
  | m :: ms, rs, hg, h => by
    simp only [M.invertList] at h
    obtain ⟨x, h1, h⟩ := bind_ok.1 h
    obtain ⟨xs, h2, h3⟩ := bind_ok.1 h
    rw [pure_ok] at h3; subst h3
    exact GL.cons (invert_good PIC m x hg.head h1) (invertList_good PIC ms xs hg.tail h2)
end

/-! ### `only`, `exclude` — for any leaf predicate closed under the merge -/

mutual
theorem only_goodG {G : Leaf → Prop} (MC : MergeClosed G) (names : List String) : ∀ (a r : M), M.Good G a →
    M.only names a = .ok r → M.Good G r
  | .any, r, _, h => by simp [M.only] at h; subst h; simp
  | .empty, r, _, h => by simp [M.only] at h; subst h; simp
  | .leaf l, r, hg, h => by
    simp only [M.only, Except.ok.injEq] at h; subst h
    split
    · exact hg
    · simp
  | .multi ms, r, hg, h => by
    simp only [M.only] at h
    obtain ⟨xs, h1, h2⟩ := bind_ok.1 h
    exact (gAt MC defaultFuel).mOf [] xs r (onlyList_goodG MC names ms xs (GL.of_multi hg) h1) h2
  | .union ms, r, hg, h => by
    simp only [M.only] at h
    obtain ⟨xs, h1, h2⟩ := bind_ok.1 h
    exact (gAt MC defaultFuel).uOf [] xs r (onlyList_goodG MC names ms xs (GL.of_union hg) h1) h2
theorem onlyList_goodG {G : Leaf → Prop} (MC : MergeClosed G) (names : List String) : ∀ (ms rs : List M), GL G ms →
    M.onlyList names ms = .ok rs → GL G rs
  | [], rs, _, h => by simp [M.onlyList] at h; subst h; exact GL.nil
  | m :: ms, rs, hg, h => by
    simp only [M.onlyList] at h
    obtain ⟨x, h1, h⟩ := bind_ok.1 h
    obtain ⟨xs, h2, h3⟩ := bind_ok.1 h
    rw [pure_ok] at h3; subst h3
    exact GL.cons (only_goodG MC names m x hg.head h1) (onlyList_goodG MC names ms xs hg.tail h2)
end

mutual
theorem exclude_goodG {G : Leaf → Prop} (MC : MergeClosed G) (name : String) : ∀ (a r : M), M.Good G a →
    M.exclude name a = .ok r → M.Good G r
  | .any, r, _, h => by simp [M.exclude] at h; subst h; simp
  | .empty, r, _, h => by simp [M.exclude] at h; subst h; simp
  | .leaf l, r, hg, h => by
    simp only [M.exclude, Except.ok.injEq] at h; subst h
    split
    · simp
    · exact hg
  | .multi ms, r, hg, h => by
    simp only [M.exclude] at h
    obtain ⟨xs, h1, h2⟩ := bind_ok.1 h
    exact (gAt MC defaultFuel).interF [] _ r ((excludeList_goodG MC name ms xs (GL.of_multi hg) h1).filter _) h2
  | .union ms, r, hg, h => by
    simp only [M.exclude] at h
    obtain ⟨xs, h1, h2⟩ := bind_ok.1 h
    split at h2
    · rw [pure_ok] at h2; subst h2; simp
    · exact (gAt MC defaultFuel).uniF [] xs r (excludeList_goodG MC name ms xs (GL.of_union hg) h1) h2
theorem excludeList_goodG {G : Leaf → Prop} (MC : MergeClosed G) (name : String) : ∀ (ms rs : List M), GL G ms →
    M.excludeList name ms = .ok rs → GL G rs
  | [], rs, _, h => by simp [M.excludeList] at h; subst h; exact GL.nil
  | m :: ms, rs, hg, h => by
    simp only [M.excludeList] at h
    split at h
    · exact excludeList_goodG MC name ms rs hg.tail h
    · obtain ⟨x, h1, h⟩ := bind_ok.1 h
      obtain ⟨xs, h2, h3⟩ := bind_ok.1 h
      rw [pure_ok] at h3; subst h3
      exact GL.cons (exclude_goodG MC name m x hg.head h1) (excludeList_goodG MC name ms xs hg.tail h2)
end

/-! ### `only`, `exclude` on coherent markers -/

theorem only_good (MC : MergeCoherent) (names : List String) (a r : M) (ha : M.Good leafCoherent a)
    (h : M.only names a = .ok r) : M.Good leafCoherent r := only_goodG MC names a r ha h

theorem exclude_good (MC : MergeCoherent) (name : String) (a r : M) (ha : M.Good leafCoherent a)
    (h : M.exclude name a = .ok r) : M.Good leafCoherent r := exclude_goodG MC name a r ha h

/-! ### `reduce_by_python_constraint` -/

theorem leafReduce_good (PIC : ParsedItemsCoherent) (MC : MergeCoherent) (l : Leaf) (hl : leafCoherent l) (pc : VC)
    (r : M) (h : l.reduce pc = .ok r) : M.Good leafCoherent r := by
  have hleaf : M.Good leafCoherent (.leaf l) := by simpa using hl
  cases l with
  | single s =>
    simp only [Leaf.reduce] at h
    split at h
    · obtain ⟨c, _, h⟩ := bind_ok.1 h
      obtain ⟨b1, _, h⟩ := bind_ok.1 h
      split at h
      · rw [pure_ok] at h; subst h; simp
      · obtain ⟨b2, _, h⟩ := bind_ok.1 h
        split at h
        · rw [pure_ok] at h; subst h; simp
        · obtain ⟨txt, _, h⟩ := bind_ok.1 h
          obtain ⟨pm, h3, h⟩ := bind_ok.1 h
          obtain ⟨i, h4, h⟩ := bind_ok.1 h
          have hi := (gAt MC defaultFuel).inter [] _ _ i hleaf (parseMarker_good PIC MC txt pm h3) h4
          split at h
          · rw [pure_ok] at h; subst h; exact hi
          · rw [pure_ok] at h; subst h; exact hleaf
    · rw [pure_ok] at h; subst h; exact hleaf
  | amulti n c => simp only [Leaf.reduce, pure_ok] at h; subst h; exact hleaf
  | aunion n c => simp only [Leaf.reduce, pure_ok] at h; subst h; exact hleaf

mutual
theorem reduce_good (PIC : ParsedItemsCoherent) (MC : MergeCoherent) (pc : VC) : ∀ (a r : M),
    M.Good leafCoherent a → M.reduce pc a = .ok r → M.Good leafCoherent r
  | .any, r, _, h => by simp [M.reduce] at h; subst h; simp
  | .empty, r, _, h => by simp [M.reduce] at h; subst h; simp
  | .leaf l, r, hg, h => by
    simp only [M.reduce] at h
    exact leafReduce_good PIC MC l (by simpa using hg) pc r h
  | .multi ms, r, hg, h => by
    simp only [M.reduce] at h
    obtain ⟨xs, h1, h2⟩ := bind_ok.1 h
    exact (gAt MC defaultFuel).mOf [] xs r (reduceList_good PIC MC pc ms xs (GL.of_multi hg) h1) h2
  | .union ms, r, hg, h => by
    simp only [M.reduce] at h
    obtain ⟨b, _, h⟩ := bind_ok.1 h
    split at h
    · rw [pure_ok] at h; subst h; simp
    · obtain ⟨xs, h1, h2⟩ := bind_ok.1 h
      exact (gAt MC defaultFuel).uOf [] xs r (reduceList_good PIC MC pc ms xs (GL.of_union hg) h1) h2
theorem reduceList_good (PIC : ParsedItemsCoherent) (MC : MergeCoherent) (pc : VC) : ∀ (ms rs : List M),
    GL leafCoherent ms → M.reduceList pc ms = .ok rs → GL leafCoherent rs
  | [], rs, _, h => by simp [M.reduceList] at h; subst h; exact GL.nil
  | m :: ms, rs, hg, h => by
    simp only [M.reduceList] at h
    obtain ⟨x, h1, h⟩ := bind_ok.1 h
    obtain ⟨xs, h2, h3⟩ := bind_ok.1 h
    rw [pure_ok] at h3; subst h3
    exact GL.cons (reduce_good PIC MC pc m x hg.head h1) (reduceList_good PIC MC pc ms xs hg.tail h2)
end

end Poetry.EqHash
