/-
`normalize_python_version_markers` on conjunctions with `in` lists: every pair contributes a list of alternative
clauses (one for a comparison, one per listed version for `in`), and the conjunction is printed as the product of
the alternatives (repo fix bb3e413) — helper lemmas for C11.
-/
import PoetryVerif.Proofs.PyConvNorm

set_option linter.unusedSimpArgs false
set_option linter.unusedVariables false

namespace Poetry.Marker
open Poetry

/-- the alternatives one `(op, value)` pair contributes -/
def PairAlts (op v : String) (alts : List String) : Prop :=
  (RelOp op ∧ ∃ item, normalizePyPair op v = .ok item ∧ alts = [item]) ∨
  (op = "in" ∧ alts = versionListItems true v) ∨
  (op = "not in" ∧ alts = [joinWith ", " (versionListItems false v)])

/-- all ways of choosing one alternative per pair, in order -/
def prodAlts : List (List String) → List (List String)
  | [] => [[]]
  | a :: rest => a.flatMap (fun v => (prodAlts rest).map (v :: ·))

theorem normConj_alts (pas : List ((String × String) × List String))
    (h : ∀ x ∈ pas, PairAlts x.1.1 x.1.2 x.2) (alts : List (List String)) :
    normalizePyConj (pas.map (·.1)) alts =
      .ok (alts.flatMap (fun ands => (prodAlts (pas.map (·.2))).map (ands ++ ·))) := by
  induction pas generalizing alts with
  | nil => simp [normalizePyConj, prodAlts]
  | cons x xs ih =>
    obtain ⟨⟨op, v⟩, a⟩ := x
    have ih' := fun alts => ih (fun y hy => h y (by simp [hy])) alts
    rcases h ((op, v), a) (by simp) with ⟨hop, item, hitem, ha⟩ | ⟨hop, ha⟩ | ⟨hop, ha⟩
    · simp only at hop hitem ha
      subst ha
      have hl := relOp_not_list hop
      simp only [List.map_cons, normalizePyConj, hl.1, hl.2, Bool.false_eq_true, if_false, hitem]
      rw [ih']
      simp [prodAlts, List.flatMap_map, List.map_map, Function.comp_def]
    · simp only at hop ha
      subst hop; subst ha
      simp only [List.map_cons, normalizePyConj, if_true, beq_self_eq_true]
      rw [ih']
      simp [prodAlts, List.flatMap_assoc, List.flatMap_map, List.map_flatMap, List.map_map, Function.comp_def]
    · simp only at hop ha
      subst hop; subst ha
      have h1 : ("not in" == "in") = false := by decide
      simp only [List.map_cons, normalizePyConj, h1, Bool.false_eq_true, if_false, if_true, beq_self_eq_true]
      rw [ih']
      simp [prodAlts, List.flatMap_map, List.map_map, Function.comp_def]

end Poetry.Marker
