/-
Union of range constraints: the single-result case `rcUnionSingle` (the hull of two overlapping or
touching members) is exact on regular probes (helper lemmas for C05).
-/
import PoetryVerif.Proofs.VRangePred

set_option linter.unusedSimpArgs false
set_option linter.unusedVariables false

namespace Poetry
open Version

namespace VRange

/-- an absent bound is never "included" (what the parser and the algebra build) -/
def Tidy (r : VRange) : Prop := (r.min = none → r.imin = false) ∧ (r.max = none → r.imax = false)

/-- when `a` is not strictly below `b`, every version is below `a`'s effective upper end or above `b`'s lower end -/
theorem strictlyLower_false_cover {a b : VRange} (h : a.isStrictlyLower b = false) (p : Version) :
    a.denHi p ∨ b.denLo p := by
  unfold isStrictlyLower allowedMin at h; unfold denHi denLo
  cases ha : a.allowedMax <;> cases hb : b.min <;> cases hia : a.imax <;> cases hib : b.imin <;>
    simp [ha, hb, hia, hib, lt_iff, gt_iff] at * <;> grind

/-- the hull `VersionRange.union` returns when the operands overlap or touch -/
def hull (a b : VRange) : VRange :=
  ⟨if a.allowsLower b then a.min else b.min, if a.allowsHigher b then a.max else b.max,
   if a.allowsLower b then a.imin else b.imin, if a.allowsHigher b then a.imax else b.imax⟩

def edgesTouch (a b : VRange) : Bool :=
  (optVerEq a.max b.min && (a.imax || b.imin)) || (optVerEq a.min b.max && (a.imin || b.imax))

theorem rcUnionSingle_rng_none (a b : VRange)
    (h : (!(edgesTouch a b) && (b.isStrictlyLower a || a.isStrictlyLower b)) = true) :
    rcUnionSingle (.rng a) (.rng b) = .ok none := by
  simp only [edgesTouch] at h
  simp only [rcUnionSingle, RC.allowsAny, isStrictlyHigher, bind, Except.bind, pure, Except.pure, Bool.not_not]
  rw [if_pos h]

theorem rcUnionSingle_rng_some (a b : VRange)
    (h : (!(edgesTouch a b) && (b.isStrictlyLower a || a.isStrictlyLower b)) = false) :
    rcUnionSingle (.rng a) (.rng b) = .ok (some (.rng (hull a b))) := by
  simp only [edgesTouch] at h
  simp only [rcUnionSingle, RC.allowsAny, isStrictlyHigher, bind, Except.bind, pure, Except.pure, Bool.not_not]
  rw [if_neg (by rw [h]; simp)]
  simp only [hull]
  cases a.allowsLower b <;> cases a.allowsHigher b <;> simp

theorem hull_denLo (a b : VRange) (p : Version) : (hull a b).denLo p ↔ a.denLo p ∨ b.denLo p := by
  cases h : a.allowsLower b
  · have := allowsLower_false h p
    have e : (hull a b).denLo p ↔ b.denLo p := by simp [hull, denLo, h]
    rw [e]; constructor
    · exact Or.inr
    · rintro (h1 | h1); exact this h1; exact h1
  · have := allowsLower_true h p
    have e : (hull a b).denLo p ↔ a.denLo p := by simp [hull, denLo, h]
    rw [e]; constructor
    · exact Or.inl
    · rintro (h1 | h1); exact h1; exact this h1

theorem hull_rawHi (a b : VRange) (p : Version)
    (hra : ∀ M, a.max = some M → Reg1 p M) (hrb : ∀ M, b.max = some M → Reg1 p M) :
    (hull a b).rawHi p ↔ a.rawHi p ∨ b.rawHi p := by
  have ea := denHi_iff_rawHi a p hra
  have eb := denHi_iff_rawHi b p hrb
  cases h : a.allowsHigher b
  · have := allowsHigher_false h p
    have e : (hull a b).rawHi p ↔ b.rawHi p := by simp [hull, rawHi, h]
    rw [e]; constructor
    · exact Or.inr
    · rintro (h1 | h1); exact eb.1 (this (ea.2 h1)); exact h1
  · have := allowsHigher_true h p
    have e : (hull a b).rawHi p ↔ a.rawHi p := by simp [hull, rawHi, h]
    rw [e]; constructor
    · exact Or.inl
    · rintro (h1 | h1); exact h1; exact ea.1 (this (eb.2 h1))

/-- the hull is the union as soon as the two operands leave no gap between them -/
theorem hull_raw (a b : VRange) (p : Version)
    (hra : ∀ M, a.max = some M → Reg1 p M) (hrb : ∀ M, b.max = some M → Reg1 p M)
    (c1 : a.rawHi p ∨ b.denLo p) (c2 : b.rawHi p ∨ a.denLo p) :
    (hull a b).raw p ↔ a.raw p ∨ b.raw p := by
  unfold raw
  rw [hull_denLo, hull_rawHi a b p hra hrb]
  constructor
  · rintro ⟨hl | hl, hh | hh⟩
    · exact Or.inl ⟨hl, hh⟩
    · rcases c1 with c | c
      · exact Or.inl ⟨hl, c⟩
      · exact Or.inr ⟨c, hh⟩
    · rcases c2 with c | c
      · exact Or.inr ⟨hl, c⟩
      · exact Or.inl ⟨c, hh⟩
    · exact Or.inr ⟨hl, hh⟩
  · rintro (⟨h1, h2⟩ | ⟨h1, h2⟩)
    · exact ⟨Or.inl h1, Or.inl h2⟩
    · exact ⟨Or.inr h1, Or.inr h2⟩

/-- touching edges: `a.max == b.min` with at least one side inclusive leaves no gap -/
theorem touch_cover1 {a b : VRange} (ha : a.Tidy) (hb : b.Tidy)
    (h : (optVerEq a.max b.min && (a.imax || b.imin)) = true) (p : Version) : a.rawHi p ∨ b.denLo p := by
  unfold rawHi denLo
  obtain ⟨_, ha2⟩ := ha
  obtain ⟨hb1, _⟩ := hb
  cases hM : a.max <;> cases hm : b.min <;> cases hia : a.imax <;> cases hib : b.imin <;>
    simp [hM, hm, hia, hib, optVerEq, eqv_iff] at * <;> grind

theorem touch_cover2 {a b : VRange} (ha : a.Proper) (hb : b.Proper) (hta : a.Tidy) (htb : b.Tidy)
    (h : (optVerEq a.max b.min && (a.imax || b.imin)) = true) (p : Version) : b.rawHi p ∨ a.denLo p := by
  unfold rawHi denLo
  cases hM : a.max with
  | none =>
    cases hm : b.min with
    | none => simp [hM, hm, optVerEq, hta.2 hM, htb.1 hm] at h
    | some m => simp [hM, hm, optVerEq] at h
  | some M =>
    cases hm : b.min with
    | none => simp [hM, hm, optVerEq] at h
    | some m =>
      simp only [hM, hm, optVerEq, Bool.and_eq_true, eqv_iff] at h
      have h1 := h.1
      cases hm' : a.min with
      | none => simp
      | some m' =>
        have l1 := ha m' M hm' hM
        cases hM' : b.max with
        | none => simp
        | some M' =>
          have l2 := hb m M' hm hM'
          simp only
          cases a.imin <;> cases b.imax <;> simp <;> grind

theorem optVerEq_comm (x y : Option Version) : optVerEq x y = optVerEq y x := by
  cases x <;> cases y <;> simp [optVerEq]
  rename_i a b
  cases h : Version.eqv a b
  · rw [eqv_false_iff] at h; exact ((eqv_false_iff _ _).2 (fun e => h e.symm)).symm
  · rw [eqv_iff] at h; exact ((eqv_iff _ _).2 h.symm).symm

theorem allowsLower_true_le {a b : VRange} (h : a.allowsLower b = true) {x y : Version}
    (hx : a.min = some x) (hy : b.min = some y) : vk x ≤ vk y := by
  unfold allowsLower allowedMin at h
  rw [hx, hy] at h
  simp only at h
  by_cases h1 : Version.lt x y = true
  · exact le_of_lt ((lt_iff _ _).1 h1)
  · by_cases h2 : Version.gt x y = true
    · simp [h1, h2] at h
    · simp only [Bool.not_eq_true] at h2
      exact (gt_false_iff _ _).1 h2

theorem allowsLower_false_le {a b : VRange} (h : a.allowsLower b = false) {x y : Version}
    (hx : a.min = some x) (hy : b.min = some y) : vk y ≤ vk x := by
  unfold allowsLower allowedMin at h
  rw [hx, hy] at h
  simp only at h
  by_cases h1 : Version.lt x y = true
  · simp [h1] at h
  · simp only [Bool.not_eq_true] at h1
    exact (lt_false_iff _ _).1 h1

theorem hull_bounds (a b : VRange) : ∀ e ∈ (hull a b).bounds, e ∈ a.bounds ∨ e ∈ b.bounds := by
  intro e he
  simp only [bounds, hull, List.mem_append, Option.mem_toList] at he ⊢
  cases h1 : a.allowsLower b <;> cases h2 : a.allowsHigher b <;> simp [h1, h2] at he <;> grind

theorem hull_WF (a b : VRange) (ha : a.WF) (hb : b.WF) : (hull a b).WF := by
  refine ⟨?_, ?_⟩
  · intro e he
    rcases hull_bounds a b e he with h | h
    · exact ha.1 e h
    · exact hb.1 e h
  · intro m M hm hM
    simp only [hull] at hm hM
    cases h1 : a.allowsLower b <;> cases h2 : a.allowsHigher b <;> simp [h1, h2] at hm hM
    · exact hb.2 m M hm hM
    · -- min from b, max from a
      cases hx : a.min with
      | none => simp [allowsLower, allowedMin, hx, hm] at h1
      | some x => exact lt_of_le_of_lt (allowsLower_false_le h1 hx hm) (ha.2 x M hx hM)
    · -- min from a, max from b
      cases hy : b.min with
      | none => simp [allowsLower, allowedMin, hy, hm] at h1
      | some y => exact lt_of_le_of_lt (allowsLower_true_le h1 hm hy) (hb.2 y M hy hM)
    · exact ha.2 m M hm hM

theorem hull_Tidy (a b : VRange) (ha : a.Tidy) (hb : b.Tidy) : (hull a b).Tidy := by
  constructor
  · intro h; simp only [hull] at h ⊢
    cases h1 : a.allowsLower b <;> simp [h1] at h ⊢
    · exact hb.1 h
    · exact ha.1 h
  · intro h; simp only [hull] at h ⊢
    cases h1 : a.allowsHigher b <;> simp [h1] at h ⊢
    · exact hb.2 h
    · exact ha.2 h

/-- **the single-result union of two ranges is exact**: when `VersionRange.union` answers with one range
(the operands overlap or their edges touch) that range admits a regular probe iff one operand does -/
theorem union_single_exact (a b : VRange) (ha : a.WF) (hb : b.WF) (hta : a.Tidy) (htb : b.Tidy)
    (u : RC) (h : rcUnionSingle (.rng a) (.rng b) = .ok (some u)) :
    u = .rng (hull a b) ∧
    ∀ p, p.wf = true → Regular (a.bounds ++ b.bounds) p → u.allows p = (a.allows p || b.allows p) := by
  cases hc : (!(edgesTouch a b) && (b.isStrictlyLower a || a.isStrictlyLower b))
  · rw [rcUnionSingle_rng_some a b hc] at h
    cases h
    refine ⟨rfl, fun p hp hreg => ?_⟩
    have hra : ∀ M, a.max = some M → Reg1 p M := fun M hM => hreg.reg1 (by simp [bounds, hM])
    have hrb : ∀ M, b.max = some M → Reg1 p M := fun M hM => hreg.reg1 (by simp [bounds, hM])
    have cov : (a.rawHi p ∨ b.denLo p) ∧ (b.rawHi p ∨ a.denLo p) := by
      simp only [Bool.and_eq_false_iff, Bool.not_eq_false', Bool.or_eq_false_iff] at hc
      rcases hc with hc | hc
      · simp only [edgesTouch, Bool.or_eq_true] at hc
        rcases hc with hc | hc
        · exact ⟨touch_cover1 hta htb hc p, touch_cover2 ha.2 hb.2 hta htb hc p⟩
        · have hc' : (optVerEq b.max a.min && (b.imax || a.imin)) = true := by
            rw [optVerEq_comm, Bool.or_comm]; exact hc
          exact ⟨touch_cover2 hb.2 ha.2 htb hta hc' p, touch_cover1 htb hta hc' p⟩
      · refine ⟨?_, ?_⟩
        · rcases strictlyLower_false_cover hc.2 p with h1 | h1
          · exact Or.inl ((denHi_iff_rawHi a p hra).1 h1)
          · exact Or.inr h1
        · rcases strictlyLower_false_cover hc.1 p with h1 | h1
          · exact Or.inl ((denHi_iff_rawHi b p hrb).1 h1)
          · exact Or.inr h1
    have hsem := hull_raw a b p hra hrb cov.1 cov.2
    have hregH : Regular (hull a b).bounds p := hreg.mono (fun e he => by simpa using hull_bounds a b e he)
    apply bool_eq_of_iff
    show (hull a b).allows p = true ↔ _
    rw [allows_iff_raw _ p (hull_WF a b ha hb).1 hp hregH, hsem, Bool.or_eq_true,
      allows_iff_raw a p ha.1 hp hreg.append_left, allows_iff_raw b p hb.1 hp hreg.append_right]
  · rw [rcUnionSingle_rng_none a b hc] at h
    cases h

/-- including the lower end: `[m, …` instead of `(m, …` adds exactly the versions equal to `m` -/
theorem close_lo_raw (r : VRange) (m a p : Version) (hm : r.min = some m) (hr : r.Proper)
    (hrel : relKey a = relKey m) (hpa : Reg1 p a) (hpm : Reg1 p m) :
    (⟨r.min, r.max, true, r.imax⟩ : VRange).raw p ↔ (vk p = vk a ∨ r.raw p) := by
  have hpm' : vk p = vk a ↔ vk p = vk m := by
    constructor
    · intro h
      rcases hpm with h1 | h1
      · exact h1
      · exact absurd ((relKey_of_vk_eq h).trans hrel) h1
    · intro h
      rcases hpa with h1 | h1
      · exact h1
      · exact absurd ((relKey_of_vk_eq h).trans hrel.symm) h1
  rw [hpm']
  simp only [raw, denLo, rawHi, hm, if_true]
  cases hM : r.max with
  | none => cases r.imin <;> simp <;> grind
  | some M =>
    have := hr m M hm hM
    cases r.imin <;> cases r.imax <;> simp <;> grind

theorem close_hi_raw (r : VRange) (M a p : Version) (hM : r.max = some M) (hr : r.Proper)
    (hrel : relKey a = relKey M) (hpa : Reg1 p a) (hpM : Reg1 p M) :
    (⟨r.min, r.max, r.imin, true⟩ : VRange).raw p ↔ (vk p = vk a ∨ r.raw p) := by
  have hpm' : vk p = vk a ↔ vk p = vk M := by
    constructor
    · intro h
      rcases hpM with h1 | h1
      · exact h1
      · exact absurd ((relKey_of_vk_eq h).trans hrel) h1
    · intro h
      rcases hpa with h1 | h1
      · exact h1
      · exact absurd ((relKey_of_vk_eq h).trans hrel.symm) h1
  rw [hpm']
  simp only [raw, denLo, rawHi, hM, if_true]
  cases hm : r.min with
  | none => cases r.imax <;> simp <;> grind
  | some m =>
    have := hr m M hm hM
    cases r.imin <;> cases r.imax <;> simp <;> grind

end VRange

namespace RC

def Tidy : RC → Prop
  | ver _ => True
  | rng r => r.Tidy

/-- `allows` of a member respects key equality on regular probes -/
theorem allows_congr (c : RC) {p v : Version} (hc : c.WF) (hp : p.wf = true) (hv : v.wf = true)
    (hreg : Regular c.bounds p) (h : vk p = vk v) : c.allows p = c.allows v := by
  cases c with
  | rng r => exact VRange.allows_congr r hc.1 hp hv hreg h
  | ver y =>
    have hr : Reg1 p y := hreg.reg1 (by simp [bounds_ver])
    have hr' : Reg1 v y := by
      rcases hr with h1 | h1
      · exact Or.inl (h.symm.trans h1)
      · exact Or.inr (fun e => h1 ((relKey_of_vk_eq h).trans e))
    apply bool_eq_of_iff
    show y.allows p = true ↔ y.allows v = true
    rw [ver_allows_iff y p hc hp hr, ver_allows_iff y v hc hv hr', h]

/-- a version absorbed by a member that already admits it -/
theorem absorb_exact (c : RC) (a p : Version) (hc : c.WF) (ha : a.wf = true) (hp : p.wf = true)
    (hra : Reg1 p a) (hreg : Regular c.bounds p) (hca : c.allows a = true) :
    c.allows p = (a.allows p || c.allows p) := by
  cases h : a.allows p
  · simp
  · have := allows_congr c hc hp ha hreg ((ver_allows_iff a p ha hp hra).1 h)
    simp [this, hca]

theorem rng_close_lo_exact (r : VRange) (m a p : Version) (hm : r.min = some m) (hr : r.WF)
    (ha : a.wf = true) (hp : p.wf = true) (hrel : relKey a = relKey m) (hpa : Reg1 p a)
    (hreg : Regular r.bounds p) :
    (⟨r.min, r.max, true, r.imax⟩ : VRange).allows p = (a.allows p || r.allows p) := by
  apply bool_eq_of_iff
  have hwf : (⟨r.min, r.max, true, r.imax⟩ : VRange).wfB := hr.1
  rw [VRange.allows_iff_raw _ p hwf hp hreg,
    VRange.close_lo_raw r m a p hm hr.2 hrel hpa (hreg.reg1 (VRange.mem_bounds_min hm)), Bool.or_eq_true,
    ver_allows_iff a p ha hp hpa, VRange.allows_iff_raw r p hr.1 hp hreg]

theorem rng_close_hi_exact (r : VRange) (M a p : Version) (hM : r.max = some M) (hr : r.WF)
    (ha : a.wf = true) (hp : p.wf = true) (hrel : relKey a = relKey M) (hpa : Reg1 p a)
    (hreg : Regular r.bounds p) :
    (⟨r.min, r.max, r.imin, true⟩ : VRange).allows p = (a.allows p || r.allows p) := by
  apply bool_eq_of_iff
  have hwf : (⟨r.min, r.max, r.imin, true⟩ : VRange).wfB := hr.1
  rw [VRange.allows_iff_raw _ p hwf hp hreg,
    VRange.close_hi_raw r M a p hM hr.2 hrel hpa (hreg.reg1 (VRange.mem_bounds_max hM)), Bool.or_eq_true,
    ver_allows_iff a p ha hp hpa, VRange.allows_iff_raw r p hr.1 hp hreg]

/-- **`rcUnionSingle` is exact**: whenever `a.union(b)` answers with a single member, that member is
well-formed, mentions only bounds of the operands, and admits a regular probe iff one operand does. -/
theorem rcUnionSingle_exact (x y : RC) (hx : x.WF) (hy : y.WF) (htx : x.Tidy) (hty : y.Tidy)
    (u : RC) (h : rcUnionSingle x y = .ok (some u)) :
    u.WF ∧ u.Tidy ∧ (∀ e ∈ u.bounds, e ∈ x.bounds ∨ e ∈ y.bounds) ∧
    ∀ p, p.wf = true → Regular (x.bounds ++ y.bounds) p → u.allows p = (x.allows p || y.allows p) := by
  cases x with
  | ver a =>
    have hra : ∀ p, Regular ((ver a).bounds ++ y.bounds) p → Reg1 p a :=
      fun p hreg => hreg.reg1 (by simp [bounds_ver])
    simp only [rcUnionSingle] at h
    by_cases h1 : y.allows a = true
    · simp only [h1, if_true, Except.ok.injEq, Option.some.injEq] at h
      subst h
      exact ⟨hy, hty, fun e he => Or.inr he, fun p hp hreg =>
        absorb_exact _ a p hy hx hp (hra p hreg) hreg.append_right h1⟩
    · simp only [h1, Bool.false_eq_true, if_false] at h
      cases y with
      | ver b =>
        -- weak equality: `a` admits `b` (a local build of it): the union is `a`
        simp only [RC.min, RC.max] at h
        by_cases h2 : a.allows b = true
        · simp only [h2, if_true, Except.ok.injEq, Option.some.injEq] at h
          subst h
          refine ⟨hx, trivial, fun e he => Or.inl he, fun p hp hreg => ?_⟩
          have hrb : Reg1 p b := hreg.reg1 (by simp [bounds_ver])
          cases hbp : (ver b).allows p
          · simp
          · have hpb := (ver_allows_iff b p hy hp hrb).1 hbp
            have hrk := Version.allows_relKey h2
            rcases hra p hreg with hpa | hpa
            · have : (ver a).allows p = true := (ver_allows_iff a p hx hp (Or.inl hpa)).2 hpa
              simp [this]
            · exact absurd ((relKey_of_vk_eq hpb).trans hrk.symm) hpa
        · simp [h2] at h
      | rng r =>
        simp only [RC.min, RC.max, RC.imin, RC.imax, Bool.false_eq_true, if_false] at h
        cases hm : r.min with
        | none =>
          cases hM : r.max with
          | none => simp [hm, hM] at h
          | some M =>
            simp only [hm, hM, Bool.false_eq_true, if_false] at h
            by_cases h3 : a.allows M = true
            · simp only [h3, if_true, Except.ok.injEq, Option.some.injEq] at h
              subst h
              rw [← hM, ← hm]
              refine ⟨⟨hy.1, hy.2⟩, ⟨fun e => hty.1 e, fun e => by simp [hM] at e⟩,
                fun e he => Or.inr he, fun p hp hreg => ?_⟩
              exact rng_close_hi_exact r M a p hM hy hx hp (Version.allows_relKey h3) (hra p hreg)
                hreg.append_right
            · simp [h3] at h
        | some m =>
          simp only [hm] at h
          by_cases h2 : a.allows m = true
          · simp only [h2, if_true, Except.ok.injEq, Option.some.injEq] at h
            subst h
            rw [← hm]
            refine ⟨⟨hy.1, hy.2⟩, ⟨fun e => by simp [hm] at e, fun e => hty.2 e⟩,
              fun e he => Or.inr he, fun p hp hreg => ?_⟩
            exact rng_close_lo_exact r m a p hm hy hx hp (Version.allows_relKey h2) (hra p hreg)
              hreg.append_right
          · simp only [h2, Bool.false_eq_true, if_false] at h
            cases hM : r.max with
            | none => simp [hM] at h
            | some M =>
              simp only [hM] at h
              by_cases h3 : a.allows M = true
              · simp only [h3, if_true, Except.ok.injEq, Option.some.injEq] at h
                subst h
                rw [← hM, ← hm]
                refine ⟨⟨hy.1, hy.2⟩, ⟨fun e => hty.1 e, fun e => by simp [hM] at e⟩,
                  fun e he => Or.inr he, fun p hp hreg => ?_⟩
                exact rng_close_hi_exact r M a p hM hy hx hp (Version.allows_relKey h3) (hra p hreg)
                  hreg.append_right
              · simp [h3] at h
  | rng r =>
    cases y with
    | ver v =>
      have hrv : ∀ p, Regular ((rng r).bounds ++ (ver v).bounds) p → Reg1 p v :=
        fun p hreg => hreg.reg1 (by simp [bounds_ver])
      simp only [rcUnionSingle] at h
      by_cases h1 : r.allows v = true
      · simp only [h1, if_true, Except.ok.injEq, Option.some.injEq] at h
        subst h
        refine ⟨hx, htx, fun e he => Or.inl he, fun p hp hreg => ?_⟩
        have := absorb_exact (rng r) v p hx hy hp (hrv p hreg) hreg.append_left h1
        rw [Bool.or_comm]; exact this
      · simp only [h1, Bool.false_eq_true, if_false] at h
        by_cases h2 : optVerEq (some v) r.min = true
        · simp only [h2, if_true, Except.ok.injEq, Option.some.injEq] at h
          subst h
          cases hm : r.min with
          | none => simp [hm, optVerEq] at h2
          | some m =>
            simp only [hm, optVerEq, eqv_iff] at h2
            rw [← hm]
            refine ⟨⟨hx.1, hx.2⟩, ⟨fun e => by simp [hm] at e, fun e => htx.2 e⟩,
              fun e he => Or.inl he, fun p hp hreg => ?_⟩
            have := rng_close_lo_exact r m v p hm hx hy hp (relKey_of_vk_eq h2) (hrv p hreg) hreg.append_left
            rw [Bool.or_comm]; exact this
        · simp only [h2, Bool.false_eq_true, if_false] at h
          by_cases h3 : optVerEq (some v) r.max = true
          · simp only [h3, if_true, Except.ok.injEq, Option.some.injEq] at h
            subst h
            cases hM : r.max with
            | none => simp [hM, optVerEq] at h3
            | some M =>
              simp only [hM, optVerEq, eqv_iff] at h3
              rw [← hM]
              refine ⟨⟨hx.1, hx.2⟩, ⟨fun e => htx.1 e, fun e => by simp [hM] at e⟩,
                fun e he => Or.inl he, fun p hp hreg => ?_⟩
              have := rng_close_hi_exact r M v p hM hx hy hp (relKey_of_vk_eq h3) (hrv p hreg) hreg.append_left
              rw [Bool.or_comm]; exact this
          · simp [h3] at h
    | rng s =>
      obtain ⟨hu, hex⟩ := VRange.union_single_exact r s hx hy htx hty u h
      subst hu
      exact ⟨VRange.hull_WF r s hx hy, VRange.hull_Tidy r s htx hty, VRange.hull_bounds r s, hex⟩

end RC
end Poetry
