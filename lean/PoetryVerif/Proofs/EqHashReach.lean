/-
C18 helper lemmas, part 5: the invariant "well-formed bounds, strictly ordered ends" (`RC.WF`, which excludes
degenerate ranges) is preserved by every constructor the union / intersection algebra of version constraints
uses: `rcUnionSingle`, the merge loop of `VersionUnion.of`, `unionOfFlat`, `RC.intersect`, the union walks,
`VC.intersect`, `VC.unionOf`.  Independent of Proofs/VRangeUnion.lean.
-/
import PoetryVerif.Proofs.EqHashAllows

set_option linter.unusedSimpArgs false
set_option linter.unusedVariables false

namespace Poetry.EqHash
open Poetry Poetry.Version Poetry.Marker

/-- every member is well-formed with strictly ordered ends -/
def vcWF (c : VC) : Prop := ∀ r ∈ c.flatten, r.WF

theorem degenerate_false_of_proper {r : VRange} (h : r.Proper) : degenerate r = false := by
  unfold degenerate
  cases hm : r.min with
  | none => rfl
  | some m =>
    cases hM : r.max with
    | none => rfl
    | some M =>
      simp only
      rw [Bool.eq_false_iff]
      intro he
      exact (VRange.Proper.ne h m M hm hM) ((eqv_iff m M).1 he)

theorem rcND_of_WF {c : RC} (h : c.WF) : rcNonDegenerate c = true := by
  cases c with
  | ver _ => rfl
  | rng r => simp [rcNonDegenerate, degenerate_false_of_proper h.2]

/-- **a constraint whose members are well-formed contains no degenerate range** -/
theorem vcND_of_vcWF {c : VC} (h : vcWF c) : vcNonDegenerate c = true := by
  cases c with
  | empty => rfl
  | single x => exact rcND_of_WF (h x (by simp [VC.flatten]))
  | union rs =>
    simp only [vcNonDegenerate, List.all_eq_true]
    intro x hx
    exact rcND_of_WF (h x (by simpa [VC.flatten] using hx))

theorem vcWF_empty : vcWF .empty := by intro r hr; simp [VC.flatten] at hr
theorem vcWF_single {c : RC} (h : c.WF) : vcWF (.single c) := by
  intro r hr; simp [VC.flatten] at hr; rw [hr]; exact h
theorem vcWF_any : vcWF VC.any := by
  apply vcWF_single
  exact ⟨by intro e he; simp [VRange.bounds, VRange.any] at he, by intro m M hm; simp [VRange.any] at hm⟩

theorem wfB_of_ends {r : VRange} (h1 : ∀ m, r.min = some m → m.wf = true) (h2 : ∀ M, r.max = some M → M.wf = true) :
    r.wfB := by
  intro e he
  simp only [VRange.bounds, List.mem_append, Option.mem_toList, Option.mem_def] at he
  rcases he with he | he
  · exact h1 e he
  · exact h2 e he

theorem wf_min {r : VRange} (h : r.WF) {m : Version} (hm : r.min = some m) : m.wf = true :=
  h.1 m (VRange.mem_bounds_min hm)
theorem wf_max {r : VRange} (h : r.WF) {m : Version} (hm : r.max = some m) : m.wf = true :=
  h.1 m (VRange.mem_bounds_max hm)

/-- changing the inclusion flags keeps a range well-formed -/
theorem WF_flags {r : VRange} (h : r.WF) (i j : Bool) : (⟨r.min, r.max, i, j⟩ : VRange).WF :=
  ⟨wfB_of_ends (fun m hm => wf_min h hm) (fun m hm => wf_max h hm), fun m M hm hM => h.2 m M hm hM⟩

/-! ### `allows_lower` orders the lower ends -/

theorem allowsLower_true_min {a b : VRange} (h : a.allowsLower b = true) {x : Version} (hx : a.min = some x) :
    ∃ y, b.min = some y ∧ vk x ≤ vk y := by
  unfold VRange.allowsLower VRange.allowedMin at h
  rw [hx] at h
  cases hb : b.min with
  | none => simp [hb] at h
  | some y =>
    refine ⟨y, rfl, ?_⟩
    simp only [hb] at h
    by_cases c1 : Version.lt x y = true
    · exact le_of_lt ((lt_iff x y).1 c1)
    · simp only [c1, Bool.false_eq_true, if_false] at h
      by_cases c2 : Version.gt x y = true
      · simp [c2] at h
      · have : Version.gt x y = false := by simpa using c2
        exact (gt_false_iff x y).1 this

theorem allowsLower_false_min {a b : VRange} (h : a.allowsLower b = false) {y : Version} (hy : b.min = some y) :
    ∃ x, a.min = some x ∧ vk y ≤ vk x := by
  unfold VRange.allowsLower VRange.allowedMin at h
  rw [hy] at h
  cases ha : a.min with
  | none => simp [ha] at h
  | some x =>
    refine ⟨x, rfl, ?_⟩
    simp only [ha] at h
    by_cases c1 : Version.lt x y = true
    · simp [c1] at h
    · have : Version.lt x y = false := by simpa using c1
      exact (lt_false_iff x y).1 this

/-- the hull `a.union(b)` builds for two overlapping or touching ranges -/
theorem hull_WF (a b : VRange) (ha : a.WF) (hb : b.WF) :
    (⟨(if a.allowsLower b then (a.min, a.imin) else (b.min, b.imin)).1,
      (if a.allowsHigher b then (a.max, a.imax) else (b.max, b.imax)).1,
      (if a.allowsLower b then (a.min, a.imin) else (b.min, b.imin)).2,
      (if a.allowsHigher b then (a.max, a.imax) else (b.max, b.imax)).2⟩ : VRange).WF := by
  cases hl : a.allowsLower b <;> cases hh : a.allowsHigher b <;>
    simp only [if_true, if_false, Bool.false_eq_true]
  · exact WF_flags hb _ _
  · refine ⟨wfB_of_ends (fun m hm => wf_min hb hm) (fun m hm => wf_max ha hm), ?_⟩
    intro m M hm hM
    simp only at hm hM
    obtain ⟨x, hx, hle⟩ := allowsLower_false_min hl hm
    exact lt_of_le_of_lt hle (ha.2 x M hx hM)
  · refine ⟨wfB_of_ends (fun m hm => wf_min ha hm) (fun m hm => wf_max hb hm), ?_⟩
    intro m M hm hM
    simp only at hm hM
    obtain ⟨y, hy, hle⟩ := allowsLower_true_min hl hm
    exact lt_of_le_of_lt hle (hb.2 y M hy hM)
  · exact WF_flags ha _ _

/-! ### `a.union(b)` on range constraints -/

theorem ok_some_inj {u v : RC} (h : (Except.ok (some u) : PyM (Option RC)) = .ok (some v)) : u = v := by
  cases h; rfl

theorem rcUnionSingle_WF (x y : RC) (hx : x.WF) (hy : y.WF) (u : RC) (h : rcUnionSingle x y = .ok (some u)) : u.WF := by
  cases x with
  | ver a =>
    simp only [rcUnionSingle] at h
    by_cases c1 : y.allows a = true
    · simp only [c1, if_true] at h; rw [← ok_some_inj h]; exact hy
    · simp only [c1, Bool.false_eq_true, if_false] at h
      cases y with
      | ver b =>
        by_cases c2 : a.allows b = true
        · simp only [c2, if_true] at h; rw [← ok_some_inj h]; exact hx
        · simp [c2, RC.min, RC.max] at h
      | rng r =>
        obtain ⟨mn, mx, i, j⟩ := r
        simp only [Bool.false_eq_true, if_false, RC.min, RC.max, RC.imin, RC.imax] at h
        cases mn with
        | none =>
          cases mx with
          | none => simp at h
          | some M =>
            simp only [Bool.false_eq_true, if_false] at h
            by_cases c4 : a.allows M = true
            · simp only [c4, if_true] at h; rw [← ok_some_inj h]; exact WF_flags hy _ _
            · simp [c4] at h
        | some m =>
          simp only at h
          by_cases c3 : a.allows m = true
          · simp only [c3, if_true] at h; rw [← ok_some_inj h]; exact WF_flags hy _ _
          · simp only [c3, Bool.false_eq_true, if_false] at h
            cases mx with
            | none => simp at h
            | some M =>
              simp only at h
              by_cases c4 : a.allows M = true
              · simp only [c4, if_true] at h; rw [← ok_some_inj h]; exact WF_flags hy _ _
              · simp [c4] at h
  | rng r =>
    cases y with
    | ver v =>
      simp only [rcUnionSingle] at h
      by_cases c1 : r.allows v = true
      · simp only [c1, if_true] at h; rw [← ok_some_inj h]; exact hx
      · simp only [c1, Bool.false_eq_true, if_false] at h
        by_cases c2 : optVerEq (some v) r.min = true
        · simp only [c2, if_true] at h; rw [← ok_some_inj h]; exact WF_flags hx _ _
        · simp only [c2, Bool.false_eq_true, if_false] at h
          by_cases c3 : optVerEq (some v) r.max = true
          · simp only [c3, if_true] at h; rw [← ok_some_inj h]; exact WF_flags hx _ _
          · simp [c3] at h
    | rng s =>
      simp only [rcUnionSingle, RC.allowsAny, bind, Except.bind, pure, Except.pure] at h
      split at h
      · simp at h
      · rw [← ok_some_inj h]
        exact hull_WF r s hx hy

theorem allowsAny_cases (a b : RC) : ∃ r, RC.allowsAny a b = .ok r := by
  cases a with
  | ver x =>
    cases b with
    | ver y => exact ⟨_, rfl⟩
    | rng s => exact ⟨_, rfl⟩
  | rng r =>
    cases b with
    | ver y => exact ⟨_, rfl⟩
    | rng s => exact ⟨_, rfl⟩

/-- the merge loop of `VersionUnion.of` -/
theorem mergeLoop_WF : ∀ (l acc res : List RC), mergeLoop l acc = .ok res → (∀ c ∈ l, c.WF) → (∀ c ∈ acc, c.WF) →
    ∀ c ∈ res, c.WF
  | [], acc, res, h, _, ha => by
    simp only [mergeLoop, Except.ok.injEq] at h
    intro c hc; rw [← h] at hc; exact ha c (by simpa using hc)
  | c :: rest, [], res, h, hl, _ => by
    simp only [mergeLoop] at h
    exact mergeLoop_WF rest [c] res h (fun x hx => hl x (by simp [hx])) (fun x hx => by simp at hx; rw [hx]; exact hl c (by simp))
  | c :: rest, last :: more, res, h, hl, ha => by
    simp only [mergeLoop, bind, Except.bind] at h
    obtain ⟨any, hany⟩ := allowsAny_cases last c
    rw [hany] at h
    simp only at h
    split at h
    · exact mergeLoop_WF rest (c :: last :: more) res h (fun x hx => hl x (by simp [hx]))
        (fun x hx => by
          simp only [List.mem_cons] at hx
          rcases hx with rfl | hx
          · exact hl _ (by simp)
          · exact ha x (by simpa using hx))
    · cases hu : rcUnionSingle last c with
      | error e => simp [hu] at h
      | ok o =>
        cases o with
        | none => simp [hu] at h
        | some u =>
          simp only [hu] at h
          have huw := rcUnionSingle_WF last c (ha last (by simp)) (hl c (by simp)) u hu
          exact mergeLoop_WF rest (u :: more) res h (fun x hx => hl x (by simp [hx]))
            (fun x hx => by
              simp only [List.mem_cons] at hx
              rcases hx with rfl | hx
              · exact huw
              · exact ha x (by simp [hx]))

theorem mem_insertSorted' (x c : RC) : ∀ l : List RC, c ∈ insertSorted x l → c = x ∨ c ∈ l
  | [], h => by simp [insertSorted] at h; exact Or.inl h
  | y :: ys, h => by
    simp only [insertSorted] at h
    split at h
    · simp only [List.mem_cons] at h ⊢; exact h
    · simp only [List.mem_cons] at h ⊢
      rcases h with h | h
      · exact Or.inr (Or.inl h)
      · rcases mem_insertSorted' x c ys h with h | h
        · exact Or.inl h
        · exact Or.inr (Or.inr h)

theorem mem_foldl_insert' (c : RC) : ∀ (l acc : List RC), c ∈ l.foldl (fun a x => insertSorted x a) acc → c ∈ l ∨ c ∈ acc
  | [], acc, h => Or.inr h
  | x :: xs, acc, h => by
    simp only [List.foldl_cons] at h
    rcases mem_foldl_insert' c xs _ h with h | h
    · exact Or.inl (by simp [h])
    · rcases mem_insertSorted' x c acc h with h | h
      · exact Or.inl (by simp [h])
      · exact Or.inr h

theorem mem_sortRCs' {c : RC} {l : List RC} (h : c ∈ sortRCs l) : c ∈ l := by
  rcases mem_foldl_insert' c l [] h with h | h
  · exact h
  · simp at h

/-- **`VersionUnion.of` keeps every member well-formed** -/
theorem unionOfFlat_WF (l : List RC) (res : VC) (h : unionOfFlat l = .ok res) (hl : ∀ c ∈ l, c.WF) : vcWF res := by
  unfold unionOfFlat at h
  split at h
  · cases h; exact vcWF_empty
  · split at h
    · cases h; exact vcWF_any
    · simp only [bind, Except.bind] at h
      cases hm : mergeLoop (sortRCs l) [] with
      | error e => simp [hm] at h
      | ok merged =>
        simp only [hm] at h
        have hw := mergeLoop_WF (sortRCs l) [] merged hm (fun c hc => hl c (mem_sortRCs' hc)) (by simp)
        split at h
        · simp only [pure, Except.pure, Except.ok.injEq] at h; rw [← h]; exact vcWF_single (hw _ (by simp))
        · simp only [pure, Except.pure, Except.ok.injEq] at h; rw [← h]
          intro r hr; exact hw r (by simpa [VC.flatten] using hr)

theorem unionOf_WF (cs : List VC) (res : VC) (h : VC.unionOf cs = .ok res) (hc : ∀ c ∈ cs, vcWF c) : vcWF res := by
  unfold VC.unionOf at h
  apply unionOfFlat_WF _ res h
  intro r hr
  simp only [List.mem_flatMap] at hr
  obtain ⟨c, hcm, hrc⟩ := hr
  exact hc c hcm r hrc

theorem rcUnion_WF (a b : RC) (ha : a.WF) (hb : b.WF) (res : VC) (h : RC.union a b = .ok res) : vcWF res := by
  simp only [RC.union, bind, Except.bind] at h
  cases hu : rcUnionSingle a b with
  | error e => simp [hu] at h
  | ok o =>
    simp only [hu] at h
    cases o with
    | some u => simp only [pure, Except.pure, Except.ok.injEq] at h; rw [← h]; exact vcWF_single (rcUnionSingle_WF a b ha hb u hu)
    | none =>
      simp only at h
      exact unionOfFlat_WF [a, b] res h (by intro c hc; simp at hc; rcases hc with rfl | rfl <;> assumption)

/-! ### `intersect` -/

theorem interFinish_WF (imn : Option Version) (iimn : Bool) (imx : Option Version) (iimx : Bool) (c : VC)
    (h : VRange.interFinish imn iimn imx iimx = .ok c)
    (h1 : ∀ m, imn = some m → m.wf = true) (h2 : ∀ M, imx = some M → M.wf = true)
    (hle : ∀ m M, imn = some m → imx = some M → vk m ≤ vk M) : vcWF c := by
  unfold VRange.interFinish at h
  by_cases c1 : (imn.isNone && imx.isNone) = true
  · simp only [c1, if_true, Except.ok.injEq] at h; rw [← h]; exact vcWF_any
  · simp only [c1] at h
    by_cases c2 : optVerEq imn imx = true
    · simp only [c2, if_true] at h
      by_cases c3 : (iimn && iimx) = true
      · simp only [c3, if_true] at h
        cases imn with
        | none => simp at h
        | some v => simp at h; rw [← h]; exact vcWF_single (h1 v rfl)
      · simp [c3] at h
    · simp only [c2, Bool.false_eq_true, if_false, Except.ok.injEq] at h; rw [← h]
      apply vcWF_single
      refine ⟨wfB_of_ends h1 h2, ?_⟩
      intro m M hm hM
      simp only at hm hM
      subst hm; subst hM
      have hne : vk m ≠ vk M := by
        intro e
        apply c2
        simp [optVerEq, (eqv_iff m M).2 e]
      exact lt_of_le_of_ne (hle m M rfl rfl) hne

theorem strictlyLower_false_le {a b : VRange} (h : a.isStrictlyLower b = false) {M y : Version}
    (hM : a.max = some M) (hy : b.min = some y) : vk y ≤ vk M := by
  have hs := VRange.strictlyLower_false h
  have hsome : a.allowedMax.isSome = true := by rw [VRange.allowedMax_isSome, hM]; rfl
  cases hx : a.allowedMax with
  | none => rw [hx] at hsome; cases hsome
  | some x =>
    rw [hx, hy] at hs
    simp only at hs
    have hxM := VRange.allowedMax_le hM hx
    rcases hs with hs | hs
    · exact le_trans (le_of_lt hs) hxM
    · exact le_trans (le_of_eq hs.1) hxM

theorem rngIntersectRng_WF (a b : VRange) (ha : a.WF) (hb : b.WF) (c : VC) (h : RC.rngIntersectRng a b = .ok c) :
    vcWF c := by
  rw [VRange.rngIntersectRng_eq] at h
  split at h
  · rename_i hl
    split at h
    · cases h; exact vcWF_empty
    · rename_i hs
      split at h
      · exact interFinish_WF _ _ _ _ c h (fun m hm => wf_min hb hm) (fun m hm => wf_max hb hm)
          (fun m M hm hM => le_of_lt (hb.2 m M hm hM))
      · exact interFinish_WF _ _ _ _ c h (fun m hm => wf_min hb hm) (fun m hm => wf_max ha hm)
          (fun m M hm hM => strictlyLower_false_le (by simpa using hs) hM hm)
  · split at h
    · cases h; exact vcWF_empty
    · rename_i hs
      split at h
      · exact interFinish_WF _ _ _ _ c h (fun m hm => wf_min ha hm) (fun m hm => wf_max hb hm)
          (fun m M hm hM => strictlyLower_false_le (by simpa using hs) hM hm)
      · exact interFinish_WF _ _ _ _ c h (fun m hm => wf_min ha hm) (fun m hm => wf_max ha hm)
          (fun m M hm hM => le_of_lt (ha.2 m M hm hM))

theorem stable_nextPatch_wf (v : Version) : v.stable.nextPatch.wf = true := by
  have hr := stable_nextPatch_release v
  have hne : v.stable.nextPatch.release ≠ [] := by
    rw [hr]
    unfold relNextPatch
    split <;> simp
  have : v.stable.nextPatch = mk' v.stable.nextPatch.epoch v.stable.nextPatch.release none none none none := by
    simp [nextPatch, mk']
  rw [this]; exact wf_final _ _ hne

theorem rngIntersectVer_WF (r : VRange) (v : Version) (hr : r.WF) (hv : v.wf = true) : vcWF (RC.rngIntersectVer r v) := by
  unfold RC.rngIntersectVer
  split
  · exact vcWF_single hv
  · split
    · rename_i m hm
      split
      · rename_i hc
        simp only [Bool.and_eq_true] at hc
        apply vcWF_single
        refine ⟨wfB_of_ends (fun x hx => by simp at hx; rw [← hx]; exact wf_min hr hm)
          (fun x hx => by simp at hx; rw [← hx]; exact stable_nextPatch_wf v), ?_⟩
        intro x M hx hM
        simp only [Option.some.injEq] at hx hM
        subst hx; subst hM
        have hrel := Version.allows_relKey hc.2
        have hgt : vk v < vk v.stable.nextPatch := (vk_lt_iff _ _).2 (stable_nextPatch_gt v hv)
        exact (lt_congr_left hrel (relKey_stable_nextPatch_ne v)).1 hgt
      · exact vcWF_empty
    · exact vcWF_empty

theorem rcIntersect_WF (a b : RC) (ha : a.WF) (hb : b.WF) (c : VC) (h : RC.intersect a b = .ok c) : vcWF c := by
  cases a with
  | ver x =>
    cases b with
    | ver y =>
      simp only [RC.intersect, Except.ok.injEq] at h; rw [← h]
      unfold RC.verIntersectVer
      split
      · exact vcWF_single hb
      · split
        · exact vcWF_single ha
        · exact vcWF_empty
    | rng s => simp only [RC.intersect, Except.ok.injEq] at h; rw [← h]; exact rngIntersectVer_WF s x hb ha
  | rng r =>
    cases b with
    | ver y => simp only [RC.intersect, Except.ok.injEq] at h; rw [← h]; exact rngIntersectVer_WF r y ha hb
    | rng s => exact rngIntersectRng_WF r s ha hb c h

/-- the merge walk of `VersionUnion.intersect` -/
theorem unionIntersectLoop_WF : ∀ (fuel : Nat) (ours theirs : List RC) (acc res : List VC),
    VC.unionIntersectLoop fuel ours theirs acc = .ok res → (∀ c ∈ ours, c.WF) → (∀ c ∈ theirs, c.WF) →
    (∀ c ∈ acc, vcWF c) → ∀ c ∈ res, vcWF c
  | 0, _, _, _, _, h, _, _, _ => by simp [VC.unionIntersectLoop] at h
  | fuel + 1, ours, theirs, acc, res, h, ho, ht, ha => by
    cases ours with
    | nil => simp only [VC.unionIntersectLoop, Except.ok.injEq] at h; rw [← h]; exact ha
    | cons o os =>
      cases theirs with
      | nil => simp only [VC.unionIntersectLoop, Except.ok.injEq] at h; rw [← h]; exact ha
      | cons t ts =>
        simp only [VC.unionIntersectLoop, bind, Except.bind] at h
        cases hi : RC.intersect o t with
        | error e => simp [hi] at h
        | ok i =>
          simp only [hi] at h
          have hiw := rcIntersect_WF o t (ho o (by simp)) (ht t (by simp)) i hi
          have hacc : ∀ c ∈ (if i.isEmpty = true then acc else acc ++ [i]), vcWF c := by
            intro c hc
            split at hc
            · exact ha c hc
            · simp only [List.mem_append, List.mem_singleton] at hc
              rcases hc with hc | rfl
              · exact ha c hc
              · exact hiw
          split at h
          · exact unionIntersectLoop_WF fuel os (t :: ts) _ res h (fun c hc => ho c (by simp [hc])) ht hacc
          · exact unionIntersectLoop_WF fuel (o :: os) ts _ res h ho (fun c hc => ht c (by simp [hc])) hacc

/-- **`a.intersect(b)` keeps every member well-formed** (all operand shapes) -/
theorem vcIntersect_WF (a b : VC) (ha : vcWF a) (hb : vcWF b) (c : VC) (h : VC.intersect a b = .ok c) : vcWF c := by
  cases a with
  | empty => simp only [VC.intersect, Except.ok.injEq] at h; rw [← h]; exact vcWF_empty
  | single x =>
    cases b with
    | empty => simp only [VC.intersect, Except.ok.injEq] at h; rw [← h]; exact vcWF_empty
    | single y => exact rcIntersect_WF x y (ha x (by simp [VC.flatten])) (hb y (by simp [VC.flatten])) c h
    | union rs =>
      simp only [VC.intersect, bind, Except.bind] at h
      cases hp : VC.unionIntersectLoop (rs.length + 2) rs [x] [] with
      | error e => simp [hp] at h
      | ok parts =>
        simp only [hp] at h
        exact unionOf_WF parts c h (unionIntersectLoop_WF _ rs [x] [] parts hp
          (fun r hr => hb r (by simpa [VC.flatten] using hr))
          (fun r hr => by simp at hr; rw [hr]; exact ha x (by simp [VC.flatten])) (by simp))
  | union rs =>
    simp only [VC.intersect, bind, Except.bind] at h
    cases hp : VC.unionIntersectLoop (rs.length + b.flatten.length + 1) rs b.flatten [] with
    | error e => simp [hp] at h
    | ok parts =>
      simp only [hp] at h
      exact unionOf_WF parts c h (unionIntersectLoop_WF _ rs b.flatten [] parts hp
        (fun r hr => ha r (by simpa [VC.flatten] using hr)) (fun r hr => hb r hr) (by simp))

end Poetry.EqHash
