/-
Python single markers with `in` lists as `LeafAlts` for poetry's own leaf truth, and
`get_python_constraint_from_marker` against `M.validate` for markers with such leaves (helper lemmas for C11).
-/
import PoetryVerif.Proofs.PyConvLeaf
import PoetryVerif.Proofs.PyConvIn
import PoetryVerif.Proofs.PyConvGpcAlts
import PoetryVerif.Proofs.PyConvNotIn

set_option linter.unusedSimpArgs false
set_option linter.unusedVariables false

namespace Poetry.Marker
open Poetry Poetry.Spec.Pep508 Poetry.VParser

/-- the python leaves the marker → range theorems cover: comparison items of the exact shape,
`python_version in "X0.Y0 X1.Y1 …"` and `python_version not in "X0.Y0 X1.Y1 …"` -/
def PyShapedL (l : Leaf) : Prop :=
  convKey l.name = pyKey →
    (∃ s lit, l = .single s ∧ s.swapped = false ∧ RelOp s.op ∧ PyItem s.name lit ∧ s.value = Version.relText lit) ∨
    (∃ s p0 rest, l = .single s ∧ s.swapped = false ∧ s.name = "python_version" ∧ s.op = "in" ∧
      s.value = verList2 p0 rest ∧ ∀ q ∈ rest, SepRun q.1) ∨
    (∃ s p0 rest, l = .single s ∧ s.swapped = false ∧ s.name = "python_version" ∧ s.op = "not in" ∧
      s.value = verList2 p0 rest ∧ ∀ q ∈ rest, SepRun q.1)

theorem starItem_shape (p : Nat × Nat) : ItemShape (String.ofList (starItem p)) := by
  obtain ⟨h1, h2, h3⟩ := starItem_ok p
  exact ⟨by simpa using h1, by simpa using h2, starVC p, by simpa using parseSingle_starItem p, h3⟩

theorem starItem_means (p : Nat × Nat) (X Y Z : Nat) :
    ClauseMeans (String.ofList (starItem p)) X Y Z (decide (X = p.1 ∧ Y = p.2)) := by
  obtain ⟨h1, h2, _⟩ := starItem_ok p
  refine ⟨starVC p, ?_, starVC_allows p X Y Z⟩
  have hne : String.ofList (starItem p) ≠ "*" := by
    intro e; apply h2
    have := congrArg String.toList e
    simpa using this
  rw [parseMarkerVersionConstraint, parseConstraintAux_single _ true (by simpa using h1.nosep) hne]
  simpa using parseSingle_starItem p

theorem leafAlts_of_comp (E : Env) (X Y Z : Nat) (hE : EnvPy E X Y Z) (l : Leaf) (hc : CompLeaf E l)
    (hs : PyShapedL l) (hk : convKey l.name = pyKey) : LeafAlts (leafEval E) X Y Z l := by
  rcases hs hk with ⟨s, lit, rfl, hsw, hop, hi, hv⟩ | ⟨s, p0, rest, rfl, hsw, hn, hop, hv, hsep⟩ |
    ⟨s, p0, rest, rfl, hsw, hn, hop, hv, hsep⟩
  · exact leafAlts_of_clause (leafClause_of_comp E X Y Z hE _ hc (fun _ => ⟨s, lit, rfl, hsw, hop, hi, hv⟩) hk)
  · obtain ⟨s', he, hcoh, ⟨b0, hb0⟩, _⟩ := hc
    injection he with he; subst he
    -- the leaf's own truth
    obtain ⟨b, hb1, hb2, _⟩ := agree_pv_in E p0 rest hsep X Y hE.1
    rw [evalItem_in2 E X Y Z hE p0 rest hsep] at hb2
    injection hb2 with hb2
    have hle : leafEval E (.single s) = (p0 :: rest.map (·.2)).any (fun p => decide (X = p.1 ∧ Y = p.2)) := by
      simp only [Single.coherent, hsw, hv, hop, hn] at hcoh
      simp only [itemV] at hb1
      cases hm : mkSingle "python_version" (itemConstraintString "in" (verList2 p0 rest) false) false with
      | error e => rw [hm] at hcoh; cases hcoh
      | ok s2 =>
        rw [hm] at hcoh hb1
        have hc2 : s2.c = s.c := by simpa using hcoh
        have hn2 : s2.name = s.name := by
          rw [mkSingle_name _ _ _ _ hm, hn]; decide
        simp only [hc2, hn2] at hb1
        have : leafEval E (.single s) = b := by simp [leafEval, Leaf.validate, hb1]
        rw [this, ← hb2]
    have halts := versionListItems_in2 p0 rest hsep
    refine ⟨s, _, rfl, Or.inr (Or.inl ⟨hop, rfl⟩), ?_, ?_, ?_, ?_⟩
    · rw [hv, halts]; simp
    · intro it hit
      rw [hv, halts] at hit
      obtain ⟨p, _, rfl⟩ := List.mem_map.1 hit
      exact ⟨entryShape_item (starItem_shape p), _, starItem_means p X Y Z⟩
    · intro he
      rw [hle, List.any_eq_true] at he
      obtain ⟨p, hp, hd⟩ := he
      refine ⟨String.ofList (starItem p), ?_, ?_⟩
      · rw [hv, halts]; exact List.mem_map.2 ⟨p, hp, rfl⟩
      · have := starItem_means p X Y Z; rwa [hd] at this
    · intro he it hit
      rw [hv, halts] at hit
      obtain ⟨p, hp, rfl⟩ := List.mem_map.1 hit
      have hd : decide (X = p.1 ∧ Y = p.2) = false := by
        rw [hle] at he
        have := List.any_eq_false.1 he p hp
        simpa using this
      have := starItem_means p X Y Z; rwa [hd] at this

  · obtain ⟨s', he, hcoh, ⟨b0, hb0⟩, _⟩ := hc
    injection he with he; subst he
    -- the leaf's own truth
    obtain ⟨b, hb1, hb2, _⟩ := agree_pv_notin E p0 rest hsep X Y hE.1
    rw [evalItem_notin2 E X Y Z hE p0 rest hsep] at hb2
    injection hb2 with hb2
    have hle : leafEval E (.single s) = !(p0 :: rest.map (·.2)).any (fun p => decide (X = p.1 ∧ Y = p.2)) := by
      simp only [Single.coherent, hsw, hv, hop, hn] at hcoh
      simp only [itemV] at hb1
      cases hm : mkSingle "python_version" (itemConstraintString "not in" (verList2 p0 rest) false) false with
      | error e => rw [hm] at hcoh; cases hcoh
      | ok s2 =>
        rw [hm] at hcoh hb1
        have hc2 : s2.c = s.c := by simpa using hcoh
        have hn2 : s2.name = s.name := by
          rw [mkSingle_name _ _ _ _ hm, hn]; decide
        simp only [hc2, hn2] at hb1
        have : leafEval E (.single s) = b := by simp [leafEval, Leaf.validate, hb1]
        rw [this, ← hb2]
    have halts := versionListItems_notin2 p0 rest hsep
    have hentry : joinWith ", " (versionListItems false s.value) = neEntry p0 (rest.map (·.2)) := by
      rw [hv, halts]; rfl
    have hmeans := neEntry_means p0 (rest.map (·.2)) X Y Z
    refine ⟨s, _, rfl, Or.inr (Or.inr ⟨hop, rfl⟩), by simp, ?_, ?_, ?_⟩
    · intro it hit
      simp only [List.mem_singleton] at hit
      subst hit
      rw [hentry]
      exact ⟨neEntry_shape _ _, _, hmeans⟩
    · intro he
      refine ⟨joinWith ", " (versionListItems false s.value), by simp, ?_⟩
      rw [hentry]
      rw [hle] at he
      rwa [he] at hmeans
    · intro he it hit
      simp only [List.mem_singleton] at hit
      subst hit
      rw [hentry]
      rw [hle] at he
      rwa [he] at hmeans

/-- the leaf invariant with `in` lists -/
def PyGL (E : Env) (l : Leaf) : Prop := CompLeaf E l ∧ PyShapedL l

theorem pyGL_evaluable (E : Env) (m : M) (h : M.Good (PyGL E) m) : M.Evaluable E m :=
  M.good_mono (fun l hl => by obtain ⟨⟨s, _, _, hb, _⟩, _⟩ := hl; exact hb) m h

/-- **one-sided part against poetry's own evaluation, `in` lists included** -/
theorem gpc_upper_validate_lists (E : Env) (X Y Z : Nat) (hE : EnvPy E X Y Z) (S : LeafSpec (leafEval E) (PyGL E))
    (m : M) (g : VC) (hg : M.Good (PyGL E) m) (h : gpc m = .ok g)
    (hv : M.validate E m = .ok true) : g.allowsPlain (pyV X Y Z) = true := by
  rw [M.validate_eq_sem E m (pyGL_evaluable E m hg)] at hv
  injection hv with hv
  exact gpc_upper_alts S X Y Z m g hg (fun l hl hk => leafAlts_of_comp E X Y Z hE l hl.1 hl.2 hk) h hv

/-- **exactness against poetry's own evaluation for python-only markers, `in` lists included** -/
theorem gpc_exact_validate_lists (E : Env) (X Y Z : Nat) (hE : EnvPy E X Y Z) (S : LeafSpec (leafEval E) (PyGL E))
    (m : M) (g : VC) (hg : M.Good (PyGL E) m)
    (hvars : ∀ n ∈ M.vars m, pyNames.contains n = true)
    (h : gpc m = .ok g) : M.validate E m = .ok (g.allowsPlain (pyV X Y Z)) := by
  rw [M.validate_eq_sem E m (pyGL_evaluable E m hg)]
  congr 1
  refine gpc_exact_alts S X Y Z m g hg hvars (fun l hl hk => leafAlts_of_comp E X Y Z hE l hl.1 hl.2 hk) ?_ h
  intro d hd l hl
  have hv := dnf_vars S (fun l hl => by obtain ⟨⟨_, _, _, _, hc⟩, _⟩ := hl; exact hc) _ _ m d hg hd l.name
    (leaf_name_mem_vars d l hl)
  exact convKey_of_pyNames (hvars _ hv)

end Poetry.Marker
