/-
Structure of marker evaluation (helper lemmas for C06): `_flatten_markers` with its de-duplication by
`__eq__` preserves `validate` on coherent markers; `_compact_markers(top_level=False)` evaluates a syntax
tree with `and` binding tighter than `or` and parentheses respected, with Python's short-circuit order; and
the bridge from that lazy evaluation to the (strict) reference `Spec.Pep508.evalSyn`.
-/
import PoetryVerif.Model.Marker
import PoetryVerif.Spec.Pep508

set_option linter.unusedSimpArgs false
set_option linter.unusedVariables false

namespace Poetry.Marker
open Poetry

/-! ### coherence: the stored constraint is the one the stored name/operator/value denote

`SingleMarker.__eq__` compares name, operator text, value text and operand order — not the constraint
object.  De-duplication by `__eq__` is harmless only when equal leaves hold equal constraints; a leaf is
*coherent* when rebuilding it from its own fields gives its constraint back. -/

def Single.coherent (s : Single) : Bool :=
  match mkSingle s.name (itemConstraintString s.op s.value s.swapped) s.swapped with
  | .ok s' => s'.c == s.c
  | .error _ => false

mutual
/-- every leaf is a coherent `SingleMarker` (what `_compact_markers` builds: no atomic multi/union leaves) -/
def M.Coherent : M → Bool
  | .any => true
  | .empty => true
  | .leaf (.single s) => s.coherent
  | .leaf _ => false
  | .multi ms => M.CoherentL ms
  | .union ms => M.CoherentL ms
def M.CoherentL : List M → Bool
  | [] => true
  | m :: ms => M.Coherent m && M.CoherentL ms
end

theorem coherentL_iff (ms : List M) : M.CoherentL ms = true ↔ ∀ m ∈ ms, M.Coherent m = true := by
  induction ms with
  | nil => simp [M.CoherentL]
  | cons m ms ih => simp [M.CoherentL, ih]

theorem coherentL_append (as bs : List M) :
    M.CoherentL (as ++ bs) = (M.CoherentL as && M.CoherentL bs) := by
  induction as with
  | nil => simp [M.CoherentL]
  | cons a as ih => simp [M.CoherentL, ih, Bool.and_assoc]

theorem Single.coherent_c {a b : Single} (ha : a.coherent = true) (hb : b.coherent = true)
    (hn : a.name = b.name) (ho : a.op = b.op) (hv : a.value = b.value) (hs : a.swapped = b.swapped) :
    a.c = b.c := by
  unfold Single.coherent at ha hb
  rw [hn, ho, hv, hs] at ha
  cases h : mkSingle b.name (itemConstraintString b.op b.value b.swapped) b.swapped with
  | error e => rw [h] at ha; cases ha
  | ok s' =>
    rw [h] at ha hb
    simp only [beq_iff_eq] at ha hb
    rw [← ha, ← hb]

/-! ### `__eq__`-equal coherent markers validate alike (errors included) -/

mutual
theorem beq_validate (E : Env) : ∀ (a b : M), a.Coherent = true → b.Coherent = true → M.beq a b = true →
    M.validate E a = M.validate E b
  | .any, .any, _, _, _ => rfl
  | .empty, .empty, _, _, _ => rfl
  | .leaf (.single a), .leaf (.single b), ha, hb, h => by
    simp only [M.beq, Leaf.beq, Bool.and_eq_true, beq_iff_eq] at h
    obtain ⟨⟨⟨hn, ho⟩, hv⟩, hs⟩ := h
    simp only [M.Coherent] at ha hb
    have hc := Single.coherent_c ha hb hn ho hv hs
    simp only [M.validate, Leaf.validate, hn, hc]
  | .leaf (.amulti _ _), _, ha, _, _ => by simp [M.Coherent] at ha
  | .leaf (.aunion _ _), _, ha, _, _ => by simp [M.Coherent] at ha
  | .leaf (.single _), .leaf (.amulti _ _), _, hb, _ => by simp [M.Coherent] at hb
  | .leaf (.single _), .leaf (.aunion _ _), _, hb, _ => by simp [M.Coherent] at hb
  | .multi as, .multi bs, ha, hb, h => by
    simp only [M.Coherent] at ha hb
    simp only [M.beq] at h
    simp only [M.validate]
    exact (beqList_validate E as bs ha hb h).1
  | .union as, .union bs, ha, hb, h => by
    simp only [M.Coherent] at ha hb
    simp only [M.beq] at h
    simp only [M.validate]
    exact (beqList_validate E as bs ha hb h).2
  | .any, .empty, _, _, h | .any, .leaf _, _, _, h | .any, .multi _, _, _, h | .any, .union _, _, _, h
  | .empty, .any, _, _, h | .empty, .leaf _, _, _, h | .empty, .multi _, _, _, h | .empty, .union _, _, _, h
  | .leaf (.single _), .any, _, _, h | .leaf (.single _), .empty, _, _, h
  | .leaf (.single _), .multi _, _, _, h | .leaf (.single _), .union _, _, _, h
  | .multi _, .any, _, _, h | .multi _, .empty, _, _, h | .multi _, .leaf _, _, _, h | .multi _, .union _, _, _, h
  | .union _, .any, _, _, h | .union _, .empty, _, _, h | .union _, .leaf _, _, _, h | .union _, .multi _, _, _, h => by
    simp [M.beq] at h
theorem beqList_validate (E : Env) : ∀ (as bs : List M), M.CoherentL as = true → M.CoherentL bs = true →
    M.beqList as bs = true →
    M.validateAll E as = M.validateAll E bs ∧ M.validateAny E as = M.validateAny E bs
  | [], [], _, _, _ => ⟨rfl, rfl⟩
  | a :: as, b :: bs, ha, hb, h => by
    simp only [M.CoherentL, Bool.and_eq_true] at ha hb
    simp only [M.beqList, Bool.and_eq_true] at h
    have h1 := beq_validate E a b ha.1 hb.1 h.1
    have h2 := beqList_validate E as bs ha.2 hb.2 h.2
    simp only [M.validateAll, M.validateAny, h1, h2.1, h2.2]
    exact ⟨trivial, trivial⟩
  | [], _ :: _, _, _, h => by simp [M.beqList] at h
  | _ :: _, [], _, _, h => by simp [M.beqList] at h
end

/-! ### Python's lazy `all` / `any` as a connective on results -/

/-- `b = true`: lazy `and` (stop at the first result that is not `True`, exceptions included);
`b = false`: lazy `or` -/
def conn (b : Bool) (x y : PyM Bool) : PyM Bool :=
  match x with
  | .ok v => if v == b then y else .ok v
  | .error e => .error e

theorem conn_assoc (b : Bool) (x y z : PyM Bool) : conn b (conn b x y) z = conn b x (conn b y z) := by
  cases x with
  | error e => rfl
  | ok v => by_cases h : (v == b) = true <;> simp [conn, h]

theorem conn_unit_right (b : Bool) (x : PyM Bool) : conn b x (.ok b) = x := by
  cases x with
  | error e => rfl
  | ok v => cases v <;> cases b <;> rfl

theorem conn_unit_left (b : Bool) (y : PyM Bool) : conn b (.ok b) y = y := by simp [conn]

/-- `MultiMarker.validate` (`b = true`) / `MarkerUnion.validate` (`b = false`) on a member list -/
def valL (b : Bool) (E : Env) (ms : List M) : PyM Bool :=
  if b then M.validateAll E ms else M.validateAny E ms

theorem valL_nil (b : Bool) (E : Env) : valL b E [] = .ok b := by
  cases b <;> simp [valL, M.validateAll, M.validateAny]

theorem valL_cons (b : Bool) (E : Env) (m : M) (ms : List M) :
    valL b E (m :: ms) = conn b (M.validate E m) (valL b E ms) := by
  cases b <;> simp only [valL, M.validateAll, M.validateAny, conn, Bool.false_eq_true, if_false, if_true] <;>
    (cases h : M.validate E m with
     | error e => rfl
     | ok v => cases v <;> rfl)

theorem valL_append (b : Bool) (E : Env) (as bs : List M) :
    valL b E (as ++ bs) = conn b (valL b E as) (valL b E bs) := by
  induction as with
  | nil => simp [valL_nil, conn_unit_left]
  | cons a as ih => simp only [List.cons_append, valL_cons, ih, conn_assoc]

theorem valL_single (b : Bool) (E : Env) (m : M) : valL b E [m] = M.validate E m := by
  rw [valL_cons, valL_nil, conn_unit_right]

theorem validate_multi (E : Env) (ms : List M) : M.validate E (.multi ms) = valL true E ms := by
  simp [M.validate, valL]

theorem validate_union (E : Env) (ms : List M) : M.validate E (.union ms) = valL false E ms := by
  simp [M.validate, valL]

/-- a marker already present (up to `__eq__`) adds nothing to a lazy `all`/`any` -/
theorem valL_mem (b : Bool) (E : Env) (m : M) (hm : m.Coherent = true) :
    ∀ (acc : List M), M.CoherentL acc = true → M.mem m acc = true →
      conn b (valL b E acc) (M.validate E m) = valL b E acc := by
  intro acc
  induction acc with
  | nil => intro _ h; simp [M.mem] at h
  | cons x xs ih =>
    intro hc hmem
    simp only [M.CoherentL, Bool.and_eq_true] at hc
    simp only [M.mem, List.any_cons, Bool.or_eq_true] at hmem
    rw [valL_cons, conn_assoc]
    cases hx : M.validate E x with
    | error e => rfl
    | ok v =>
      by_cases hv : (v == b) = true
      · simp only [conn, hv, if_true]
        rcases hmem with h | h
        · have := beq_validate E m x hm hc.1 h
          rw [this, hx]
          have hvb : v = b := by simpa using hv
          subst hvb
          exact conn_unit_right _ _
        · exact ih hc.2 (by simpa [M.mem] using h)
      · simp [conn, hv]

theorem valL_addIfNew (b : Bool) (E : Env) (acc : List M) (m : M) (hacc : M.CoherentL acc = true)
    (hm : m.Coherent = true) :
    valL b E (if M.mem m acc then acc else acc ++ [m]) = conn b (valL b E acc) (M.validate E m) ∧
    M.CoherentL (if M.mem m acc then acc else acc ++ [m]) = true := by
  by_cases h : M.mem m acc = true
  · simp only [h, if_true]
    exact ⟨(valL_mem b E m hm acc hacc h).symm, hacc⟩
  · simp only [h, Bool.false_eq_true, if_false]
    refine ⟨by rw [valL_append, valL_single], ?_⟩
    rw [coherentL_append]; simp [M.CoherentL, hacc, hm]

theorem valL_appendNew (b : Bool) (E : Env) : ∀ (ms acc : List M), M.CoherentL acc = true →
    M.CoherentL ms = true →
    valL b E (appendNew acc ms) = conn b (valL b E acc) (valL b E ms) ∧
    M.CoherentL (appendNew acc ms) = true := by
  intro ms
  induction ms with
  | nil => intro acc hacc _; simp [appendNew, valL_nil, conn_unit_right, hacc]
  | cons m ms ih =>
    intro acc hacc hms
    simp only [M.CoherentL, Bool.and_eq_true] at hms
    obtain ⟨h1, h2⟩ := valL_addIfNew b E acc m hacc hms.1
    have := ih (if M.mem m acc then acc else acc ++ [m]) h2 hms.2
    simp only [appendNew, List.foldl_cons] at this ⊢
    rw [this.1, h1, valL_cons, conn_assoc]
    exact ⟨rfl, this.2⟩

/-! ### `_flatten_markers` -/

theorem flattenAux_valL (E : Env) (b : Bool) (ms acc : List M) :
    M.CoherentL acc = true → M.CoherentL ms = true →
    valL b E (flattenAux b ms acc) = conn b (valL b E acc) (valL b E ms) ∧
    M.CoherentL (flattenAux b ms acc) = true := by
  fun_induction flattenAux b ms acc with
  | case1 acc => intro hacc _; simp [valL_nil, conn_unit_right, hacc]
  | case2 rest acc inner hb ih1 ih2 =>
    subst hb
    intro hacc hms
    simp only [M.CoherentL, M.Coherent, Bool.and_eq_true] at hms
    obtain ⟨i1, i2⟩ := ih1 (by simp [M.CoherentL]) hms.1
    obtain ⟨a1, a2⟩ := valL_appendNew true E (flattenAux true inner []) acc hacc i2
    obtain ⟨r1, r2⟩ := ih2 a2 hms.2
    refine ⟨?_, r2⟩
    rw [r1, a1, i1, valL_nil, conn_unit_left, valL_cons, validate_multi, conn_assoc]
  | case3 rest acc inner hb ih1 ih2 =>
    subst hb
    intro hacc hms
    simp only [M.CoherentL, M.Coherent, Bool.and_eq_true] at hms
    obtain ⟨i1, i2⟩ := ih1 (by simp [M.CoherentL]) hms.1
    obtain ⟨a1, a2⟩ := valL_appendNew false E (flattenAux false inner []) acc hacc i2
    obtain ⟨r1, r2⟩ := ih2 a2 hms.2
    refine ⟨?_, r2⟩
    rw [r1, a1, i1, valL_nil, conn_unit_left, valL_cons, validate_union, conn_assoc]
  | case4 rest acc m h1 h2 ih =>
    intro hacc hms
    simp only [dite_eq_ite] at ih
    simp only [M.CoherentL, Bool.and_eq_true] at hms
    obtain ⟨h1', h2'⟩ := valL_addIfNew b E acc m hacc hms.1
    obtain ⟨r1, r2⟩ := ih h2' hms.2
    refine ⟨?_, r2⟩
    rw [r1, h1', valL_cons, conn_assoc]

theorem flattenMarkers_valL (E : Env) (b : Bool) (ms : List M) (h : M.CoherentL ms = true) :
    valL b E (flattenMarkers b ms) = valL b E ms ∧ M.CoherentL (flattenMarkers b ms) = true := by
  obtain ⟨h1, h2⟩ := flattenAux_valL E b ms [] (by simp [M.CoherentL]) h
  exact ⟨by rw [flattenMarkers, h1, valL_nil, conn_unit_left], h2⟩

/-- `MultiMarker(*ms).validate(env)` is the lazy `all` over the given members -/
theorem mkMulti_validate (E : Env) (ms : List M) (h : M.CoherentL ms = true) :
    M.validate E (mkMulti ms) = valL true E ms ∧ (mkMulti ms).Coherent = true := by
  obtain ⟨h1, h2⟩ := flattenMarkers_valL E true ms h
  exact ⟨by rw [mkMulti, validate_multi, h1], by simpa [mkMulti, M.Coherent] using h2⟩

/-- `MarkerUnion(*ms).validate(env)` is the lazy `any` over the given members -/
theorem mkUnion_validate (E : Env) (ms : List M) (h : M.CoherentL ms = true) :
    M.validate E (mkUnion ms) = valL false E ms ∧ (mkUnion ms).Coherent = true := by
  obtain ⟨h1, h2⟩ := flattenMarkers_valL E false ms h
  exact ⟨by rw [mkUnion, validate_union, h1], by simpa [mkUnion, M.Coherent] using h2⟩

theorem groupMarker_validate (E : Env) (g : List M) (h : M.CoherentL g = true) :
    M.validate E (groupMarker g) = valL true E g ∧ (groupMarker g).Coherent = true := by
  match g, h with
  | [], h => exact mkMulti_validate E [] h
  | [m], h =>
    simp only [M.CoherentL, Bool.and_true] at h
    exact ⟨by rw [groupMarker, valL_single], h⟩
  | a :: b :: r, h => exact mkMulti_validate E (a :: b :: r) h

theorem groups_coherent (gs : List (List M)) (h : ∀ g ∈ gs, M.CoherentL g = true) :
    M.CoherentL (gs.map groupMarker) = true := by
  rw [coherentL_iff]
  intro m hm
  obtain ⟨g, hg, rfl⟩ := List.mem_map.1 hm
  exact (groupMarker_validate ⟨[], none⟩ g (h g hg)).2

/-! ### the syntax tree evaluated with Python's laziness: `and` binds tighter than `or` -/

/-- the model's value of one `item`: build the `SingleMarker`, validate it -/
def itemV (E : Env) (n op v : String) (sw : Bool) : PyM Bool :=
  match mkSingle n (itemConstraintString op v sw) sw with
  | .ok s => validateLike s.name s.c E
  | .error e => .error e

mutual
def atomV (E : Env) : Atom → PyM Bool
  | .item n op v sw => itemV E n op v sw
  | .paren m => synV E (.ok true) m
/-- same recursion as `Spec.Pep508.evalSynAcc`, over results with lazy connectives: `acc` is the value of the
conjunction read so far -/
def synV (E : Env) (acc : PyM Bool) : Syn → PyM Bool
  | .one a => conn true acc (atomV E a)
  | .more a false rest => synV E (conn true acc (atomV E a)) rest
  | .more a true rest => conn false (conn true acc (atomV E a)) (synV E (.ok true) rest)
end

/-- the leaf an `item` compacts to is coherent (vacuous when the leaf cannot be built) -/
def itemCoherent (n op v : String) (sw : Bool) : Bool :=
  match mkSingle n (itemConstraintString op v sw) sw with
  | .ok s => s.coherent
  | .error _ => true

mutual
def Atom.coh : Atom → Bool
  | .item n op v sw => itemCoherent n op v sw
  | .paren m => m.coh
def Syn.coh : Syn → Bool
  | .one a => a.coh
  | .more a _ rest => a.coh && rest.coh
end

/-- value of a list of groups (a disjunction of conjunctions) -/
def groupsV (E : Env) (gs : List (List M)) : PyM Bool := valL false E (gs.map groupMarker)

theorem groupsV_nil (E : Env) : groupsV E [] = .ok false := by simp [groupsV, valL_nil]

theorem groupsV_cons (E : Env) (g : List M) (gs : List (List M)) (h : M.CoherentL g = true) :
    groupsV E (g :: gs) = conn false (valL true E g) (groupsV E gs) := by
  simp only [groupsV, List.map_cons, valL_cons, (groupMarker_validate E g h).1]

mutual
theorem compactAtom_sem (E : Env) : ∀ (a : Atom) (x : M), compactAtom a = .ok x → a.coh = true →
    x.Coherent = true ∧ M.validate E x = atomV E a
  | .item n op v sw, x, h, hc => by
    simp only [compactAtom, bind, Except.bind, pure, Except.pure] at h
    simp only [Atom.coh, itemCoherent] at hc
    cases hs : mkSingle n (itemConstraintString op v sw) sw with
    | error e => rw [hs] at h; cases h
    | ok s =>
      rw [hs] at h hc
      cases h
      exact ⟨by simpa [M.Coherent] using hc, by simp [M.validate, Leaf.validate, atomV, itemV, hs]⟩
  | .paren m, x, h, hc => by
    simp only [compactAtom, bind, Except.bind, pure, Except.pure] at h
    simp only [Atom.coh] at hc
    cases hg : compactGroups m with
    | error e => rw [hg] at h; cases h
    | ok gs =>
      rw [hg] at h
      cases h
      obtain ⟨g, gs', rfl, hcoh, hval⟩ := compactGroups_sem E m gs hg hc
      have hcl := groups_coherent (g :: gs') hcoh
      obtain ⟨v1, v2⟩ := mkUnion_validate E _ hcl
      refine ⟨v2, ?_⟩
      have := hval (.ok true)
      rw [conn_unit_left] at this
      rw [v1, atomV, this]
      exact groupsV_cons E g gs' (hcoh g (by simp))
theorem compactGroups_sem (E : Env) : ∀ (s : Syn) (gs : List (List M)), compactGroups s = .ok gs →
    s.coh = true →
    ∃ g gs', gs = g :: gs' ∧ (∀ g ∈ gs, M.CoherentL g = true) ∧
      ∀ acc, synV E acc s = conn false (conn true acc (valL true E g)) (groupsV E gs')
  | .one a, gs, h, hc => by
    simp only [compactGroups, bind, Except.bind, pure, Except.pure] at h
    simp only [Syn.coh] at hc
    cases hx : compactAtom a with
    | error e => rw [hx] at h; cases h
    | ok x =>
      rw [hx] at h
      cases h
      obtain ⟨c1, c2⟩ := compactAtom_sem E a x hx hc
      refine ⟨[x], [], rfl, by simp [M.CoherentL, c1], ?_⟩
      intro acc
      rw [synV, groupsV_nil, conn_unit_right, valL_single, c2]
  | .more a isOr rest, gs, h, hc => by
    simp only [compactGroups, bind, Except.bind, pure, Except.pure] at h
    simp only [Syn.coh, Bool.and_eq_true] at hc
    cases hx : compactAtom a with
    | error e => rw [hx] at h; cases h
    | ok x =>
      rw [hx] at h
      simp only at h
      cases hr : compactGroups rest with
      | error e => rw [hr] at h; cases h
      | ok gr =>
        rw [hr] at h
        simp only at h
        obtain ⟨c1, c2⟩ := compactAtom_sem E a x hx hc.1
        obtain ⟨g, gs', rfl, hcoh, hval⟩ := compactGroups_sem E rest gr hr hc.2
        have hg : M.CoherentL g = true := hcoh g (by simp)
        cases isOr with
        | true =>
          simp only [if_true] at h
          cases h
          refine ⟨[x], g :: gs', rfl, ?_, ?_⟩
          · intro g' hg'
            rcases List.mem_cons.1 hg' with rfl | hg'
            · simp [M.CoherentL, c1]
            · exact hcoh g' hg'
          · intro acc
            have := hval (.ok true)
            rw [conn_unit_left] at this
            rw [synV, this, valL_single, c2, groupsV_cons E g gs' hg]
        | false =>
          simp only [Bool.false_eq_true, if_false] at h
          cases h
          refine ⟨x :: g, gs', rfl, ?_, ?_⟩
          · intro g' hg'
            rcases List.mem_cons.1 hg' with rfl | hg'
            · simp [M.CoherentL, c1, hg]
            · exact hcoh g' (List.mem_cons_of_mem _ hg')
          · intro acc
            rw [synV, hval, valL_cons, c2, conn_assoc]
end

/-- **`_compact_markers` realises the grammar's and/or structure.**  Whenever the leaves can be built and are
coherent, the un-simplified marker validates to the lazy evaluation of the tree, exceptions included. -/
theorem compactRaw_sem (E : Env) (syn : Syn) (m : M) (h : compactRaw syn = .ok m) (hc : syn.coh = true) :
    m.Coherent = true ∧ M.validate E m = synV E (.ok true) syn := by
  have := compactAtom_sem E (.paren syn) m
    (by
      simp only [compactRaw, compactSubMarkers, compactAtom, bind, Except.bind, pure, Except.pure] at h ⊢
      cases hg : compactGroups syn with
      | error e => rw [hg] at h; cases h
      | ok gs => rw [hg] at h; exact h)
    (by simpa [Atom.coh] using hc)
  simpa [atomV] using this

/-! ### from the lazy evaluation to the reference (strict) evaluation -/

theorem conn_true_ok (a b : Bool) : conn true (.ok a) (.ok b) = .ok (a && b) := by cases a <;> rfl
theorem conn_false_ok (a b : Bool) : conn false (.ok a) (.ok b) = .ok (a || b) := by cases a <;> rfl

open Spec.Pep508 in
mutual
/-- every leaf of the tree has a value in the model and the reference gives the same value -/
def Atom.agree (E : Env) : Atom → Prop
  | .item n op v sw => ∃ b, itemV E n op v sw = .ok b ∧ evalItem n op v sw E = some b
  | .paren m => m.agree E
def Syn.agree (E : Env) : Syn → Prop
  | .one a => a.agree E
  | .more a _ rest => a.agree E ∧ rest.agree E
end

open Spec.Pep508 in
mutual
theorem atomV_spec (E : Env) : ∀ (a : Atom), a.agree E → ∃ b, atomV E a = .ok b ∧ evalAtom E a = some b
  | .item n op v sw, h => by simpa [Atom.agree, atomV, evalAtom] using h
  | .paren m, h => by
    simp only [Atom.agree] at h
    obtain ⟨b, h1, h2⟩ := synV_spec E m h true
    exact ⟨b, by simpa [atomV] using h1, by simpa [evalAtom, evalSyn] using h2⟩
theorem synV_spec (E : Env) : ∀ (s : Syn), s.agree E → ∀ acc : Bool,
    ∃ b, synV E (.ok acc) s = .ok b ∧ evalSynAcc E (some acc) s = some b
  | .one a, h, acc => by
    simp only [Syn.agree] at h
    obtain ⟨b, h1, h2⟩ := atomV_spec E a h
    exact ⟨acc && b, by rw [synV, h1, conn_true_ok], by simp [evalSynAcc, h2, and?]⟩
  | .more a false rest, h, acc => by
    simp only [Syn.agree] at h
    obtain ⟨b, h1, h2⟩ := atomV_spec E a h.1
    obtain ⟨r, r1, r2⟩ := synV_spec E rest h.2 (acc && b)
    exact ⟨r, by rw [synV, h1, conn_true_ok, r1], by simp [evalSynAcc, h2, and?, r2]⟩
  | .more a true rest, h, acc => by
    simp only [Syn.agree] at h
    obtain ⟨b, h1, h2⟩ := atomV_spec E a h.1
    obtain ⟨r, r1, r2⟩ := synV_spec E rest h.2 true
    exact ⟨(acc && b) || r, by rw [synV, h1, conn_true_ok, r1, conn_false_ok],
      by simp [evalSynAcc, h2, and?, r2, or?]⟩
end

/-! ### the leaves can be built ⇒ the tree can be compacted -/

mutual
theorem compactAtom_ok (E : Env) : ∀ (a : Atom), a.agree E → ∃ x, compactAtom a = .ok x
  | .item n op v sw, h => by
    simp only [Atom.agree, itemV] at h
    obtain ⟨b, h1, _⟩ := h
    cases hs : mkSingle n (itemConstraintString op v sw) sw with
    | error e => rw [hs] at h1; cases h1
    | ok s => simp [compactAtom, hs, bind, Except.bind, pure, Except.pure]
  | .paren m, h => by
    simp only [Atom.agree] at h
    obtain ⟨gs, hg⟩ := compactGroups_ok E m h
    simp [compactAtom, hg, bind, Except.bind, pure, Except.pure]
theorem compactGroups_ok (E : Env) : ∀ (s : Syn), s.agree E → ∃ gs, compactGroups s = .ok gs
  | .one a, h => by
    simp only [Syn.agree] at h
    obtain ⟨x, hx⟩ := compactAtom_ok E a h
    simp [compactGroups, hx, bind, Except.bind, pure, Except.pure]
  | .more a isOr rest, h => by
    simp only [Syn.agree] at h
    obtain ⟨x, hx⟩ := compactAtom_ok E a h.1
    obtain ⟨gs, hg⟩ := compactGroups_ok E rest h.2
    cases isOr with
    | true => simp [compactGroups, hx, hg, bind, Except.bind, pure, Except.pure]
    | false =>
      cases gs with
      | nil => simp [compactGroups, hx, hg, bind, Except.bind, pure, Except.pure]
      | cons g gs' => simp [compactGroups, hx, hg, bind, Except.bind, pure, Except.pure]
end

theorem compactRaw_ok (E : Env) (syn : Syn) (h : syn.agree E) : ∃ m, compactRaw syn = .ok m := by
  obtain ⟨gs, hg⟩ := compactGroups_ok E syn h
  simp [compactRaw, compactSubMarkers, hg, bind, Except.bind, pure, Except.pure]

end Poetry.Marker
