/-
The ` (constraint)` part of a printed registry dependency whose constraint the printer spells with a wildcard
(`==X.*`, `!=X.*`): one spec token, read back (C15 `wildcard_spelt_roundtrip` / `wildcard_spelt_union_roundtrip`,
Proofs/VRangeTextX.lean) as a constraint admitting the same versions on every well-formed version.
-/
import PoetryVerif.Proofs.DepConstraint
import PoetryVerif.Proofs.VRangeTextX

set_option linter.unusedSimpArgs false
set_option linter.unusedVariables false

namespace Poetry.Dep
open Poetry Poetry.Marker Poetry.Req Poetry.Version

/-- the printed wildcard body `X.*` is made of spec characters -/
theorem wild_specChars (e b0 : Nat) (bs : List Nat) : ∀ c ∈ baseChars e b0 bs ++ dotStar, isSpecChar c = true := by
  intro c hc
  rcases List.mem_append.1 hc with h | h
  · exact vchar_specChar (nchar_vchar c (baseChars_nchar e b0 bs c h))
  · simp [dotStar] at h; rcases h with rfl | rfl <;> decide

theorem specTok_wild (o : Char) (ho : o = '=' ∨ o = '!') (e b0 : Nat) (bs : List Nat) :
    SpecTok (o :: '=' :: (baseChars e b0 bs ++ dotStar)) := by
  have hne : baseChars e b0 bs ++ dotStar ≠ [] := by simp [dotStar]
  rcases ho with rfl | rfl
  · exact ⟨'=', '=', _, rfl, ['=', '='], _, rfl, rfl, hne, wild_specChars e b0 bs⟩
  · exact ⟨'!', '=', _, rfl, ['!', '='], _, rfl, rfl, hne, wild_specChars e b0 bs⟩

theorem wild_noBlank (o : Char) (ho : o = '=' ∨ o = '!') (e b0 : Nat) (bs : List Nat) :
    ∀ c ∈ o :: '=' :: (baseChars e b0 bs ++ dotStar), c ≠ ' ' := by
  intro c hc
  simp only [List.mem_cons] at hc
  rcases hc with rfl | rfl | hc
  · rcases ho with rfl | rfl <;> decide
  · decide
  · intro e'; subst e'
    have := wild_specChars e b0 bs ' ' hc
    simp [isSpecChar, isSpace] at this

/-- the text of a range the printer spells `==X.*` -/
theorem wild_eq_print (mn mx : Version) (hw : isWildcardCandidate mn mx false = true) (hnp : mn.isPostrelease = false) :
    ∃ e b0 bs, (VC.single (.rng ⟨some mn, some mx, true, false⟩)).toStr =
      .ok (String.ofList ('=' :: '=' :: (baseChars e b0 bs ++ dotStar))) := by
  obtain ⟨g1, g2, g3, g4, g5, g6, g7, g8, l, hPl, hl0, hrel⟩ := wildcardCandidate_facts mn mx hw hnp
  generalize hP : stripZeros mx.release = P at hPl hrel
  have hBne : P.dropLast ++ [l - 1] ≠ [] := by simp
  obtain ⟨b0, bs, hB⟩ := List.exists_cons_of_ne_nil hBne
  have hstr : singleWildcardRangeString mn mx = .ok (String.ofList (wildChars mx.epoch b0 bs)) := by
    unfold singleWildcardRangeString
    simp only [hnp, Bool.false_eq_true, if_false, hP, hPl]
    have hz : (l == 0) = false := by simpa using hl0
    simp only [hz, Bool.false_eq_true, if_false, hB]
    congr 1
    apply str_eq_of_toList
    have hrt : (joinWith "." (natToString b0 :: bs.map natToString)).toList = relChars b0 bs := joinWith_dot_toList b0 bs
    by_cases he : mx.epoch = 0
    · simp [wildChars, epochChars, he, hrt]
    · simp [wildChars, epochChars, he, hrt, dg]
  refine ⟨mx.epoch, b0, bs, ?_⟩
  simp only [VC.toStr, RC.toStr, VRange.toStr, VRange.isSingleWildcardRange, hw, hstr, Bool.not_true, Bool.false_or,
    Bool.false_eq_true, if_false, if_true, bind, Except.bind, pure, Except.pure]
  congr 1
  exact str_eq_of_toList (by simp [wildChars, baseChars, dotStar])

/-- **a range spelt `==X.*` prints as one spec token and is read back as a range admitting the same versions** -/
theorem cbody_wild_eq (d : Dep) (mn mx : Version) (hc : d.constraint = .single (.rng ⟨some mn, some mx, true, false⟩))
    (hwf : (⟨some mn, some mx, true, false⟩ : VRange).WF) (hw : isWildcardCandidate mn mx false = true)
    (hnp : mn.isPostrelease = false) :
    ∃ ts c', CBody d ts ∧ VParser.parseConstraint (ctextOf ts) = .ok c' ∧
      ∀ p, p.wf = true → c'.allows p = d.constraint.allows p := by
  obtain ⟨e, b0, bs, hprint⟩ := wild_eq_print mn mx hw hnp
  obtain ⟨s, c', h1, h2, h3⟩ := wildcard_spelt_roundtrip mn mx hwf hw hnp
  rw [hprint] at h1
  injection h1 with h1
  refine ⟨['=' :: '=' :: (baseChars e b0 bs ++ dotStar)], c', ⟨" (" ++ String.ofList ('=' :: '=' :: (baseChars e b0 bs ++ dotStar)) ++ ")", ?_, ?_, ?_⟩, ?_, ?_⟩
  · unfold constraintSuffix
    rw [hc]
    have hany : (VC.single (.rng ⟨some mn, some mx, true, false⟩)).isAny = false := by simp [VC.isAny, RC.isAny, VRange.isAny]
    simp only [hany, Bool.false_eq_true, if_false, hprint, bind, Except.bind, pure, Except.pure,
      removeSpaces_noSpace _ (wild_noBlank '=' (Or.inl rfl) e b0 bs)]
  · simp [specsText, commaJoin, String.toList_append, String.toList_ofList]
  · intro x hx; simp at hx; subst hx; exact specTok_wild '=' (Or.inl rfl) e b0 bs
  · simp only [ctextOf, commaJoin]; rw [h1]; exact h2
  · intro p hp; rw [hc]; exact h3 p hp

/-- the text of a union the printer spells `!=X.*` -/
theorem wild_ne_print (omax tmin : Version) (hlt : vk omax < vk tmin) (hw : isWildcardCandidate tmin omax true = true)
    (hnp : omax.isPostrelease = false) :
    ∃ e b0 bs, (VC.union [.rng ⟨none, some omax, false, false⟩, .rng ⟨some tmin, none, true, false⟩]).toStr =
      .ok (String.ofList ('!' :: '=' :: (baseChars e b0 bs ++ dotStar))) := by
  obtain ⟨g1, g4, g5, g6, g7, g8, l, hPl, hl0, hrel⟩ := wildcardCandidate_facts_inv tmin omax hw hnp
  generalize hP : stripZeros tmin.release = P at hPl hrel
  have hBne : P.dropLast ++ [l - 1] ≠ [] := by simp
  obtain ⟨b0, bs, hB⟩ := List.exists_cons_of_ne_nil hBne
  have hstr : singleWildcardRangeString omax tmin = .ok (String.ofList (wildChars tmin.epoch b0 bs)) := by
    unfold singleWildcardRangeString
    simp only [hnp, Bool.false_eq_true, if_false, hP, hPl]
    have hz : (l == 0) = false := by simpa using hl0
    simp only [hz, Bool.false_eq_true, if_false, hB]
    congr 1
    apply str_eq_of_toList
    have hrt : (joinWith "." (natToString b0 :: bs.map natToString)).toList = relChars b0 bs := joinWith_dot_toList b0 bs
    by_cases he : tmin.epoch = 0
    · simp [wildChars, epochChars, he, hrt]
    · simp [wildChars, epochChars, he, hrt, dg]
  have hinv := inverted_two_sided omax tmin hlt
  refine ⟨tmin.epoch, b0, bs, ?_⟩
  simp only [VC.toStr, VC.excludedSingleVersion, hinv, VC.excludedWildcard, RC.max, RC.min, RC.imax, RC.imin, hw, hstr,
    Option.isSome_some, Option.isSome_none, if_true, Bool.false_or, Bool.not_true, Bool.false_eq_true, if_false,
    bind, Except.bind, pure, Except.pure]
  congr 1
  exact str_eq_of_toList (by simp [wildChars, baseChars, dotStar])

/-- **a union spelt `!=X.*` prints as one spec token and is read back as a union admitting the same versions** -/
theorem cbody_wild_ne (d : Dep) (omax tmin : Version)
    (hc : d.constraint = .union [.rng ⟨none, some omax, false, false⟩, .rng ⟨some tmin, none, true, false⟩])
    (ho : omax.wf = true) (ht : tmin.wf = true) (hlt : vk omax < vk tmin)
    (hw : isWildcardCandidate tmin omax true = true) (hnp : omax.isPostrelease = false) :
    ∃ ts c', CBody d ts ∧ VParser.parseConstraint (ctextOf ts) = .ok c' ∧
      ∀ p, p.wf = true → c'.allows p = d.constraint.allows p := by
  obtain ⟨e, b0, bs, hprint⟩ := wild_ne_print omax tmin hlt hw hnp
  obtain ⟨s, c', h1, h2, h3⟩ := wildcard_spelt_union_roundtrip omax tmin ho ht hlt hw hnp
  rw [hprint] at h1
  injection h1 with h1
  have hinv := inverted_two_sided omax tmin hlt
  refine ⟨['!' :: '=' :: (baseChars e b0 bs ++ dotStar)], c', ⟨" (" ++ String.ofList ('!' :: '=' :: (baseChars e b0 bs ++ dotStar)) ++ ")", ?_, ?_, ?_⟩, ?_, ?_⟩
  · unfold constraintSuffix
    rw [hc]
    simp only [VC.excludedSingleVersion, hinv, VC.excludedWildcard, RC.max, RC.min, RC.imax, RC.imin, hw,
      Option.isSome_some, Option.isSome_none, if_true, Bool.false_or, Bool.not_true, Bool.false_eq_true, if_false,
      hprint, bind, Except.bind, pure, Except.pure]
  · simp [specsText, commaJoin, String.toList_append, String.toList_ofList]
  · intro x hx; simp at hx; subst hx; exact specTok_wild '!' (Or.inr rfl) e b0 bs
  · simp only [ctextOf, commaJoin]; rw [h1]; exact h2
  · intro p hp; rw [hc]; exact h3 p hp

end Poetry.Dep
