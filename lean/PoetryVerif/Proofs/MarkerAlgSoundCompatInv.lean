/-
Inversion of `~=` leaves.  `SingleMarker.invert` on `name ~= "V"` builds `name >= V` and `name < H` (texts with a
blank after the operator), inverts both and unites the results: `name < "V" or name >= "H"`.  Text level: the
constraint pattern and the constraint parser on `">= X.Y"` / `"< X.Y"` (the and-separator does not match after an
operator character); then the computation of `invert`, and the complement at every final release.
-/
import PoetryVerif.Proofs.MarkerAlgSoundPfvC
import PoetryVerif.Proofs.PyConvComma

set_option linter.unusedSimpArgs false
set_option linter.unusedVariables false

namespace Poetry.Marker
open Poetry Poetry.Version Poetry.VParser

theorem spacesThenValue?_sp (c : Char) (cs : List Char) (hv : valueOk (c :: cs)) :
    spacesThenValue? (' ' :: c :: cs) = some (c :: cs) := by
  have hc := hv.2 c (by simp)
  unfold spacesThenValue?
  have hk : countLeading isSpace (' ' :: c :: cs) = 1 := by
    simp [countLeading, hc, show isSpace ' ' = true by decide]
  simp only [hk]
  simp only [spacesThenValue?.go, List.drop_succ_cons, List.drop_zero, dotPlusToEnd?_ok (c :: cs) hv]

theorem matchPattern1_ge_sp (c : Char) (cs : List Char) (hv : valueOk (c :: cs)) :
    matchPattern1 ('>' :: '=' :: ' ' :: c :: cs) = some (some ">=", String.ofList (c :: cs)) := by
  have hs := spacesThenValue?_sp c cs hv
  simp [matchPattern1, matchPattern1.tryOps, pattern1Ops, stripPrefixCI?_cons, stripPrefixCI?_nil,
    lc_eq, lc_tilde, lc_bang, lc_gt, lc_lt, hs]

theorem matchPattern1_lt_sp (c : Char) (cs : List Char) (hv : valueOk (c :: cs)) :
    matchPattern1 ('<' :: ' ' :: c :: cs) = some (some "<", String.ofList (c :: cs)) := by
  have hs := spacesThenValue?_sp c cs hv
  have hl : lowerChar ' ' = ' ' := by decide
  simp [matchPattern1, matchPattern1.tryOps, pattern1Ops, stripPrefixCI?_cons, stripPrefixCI?_nil,
    lc_eq, lc_tilde, lc_bang, lc_gt, lc_lt, hs, hl]

end Poetry.Marker

namespace Poetry
open Version VParser

/-- the and-separator never matches after an operator character or a blank -/
theorem andSep_badPrev (p : Char) (s : List Char) (h : badPrev p = true) : andSep? (some p) s = none := by
  simp [andSep?, h]

theorem noSep_relChars (l : List Nat) : NoSep (relChars l) := noSep_rel l

theorem splitAndAux_step_none (fuel : Nat) (prev : Option Char) (c : Char) (cs cur : List Char)
    (h : andSep? prev (c :: cs) = none) :
    splitAndAux (fuel + 1) prev (c :: cs) cur = splitAndAux fuel (some c) cs (c :: cur) := by
  rw [splitAndAux]; simp only [h]

theorem splitAnd_ge_sp (l : List Nat) :
    splitAnd ('>' :: '=' :: ' ' :: relChars l) = ['>' :: '=' :: ' ' :: relChars l] := by
  have hn := noSep_relChars l
  generalize relChars l = t at hn
  simp only [splitAnd, List.length_cons]
  rw [splitAndAux_step_none _ _ _ _ _ (by rfl), splitAndAux_step_none _ _ _ _ _ (andSep_badPrev '>' _ (by decide)),
    splitAndAux_step_none _ _ _ _ _ (andSep_badPrev '=' _ (by decide))]
  cases t with
  | nil => simp [splitAndAux]
  | cons d ds =>
    rw [splitAndAux_step_none _ _ _ _ _ (andSep_badPrev ' ' _ (by decide)),
      splitAndAux_noSep ds _ (some d) _ (by simp) hn.tail]
    simp

theorem splitAnd_lt_sp (l : List Nat) :
    splitAnd ('<' :: ' ' :: relChars l) = ['<' :: ' ' :: relChars l] := by
  have hn := noSep_relChars l
  generalize relChars l = t at hn
  simp only [splitAnd, List.length_cons]
  rw [splitAndAux_step_none _ _ _ _ _ (by rfl), splitAndAux_step_none _ _ _ _ _ (andSep_badPrev '<' _ (by decide))]
  cases t with
  | nil => simp [splitAndAux]
  | cons d ds =>
    rw [splitAndAux_step_none _ _ _ _ _ (andSep_badPrev ' ' _ (by decide)),
      splitAndAux_noSep ds _ (some d) _ (by simp) hn.tail]
    simp

theorem orSep_noPipe : ∀ (s : List Char), (∀ c ∈ s, c ≠ '|') → orSep? s = none
  | [], _ => by simp [orSep?, dropSpaces]
  | c :: cs, h => by
    by_cases hc : isSpace c = true
    · have ih := orSep_noPipe cs (fun d hd => h d (by simp [hd]))
      simpa [orSep?, dropSpaces, hc] using ih
    · have h1 : c ≠ '|' := h c (by simp)
      simp only [orSep?, dropSpaces, hc, Bool.false_eq_true, if_false]
      split
      · rename_i heq; simp at heq; exact absurd heq.1 h1
      · rename_i heq; simp at heq; exact absurd heq.1 h1
      · rfl

theorem splitOrAux_noPipe (cs cur : List Char) (fuel : Nat) (hf : cs.length < fuel) (h : ∀ c ∈ cs, c ≠ '|') :
    splitOrAux fuel cs cur = [cur.reverse ++ cs] := by
  induction cs generalizing cur fuel with
  | nil =>
    cases fuel with
    | zero => simp at hf
    | succ f => unfold splitOrAux; simp
  | cons c cs ih =>
    cases fuel with
    | zero => simp at hf
    | succ f =>
      unfold splitOrAux
      simp only [orSep_noPipe (c :: cs) h]
      rw [ih (c :: cur) f (by simpa using hf) (fun d hd => h d (by simp [hd]))]
      simp

theorem splitOr_noPipe (cs : List Char) (h : ∀ c ∈ cs, c ≠ '|') : splitOr cs = [cs] := by
  simp [splitOr, splitOrAux_noPipe cs [] (cs.length + 1) (by omega) h]

/-- a one-clause text with a blank after its operator is parsed by `parse_single_constraint` alone -/
theorem pmvc_one (pre : List Char) (l : List Nat) (hl : l ≠ []) (hpre : ∃ c t, pre = c :: t ∧ isSpace c = false)
    (hbar : ∀ c ∈ pre, c ≠ '|') (hsplit : splitAnd (pre ++ relChars l) = [pre ++ relChars l]) :
    parseMarkerVersionConstraint (String.ofList (pre ++ relChars l)) =
      parseSingle (pre ++ relChars l) true := by
  obtain ⟨a, r, rfl⟩ : ∃ a r, l = a :: r := by
    cases l with
    | nil => exact absurd rfl hl
    | cons a r => exact ⟨a, r, rfl⟩
  obtain ⟨c, t, rfl, hc⟩ := hpre
  obtain ⟨lst, hlst, hd⟩ := relChars_last_digit a r
  have hlast : ((c :: t) ++ relChars (a :: r)).getLast? = some lst := by
    rw [List.getLast?_append, hlst]; rfl
  have hsp : isSpace lst = false := isSpace_of_isDigit hd
  have hne : (String.ofList ((c :: t) ++ relChars (a :: r)) == "*") = false := by
    rw [beq_eq_false_iff_ne]
    intro e
    have := congrArg String.toList e
    simp only [String.toList_ofList] at this
    have h2 := congrArg List.getLast? this
    rw [hlast] at h2
    simp at h2
    subst h2
    exact absurd hd (by decide)
  have hstrip : strip ((c :: t) ++ relChars (a :: r)) = (c :: t) ++ relChars (a :: r) :=
    strip_ends (c := c) (t := t ++ relChars (a :: r)) (by simp) hc hlast hsp
  have hnp : ∀ d ∈ (c :: t) ++ relChars (a :: r), d ≠ '|' := by
    intro d hd
    rw [List.mem_append] at hd
    rcases hd with hd | hd
    · exact hbar d hd
    · exact ((noSep_relChars (a :: r)) d hd).2.2.1
  have hcomma : lst ≠ ',' := by intro e; subst e; exact absurd hd (by decide)
  simp only [parseMarkerVersionConstraint, parseConstraintAux, hne, Bool.false_eq_true, if_false,
    String.toList_ofList, hstrip, splitOr_noPipe _ hnp, List.mapM_cons, List.mapM_nil, bind, Except.bind, parseGroup,
    rstripCommas_last hlast hcomma, rstripSpaces_last hlast hsp, hsplit]
  cases parseSingle ((c :: t) ++ relChars (a :: r)) true <;> simp [pure, Except.pure, List.foldlM]

theorem pmvc_ge_sp (a : Nat) (r : List Nat) :
    parseMarkerVersionConstraint (">= " ++ relText (a :: r)) =
      .ok (.single (.rng ⟨some (finalV (a :: r)), none, true, false⟩)) := by
  have hs : ">= " ++ relText (a :: r) = String.ofList (['>', '=', ' '] ++ relChars (a :: r)) :=
    Marker.str_eq_of_toList (by simp [relText_toList])
  rw [hs, pmvc_one _ _ (by simp) ⟨_, _, rfl, by decide⟩ (by decide) (by simpa using splitAnd_ge_sp (a :: r))]
  have hany : isAnyPattern ('>' :: '=' :: ' ' :: relChars (a :: r)) = false := by simp [isAnyPattern]
  have hds : dropSpaces (' ' :: relChars (a :: r)) = relChars (a :: r) := by
    simp [dropSpaces, show isSpace ' ' = true by decide, relChars_dropSpaces]
  simp [parseSingle, hany, x_none_gt, basicOp, hds, basicVersion_relChars, relText_ne_dev,
    parse_relText, parseVersionText, bind, Except.bind, pure, Except.pure]

theorem pmvc_lt_sp (a : Nat) (r : List Nat) :
    parseMarkerVersionConstraint ("< " ++ relText (a :: r)) =
      .ok (.single (.rng ⟨none, some (finalV (a :: r)), false, false⟩)) := by
  have hs : "< " ++ relText (a :: r) = String.ofList (['<', ' '] ++ relChars (a :: r)) :=
    Marker.str_eq_of_toList (by simp [relText_toList])
  rw [hs, pmvc_one _ _ (by simp) ⟨_, _, rfl, by decide⟩ (by decide) (by simpa using splitAnd_lt_sp (a :: r))]
  have hany : isAnyPattern ('<' :: ' ' :: relChars (a :: r)) = false := by simp [isAnyPattern]
  have hds : dropSpaces (' ' :: relChars (a :: r)) = relChars (a :: r) := by
    simp [dropSpaces, show isSpace ' ' = true by decide, relChars_dropSpaces]
  simp [parseSingle, hany, x_none_lt, basicOp, hds, basicVersion_relChars, relText_ne_dev,
    parse_relText, parseVersionText, bind, Except.bind, pure, Except.pure]

end Poetry

namespace Poetry.Marker
open Poetry Poetry.Version

/-! ### the constructor on `op ++ " " ++ value` -/

theorem toList_ge_sp (x : Nat) (r : List Nat) :
    (">= " ++ Version.relText (x :: r)).toList = '>' :: '=' :: ' ' :: relChars x r := by
  simp [relText_toList]

theorem toList_lt_sp (x : Nat) (r : List Nat) :
    ("< " ++ Version.relText (x :: r)).toList = '<' :: ' ' :: relChars x r := by
  simp [relText_toList]

theorem matchPattern1_sp (x : Nat) (r : List Nat) :
    matchPattern1 (">= " ++ Version.relText (x :: r)).toList = some (some ">=", Version.relText (x :: r)) ∧
    matchPattern1 ("< " ++ Version.relText (x :: r)).toList = some (some "<", Version.relText (x :: r)) := by
  obtain ⟨d, ds, hd, hdig⟩ := relChars_cons x r
  have hvo := relChars_valueOk x r
  have hs : String.ofList (d :: ds) = Version.relText (x :: r) := by rw [← hd, ofList_relChars]
  rw [hd] at hvo
  rw [toList_ge_sp, toList_lt_sp, hd, matchPattern1_ge_sp d ds hvo, matchPattern1_lt_sp d ds hvo, hs]
  exact ⟨rfl, rfl⟩

theorem leafPrepare_py_sp (n : String) (hn : n = "python_version" ∨ n = "python_full_version")
    (cstr ops v : String) (hm : matchPattern1 cstr.toList = some (some ops, v))
    (l1 : (ops == "in") = false) (l2 : (ops == "not in") = false)
    (hpad : n = "python_full_version" → ¬ (countChar '.' v + 1 < 3)) :
    leafPrepare n cstr false =
      .ok { name := n, op := ops, value := v, swapped := false, cstr := cstr, kind := .version true } := by
  unfold leafPrepare
  simp only [Bool.false_eq_true, if_false, hm, Option.getD_some, l1, l2, Bool.false_and, Bool.or_false]
  rcases hn with rfl | rfl
  · have f1 : Gen.versionLikeMarkerNames.contains "python_version" = true := by decide
    have f2 : ("python_version" == "python_full_version") = false := by decide
    have f3 : aliasName "python_version" = "python_version" := by decide
    have f4 : ("python_version" != "platform_release") = true := by decide
    have f1' : "python_version" ∈ Gen.versionLikeMarkerNames := by decide
    simp [f1, f1', f2, f3, f4]
  · have f1 : Gen.versionLikeMarkerNames.contains "python_full_version" = true := by decide
    have f1' : "python_full_version" ∈ Gen.versionLikeMarkerNames := by decide
    have f3 : aliasName "python_full_version" = "python_full_version" := by decide
    have f4 : ("python_full_version" != "platform_release") = true := by decide
    have hp := hpad rfl
    simp [f1, f1', f3, f4, hp]

theorem litV_finalV' (x : Nat) (r : List Nat) : finalV (x :: r) = litV x r := rfl

/-- `SingleMarker("python_version", ">= a.b")` / `"< a.b"` -/
theorem mkSingle_pv_sp (a b : Nat) :
    mkSingle "python_version" (">= " ++ Version.relText [a, b]) false = .ok (pvLeafOf .ge ">=" a b) ∧
    mkSingle "python_version" ("< " ++ Version.relText [a, b]) false = .ok (pvLeafOf .lt "<" a b) := by
  obtain ⟨m1, m2⟩ := matchPattern1_sp a [b]
  have p1 := leafPrepare_py_sp "python_version" (Or.inl rfl) _ _ _ m1 (by decide) (by decide) (fun h => absurd h (by decide))
  have p2 := leafPrepare_py_sp "python_version" (Or.inl rfl) _ _ _ m2 (by decide) (by decide) (fun h => absurd h (by decide))
  constructor
  · simp [mkSingle, p1, bind, Except.bind, parseByKind_ver _ _ (_root_.Poetry.pmvc_ge_sp a [b]), pure, Except.pure,
      pvLeafOf, pvClause, ineqRange, litV_finalV']
  · simp [mkSingle, p2, bind, Except.bind, parseByKind_ver _ _ (_root_.Poetry.pmvc_lt_sp a [b]), pure, Except.pure,
      pvLeafOf, pvClause, ineqRange, litV_finalV']

theorem mkSingle_pfv_sp (a b c : Nat) :
    mkSingle "python_full_version" (">= " ++ Version.relText [a, b, c]) false = .ok (pfvLeafOf .ge ">=" a [b, c]) ∧
    mkSingle "python_full_version" ("< " ++ Version.relText [a, b, c]) false = .ok (pfvLeafOf .lt "<" a [b, c]) := by
  obtain ⟨m1, m2⟩ := matchPattern1_sp a [b, c]
  have hp : ¬ (countChar '.' (Version.relText [a, b, c]) + 1 < 3) := by rw [countChar_relText]; simp
  have p1 := leafPrepare_py_sp "python_full_version" (Or.inr rfl) _ _ _ m1 (by decide) (by decide) (fun _ => hp)
  have p2 := leafPrepare_py_sp "python_full_version" (Or.inr rfl) _ _ _ m2 (by decide) (by decide) (fun _ => hp)
  constructor
  · simp [mkSingle, p1, bind, Except.bind, parseByKind_ver _ _ (_root_.Poetry.pmvc_ge_sp a [b, c]), pure, Except.pure,
      pfvLeafOf, pvClause, ineqRange, litV_finalV']
  · simp [mkSingle, p2, bind, Except.bind, parseByKind_ver _ _ (_root_.Poetry.pmvc_lt_sp a [b, c]), pure, Except.pure,
      pfvLeafOf, pvClause, ineqRange, litV_finalV']

/-! ### the computation of `invert` -/

theorem sp_ge (t : String) : ">=" ++ " " ++ t = ">= " ++ t := str_eq_of_toList (by simp)
theorem sp_lt (t : String) : "<" ++ " " ++ t = "< " ++ t := str_eq_of_toList (by simp)

theorem flatten2 (isMulti : Bool) (A B : Leaf) (h : Leaf.beq B A = false) :
    flattenMarkers isMulti [.leaf A, .leaf B] = [.leaf A, .leaf B] := by
  simp [flattenMarkers, flattenAux, M.mem, M.beq, h]

theorem invertSimple_eq (s : Single) (h : (s.op == "~=") = false) : invertSimple s = Leaf.invert (.single s) := by
  simp [Leaf.invert, h]

/-- `python_version ~= "a.b"` inverts to `python_version < "a.b" or python_version >= "(a+1).0"` -/
theorem invert_pvCompat (a b : Nat) :
    Leaf.invert (.single (pvCompatOf a b)) =
      .ok (mkUnion [.leaf (.single (pvLeafOf .lt "<" a b)), .leaf (.single (pvLeafOf .ge ">=" (a + 1) 0))]) := by
  have i1 : invertSimple (pvLeafOf .ge ">=" a b) = .ok (.leaf (.single (pvLeafOf .lt "<" a b))) := by
    rw [invertSimple_eq _ (by simp [pvLeafOf, pfvLeafOf])]; exact invert_pv (by decide) a b
  have i2 : invertSimple (pvLeafOf .lt "<" (a + 1) 0) = .ok (.leaf (.single (pvLeafOf .ge ">=" (a + 1) 0))) := by
    rw [invertSimple_eq _ (by simp [pvLeafOf, pfvLeafOf])]; exact invert_pv (by decide) (a + 1) 0
  have hb : Leaf.beq (.single (pvLeafOf .lt "<" (a + 1) 0)) (.single (pvLeafOf .ge ">=" a b)) = false := by
    simp [Leaf.beq, pvLeafOf]
  simp only [Leaf.invert, pvCompatOf, compatVC, show ("~=" == "~=") = true by decide, if_true, RC.imin, RC.imax,
    RC.min, RC.max, optVerStr, litV_text, bind, Except.bind, sp_ge, sp_lt, Bool.false_eq_true, if_false, (mkSingle_pv_sp a b).1, (mkSingle_pv_sp (a + 1) 0).2,
    flatten2 true _ _ hb, List.mapM_cons, List.mapM_nil, i1, i2, pure, Except.pure]

/-- `python_full_version ~= "a.b.c"` inverts to `python_full_version < "a.b.c" or python_full_version >= "a.(b+1).0"` -/
theorem invert_pfvCompat (a b c : Nat) :
    Leaf.invert (.single (pfvCompatOf a b c)) =
      .ok (mkUnion [.leaf (.single (pfvLeafOf .lt "<" a [b, c])),
        .leaf (.single (pfvLeafOf .ge ">=" a [b + 1, 0]))]) := by
  have i1 : invertSimple (pfvLeafOf .ge ">=" a [b, c]) = .ok (.leaf (.single (pfvLeafOf .lt "<" a [b, c]))) := by
    rw [invertSimple_eq _ (by simp [pvLeafOf, pfvLeafOf])]; exact invert_pfv3 (by decide) a b c
  have i2 : invertSimple (pfvLeafOf .lt "<" a [b + 1, 0]) =
      .ok (.leaf (.single (pfvLeafOf .ge ">=" a [b + 1, 0]))) := by
    rw [invertSimple_eq _ (by simp [pvLeafOf, pfvLeafOf])]; exact invert_pfv3 (by decide) a (b + 1) 0
  have hb : Leaf.beq (.single (pfvLeafOf .lt "<" a [b + 1, 0])) (.single (pfvLeafOf .ge ">=" a [b, c])) = false := by
    simp [Leaf.beq, pfvLeafOf]
  simp only [Leaf.invert, pfvCompatOf, compatVC, show ("~=" == "~=") = true by decide, if_true, RC.imin, RC.imax,
    RC.min, RC.max, optVerStr, litV_text, bind, Except.bind, sp_ge, sp_lt, Bool.false_eq_true, if_false, (mkSingle_pfv_sp a b c).1,
    (mkSingle_pfv_sp a (b + 1) 0).2, flatten2 true _ _ hb, List.mapM_cons, List.mapM_nil, i1, i2, pure, Except.pure]

/-! ### the complement -/

theorem compat_complement (lo hi : Version) (l : List Nat) (hl : l ≠ []) (h1 : PyBound lo = true)
    (h2 : PyBound hi = true) :
    ((pvClause .lt lo).allowsPlain (finalV l) || (pvClause .ge hi).allowsPlain (finalV l)) =
      !(compatVC lo hi).allowsPlain (finalV l) := by
  have hp := finalV_wf l hl
  have hu := upper_allows lo (finalV l) false (PyBound_wf h1) hp (reg1_final l h1)
  have hlo := lower_allows hi (finalV l) true (PyBound_wf h2) hp (reg1_final l h2)
  have hpb : ∀ e ∈ [lo, hi], PyBound e = true := by
    intro e he; simp only [List.mem_cons, List.mem_nil_iff, or_false] at he
    rcases he with rfl | rfl <;> assumption
  have hraw := VRange.allows_iff_raw ⟨some lo, some hi, true, false⟩ (finalV l)
    (by intro e he; simp [VRange.bounds] at he; rcases he with rfl | rfl; exact PyBound_wf h1; exact PyBound_wf h2) hp
    (by simpa [VRange.bounds] using regular_final [lo, hi] hpb l)
  simp only [pvClause, ineqRange, compatVC, VC.allowsPlain, VC.flatten, List.any_cons, List.any_nil, Bool.or_false,
    RC.allows]
  rw [Bool.eq_iff_iff]
  simp only [Bool.or_eq_true, Bool.not_eq_true', ← Bool.not_eq_true, hu, hlo, hraw, VRange.raw, VRange.denLo,
    VRange.rawHi, if_true, if_false, Bool.false_eq_true]
  constructor
  · rintro (h | h) ⟨h3, h4⟩
    · exact absurd h3 (not_le.2 h)
    · exact absurd h4 (not_lt.2 h)
  · intro h
    by_cases h3 : vk lo ≤ vk (finalV l)
    · exact Or.inr (not_lt.1 (fun h4 => h ⟨h3, h4⟩))
    · exact Or.inl (not_le.1 h3)

/-- **inverting `python_version ~= "a.b"` is sound** -/
theorem invOK_pvCompat {E : Env} {X Y : Nat} (hE : E.get? "python_version" = some (Version.relText [X, Y]))
    (a b : Nat) : InvOK (leafEval E) PvLeaf (.single (pvCompatOf a b)) := by
  intro res hi
  rw [invert_pvCompat a b] at hi; cases hi
  have g : ∀ x ∈ [M.leaf (.single (pvLeafOf .lt "<" a b)), M.leaf (.single (pvLeafOf .ge ">=" (a + 1) 0))],
      M.Good PvLeaf x := by
    intro x hx
    simp only [List.mem_cons, List.mem_nil_iff, or_false] at hx
    rcases hx with rfl | rfl
    · exact (M.good_leaf _).2 ⟨.lt, "<", a, b, by decide, rfl⟩
    · exact (M.good_leaf _).2 ⟨.ge, ">=", a + 1, 0, by decide, rfl⟩
  obtain ⟨hg, hs⟩ := mkUnion_spec (leafSpec_pv hE) _ g
  refine ⟨hg, ?_⟩
  rw [hs]
  have hc := compat_complement (litV a [b]) (litV (a + 1) [0]) [X, Y] (by simp) (pb2 a b) (pb2 (a + 1) 0)
  simpa [leafEval, pvLeaf_eval hE (sop := .lt) (ops := "<") (by decide) a b,
    pvLeaf_eval hE (sop := .ge) (ops := ">=") (by decide) (a + 1) 0, pvCompat_eval hE a b, pvProbe,
    litV_eq_finalV] using hc

/-- **inverting `python_full_version ~= "a.b.c"` is sound** -/
theorem invOK_pfvCompat {E : Env} {X : Nat} {R : List Nat}
    (hE : E.get? "python_full_version" = some (Version.relText (X :: R))) (a b c : Nat) :
    InvOK (leafEval E) Pfv3Leaf (.single (pfvCompatOf a b c)) := by
  intro res hi
  rw [invert_pfvCompat a b c] at hi; cases hi
  have g : ∀ x ∈ [M.leaf (.single (pfvLeafOf .lt "<" a [b, c])), M.leaf (.single (pfvLeafOf .ge ">=" a [b + 1, 0]))],
      M.Good Pfv3Leaf x := by
    intro x hx
    simp only [List.mem_cons, List.mem_nil_iff, or_false] at hx
    rcases hx with rfl | rfl
    · exact (M.good_leaf _).2 ⟨.lt, "<", a, b, c, by decide, rfl⟩
    · exact (M.good_leaf _).2 ⟨.ge, ">=", a, b + 1, 0, by decide, rfl⟩
  obtain ⟨hg, hs⟩ := mkUnion_spec (leafSpec_pfv3 hE) _ g
  refine ⟨hg, ?_⟩
  rw [hs]
  have hc := compat_complement (litV a [b, c]) (litV a [b + 1, 0]) (X :: R) (by simp) (pb [a, b, c]) (pb [a, b + 1, 0])
  simpa [leafEval, pfv3_eval hE (sop := .lt) (ops := "<") (by decide) a b c,
    pfv3_eval hE (sop := .ge) (ops := ">=") (by decide) a (b + 1) 0, pfvCompat_eval hE a b c,
    litV_eq_finalV] using hc

end Poetry.Marker
