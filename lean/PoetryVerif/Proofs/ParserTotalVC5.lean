/-
C19 (version-constraint part), fifth helper file: version-TEXT cleanliness.  Every bound of every constraint the
parser returns, and of everything `intersect` / `union` / `VersionUnion.of` build from such constraints, has a
text made of version characters (`vchar`: letters, digits, `. - _ + !` — no quote, backslash, newline, blank).
-/
import PoetryVerif.Proofs.ParserTotalVC4
import PoetryVerif.Proofs.VRangeTextV
import PoetryVerif.Proofs.VRangeTextP
import PoetryVerif.Proofs.MetaVersionText

set_option linter.unusedSimpArgs false
set_option linter.unusedVariables false

namespace Poetry.ParserTotal
open Poetry Version VParser EqHash
open Poetry.Marker (char_le_iff lowerChar_of_not_upper)

/-! ## what `VERSION_PATTERN` consumes is made of version characters -/

/-- `s` is `rest` preceded by version characters -/
def Eats (s rest : List Char) : Prop := ∃ pre, s = pre ++ rest ∧ ∀ c ∈ pre, vchar c = true

theorem Eats.refl (s : List Char) : Eats s s := ⟨[], rfl, by simp⟩

theorem Eats.trans {a b c : List Char} (h1 : Eats a b) (h2 : Eats b c) : Eats a c := by
  obtain ⟨p1, e1, q1⟩ := h1
  obtain ⟨p2, e2, q2⟩ := h2
  refine ⟨p1 ++ p2, by rw [e1, e2, List.append_assoc], ?_⟩
  intro x hx
  rcases List.mem_append.1 hx with h | h
  · exact q1 x h
  · exact q2 x h

theorem Eats.cons {s r : List Char} (c : Char) (hc : vchar c = true) (h : Eats s r) : Eats (c :: s) r := by
  obtain ⟨p, e, q⟩ := h
  refine ⟨c :: p, by rw [e]; rfl, ?_⟩
  intro x hx
  rcases List.mem_cons.1 hx with rfl | h
  · exact hc
  · exact q x h

theorem takeDigits_eats : ∀ s : List Char, Eats s (takeDigits s).2
  | [] => by simp [takeDigits]; exact Eats.refl _
  | c :: cs => by
    unfold takeDigits
    by_cases hc : isDigit c = true
    · simp only [hc, if_true]
      exact Eats.cons c (digit_vchar c hc) (takeDigits_eats cs)
    · simp only [hc]; exact Eats.refl _

theorem stripV_eats (s : List Char) : Eats s (stripV s) := by
  unfold stripV
  split
  · exact Eats.cons 'v' (by decide) (Eats.refl _)
  · exact Eats.refl _

theorem moreRelease_eats : ∀ (fuel : Nat) (s : List Char), Eats s (moreRelease fuel s).2
  | 0, s => by simp [moreRelease]; exact Eats.refl _
  | fuel + 1, s => by
    unfold moreRelease
    split
    · next cs =>
      have h1 := takeDigits_eats cs
      generalize takeDigits cs = p at h1
      obtain ⟨ds, r⟩ := p
      simp only at h1 ⊢
      split
      · exact Eats.refl _
      · have h2 := moreRelease_eats fuel r
        generalize moreRelease fuel r = q at h2
        obtain ⟨more, r'⟩ := q
        exact Eats.cons '.' (by decide) (h1.trans h2)
    · exact Eats.refl _

theorem parseEpochRelease_eats (s : List Char) (e : Nat) (rel : List Nat) (r : List Char)
    (h : parseEpochRelease s = some (e, rel, r)) : Eats s r := by
  unfold parseEpochRelease at h
  have h0 := takeDigits_eats s
  generalize takeDigits s = p0 at h h0
  obtain ⟨d0, r0⟩ := p0
  simp only at h h0
  split at h
  · cases h
  · have key : ∀ (r1 : List Char), Eats s r1 → ∀ e' d1, some (e', digitsToNat d1 :: (moreRelease r1.length r1).1,
        (moreRelease r1.length r1).2) = some (e, rel, r) → Eats s r := by
      intro r1 h1 e' d1 hh
      simp only [Option.some.injEq, Prod.mk.injEq] at hh
      rw [← hh.2.2]
      exact h1.trans (moreRelease_eats _ r1)
    split at h
    · next cs =>
      have h1 := takeDigits_eats cs
      generalize takeDigits cs = p1 at h h1
      obtain ⟨d, r'⟩ := p1
      simp only at h h1
      split at h
      · exact key _ h0 _ _ h
      · exact key _ (h0.trans (Eats.cons '!' (by decide) h1)) _ _ h
    · exact key _ h0 _ _ h

theorem optSep_eats (s : List Char) : Eats s (optSep s) := by
  unfold optSep
  split
  · next c cs =>
    split
    · next hc =>
      refine Eats.cons c ?_ (Eats.refl _)
      simp only [isSep, Bool.or_eq_true, beq_iff_eq] at hc
      rcases hc with (rfl | rfl) | rfl <;> decide
    · exact Eats.refl _
  · exact Eats.refl _

theorem stripPrefix?_append : ∀ (p s r : List Char), stripPrefix? p s = some r → s = p ++ r
  | [], s, r, h => by simp [stripPrefix?] at h; simp [h]
  | _ :: _, [], r, h => by simp [stripPrefix?] at h
  | p :: ps, c :: cs, r, h => by
    simp only [stripPrefix?] at h
    split at h
    · next hpc =>
      have : p = c := by simpa using hpc
      subst this
      rw [stripPrefix?_append ps cs r h]; rfl
    · cases h

theorem stripWord?_eats : ∀ (ws : List String), (∀ w ∈ ws, ∀ c ∈ w.toList, vchar c = true) →
    ∀ (s : List Char) (w : String) (r : List Char), stripWord? ws s = some (w, r) → Eats s r
  | [], _, s, w, r, h => by simp [stripWord?] at h
  | w0 :: rest, hws, s, w, r, h => by
    simp only [stripWord?] at h
    split at h
    · next r' hp =>
      simp only [Option.some.injEq, Prod.mk.injEq] at h
      obtain ⟨_, rfl⟩ := h
      exact ⟨w0.toList, stripPrefix?_append _ _ _ hp, hws w0 (by simp)⟩
    · exact stripWord?_eats rest (fun w' hw' => hws w' (List.mem_cons_of_mem _ hw')) s w r h

theorem labelled?_eats (ws : List String) (hws : ∀ w ∈ ws, ∀ c ∈ w.toList, vchar c = true)
    (s : List Char) (w : String) (n : Nat) (r : List Char) (h : labelled? ws s = some (w, n, r)) : Eats s r := by
  unfold labelled? at h
  split at h
  · cases h
  · next w' r' hw =>
    simp only [Option.some.injEq, Prod.mk.injEq] at h
    obtain ⟨_, _, rfl⟩ := h
    exact (optSep_eats s).trans ((stripWord?_eats ws hws _ _ _ hw).trans ((optSep_eats r').trans (takeDigits_eats _)))

theorem parseLabelled_eats (ws : List String) (hws : ∀ w ∈ ws, ∀ c ∈ w.toList, vchar c = true)
    (s : List Char) : Eats s (parseLabelled ws s).2 := by
  unfold parseLabelled
  split
  · next w n r hl =>
    split
    · exact labelled?_eats ws hws s w n r hl
    · exact Eats.refl _
  · exact Eats.refl _

theorem parsePostAlt1_eats (s : List Char) (n : Nat) (r : List Char) (h : parsePostAlt1 s = some (n, r)) :
    Eats s r := by
  unfold parsePostAlt1 at h
  split at h
  · next cs =>
    have h1 := takeDigits_eats cs
    generalize takeDigits cs = p at h h1
    obtain ⟨ds, r'⟩ := p
    simp only at h h1
    split at h
    · cases h
    · simp only [Option.some.injEq, Prod.mk.injEq] at h
      rw [← h.2]; exact Eats.cons '-' (by decide) h1
  · cases h

theorem preWords_vchar : ∀ w ∈ preWords, ∀ c ∈ w.toList, vchar c = true := by decide
theorem postWords_vchar : ∀ w ∈ postWords, ∀ c ∈ w.toList, vchar c = true := by decide
theorem devWords_vchar : ∀ w ∈ devWords, ∀ c ∈ w.toList, vchar c = true := by decide

theorem parsePost_eats (s : List Char) : Eats s (parsePost s).2 := by
  unfold parsePost
  split
  · next n r h => exact parsePostAlt1_eats s n r h
  · exact parseLabelled_eats postWords postWords_vchar s

theorem localChar_vchar (c : Char) (h : isLocalChar c = true) : vchar c = true := by
  simp only [isLocalChar, Bool.or_eq_true] at h
  rcases h with h | h <;> simp [vchar, h]

theorem takeLocalSeg_eats : ∀ s : List Char, Eats s (takeLocalSeg s).2
  | [] => by simp [takeLocalSeg]; exact Eats.refl _
  | c :: cs => by
    unfold takeLocalSeg
    by_cases hc : isLocalChar c = true
    · simp only [hc, if_true]
      exact Eats.cons c (localChar_vchar c hc) (takeLocalSeg_eats cs)
    · simp only [hc]; exact Eats.refl _

theorem localSegs_eats : ∀ (fuel : Nat) (s : List Char) (segs : List String) (r : List Char),
    localSegs fuel s = some (segs, r) → Eats s r
  | 0, s, segs, r, h => by simp [localSegs] at h
  | fuel + 1, s, segs, r, h => by
    unfold localSegs at h
    have h1 := takeLocalSeg_eats s
    generalize takeLocalSeg s = p at h h1
    obtain ⟨seg, r1⟩ := p
    simp only at h h1
    split at h
    · cases h
    · split at h
      · next c cs =>
        split at h
        · next hsep =>
          have hcv : vchar c = true := by
            simp only [isSep, Bool.or_eq_true, beq_iff_eq] at hsep
            rcases hsep with (rfl | rfl) | rfl <;> decide
          split at h
          · next more r' hrec =>
            simp only [Option.some.injEq, Prod.mk.injEq] at h
            rw [← h.2]
            exact h1.trans (Eats.cons c hcv (localSegs_eats fuel cs more r' hrec))
          · simp only [Option.some.injEq, Prod.mk.injEq] at h
            rw [← h.2]; exact h1
        · simp only [Option.some.injEq, Prod.mk.injEq] at h
          rw [← h.2]; exact h1
      · simp only [Option.some.injEq, Prod.mk.injEq] at h
        rw [← h.2]; exact h1

theorem parseLocal_eats (s : List Char) : Eats s (parseLocal s).2 := by
  unfold parseLocal
  split
  · next cs =>
    split
    · next segs r h => exact Eats.cons '+' (by decide) (localSegs_eats _ cs segs r h)
    · exact Eats.refl _
  · exact Eats.refl _

/-- **`VERSION_PATTERN` consumes version characters only** -/
theorem parseBody_eats (t : String) (s : List Char) (v : Version) (rest : List Char)
    (h : parseBody t s = some (v, rest)) : Eats s rest := by
  unfold parseBody at h
  split at h
  · cases h
  · next e rel r2 h2 =>
    simp only [Option.some.injEq, Prod.mk.injEq] at h
    rw [← h.2]
    exact (stripV_eats s).trans ((parseEpochRelease_eats _ e rel r2 h2).trans
      ((parseLabelled_eats preWords preWords_vchar r2).trans ((parsePost_eats _).trans
        ((parseLabelled_eats devWords devWords_vchar _).trans (parseLocal_eats _)))))

/-! ## the texts `parse_single_constraint` cuts out -/

/-- all characters are version characters -/
def CleanL (l : List Char) : Prop := ∀ c ∈ l, vchar c = true

theorem vchar_of_lower (c : Char) (h : vchar (lowerChar c) = true) : vchar c = true := by
  by_cases hu : 65 ≤ c.toNat ∧ c.toNat ≤ 90
  · have hup : ('A' ≤ c && c ≤ 'Z') = true := by
      simp only [Bool.and_eq_true, decide_eq_true_eq, char_le_iff]; exact hu
    simp [vchar, hup]
  · rw [lowerChar_of_not_upper c hu] at h; exact h

theorem lower_eq_of_not_vchar (c : Char) (h : vchar (lowerChar c) = false) : lowerChar c = c := by
  by_cases hu : 65 ≤ c.toNat ∧ c.toNat ≤ 90
  · have hup : ('A' ≤ c && c ≤ 'Z') = true := by
      simp only [Bool.and_eq_true, decide_eq_true_eq, char_le_iff]; exact hu
    have : vchar c = true := by simp [vchar, hup]
    rw [lower_vchar c this] at h; cases h
  · exact lowerChar_of_not_upper c hu

/-- the consumed prefix of the original (not lower-cased) characters -/
theorem eats_map_take (s rest : List Char) (h : Eats (s.map lowerChar) rest) :
    CleanL (s.take (s.length - rest.length)) := by
  obtain ⟨pre, e, q⟩ := h
  have hlen : s.length = pre.length + rest.length := by
    have := congrArg List.length e
    simpa using this
  have hn : s.length - rest.length = pre.length := by omega
  have hm : (s.take pre.length).map lowerChar = pre := by
    rw [List.map_take, e, List.take_left' rfl]
  intro c hc
  rw [hn] at hc
  apply vchar_of_lower
  apply q
  rw [← hm]
  exact List.mem_map_of_mem hc

theorem mem_take_mono {α : Type} (l : List α) {m n : Nat} (h : m ≤ n) {c : α} (hc : c ∈ l.take m) : c ∈ l.take n := by
  have : l.take m = (l.take n).take m := by rw [List.take_take, Nat.min_eq_left h]
  rw [this] at hc
  exact List.mem_of_mem_take hc

/-- **`(?P<version>VERSION_PATTERN)$`: the cut text is made of version characters** -/
theorem versionToEnd?_clean (s : List Char) (t : String) (h : versionToEnd? s = some t) : CleanL t.toList := by
  unfold versionToEnd? at h
  simp only at h
  cases hb : Version.parseBody "" (s.map lowerChar) with
  | none => rw [hb] at h; cases h
  | some pr =>
    obtain ⟨v, rest⟩ := pr
    rw [hb] at h
    simp only at h
    have hcl := eats_map_take s rest (parseBody_eats _ _ _ _ hb)
    obtain ⟨pre, e, q⟩ := parseBody_eats _ _ _ _ hb
    split at h
    · next hend =>
      simp only [Option.some.injEq] at h
      subst h
      simp only [String.toList_ofList]
      simp only [atEnd, Bool.or_eq_true, List.isEmpty_iff, beq_iff_eq] at hend
      rcases hend with rfl | rfl
      · -- everything was consumed: `s` itself is clean
        have hs : CleanL s := by simpa using hcl
        split
        · exact fun c hc => hs c (List.dropLast_subset _ hc)
        · exact hs
      · -- a final newline was left: it is the last character of `s`
        have hlast : (s.map lowerChar).getLast? = some '\n' := by rw [e]; simp
        rw [List.getLast?_map] at hlast
        cases hl : s.getLast? with
        | none => rw [hl] at hlast; cases hlast
        | some x =>
          rw [hl] at hlast
          simp only [Option.map_some, Option.some.injEq] at hlast
          have hx : x = '\n' := by
            have := lower_eq_of_not_vchar x (by rw [hlast]; decide)
            rw [this] at hlast; exact hlast
          subst hx
          rw [if_pos (by simp), List.dropLast_eq_take]; exact hcl
    · cases h

def finishB (s : List Char) (verLen : Nat) (rest : List Char) : Option (String × Bool) :=
  match rest with
  | '.' :: '*' :: r => if atEnd r then some (String.ofList (s.take verLen), true) else none
  | r => if atEnd r then some (String.ofList (s.take verLen), false) else none

theorem finishB_text {s : List Char} {k : Nat} {rest : List Char} {t : String} {w : Bool}
    (h : finishB s k rest = some (t, w)) : t = String.ofList (s.take k) := by
  unfold finishB at h
  split at h <;> split at h <;> simp at h <;> exact h.1.symm

theorem basicVersion?_eq (s : List Char) : basicVersion? s =
    (match (match Version.parseBody "" (s.map lowerChar) with
        | some (_, rest) =>
          (match finishB s (s.length - rest.length) rest with
           | some x => some x
           | none =>
             if s.length - rest.length > 0 && (s.take (s.length - rest.length)).getLast? == some '.' then
               finishB s (s.length - rest.length - 1) ('.' :: rest) else none)
        | none => none) with
     | some x => some x
     | none =>
       match s.map lowerChar with
       | 'd' :: 'e' :: 'v' :: _ => finishB s 3 (s.drop 3)
       | _ => none) := rfl

theorem clean_dev (s tail : List Char) (h : s.map lowerChar = 'd' :: 'e' :: 'v' :: tail) : CleanL (s.take 3) := by
  intro c hc
  apply vchar_of_lower
  have : lowerChar c ∈ (s.map lowerChar).take 3 := by
    rw [← List.map_take]; exact List.mem_map_of_mem hc
  rw [h] at this
  simp at this
  rcases this with h | h | h <;> rw [h] <;> decide

/-- **`(?P<version>VERSION|dev)(?P<wildcard>\.\*)?$`: the cut text is made of version characters** -/
theorem basicVersion?_clean (s : List Char) (t : String) (w : Bool) (h : basicVersion? s = some (t, w)) :
    CleanL t.toList := by
  rw [basicVersion?_eq] at h
  have key : ∀ k, CleanL (s.take k) → ∀ rest, finishB s k rest = some (t, w) → CleanL t.toList := by
    intro k hk rest hf
    rw [finishB_text hf, String.toList_ofList]; exact hk
  have dev : (match s.map lowerChar with
       | 'd' :: 'e' :: 'v' :: _ => finishB s 3 (s.drop 3)
       | _ => none) = some (t, w) → CleanL t.toList := by
    intro hd
    split at hd
    · next tail heq => exact key 3 (clean_dev s tail heq) _ hd
    · cases hd
  cases hb : Version.parseBody "" (s.map lowerChar) with
  | none =>
    simp only [hb] at h
    exact dev h
  | some pr =>
    obtain ⟨v, rest⟩ := pr
    simp only [hb] at h
    have hn := eats_map_take s rest (parseBody_eats _ _ _ _ hb)
    have hp : CleanL (s.take (s.length - rest.length - 1)) :=
      fun c hc => hn c (mem_take_mono s (Nat.sub_le _ _) hc)
    cases h1 : finishB s (s.length - rest.length) rest with
    | some x =>
      simp only [h1] at h
      cases h
      exact key _ hn rest h1
    | none =>
      simp only [h1] at h
      split at h
      · next x heq =>
        cases h
        split at heq
        · exact key _ hp _ heq
        · cases heq
      · exact dev h

/-! ### `X_CONSTRAINT` -/

open Poetry.Marker (xprefix vstrip xmore xtry xcore2 xcore xConstraint?_eq)

theorem CleanL.append {a b : List Char} (ha : CleanL a) (hb : CleanL b) : CleanL (a ++ b) := by
  intro c hc
  rcases List.mem_append.1 hc with h | h
  · exact ha c h
  · exact hb c h

theorem takeDigits_fst_clean : ∀ s : List Char, CleanL (takeDigits s).1
  | [] => by simp [takeDigits, CleanL]
  | c :: cs => by
    unfold takeDigits
    by_cases hc : isDigit c = true
    · simp only [hc, if_true]
      intro x hx
      rcases List.mem_cons.1 hx with rfl | hx
      · exact digit_vchar _ hc
      · exact takeDigits_fst_clean cs x hx
    · simp [hc, CleanL]

theorem xmore_fst_clean (r : List Char) : CleanL (xmore r).1 := by
  unfold xmore
  split
  · next cs =>
    have := takeDigits_fst_clean cs
    generalize takeDigits cs = p at this
    obtain ⟨d, r'⟩ := p
    simp only at this ⊢
    split
    · simp [CleanL]
    · intro x hx
      rcases List.mem_cons.1 hx with rfl | hx
      · decide
      · exact this x hx
  · simp [CleanL]

theorem xtry_clean {inv : Bool} {ver rest : List Char} {i : Bool} {t : String} (hv : CleanL ver)
    (h : xtry inv ver rest = some (i, t)) : CleanL t.toList := by
  unfold xtry at h
  split at h
  · simp only [Option.some.injEq, Prod.mk.injEq] at h
    rw [← h.2, String.toList_ofList]; exact hv
  · cases h

theorem xcore2_clean (inv : Bool) (s : List Char) (i : Bool) (t : String) (h : xcore2 inv s = some (i, t)) :
    CleanL t.toList := by
  unfold xcore2 at h
  have c1 := takeDigits_fst_clean s
  generalize takeDigits s = p1 at h c1
  obtain ⟨d1, r1⟩ := p1
  simp only at h c1
  split at h
  · cases h
  · have c2 := xmore_fst_clean r1
    generalize xmore r1 = p2 at h c2
    obtain ⟨d2, r2⟩ := p2
    simp only at h c2
    have c3 : CleanL (if d2.isEmpty = true then (([] : List Char), r2) else xmore r2).1 := by
      split
      · simp [CleanL]
      · exact xmore_fst_clean r2
    generalize (if d2.isEmpty = true then (([] : List Char), r2) else xmore r2) = p3 at h c3
    obtain ⟨d3, r3⟩ := p3
    simp only at h c3
    split at h
    · next x hx => cases h; exact xtry_clean ((c1.append c2).append c3) hx
    · split at h
      · next x hx => cases h; exact xtry_clean (c1.append c2) hx
      · exact xtry_clean c1 h

/-- **`X_CONSTRAINT`: the version text is digits and dots** -/
theorem xConstraint?_clean (s : List Char) (i : Bool) (t : String) (h : xConstraint? s = some (i, t)) :
    CleanL t.toList := by
  rw [xConstraint?_eq] at h
  exact xcore2_clean _ _ i t h

/-! ## clean versions -/

/-- the local label is as the parser stores it, and — once the version is well-formed — its text is made of
version characters -/
def TC (v : Version) : Prop := LocOK v.loc ∧ (v.wf = true → CleanL v.text.toList)

/-- **a clean version**: well-formed, local label as the parser stores it, text made of version characters -/
def VClean (v : Version) : Prop := v.wf = true ∧ LocOK v.loc ∧ CleanL v.text.toList

theorem VClean.tc {v : Version} (h : VClean v) : TC v := ⟨h.2.1, fun _ => h.2.2⟩
theorem TC.clean {v : Version} (h : TC v) (hw : v.wf = true) : VClean v := ⟨hw, h.1, h.2 hw⟩

theorem locOK_none : LocOK none := fun segs h => by cases h

/-- every version a bump function builds (`Version.mk'`: text = `to_string()`) -/
theorem tc_mk' (e : Nat) (rel : List Nat) (pre post dev : Option Tag) (loc : Option (List String)) (hl : LocOK loc) :
    TC (mk' e rel pre post dev loc) :=
  ⟨hl, fun hwf => (textOK_mk' e rel pre post dev loc hwf hl).chars⟩

theorem parse_text (t : String) (v : Version) (h : Version.parse t = .ok v) : v.text = t := by
  unfold Version.parse at h
  simp only at h
  split at h
  · cases h
  · next v' rest hb =>
    split at h
    · cases h
      unfold parseBody at hb
      split at hb
      · cases hb
      · simp only [Option.some.injEq, Prod.mk.injEq] at hb
        rw [← hb.1]
    · cases h

/-- **a version parsed from a clean text is clean** (`Version.parse` keeps the text) -/
theorem vclean_of_parse (t : String) (v : Version) (h : Version.parse t = .ok v) (ht : CleanL t.toList) :
    VClean v :=
  ⟨parse_wf t v h, Poetry.Meta.parse_locOK t v h, by rw [parse_text t v h]; exact ht⟩

theorem tc_firstDev (v : Version) : TC v.firstDevrelease := tc_mk' _ _ _ _ _ _ locOK_none
theorem tc_nextDev (v : Version) : TC v.nextDevrelease := tc_mk' _ _ _ _ _ _ locOK_none
theorem tc_nextPost (v : Version) : TC v.nextPostrelease := tc_mk' _ _ _ _ _ _ locOK_none
theorem tc_nextPre (v : Version) : TC v.nextPrerelease := tc_mk' _ _ _ _ _ _ locOK_none
theorem tc_nextStable (v : Version) (h : LocOK v.loc) : TC v.nextStable := tc_mk' _ _ _ _ _ _ h
theorem tc_nextMajor (v : Version) : TC v.nextMajor := tc_mk' _ _ _ _ _ _ locOK_none
theorem tc_nextMinor (v : Version) : TC v.nextMinor := tc_mk' _ _ _ _ _ _ locOK_none
theorem tc_nextPatch (v : Version) : TC v.nextPatch := tc_mk' _ _ _ _ _ _ locOK_none

theorem tc_nextBreaking (v : Version) : TC v.nextBreaking := by
  unfold nextBreaking
  split
  · exact tc_nextMajor _
  · split
    · exact tc_nextMinor _
    · exact tc_nextPatch _

theorem tc_xMin (v : Version) (m : Bool) (hv : TC v) : TC (xMin v m) := by
  unfold xMin; split
  · exact hv
  · exact tc_firstDev v

theorem tc_wrap (nx : Version) (m : Bool) (hn : TC nx) :
    TC (if m then nx else (if !nx.isDevrelease then nx.firstDevrelease else nx)) := by
  split
  · exact hn
  · split
    · exact tc_firstDev _
    · exact hn

theorem tc_xMax (v : Version) (m : Bool) (hv : TC v) : TC (xMax v m) := by
  have hn : TC (if v.isDevrelease then v.nextDevrelease
      else if v.isPostrelease then v.nextPostrelease
      else if v.isStable then v.nextStable
      else v.nextPrerelease) := by
    split
    · exact tc_nextDev v
    · split
      · exact tc_nextPost v
      · split
        · exact tc_nextStable v hv.1
        · exact tc_nextPre v
  exact tc_wrap _ m hn

/-- every bound satisfies `Q` -/
def BoundsAll (Q : Version → Prop) (c : VC) : Prop := ∀ e ∈ c.bounds, Q e

theorem boundsAll_single_rng {Q : Version → Prop} {mn mx : Option Version} {i j : Bool}
    (h1 : ∀ m, mn = some m → Q m) (h2 : ∀ m, mx = some m → Q m) : BoundsAll Q (.single (.rng ⟨mn, mx, i, j⟩)) := by
  intro e he
  simp only [VC.bounds, RC.bounds, RC.view, VRange.bounds, RC.min, RC.max, List.mem_append, Option.mem_toList] at he
  rcases he with he | he
  · exact h1 e he
  · exact h2 e he

/-- the bounds of `_make_x_constraint_range(V)` are `TC` -/
theorem makeX_tc (v : Version) (hv : v.wf = true) (htc : TC v) (inv m : Bool) (c : VC)
    (h : makeXConstraintRange v inv m = .ok c) : BoundsAll TC c := by
  obtain ⟨mn, mx, h0, _, w1, w2, _⟩ := xrange_ends v hv m
  rw [makeXConstraintRange_eq] at h0
  simp only [Bool.false_eq_true, if_false, Except.ok.injEq, VC.single.injEq, RC.rng.injEq, VRange.mk.injEq,
    Option.some.injEq, and_true] at h0
  obtain ⟨rfl, rfl⟩ := h0
  rw [makeXConstraintRange_eq] at h
  cases inv
  · simp only [Bool.false_eq_true, if_false, Except.ok.injEq] at h
    subst h
    exact boundsAll_single_rng (fun x hx => by cases hx; exact tc_xMin v m htc) (fun x hx => by cases hx; exact tc_xMax v m htc)
  · simp only [if_true] at h
    rw [difference_any_halfOpen] at h
    have hg : Good [RC.rng ⟨none, some (xMin v m), false, false⟩, RC.rng ⟨some (xMax v m), none, true, false⟩] := by
      intro r hr
      simp only [List.mem_cons, List.mem_nil_iff, or_false] at hr
      rcases hr with rfl | rfl
      · exact ⟨⟨wfB_of_ends (fun x hx => by simp at hx) (fun x hx => by simp at hx; rw [← hx]; exact w1),
          fun x M hx => by simp at hx⟩, ⟨fun _ => rfl, fun h => by simp at h⟩⟩
      · exact ⟨⟨wfB_of_ends (fun x hx => by simp at hx; rw [← hx]; exact w2) (fun x hx => by simp at hx),
          fun x M _ hM => by simp at hM⟩, ⟨fun h => by simp at h, fun _ => rfl⟩⟩
    intro e he
    have := (unionOfFlat_sem _ _ h hg).2.1 e he
    simp only [boundsOf, List.flatMap_cons, List.flatMap_nil, List.append_nil, RC.bounds, RC.view, VRange.bounds,
      RC.min, RC.max, List.mem_append, Option.mem_toList] at this
    simp at this
    rcases this with rfl | rfl
    · exact tc_xMin v m htc
    · exact tc_xMax v m htc

/-! ## every bound of a parsed clause is clean -/

theorem bind_parse_tc {P : Prop} (t : String) (ht : CleanL t.toList) (f : Version → PyM VC) (c : VC)
    (h : (parseVersionText t >>= f) = .ok c) (hf : ∀ v, VClean v → f v = .ok c → P) : P := by
  unfold parseVersionText at h
  cases hv : Version.parse t with
  | error e => simp [hv, bind, Except.bind] at h
  | ok v =>
    simp only [hv, bind, Except.bind] at h
    exact hf v (vclean_of_parse t v hv ht) h

theorem tc_stable (v : Version) (h : TC v) : TC v.stable := by
  unfold Version.stable
  split
  · exact h
  · exact tc_mk' _ _ _ _ _ _ locOK_none

theorem boundsAll_halfOpen {v hi : Version} (hv : TC v) (hh : TC hi) :
    BoundsAll TC (.single (.rng ⟨some v, some hi, true, false⟩)) :=
  boundsAll_single_rng (fun x hx => by cases hx; exact hv) (fun x hx => by cases hx; exact hh)

/-- **every bound of a clause `parse_single_constraint` returns is `TC`** -/
theorem parseSingle_tc (cs : List Char) (m : Bool) (c : VC) (h : parseSingle cs m = .ok c) : BoundsAll TC c := by
  unfold parseSingle at h
  split at h
  · cases h; intro e he; simp [VC.any, VC.bounds, RC.bounds, RC.view, VRange.bounds, VRange.any, RC.min, RC.max] at he
  simp only at h
  split at h
  · next t heq =>
    have ht : CleanL t.toList := by
      split at heq <;> first | cases heq | exact versionToEnd?_clean _ _ heq
    refine bind_parse_tc t ht _ c h (fun v hv hc => ?_)
    simp only [pure, Except.pure, Except.ok.injEq] at hc
    subst hc
    refine boundsAll_halfOpen hv.tc ?_
    split
    · exact tc_nextMajor _
    · exact tc_nextMinor _
  split at h
  · next t heq =>
    have ht : CleanL t.toList := by
      split at heq <;> first | cases heq | exact versionToEnd?_clean _ _ heq
    refine bind_parse_tc t ht _ c h (fun v hv hc => ?_)
    simp only [pure, Except.pure, Except.ok.injEq] at hc
    subst hc
    refine boundsAll_halfOpen hv.tc ?_
    split
    · exact tc_nextMajor _
    · split
      · exact tc_nextMinor _
      · exact tc_mk' _ _ _ _ _ _ locOK_none
  split at h
  · next t heq =>
    have ht : CleanL t.toList := by
      split at heq <;> first | cases heq | exact versionToEnd?_clean _ _ heq
    refine bind_parse_tc t ht _ c h (fun v hv hc => ?_)
    simp only [pure, Except.pure, Except.ok.injEq] at hc
    subst hc
    exact boundsAll_halfOpen hv.tc (tc_nextBreaking v)
  split at h
  · next inv t heq =>
    refine bind_parse_tc t (xConstraint?_clean _ _ _ heq) _ c h (fun v hv hc => ?_)
    exact makeX_tc v hv.1 hv.tc _ _ c hc
  split at h
  · next t wildcard heq =>
    have ht0 := basicVersion?_clean _ _ _ heq
    have ht : CleanL (if t == "dev" then "0.0-dev" else t).toList := by
      split
      · show ∀ c ∈ "0.0-dev".toList, vchar c = true
        decide
      · exact ht0
    refine bind_parse_tc _ ht _ c h (fun v hv hc => ?_)
    have hvt := hv.tc
    split at hc
    · simp only [pure, Except.pure, Except.ok.injEq] at hc; subst hc
      exact boundsAll_single_rng (fun x hx => by cases hx) (fun x hx => by cases hx; exact hvt)
    · simp only [pure, Except.pure, Except.ok.injEq] at hc; subst hc
      exact boundsAll_single_rng (fun x hx => by cases hx) (fun x hx => by cases hx; exact hvt)
    · simp only [pure, Except.pure, Except.ok.injEq] at hc; subst hc
      exact boundsAll_single_rng (fun x hx => by cases hx; exact hvt) (fun x hx => by cases hx)
    · simp only [pure, Except.pure, Except.ok.injEq] at hc; subst hc
      exact boundsAll_single_rng (fun x hx => by cases hx; exact hvt) (fun x hx => by cases hx)
    · split at hc
      · exact makeX_tc v hv.1 hvt _ _ c hc
      · split at hc
        · simp only [pure, Except.pure, Except.ok.injEq] at hc; subst hc
          intro e he
          simp [VC.bounds, RC.bounds, RC.view, VRange.bounds, RC.min, RC.max] at he
          rcases he with rfl | rfl <;> exact hvt
        · simp only [pure, Except.pure, Except.ok.injEq] at hc; subst hc
          intro e he
          simp [VC.bounds, RC.bounds, RC.view, VRange.bounds, RC.min, RC.max] at he
          subst he; exact hvt
  · cases h

/-- **every bound of a parsed clause is clean** -/
theorem parseSingle_clean (cs : List Char) (m : Bool) (c : VC) (h : parseSingle cs m = .ok c) :
    BoundsAll VClean c := by
  intro e he
  have hwf : e.wf = true := by
    rw [VC.bounds_eq_flatMap] at he
    obtain ⟨r, hr, her⟩ := List.mem_flatMap.1 he
    exact (parseSingle_WF m cs c h r hr).wfB e her
  exact (parseSingle_tc cs m c h e he).clean hwf

/-! ## the algebra keeps every bound inside a class closed under `v ↦ v.stable.next_patch()` -/

section Algebra
variable {Q : Version → Prop}

theorem boundsAll_empty : BoundsAll Q .empty := by intro e he; simp [VC.bounds] at he

theorem boundsAll_ver {v : Version} (h : Q v) : BoundsAll Q (.single (.ver v)) := by
  intro e he
  simp [VC.bounds, RC.bounds_ver] at he
  subst he; exact h

theorem rc_min_Q {c : RC} (h : ∀ e ∈ c.bounds, Q e) {m : Version} (hm : c.min = some m) : Q m :=
  h m (by simp [RC.bounds, RC.view, VRange.bounds, hm])

theorem rc_max_Q {c : RC} (h : ∀ e ∈ c.bounds, Q e) {m : Version} (hm : c.max = some m) : Q m :=
  h m (by simp [RC.bounds, RC.view, VRange.bounds, hm])

theorem interFinish_Q (imn imx : Option Version) (i j : Bool) (c : VC)
    (h : VRange.interFinish imn i imx j = .ok c) (h1 : ∀ m, imn = some m → Q m) (h2 : ∀ m, imx = some m → Q m) :
    BoundsAll Q c := by
  unfold VRange.interFinish at h
  split at h
  · cases h; intro e he; simp [VC.bounds, RC.bounds, RC.view, VRange.bounds, VRange.any, RC.min, RC.max] at he
  · split at h
    · split at h
      · split at h
        · cases h; exact boundsAll_ver (h1 _ rfl)
        · cases h
      · cases h
    · cases h; exact boundsAll_single_rng h1 h2

theorem rngIntersectVer_Q (hQ : ∀ v, Q v → Q v.stable.nextPatch) (r : VRange) (v : Version)
    (hr : ∀ e ∈ (RC.rng r).bounds, Q e) (hv : Q v) : BoundsAll Q (RC.rngIntersectVer r v) := by
  unfold RC.rngIntersectVer
  split
  · exact boundsAll_ver hv
  · split
    · next m hm =>
      split
      · exact boundsAll_single_rng (fun x hx => by cases hx; exact rc_min_Q hr hm)
          (fun x hx => by cases hx; exact hQ v hv)
      · exact boundsAll_empty
    · exact boundsAll_empty

/-- **member ∩ member** -/
theorem rcIntersect_Q (hQ : ∀ v, Q v → Q v.stable.nextPatch) (a b : RC) (i : VC) (h : RC.intersect a b = .ok i)
    (ha : ∀ e ∈ a.bounds, Q e) (hb : ∀ e ∈ b.bounds, Q e) : BoundsAll Q i := by
  cases a with
  | ver x =>
    have hx : Q x := ha x (by simp [RC.bounds_ver])
    cases b with
    | ver y =>
      have hy : Q y := hb y (by simp [RC.bounds_ver])
      simp only [RC.intersect, Except.ok.injEq, RC.verIntersectVer] at h
      subst h
      split
      · exact boundsAll_ver hy
      · split
        · exact boundsAll_ver hx
        · exact boundsAll_empty
    | rng r =>
      simp only [RC.intersect, Except.ok.injEq] at h
      subst h; exact rngIntersectVer_Q hQ r x hb hx
  | rng r =>
    cases b with
    | ver y =>
      have hy : Q y := hb y (by simp [RC.bounds_ver])
      simp only [RC.intersect, Except.ok.injEq] at h
      subst h; exact rngIntersectVer_Q hQ r y ha hy
    | rng t =>
      simp only [RC.intersect] at h
      rw [VRange.rngIntersectRng_eq] at h
      have amin : ∀ m, r.min = some m → Q m := fun m hm => rc_min_Q (c := .rng r) ha hm
      have amax : ∀ m, r.max = some m → Q m := fun m hm => rc_max_Q (c := .rng r) ha hm
      have bmin : ∀ m, t.min = some m → Q m := fun m hm => rc_min_Q (c := .rng t) hb hm
      have bmax : ∀ m, t.max = some m → Q m := fun m hm => rc_max_Q (c := .rng t) hb hm
      repeat' split at h
      all_goals first
        | (cases h; exact boundsAll_empty)
        | exact interFinish_Q _ _ _ _ i h bmin bmax
        | exact interFinish_Q _ _ _ _ i h bmin amax
        | exact interFinish_Q _ _ _ _ i h amin bmax
        | exact interFinish_Q _ _ _ _ i h amin amax

theorem boundsAll_of_members {c : VC} (h : ∀ r ∈ c.flatten, ∀ e ∈ r.bounds, Q e) : BoundsAll Q c := by
  intro e he
  rw [VC.bounds_eq_flatMap] at he
  obtain ⟨r, hr, her⟩ := List.mem_flatMap.1 he
  exact h r hr e her

theorem BoundsAll.member {c : VC} (h : BoundsAll Q c) : ∀ r ∈ c.flatten, ∀ e ∈ r.bounds, Q e := by
  intro r hr e he
  exact h e (by rw [VC.bounds_eq_flatMap]; exact List.mem_flatMap.2 ⟨r, hr, he⟩)

/-- the walk of `VersionUnion.intersect` -/
theorem unionIntersectLoop_Q (hQ : ∀ v, Q v → Q v.stable.nextPatch) : ∀ (fuel : Nat) (ours theirs : List RC)
    (acc parts : List VC), VC.unionIntersectLoop fuel ours theirs acc = .ok parts →
    (∀ c ∈ ours, ∀ e ∈ c.bounds, Q e) → (∀ c ∈ theirs, ∀ e ∈ c.bounds, Q e) → (∀ q ∈ acc, BoundsAll Q q) →
    ∀ q ∈ parts, BoundsAll Q q
  | 0, _, _, _, _, h, _, _, _ => by simp [VC.unionIntersectLoop] at h
  | fuel + 1, [], theirs, acc, parts, h, _, _, ha => by
    simp only [VC.unionIntersectLoop, Except.ok.injEq] at h; subst h; exact ha
  | fuel + 1, o :: os, [], acc, parts, h, _, _, ha => by
    simp only [VC.unionIntersectLoop, Except.ok.injEq] at h; subst h; exact ha
  | fuel + 1, o :: os, t :: ts, acc, parts, h, ho, ht, ha => by
    simp only [VC.unionIntersectLoop, bind, Except.bind] at h
    cases hi : RC.intersect o t with
    | error e => simp [hi] at h
    | ok i =>
      simp only [hi] at h
      have hib := rcIntersect_Q hQ o t i hi (ho o (by simp)) (ht t (by simp))
      have ha' : ∀ q ∈ (if i.isEmpty = true then acc else acc ++ [i]), BoundsAll Q q := by
        intro q hq
        split at hq
        · exact ha q hq
        · simp only [List.mem_append, List.mem_singleton] at hq
          rcases hq with h1 | rfl
          · exact ha q h1
          · exact hib
      split at h
      · exact unionIntersectLoop_Q hQ fuel os (t :: ts) _ parts h (fun c hc => ho c (by simp [hc])) ht ha'
      · exact unionIntersectLoop_Q hQ fuel (o :: os) ts _ parts h ho (fun c hc => ht c (by simp [hc])) ha'

/-- `VersionUnion.of` on well-formed tidy members keeps the bounds among the inputs' -/
theorem unionOf_Q (gs : List VC) (c : VC) (h : VC.unionOf gs = .ok c) (hg : ∀ g ∈ gs, GoodVC g)
    (hq : ∀ g ∈ gs, BoundsAll Q g) : BoundsAll Q c := by
  have hgood : Good (gs.flatMap VC.flatten) := by
    intro r hr
    obtain ⟨g, hgm, hrg⟩ := List.mem_flatMap.1 hr
    exact hg g hgm r hrg
  intro e he
  have := (unionOfFlat_sem _ c h hgood).2.1 e he
  obtain ⟨r, hr, her⟩ := List.mem_flatMap.1 this
  obtain ⟨g, hgm, hrg⟩ := List.mem_flatMap.1 hr
  exact (hq g hgm).member r hrg e her

/-- **`a.intersect(b)`** -/
theorem vcIntersect_Q (hQ : ∀ v, Q v → Q v.stable.nextPatch) (a b c : VC) (h : VC.intersect a b = .ok c)
    (ha : GoodVC a) (hb : GoodVC b) (qa : BoundsAll Q a) (qb : BoundsAll Q b) : BoundsAll Q c := by
  have walk : ∀ (fuel : Nat) (ours theirs : List RC) (parts : List VC),
      VC.unionIntersectLoop fuel ours theirs [] = .ok parts → ours.length + theirs.length < fuel →
      Good ours → Good theirs → (∀ x ∈ ours, ∀ e ∈ x.bounds, Q e) → (∀ x ∈ theirs, ∀ e ∈ x.bounds, Q e) →
      VC.unionOf parts = .ok c → BoundsAll Q c := by
    intro fuel ours theirs parts hp hf go gt qo qt hu
    obtain ⟨parts', hp', hgp⟩ := unionIntersectLoop_good fuel ours theirs [] hf go gt (by simp)
    rw [hp] at hp'; cases hp'
    exact unionOf_Q parts c hu hgp (unionIntersectLoop_Q hQ fuel ours theirs [] parts hp qo qt (by simp))
  cases a with
  | empty => simp only [VC.intersect, Except.ok.injEq] at h; subst h; exact boundsAll_empty
  | single x =>
    cases b with
    | empty => simp only [VC.intersect, Except.ok.injEq] at h; subst h; exact boundsAll_empty
    | single y =>
      exact rcIntersect_Q hQ x y c h (qa.member x (by simp [VC.flatten])) (qb.member y (by simp [VC.flatten]))
    | union rs =>
      simp only [VC.intersect, bind, Except.bind] at h
      cases hp : VC.unionIntersectLoop (rs.length + 2) rs [x] [] with
      | error e => simp [hp] at h
      | ok parts =>
        simp only [hp] at h
        exact walk _ _ _ parts hp (by simp) (fun r hr => hb r hr)
          (fun r hr => by simp at hr; subst hr; exact ha r (by simp [VC.flatten]))
          (fun r hr => qb.member r hr) (fun r hr => by simp at hr; subst hr; exact qa.member r (by simp [VC.flatten])) h
  | union rs =>
    simp only [VC.intersect, bind, Except.bind] at h
    cases hp : VC.unionIntersectLoop (rs.length + b.flatten.length + 1) rs b.flatten [] with
    | error e => simp [hp] at h
    | ok parts =>
      simp only [hp] at h
      exact walk _ _ _ parts hp (by omega) (fun r hr => ha r hr) (fun r hr => hb r hr)
        (fun r hr => qa.member r hr) (fun r hr => qb.member r hr) h

/-- member ∪ member -/
theorem rcUnion_Q (a b : RC) (c : VC) (h : RC.union a b = .ok c) (ha : a.WF ∧ a.Tidy) (hb : b.WF ∧ b.Tidy)
    (qa : ∀ e ∈ a.bounds, Q e) (qb : ∀ e ∈ b.bounds, Q e) : BoundsAll Q c := by
  obtain ⟨o, ho⟩ := rcUnionSingle_ok a b
  simp only [RC.union, ho, bind, Except.bind, pure, Except.pure] at h
  cases o with
  | some u =>
    simp only [Except.ok.injEq] at h; subst h
    intro e he
    rcases rcUnionSingle_bounds a b u ho e he with h1 | h1
    · exact qa e h1
    · exact qb e h1
  | none =>
    simp only at h
    have hg : Good [a, b] := by
      intro r hr
      simp only [List.mem_cons, List.mem_nil_iff, or_false] at hr
      rcases hr with rfl | rfl
      · exact ha
      · exact hb
    intro e he
    have := (unionOfFlat_sem _ c h hg).2.1 e he
    simp only [boundsOf, List.flatMap_cons, List.flatMap_nil, List.append_nil, List.mem_append] at this
    rcases this with h1 | h1
    · exact qa e h1
    · exact qb e h1

/-- **`a.union(b)`** -/
theorem vcUnionWith_Q (a b c : VC) (h : VC.unionWith a b = .ok c) (ha : GoodVC a) (hb : GoodVC b)
    (qa : BoundsAll Q a) (qb : BoundsAll Q b) : BoundsAll Q c := by
  have pair : VC.unionOf [a, b] = .ok c → BoundsAll Q c := fun hu =>
    unionOf_Q [a, b] c hu (by
      intro g hg
      simp only [List.mem_cons, List.mem_nil_iff, or_false] at hg
      rcases hg with rfl | rfl
      · exact ha
      · exact hb) (by
      intro g hg
      simp only [List.mem_cons, List.mem_nil_iff, or_false] at hg
      rcases hg with rfl | rfl
      · exact qa
      · exact qb)
  cases a with
  | empty => simp only [VC.unionWith, Except.ok.injEq] at h; subst h; exact qb
  | union rs => exact pair h
  | single x =>
    cases x with
    | ver v =>
      obtain ⟨bb, hbb⟩ := allows_total_bw b v hb.bw
      simp only [VC.unionWith, hbb, bind, Except.bind, pure, Except.pure] at h
      cases bb with
      | true => simp at h; subst h; exact qb
      | false =>
        simp only [Bool.false_eq_true, if_false] at h
        cases b with
        | empty => exact pair h
        | union rs => exact pair h
        | single y =>
          exact rcUnion_Q (.ver v) y c h ha.single_mem hb.single_mem (qa.member _ (by simp [VC.flatten]))
            (qb.member _ (by simp [VC.flatten]))
    | rng r =>
      cases b with
      | empty => exact pair h
      | union rs => exact pair h
      | single y =>
        exact rcUnion_Q (.rng r) y c h ha.single_mem hb.single_mem (qa.member _ (by simp [VC.flatten]))
          (qb.member _ (by simp [VC.flatten]))

end Algebra

/-! ## the closure package with the text field -/

/-- **well-formed, tidy, and every bound clean** -/
def GoodVCT (c : VC) : Prop := GoodVC c ∧ BoundsAll VClean c

theorem GoodVCT.good {c : VC} (h : GoodVCT c) : GoodVC c := h.1

theorem vclean_nextPatch (v : Version) (h : VClean v) : VClean v.stable.nextPatch :=
  (tc_nextPatch _).clean (ParserTotal.stable_nextPatch_wf v h.1)

theorem GoodVCT.empty : GoodVCT .empty := ⟨GoodVC.empty, boundsAll_empty⟩

theorem GoodVCT.any : GoodVCT VC.any :=
  ⟨GoodVC.any, by intro e he; simp [VC.any, VC.bounds, RC.bounds, RC.view, VRange.bounds, VRange.any, RC.min, RC.max] at he⟩

theorem vcIntersect_goodT (a b : VC) (ha : GoodVCT a) (hb : GoodVCT b) :
    ∃ c, VC.intersect a b = .ok c ∧ GoodVCT c := by
  obtain ⟨c, hc, hg⟩ := vcIntersect_good a b ha.1 hb.1
  exact ⟨c, hc, hg, vcIntersect_Q vclean_nextPatch a b c hc ha.1 hb.1 ha.2 hb.2⟩

theorem vcUnionWith_goodT (a b : VC) (ha : GoodVCT a) (hb : GoodVCT b) :
    ∃ c, VC.unionWith a b = .ok c ∧ GoodVCT c := by
  obtain ⟨c, hc, hg⟩ := vcUnionWith_good a b ha.1 hb.1
  exact ⟨c, hc, hg, vcUnionWith_Q a b c hc ha.1 hb.1 ha.2 hb.2⟩

theorem unionOf_goodT (gs : List VC) (h : ∀ g ∈ gs, GoodVCT g) : ∃ c, VC.unionOf gs = .ok c ∧ GoodVCT c := by
  obtain ⟨c, hc, hg⟩ := unionOf_good gs (fun g hg => (h g hg).1)
  exact ⟨c, hc, hg, unionOf_Q gs c hc (fun g hg => (h g hg).1) (fun g hg => (h g hg).2)⟩

theorem reach_goodT {c : VC} (h : Reach GoodVCT c) : GoodVCT c := by
  induction h with
  | clause hk => exact hk
  | inter _ hn hi ih =>
    obtain ⟨c', hc', hinv⟩ := vcIntersect_goodT _ _ ih hn
    rw [hc'] at hi; cases hi; exact hinv

theorem parseSingle_goodT (p : List Char) (m : Bool) (c : VC) (h : parseSingle p m = .ok c) : GoodVCT c :=
  ⟨parseSingle_good p m c h, parseSingle_clean p m c h⟩

/-- **every constraint the parser returns is well-formed, tidy, and has clean bounds** -/
theorem parsed_goodT (s : String) (m : Bool) (c : VC) (h : parseConstraintAux s m = .ok c) : GoodVCT c := by
  rcases parseConstraintAux_spec' GoodVCT s m (fun p _ c hc => parseSingle_goodT p m c hc) with
    ⟨c', hc', hsh⟩ | ⟨e, he, _⟩
  · rw [hc'] at h; cases h
    rcases hsh with rfl | hr | ⟨gs, hg, hu⟩
    · exact GoodVCT.any
    · exact reach_goodT hr
    · obtain ⟨c'', hc'', hinv⟩ := unionOf_goodT gs (fun g hgm => reach_goodT (hg g hgm))
      rw [hc''] at hu; cases hu; exact hinv
  · rw [he] at h; cases h

theorem parseConstraintAux_totalT (s : String) (m : Bool) :
    (∃ c, parseConstraintAux s m = .ok c ∧ GoodVCT c) ∨ parseConstraintAux s m = .error .value := by
  rcases parseConstraintAux_total s m with ⟨c, hc, _⟩ | hv
  · exact Or.inl ⟨c, hc, parsed_goodT s m c hc⟩
  · exact Or.inr hv

/-- **the text field**: every bound of a `GoodVCT` constraint has a text made of version characters -/
theorem GoodVCT.textOk {c : VC} (h : GoodVCT c) :
    ∀ r ∈ c.flatten, ∀ v ∈ r.bounds, ∀ ch ∈ v.text.toList, vchar ch = true :=
  fun r hr v hv => (h.2.member r hr v hv).2.2

/-- **the closure package with version-text cleanliness.**  Same fields as `VCOpsTotal`, except that
`ofVersion` asks for a CLEAN version (an arbitrary well-formed `Version` object may carry any text), plus
`textOk` (the new field), `boundClean` (its stronger form) and `good` (back to `GoodVC`). -/
structure VCOpsTotalT (P : VC → Prop) : Prop where
  empty : P .empty
  any : P VC.any
  parsed : ∀ s m c, parseConstraintAux s m = .ok c → P c
  parseTotal : ∀ s m, (∃ c, parseConstraintAux s m = .ok c ∧ P c) ∨ parseConstraintAux s m = .error .value
  inter : ∀ a b, P a → P b → ∃ c, VC.intersect a b = .ok c ∧ P c
  unionWith : ∀ a b, P a → P b → ∃ c, VC.unionWith a b = .ok c ∧ P c
  unionOf : ∀ gs, (∀ g ∈ gs, P g) → ∃ c, VC.unionOf gs = .ok c ∧ P c
  allows : ∀ c v, P c → ∃ b, VC.allows c v = .ok b
  isSimple : ∀ c, P c → ∃ b, VC.isSimple c = .ok b
  toStr : ∀ c, P c → ∃ t, VC.toStr c = .ok t
  ofVersion : ∀ v : Version, VClean v → P (.single (.ver v))
  ofParsedVersion : ∀ (t : String) (v : Version), Version.parse t = .ok v →
    (∀ ch ∈ t.toList, vchar ch = true) → P (.single (.ver v))
  good : ∀ c, P c → GoodVC c
  boundClean : ∀ c, P c → ∀ r ∈ c.flatten, ∀ v ∈ r.bounds, VClean v
  textOk : ∀ c, P c → ∀ r ∈ c.flatten, ∀ v ∈ r.bounds, ∀ ch ∈ v.text.toList, vchar ch = true

theorem goodVCT_ofVersion (v : Version) (h : VClean v) : GoodVCT (.single (.ver v)) :=
  ⟨by intro r hr; simp [VC.flatten] at hr; subst hr; exact ⟨h.1, trivial⟩, boundsAll_ver h⟩

/-- **the package for `GoodVCT`** -/
theorem vcOpsTotalT_good : VCOpsTotalT GoodVCT where
  empty := GoodVCT.empty
  any := GoodVCT.any
  parsed := parsed_goodT
  parseTotal := parseConstraintAux_totalT
  inter := vcIntersect_goodT
  unionWith := vcUnionWith_goodT
  unionOf := unionOf_goodT
  allows := fun c v h => allows_total_bw c v h.1.bw
  isSimple := fun c h => isSimple_total_bw c h.1.bw
  toStr := fun c h => toStr_total_bw c h.1.bw
  ofVersion := goodVCT_ofVersion
  ofParsedVersion := fun t v hp ht => goodVCT_ofVersion v (vclean_of_parse t v hp ht)
  good := fun c h => h.1
  boundClean := fun c h => h.2.member
  textOk := fun c h => h.textOk

/-- every `VCOpsTotalT` package restricts to a `VCOpsTotal` package on its clean part — for `GoodVCT` the
existing `vcOpsTotal_good : VCOpsTotal GoodVC` stays available through `good` -/
theorem VCOpsTotalT.toGood {P : VC → Prop} (h : VCOpsTotalT P) : ∀ c, P c → GoodVC c := h.good

end Poetry.ParserTotal
