/-
`SingleMarker("python_full_version", range)` for the two ranges of the conversion that are not simple: the
two-sided range of `python_version == "a.b"` (printed `>=a.b,<a.(b+1)`) and the union of
`python_version != "a.b"` (printed `<a.b || >=a.(b+1)`).  The marker built stores a constraint of the regular
setting that admits the interpreter exactly when the range does.
-/
import PoetryVerif.Proofs.MarkerAlgSoundPv
import PoetryVerif.Proofs.PyConvComma
import PoetryVerif.Proofs.PyConvPair
import PoetryVerif.Proofs.MarkerLeafString

set_option linter.unusedSimpArgs false
set_option linter.unusedVariables false

namespace Poetry.Marker
open Poetry Poetry.Version VParser

theorem eqv_firstDev (v : Version) (hv : PyBound v = true) : Version.eqv v.firstDevrelease v = false := by
  simp [Version.eqv, firstDev_lt_self hv]

theorem wildcardCandidate_final (mn mx : Version) (inv : Bool) (hv : PyBound mn = true) :
    isWildcardCandidate mn mx inv = false := by
  simp [isWildcardCandidate, eqv_firstDev mn hv]

/-! ### texts -/

theorem countChar_append (c : Char) (s t : String) : countChar c (s ++ t) = countChar c s + countChar c t := by
  simp [countChar, String.toList_append, List.filter_append]

/-- the text of the value group of `>=a.b,<a.(b+1)` -/
def eqValue (a b : Nat) : String := Version.relText [a, b] ++ ",<" ++ Version.relText [a, b + 1]

theorem eqValue_toList (a b : Nat) :
    (eqValue a b).toList = _root_.Poetry.relChars [a, b] ++ ',' :: '<' :: _root_.Poetry.relChars [a, b + 1] := by
  simp [eqValue, String.toList_append, _root_.Poetry.relText_toList]

theorem relChars_notSpace (l : List Nat) : ∀ c ∈ _root_.Poetry.relChars l, isSpace c = false := by
  intro c hc
  exact (noSep_rel l c hc).2.2.2

theorem eqValue_ok (a b : Nat) : valueOk (eqValue a b).toList := by
  rw [eqValue_toList]
  refine ⟨by simp, ?_⟩
  intro c hc
  simp only [List.mem_append, List.mem_cons] at hc
  rcases hc with h | rfl | rfl | h
  · exact relChars_notSpace _ c h
  · decide
  · decide
  · exact relChars_notSpace _ c h

theorem eqValue_dots (a b : Nat) : countChar '.' (eqValue a b) = 2 := by
  have h1 := countChar_relText a [b]
  have h2 := countChar_relText a [b + 1]
  simp only [List.length_cons, List.length_nil] at h1 h2
  have h3 : countChar '.' ",<" = 0 := by decide
  simp [eqValue, countChar_append, h1, h2, h3]

/-- `SingleMarker.__init__` on `>=a.b,<a.(b+1)`: operator `>=`, no padding -/
theorem leafPrepare_eqRange (a b : Nat) :
    leafPrepare "python_full_version" (">=" ++ eqValue a b) false =
      .ok { name := "python_full_version", op := ">=", value := eqValue a b, swapped := false,
            cstr := ">=" ++ eqValue a b, kind := .version true } := by
  have hv := eqValue_ok a b
  obtain ⟨d, ds, hd⟩ : ∃ d ds, (eqValue a b).toList = d :: ds := by
    cases h : (eqValue a b).toList with
    | nil => exact absurd h hv.1
    | cons d ds => exact ⟨d, ds, rfl⟩
  have hm : matchPattern1 (">=" ++ eqValue a b).toList = some (some ">=", eqValue a b) := by
    have : (">=" ++ eqValue a b).toList = '>' :: '=' :: d :: ds := by simp [String.toList_append, hd]
    rw [this, matchPattern1_ge d ds (hd ▸ hv), ← hd, String.ofList_toList]
  unfold leafPrepare
  simp only [Bool.false_eq_true, if_false, hm, Option.getD_some]
  have f1 : Gen.versionLikeMarkerNames.contains "python_full_version" = true := by decide
  have f1' : "python_full_version" ∈ Gen.versionLikeMarkerNames := by decide
  have f3 : aliasName "python_full_version" = "python_full_version" := by decide
  have f4 : ("python_full_version" != "platform_release") = true := by decide
  have g1 : (">=" == "in") = false := by decide
  have g2 : (">=" == "not in") = false := by decide
  simp [f1, f1', f3, f4, g1, g2, eqValue_dots]

/-! ### the clauses -/

theorem itemOK_ge (l : List Nat) (a : Nat) : ItemOK ('>' :: '=' :: _root_.Poetry.relChars (a :: l)) :=
  ⟨noSep_cons (sp (by simp)) (noSep_cons (sp (by simp)) (noSep_rel _)), ⟨_, _, rfl, startOK_op (by simp)⟩,
    lastOK_rel ['>', '='] a l⟩

theorem itemOK_lt (l : List Nat) (a : Nat) : ItemOK ('<' :: _root_.Poetry.relChars (a :: l)) :=
  ⟨noSep_cons (sp (by simp)) (noSep_rel _), ⟨_, _, rfl, startOK_op (by simp)⟩, lastOK_rel ['<'] a l⟩

theorem regVC_lo {B : List Version} (v : Version) (imin : Bool) (hb : PyBound v = true) (hB : v ∈ B) :
    RegVC B (.single (.rng ⟨some v, none, imin, false⟩)) :=
  regVC_of_ok (ok_lo v imin hb) (by
    intro c hc e he
    simp only [VC.flatten, List.mem_cons, List.mem_nil_iff, or_false] at hc
    subst hc
    simp [RC.bounds, RC.view, VRange.bounds, RC.min, RC.max] at he
    subst he; exact hB)

theorem regVC_hi {B : List Version} (v : Version) (imax : Bool) (hb : PyBound v = true) (hB : v ∈ B) :
    RegVC B (.single (.rng ⟨none, some v, false, imax⟩)) :=
  regVC_of_ok (ok_hi v imax hb) (by
    intro c hc e he
    simp only [VC.flatten, List.mem_cons, List.mem_nil_iff, or_false] at hc
    subst hc
    simp [RC.bounds, RC.view, VRange.bounds, RC.min, RC.max] at he
    subst he; exact hB)

/-- **`SingleMarker("python_full_version", ">=a.b,<a.(b+1)")`**: the stored constraint is of the regular setting
and admits `X.Y.Z` exactly when the range does -/
theorem mkSingle_eqRange {B : List Version} (hpb : ∀ e ∈ B, PyBound e = true) (a b : Nat)
    (h1 : finalV [a, b] ∈ B) (h2 : finalV [a, b + 1] ∈ B) (X Y Z : Nat) :
    ∃ res, mkSingle "python_full_version" (">=" ++ eqValue a b) false =
        .ok ⟨"python_full_version", ">=", eqValue a b, false, .ver res⟩ ∧ RegVC B res ∧
      res.allowsPlain (pyV X Y Z) = (gpcOf .eq a b).allowsPlain (pyV X Y Z) := by
  obtain ⟨res, hres, hreg, hex⟩ := parse_commaPair hpb X Y Z
    ('>' :: '=' :: _root_.Poetry.relChars [a, b], .single (.rng ⟨some (finalV [a, b]), none, true, false⟩))
    ('<' :: _root_.Poetry.relChars [a, b + 1], .single (.rng ⟨none, some (finalV [a, b + 1]), false, false⟩))
    ⟨itemOK_ge [b] a, _root_.Poetry.parseSingle_ge a [b] true, regVC_lo _ true (pb _) h1⟩
    ⟨itemOK_lt [b + 1] a, _root_.Poetry.parseSingle_lt a [b + 1] true, regVC_hi _ false (pb _) h2⟩
    (">=" ++ eqValue a b) (by simp [String.toList_append, eqValue_toList])
  refine ⟨res, ?_, hreg, ?_⟩
  · simp [mkSingle, leafPrepare_eqRange, bind, Except.bind, parseByKind_ver _ res hres, pure, Except.pure]
  · rw [hex, Bool.eq_iff_iff]
    simp only [gpcOf, VC.allowsPlain, VC.flatten, List.any_cons, List.any_nil, Bool.or_false, RC.allows,
      Bool.and_eq_true, allows_lo _ true (pb [a, b]), allows_hi _ false (pb [a, b + 1]),
      allows_both _ _ true false (pb [a, b]) (pb [a, b + 1])]

/-! ### the union of `python_version != "a.b"` -/

/-- the two members of the range of `python_version != "a.b"` -/
def neMembers (a b : Nat) : List RC :=
  [.rng ⟨none, some (finalV [a, b]), false, false⟩, .rng ⟨some (finalV [a, b + 1]), none, true, false⟩]

theorem gpcOf_ne (a b : Nat) : gpcOf .ne a b = .union (neMembers a b) := rfl

theorem neMembers_ok (a b : Nat) : PyVCok (.union (neMembers a b)) :=
  ok_neStar _ _ (pb _) (pb _) (lt_minor2 a b)

theorem neMembers_bounds (a b : Nat) : ∀ e ∈ boundsOf (neMembers a b), e = finalV [a, b] ∨ e = finalV [a, b + 1] := by
  intro e he
  simp [boundsOf, neMembers, RC.bounds, RC.view, VRange.bounds, RC.min, RC.max] at he
  exact he

/-- between `a.b` and `a.(b+1)`: the interpreter `a.b.1` is excluded, as is `a.b.0` -/
theorem neMembers_gap (a b c : Nat) : anyAllows (neMembers a b) (pyV a b c) = false := by
  have h1 : (VRange.mk none (some (finalV [a, b])) false false).allows (pyV a b c) = false := by
    rw [← Bool.not_eq_true, allows_hi _ false (pb [a, b])]
    simp [pad3, finalV, lex3_lt]
  have h2 : (VRange.mk (some (finalV [a, b + 1])) none true false).allows (pyV a b c) = false := by
    rw [← Bool.not_eq_true, allows_lo _ true (pb [a, b + 1])]
    simp [pad3, finalV, lex3_gt]
  simp [anyAllows, neMembers, RC.allows, h1, h2]

/-- the union of `!= "a.b"` excludes more than one version: it is not printed as `!=V` -/
theorem neMembers_excluded (a b : Nat) (v : Version) :
    VC.excludedSingleVersion (neMembers a b) ≠ .ok (some v) := by
  intro hv
  have hinv : VC.inverted (neMembers a b) = .ok (.single (.ver v)) := by
    simp only [VC.excludedSingleVersion, bind, Except.bind, pure, Except.pure] at hv
    cases h : VC.inverted (neMembers a b) with
    | error e => simp [h] at hv
    | ok res =>
      simp only [h] at hv
      split at hv
      · rename_i v'; cases hv; rfl
      · cases hv
  have hok := neMembers_ok a b
  have hpbB : ∀ e ∈ boundsOf (neMembers a b), PyBound e = true := by
    intro e he
    rcases neMembers_bounds a b e he with rfl | rfl <;> exact pb _
  have hB := regB_of_pyBound _ hpbB
  have hmr : ∀ c ∈ neMembers a b, RegMember (boundsOf (neMembers a b)) c := by
    intro c hc
    have := hok.2 c (by simpa [VC.flatten] using hc)
    refine ⟨this.1, this.2.1, this.2.2.1, ?_⟩
    intro e he
    simp only [boundsOf, List.mem_flatMap]
    exact ⟨c, hc, he⟩
  obtain ⟨huok, _⟩ := unionOK_of_reg hB (neMembers a b) hmr hok.1.2.2.1
  obtain ⟨_, hb, hsem⟩ := inverted_sem _ huok _ hinv
  have hvB := hb v (by simp [VC.bounds, RC.bounds, RC.view, VRange.bounds, RC.min])
  have hvpb : PyBound v = true := hpbB v hvB
  -- both `a.b.0` and `a.b.1` would have to be the excluded version
  have key : ∀ c, vk (pyV a b c) = vk v := by
    intro c
    have h1 := hsem (pyV a b c) (pyV_wf a b c) (regular_final _ hpbB [a, b, c])
    rw [neMembers_gap a b c] at h1
    have hva : (VC.single (.ver v)).allowsPlain (pyV a b c) = v.allows (pyV a b c) := by
      simp [VC.allowsPlain, VC.flatten, RC.allows]
    rw [hva] at h1
    exact (RC.ver_allows_iff v (pyV a b c) (PyBound_wf hvpb) (pyV_wf a b c)
      ((regular_final _ hpbB [a, b, c]).reg1 hvB)).1 (by simpa using h1)
  have h01 : vk (pyV a b 0) = vk (pyV a b 1) := (key 0).trans (key 1).symm
  rw [vk_eq_iff] at h01
  have : Version.cmp (pyV a b 0) (pyV a b 1) = .lt := by
    rw [show pyV a b 0 = finalV [a, b, 0] from rfl, show pyV a b 1 = finalV [a, b, 1] from rfl, cmp_finalV,
      sz_cmp_cons, sz_cmp_cons]
    exact sz_cmp_lt_head (by omega) _ _
  rw [this] at h01; cases h01

/-- the text of the value group of `<a.b || >=a.(b+1)` -/
def neValue (a b : Nat) : String := Version.relText [a, b] ++ " || >=" ++ Version.relText [a, b + 1]

/-- `str()` of the union of `python_version != "a.b"` -/
theorem toStr_neUnion (a b : Nat) (t : String) (h : (VC.union (neMembers a b)).toStr = .ok t) :
    t = "<" ++ neValue a b := by
  have hw : VC.excludedWildcard (neMembers a b) = none := by
    simp [VC.excludedWildcard, neMembers, RC.max, RC.min, RC.imax, RC.imin, wildcardCandidate_final _ _ true (pb [a, b + 1])]
  simp only [VC.toStr, bind, Except.bind] at h
  cases hx : VC.excludedSingleVersion (neMembers a b) with
  | error e => rw [hx] at h; cases h
  | ok o =>
    cases o with
    | some v => exact absurd hx (neMembers_excluded a b v)
    | none =>
      rw [hx] at h
      simp only [hw] at h
      simp only [neMembers, List.mapM_cons, List.mapM_nil, RC.toStr, VRange.toStr, bind, Except.bind, pure,
        Except.pure, Bool.false_eq_true, if_false, if_true, joinWith] at h
      injection h with h
      rw [← h]
      simp [neValue, finalV, String.append_assoc]
      have : (" || " : String) ++ ">=" = " || >=" := by decide
      rw [← String.append_assoc, this]

theorem matchPattern1_lt' (c : Char) (cs : List Char) (hc : c ≠ '=') (hv : valueOk' (c :: cs)) :
    matchPattern1 ('<' :: c :: cs) = some (some "<", String.ofList (c :: cs)) := by
  have hl := lowerChar_ne_eqsign c hc
  have hs := spacesThenValue?_ok' _ hv
  simp [matchPattern1, matchPattern1.tryOps, pattern1Ops, stripPrefixCI?_cons, stripPrefixCI?_nil,
    lc_eq, lc_tilde, lc_bang, lc_gt, lc_lt, hs, hl]

theorem neValue_toList (a b : Nat) :
    (neValue a b).toList = _root_.Poetry.relChars [a, b] ++ ' ' :: '|' :: '|' :: ' ' :: '>' :: '=' ::
      _root_.Poetry.relChars [a, b + 1] := by
  simp [neValue, String.toList_append, _root_.Poetry.relText_toList]

theorem neValue_dots (a b : Nat) : countChar '.' (neValue a b) = 2 := by
  have h1 := countChar_relText a [b]
  have h2 := countChar_relText a [b + 1]
  simp only [List.length_cons, List.length_nil] at h1 h2
  have h3 : countChar '.' " || >=" = 0 := by decide
  simp [neValue, countChar_append, h1, h2, h3]

/-- `SingleMarker.__init__` on `<a.b || >=a.(b+1)`: operator `<`, no padding -/
theorem leafPrepare_neUnion (a b : Nat) :
    leafPrepare "python_full_version" ("<" ++ neValue a b) false =
      .ok { name := "python_full_version", op := "<", value := neValue a b, swapped := false,
            cstr := "<" ++ neValue a b, kind := .version true } := by
  obtain ⟨d, ds, hd, hdig⟩ := relChars_head a [b]
  have hdl : (neValue a b).toList = d :: (ds ++ ' ' :: '|' :: '|' :: ' ' :: '>' :: '=' ::
      _root_.Poetry.relChars [a, b + 1]) := by
    rw [neValue_toList, hd]; simp
  have hv : valueOk' (neValue a b).toList := by
    rw [hdl]
    refine ⟨by simp, ?_, ?_⟩
    · intro c hc
      simp only [List.head?_cons, Option.some.injEq] at hc
      subst hc; exact isSpace_of_isDigit hdig
    · intro c hc
      rw [← hdl, neValue_toList] at hc
      simp only [List.mem_append, List.mem_cons] at hc
      have hr : ∀ l, c ∈ _root_.Poetry.relChars l → c ≠ '\n' := by
        intro l h e
        subst e
        have := (noSep_rel l '\n' h).2.2.2
        revert this; decide
      rcases hc with h | rfl | rfl | rfl | rfl | rfl | rfl | h
      · exact hr _ h
      all_goals first | decide | exact hr _ h
  have hne : d ≠ '=' := by intro e; subst e; exact absurd hdig (by decide)
  have hm : matchPattern1 ("<" ++ neValue a b).toList = some (some "<", neValue a b) := by
    have : ("<" ++ neValue a b).toList = '<' :: d :: (ds ++ ' ' :: '|' :: '|' :: ' ' :: '>' :: '=' ::
        _root_.Poetry.relChars [a, b + 1]) := by simp [String.toList_append, hdl]
    rw [this, matchPattern1_lt' d _ hne (hdl ▸ hv), ← hdl, String.ofList_toList]
  unfold leafPrepare
  simp only [Bool.false_eq_true, if_false, hm, Option.getD_some]
  have f1 : Gen.versionLikeMarkerNames.contains "python_full_version" = true := by decide
  have f1' : "python_full_version" ∈ Gen.versionLikeMarkerNames := by decide
  have f3 : aliasName "python_full_version" = "python_full_version" := by decide
  have f4 : ("python_full_version" != "platform_release") = true := by decide
  have g1 : ("<" == "in") = false := by decide
  have g2 : ("<" == "not in") = false := by decide
  simp [f1, f1', f3, f4, g1, g2, neValue_dots]

/-- **`SingleMarker("python_full_version", "<a.b || >=a.(b+1)")`**: the stored constraint is of the regular
setting and admits `X.Y.Z` exactly when the union does -/
theorem mkSingle_neUnion {B : List Version} (hpb : ∀ e ∈ B, PyBound e = true) (a b : Nat)
    (h1 : finalV [a, b] ∈ B) (h2 : finalV [a, b + 1] ∈ B) (X Y Z : Nat) :
    ∃ res, mkSingle "python_full_version" ("<" ++ neValue a b) false =
        .ok ⟨"python_full_version", "<", neValue a b, false, .ver res⟩ ∧ RegVC B res ∧
      res.allowsPlain (pyV X Y Z) = (gpcOf .ne a b).allowsPlain (pyV X Y Z) := by
  let q1 : List Char × VC := ('<' :: _root_.Poetry.relChars [a, b], .single (.rng ⟨none, some (finalV [a, b]), false, false⟩))
  let q2 : List Char × VC := ('>' :: '=' :: _root_.Poetry.relChars [a, b + 1],
    .single (.rng ⟨some (finalV [a, b + 1]), none, true, false⟩))
  obtain ⟨res, hres, hreg, hex, _⟩ := parse_groups hpb X Y Z [(q1, []), (q2, [])] (by simp)
    (by
      intro g hg q hq
      simp only [List.mem_cons, List.mem_nil_iff, or_false] at hg
      rcases hg with rfl | rfl
      · simp only [Grp.items, List.mem_cons, List.mem_nil_iff, or_false] at hq
        subst hq
        exact ⟨itemOK_lt [b] a, _root_.Poetry.parseSingle_lt a [b] true, regVC_hi _ false (pb _) h1⟩
      · simp only [Grp.items, List.mem_cons, List.mem_nil_iff, or_false] at hq
        subst hq
        exact ⟨itemOK_ge [b + 1] a, _root_.Poetry.parseSingle_ge a [b + 1] true, regVC_lo _ true (pb _) h2⟩)
    (by
      intro g hg q hq
      simp only [List.mem_cons, List.mem_nil_iff, or_false] at hg
      rcases hg with rfl | rfl <;>
        (simp only [Grp.items, List.mem_cons, List.mem_nil_iff, or_false] at hq; subst hq; simp [q1, q2]))
    ("<" ++ neValue a b)
    (by simp [String.toList_append, neValue_toList, orJoin, Grp.chars, Grp.items, spJoin, q1, q2])
  refine ⟨res, ?_, hreg, ?_⟩
  · simp [mkSingle, leafPrepare_neUnion, bind, Except.bind,
      parseByKind_ver _ res (by simpa [parseMarkerVersionConstraint] using hres), pure, Except.pure]
  · rw [hex]
    simp [gpcOf, VC.allowsPlain, VC.flatten, Grp.items, q1, q2]

/-! ### the constructor fact for the two shapes -/

theorem toStr_eqRange (a b : Nat) : (gpcOf .eq a b).toStr = .ok (">=" ++ eqValue a b) := by
  have hw : VRange.isSingleWildcardRange ⟨some (finalV [a, b]), some (finalV [a, b + 1]), true, false⟩ = false := by
    simp [VRange.isSingleWildcardRange, wildcardCandidate_final _ _ false (pb [a, b])]
  simp only [gpcOf, VC.toStr, RC.toStr, VRange.toStr, hw, Bool.false_eq_true, if_false, if_true]
  simp [eqValue, finalV, String.append_assoc]

/-- **`SingleMarker("python_full_version", range)` for the range of `python_version == "a.b"`** -/
theorem mkSingleOfC_eqRange {B : List Version} (hpb : ∀ e ∈ B, PyBound e = true) (a b : Nat)
    (h1 : finalV [a, b] ∈ B) (h2 : finalV [a, b + 1] ∈ B) (X Y Z : Nat) (nm : Single)
    (h : mkSingleOfC "python_full_version" (.ver (gpcOf .eq a b)) = .ok nm) :
    VerLeaf B "python_full_version" (.single nm) ∧
      ∀ vc, nm.c = .ver vc → vc.allowsPlain (pyV X Y Z) = (gpcOf .eq a b).allowsPlain (pyV X Y Z) := by
  obtain ⟨res, hmk, hreg, hex⟩ := mkSingle_eqRange hpb a b h1 h2 X Y Z
  simp only [mkSingleOfC, LeafC.toStr, toStr_eqRange, bind, Except.bind, hmk] at h
  cases h
  refine ⟨⟨rfl, ?_, res, rfl, hreg.1, hreg.2⟩, fun vc hvc => by cases hvc; exact hex⟩
  simp only [Single.coherent, itemConstraintString, Bool.false_eq_true, if_false, hmk]
  simp

/-- **`SingleMarker("python_full_version", union)` for the union of `python_version != "a.b"`** -/
theorem mkSingleOfC_neUnion {B : List Version} (hpb : ∀ e ∈ B, PyBound e = true) (a b : Nat)
    (h1 : finalV [a, b] ∈ B) (h2 : finalV [a, b + 1] ∈ B) (X Y Z : Nat) (nm : Single)
    (h : mkSingleOfC "python_full_version" (.ver (gpcOf .ne a b)) = .ok nm) :
    VerLeaf B "python_full_version" (.single nm) ∧
      ∀ vc, nm.c = .ver vc → vc.allowsPlain (pyV X Y Z) = (gpcOf .ne a b).allowsPlain (pyV X Y Z) := by
  obtain ⟨res, hmk, hreg, hex⟩ := mkSingle_neUnion hpb a b h1 h2 X Y Z
  simp only [mkSingleOfC, LeafC.toStr, bind, Except.bind] at h
  cases ht : (gpcOf .ne a b).toStr with
  | error e => rw [ht] at h; cases h
  | ok t =>
    rw [ht] at h
    have := toStr_neUnion a b t (by rw [← gpcOf_ne]; exact ht)
    subst this
    simp only [hmk] at h
    cases h
    refine ⟨⟨rfl, ?_, res, rfl, hreg.1, hreg.2⟩, fun vc hvc => by cases hvc; exact hex⟩
    simp only [Single.coherent, itemConstraintString, Bool.false_eq_true, if_false, hmk]
    simp

end Poetry.Marker
