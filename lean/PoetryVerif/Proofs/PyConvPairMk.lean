/-
`SingleMarker("python_full_version", range)` for the two ranges of the conversion that are not simple: the
two-sided range of `python_version == "a.b"` (printed `>=a.b,<a.(b+1)`) and the union of
`python_version != "a.b"` (printed `<a.b || >=a.(b+1)`).  The marker built stores a constraint of the regular
setting that admits the interpreter exactly when the range does.
-/
import PoetryVerif.Proofs.MarkerAlgSoundPv
import PoetryVerif.Proofs.PyConvComma
import PoetryVerif.Proofs.PyConvPair

set_option linter.unusedSimpArgs false
set_option linter.unusedVariables false

namespace Poetry.Marker
open Poetry Poetry.Version VParser

theorem eqv_firstDev (v : Version) (hv : PyBound v = true) : Version.eqv v.firstDevrelease v = false := by
  simp [Version.eqv, firstDev_lt_self hv]

theorem wildcardCandidate_final (mn mx : Version) (inv : Bool) (hv : PyBound mn = true) :
    isWildcardCandidate mn mx inv = false := by
  simp [isWildcardCandidate, eqv_firstDev mn hv]

/-! ### texts -/

theorem countChar_append (c : Char) (s t : String) : countChar c (s ++ t) = countChar c s + countChar c t := by
  simp [countChar, String.toList_append, List.filter_append]

/-- the text of the value group of `>=a.b,<a.(b+1)` -/
def eqValue (a b : Nat) : String := Version.relText [a, b] ++ ",<" ++ Version.relText [a, b + 1]

theorem eqValue_toList (a b : Nat) :
    (eqValue a b).toList = _root_.Poetry.relChars [a, b] ++ ',' :: '<' :: _root_.Poetry.relChars [a, b + 1] := by
  simp [eqValue, String.toList_append, _root_.Poetry.relText_toList]

theorem relChars_notSpace (l : List Nat) : ∀ c ∈ _root_.Poetry.relChars l, isSpace c = false := by
  intro c hc
  exact (noSep_rel l c hc).2.2.2

theorem eqValue_ok (a b : Nat) : valueOk (eqValue a b).toList := by
  rw [eqValue_toList]
  refine ⟨by simp, ?_⟩
  intro c hc
  simp only [List.mem_append, List.mem_cons] at hc
  rcases hc with h | rfl | rfl | h
  · exact relChars_notSpace _ c h
  · decide
  · decide
  · exact relChars_notSpace _ c h

theorem eqValue_dots (a b : Nat) : countChar '.' (eqValue a b) = 2 := by
  have h1 := countChar_relText a [b]
  have h2 := countChar_relText a [b + 1]
  simp only [List.length_cons, List.length_nil] at h1 h2
  have h3 : countChar '.' ",<" = 0 := by decide
  simp [eqValue, countChar_append, h1, h2, h3]

/-- `SingleMarker.__init__` on `>=a.b,<a.(b+1)`: operator `>=`, no padding -/
theorem leafPrepare_eqRange (a b : Nat) :
    leafPrepare "python_full_version" (">=" ++ eqValue a b) false =
      .ok { name := "python_full_version", op := ">=", value := eqValue a b, swapped := false,
            cstr := ">=" ++ eqValue a b, kind := .version true } := by
  have hv := eqValue_ok a b
  obtain ⟨d, ds, hd⟩ : ∃ d ds, (eqValue a b).toList = d :: ds := by
    cases h : (eqValue a b).toList with
    | nil => exact absurd h hv.1
    | cons d ds => exact ⟨d, ds, rfl⟩
  have hm : matchPattern1 (">=" ++ eqValue a b).toList = some (some ">=", eqValue a b) := by
    have : (">=" ++ eqValue a b).toList = '>' :: '=' :: d :: ds := by simp [String.toList_append, hd]
    rw [this, matchPattern1_ge d ds (hd ▸ hv), ← hd, String.ofList_toList]
  unfold leafPrepare
  simp only [Bool.false_eq_true, if_false, hm, Option.getD_some]
  have f1 : Gen.versionLikeMarkerNames.contains "python_full_version" = true := by decide
  have f1' : "python_full_version" ∈ Gen.versionLikeMarkerNames := by decide
  have f3 : aliasName "python_full_version" = "python_full_version" := by decide
  have f4 : ("python_full_version" != "platform_release") = true := by decide
  have g1 : (">=" == "in") = false := by decide
  have g2 : (">=" == "not in") = false := by decide
  simp [f1, f1', f3, f4, g1, g2, eqValue_dots]

end Poetry.Marker
