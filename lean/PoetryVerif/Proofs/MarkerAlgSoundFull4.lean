/-
The full domain with all four operators on the string variables: `==` / `!=` / `"v" in name` / `"v" not in name`
leaves (the `not in` values pairwise comparable by containment), `extra`, and the python leaves with `~=`.
-/
import PoetryVerif.Proofs.MarkerAlgSoundStr4
import PoetryVerif.Proofs.MarkerAlgSoundPrC

set_option linter.unusedSimpArgs false
set_option linter.unusedVariables false

namespace Poetry.Marker
open Poetry Poetry.Generic

def Plain4Leaf (C : String → Prop) (E : Env) (l : Leaf) : Prop := Str4Leaf C E l ∨ XLeafW PlainValue l

theorem str4Leaf_name {C : String → Prop} {E : Env} {l : Leaf} (h : Str4Leaf C E l) : l.name ∈ plainStringVars :=
  (str4Leaf_view h).2.2.1

theorem leafSpec_plain4 {C : String → Prop} (hC : ∀ u v, C u → C v → strIn u v = true ∨ strIn v u = true)
    {E : Env} {ex : List String} (hX : E.extras = some ex) : LeafSpec (leafEval E) (Plain4Leaf C E) := by
  refine LeafSpec.or (leafSpec_str4 hC E) (leafSpec_extraPlain hX) ?_
  intro a b ha hb
  obtain ⟨hx, hp, _⟩ := str4Leaf_view ha
  have hb' := xLeaf_name hb.1
  obtain ⟨p1, p2⟩ := isPyName_false hp
  refine ⟨?_, ?_, ?_⟩
  · rw [hb']; simpa using hx
  · simp [pyPair, p1, p2]
  · simp [pyPair, p1, p2]

theorem plain4Leaf_name {C : String → Prop} {E : Env} {l : Leaf} (h : Plain4Leaf C E l) :
    l.name = "extra" ∨ l.name ∈ plainStringVars := by
  rcases h with h | h
  · exact Or.inr (str4Leaf_name h)
  · exact Or.inl (xLeaf_name h.1)

theorem plain4Leaf_evaluable {C : String → Prop} {E : Env} {ex : List String} (hX : E.extras = some ex) {l : Leaf}
    (h : Plain4Leaf C E l) : ∃ b, l.validate E = .ok b := by
  rcases h with h | h
  · exact str4Leaf_evaluable h
  · exact xLeaf_evaluable mkExtraOKW_plain hX h

/-- strings with the four operators, `extra`, the python leaves with `~=`, `platform_release` over `B` -/
def FullLeaf4 (C : String → Prop) (B : List Version) (E : Env) (l : Leaf) : Prop :=
  (Plain4Leaf C E l ∨ PyLeafC l) ∨ VerLeaf B "platform_release" l

theorem leafSpec_full4 {C : String → Prop} (hC : ∀ u v, C u → C v → strIn u v = true ∨ strIn v u = true)
    {B : List Version} (hpb : ∀ e ∈ B, PyBound e = true) {E : Env} {ex : List String}
    (hX : E.extras = some ex) {X Y Z : Nat} (hE : EnvPy E X Y Z) {P : Nat} {Q : List Nat}
    (hP : E.get? "platform_release" = some (Version.relText (P :: Q)))
    (HP : PairSound (leafEval E) PvLeafC Pfv3LeafC) : LeafSpec (leafEval E) (FullLeaf4 C B E) := by
  have S1 : LeafSpec (leafEval E) (fun l => Plain4Leaf C E l ∨ PyLeafC l) := by
    refine LeafSpec.or (leafSpec_plain4 hC hX) (leafSpec_pyC hE HP) ?_
    intro a b ha hb
    have hb' := pyLeafC_name hb
    rcases plain4Leaf_name ha with h | h
    · rcases hb' with hb' | hb' <;> (rw [pyPair, pyPair, h, hb']; decide)
    · simp only [plainStringVars, List.mem_cons, List.mem_nil_iff, or_false] at h
      rcases hb' with hb' | hb' <;>
        rcases h with h | h | h | h | h | h | h <;> (rw [pyPair, pyPair, h, hb']; decide)
  refine LeafSpec.or S1 (leafSpec_pr hpb hP) ?_
  intro a b ha hb
  have hb' := verLeaf_name hb
  have ha' : a.name = "extra" ∨ a.name ∈ plainStringVars ∨ a.name = "python_version" ∨
      a.name = "python_full_version" := by
    rcases ha with ha | ha
    · rcases plain4Leaf_name ha with h | h
      · exact Or.inl h
      · exact Or.inr (Or.inl h)
    · rcases pyLeafC_name ha with h | h
      · exact Or.inr (Or.inr (Or.inl h))
      · exact Or.inr (Or.inr (Or.inr h))
  rcases ha' with h | h | h | h
  · rw [pyPair, pyPair, h, hb']; decide
  · simp only [plainStringVars, List.mem_cons, List.mem_nil_iff, or_false] at h
    rcases h with h | h | h | h | h | h | h <;> (rw [pyPair, pyPair, h, hb']; decide)
  · rw [pyPair, pyPair, h, hb']; decide
  · rw [pyPair, pyPair, h, hb']; decide

theorem fullLeaf4_evaluable {C : String → Prop} {B : List Version} (hpb : ∀ e ∈ B, PyBound e = true) {E : Env}
    {ex : List String} (hX : E.extras = some ex) {X Y Z : Nat} (hE : EnvPy E X Y Z) {P : Nat} {Q : List Nat}
    (hP : E.get? "platform_release" = some (Version.relText (P :: Q))) {l : Leaf} (h : FullLeaf4 C B E l) :
    ∃ b, l.validate E = .ok b := by
  rcases h with (h | h) | h
  · exact plain4Leaf_evaluable hX h
  · exact pyLeafC_evaluable hE h
  · exact verLeaf_evaluable (regB_of_pyBound B hpb) (verEnv_pr hpb P Q hP) (by decide) h

end Poetry.Marker
