/-
C18 helper lemmas, part 4: `PackageSpecification.__eq__` (`Dep.Spec.beq`): reflexive, symmetric, transitive when
references are compared exactly; hash coherence for normalised source fields.
-/
import PoetryVerif.Model.EqHash
import PoetryVerif.Proofs.EqHash

set_option linter.unusedSimpArgs false
set_option linter.unusedVariables false

namespace Poetry.EqHash
open Poetry Poetry.Dep

/-- "both falsy, or equal" — how `is_same_source_as` compares `source_url` and `source_subdirectory` -/
def falsyEq (x y : Option String) : Prop := (truthy x = false ∧ truthy y = false) ∨ x = y

theorem falsyEq_trans {x y z : Option String} (h1 : falsyEq x y) (h2 : falsyEq y z) : falsyEq x z := by
  unfold falsyEq at *
  rcases h1 with ⟨a, b⟩ | rfl
  · rcases h2 with ⟨c, d⟩ | rfl
    · exact Or.inl ⟨a, d⟩
    · exact Or.inl ⟨a, b⟩
  · exact h2

theorem falsyEq_iff (x y : Option String) :
    ((truthy x || truthy y) && x != y) = false ↔ falsyEq x y := by
  unfold falsyEq
  cases hx : truthy x <;> cases hy : truthy y <;> simp

/-- references without resolved references: both falsy, or both truthy and equal up to prefix -/
def refOk (x y : Option String) : Bool :=
  if truthy x || truthy y then
    (truthy x && truthy y) &&
      (x.getD "" == y.getD "" || startsWithS (y.getD "") (x.getD "") || startsWithS (x.getD "") (y.getD ""))
  else true

/-- `is_same_source_as` when neither side has a resolved reference -/
theorem isSameSourceAs_noResolved (a b : Spec) (ha : truthy a.sourceResolvedReference = false)
    (hb : truthy b.sourceResolvedReference = false) :
    a.isSameSourceAs b = true ↔
      a.sourceType = b.sourceType ∧ (truthy a.sourceType = false ∨
        (falsyEq a.sourceUrl b.sourceUrl ∧ falsyEq a.sourceSubdirectory b.sourceSubdirectory ∧
          refOk a.sourceReference b.sourceReference = true)) := by
  unfold Spec.isSameSourceAs refOk
  rw [← falsyEq_iff, ← falsyEq_iff]
  simp only [ha, hb, Bool.false_and, Bool.and_false]
  by_cases ht : a.sourceType = b.sourceType
  · simp only [ht, bne_self_eq_false, Bool.false_eq_true, if_false, true_and]
    cases htt : truthy b.sourceType
    · simp
    · simp only [Bool.not_true, Bool.false_eq_true, if_false, false_or]
      cases hu : ((truthy a.sourceUrl || truthy b.sourceUrl) && a.sourceUrl != b.sourceUrl)
      · cases hs : ((truthy a.sourceSubdirectory || truthy b.sourceSubdirectory) && a.sourceSubdirectory != b.sourceSubdirectory)
        · simp only [Bool.false_eq_true, if_false, true_and]
          cases h1 : truthy a.sourceReference <;> cases h2 : truthy b.sourceReference <;> simp
        · simp
      · simp
  · have : (a.sourceType != b.sourceType) = true := by simpa using ht
    simp [this, ht]

theorem refOk_refl (x : Option String) : refOk x x = true := by
  unfold refOk; cases truthy x <;> simp

theorem refOk_symm {x y : Option String} (h : refOk x y = true) : refOk y x = true := by
  unfold refOk at *
  cases hx : truthy x <;> cases hy : truthy y <;> simp_all
  rcases h with (h | h) | h
  · exact Or.inl (Or.inl h.symm)
  · exact Or.inr h
  · exact Or.inl (Or.inr h)

theorem refOk_trans {x y z : Option String}
    (hp : ∀ p ∈ [x, y, z], ∀ q ∈ [x, y, z], startsWithS (p.getD "") (q.getD "") = true → p.getD "" = q.getD "")
    (h1 : refOk x y = true) (h2 : refOk y z = true) : refOk x z = true := by
  have pxy := hp x (by simp) y (by simp)
  have pyx := hp y (by simp) x (by simp)
  have pyz := hp y (by simp) z (by simp)
  have pzy := hp z (by simp) y (by simp)
  clear hp
  unfold refOk at *
  cases hx : truthy x <;> cases hy : truthy y <;> cases hz : truthy z <;>
    simp only [hx, hy, hz, Bool.or_false, Bool.or_true, Bool.false_or, Bool.true_or, Bool.and_true, Bool.true_and,
      Bool.false_and, Bool.and_false, if_true, if_false, Bool.false_eq_true, Bool.or_eq_true, beq_iff_eq] at h1 h2 ⊢ <;>
    try trivial
  have exy : x.getD "" = y.getD "" := by
    rcases h1 with (h | h) | h
    · exact h
    · exact (pyx h).symm
    · exact pxy h
  have eyz : y.getD "" = z.getD "" := by
    rcases h2 with (h | h) | h
    · exact h
    · exact (pzy h).symm
    · exact pyz h
  exact Or.inl (Or.inl (exy.trans eyz))

theorem falsyEq_refl (x : Option String) : falsyEq x x := Or.inr rfl
theorem falsyEq_symm {x y : Option String} (h : falsyEq x y) : falsyEq y x := by
  rcases h with ⟨a, b⟩ | h
  · exact Or.inl ⟨b, a⟩
  · exact Or.inr h.symm

/-! ### reflexive and symmetric without any guard -/

theorem isSameSourceAs_refl (a : Spec) : a.isSameSourceAs a = true := by
  unfold Spec.isSameSourceAs
  cases truthy a.sourceType <;> cases truthy a.sourceUrl <;> cases truthy a.sourceSubdirectory <;>
    cases truthy a.sourceResolvedReference <;> cases truthy a.sourceReference <;> simp

theorem startsWith_or_comm (p q : String) :
    (p == q || startsWithS q p || startsWithS p q) = (q == p || startsWithS p q || startsWithS q p) := by
  rw [BEq.comm (a := p)]; cases (q == p) <;> cases startsWithS p q <;> cases startsWithS q p <;> rfl

theorem isSameSourceAs_symm (a b : Spec) : a.isSameSourceAs b = b.isSameSourceAs a := by
  unfold Spec.isSameSourceAs
  dsimp only
  rw [bne_comm (a := a.sourceType), bne_comm (a := a.sourceUrl), bne_comm (a := a.sourceSubdirectory),
    BEq.comm (a := a.sourceResolvedReference), bne_comm (a := a.sourceResolvedReference),
    startsWith_or_comm (a.sourceReference.getD "") (b.sourceReference.getD "")]
  by_cases ht : b.sourceType = a.sourceType
  · rw [ht]
    simp only [Bool.or_comm (truthy a.sourceUrl), Bool.or_comm (truthy a.sourceSubdirectory),
      Bool.or_comm (truthy a.sourceReference), Bool.and_comm (truthy a.sourceResolvedReference),
      Bool.and_comm (truthy a.sourceReference)]
  · have : (b.sourceType != a.sourceType) = true := by simpa using ht
    simp [this]

theorem spec_beq_refl (a : Spec) : a.beq a = true := by
  simp [Spec.beq, Spec.isSamePackageAs, isSameSourceAs_refl]

theorem spec_beq_symm {a b : Spec} (h : a.beq b = true) : b.beq a = true := by
  unfold Spec.beq Spec.isSamePackageAs at *
  by_cases hn : b.completeName = a.completeName
  · simp only [hn, bne_self_eq_false, Bool.false_eq_true, if_false] at h ⊢
    rw [← isSameSourceAs_symm]; exact h
  · have : (b.completeName != a.completeName) = true := by simpa using hn
    simp [this] at h

theorem spec_beq_iff (a b : Spec) : a.beq b = true ↔ b.completeName = a.completeName ∧ a.isSameSourceAs b = true := by
  unfold Spec.beq Spec.isSamePackageAs
  by_cases hn : b.completeName = a.completeName
  · simp [hn]
  · have : (b.completeName != a.completeName) = true := by simpa using hn
    simp [this, hn]

/-- **transitive when references are compared exactly** (no reference a proper prefix of another, no resolved
references) -/
theorem spec_beq_trans {a b c : Spec} (hg : refsExact [a, b, c]) (h1 : a.beq b = true) (h2 : b.beq c = true) :
    a.beq c = true := by
  obtain ⟨hres, hpre⟩ := hg
  have ra := hres a (by simp); have rb := hres b (by simp); have rc := hres c (by simp)
  rw [spec_beq_iff] at h1 h2 ⊢
  rw [isSameSourceAs_noResolved a b ra rb] at h1
  rw [isSameSourceAs_noResolved b c rb rc] at h2
  rw [isSameSourceAs_noResolved a c ra rc]
  obtain ⟨n1, t1, s1⟩ := h1
  obtain ⟨n2, t2, s2⟩ := h2
  refine ⟨n2.trans n1, t1.trans t2, ?_⟩
  rcases s1 with s1 | ⟨u1, d1, r1⟩
  · exact Or.inl s1
  · rcases s2 with s2 | ⟨u2, d2, r2⟩
    · exact Or.inl (by rw [t1]; exact s2)
    · refine Or.inr ⟨falsyEq_trans u1 u2, falsyEq_trans d1 d2, refOk_trans ?_ r1 r2⟩
      intro p hp q hq hs
      simp only [List.mem_cons, List.mem_nil_iff, or_false] at hp hq
      rcases hp with rfl | rfl | rfl <;> rcases hq with rfl | rfl | rfl <;>
        first | exact hpre _ (by simp) _ (by simp) hs

theorem orNone_eq_of_falsyEq {x y : Option String} (h : falsyEq x y) : orNone x = orNone y := by
  rcases h with ⟨p, q⟩ | rfl
  · simp [orNone, p, q]
  · rfl

/-- **equal specifications hash alike** -/
theorem specHash_eq {a b : Spec} (h : a.beq b = true) : specHash a = specHash b := by
  rw [spec_beq_iff] at h
  obtain ⟨hn, hs⟩ := h
  unfold specHash
  unfold Spec.isSameSourceAs at hs
  by_cases ht : a.sourceType = b.sourceType
  · simp only [ht, bne_self_eq_false, Bool.false_eq_true, if_false] at hs
    rw [ht, hn]
    cases htt : truthy b.sourceType
    · simp
    · simp only [htt, Bool.not_true, Bool.false_eq_true, if_false] at hs
      simp only [if_true]
      cases hu : ((truthy a.sourceUrl || truthy b.sourceUrl) && a.sourceUrl != b.sourceUrl)
      · cases hd : ((truthy a.sourceSubdirectory || truthy b.sourceSubdirectory) && a.sourceSubdirectory != b.sourceSubdirectory)
        · rw [orNone_eq_of_falsyEq ((falsyEq_iff _ _).1 hu), orNone_eq_of_falsyEq ((falsyEq_iff _ _).1 hd)]
        · simp [hu, hd] at hs
      · simp [hu] at hs
  · have : (a.sourceType != b.sourceType) = true := by simpa using ht
    simp [this] at hs

end Poetry.EqHash

namespace Poetry.EqHash
open Poetry Poetry.Dep

/-! ### dependencies -/

theorem dep_rcListEqv_eq : ∀ as bs : List RC, Poetry.Dep.rcListEqv as bs = Poetry.EqHash.rcListEqv as bs
  | [], [] => rfl
  | [], _ :: _ => by simp [Poetry.Dep.rcListEqv, Poetry.EqHash.rcListEqv]
  | _ :: _, [] => by simp [Poetry.Dep.rcListEqv, Poetry.EqHash.rcListEqv]
  | a :: as, b :: bs => by rw [Poetry.Dep.rcListEqv, Poetry.EqHash.rcListEqv_cons, dep_rcListEqv_eq as bs]

/-- the dependency model's `constraint == other.constraint` is the `==` of version constraints -/
theorem vcEq_eq (a b : VC) : Dep.vcEq a b = Marker.VC.eqv a b := by
  cases a <;> cases b <;> simp [Dep.vcEq, Marker.VC.eqv, VC.isEmpty]
  rename_i as bs
  have := dep_rcListEqv_eq as bs
  simp only [Poetry.EqHash.rcListEqv] at this
  rw [this]

theorem isDirectOrigin_congr {a b : Spec} (h : a.sourceType = b.sourceType) : a.isDirectOrigin = b.isDirectOrigin := by
  unfold Spec.isDirectOrigin; rw [h]

theorem sourceType_of_beq {a b : Spec} (h : a.beq b = true) : a.sourceType = b.sourceType := by
  rw [spec_beq_iff] at h
  have hs := h.2
  unfold Spec.isSameSourceAs at hs
  by_cases ht : a.sourceType = b.sourceType
  · exact ht
  · have : (a.sourceType != b.sourceType) = true := by simpa using ht
    simp [this] at hs

theorem dep_beq_refl (d : Dep.Dep) : d.beq d = true := by
  simp [Dep.beq, spec_beq_refl, vcEq_eq, vc_eqv_refl]

theorem dep_beq_symm {a b : Dep.Dep} (ha : vcNonDegenerate a.constraint = true) (hb : vcNonDegenerate b.constraint = true)
    (h : a.beq b = true) : b.beq a = true := by
  simp only [Dep.beq, Bool.and_eq_true, Bool.or_eq_true, vcEq_eq] at h ⊢
  refine ⟨spec_beq_symm h.1, ?_⟩
  rcases h.2 with h2 | h2
  · exact Or.inl (vc_eqv_symm ha hb h2)
  · exact Or.inr (by rw [← isDirectOrigin_congr (sourceType_of_beq h.1)]; exact h2)

theorem dep_beq_trans {a b c : Dep.Dep} (hg : refsExact [a.spec, b.spec, c.spec])
    (ha : vcNonDegenerate a.constraint = true) (hb : vcNonDegenerate b.constraint = true)
    (hc : vcNonDegenerate c.constraint = true) (h1 : a.beq b = true) (h2 : b.beq c = true) : a.beq c = true := by
  simp only [Dep.beq, Bool.and_eq_true, Bool.or_eq_true, vcEq_eq] at h1 h2 ⊢
  refine ⟨spec_beq_trans hg h1.1 h2.1, ?_⟩
  rcases h1.2 with e1 | d1
  · rcases h2.2 with e2 | d2
    · exact Or.inl (vc_eqv_trans ha hb hc e1 e2)
    · exact Or.inr (by rw [isDirectOrigin_congr (sourceType_of_beq h1.1)]; exact d2)
  · exact Or.inr d1

end Poetry.EqHash
