/-
Text level of the constraint round trip (helper lemmas for C15): ANY range the printer spells `==X.*` (not only
the ones `parse_constraint` builds for wildcard clauses) is read back as a range admitting the same versions, on
EVERY probe — what `_is_wildcard_candidate` checks is exactly what makes `[X.dev0, next(X).dev0)` equal, end by end,
to the printed range.
-/
import PoetryVerif.Proofs.VRangeTextW
import PoetryVerif.Proofs.VRangeSharp

set_option linter.unusedSimpArgs false
set_option linter.unusedVariables false
set_option linter.unnecessarySeqFocus false

namespace Poetry
open Poetry.Marker
open Version

/-! ### release numbers: padding, trailing zeros -/

theorem stripZeros_append_replicate (l : List Nat) (k : Nat) : stripZeros (l ++ List.replicate k 0) = stripZeros l := by
  induction l with
  | nil =>
    have := stripZeros_zeros k
    simpa [zeros, stripZeros] using this
  | cons a l ih => simp [stripZeros, ih]

theorem allZero_eq_replicate : ∀ l : List Nat, (∀ x ∈ l, x = 0) → l = List.replicate l.length 0
  | [], _ => rfl
  | a :: l, h => by
    have ha : a = 0 := h a (by simp)
    subst ha
    rw [List.length_cons, List.replicate_succ, ← allZero_eq_replicate l (fun x hx => h x (List.mem_cons_of_mem _ hx))]

theorem stripZeros_take (l : List Nat) (n : Nat) (h : ∀ x ∈ l.drop n, x = 0) :
    stripZeros l = stripZeros (l.take n) := by
  conv => lhs; rw [← List.take_append_drop n l]
  rw [allZero_eq_replicate _ h, stripZeros_append_replicate]

theorem stripZeros_idem (l : List Nat) : stripZeros (stripZeros l) = stripZeros l := by
  induction l with
  | nil => rfl
  | cons a l ih =>
    rw [stripZeros_cons]
    split
    · rfl
    · rename_i h
      rw [stripZeros_cons, ih]
      simp only [h, if_false]

theorem stripZeros_last_ne_zero : ∀ (l : List Nat) (x : Nat), (stripZeros l).getLast? = some x → x ≠ 0
  | [], x, h => by simp [stripZeros] at h
  | a :: l, x, h => by
    rw [stripZeros_cons] at h
    split at h
    · simp at h
    · rename_i hc
      cases hs : stripZeros l with
      | nil =>
        rw [hs] at h hc
        simp at h hc
        subst h; exact hc
      | cons b bs =>
        rw [hs] at h
        rw [List.getLast?_cons_cons] at h
        exact stripZeros_last_ne_zero l x (by rw [hs]; exact h)

/-! ### what `_is_wildcard_candidate` says -/

theorem wildcardCandidate_facts (mn mx : Version) (h : isWildcardCandidate mn mx false = true)
    (hnp : mn.isPostrelease = false) :
    mn.epoch = mx.epoch ∧ mn.isLocal = false ∧ mx.isLocal = false ∧ mn.isPrerelease = false ∧
    mx.isPrerelease = false ∧ mx.isPostrelease = false ∧ Version.eqv mn.firstDevrelease mn = true ∧
    (mx.isDevrelease = true → Version.eqv mx.firstDevrelease mx = true) ∧
    ∃ l, (stripZeros mx.release).getLast? = some l ∧ l ≠ 0 ∧
      stripZeros mn.release = stripZeros ((stripZeros mx.release).dropLast ++ [l - 1]) := by
  unfold isWildcardCandidate at h
  by_cases hg : (mn.epoch != mx.epoch || mn.isLocal || mx.isLocal || mn.isPrerelease || mx.isPrerelease
      || (mn.isPostrelease != mx.isPostrelease) || !(Version.eqv mn.firstDevrelease mn)
      || (mx.isDevrelease && !(Version.eqv mx.firstDevrelease mx))) = true
  · rw [if_pos hg] at h; cases h
  · rw [if_neg hg] at h
    simp only [Bool.or_eq_true, not_or, Bool.not_eq_true, bne_eq_false_iff_eq, Bool.and_eq_false_iff,
      Bool.not_eq_false'] at hg
    obtain ⟨⟨⟨⟨⟨⟨⟨g1, g2⟩, g3⟩, g4⟩, g5⟩, g6⟩, g7⟩, g8⟩ := hg
    have g6' : mx.isPostrelease = false := by rw [← g6]; exact hnp
    simp only [Bool.false_eq_true, if_false, hnp] at h
    generalize hP : stripZeros mx.release = P at h ⊢
    by_cases hPe : P.isEmpty = true
    · simp [hPe] at h
    · simp only [hPe, Bool.false_eq_true, if_false] at h
      generalize hpf0 : mn.release ++ zeros (P.length - mn.release.length) = pf0 at h
      by_cases hex : (!(pf0.drop P.length).all (· == 0)) = true
      · simp [hex] at h
      · simp only [hex, Bool.false_eq_true, if_false, Bool.and_eq_true, beq_iff_eq] at h
        obtain ⟨hd, hl⟩ := h
        simp only [Bool.not_eq_true', Bool.not_eq_false, List.all_eq_true, beq_iff_eq] at hex
        have hex' : ∀ x ∈ pf0.drop P.length, x = 0 := by
          intro x hx; have := hex x hx; simpa using this
        -- the last numbers
        cases hpl : (pf0.take P.length).getLast? with
        | none => rw [hpl] at hl; simp at hl
        | some a =>
          cases hPl : P.getLast? with
          | none => rw [hpl, hPl] at hl; simp at hl
          | some l =>
            rw [hpl, hPl] at hl
            simp only [beq_iff_eq] at hl
            have hl0 : l ≠ 0 := stripZeros_last_ne_zero mx.release l (by rw [hP]; exact hPl)
            refine ⟨g1, g2, g3, g4, g5, g6', by simpa using g7, ?_, l, rfl, hl0, ?_⟩
            · intro hdv
              rcases g8 with h8 | h8
              · rw [hdv] at h8; cases h8
              · exact h8
            · have e1 : stripZeros mn.release = stripZeros pf0 := by
                rw [← hpf0, zeros, stripZeros_append_replicate]
              have e2 : stripZeros pf0 = stripZeros (pf0.take P.length) := stripZeros_take pf0 P.length hex'
              have e3 : pf0.take P.length = P.dropLast ++ [l - 1] := by
                have := dropLast_append_last (pf0.take P.length) a hpl
                rw [← this, hd]
                congr 2
                omega
              rw [e1, e2, e3]

/-! ### the ends, up to `==` -/

theorem vk_wD_congr (e : Nat) (R1 R2 : List Nat) (h : stripZeros R1 = stripZeros R2) : vk (wD e R1) = vk (wD e R2) := by
  rw [vk_eq_iff_key]
  simp [key, wD, mk', preK, postK, devK, h]

theorem incrLast_append_singleton : ∀ (xs : List Nat) (a : Nat), incrLast (xs ++ [a]) = xs ++ [a + 1]
  | [], a => rfl
  | [x], a => rfl
  | x :: y :: rest, a => by
    have ih := incrLast_append_singleton (y :: rest) a
    simp only [List.cons_append] at ih ⊢
    simp only [incrLast, ih]

/-- a version without pre/post tag that equals its own first dev-release is `X.dev0` -/
theorem vk_eq_wD (v : Version) (hpre : v.isPrerelease = false) (hpost : v.isPostrelease = false)
    (he : Version.eqv v.firstDevrelease v = true) : vk v = vk (wD v.epoch v.release) := by
  have h1 : v.pre = none := by simpa [isPrerelease] using hpre
  have h2 : v.post = none := by simpa [isPostrelease] using hpost
  have : v.firstDevrelease = wD v.epoch v.release := by simp [firstDevrelease, wD, h1, h2]
  rw [← this]; exact ((eqv_iff _ _).1 he).symm

theorem firstDev_eq_wD (v : Version) (hpre : v.isPrerelease = false) (hpost : v.isPostrelease = false) :
    v.firstDevrelease = wD v.epoch v.release := by
  have h1 : v.pre = none := by simpa [isPrerelease] using hpre
  have h2 : v.post = none := by simpa [isPostrelease] using hpost
  simp [firstDevrelease, wD, h1, h2]

/-- **any range the printer spells `==X.*` (lower end not a post-release) is printed, read back, and the re-read
range admits the same versions on EVERY probe** -/
theorem wildcard_spelt_roundtrip (mn mx : Version) (hwf : (⟨some mn, some mx, true, false⟩ : VRange).WF)
    (hw : isWildcardCandidate mn mx false = true) (hnp : mn.isPostrelease = false) :
    ∃ s c', (VC.single (.rng ⟨some mn, some mx, true, false⟩)).toStr = .ok s ∧
      VParser.parseConstraint s = .ok c' ∧
      ∀ p, p.wf = true → c'.allows p = (VC.single (.rng ⟨some mn, some mx, true, false⟩)).allows p := by
  obtain ⟨g1, g2, g3, g4, g5, g6, g7, g8, l, hPl, hl0, hrel⟩ := wildcardCandidate_facts mn mx hw hnp
  have hmnw : mn.wf = true := hwf.1 mn (by simp [VRange.bounds])
  have hmxw : mx.wf = true := hwf.1 mx (by simp [VRange.bounds])
  have hlt : vk mn < vk mx := hwf.2 mn mx rfl rfl
  generalize hP : stripZeros mx.release = P at hPl hrel
  -- the printed base `B`
  have hBne : P.dropLast ++ [l - 1] ≠ [] := by simp
  obtain ⟨b0, bs, hB⟩ := List.exists_cons_of_ne_nil hBne
  have hPeq : P.dropLast ++ [l] = P := dropLast_append_last P l hPl
  have hinc : incrLast (b0 :: bs) = P := by
    rw [← hB, incrLast_append_singleton]
    have : l - 1 + 1 = l := by omega
    rw [this, hPeq]
  let e := mx.epoch
  -- the text
  have hstr : singleWildcardRangeString mn mx = .ok (String.ofList (wildChars e b0 bs)) := by
    unfold singleWildcardRangeString
    simp only [hnp, Bool.false_eq_true, if_false, hP, hPl]
    have hz : (l == 0) = false := by simpa using hl0
    simp only [hz, Bool.false_eq_true, if_false, hB]
    congr 1
    apply str_eq_of_toList
    have hrt : (joinWith "." (natToString b0 :: bs.map natToString)).toList = relChars b0 bs := joinWith_dot_toList b0 bs
    by_cases he : mx.epoch = 0
    · simp [wildChars, epochChars, e, he, hrt]
    · simp [wildChars, epochChars, e, he, hrt, dg]
  have hprint : (VC.single (.rng ⟨some mn, some mx, true, false⟩)).toStr =
      .ok (String.ofList ('=' :: '=' :: (baseChars e b0 bs ++ dotStar))) := by
    simp only [VC.toStr, RC.toStr, VRange.toStr, VRange.isSingleWildcardRange, hw, hstr, Bool.not_true, Bool.false_or,
      Bool.false_eq_true, if_false, if_true, bind, Except.bind, pure, Except.pure]
    congr 1
    exact str_eq_of_toList (by simp [wildChars, baseChars, dotStar])
  -- the re-read range
  obtain ⟨hf, hbw⟩ := baseV_final e b0 bs
  have hparse : VParser.parseConstraint (String.ofList ('=' :: '=' :: (baseChars e b0 bs ++ dotStar))) =
      .ok (.single (.rng ⟨some (wD e (b0 :: bs)), some (wE e (b0 :: bs)), true, false⟩)) := by
    have := parseConstraint_wild false e b0 bs
    simp only [Bool.false_eq_true, if_false] at this
    rw [this, (eqStar_range _ hf).1, wD_of_final _ hf, wE_of_final _ hf]
    rfl
  refine ⟨_, _, hprint, hparse, fun p hp => ?_⟩
  simp only [VC.allows, RC.allows]
  congr 1
  -- the lower ends compare equal
  have kD : vk (wD e (b0 :: bs)) = vk mn := by
    rw [vk_eq_wD mn g4 hnp g7, g1]
    exact vk_wD_congr e _ _ (by rw [← hB]; exact hrel.symm)
  -- the effective upper ends compare equal
  have hE : wE e (b0 :: bs) = wD e P := by
    show mk' e (relNext (b0 :: bs)) none none (some ⟨.dev, 0⟩) none = _
    rw [relNext_eq_incrLast _ (by simp), hinc]; rfl
  have kMx : vk mx.firstDevrelease = vk (wD e P) := by
    rw [firstDev_eq_wD mx g5 g6]
    exact vk_wD_congr e _ _ (by rw [← hP, stripZeros_idem])
  have hA' : (⟨some (wD e (b0 :: bs)), some (wE e (b0 :: bs)), true, false⟩ : VRange).allowedMax =
      some (wE e (b0 :: bs)) := by
    simp [VRange.allowedMax, wE, mk', isUnstable, isDevrelease]
  have hA := VRange.allowedMax_eq_of_lt (r := ⟨some mn, some mx, true, false⟩) (M := mx) rfl
    (by intro m hm; cases hm; exact ne_of_lt hlt)
  simp only [Bool.false_or] at hA
  have kA : ∀ A, (⟨some mn, some mx, true, false⟩ : VRange).allowedMax = some A → vk A = vk (wD e P) := by
    intro A hAA
    rw [hA] at hAA; injection hAA with hAA; subst hAA
    by_cases hu : mx.isUnstable = true
    · simp only [hu, if_true]
      have hdev : mx.isDevrelease = true := by simpa [isUnstable, g5] using hu
      rw [← kMx]; exact ((eqv_iff _ _).1 (g8 hdev)).symm
    · simp only [hu, Bool.false_eq_true, if_false]; exact kMx
  unfold VRange.allows
  congr 1
  · apply bool_eq_of_iff
    rw [VRange.allowsLo_incl _ p (wD e (b0 :: bs)) hp rfl rfl, VRange.allowsLo_incl _ p mn hp rfl rfl, kD]
  · apply bool_eq_of_iff
    cases hAm : (⟨some mn, some mx, true, false⟩ : VRange).allowedMax with
    | none => rw [hA] at hAm; cases hAm
    | some A =>
      rw [VRange.allowsHi_excl _ p (wE e (b0 :: bs)) (wE e (b0 :: bs)) hp rfl hA' rfl,
        VRange.allowsHi_excl _ p mx A hp rfl hAm rfl, kA A hAm, hE]

/-! ### unions spelt `!=X.*` -/

theorem wildcardCandidate_facts_inv (mn mx : Version) (h : isWildcardCandidate mn mx true = true)
    (hnp : mx.isPostrelease = false) :
    mn.epoch = mx.epoch ∧ mn.isPrerelease = false ∧ mx.isPrerelease = false ∧ mn.isPostrelease = false ∧
    Version.eqv mn.firstDevrelease mn = true ∧ (mx.isDevrelease = true → Version.eqv mx.firstDevrelease mx = true) ∧
    ∃ l, (stripZeros mn.release).getLast? = some l ∧ l ≠ 0 ∧
      stripZeros mx.release = stripZeros ((stripZeros mn.release).dropLast ++ [l - 1]) := by
  unfold isWildcardCandidate at h
  by_cases hg : (mn.epoch != mx.epoch || mn.isLocal || mx.isLocal || mn.isPrerelease || mx.isPrerelease
      || (mn.isPostrelease != mx.isPostrelease) || !(Version.eqv mn.firstDevrelease mn)
      || (mx.isDevrelease && !(Version.eqv mx.firstDevrelease mx))) = true
  · rw [if_pos hg] at h; cases h
  · rw [if_neg hg] at h
    simp only [Bool.or_eq_true, not_or, Bool.not_eq_true, bne_eq_false_iff_eq, Bool.and_eq_false_iff,
      Bool.not_eq_false'] at hg
    obtain ⟨⟨⟨⟨⟨⟨⟨g1, g2⟩, g3⟩, g4⟩, g5⟩, g6⟩, g7⟩, g8⟩ := hg
    have g6' : mn.isPostrelease = false := by rw [g6]; exact hnp
    simp only [if_true, hnp, Bool.false_eq_true, if_false] at h
    generalize hP : stripZeros mn.release = P at h ⊢
    by_cases hPe : P.isEmpty = true
    · simp [hPe] at h
    · simp only [hPe, Bool.false_eq_true, if_false] at h
      generalize hpf0 : mx.release ++ zeros (P.length - mx.release.length) = pf0 at h
      by_cases hex : (!(pf0.drop P.length).all (· == 0)) = true
      · simp [hex] at h
      · simp only [hex, Bool.false_eq_true, if_false, Bool.and_eq_true, beq_iff_eq] at h
        obtain ⟨hd, hl⟩ := h
        simp only [Bool.not_eq_true', Bool.not_eq_false, List.all_eq_true, beq_iff_eq] at hex
        have hex' : ∀ x ∈ pf0.drop P.length, x = 0 := by
          intro x hx; have := hex x hx; simpa using this
        cases hpl : (pf0.take P.length).getLast? with
        | none => rw [hpl] at hl; simp at hl
        | some a =>
          cases hPl : P.getLast? with
          | none => rw [hpl, hPl] at hl; simp at hl
          | some l =>
            rw [hpl, hPl] at hl
            simp only [beq_iff_eq] at hl
            have hl0 : l ≠ 0 := stripZeros_last_ne_zero mn.release l (by rw [hP]; exact hPl)
            refine ⟨g1, g4, g5, g6', by simpa using g7, ?_, l, rfl, hl0, ?_⟩
            · intro hdv
              rcases g8 with h8 | h8
              · rw [hdv] at h8; cases h8
              · exact h8
            · have e1 : stripZeros mx.release = stripZeros pf0 := by
                rw [← hpf0, zeros, stripZeros_append_replicate]
              have e2 : stripZeros pf0 = stripZeros (pf0.take P.length) := stripZeros_take pf0 P.length hex'
              have e3 : pf0.take P.length = P.dropLast ++ [l - 1] := by
                have := dropLast_append_last (pf0.take P.length) a hpl
                rw [← this, hd]
                congr 2
                omega
              rw [e1, e2, e3]

/-- **any two-member union the printer spells `!=X.*` is printed, read back, and the re-read union admits the same
versions on EVERY probe** -/
theorem wildcard_spelt_union_roundtrip (omax tmin : Version) (ho : omax.wf = true) (ht : tmin.wf = true)
    (hlt : vk omax < vk tmin) (hw : isWildcardCandidate tmin omax true = true) (hnp : omax.isPostrelease = false) :
    ∃ s c', (VC.union [.rng ⟨none, some omax, false, false⟩, .rng ⟨some tmin, none, true, false⟩]).toStr = .ok s ∧
      VParser.parseConstraint s = .ok c' ∧
      ∀ p, p.wf = true →
        c'.allows p = (VC.union [.rng ⟨none, some omax, false, false⟩, .rng ⟨some tmin, none, true, false⟩]).allows p := by
  obtain ⟨g1, g4, g5, g6, g7, g8, l, hPl, hl0, hrel⟩ := wildcardCandidate_facts_inv tmin omax hw hnp
  generalize hP : stripZeros tmin.release = P at hPl hrel
  have hBne : P.dropLast ++ [l - 1] ≠ [] := by simp
  obtain ⟨b0, bs, hB⟩ := List.exists_cons_of_ne_nil hBne
  have hPeq : P.dropLast ++ [l] = P := dropLast_append_last P l hPl
  have hinc : incrLast (b0 :: bs) = P := by
    rw [← hB, incrLast_append_singleton]
    have : l - 1 + 1 = l := by omega
    rw [this, hPeq]
  let e := tmin.epoch
  have hstr : singleWildcardRangeString omax tmin = .ok (String.ofList (wildChars e b0 bs)) := by
    unfold singleWildcardRangeString
    simp only [hnp, Bool.false_eq_true, if_false, hP, hPl]
    have hz : (l == 0) = false := by simpa using hl0
    simp only [hz, Bool.false_eq_true, if_false, hB]
    congr 1
    apply str_eq_of_toList
    have hrt : (joinWith "." (natToString b0 :: bs.map natToString)).toList = relChars b0 bs := joinWith_dot_toList b0 bs
    by_cases he : tmin.epoch = 0
    · simp [wildChars, epochChars, e, he, hrt]
    · simp [wildChars, epochChars, e, he, hrt, dg]
  have hinv := inverted_two_sided omax tmin hlt
  have hprint : (VC.union [.rng ⟨none, some omax, false, false⟩, .rng ⟨some tmin, none, true, false⟩]).toStr =
      .ok (String.ofList ('!' :: '=' :: (baseChars e b0 bs ++ dotStar))) := by
    simp only [VC.toStr, VC.excludedSingleVersion, hinv, VC.excludedWildcard, RC.max, RC.min, RC.imax, RC.imin, hw, hstr,
      Option.isSome_some, Option.isSome_none, if_true, Bool.false_or, Bool.not_true, Bool.false_eq_true, if_false,
      bind, Except.bind, pure, Except.pure]
    congr 1
    exact str_eq_of_toList (by simp [wildChars, baseChars, dotStar])
  obtain ⟨hf, hbw⟩ := baseV_final e b0 bs
  have hparse : VParser.parseConstraint (String.ofList ('!' :: '=' :: (baseChars e b0 bs ++ dotStar))) =
      .ok (.union [.rng ⟨none, some (wD e (b0 :: bs)), false, false⟩, .rng ⟨some (wE e (b0 :: bs)), none, true, false⟩]) := by
    have := parseConstraint_wild true e b0 bs
    simp only [if_true] at this
    rw [this, neStar_range _ hf hbw, wD_of_final _ hf, wE_of_final _ hf]
    rfl
  have hlt' : vk (wD e (b0 :: bs)) < vk (wE e (b0 :: bs)) := by
    have := wildcard_ends_lt _ hf hbw
    rwa [wD_of_final _ hf, wE_of_final _ hf] at this
  have hinv' := inverted_two_sided _ _ hlt'
  refine ⟨_, _, hprint, hparse, fun p hp => ?_⟩
  simp only [VC.allows, VC.excludedSingleVersion, hinv, hinv', bind, Except.bind, pure, Except.pure, List.any_cons,
    List.any_nil, Bool.or_false, RC.allows]
  congr 1
  -- member by member
  have hE : wE e (b0 :: bs) = wD e P := by
    show mk' e (relNext (b0 :: bs)) none none (some ⟨.dev, 0⟩) none = _
    rw [relNext_eq_incrLast _ (by simp), hinc]; rfl
  have kT : vk tmin = vk (wE e (b0 :: bs)) := by
    rw [vk_eq_wD tmin g4 g6 g7, hE]
    exact vk_wD_congr e _ _ (by rw [← hP, stripZeros_idem])
  have kO : vk omax.firstDevrelease = vk (wD e (b0 :: bs)) := by
    rw [firstDev_eq_wD omax g5 hnp, ← g1]
    exact vk_wD_congr e _ _ (by rw [← hB]; exact hrel)
  have hA := VRange.allowedMax_eq_of_lt (r := ⟨none, some omax, false, false⟩) (M := omax) rfl
    (by intro m hm; cases hm)
  simp only [Bool.false_or] at hA
  have hA' : (⟨none, some (wD e (b0 :: bs)), false, false⟩ : VRange).allowedMax = some (wD e (b0 :: bs)) := by
    simp [VRange.allowedMax, wD, mk', isUnstable, isDevrelease]
  have kA : vk (if omax.isUnstable = true then omax else omax.firstDevrelease) = vk (wD e (b0 :: bs)) := by
    by_cases hu : omax.isUnstable = true
    · simp only [hu, if_true]
      have hdev : omax.isDevrelease = true := by simpa [isUnstable, g5] using hu
      rw [← kO]; exact ((eqv_iff _ _).1 (g8 hdev)).symm
    · simp only [hu, Bool.false_eq_true, if_false]; exact kO
  have m1 : (⟨none, some (wD e (b0 :: bs)), false, false⟩ : VRange).allows p =
      (⟨none, some omax, false, false⟩ : VRange).allows p := by
    unfold VRange.allows
    congr 1
    apply bool_eq_of_iff
    rw [VRange.allowsHi_excl _ p _ _ hp rfl hA' rfl, VRange.allowsHi_excl _ p omax _ hp rfl hA rfl, kA]
  have m2 : (⟨some (wE e (b0 :: bs)), none, true, false⟩ : VRange).allows p =
      (⟨some tmin, none, true, false⟩ : VRange).allows p := by
    unfold VRange.allows
    congr 1
    apply bool_eq_of_iff
    rw [VRange.allowsLo_incl _ p _ hp rfl rfl, VRange.allowsLo_incl _ p tmin hp rfl rfl, kT]
  rw [m1, m2]

end Poetry
