/-
C19 (version-constraint part), fourth helper file: every version-constraint operation the marker simplifier
calls is total on well-formed tidy constraints (`GoodVC`), which is closed under them and contains every parser
result — packaged as `VCOpsTotal GoodVC`.
-/
import PoetryVerif.Proofs.ParserTotalVC3

set_option linter.unusedSimpArgs false
set_option linter.unusedVariables false

namespace Poetry.ParserTotal
open Poetry Version VParser EqHash

/-! ## `allows`, `is_simple` -/

/-- `excludes_single_version` is total whenever all bounds are well-formed versions -/
theorem excludedSingleVersion_total_bw (rs : List RC) (h : BW rs) : ∃ o, VC.excludedSingleVersion rs = .ok o := by
  obtain ⟨res, hres⟩ := inverted_total_bw rs h
  simp only [VC.excludedSingleVersion, hres, bind, Except.bind, pure, Except.pure]
  cases res with
  | empty => exact ⟨_, rfl⟩
  | union ds => exact ⟨_, rfl⟩
  | single d => cases d <;> exact ⟨_, rfl⟩

/-- **`c.allows(v)` never raises** when all bounds of `c` are well-formed versions -/
theorem allows_total_bw (c : VC) (v : Version) (h : BW c.flatten) : ∃ b, c.allows v = .ok b := by
  cases c with
  | empty => exact ⟨_, rfl⟩
  | single d => exact ⟨_, rfl⟩
  | union rs =>
    obtain ⟨o, ho⟩ := excludedSingleVersion_total_bw rs h
    simp only [VC.allows, ho, bind, Except.bind, pure, Except.pure]
    cases o with
    | none => exact ⟨_, rfl⟩
    | some ex => simp only; split <;> exact ⟨_, rfl⟩

/-- **`c.is_simple()` never raises** when all bounds of `c` are well-formed versions -/
theorem isSimple_total_bw (c : VC) (h : BW c.flatten) : ∃ b, c.isSimple = .ok b := by
  cases c with
  | empty => exact ⟨_, rfl⟩
  | single d => exact ⟨_, rfl⟩
  | union rs =>
    obtain ⟨o, ho⟩ := excludedSingleVersion_total_bw rs h
    exact ⟨o.isSome, by simp [VC.isSimple, ho, bind, Except.bind, pure, Except.pure]⟩

/-! ## `union` -/

/-- **member ∪ member is total and stays well-formed and tidy** -/
theorem rcUnion_good (a b : RC) (ha : a.WF ∧ a.Tidy) (hb : b.WF ∧ b.Tidy) :
    ∃ c, RC.union a b = .ok c ∧ GoodVC c := by
  obtain ⟨o, ho⟩ := rcUnionSingle_ok a b
  simp only [RC.union, ho, bind, Except.bind, pure, Except.pure]
  cases o with
  | some u =>
    obtain ⟨huwf, hut, _, _⟩ := RC.rcUnionSingle_exact a b ha.1 hb.1 ha.2 hb.2 u ho
    refine ⟨_, rfl, ?_⟩
    intro r hr; simp [VC.flatten] at hr; subst hr; exact ⟨huwf, hut⟩
  | none =>
    exact unionOfFlat_total_good [a, b] (by
      intro c hc
      simp only [List.mem_cons, List.mem_nil_iff, or_false] at hc
      rcases hc with rfl | rfl
      · exact ha
      · exact hb)

theorem GoodVC.single_mem {x : RC} (h : GoodVC (.single x)) : x.WF ∧ x.Tidy := h x (by simp [VC.flatten])

/-- **`a.union(b)` is total on well-formed tidy constraints and keeps them so** — all dispatch cases of
`Version.union`, `VersionRange.union`, `VersionUnion.union` -/
theorem vcUnionWith_good (a b : VC) (ha : GoodVC a) (hb : GoodVC b) : ∃ c, VC.unionWith a b = .ok c ∧ GoodVC c := by
  have pair : ∃ c, VC.unionOf [a, b] = .ok c ∧ GoodVC c := unionOf_good [a, b] (by
    intro g hg
    simp only [List.mem_cons, List.mem_nil_iff, or_false] at hg
    rcases hg with rfl | rfl
    · exact ha
    · exact hb)
  cases a with
  | empty => exact ⟨b, rfl, hb⟩
  | union rs => exact pair
  | single x =>
    cases x with
    | ver v =>
      obtain ⟨bb, hbb⟩ := allows_total_bw b v hb.bw
      simp only [VC.unionWith, hbb, bind, Except.bind, pure, Except.pure]
      cases bb with
      | true => exact ⟨b, by simp, hb⟩
      | false =>
        simp only [Bool.false_eq_true, if_false]
        cases b with
        | empty => exact pair
        | union rs => exact pair
        | single c => exact rcUnion_good (.ver v) c ha.single_mem hb.single_mem
    | rng r =>
      cases b with
      | empty => exact pair
      | union rs => exact pair
      | single c => exact rcUnion_good (.rng r) c ha.single_mem hb.single_mem

/-! ## `difference`, as far as it is cheap: a non-union left operand -/

/-- `a.difference(b)` never raises for a `Version` / `VersionRange` left operand (any right operand) when all
bounds are well-formed versions.  (The `VersionUnion.difference` walk is not covered.) -/
theorem vcDifference_total_single (x : RC) (b : VC) (hx : x.wfB) (hb : BW b.flatten) :
    ∃ d, VC.difference (.single x) b = .ok d := by
  cases x with
  | ver v =>
    obtain ⟨bb, hbb⟩ := allows_total_bw b v hb
    simp only [VC.difference, hbb, bind, Except.bind, pure, Except.pure]
    split <;> exact ⟨_, rfl⟩
  | rng r =>
    cases b with
    | empty => exact ⟨_, rfl⟩
    | single c =>
      obtain ⟨d, hd, _⟩ := difference_total_bw (.rng r) c hx (hb c (by simp [VC.flatten]))
      exact ⟨d, hd⟩
    | union rs => exact rngDiffUnionLoop_total_bw rs (.rng r) [] hb hx (by intro c hc; cases hc)

/-! ## the closure package -/

/-- **one predicate for consumers**: `P` holds of the empty and the universal constraint and of every parser
result, is closed under `intersect`, `union` and `VersionUnion.of`, and on `P`-constraints `allows`,
`is_simple` and `__str__` never raise -/
structure VCOpsTotal (P : VC → Prop) : Prop where
  empty : P .empty
  any : P VC.any
  parsed : ∀ s m c, parseConstraintAux s m = .ok c → P c
  parseTotal : ∀ s m, (∃ c, parseConstraintAux s m = .ok c ∧ P c) ∨ parseConstraintAux s m = .error .value
  inter : ∀ a b, P a → P b → ∃ c, VC.intersect a b = .ok c ∧ P c
  unionWith : ∀ a b, P a → P b → ∃ c, VC.unionWith a b = .ok c ∧ P c
  unionOf : ∀ gs, (∀ g ∈ gs, P g) → ∃ c, VC.unionOf gs = .ok c ∧ P c
  allows : ∀ c v, P c → ∃ b, VC.allows c v = .ok b
  isSimple : ∀ c, P c → ∃ b, VC.isSimple c = .ok b
  toStr : ∀ c, P c → ∃ t, VC.toStr c = .ok t
  ofVersion : ∀ v : Version, v.wf = true → P (.single (.ver v))

theorem parsed_good (s : String) (m : Bool) (c : VC) (h : parseConstraintAux s m = .ok c) : GoodVC c := by
  rcases parseConstraintAux_total s m with ⟨c', hc', hg⟩ | hv
  · rw [hc'] at h; cases h; exact hg
  · rw [hv] at h; cases h

/-- **the package for well-formed tidy constraints** -/
theorem vcOpsTotal_good : VCOpsTotal GoodVC where
  empty := GoodVC.empty
  any := GoodVC.any
  parsed := parsed_good
  parseTotal := parseConstraintAux_total
  inter := vcIntersect_good
  unionWith := vcUnionWith_good
  unionOf := unionOf_good
  allows := fun c v h => allows_total_bw c v h.bw
  isSimple := fun c h => isSimple_total_bw c h.bw
  toStr := fun c h => toStr_total_bw c h.bw
  ofVersion := fun v hv => by
    intro r hr; simp [VC.flatten] at hr; subst hr; exact ⟨hv, trivial⟩

end Poetry.ParserTotal
