/- Selection on the unpacked sdist: exclusion and glob results agree with the source tree on packed paths. -/
import PoetryVerif.Proofs.Select

set_option linter.unusedSimpArgs false
set_option linter.unusedVariables false

namespace Poetry.Select

/-! ### stripBase -/

theorem stripBase_eq_some {b p r : Path} : stripBase b p = some r ↔ p = b ++ r := by
  induction b generalizing p with
  | nil => simp [stripBase_nil, eq_comm]
  | cons x xs ih =>
    cases p with
    | nil => simp [stripBase]
    | cons y ys =>
      simp only [stripBase]
      by_cases hxy : x = y
      · subst hxy; simp [ih]
      · have : (x == y) = false := by simpa using hxy
        simp [this]; intro h; exact absurd h.symm hxy

theorem stripBase_isSome {b p : Path} : (stripBase b p).isSome = true ↔ b <+: p := by
  constructor
  · intro h
    obtain ⟨r, hr⟩ := Option.isSome_iff_exists.mp h
    exact ⟨r, (stripBase_eq_some.mp hr).symm⟩
  · rintro ⟨r, hr⟩
    rw [stripBase_eq_some.mpr hr.symm]; rfl

/-! ### the `is_excluded` loop, both directions -/

theorem prefixHit_of_none {excl : List String} :
    ∀ (fuel : Nat) (p : Path), p ≠ [] → (∀ q, q ≠ [] → q <+: p → posix q ∉ excl) → prefixHit excl fuel p = false := by
  intro fuel
  induction fuel with
  | zero => intro p _ _; rfl
  | succ n ih =>
    intro p hp h
    unfold prefixHit
    have h1 : posix p ∉ excl := h p hp (List.prefix_refl _)
    simp only [List.contains_iff_mem, h1, if_false]
    split
    · rename_i hl
      have hdl : p.dropLast ≠ [] := by
        intro h0
        have := List.length_dropLast (xs := p)
        rw [h0] at this; simp at this; omega
      exact ih p.dropLast hdl (fun q hq hpre => h q hq (hpre.trans (List.dropLast_prefix p)))
    · rfl

theorem isExcluded_congr {e1 e2 : List String} {p : Path} (hp : p ≠ [])
    (h : ∀ q, q ≠ [] → q <+: p → (posix q ∈ e1 ↔ posix q ∈ e2)) : isExcluded e1 p = isExcluded e2 p := by
  unfold isExcluded
  congr 1
  cases h1 : prefixHit e1 (p.length + 1) p <;> cases h2 : prefixHit e2 (p.length + 1) p <;> try rfl
  · have := prefixHit_false (p.length + 1) p (by omega) h1
    have h2' := prefixHit_of_none (p.length + 1) p hp (fun q hq hpre => fun hm => this q hq hpre ((h q hq hpre).mpr hm))
    rw [h2] at h2'; cases h2'
  · have := prefixHit_false (p.length + 1) p (by omega) h2
    have h1' := prefixHit_of_none (p.length + 1) p hp (fun q hq hpre => fun hm => this q hq hpre ((h q hq hpre).mp hm))
    rw [h1] at h1'; cases h1'

/-! ### membership in the excluded / included string sets -/

theorem mem_explicitExcluded {X : Tree} : ∀ {gs : List String} {ee : List String}, explicitExcluded X gs = .ok ee →
    ∀ x, x ∈ ee ↔ ∃ g ∈ gs, ∃ pat, parsePattern g = .ok pat ∧ ∃ e ∈ globFrom X [] pat, posix e.path = x := by
  intro gs
  induction gs with
  | nil => intro ee h x; simp [explicitExcluded] at h; subst h; simp
  | cons g gs ih =>
    intro ee h x
    unfold explicitExcluded at h
    cases hp : parsePattern g with
    | error e => simp [hp, bind, Except.bind] at h
    | ok pat =>
      cases hr : explicitExcluded X gs with
      | error e => simp [hp, hr, bind, Except.bind] at h
      | ok rest =>
        simp [hp, hr, bind, Except.bind] at h
        subst h
        simp only [List.mem_append, List.mem_map, ih hr x, List.mem_cons]
        constructor
        · rintro (⟨e, he, rfl⟩ | ⟨g', hg', pat', hp', e, he, hx⟩)
          · exact ⟨g, .inl rfl, pat, hp, e, he, rfl⟩
          · exact ⟨g', .inr hg', pat', hp', e, he, hx⟩
        · rintro ⟨g', hg' | hg', pat', hp', e, he, hx⟩
          · subst hg'; rw [hp] at hp'; cases hp'; exact .inl ⟨e, he, hx⟩
          · exact .inr ⟨g', hg', pat', hp', e, he, hx⟩

theorem mem_explicitIncluded {fmt : Fmt} {iobjs : List IncObj} {x : String} :
    x ∈ explicitIncluded fmt iobjs ↔
      ∃ o ∈ iobjs, o.formats.contains fmt.name = true ∧ ∃ e ∈ o.elements, posix e.path = x := by
  unfold explicitIncluded
  simp only [List.mem_flatMap, List.mem_filter, List.mem_map]
  constructor
  · rintro ⟨o, ⟨ho, hf⟩, e, he, hx⟩; exact ⟨o, ho, hf, e, he, hx⟩
  · rintro ⟨o, ho, hf, e, he, hx⟩; exact ⟨o, ⟨ho, hf⟩, e, he, hx⟩

/-! ### well-formed trees; entries of the unpacked tree -/

/-- what a listing of a real directory satisfies -/
structure TreeWF (T : Tree) : Prop where
  /-- one entry per path -/
  nodup : ∀ a ∈ T, ∀ b ∈ T, a.path = b.path → a = b
  /-- files have nothing below them -/
  leaves : ∀ e ∈ T, e.isDir = false → ∀ c ∈ T, e.path <+: c.path → c.path = e.path
  /-- components contain no separator: the posix text determines the path (among paths of the tree and their prefixes) -/
  posixInj : ∀ e ∈ T, ∀ c ∈ T, ∀ q, q <+: c.path → posix e.path = posix q → e.path = q
  /-- nothing in the tree is called like the root-level PKG-INFO the sdist builder generates -/
  noPkgInfo : ∀ c ∈ T, ∀ q, q <+: c.path → posix q ≠ Gen.sdistPkgInfoName
  /-- the entry with the empty path is the project directory -/
  rootDir : ∀ e ∈ T, e.path = [] → e.isDir = true

def pkgInfoEntry (txt : String) : Entry := { path := [Gen.sdistPkgInfoName], isDir := false, content := txt }

theorem mem_unpack_iff {T : Tree} {S : List Sel} {txt : String} {e : Entry} :
    e ∈ unpack T S txt ↔
      (e ∈ T ∧ ∃ s ∈ S, e.path <+: s.arc ∧ (e.isDir = true ∨ e.path = s.arc)) ∨ e = pkgInfoEntry txt := by
  rw [mem_unpack]
  constructor
  · rintro (⟨h1, h2⟩ | h)
    · obtain ⟨s, hs, hc⟩ := List.any_eq_true.mp h2
      simp only [Bool.and_eq_true, Bool.or_eq_true, beq_iff_eq] at hc
      exact .inl ⟨h1, s, hs, stripBase_isSome.mp hc.1, hc.2⟩
    · exact .inr h
  · rintro (⟨h1, s, hs, hp, hk⟩ | h)
    · refine .inl ⟨h1, List.any_eq_true.mpr ⟨s, hs, ?_⟩⟩
      simp only [Bool.and_eq_true, Bool.or_eq_true, beq_iff_eq]
      exact ⟨stripBase_isSome.mpr hp, hk⟩
    · exact .inr h

theorem posix_singleton (x : String) : posix [x] = x := by
  unfold posix; simp

/-- an entry of the tree whose posix text is that of a prefix of a packed path is itself packed -/
theorem packed_of_posix {T : Tree} (wf : TreeWF T) {S : List Sel} {txt : String}
    (hS : ∀ s ∈ S, ∃ c ∈ T, c.path = s.arc) {e : Entry} (he : e ∈ T) {q : Path} {s : Sel} (hs : s ∈ S)
    (hq : q <+: s.arc) (hpos : posix e.path = posix q) : e ∈ unpack T S txt ∧ e.path = q := by
  obtain ⟨c, hc, hcp⟩ := hS s hs
  have heq : e.path = q := wf.posixInj e he c hc q (hcp ▸ hq) hpos
  refine ⟨mem_unpack_iff.mpr (.inl ⟨he, s, hs, heq ▸ hq, ?_⟩), heq⟩
  cases hd : e.isDir with
  | true => exact .inl rfl
  | false =>
    right
    have := wf.leaves e he hd c hc (by rw [hcp, heq]; exact hq)
    rw [← hcp, this]

theorem isDirIn_root_unpack {T : Tree} {S : List Sel} {txt : String} (hroot : isDirIn T [] = true) (hne : S ≠ []) :
    isDirIn (unpack T S txt) [] = true := by
  unfold isDirIn at *
  obtain ⟨r, hr, hc⟩ := List.any_eq_true.mp hroot
  simp only [Bool.and_eq_true, beq_iff_eq] at hc
  obtain ⟨s, hs⟩ := List.exists_mem_of_ne_nil S hne
  refine List.any_eq_true.mpr ⟨r, mem_unpack_iff.mpr (.inl ⟨hr, s, hs, ?_, .inl hc.2⟩), by simp [hc]⟩
  rw [hc.1]; exact List.nil_prefix

/-- a glob from the project root names (by posix text) the same packed paths on both trees -/
theorem glob_text_agree {T : Tree} (wf : TreeWF T) {S : List Sel} {txt : String}
    (hS : ∀ s ∈ S, ∃ c ∈ T, c.path = s.arc) {pat : Pattern} {q : Path} {s : Sel} (hs : s ∈ S) (hq : q <+: s.arc) :
    (∃ e ∈ globFrom (unpack T S txt) [] pat, posix e.path = posix q) ↔
      (∃ e ∈ globFrom T [] pat, posix e.path = posix q) := by
  obtain ⟨c, hc, hcp⟩ := hS s hs
  constructor
  · rintro ⟨e, he, hpos⟩
    obtain ⟨hd, heU, hm⟩ := mem_globFrom_iff.mp he
    rcases mem_unpack_iff.mp heU with ⟨heT, _⟩ | rfl
    · exact ⟨e, mem_globFrom_iff.mpr ⟨isDirIn_unpack hd, heT, hm⟩, hpos⟩
    · exfalso
      simp only [pkgInfoEntry, posix_singleton] at hpos
      exact wf.noPkgInfo c hc q (hcp ▸ hq) hpos.symm
  · rintro ⟨e, he, hpos⟩
    obtain ⟨hd, heT, hm⟩ := mem_globFrom_iff.mp he
    obtain ⟨heU, _⟩ := packed_of_posix (txt := txt) wf hS heT hs hq hpos
    have hne : S ≠ [] := by intro h0; rw [h0] at hs; simp at hs
    exact ⟨e, mem_globFrom_iff.mpr ⟨isDirIn_root_unpack hd hne, heU, hm⟩, hpos⟩

theorem explicitIncluded_agree {T : Tree} (wf : TreeWF T) {S : List Sel} {txt : String} {cfg : Cfg} {fmt : Fmt}
    (hS : ∀ s ∈ S, ∃ c ∈ T, c.path = s.arc) {pT iT pU iU : List IncObj}
    (hmT : mkModule fmt T cfg = .ok (pT, iT)) (hmU : mkModule fmt (unpack T S txt) cfg = .ok (pU, iU))
    {q : Path} {s : Sel} (hs : s ∈ S) (hq : q <+: s.arc) :
    posix q ∈ explicitIncluded fmt iU ↔ posix q ∈ explicitIncluded fmt iT := by
  obtain ⟨_, t2, t3, _⟩ := mkModule_ok hmT
  obtain ⟨_, u2, u3, _⟩ := mkModule_ok hmU
  rw [mem_explicitIncluded, mem_explicitIncluded]
  constructor
  · rintro ⟨o, ho, hf, e, he, hx⟩
    obtain ⟨spec, hsp, hfm, hmk⟩ := u2 o ho
    obtain ⟨pat, hpat, _, hfo, hel, _⟩ := mkInclude_ok hmk
    obtain ⟨o', ho', hmk'⟩ := t3 spec hsp hfm
    obtain ⟨pat', hpat', _, hfo', hel', _⟩ := mkInclude_ok hmk'
    rw [hpat] at hpat'; cases hpat'
    rw [hel] at he
    obtain ⟨e', he', hx'⟩ := (glob_text_agree wf hS hs hq).mp ⟨e, he, hx⟩
    exact ⟨o', ho', by rw [hfo', ← hfo]; exact hf, e', hel' ▸ he', hx'⟩
  · rintro ⟨o, ho, hf, e, he, hx⟩
    obtain ⟨spec, hsp, hfm, hmk⟩ := t2 o ho
    obtain ⟨pat, hpat, _, hfo, hel, _⟩ := mkInclude_ok hmk
    obtain ⟨o', ho', hmk'⟩ := u3 spec hsp hfm
    obtain ⟨pat', hpat', _, hfo', hel', _⟩ := mkInclude_ok hmk'
    rw [hpat] at hpat'; cases hpat'
    rw [hel] at he
    obtain ⟨e', he', hx'⟩ := (glob_text_agree (txt := txt) wf hS hs hq).mpr ⟨e, he, hx⟩
    exact ⟨o', ho', by rw [hfo', ← hfo]; exact hf, e', hel' ▸ he', hx'⟩

/-- `find_excluded_files` answers alike on both trees for every packed path and its ancestors, provided the VCS
hides none of them in the source tree (nothing is hidden in the unpacked tree, where there is no VCS) -/
theorem excluded_agree {T : Tree} (wf : TreeWF T) {S : List Sel} {txt : String} {cfg : Cfg} {fmt : Fmt} {ig : List String}
    (hS : ∀ s ∈ S, ∃ c ∈ T, c.path = s.arc) {pT iT pU iU : List IncObj}
    (hmT : mkModule fmt T cfg = .ok (pT, iT)) (hmU : mkModule fmt (unpack T S txt) cfg = .ok (pU, iU))
    {exT exU : List String} (hxT : excludedSet fmt T cfg ig iT = .ok exT)
    (hxU : excludedSet fmt (unpack T S txt) cfg [] iU = .ok exU)
    (hvcs : ∀ s ∈ S, ∀ q, q ≠ [] → q <+: s.arc → posix q ∉ ig)
    {q : Path} (hqne : q ≠ []) {s : Sel} (hs : s ∈ S) (hq : q <+: s.arc) :
    posix q ∈ exU ↔ posix q ∈ exT := by
  obtain ⟨eeT, heT, rfl⟩ := excludedSet_ok hxT
  obtain ⟨eeU, heU, rfl⟩ := excludedSet_ok hxU
  have hi := explicitIncluded_agree wf hS hmT hmU hs hq
  have he : posix q ∈ eeU ↔ posix q ∈ eeT := by
    rw [mem_explicitExcluded heU, mem_explicitExcluded heT]
    constructor
    · rintro ⟨g, hg, pat, hp, hex⟩; exact ⟨g, hg, pat, hp, (glob_text_agree wf hS hs hq).mp hex⟩
    · rintro ⟨g, hg, pat, hp, hex⟩; exact ⟨g, hg, pat, hp, (glob_text_agree wf hS hs hq).mpr hex⟩
  have hv := hvcs s hs q hqne hq
  simp only [List.mem_filter, List.mem_append, List.nil_append, Bool.not_eq_true', List.contains_eq_mem,
    decide_eq_false_iff_not, hv, false_or, he, hi]

/-! ### what an include object yields, independent of how its elements were expanded -/

theorem mem_descendants_iff {X : Tree} {d : Path} {c : Entry} :
    c ∈ descendants X d ↔ c ∈ X ∧ ∃ rel, rel ≠ [] ∧ c.path = d ++ rel := by
  constructor
  · exact mem_descendants
  · rintro ⟨hc, rel, hne, hp⟩
    unfold descendants
    rw [List.mem_filter]
    refine ⟨hc, ?_⟩
    rw [stripBase_eq_some.mpr hp]
    simpa using hne

theorem mem_processElement_iff {fmt : Fmt} {X : Tree} {excl : List String} {inc : IncObj} {el : Entry} {t : Sel}
    (hf : inc.formats.contains fmt.name = true) :
    t ∈ processElement fmt X excl inc el ↔
      el.path.contains Gen.pycacheDirName = false ∧
      ((el.isDir = true ∧ ∃ c ∈ descendants X el.path, c.isDir = false ∧ isExcluded excl c.path = false ∧ t = mkSel fmt inc c) ∨
       (el.isDir = false ∧ (isExcluded excl el.path = false ∨ inc.isPackage = false) ∧ t = mkSel fmt inc el)) := by
  constructor
  · intro h
    obtain ⟨h1, h2⟩ := mem_processElement h
    refine ⟨h1, ?_⟩
    rcases h2 with ⟨a, _, b⟩ | b
    · exact .inl ⟨a, b⟩
    · exact .inr b
  · rintro ⟨hpc, h⟩
    unfold processElement
    have hpc' : Gen.pycacheDirName ∉ el.path := by simpa using hpc
    rcases h with ⟨hd, c, hc, hcf, hne, rfl⟩ | ⟨hd, hor, rfl⟩
    · simp only [List.contains_iff_mem, hpc', if_false, hd, if_true, hf]
      rw [List.mem_filterMap]
      exact ⟨c, hc, by simp [hcf, hne]⟩
    · simp only [List.contains_iff_mem, hpc', if_false, hd, Bool.false_eq_true]
      rcases hor with hne | hnp
      · simp [hne]
      · simp [hnp]

/-- file `c` is yielded by an include whose glob returned `g` -/
def Yields (X : Tree) (excl : List String) (isPkg : Bool) (base : Path) (pat : Pattern) (c : Entry) : Prop :=
  ∃ g ∈ globFrom X base pat, c ∈ X ∧ c.isDir = false ∧ g.path.contains Gen.pycacheDirName = false ∧
    ((g = c ∧ (isPkg = true → isExcluded excl c.path = false)) ∨
     (g.isDir = true ∧ c ∈ descendants X g.path ∧ isExcluded excl c.path = false))

theorem mem_globFrom_sub {X : Tree} {base : Path} {pat : Pattern} {e : Entry} (h : e ∈ globFrom X base pat) : e ∈ X :=
  (mem_globFrom_iff.mp h).2.1

/-- elements = the glob result (plain include; package given by a file, or by several glob results) -/
theorem processInclude_plain {fmt : Fmt} {X : Tree} {excl : List String} {o : IncObj} {base : Path} {pat : Pattern}
    (hf : o.formats.contains fmt.name = true) (hel : o.elements = globFrom X base pat) (t : Sel) :
    t ∈ processInclude fmt X excl o ↔ ∃ c, Yields X excl o.isPackage base pat c ∧ t = mkSel fmt o c := by
  unfold processInclude
  rw [List.mem_flatMap]
  constructor
  · rintro ⟨el, hel', ht⟩
    rw [hel] at hel'
    obtain ⟨hpc, h⟩ := (mem_processElement_iff hf).mp ht
    rcases h with ⟨hd, c, hc, hcf, hne, rfl⟩ | ⟨hd, hor, rfl⟩
    · exact ⟨c, ⟨el, hel', (mem_descendants hc).1, hcf, hpc, .inr ⟨hd, hc, hne⟩⟩, rfl⟩
    · refine ⟨el, ⟨el, hel', mem_globFrom_sub hel', hd, hpc, .inl ⟨rfl, ?_⟩⟩, rfl⟩
      intro hp
      rcases hor with h1 | h1
      · exact h1
      · rw [hp] at h1; cases h1
  · rintro ⟨c, ⟨g, hg, hcX, hcf, hpc, h⟩, rfl⟩
    refine ⟨g, hel ▸ hg, (mem_processElement_iff hf).mpr ⟨hpc, ?_⟩⟩
    rcases h with ⟨rfl, himp⟩ | ⟨hd, hc, hne⟩
    · refine .inr ⟨hcf, ?_, rfl⟩
      cases hp : o.isPackage with
      | true => exact .inl (himp hp)
      | false => exact .inr rfl
    · exact .inl ⟨hd, c, hc, hcf, hne, rfl⟩

theorem isBytecode_false_prefix {p q : Path} (h : isBytecode p = false) (hq : q <+: p) :
    q.contains Gen.pycacheDirName = false := by
  unfold isBytecode at h
  simp only [Bool.or_eq_false_iff] at h
  have h1 : Gen.pycacheDirName ∉ p := by simpa using h.1
  have : Gen.pycacheDirName ∉ q := fun hm => h1 (hq.subset hm)
  simpa using this

/-- elements = everything below the single directory the glob returned (package given by a directory) -/
theorem processInclude_expanded {fmt : Fmt} {X : Tree} {excl : List String} {o : IncObj} {base : Path} {pat : Pattern}
    {root : Entry} (hf : o.formats.contains fmt.name = true) (hp : o.isPackage = true)
    (hglob : globFrom X base pat = [root]) (hrd : root.isDir = true)
    (hel : o.elements = sortEntries (descendants X root.path)) (t : Sel) :
    t ∈ processInclude fmt X excl o ↔ ∃ c, Yields X excl o.isPackage base pat c ∧ t = mkSel fmt o c := by
  unfold processInclude
  rw [List.mem_flatMap]
  constructor
  · rintro ⟨el, hel', ht⟩
    rw [hel, mem_sortEntries] at hel'
    obtain ⟨hpc, h⟩ := (mem_processElement_iff hf).mp ht
    obtain ⟨helX, rel, hrel, hpath⟩ := mem_descendants hel'
    rcases h with ⟨hd, c, hc, hcf, hne, rfl⟩ | ⟨hd, hor, rfl⟩
    · obtain ⟨hcX, rel2, hrel2, hpath2⟩ := mem_descendants hc
      have hcr : c ∈ descendants X root.path :=
        mem_descendants_iff.mpr ⟨hcX, rel ++ rel2, by simp [hrel], by rw [hpath2, hpath, List.append_assoc]⟩
      have hpcr := isBytecode_false_prefix (not_excluded_prefixes hne).1
        (show root.path <+: c.path from ⟨rel ++ rel2, by rw [hpath2, hpath, List.append_assoc]⟩)
      exact ⟨c, ⟨root, by rw [hglob]; simp, hcX, hcf, hpcr, .inr ⟨hrd, hcr, hne⟩⟩, rfl⟩
    · have hne : isExcluded excl el.path = false := by
        rcases hor with h1 | h1
        · exact h1
        · rw [hp] at h1; cases h1
      have hpcr := isBytecode_false_prefix (not_excluded_prefixes hne).1 (show root.path <+: el.path from ⟨rel, hpath.symm⟩)
      exact ⟨el, ⟨root, by rw [hglob]; simp, helX, hd, hpcr, .inr ⟨hrd, hel', hne⟩⟩, rfl⟩
  · rintro ⟨c, ⟨g, hg, hcX, hcf, hpc, h⟩, rfl⟩
    rw [hglob] at hg
    simp only [List.mem_singleton] at hg
    subst hg
    rcases h with ⟨rfl, _⟩ | ⟨_, hc, hne⟩
    · rw [hrd] at hcf; cases hcf
    · refine ⟨c, by rw [hel, mem_sortEntries]; exact hc, (mem_processElement_iff hf).mpr ⟨?_, .inr ⟨hcf, .inl hne, rfl⟩⟩⟩
      exact isBytecode_false_prefix (not_excluded_prefixes hne).1 (List.prefix_refl _)

theorem ite_ok_eq {ε α : Type} {c : Prop} [Decidable c] {a b : α} {e : ε}
    (h : (if c then (Except.ok a : Except ε α) else .error e) = .ok b) : a = b := by
  split at h
  · cases h; rfl
  · cases h

theorem checkElements_cases {X : Tree} {rn : String} {G els : List Entry} (h : checkElements X rn G = .ok els) :
    els = G ∨ ∃ root, G = [root] ∧ root.isDir = true ∧ els = sortEntries (descendants X root.path) := by
  unfold checkElements at h
  cases G with
  | nil => simp at h
  | cons root more =>
    dsimp only at h
    by_cases hm : (!more.isEmpty) = true
    · rw [if_pos hm] at h
      exact .inl (ite_ok_eq h).symm
    · rw [if_neg hm] at h
      have hm' : more = [] := by simpa using hm
      subst hm'
      by_cases hd : root.isDir = true
      · rw [if_pos hd] at h
        exact .inr ⟨root, rfl, hd, (ite_ok_eq h).symm⟩
      · rw [if_neg hd] at h
        cases h; exact .inl rfl

theorem processInclude_package {fmt : Fmt} {X : Tree} {excl : List String} {rn : String} {spec : PkgSpec} {o : IncObj}
    (hmk : mkPackage X rn spec = .ok o) (hf : spec.formats.contains fmt.name = true) (t : Sel) :
    ∃ pat, parsePattern spec.incl = .ok pat ∧
      (t ∈ processInclude fmt X excl o ↔
        ∃ c, Yields X excl true (match spec.source with | some s => parseRel s | none => []) pat c ∧ t = mkSel fmt o c) := by
  obtain ⟨pat, els, hpat, hce, rfl⟩ := mkPackage_ok hmk
  refine ⟨pat, hpat, ?_⟩
  rcases checkElements_cases hce with rfl | ⟨root, hg, hrd, rfl⟩
  · exact processInclude_plain (o := ⟨true, _, pat, _, _, spec.formats, _⟩) hf rfl t
  · exact processInclude_expanded (o := ⟨true, _, pat, _, _, spec.formats, _⟩) hf rfl hg hrd rfl t

/-! ### locality of `Yields` on the unpacked tree -/

theorem isDirIn_iff {X : Tree} {p : Path} : isDirIn X p = true ↔ ∃ e ∈ X, e.path = p ∧ e.isDir = true := by
  unfold isDirIn
  rw [List.any_eq_true]
  constructor
  · rintro ⟨e, he, hc⟩; simp only [Bool.and_eq_true, beq_iff_eq] at hc; exact ⟨e, he, hc.1, hc.2⟩
  · rintro ⟨e, he, h1, h2⟩; exact ⟨e, he, by simp [h1, h2]⟩

theorem yields_agree {T : Tree} (wf : TreeWF T) {S : List Sel} {txt : String}
    (hS : ∀ s ∈ S, ∃ c ∈ T, c.path = s.arc) {exT exU : List String}
    (hex : ∀ s ∈ S, ∀ q, q ≠ [] → q <+: s.arc → (posix q ∈ exU ↔ posix q ∈ exT))
    (hroot : ∀ e ∈ T, e.path = [] → e.isDir = true)
    {isPkg : Bool} {base : Path} {pat : Pattern} {c : Entry}
    (hcU : c ∈ unpack T S txt) (hcpk : c ≠ pkgInfoEntry txt) :
    Yields (unpack T S txt) exU isPkg base pat c ↔ (Yields T exT isPkg base pat c) := by
  -- c is an entry of T that was packed
  obtain ⟨hcT, s, hs, hcs, hck⟩ : c ∈ T ∧ ∃ s ∈ S, c.path <+: s.arc ∧ (c.isDir = true ∨ c.path = s.arc) := by
    rcases mem_unpack_iff.mp hcU with h | h
    · exact h
    · exact absurd h hcpk
  have hexc : c.isDir = false → isExcluded exU c.path = isExcluded exT c.path := by
    intro hcf
    have hne : c.path ≠ [] := by
      intro h0; have := hroot c hcT h0; rw [hcf] at this; cases this
    apply isExcluded_congr hne
    intro q hq hqc
    exact hex s hs q hq (hqc.trans hcs)
  constructor
  · rintro ⟨g, hg, _, hcf, hpc, h⟩
    obtain ⟨hbU, hgU, hm⟩ := mem_globFrom_iff.mp hg
    have hgT : g ∈ T := by
      rcases mem_unpack_iff.mp hgU with h1 | h1
      · exact h1.1
      · exfalso
        rcases h with ⟨rfl, _⟩ | ⟨hd, _, _⟩
        · exact hcpk h1
        · rw [h1] at hd; simp [pkgInfoEntry] at hd
    refine ⟨g, mem_globFrom_iff.mpr ⟨isDirIn_unpack hbU, hgT, hm⟩, hcT, hcf, hpc, ?_⟩
    rcases h with ⟨rfl, himp⟩ | ⟨hd, hc, hne⟩
    · exact .inl ⟨rfl, fun hp => by rw [← hexc hcf]; exact himp hp⟩
    · obtain ⟨_, rel, hrel, hpath⟩ := mem_descendants hc
      exact .inr ⟨hd, mem_descendants_iff.mpr ⟨hcT, rel, hrel, hpath⟩, by rw [← hexc hcf]; exact hne⟩
  · rintro ⟨g, hg, _, hcf, hpc, h⟩
    obtain ⟨hbT, hgT, rel0, hrel0, hm⟩ := mem_globFrom_iff.mp hg
    have hgc : g.path <+: c.path := by
      rcases h with ⟨rfl, _⟩ | ⟨_, hc, _⟩
      · exact List.prefix_refl _
      · obtain ⟨_, rel, _, hpath⟩ := mem_descendants hc; exact ⟨rel, hpath.symm⟩
    have hck' : c.path = s.arc := by
      rcases hck with h1 | h1
      · rw [hcf] at h1; cases h1
      · exact h1
    have hgU : g ∈ unpack T S txt := by
      rcases h with ⟨rfl, _⟩ | ⟨hd, _, _⟩
      · exact hcU
      · exact mem_unpack_iff.mpr (.inl ⟨hgT, s, hs, hgc.trans hcs, .inl hd⟩)
    have hbU : isDirIn (unpack T S txt) base = true := by
      obtain ⟨b, hb, hbp, hbd⟩ := isDirIn_iff.mp hbT
      refine isDirIn_iff.mpr ⟨b, mem_unpack_iff.mpr (.inl ⟨hb, s, hs, ?_, .inl hbd⟩), hbp, hbd⟩
      rw [hbp]
      exact (show base <+: g.path from ⟨rel0, (stripBase_eq_some.mp hrel0).symm⟩).trans (hgc.trans hcs)
    refine ⟨g, mem_globFrom_iff.mpr ⟨hbU, hgU, rel0, hrel0, hm⟩, hcU, hcf, hpc, ?_⟩
    rcases h with ⟨rfl, himp⟩ | ⟨hd, hc, hne⟩
    · exact .inl ⟨rfl, fun hp => by rw [hexc hcf]; exact himp hp⟩
    · obtain ⟨_, rel, hrel, hpath⟩ := mem_descendants hc
      exact .inr ⟨hd, mem_descendants_iff.mpr ⟨hcU, rel, hrel, hpath⟩, by rw [hexc hcf]; exact hne⟩

/-! ### the list of offers (before `set` de-duplication) -/

/-- what `find_files_to_add` offers to its set, in order -/
def offers (fmt : Fmt) (X : Tree) (cfg : Cfg) (ig : List String) : PyM (List Sel) := do
  let (pobjs, iobjs) ← mkModule fmt X cfg
  let excl ← excludedSet fmt X cfg ig iobjs
  .ok ((pobjs ++ iobjs).flatMap (processInclude fmt X excl))

theorem findFilesToAdd_offers {fmt : Fmt} {X : Tree} {cfg : Cfg} {ig : List String} {W : List Sel}
    (h : findFilesToAdd fmt X cfg ig = .ok W) :
    ∃ L, offers fmt X cfg ig = .ok L ∧ W = L.foldl addSel [] := by
  obtain ⟨p, i, excl, hm, hx, rfl⟩ := findFilesToAdd_ok h
  exact ⟨_, by simp [offers, hm, hx, bind, Except.bind], rfl⟩

theorem defaultPackage_formats {X : Tree} {name : String} {d : PkgSpec} (h : defaultPackage X name = .ok d) :
    d.formats = Gen.defaultPackageFormats := by
  unfold defaultPackage at h
  dsimp only at h
  repeat' split at h
  all_goals first | (cases h; rfl) | cases h

theorem modulePackages_formats {fmt : Fmt} {X : Tree} {cfg : Cfg} {pkgs : List PkgSpec}
    (h : modulePackages fmt X cfg = .ok pkgs) : ∀ p ∈ pkgs, p.formats.contains fmt.name = true := by
  unfold modulePackages at h
  dsimp only at h
  split at h
  · split at h
    · rename_i d hd
      cases h
      intro p hp
      simp only [List.mem_singleton] at hp
      subst hp
      rw [defaultPackage_formats hd]
      cases fmt <;> decide
    · cases h
  · cases h
    intro p hp
    exact (List.mem_filter.mp hp).2

theorem mkSel_congr {fmt : Fmt} {o1 o2 : IncObj} (c : Entry) (h1 : o1.isPackage = o2.isPackage)
    (h2 : o1.source = o2.source) (h3 : o1.target = o2.target) (h4 : o1.base = o2.base) :
    mkSel fmt o1 c = mkSel fmt o2 c := by
  unfold mkSel; rw [h1, h2, h3, h4]

/-- membership in the offers, phrased on the configuration (not on the objects built from a particular tree) -/
theorem mem_offers {fmt : Fmt} {X : Tree} {cfg : Cfg} {ig : List String} {L : List Sel}
    (h : offers fmt X cfg ig = .ok L) :
    ∃ pobjs iobjs excl pkgs, mkModule fmt X cfg = .ok (pobjs, iobjs) ∧ excludedSet fmt X cfg ig iobjs = .ok excl ∧
      modulePackages fmt X cfg = .ok pkgs ∧
      ∀ t, t ∈ L ↔
        (∃ spec ∈ pkgs, ∃ o pat, mkPackage X cfg.rootName spec = .ok o ∧ parsePattern spec.incl = .ok pat ∧
            ∃ c, Yields X excl true (match spec.source with | some s => parseRel s | none => []) pat c ∧ t = mkSel fmt o c) ∨
        (∃ spec ∈ cfg.includes, fmt.name ∈ spec.formats ∧ ∃ o pat, mkInclude X spec = .ok o ∧ parsePattern spec.path = .ok pat ∧
            ∃ c, Yields X excl false [] pat c ∧ t = mkSel fmt o c) := by
  unfold offers at h
  cases hm : mkModule fmt X cfg with
  | error e => simp [hm, bind, Except.bind] at h
  | ok m =>
    obtain ⟨pobjs, iobjs⟩ := m
    cases hx : excludedSet fmt X cfg ig iobjs with
    | error e => simp [hm, hx, bind, Except.bind] at h
    | ok excl =>
      simp only [hm, hx, bind, Except.bind] at h
      cases h
      obtain ⟨_, i2, i3, pkgs, hpk, hmap⟩ := mkModule_ok hm
      obtain ⟨p1, p2⟩ := mapM_ok_mem hmap
      have hfm := modulePackages_formats hpk
      refine ⟨pobjs, iobjs, excl, pkgs, rfl, hx, hpk, ?_⟩
      intro t
      simp only [List.mem_flatMap, List.mem_append]
      constructor
      · rintro ⟨o, ho | ho, ht⟩
        · obtain ⟨spec, hs, hmk⟩ := p1 o ho
          obtain ⟨pat, hpat, hiff⟩ := processInclude_package (excl := excl) hmk (hfm spec hs) t
          exact .inl ⟨spec, hs, o, pat, hmk, hpat, hiff.mp ht⟩
        · obtain ⟨spec, hs, hf, hmk⟩ := i2 o ho
          obtain ⟨pat, hpat, hnp, hfo, hel, _⟩ := mkInclude_ok hmk
          have hfc : o.formats.contains fmt.name = true := by rw [hfo]; simpa using hf
          have := (processInclude_plain (excl := excl) hfc hel t).mp ht
          rw [hnp] at this
          exact .inr ⟨spec, hs, hf, o, pat, hmk, hpat, this⟩
      · rintro (⟨spec, hs, o, pat, hmk, hpat, hy⟩ | ⟨spec, hs, hf, o, pat, hmk, hpat, hy⟩)
        · obtain ⟨o', ho', hmk'⟩ := p2 spec hs
          rw [hmk] at hmk'; cases hmk'
          obtain ⟨pat', hpat', hiff⟩ := processInclude_package (excl := excl) hmk (hfm spec hs) t
          rw [hpat] at hpat'; cases hpat'
          exact ⟨o, .inl ho', hiff.mpr hy⟩
        · obtain ⟨o', ho', hmk'⟩ := i3 spec hs hf
          rw [hmk] at hmk'; cases hmk'
          obtain ⟨pat', hpat', hnp, hfo, hel, _⟩ := mkInclude_ok hmk
          rw [hpat] at hpat'; cases hpat'
          have hfc : o.formats.contains fmt.name = true := by rw [hfo]; simpa using hf
          exact ⟨o, .inr ho', (processInclude_plain (excl := excl) hfc hel t).mpr (by rw [hnp]; exact hy)⟩

/-- with unambiguous archive names the set keeps exactly the offers -/
theorem mem_foldl_addSel_functional {L : List Sel} (hfun : ∀ a ∈ L, ∀ b ∈ L, a.src = b.src → a = b) (t : Sel) :
    t ∈ L.foldl addSel [] ↔ t ∈ L := by
  constructor
  · intro h
    rcases mem_foldl_addSel h with h | h
    · simp at h
    · exact h
  · intro h
    obtain ⟨s, hs, hsrc⟩ := src_mem_foldl_addSel (acc := []) h
    have hsL : s ∈ L := by
      rcases mem_foldl_addSel hs with h' | h'
      · simp at h'
      · exact h'
    rw [← hfun s hsL t h hsrc]; exact hs

theorem mkInclude_eq {X : Tree} {spec : IncSpec} {o : IncObj} (h : mkInclude X spec = .ok o) :
    o.isPackage = false ∧ o.base = [] ∧ o.source = none ∧ o.target = none := by
  unfold mkInclude at h
  cases hp : parsePattern spec.path with
  | error e => simp [hp, bind, Except.bind] at h
  | ok pat => simp [hp, bind, Except.bind] at h; subst h; exact ⟨rfl, rfl, rfl, rfl⟩

theorem mkPackage_fields {X : Tree} {rn : String} {spec : PkgSpec} {o : IncObj} (h : mkPackage X rn spec = .ok o) :
    o.isPackage = true ∧ o.base = (match spec.source with | some s => parseRel s | none => []) ∧
      o.source = spec.source.map parseRel ∧ o.target = spec.target.map parseRel := by
  obtain ⟨pat, els, _, _, rfl⟩ := mkPackage_ok h
  exact ⟨rfl, rfl, rfl, rfl⟩

/-- every element of the sdist selection is an entry of the tree, kept under its own path -/
theorem select_sdist_entries {T : Tree} {cfg : Cfg} {ig : List String} {S : List Sel}
    (h : select .sdist T cfg ig = .ok S) : ∀ s ∈ S, s.arc = s.src ∧ ∃ c ∈ T, c.path = s.arc := by
  unfold select at h
  cases hB : findFilesToAdd .sdist T cfg ig with
  | error e => simp [hB, bind, Except.bind] at h
  | ok B =>
    cases hA : sdistAdditional T cfg with
    | error e => simp [hB, hA, bind, Except.bind] at h
    | ok A =>
      simp [hB, hA, bind, Except.bind] at h
      subst h
      intro s hs
      have hor : s ∈ B ∨ (Fmt.sdist = Fmt.sdist ∧ ∃ A', sdistAdditional T cfg = .ok A' ∧ s ∈ A') := by
        rcases mem_foldl_addSel hs with h1 | h1
        · exact .inl h1
        · exact .inr ⟨rfl, A, hA, h1⟩
      have harc := sdist_arc_eq_src hor hB hA
      refine ⟨harc, ?_⟩
      rw [harc]
      rcases hor with h1 | ⟨_, A', hA', h1⟩
      · obtain ⟨L, hL, rfl⟩ := findFilesToAdd_offers hB
        have h1' : s ∈ L := by
          rcases mem_foldl_addSel h1 with h2 | h2
          · simp at h2
          · exact h2
        obtain ⟨_, _, _, _, _, _, _, hiff⟩ := mem_offers hL
        rcases (hiff s).mp h1' with ⟨_, _, _, _, _, _, c, ⟨_, _, hc, _⟩, rfl⟩ | ⟨_, _, _, _, _, _, _, c, ⟨_, _, hc, _⟩, rfl⟩
        · exact ⟨c, hc, rfl⟩
        · exact ⟨c, hc, rfl⟩
      · rw [hA] at hA'; cases hA'
        unfold sdistAdditional at hA
        cases hsc : scriptFiles T cfg with
        | error e => simp [hsc, bind, Except.bind] at hA
        | ok scripts =>
          simp only [hsc, bind, Except.bind] at hA
          cases hA
          rw [List.mem_filterMap] at h1
          obtain ⟨p, _, hp⟩ := h1
          split at hp
          · rename_i e he
            simp at hp; subst hp
            exact ⟨e, List.mem_of_find?_eq_some he, by simpa using List.find?_some he⟩
          · simp at hp

/-- **Core of the wheel-from-sdist argument**: under the named hypotheses the offers made on the unpacked sdist
are exactly the offers made on the source tree whose file was packed. -/
theorem offers_unpack {T : Tree} (wf : TreeWF T) {cfg : Cfg} {ig : List String} {S : List Sel} {txt : String}
    {LT LU : List Sel}
    (hS : select .sdist T cfg ig = .ok S)
    (hLT : offers .wheel T cfg ig = .ok LT) (hLU : offers .wheel (unpack T S txt) cfg [] = .ok LU)
    (hPkgs : modulePackages .wheel (unpack T S txt) cfg = modulePackages .wheel T cfg)
    (hVcs : ∀ s ∈ S, ∀ q, q ≠ [] → q <+: s.src → posix q ∉ ig)
    (t : Sel) :
    (t ∈ LU → t.src ≠ [Gen.sdistPkgInfoName] → t ∈ LT) ∧
    (t ∈ LT → (∃ s ∈ S, s.src = t.src) → t ∈ LU) := by
  have hent := select_sdist_entries hS
  have hS' : ∀ s ∈ S, ∃ c ∈ T, c.path = s.arc := fun s hs => (hent s hs).2
  obtain ⟨pT, iT, exT, pkgsT, hmT, hxT, hpkT, hiffT⟩ := mem_offers hLT
  obtain ⟨pU, iU, exU, pkgsU, hmU, hxU, hpkU, hiffU⟩ := mem_offers hLU
  have hpk : pkgsU = pkgsT := by rw [hPkgs, hpkT] at hpkU; cases hpkU; rfl
  subst hpk
  have hvcs' : ∀ s ∈ S, ∀ q, q ≠ [] → q <+: s.arc → posix q ∉ ig := by
    intro s hs q hq hpre; exact hVcs s hs q hq ((hent s hs).1 ▸ hpre)
  have hex : ∀ s ∈ S, ∀ q, q ≠ [] → q <+: s.arc → (posix q ∈ exU ↔ posix q ∈ exT) :=
    fun s hs q hq hpre => excluded_agree wf hS' hmT hmU hxT hxU hvcs' hq hs hpre
  obtain ⟨_, _, t3, pkT, hpkT', hmapT⟩ := mkModule_ok hmT
  obtain ⟨_, _, u3, pkU, hpkU', hmapU⟩ := mkModule_ok hmU
  rw [hpkT] at hpkT'; cases hpkT'
  rw [hpkU] at hpkU'; cases hpkU'
  obtain ⟨_, pT2⟩ := mapM_ok_mem hmapT
  obtain ⟨_, pU2⟩ := mapM_ok_mem hmapU
  have pkne : ∀ c : Entry, c.path ≠ [Gen.sdistPkgInfoName] → c ≠ pkgInfoEntry txt := by
    intro c h h0; rw [h0] at h; exact h rfl
  constructor
  · intro ht hne
    rcases (hiffU t).mp ht with ⟨spec, hs, o, pat, hmk, hpat, c, hy, rfl⟩ | ⟨spec, hs, hf, o, pat, hmk, hpat, c, hy, rfl⟩
    · have hcU : c ∈ unpack T S txt := by obtain ⟨_, _, h, _⟩ := hy; exact h
      have hy' := (yields_agree wf hS' hex wf.rootDir hcU (pkne c hne)).mp hy
      obtain ⟨o', _, hmk'⟩ := pT2 spec hs
      obtain ⟨a1, a2, a3, a4⟩ := mkPackage_fields hmk
      obtain ⟨b1, b2, b3, b4⟩ := mkPackage_fields hmk'
      refine (hiffT _).mpr (.inl ⟨spec, hs, o', pat, hmk', hpat, c, hy', ?_⟩)
      exact mkSel_congr c (a1.trans b1.symm) (a3.trans b3.symm) (a4.trans b4.symm) (a2.trans b2.symm)
    · have hcU : c ∈ unpack T S txt := by obtain ⟨_, _, h, _⟩ := hy; exact h
      have hy' := (yields_agree wf hS' hex wf.rootDir hcU (pkne c hne)).mp hy
      obtain ⟨o', _, hmk'⟩ := t3 spec hs hf
      obtain ⟨pat', hpat', _⟩ := mkInclude_ok hmk'
      obtain ⟨a1, a2, a3, a4⟩ := mkInclude_eq hmk
      obtain ⟨b1, b2, b3, b4⟩ := mkInclude_eq hmk'
      refine (hiffT _).mpr (.inr ⟨spec, hs, hf, o', pat, hmk', hpat, c, hy', ?_⟩)
      exact mkSel_congr c (a1.trans b1.symm) (a3.trans b3.symm) (a4.trans b4.symm) (a2.trans b2.symm)
  · rintro ht ⟨s, hs, hsrc⟩
    -- the entry behind `t` is a file of T that was packed under the same path
    have packed : ∀ c : Entry, c ∈ T → c.isDir = false → c.path = t.src →
        c ∈ unpack T S txt ∧ c ≠ pkgInfoEntry txt := by
      intro c hc hcf hcp
      have harc : c.path = s.arc := by rw [(hent s hs).1, hsrc, hcp]
      refine ⟨mem_unpack_iff.mpr (.inl ⟨hc, s, hs, harc ▸ List.prefix_refl _, .inr harc⟩), ?_⟩
      intro h0
      have := wf.noPkgInfo c hc c.path (List.prefix_refl _)
      rw [h0] at this
      exact this (posix_singleton _)
    rcases (hiffT t).mp ht with ⟨spec, hsp, o, pat, hmk, hpat, c, hy, rfl⟩ | ⟨spec, hsp, hf, o, pat, hmk, hpat, c, hy, rfl⟩
    · obtain ⟨hcT, hcf⟩ : c ∈ T ∧ c.isDir = false := by obtain ⟨_, _, h1, h2, _⟩ := hy; exact ⟨h1, h2⟩
      obtain ⟨hcU, hcne⟩ := packed c hcT hcf rfl
      have hy' := (yields_agree wf hS' hex wf.rootDir hcU hcne).mpr hy
      obtain ⟨o', _, hmk'⟩ := pU2 spec hsp
      obtain ⟨a1, a2, a3, a4⟩ := mkPackage_fields hmk
      obtain ⟨b1, b2, b3, b4⟩ := mkPackage_fields hmk'
      refine (hiffU _).mpr (.inl ⟨spec, hsp, o', pat, hmk', hpat, c, hy', ?_⟩)
      exact mkSel_congr c (a1.trans b1.symm) (a3.trans b3.symm) (a4.trans b4.symm) (a2.trans b2.symm)
    · obtain ⟨hcT, hcf⟩ : c ∈ T ∧ c.isDir = false := by obtain ⟨_, _, h1, h2, _⟩ := hy; exact ⟨h1, h2⟩
      obtain ⟨hcU, hcne⟩ := packed c hcT hcf rfl
      have hy' := (yields_agree wf hS' hex wf.rootDir hcU hcne).mpr hy
      obtain ⟨o', _, hmk'⟩ := u3 spec hsp hf
      obtain ⟨a1, a2, a3, a4⟩ := mkInclude_eq hmk
      obtain ⟨b1, b2, b3, b4⟩ := mkInclude_eq hmk'
      refine (hiffU _).mpr (.inr ⟨spec, hsp, hf, o', pat, hmk', hpat, c, hy', ?_⟩)
      exact mkSel_congr c (a1.trans b1.symm) (a3.trans b3.symm) (a4.trans b4.symm) (a2.trans b2.symm)

/-- a packed file is found with the same content in both trees -/
theorem find_agree {T : Tree} (wf : TreeWF T) {S : List Sel} {txt : String} {c : Entry} (hc : c ∈ T)
    (hcU : c ∈ unpack T S txt) :
    T.find? (fun e => e.path == c.path) = some c ∧ (unpack T S txt).find? (fun e => e.path == c.path) = some c := by
  have key : ∀ X : Tree, c ∈ X → (∀ e ∈ X, e.path = c.path → e = c) → X.find? (fun e => e.path == c.path) = some c := by
    intro X hcX huniq
    cases hf : X.find? (fun e => e.path == c.path) with
    | none =>
      rw [List.find?_eq_none] at hf
      exact absurd (by simp) (hf c hcX)
    | some e =>
      have h1 := List.mem_of_find?_eq_some hf
      have h2 : e.path = c.path := by simpa using List.find?_some hf
      rw [huniq e h1 h2]
  refine ⟨key T hc (fun e he hp => wf.nodup e he c hc hp), key _ hcU ?_⟩
  intro e he hp
  rcases mem_unpack_iff.mp he with ⟨heT, _⟩ | rfl
  · exact wf.nodup e heT c hc hp
  · exfalso
    have := wf.noPkgInfo c hc c.path (List.prefix_refl _)
    rw [← hp] at this
    exact this (posix_singleton _)

/-! ### a decidable check of `TreeWF` (for concrete trees) -/

def prefixesOf (p : Path) : List Path := (List.range (p.length + 1)).map (fun k => p.take k)

theorem mem_prefixesOf {q p : Path} (h : q <+: p) : q ∈ prefixesOf p := by
  unfold prefixesOf
  rw [List.mem_map]
  refine ⟨q.length, List.mem_range.mpr (Nat.lt_succ_of_le h.length_le), ?_⟩
  exact (List.prefix_iff_eq_take.mp h).symm

def treeWFb (T : Tree) : Bool :=
  T.all (fun a => T.all (fun b => decide (a.path = b.path → a = b))) &&
  T.all (fun e => e.isDir || T.all (fun c => decide (e.path <+: c.path → c.path = e.path))) &&
  T.all (fun e => T.all (fun c => (prefixesOf c.path).all (fun q => decide (posix e.path = posix q → e.path = q)))) &&
  T.all (fun c => (prefixesOf c.path).all (fun q => decide (posix q ≠ Gen.sdistPkgInfoName))) &&
  T.all (fun e => decide (e.path = [] → e.isDir = true))

theorem treeWF_of_check {T : Tree} (h : treeWFb T = true) : TreeWF T := by
  unfold treeWFb at h
  simp only [Bool.and_eq_true, List.all_eq_true, decide_eq_true_eq, Bool.or_eq_true] at h
  obtain ⟨⟨⟨⟨h1, h2⟩, h3⟩, h4⟩, h5⟩ := h
  refine ⟨fun a ha b hb => h1 a ha b hb, ?_, ?_, ?_, fun e he => h5 e he⟩
  · intro e he hd c hc hp
    rcases h2 e he with h | h
    · rw [hd] at h; cases h
    · exact h c hc hp
  · intro e he c hc q hq; exact h3 e he c hc q (mem_prefixesOf hq)
  · intro c hc q hq; exact h4 c hc q (mem_prefixesOf hq)

end Poetry.Select
