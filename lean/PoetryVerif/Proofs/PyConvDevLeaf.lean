/-
The two python items wildcard ranges print — `python_version >= "X.Y.dev0"` and `python_version < "X.Y.dev0"` — as
`SingleMarker`s: construction, coherence, and their value under poetry's own `validate` (helper lemmas for C11).
-/
import PoetryVerif.Proofs.PyConvDev
import PoetryVerif.Proofs.PyConvPoetry

set_option linter.unusedSimpArgs false
set_option linter.unusedVariables false

namespace Poetry.Marker
open Poetry Poetry.Version Poetry.VParser Std

attribute [local instance] lexOrd

/-! ### order: a final release against a dev-release -/

theorem cmp_final_dev (l1 l2 : List Nat) :
    Version.cmp (finalV l1) (devV l2) = (compare (stripZeros l1) (stripZeros l2)).then .gt := by
  unfold Version.cmp cmpKey key preK postK devK
  simp only [finalV, devV, compare_pair, compare_self_eq, Option.isNone_none, Option.isSome_some, Option.isSome_none,
    Bool.and_self, Bool.and_true, Bool.and_false, Bool.false_eq_true, if_false, if_true]
  cases compare (stripZeros l1) (stripZeros l2) <;> simp [compare_inf_negInf, Ordering.then]

/-- `>=X.Y.dev0` admits the final release `l` iff its release key is not below `X.Y` -/
theorem allows_ge_dev (lit l : List Nat) :
    (VRange.mk (some (devV lit)) none true false).allows (finalV l) =
      (compare (stripZeros l) (stripZeros lit) != .lt) := by
  have hc := cmp_final_dev l lit
  have hl1 : (finalV l).isLocal = false := rfl
  have hl2 : (devV lit).isLocal = false := rfl
  simp only [VRange.allows, VRange.allowsLo, VRange.allowsHi, VRange.allowedMax, Bool.and_true]
  cases h : compare (stripZeros l) (stripZeros lit) <;>
    simp [h, Ordering.then] at hc <;>
    simp [Version.lt, Version.eqv, hc, hl1, hl2]

/-- `<X.Y.dev0` admits the final release `l` iff its release key is below `X.Y` -/
theorem allows_lt_dev (lit l : List Nat) :
    (VRange.mk none (some (devV lit)) false false).allows (finalV l) =
      (compare (stripZeros l) (stripZeros lit) == .lt) := by
  have hc := cmp_final_dev l lit
  have hu : (devV lit).isUnstable = true := by simp [Version.isUnstable, Version.isDevrelease, devV]
  simp only [VRange.allows, VRange.allowsLo, VRange.allowsHi, VRange.allowedMax, Bool.true_and, hu, Bool.or_true,
    if_true]
  have hl1 : (finalV l).isLocal = false := rfl
  have hl2 : (devV lit).isLocal = false := rfl
  cases h : compare (stripZeros l) (stripZeros lit) <;>
    simp [h, Ordering.then] at hc <;>
    simp [Version.gt, Version.eqv, hc, hl1, hl2]


/-! ### the two leaves -/

theorem devChars_valueOk (a : Nat) (r : List Nat) : valueOk (devChars (a :: r)) := by
  refine ⟨by simp [devChars], fun c hc => ((noSep_devChars (a :: r)) c hc).2.2.2⟩

/-- the constraint of `python_version >= "X.Y.dev0"` / `< "X.Y.dev0"` -/
def devGe (lit : List Nat) : VC := .single (.rng ⟨some (devV lit), none, true, false⟩)
def devLt (lit : List Nat) : VC := .single (.rng ⟨none, some (devV lit), false, false⟩)

theorem leafPrepare_pv_dev (ops : String) (hop : ops = ">=" ∨ ops = "<") (a : Nat) (r : List Nat) :
    leafPrepare "python_version" (ops ++ devText (a :: r)) false =
      .ok { name := "python_version", op := ops, value := devText (a :: r), swapped := false,
            cstr := ops ++ devText (a :: r), kind := .version true } := by
  obtain ⟨d, ds, hd, hdig⟩ := relChars_head a r
  have hvo := devChars_valueOk a r
  have hdc : devChars (a :: r) = d :: (ds ++ ['.', 'd', 'e', 'v', '0']) := by simp [devChars, hd]
  rw [hdc] at hvo
  have hne : d ≠ '=' := by intro e; subst e; exact absurd hdig (by decide)
  have hs : String.ofList (d :: (ds ++ ['.', 'd', 'e', 'v', '0'])) = devText (a :: r) := by
    rw [← hdc, ofList_devChars]
  have hm : matchPattern1 (ops ++ devText (a :: r)).toList = some (some ops, devText (a :: r)) := by
    rcases hop with rfl | rfl
    · have : (">=" ++ devText (a :: r)).toList = '>' :: '=' :: d :: (ds ++ ['.', 'd', 'e', 'v', '0']) := by
        simp [devText_toList, hdc]
      rw [this, matchPattern1_ge _ _ hvo, hs]
    · have : ("<" ++ devText (a :: r)).toList = '<' :: d :: (ds ++ ['.', 'd', 'e', 'v', '0']) := by
        simp [devText_toList, hdc]
      rw [this, matchPattern1_lt _ _ hne hvo, hs]
  have hl : (ops == "in") = false ∧ (ops == "not in") = false := by rcases hop with rfl | rfl <;> decide
  unfold leafPrepare
  simp only [Bool.false_eq_true, if_false, hm, Option.getD_some, hl.1, hl.2, Bool.false_and, Bool.or_false]
  have f1 : Gen.versionLikeMarkerNames.contains "python_version" = true := by decide
  have f2 : ("python_version" == "python_full_version") = false := by decide
  have f3 : aliasName "python_version" = "python_version" := by decide
  have f4 : ("python_version" != "platform_release") = true := by decide
  have f1' : "python_version" ∈ Gen.versionLikeMarkerNames := by decide
  simp [f1, f1', f2, f3, f4]

theorem mkSingle_ge_dev (a : Nat) (r : List Nat) :
    mkSingle "python_version" (">=" ++ devText (a :: r)) false =
      .ok ⟨"python_version", ">=", devText (a :: r), false, .ver (devGe (a :: r))⟩ := by
  simp [mkSingle, leafPrepare_pv_dev ">=" (Or.inl rfl) a r, bind, Except.bind,
    parseByKind_ver _ _ (pmvc_ge_dev a r), pure, Except.pure, devGe]

theorem mkSingle_lt_dev (a : Nat) (r : List Nat) :
    mkSingle "python_version" ("<" ++ devText (a :: r)) false =
      .ok ⟨"python_version", "<", devText (a :: r), false, .ver (devLt (a :: r))⟩ := by
  simp [mkSingle, leafPrepare_pv_dev "<" (Or.inr rfl) a r, bind, Except.bind,
    parseByKind_ver _ _ (pmvc_lt_dev a r), pure, Except.pure, devLt]

/-- value of the two items under poetry's own evaluation, on an environment with `python_version = "X.Y"` -/
theorem itemV_ge_dev (E : Env) (a : Nat) (r : List Nat) (X Y : Nat)
    (hE : E.get? "python_version" = some (Version.relText [X, Y])) :
    itemV E "python_version" ">=" (devText (a :: r)) false =
      .ok (compare (stripZeros [X, Y]) (stripZeros (a :: r)) != .lt) ∧
    itemCoherent "python_version" ">=" (devText (a :: r)) false = true := by
  have hm := mkSingle_ge_dev a r
  constructor
  · simp only [itemV, itemConstraintString, Bool.false_eq_true, if_false, hm]
    rw [validateLike_ver _ (by decide) _ E X [Y] hE]
    show (devGe (a :: r)).allows (finalV [X, Y]) = _
    simp only [devGe, VC.allows, RC.allows, allows_ge_dev]
  · simp [itemCoherent, Single.coherent, itemConstraintString, hm]

theorem itemV_lt_dev (E : Env) (a : Nat) (r : List Nat) (X Y : Nat)
    (hE : E.get? "python_version" = some (Version.relText [X, Y])) :
    itemV E "python_version" "<" (devText (a :: r)) false =
      .ok (compare (stripZeros [X, Y]) (stripZeros (a :: r)) == .lt) ∧
    itemCoherent "python_version" "<" (devText (a :: r)) false = true := by
  have hm := mkSingle_lt_dev a r
  constructor
  · simp only [itemV, itemConstraintString, Bool.false_eq_true, if_false, hm]
    rw [validateLike_ver _ (by decide) _ E X [Y] hE]
    show (devLt (a :: r)).allows (finalV [X, Y]) = _
    simp only [devLt, VC.allows, RC.allows, allows_lt_dev]
  · simp [itemCoherent, Single.coherent, itemConstraintString, hm]

end Poetry.Marker
