/-
C14: the `VersionUnion` branch of `format_python_constraint` (Model/Dep02) prints constants of the source only, so
its output is single-line — one printer fact of `Printers` discharged.  Core Lean only.
-/
import PoetryVerif.Proofs.MetaPrinters
import PoetryVerif.Model.Dep02

set_option linter.unusedSimpArgs false
set_option linter.unusedVariables false

namespace Poetry.Meta
open Poetry Poetry.Dep02

theorem pythonVersionList_singleLine :
    ∀ v ∈ Gen.pythonVersionList, SingleLine v ∧ SingleLine (firstTwo v) ∧ SingleLine ("!=" ++ v) := by decide

theorem formatUnion_inv (c : VC) : ∀ (vs : List String) (f a : List String), formatUnion c vs = .ok (f, a) →
    (∀ x ∈ f, ∃ v ∈ vs, x = "!=" ++ v) ∧ (∀ x ∈ a, x ∈ vs)
  | [], f, a, h => by
    simp [formatUnion, pure, Except.pure] at h
    obtain ⟨rfl, rfl⟩ := h
    simp
  | v :: rest, f, a, h => by
    simp only [formatUnion, bind, Except.bind, pure, Except.pure] at h
    cases h1 : VParser.parseConstraint v with
    | error e => simp [h1] at h
    | ok vc =>
      simp only [h1] at h
      cases h2 : c.allowsAny vc with
      | error e => simp [h2] at h
      | ok hit =>
        simp only [h2] at h
        cases h3 : formatUnion c rest with
        | error e => simp [h3] at h
        | ok fa =>
          obtain ⟨f', a'⟩ := fa
          simp only [h3] at h
          have ih := formatUnion_inv c rest f' a' h3
          cases hit with
          | true =>
            simp at h
            obtain ⟨rfl, rfl⟩ := h
            refine ⟨fun x hx => ?_, fun x hx => ?_⟩
            · obtain ⟨w, hw, rfl⟩ := ih.1 x hx
              exact ⟨w, by simp [hw], rfl⟩
            · simp at hx
              rcases hx with rfl | hx
              · simp
              · simp [ih.2 x hx]
          | false =>
            simp at h
            obtain ⟨rfl, rfl⟩ := h
            refine ⟨fun x hx => ?_, fun x hx => ?_⟩
            · simp at hx
              rcases hx with rfl | hx
              · exact ⟨v, by simp, rfl⟩
              · obtain ⟨w, hw, rfl⟩ := ih.1 x hx
                exact ⟨w, by simp [hw], rfl⟩
            · simp [ih.2 x hx]

/-- **`format_python_constraint` of a union is single-line** (`>=X.Y, !=A.B.*, …`: entries of `PYTHON_VERSION`) -/
theorem formatPython_union_singleLine (rs : List RC) (t : String)
    (h : formatPythonConstraint (.union rs) = .ok t) : SingleLine t := by
  simp only [formatPythonConstraint, bind, Except.bind, pure, Except.pure] at h
  cases hf : formatUnion (.union rs) Gen.pythonVersionList with
  | error e => simp [hf] at h
  | ok fa =>
    obtain ⟨f, a⟩ := fa
    simp only [hf] at h
    have inv := formatUnion_inv _ _ f a hf
    cases a with
    | nil => simp at h
    | cons low _ =>
      simp at h
      subst h
      apply joinWith_singleLine ", " (by decide)
      intro x hx
      simp at hx
      rcases hx with rfl | hx
      · have hl := (pythonVersionList_singleLine low (inv.2 low (by simp))).2.1
        rw [singleLine_append]
        exact ⟨by decide, hl⟩
      · obtain ⟨w, hw, rfl⟩ := inv.1 x hx
        exact (pythonVersionList_singleLine w hw).2.2

end Poetry.Meta
