/-
Containment / overlap answers for arbitrary constraints in the regular setting (helper lemmas for C12).
-/
import PoetryVerif.Proofs.VRangeDiffU
import PoetryVerif.Proofs.VRangeSelf

set_option linter.unusedSimpArgs false
set_option linter.unusedVariables false

namespace Poetry
open Version

/-- the overlap test on views -/
def ov (x y : RC) : Bool := !(y.view.isStrictlyLower x.view || x.view.isStrictlyLower y.view)

theorem ov_comm (x y : RC) : ov x y = ov y x := by simp [ov, Bool.or_comm]

/-- the `any(...)` of `VersionRange.allows_any(VersionUnion)` -/
theorem foldlM_any {B : List Version} (hB : RegB B) (x : RC) (hx : RegMember B x) :
    ∀ (rs : List RC) (acc : Bool), (∀ c ∈ rs, RegMember B c) →
      rs.foldlM (fun acc c => if acc then (pure true : PyM Bool) else RC.allowsAny x c) acc =
        .ok (acc || rs.any (fun c => ov x c))
  | [], acc, _ => by simp [pure, Except.pure]
  | c :: cs, acc, hm => by
    have hc := hm c (by simp)
    have hv := RC.allowsAny_view hB x c hx.1 hc.1 hx.2.2.2 hc.2.2.2
    simp only [List.foldlM_cons, bind, Except.bind]
    cases acc with
    | true =>
      have := foldlM_any hB x hx cs true (fun c' hc' => hm c' (by simp [hc']))
      simpa [pure, Except.pure] using this
    | false =>
      simp only [Bool.false_eq_true, if_false, hv]
      rw [foldlM_any hB x hx cs _ (fun c' hc' => hm c' (by simp [hc']))]
      simp [ov]

/-- the `allows_any` walk against a single member is the `any` over the union's members -/
theorem anyLoop_single {B : List Version} (hB : RegB B) (t : RC) (ht : RegMember B t) :
    ∀ (fuel : Nat) (rs : List RC), rs.length + 1 < fuel → (∀ c ∈ rs, RegMember B c) → SortedRC rs →
      VC.unionAllowsAnyLoop fuel rs [t] = .ok (rs.any (fun o => ov o t))
  | 0, _, hf, _, _ => by omega
  | fuel + 1, [], _, _, _ => by simp [VC.unionAllowsAnyLoop]
  | fuel + 1, o :: os, hf, hm, hs => by
    have ho := hm o (by simp)
    have hv := RC.allowsAny_view hB o t ho.1 ht.1 ho.2.2.2 ht.2.2.2
    simp only [VC.unionAllowsAnyLoop, hv, bind, Except.bind, List.any_cons]
    have hov : ov o t = !(t.view.isStrictlyLower o.view || o.view.isStrictlyLower t.view) := rfl
    rw [← hov]
    cases hq : ov o t
    · simp only [Bool.false_eq_true, if_false, Bool.false_or]
      by_cases hh : t.view.allowsHigher o.view = true
      · simp only [hh, if_true]
        exact anyLoop_single hB t ht fuel os (by simp at hf ⊢; omega) (fun c hc => hm c (by simp [hc]))
          (List.pairwise_cons.1 hs).2
      · simp only [hh, Bool.false_eq_true, if_false]
        simp only [Bool.not_eq_true] at hh
        -- `t` does not reach above `o`: the later members are above `t`
        have : os.any (fun o' => ov o' t) = false := by
          rw [List.any_eq_false]
          intro o' ho'
          have hso : o.view.isStrictlyLower o'.view = true := (List.pairwise_cons.1 hs).1 o' ho'
          have hst : t.view.isStrictlyLower o'.view = true := by
            cases hq' : t.view.isStrictlyLower o'.view
            · have := VRange.sl_mono_hi hh hq'
              rw [hso] at this; cases this
            · rfl
          simp [ov, hst]
        rw [this]
        cases fuel with
        | zero => simp at hf
        | succ f => simp [VC.unionAllowsAnyLoop]
    · simp [pure, Except.pure]

/-- **`allows_any` is "the intersection is not empty"**, for any two well-formed constraints over regular members -/
theorem VC.allowsAny_eq_intersect_reg {B : List Version} (hB : RegB B) (a b : VC) (ha : a.WF) (hb : b.WF)
    (hma : ∀ c ∈ a.flatten, RegMember B c) (hmb : ∀ c ∈ b.flatten, RegMember B c) :
    ∃ y i, VC.allowsAny a b = .ok y ∧ VC.intersect a b = .ok i ∧ y = !i.isEmpty := by
  obtain ⟨i, hi, _, _, _⟩ := VC.intersect_reg hB a b ha hb hma hmb
  cases a with
  | empty =>
    simp only [VC.intersect, Except.ok.injEq] at hi; subst hi
    exact ⟨false, .empty, rfl, rfl, rfl⟩
  | union rs =>
    obtain ⟨y, hy, hyi⟩ := union_allowsAny_iff_intersect rs b
      (fun c hc => ⟨(hma c hc).1, (hma c hc).2.2.1⟩) (fun c hc => ⟨(hmb c hc).1, (hmb c hc).2.2.1⟩)
    exact ⟨y, i, hy, hi, hyi i hi⟩
  | single x =>
    have hx := hma x (by simp [VC.flatten])
    cases x with
    | ver v => exact ⟨!i.isEmpty, i, by simp [VC.allowsAny, hi, bind, Except.bind, pure, Except.pure], hi, rfl⟩
    | rng r =>
      cases b with
      | empty =>
        simp only [VC.intersect, Except.ok.injEq] at hi; subst hi
        exact ⟨false, .empty, rfl, rfl, rfl⟩
      | single c =>
        have hc := hmb c (by simp [VC.flatten])
        have := RC.allowsAny_eq_intersect (.rng r) c hx.1 hc.1 hx.2.2.1 hc.2.2.1
        have hi' : RC.intersect (.rng r) c = .ok i := hi
        rw [hi'] at this
        exact ⟨!i.isEmpty, i, this, hi, rfl⟩
      | union ts =>
        have hfold := foldlM_any hB (.rng r) hx ts false hmb
        have hloop := anyLoop_single hB (.rng r) hx (ts.length + 1 + 1) ts (by omega) hmb hb.2.2.1
        -- `allows_any(union, single)` through the lockstep with the intersection walk
        obtain ⟨y, hy, hyi⟩ := union_allowsAny_iff_intersect ts (.single (.rng r))
          (fun c hc => ⟨(hmb c hc).1, (hmb c hc).2.2.1⟩)
          (fun c hc => by simp [VC.flatten] at hc; subst hc; exact ⟨hx.1, hx.2.2.1⟩)
        have hy' : VC.allowsAny (.union ts) (.single (.rng r)) = VC.unionAllowsAnyLoop (ts.length + 1 + 1) ts [.rng r] := rfl
        rw [hy', hloop] at hy
        have hi2 : VC.intersect (.union ts) (.single (.rng r)) = .ok i := by
          rw [← VC.intersect_single_union]; exact hi
        refine ⟨y, i, ?_, hi, hyi i hi2⟩
        simp only [VC.allowsAny, hfold, Bool.false_or]
        rw [← Except.ok.inj hy]
        congr 1
        apply bool_eq_of_iff
        simp only [List.any_eq_true]
        constructor
        · rintro ⟨c, hc, h⟩; exact ⟨c, hc, by rw [ov_comm]; exact h⟩
        · rintro ⟨c, hc, h⟩; exact ⟨c, hc, by rw [ov_comm]; exact h⟩

/-- **`allows_all` never raises and a yes is sound**, for any two constraints with well-formed members -/
theorem VC.allowsAll_sound_gen (a b : VC) (hma : ∀ c ∈ a.flatten, c.WF) (hmb : ∀ c ∈ b.flatten, c.WF) :
    ∃ x, VC.allowsAll a b = .ok x ∧
      (x = true → ∀ p, p.wf = true → Regular (boundsOf a.flatten ++ boundsOf b.flatten) p →
        b.allowsPlain p = true → a.allowsPlain p = true) := by
  have member : ∀ (x y : RC), x.WF → y.WF → RC.allowsAll x y = true →
      ∀ p, p.wf = true → Regular (boundsOf [x] ++ boundsOf [y]) p → y.allows p = true → x.allows p = true :=
    fun x y hx hy h p hp hreg hyp => RC.allowsAll_sound x y hx hy h p hp
      (hreg.mono (by intro e he; simpa [boundsOf] using he)) hyp
  cases a with
  | empty =>
    refine ⟨b.isEmpty, rfl, fun hx p _ _ hbp => ?_⟩
    cases b <;> simp [VC.isEmpty] at hx
    simp [VC.allowsPlain, VC.flatten] at hbp
  | union rs => exact unionAllowsAllLoop_sound _ rs b.flatten (by omega) hma hmb
  | single x =>
    have hx := hma x (by simp [VC.flatten])
    have single_single : ∀ c, b = .single c → ∃ r, VC.allowsAll (.single x) b = .ok r ∧
        (r = true → ∀ p, p.wf = true → Regular (boundsOf (VC.single x).flatten ++ boundsOf b.flatten) p →
          b.allowsPlain p = true → (VC.single x).allowsPlain p = true) := by
      intro c hc
      subst hc
      refine ⟨RC.allowsAll x c, by cases x <;> rfl, fun h p hp hreg hcp => ?_⟩
      have := member x c hx (hmb c (by simp [VC.flatten])) h p hp (by simpa [VC.flatten] using hreg)
        (by simpa [VC.allowsPlain, VC.flatten] using hcp)
      simpa [VC.allowsPlain, VC.flatten] using this
    cases b with
    | single c => exact single_single c rfl
    | empty =>
      refine ⟨true, by cases x <;> rfl, fun _ p _ _ hbp => ?_⟩
      simp [VC.allowsPlain, VC.flatten] at hbp
    | union ts =>
      cases x with
      | ver v => exact ⟨false, rfl, fun h => by cases h⟩
      | rng r =>
        refine ⟨ts.all (fun c => RC.allowsAll (.rng r) c), rfl, fun h p hp hreg hbp => ?_⟩
        simp only [List.all_eq_true] at h
        simp only [VC.allowsPlain, VC.flatten, List.any_eq_true] at hbp
        obtain ⟨c, hc, hcp⟩ := hbp
        have := RC.allowsAll_sound (.rng r) c hx (hmb c (by simpa [VC.flatten] using hc)) (h c hc) p hp
          (hreg.mono (by
            intro e he
            simp only [List.mem_append, boundsOf, VC.flatten, List.flatMap_cons, List.flatMap_nil, List.append_nil,
              List.mem_flatMap] at he ⊢
            rcases he with h' | h'
            · exact Or.inl h'
            · exact Or.inr ⟨c, hc, h'⟩)) hcp
        simpa [VC.allowsPlain, VC.flatten] using this

/-- **a well-formed constraint allows all of itself, and (unless it is the empty constraint) any of itself** -/
theorem VC.self_laws (a : VC) (hwf : a.WF) :
    VC.allowsAll a a = .ok true ∧ (a.isEmpty = false → VC.allowsAny a a = .ok true) := by
  cases a with
  | empty => exact ⟨rfl, fun h => by simp [VC.isEmpty] at h⟩
  | union rs =>
    have hne : rs ≠ [] := by
      intro e; rw [e] at hwf; simp [VC.WF] at hwf
    exact ⟨union_allowsAll_self rs (fun c hc => (hwf.2.1 c hc).1), fun _ => union_allowsAny_self rs hne hwf.2.1⟩
  | single x =>
    have h1 := RC.allowsAll_self x hwf.1
    have h2 := RC.allowsAny_self x hwf.1 hwf.2
    cases x with
    | ver v => exact ⟨by simpa [VC.allowsAll] using h1, fun _ => h2⟩
    | rng r => exact ⟨by simpa [VC.allowsAll] using h1, fun _ => h2⟩

end Poetry
