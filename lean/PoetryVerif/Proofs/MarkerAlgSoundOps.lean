/-
Soundness of `invert` on marker trees (De Morgan over `MarkerUnion(*…)` / `MultiMarker(*…)`), relative to
the leaf-level statement `LeafInvertSound`; consequences for `is_empty()` / `is_any()` results; the bridge
from the abstract semantics to `validate`.
-/
import PoetryVerif.Proofs.MarkerAlgSound

set_option linter.unusedSimpArgs false
set_option linter.unusedVariables false

namespace Poetry.Marker

variable {ev : Leaf → Bool} {G : Leaf → Prop}

/-- inverting a leaf yields a marker that is true exactly where the leaf is false -/
def LeafInvertSound (ev : Leaf → Bool) (G : Leaf → Prop) : Prop :=
  ∀ l r, G l → l.invert = .ok r → M.Good G r ∧ M.sem ev r = !ev l

theorem any_not_eq (f : M → Bool) (l : List M) : l.any (fun m => !f m) = !l.all f := by
  induction l with
  | nil => rfl
  | cons a l ih => simp [ih, Bool.not_and]

theorem all_not_eq (f : M → Bool) (l : List M) : l.all (fun m => !f m) = !l.any f := by
  induction l with
  | nil => rfl
  | cons a l ih => simp [ih, Bool.not_or]

mutual
theorem M.invert_sound (S : LeafSpec ev G) (LI : LeafInvertSound ev G) :
    ∀ (a r : M), M.Good G a → M.invert a = .ok r → M.Good G r ∧ M.sem ev r = !M.sem ev a
  | .any, r, _, h => by simp [M.invert] at h; subst h; simp
  | .empty, r, _, h => by simp [M.invert] at h; subst h; simp
  | .leaf l, r, hg, h => by
      simp only [M.invert] at h
      have := LI l r (by simpa using hg) h
      simpa using this
  | .multi ms, r, hg, h => by
      simp only [M.invert] at h
      obtain ⟨is, h1, h2⟩ := bind_ok.1 h
      rw [pure_ok] at h2; subst h2
      have hl := M.invertList_sound S LI ms is (by simpa using hg) h1
      have := mkUnion_spec (ev := ev) S is hl.1
      refine ⟨this.1, ?_⟩
      rw [this.2, M.sem_multi, ← any_not_eq]
      have e : ∀ l : List M, l.any (fun m => !M.sem ev m) = (l.map (fun m => !M.sem ev m)).any id := by
        intro l; simp [List.any_map]
      have e' : is.any (M.sem ev) = (is.map (M.sem ev)).any id := by simp [List.any_map]
      rw [e', hl.2, e]
  | .union ms, r, hg, h => by
      simp only [M.invert] at h
      obtain ⟨is, h1, h2⟩ := bind_ok.1 h
      rw [pure_ok] at h2; subst h2
      have hl := M.invertList_sound S LI ms is (by simpa using hg) h1
      have := mkMulti_spec (ev := ev) S is hl.1
      refine ⟨this.1, ?_⟩
      rw [this.2, M.sem_union, ← all_not_eq]
      have e : ∀ l : List M, l.all (fun m => !M.sem ev m) = (l.map (fun m => !M.sem ev m)).all id := by
        intro l; simp [List.all_map]
      have e' : is.all (M.sem ev) = (is.map (M.sem ev)).all id := by simp [List.all_map]
      rw [e', hl.2, e]
theorem M.invertList_sound (S : LeafSpec ev G) (LI : LeafInvertSound ev G) :
    ∀ (ms rs : List M), (∀ x ∈ ms, M.Good G x) → M.invertList ms = .ok rs →
      (∀ x ∈ rs, M.Good G x) ∧ rs.map (M.sem ev) = ms.map (fun m => !M.sem ev m)
  | [], rs, _, h => by simp [M.invertList] at h; subst h; simp
  | m :: ms, rs, hg, h => by
      simp only [M.invertList] at h
      obtain ⟨x, h1, h⟩ := bind_ok.1 h
      obtain ⟨xs, h2, h3⟩ := bind_ok.1 h
      rw [pure_ok] at h3; subst h3
      have a := M.invert_sound S LI m x (hg m (by simp)) h1
      have b := M.invertList_sound S LI ms xs (fun y hy => hg y (by simp [hy])) h2
      refine ⟨?_, by simp [a.2, b.2]⟩
      intro y hy; simp at hy; rcases hy with rfl | hy
      · exact a.1
      · exact b.1 y hy
end

/-! ### `validate` is the semantics wherever every leaf evaluates -/

/-- the truth value of a leaf in `E` (`false` where `validate` raises; only used under `Evaluable`) -/
def leafEval (E : Env) (l : Leaf) : Bool :=
  match l.validate E with
  | .ok b => b
  | .error _ => false

/-- every leaf of `m` evaluates in `E` without raising -/
def M.Evaluable (E : Env) (m : M) : Prop := M.Good (fun l => ∃ b, l.validate E = .ok b) m

mutual
theorem M.validate_eq_sem (E : Env) : ∀ m : M, M.Evaluable E m →
    M.validate E m = .ok (M.sem (leafEval E) m)
  | .any, _ => by simp [M.validate]
  | .empty, _ => by simp [M.validate]
  | .leaf l, h => by
      obtain ⟨b, hb⟩ : ∃ b, l.validate E = .ok b := by simpa [M.Evaluable] using h
      simp [M.validate, leafEval, hb]
  | .multi ms, h => by
      simp only [M.validate, M.sem]
      exact M.validateAll_eq_sem E ms (by simpa [M.Evaluable, M.Good] using h)
  | .union ms, h => by
      simp only [M.validate, M.sem]
      exact M.validateAny_eq_sem E ms (by simpa [M.Evaluable, M.Good] using h)
theorem M.validateAll_eq_sem (E : Env) : ∀ ms : List M,
    M.GoodAll (fun l => ∃ b, l.validate E = .ok b) ms →
    M.validateAll E ms = .ok (M.semAll (leafEval E) ms)
  | [], _ => by simp [M.validateAll, M.semAll]
  | m :: ms, h => by
      have h1 := M.validate_eq_sem E m h.1
      have h2 := M.validateAll_eq_sem E ms h.2
      simp only [M.validateAll, M.semAll, h1]
      cases hs : M.sem (leafEval E) m <;> simp [h2]
theorem M.validateAny_eq_sem (E : Env) : ∀ ms : List M,
    M.GoodAll (fun l => ∃ b, l.validate E = .ok b) ms →
    M.validateAny E ms = .ok (M.semAny (leafEval E) ms)
  | [], _ => by simp [M.validateAny, M.semAny]
  | m :: ms, h => by
      have h1 := M.validate_eq_sem E m h.1
      have h2 := M.validateAny_eq_sem E ms h.2
      simp only [M.validateAny, M.semAny, h1]
      cases hs : M.sem (leafEval E) m <;> simp [h2]
end

/-- weakening of the leaf invariant -/
theorem M.good_mono {G H : Leaf → Prop} (hGH : ∀ l, G l → H l) : ∀ m : M, M.Good G m → M.Good H m := by
  intro m
  have key : ∀ n : Nat, ∀ m : M, sizeOf m ≤ n → M.Good G m → M.Good H m := by
    intro n
    induction n with
    | zero => intro m hm; cases m <;> simp at hm
    | succ n ih =>
      intro m hm hg
      cases m with
      | any => simp
      | empty => simp
      | leaf l => simpa using hGH l (by simpa using hg)
      | multi ms =>
        simp only [M.good_multi] at hg ⊢
        intro x hx
        have : sizeOf x < sizeOf ms := List.sizeOf_lt_of_mem hx
        exact ih x (by simp at hm; omega) (hg x hx)
      | union ms =>
        simp only [M.good_union] at hg ⊢
        intro x hx
        have : sizeOf x < sizeOf ms := List.sizeOf_lt_of_mem hx
        exact ih x (by simp at hm; omega) (hg x hx)
  exact key (sizeOf m) m (Nat.le_refl _)

/-! ### evaluating the (well-founded) simplifier on concrete markers, for the `example`s -/


/-- unfolds the simplifier on closed terms (the mutual block is defined by well-founded recursion, so
`decide`/`rfl` do not evaluate it) -/
macro "marker_eval" "[" ts:Lean.Parser.Tactic.simpLemma,* "]" loc:(Lean.Parser.Tactic.location)? : tactic =>
  `(tactic| simp [$ts,*, mIntersect, mUnion, intersectionF, unionF, dnf, cnf, mapDnf, mapCnf, mapMultiOf, mapUnionOf,
      multiOf, multiOfLoop, multiPass, multiTry, unionOf, unionOfLoop, unionPass, unionTry,
      intersectSimplify, unionSimplify, mergeLeaves, mergeSingle, Leaf.name, Leaf.c, mkMulti, mkUnion,
      flattenMarkers, flattenAux, appendNew, M.mem_nil, M.mem_cons, M.beq, M.beqList, Leaf.beq,
      pure, Except.pure, bind, Except.bind, Stack.has, unwrapSingleton, M.isAny, M.isEmpty, product,
      membersIfUnion, membersIfMulti, minByComplexity, setAt, isSubset, LeafC.intersect, LeafC.union,
      LeafC.isEmpty, LeafC.isAny, LeafC.eqv, Except.map, M.complexity, M.complexitySum, Leaf.complexity,
      cmpComplexity, gcMembers, Generic.GC.isEmpty, Generic.GC.isAny, Generic.GS.isEmpty, Generic.GS.isAny] $[$loc]?)

/-! ### a concrete instance of `LeafSpec` (three leaves closed under merging), for the `example`s -/

namespace Ex
open Poetry.Generic

def cA : GC := .s (.atom ⟨"a", .eq, false⟩)
def cNA : GC := .s (.atom ⟨"a", .ne, false⟩)
def cB : GC := .s (.atom ⟨"b", .ne, false⟩)
def sA : Single := ⟨"sys_platform", "==", "a", false, .gen cA⟩
def sNA : Single := ⟨"sys_platform", "!=", "a", false, .gen cNA⟩
def sB : Single := ⟨"os_name", "!=", "b", false, .gen cB⟩
def envAB : Env := ⟨[("sys_platform", "a"), ("os_name", "c")], some []⟩
def G0 (l : Leaf) : Prop := l = .single sA ∨ l = .single sNA ∨ l = .single sB

theorem i1 : cA.intersect cA = .ok cA := rfl
theorem i2 : cA.intersect cNA = .ok (.s .empty) := rfl
theorem i3 : cNA.intersect cA = .ok (.s .empty) := rfl
theorem i4 : cNA.intersect cNA = .ok cNA := rfl
theorem i5 : cB.intersect cB = .ok cB := rfl
theorem u1 : cA.unionWith cA = .ok cA := rfl
theorem u2 : cA.unionWith cNA = .ok (.s .any) := rfl
theorem u3 : cNA.unionWith cA = .ok (.s .any) := rfl
theorem u4 : cNA.unionWith cNA = .ok cNA := rfl
theorem u5 : cB.unionWith cB = .ok cB := rfl

theorem leafSpec0 : LeafSpec (leafEval envAB) G0 where
  congr := by
    intro a b ha hb h
    rcases ha with rfl | rfl | rfl <;> rcases hb with rfl | rfl | rfl <;>
      first | rfl | (simp [Leaf.beq, sA, sNA, sB] at h)
  merge := by
    intro l1 l2 im r h1 h2 h
    rcases h1 with rfl | rfl | rfl <;> rcases h2 with rfl | rfl | rfl <;> cases im <;>
      marker_eval [sA, sNA, sB, i1, i2, i3, i4, i5, u1, u2, u3, u4, u5] at h <;>
      (try simp [cA, cNA, cB] at h) <;> subst h <;> exact ⟨by simp [G0, sA, sNA, sB, cA, cNA, cB], by decide⟩

end Ex

end Poetry.Marker
