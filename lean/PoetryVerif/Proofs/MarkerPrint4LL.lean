/-
Marker text for the domain with lists on BOTH python variables (quotable values): four-operator strings, `extra`,
`python_version` with the seven operators and lists of two-component versions, `python_full_version` with the seven
operators and lists of two- and three-component versions.
-/
import PoetryVerif.Proofs.MarkerPrint4L
import PoetryVerif.Proofs.MarkerAlgSoundPairLL

set_option linter.unusedSimpArgs false
set_option linter.unusedVariables false

namespace Poetry.Marker
open Poetry Poetry.Generic

def FullQLL (C : String → Prop) (E : Env) (l : Leaf) : Prop := Plain4Q C E l ∨ PyLeafLL l

theorem leafSpec_fullQLL {C : String → Prop} (hC : ∀ u v, C u → C v → strIn u v = true ∨ strIn v u = true)
    {E : Env} {ex : List String} (hX : E.extras = some ex) {X Y Z : Nat} (hE : EnvPy E X Y Z) :
    LeafSpec (leafEval E) (FullQLL C E) := by
  refine LeafSpec.or (leafSpec_plain4Q hC hX) (leafSpec_pyLL hE) ?_
  intro a b ha hb
  have hb' := pyLeafLL_name hb
  rcases plain4Q_name ha with h | h
  · rcases hb' with hb' | hb' <;> (rw [pyPair, pyPair, h, hb']; decide)
  · simp only [plainStringVars, List.mem_cons, List.mem_nil_iff, or_false] at h
    rcases hb' with hb' | hb' <;>
      rcases h with h | h | h | h | h | h | h <;> (rw [pyPair, pyPair, h, hb']; decide)

theorem printOK_pfvL {ev : Leaf → Bool} : ∀ l, PfvLeafL l → LeafPrintOK ev PfvLeafL l := by
  intro l hl
  obtain ⟨s, rfl, hs⟩ := pfvLeafL_self hl
  exact leafPrintOK_single hl hs

theorem lexable_pfvL : ∀ l, PfvLeafL l → Leaf.Lexable l := by
  intro l hl
  rcases hl with hl | ⟨isIn, t0, rest, res, hs, hres, rfl⟩
  · exact lexable_pyC l (Or.inr hl)
  · exact leafLexable_single (show "python_full_version" ∈ names by decide) (listOp_ops isIn)
      (valOk_verListN _ _ (pfvList_seps hs))

theorem printOK_pyLL {ev : Leaf → Bool} : ∀ l, PyLeafLL l → LeafPrintOK ev PyLeafLL l := by
  intro l hl
  rcases hl with hl | hl
  · exact (printOK_pvL l hl).mono (fun l h => Or.inl h)
  · exact (printOK_pfvL l hl).mono (fun l h => Or.inr h)

theorem lexable_pyLL : ∀ l, PyLeafLL l → Leaf.Lexable l := by
  intro l hl
  rcases hl with hl | hl
  · exact lexable_pvL l hl
  · exact lexable_pfvL l hl

theorem printOK_fullQLL {C : String → Prop} {E : Env} {ex : List String} (hX : E.extras = some ex) :
    ∀ l, FullQLL C E l → LeafPrintOK (leafEval E) (FullQLL C E) l := by
  intro l hl
  rcases hl with hl | hl
  · exact (printOK_plain4Q hX l hl).mono (fun l h => Or.inl h)
  · exact (printOK_pyLL l hl).mono (fun l h => Or.inr h)

theorem lexable_fullQLL {C : String → Prop} {E : Env} : ∀ l, FullQLL C E l → Leaf.Lexable l := by
  intro l hl
  rcases hl with hl | hl
  · exact lexable_plain4Q l hl
  · exact lexable_pyLL l hl

theorem fullQLL_evaluable {C : String → Prop} {E : Env} {ex : List String} (hX : E.extras = some ex) {X Y Z : Nat}
    (hE : EnvPy E X Y Z) {l : Leaf} (h : FullQLL C E l) : ∃ b, l.validate E = .ok b := by
  rcases h with h | h
  · exact plain4Q_evaluable hX h
  · exact pyLeafLL_evaluable hE h

end Poetry.Marker
