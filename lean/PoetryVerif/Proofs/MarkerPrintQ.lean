/-
The marker-text theorem with single-quote printing: the tree of a marker over leaves whose own text is lexable in
the wider sense (`LexableQ`: values holding a double quote but no single quote are admitted — `_quoted` writes them
in single quotes) is lexable in that sense, and `parse_marker`'s grammar reads `str(m)` back (`parseText_textQ`).
Copy of the `Lexable` development of Proofs/MarkerPrintChars.lean over `LexableQ`.
-/
import PoetryVerif.Proofs.MarkerPrintCharsQ

set_option linter.unusedSimpArgs false
set_option linter.unusedVariables false

namespace Poetry.Marker
open Poetry.Generic

/-! ### the tree of a marker over lexable leaves is lexable -/

/-- the leaf's own text uses grammar names/operators and quotable values -/
def Leaf.LexableQ (l : Leaf) : Prop := ∀ t, l.toSyn = some t → t.LexableQ

theorem Syn.lexableQ_append : ∀ (t1 : Syn) (isOr : Bool) (t2 : Syn), t1.LexableQ → t2.LexableQ →
    (t1.append isOr t2).LexableQ
  | .one a, isOr, t2, h1, h2 => by simpa [Syn.append, Syn.LexableQ] using ⟨h1, h2⟩
  | .more a o rest, isOr, t2, h1, h2 => by
      simp only [Syn.append, Syn.LexableQ] at h1 ⊢
      exact ⟨h1.1, Syn.lexableQ_append rest isOr t2 h1.2 h2⟩

mutual
theorem M.toSyn_lexableQ : ∀ (m : M) (t : Syn), M.Good Leaf.LexableQ m → M.toSyn m = some t → t.LexableQ
  | .any, t, _, h => by simp [M.toSyn] at h
  | .empty, t, _, h => by simp [M.toSyn] at h
  | .leaf l, t, hg, h => by
      simp only [M.toSyn] at h
      exact (by simpa using hg : Leaf.LexableQ l) t h
  | .multi ms, t, hg, h => by
      simp only [M.toSyn] at h
      exact M.toSynMulti_lexableQ ms t (by simpa using hg) h
  | .union ms, t, hg, h => by
      simp only [M.toSyn] at h
      exact M.toSynUnion_lexableQ ms t (by simpa using hg) h
theorem M.toSynMulti_lexableQ : ∀ (ms : List M) (t : Syn), (∀ x ∈ ms, M.Good Leaf.LexableQ x) →
    M.toSynMulti ms = some t → t.LexableQ
  | [], t, _, h => by simp [M.toSynMulti] at h
  | [m], t, hg, h => by
      simp only [M.toSynMulti] at h
      cases hm : M.toSyn m with
      | none => simp [hm] at h
      | some tm =>
        simp only [hm, Option.some.injEq] at h; subst h
        have := M.toSyn_lexableQ m tm (hg m (by simp)) hm
        split
        · exact this
        · simpa [Syn.LexableQ, Atom.LexableQ] using this
  | m :: m' :: ms, t, hg, h => by
      rw [toSynMulti_cons2] at h
      cases hm : M.toSyn m with
      | none => simp [hm] at h
      | some tm =>
        cases hr : M.toSynMulti (m' :: ms) with
        | none => simp [hm, hr] at h
        | some r =>
          simp only [hm, hr, Option.some.injEq] at h; subst h
          have h1 := M.toSyn_lexableQ m tm (hg m (by simp)) hm
          have h2 := M.toSynMulti_lexableQ (m' :: ms) r (fun x hx => hg x (by simp [hx])) hr
          apply Syn.lexableQ_append _ _ _ _ h2
          split
          · exact h1
          · simpa [Syn.LexableQ, Atom.LexableQ] using h1
theorem M.toSynUnion_lexableQ : ∀ (ms : List M) (t : Syn), (∀ x ∈ ms, M.Good Leaf.LexableQ x) →
    M.toSynUnion ms = some t → t.LexableQ
  | [], t, _, h => by simp [M.toSynUnion] at h
  | [m], t, hg, h => by
      simp only [M.toSynUnion] at h
      cases hm : M.toSyn m with
      | none => simp [hm] at h
      | some tm =>
        simp only [hm, Option.some.injEq] at h; subst h
        exact M.toSyn_lexableQ m tm (hg m (by simp)) hm
  | m :: m' :: ms, t, hg, h => by
      rw [toSynUnion_cons2] at h
      cases hm : M.toSyn m with
      | none => simp [hm] at h
      | some tm =>
        cases hr : M.toSynUnion (m' :: ms) with
        | none => simp [hm, hr] at h
        | some r =>
          simp only [hm, hr, Option.some.injEq] at h; subst h
          exact Syn.lexableQ_append _ _ _ (M.toSyn_lexableQ m tm (hg m (by simp)) hm)
            (M.toSynUnion_lexableQ (m' :: ms) r (fun x hx => hg x (by simp [hx])) hr)
end

/-- a `SingleMarker` is lexable when its stored name/operator are grammar words and its value quotable -/
theorem leafLexableQ_single {s : Single} (hn : s.name ∈ names) (ho : s.op ∈ ops) (hv : ValOkQ s.value) :
    Leaf.LexableQ (.single s) := by
  intro t ht
  simp only [Leaf.toSyn, Option.some.injEq] at ht; subst ht
  exact ⟨hn, ho, hv⟩

/-- **`parse_marker`'s grammar reads `str(m)` back to the tree of `m`** -/
theorem M.parseText_toStrQ {m : M} {t : Syn} {ev : Leaf → Bool} {G : Leaf → Prop} (S : LeafSpec ev G)
    (hL : ∀ l, G l → LeafPrintOK ev G l) (hX : ∀ l, G l → Leaf.LexableQ l) (hg : M.Good G m)
    (h : M.toSyn m = some t) :
    ∃ s, M.toStr m = .ok s ∧ parseText s = .ok t ∧
      ∃ m', compactRaw t = .ok m' ∧ M.Good G m' ∧ M.sem ev m' = M.sem ev m := by
  obtain ⟨h1, h2⟩ := M.print_reparse S hL hg h
  exact ⟨t.text, h1, parseText_textQ t (M.toSyn_lexableQ m t (M.good_mono hX m hg) h), h2⟩

/-- a leaf lexable in the narrow sense is lexable in the wide sense -/
theorem Leaf.Lexable.toQ {l : Leaf} (h : Leaf.Lexable l) : Leaf.LexableQ l :=
  fun t ht => Syn.Lexable.toQ t (h t ht)

end Poetry.Marker
