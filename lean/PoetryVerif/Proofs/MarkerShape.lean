/-
Shapes of the normal forms: `cnf` returns Any, Empty, a leaf, a disjunction of leaves, or a conjunction
whose members are leaves or disjunctions of leaves; `dnf` dually — for every fuel and recursion stack,
for EVERY input marker (no invariant on the leaves; the only fact about `_merge_single_markers` used is
that a successful merge is Any, Empty or a single-marker-like, `mergeLeaves_shape`).
-/
import PoetryVerif.Proofs.MarkerAlgSound

set_option linter.unusedSimpArgs false
set_option linter.unusedVariables false

namespace Poetry.Marker

def M.isLeaf : M → Bool
  | .leaf _ => true
  | _ => false

/-- Any, Empty or a leaf -/
def M.isLitE : M → Bool
  | .any => true
  | .empty => true
  | .leaf _ => true
  | _ => false

/-- a leaf or the universal marker -/
def M.isLitA : M → Bool
  | .any => true
  | .leaf _ => true
  | _ => false

/-- a leaf or the empty marker -/
def M.isLitØ : M → Bool
  | .empty => true
  | .leaf _ => true
  | _ => false

/-- a leaf or a non-empty disjunction of leaves -/
def M.isClause : M → Bool
  | .leaf _ => true
  | .union ls => !ls.isEmpty && ls.all M.isLeaf
  | _ => false

/-- a leaf or a non-empty conjunction of leaves -/
def M.isCube : M → Bool
  | .leaf _ => true
  | .multi ls => !ls.isEmpty && ls.all M.isLeaf
  | _ => false

/-- Any, Empty or a clause -/
def M.isCOut : M → Bool
  | .any => true
  | .empty => true
  | m => m.isClause

def M.isQOut : M → Bool
  | .any => true
  | .empty => true
  | m => m.isCube

/-- Any, Empty, a leaf, or a disjunction of (Any | Empty | leaf) -/
def M.isCIn : M → Bool
  | .any => true
  | .empty => true
  | .leaf _ => true
  | .union ls => ls.all M.isLitE
  | _ => false

def M.isQIn : M → Bool
  | .any => true
  | .empty => true
  | .leaf _ => true
  | .multi ls => ls.all M.isLitE
  | _ => false

/-- **conjunctive normal form**: Any, Empty, a leaf, a non-empty disjunction of leaves, or a non-empty
conjunction whose members are leaves or non-empty disjunctions of leaves -/
def M.isCnf : M → Bool
  | .any => true
  | .empty => true
  | .multi cs => !cs.isEmpty && cs.all M.isClause
  | m => m.isClause

/-- **disjunctive normal form** -/
def M.isDnf : M → Bool
  | .any => true
  | .empty => true
  | .union cs => !cs.isEmpty && cs.all M.isCube
  | m => m.isCube

def M.isMulti : M → Bool
  | .multi _ => true
  | _ => false
def M.isUnion : M → Bool
  | .union _ => true
  | _ => false

theorem M.isCOut_isCIn {m : M} (h : m.isCOut = true) : m.isCIn = true := by
  cases m with
  | union ls =>
    simp only [M.isCOut, M.isClause, M.isCIn, Bool.and_eq_true, List.all_eq_true] at h ⊢
    intro x hx; have := h.2 x hx; cases x <;> simp_all [M.isLeaf, M.isLitE]
  | _ => simp_all [M.isCOut, M.isClause, M.isCIn]

theorem M.isQOut_isQIn {m : M} (h : m.isQOut = true) : m.isQIn = true := by
  cases m with
  | multi ls =>
    simp only [M.isQOut, M.isCube, M.isQIn, Bool.and_eq_true, List.all_eq_true] at h ⊢
    intro x hx; have := h.2 x hx; cases x <;> simp_all [M.isLeaf, M.isLitE]
  | _ => simp_all [M.isQOut, M.isCube, M.isQIn]

theorem M.isCOut_isCnf {m : M} (h : m.isCOut = true) : m.isCnf = true := by
  cases m <;> simp_all [M.isCOut, M.isCnf, M.isClause]

theorem M.isQOut_isDnf {m : M} (h : m.isQOut = true) : m.isDnf = true := by
  cases m <;> simp_all [M.isQOut, M.isDnf, M.isCube]

/-! ### flattening and shapes -/

theorem appendOne_mem {acc : List M} {m x : M}
    (h : x ∈ (if M.mem m acc = true then acc else acc ++ [m])) : x ∈ acc ∨ x = m := by
  split at h
  · exact Or.inl h
  · simpa using h

theorem appendOne_len (acc : List M) (m : M) :
    (if M.mem m acc = true then acc else acc ++ [m]).length ≤ acc.length + 1 := by
  split <;> simp

theorem appendNew_mem (ms : List M) : ∀ (acc : List M) {x : M}, x ∈ appendNew acc ms → x ∈ acc ∨ x ∈ ms := by
  induction ms with
  | nil => intro acc x h; exact Or.inl (by simpa [appendNew] using h)
  | cons m ms ih =>
    intro acc x h
    simp only [appendNew, List.foldl_cons] at h
    rcases ih _ h with h1 | h1
    · rcases appendOne_mem h1 with h2 | h2
      · exact Or.inl h2
      · exact Or.inr (by simp [h2])
    · exact Or.inr (by simp [h1])

theorem appendNew_len (ms : List M) : ∀ (acc : List M), (appendNew acc ms).length ≤ acc.length + ms.length := by
  induction ms with
  | nil => intro acc; simp [appendNew]
  | cons m ms ih =>
    intro acc
    simp only [appendNew, List.foldl_cons]
    have h1 := ih (if M.mem m acc = true then acc else acc ++ [m])
    have h2 := appendOne_len acc m
    simp only [appendNew, List.length_cons] at h1 ⊢
    omega

/-- flattening a list without compounds of the flattened kind only removes duplicates -/
theorem flattenAux_plain (b : Bool) (ms acc : List M)
    (hp : ∀ x ∈ ms, (if b then x.isMulti else x.isUnion) = false) :
    (∀ x ∈ flattenAux b ms acc, x ∈ acc ∨ x ∈ ms) ∧ (flattenAux b ms acc).length ≤ acc.length + ms.length := by
  induction ms generalizing acc with
  | nil => rw [flattenAux.eq_def]; simp
  | cons m ms ih =>
    have hm := hp m (by simp)
    have e : flattenAux b (m :: ms) acc = flattenAux b ms (if M.mem m acc = true then acc else acc ++ [m]) := by
      rw [flattenAux.eq_def]
      cases b <;> cases m <;> simp_all [M.isMulti, M.isUnion]
    rw [e]
    have := ih (if M.mem m acc = true then acc else acc ++ [m]) (fun x hx => hp x (by simp [hx]))
    refine ⟨?_, ?_⟩
    · intro x hx
      rcases this.1 x hx with h1 | h1
      · rcases appendOne_mem h1 with h2 | h2
        · exact Or.inl h2
        · exact Or.inr (by simp [h2])
      · exact Or.inr (by simp [h1])
    · have h2 := appendOne_len acc m
      simp only [List.length_cons]; omega

theorem flattenAux_plain_len (b : Bool) (ms acc : List M)
    (hp : ∀ x ∈ ms, (if b then x.isMulti else x.isUnion) = false) :
    acc.length ≤ (flattenAux b ms acc).length ∧ (ms ≠ [] → flattenAux b ms acc ≠ []) := by
  induction ms generalizing acc with
  | nil => rw [flattenAux.eq_def]; simp
  | cons m ms ih =>
    have hm := hp m (by simp)
    have e : flattenAux b (m :: ms) acc = flattenAux b ms (if M.mem m acc = true then acc else acc ++ [m]) := by
      rw [flattenAux.eq_def]
      cases b <;> cases m <;> simp_all [M.isMulti, M.isUnion]
    rw [e]
    have := (ih (if M.mem m acc = true then acc else acc ++ [m]) (fun x hx => hp x (by simp [hx]))).1
    have hlen : acc.length ≤ (if M.mem m acc = true then acc else acc ++ [m]).length := by split <;> simp
    have hpos : 0 < (if M.mem m acc = true then acc else acc ++ [m]).length := by
      split
      · rename_i hmem
        cases acc with
        | nil => simp [M.mem] at hmem
        | cons a l => simp
      · simp
    refine ⟨Nat.le_trans hlen this, fun _ hnil => ?_⟩
    rw [hnil] at this; simp only [List.length_nil] at this; omega

/-- union-flattening a list of `isCIn` markers yields Any/Empty/leaves -/
theorem flattenAux_union_lits (ms acc : List M) : (∀ x ∈ ms, x.isCIn = true) → (∀ x ∈ acc, x.isLitE = true) →
    ∀ x ∈ flattenAux false ms acc, x.isLitE = true := by
  induction ms, acc using flattenAux.induct false with
  | case1 acc => intro _ ha; rw [flattenAux.eq_def]; simpa using ha
  | case2 rest acc inner h => exact absurd h (by simp)
  | case3 rest acc inner _ ih1 ih2 =>
    intro hm ha
    rw [flattenAux.eq_def]
    simp only
    have hin : ∀ x ∈ inner, x.isLitE = true := by
      have := hm (.union inner) (by simp); simpa [M.isCIn] using this
    have hplain := flattenAux_plain false inner [] (by
      intro x hx; have := hin x hx; cases x <;> simp_all [M.isLitE, M.isUnion])
    apply ih2 (fun x hx => hm x (by simp [hx]))
    intro x hx
    rcases appendNew_mem _ _ hx with h1 | h1
    · exact ha x h1
    · rcases hplain.1 x h1 with h2 | h2
      · simp at h2
      · exact hin x h2
  | case4 rest acc m hn1 hn2 ih =>
    intro hm ha
    rw [flattenAux.eq_def]
    have e : (match m, false with
      | M.multi inner, true => flattenAux false rest (appendNew acc (flattenAux false inner []))
      | M.union inner, false => flattenAux false rest (appendNew acc (flattenAux false inner []))
      | m, x => flattenAux false rest (if m.mem acc = true then acc else acc ++ [m])) =
        flattenAux false rest (if m.mem acc = true then acc else acc ++ [m]) := by
      cases m <;> first | rfl | (exact absurd rfl (fun h => hn2 _ h rfl))
    simp only [e]
    simp only [dite_eq_ite] at ih
    apply ih (fun x hx => hm x (by simp [hx]))
    intro x hx
    rcases appendOne_mem hx with h1 | rfl
    · exact ha x h1
    · have := hm x (by simp)
      cases x <;> simp_all [M.isCIn, M.isLitE]

/-- multi-flattening a list of `isQIn` markers yields Any/Empty/leaves -/
theorem flattenAux_multi_lits (ms acc : List M) : (∀ x ∈ ms, x.isQIn = true) → (∀ x ∈ acc, x.isLitE = true) →
    ∀ x ∈ flattenAux true ms acc, x.isLitE = true := by
  induction ms, acc using flattenAux.induct true with
  | case1 acc => intro _ ha; rw [flattenAux.eq_def]; simpa using ha
  | case2 rest acc inner _ ih1 ih2 =>
    intro hm ha
    rw [flattenAux.eq_def]
    simp only
    have hin : ∀ x ∈ inner, x.isLitE = true := by
      have := hm (.multi inner) (by simp); simpa [M.isQIn] using this
    have hplain := flattenAux_plain true inner [] (by
      intro x hx; have := hin x hx; cases x <;> simp_all [M.isLitE, M.isMulti])
    apply ih2 (fun x hx => hm x (by simp [hx]))
    intro x hx
    rcases appendNew_mem _ _ hx with h1 | h1
    · exact ha x h1
    · rcases hplain.1 x h1 with h2 | h2
      · simp at h2
      · exact hin x h2
  | case3 rest acc inner h => exact absurd h (by simp)
  | case4 rest acc m hn1 hn2 ih =>
    intro hm ha
    rw [flattenAux.eq_def]
    have e : (match m, true with
      | M.multi inner, true => flattenAux true rest (appendNew acc (flattenAux true inner []))
      | M.union inner, false => flattenAux true rest (appendNew acc (flattenAux true inner []))
      | m, x => flattenAux true rest (if m.mem acc = true then acc else acc ++ [m])) =
        flattenAux true rest (if m.mem acc = true then acc else acc ++ [m]) := by
      cases m <;> first | rfl | (exact absurd rfl (fun h => hn1 _ h rfl))
    simp only [e]
    simp only [dite_eq_ite] at ih
    apply ih (fun x hx => hm x (by simp [hx]))
    intro x hx
    rcases appendOne_mem hx with h1 | rfl
    · exact ha x h1
    · have := hm x (by simp)
      cases x <;> simp_all [M.isQIn, M.isLitE]

/-- multi-flattening a list of CNFs yields Any/Empty/clauses -/
theorem flattenAux_multi_clauses (ms acc : List M) : (∀ x ∈ ms, x.isCnf = true) → (∀ x ∈ acc, x.isCOut = true) →
    ∀ x ∈ flattenAux true ms acc, x.isCOut = true := by
  induction ms, acc using flattenAux.induct true with
  | case1 acc => intro _ ha; rw [flattenAux.eq_def]; simpa using ha
  | case2 rest acc inner _ ih1 ih2 =>
    intro hm ha
    rw [flattenAux.eq_def]
    simp only
    have hin : ∀ x ∈ inner, x.isClause = true := by
      have := hm (.multi inner) (by simp); simp [M.isCnf] at this; exact this.2
    have hplain := flattenAux_plain true inner [] (by
      intro x hx; have := hin x hx; cases x <;> simp_all [M.isClause, M.isMulti])
    apply ih2 (fun x hx => hm x (by simp [hx]))
    intro x hx
    rcases appendNew_mem _ _ hx with h1 | h1
    · exact ha x h1
    · rcases hplain.1 x h1 with h2 | h2
      · simp at h2
      · have := hin x h2
        cases x <;> simp_all [M.isClause, M.isCOut]
  | case3 rest acc inner h => exact absurd h (by simp)
  | case4 rest acc m hn1 hn2 ih =>
    intro hm ha
    rw [flattenAux.eq_def]
    have e : (match m, true with
      | M.multi inner, true => flattenAux true rest (appendNew acc (flattenAux true inner []))
      | M.union inner, false => flattenAux true rest (appendNew acc (flattenAux true inner []))
      | m, x => flattenAux true rest (if m.mem acc = true then acc else acc ++ [m])) =
        flattenAux true rest (if m.mem acc = true then acc else acc ++ [m]) := by
      cases m <;> first | rfl | (exact absurd rfl (fun h => hn1 _ h rfl))
    simp only [e]
    simp only [dite_eq_ite] at ih
    apply ih (fun x hx => hm x (by simp [hx]))
    intro x hx
    rcases appendOne_mem hx with h1 | rfl
    · exact ha x h1
    · have := hm x (by simp)
      cases x <;> simp_all [M.isCnf, M.isCOut, M.isClause]

theorem flattenAux_union_cubes (ms acc : List M) : (∀ x ∈ ms, x.isDnf = true) → (∀ x ∈ acc, x.isQOut = true) →
    ∀ x ∈ flattenAux false ms acc, x.isQOut = true := by
  induction ms, acc using flattenAux.induct false with
  | case1 acc => intro _ ha; rw [flattenAux.eq_def]; simpa using ha
  | case2 rest acc inner h => exact absurd h (by simp)
  | case3 rest acc inner _ ih1 ih2 =>
    intro hm ha
    rw [flattenAux.eq_def]
    simp only
    have hin : ∀ x ∈ inner, x.isCube = true := by
      have := hm (.union inner) (by simp); simp [M.isDnf] at this; exact this.2
    have hplain := flattenAux_plain false inner [] (by
      intro x hx; have := hin x hx; cases x <;> simp_all [M.isCube, M.isUnion])
    apply ih2 (fun x hx => hm x (by simp [hx]))
    intro x hx
    rcases appendNew_mem _ _ hx with h1 | h1
    · exact ha x h1
    · rcases hplain.1 x h1 with h2 | h2
      · simp at h2
      · have := hin x h2
        cases x <;> simp_all [M.isCube, M.isQOut]
  | case4 rest acc m hn1 hn2 ih =>
    intro hm ha
    rw [flattenAux.eq_def]
    have e : (match m, false with
      | M.multi inner, true => flattenAux false rest (appendNew acc (flattenAux false inner []))
      | M.union inner, false => flattenAux false rest (appendNew acc (flattenAux false inner []))
      | m, x => flattenAux false rest (if m.mem acc = true then acc else acc ++ [m])) =
        flattenAux false rest (if m.mem acc = true then acc else acc ++ [m]) := by
      cases m <;> first | rfl | (exact absurd rfl (fun h => hn2 _ h rfl))
    simp only [e]
    simp only [dite_eq_ite] at ih
    apply ih (fun x hx => hm x (by simp [hx]))
    intro x hx
    rcases appendOne_mem hx with h1 | rfl
    · exact ha x h1
    · have := hm x (by simp)
      cases x <;> simp_all [M.isDnf, M.isQOut, M.isCube]

/-! ### `MarkerUnion.of` on clauses (literal level) -/

theorem setAt_mem {l : List M} {i : Nat} {x y : M} (h : y ∈ setAt l i x) : y ∈ l ∨ y = x := by
  simp only [setAt] at h
  exact List.mem_or_eq_of_mem_set h

theorem setAt_len (l : List M) (i : Nat) (x : M) : (setAt l i x).length = l.length := by
  simp [setAt]

theorem beqList_length : ∀ {as bs : List M}, M.beqList as bs = true → as.length = bs.length
  | [], [], _ => rfl
  | [], _ :: _, h => by simp [M.beqList] at h
  | _ :: _, [], h => by simp [M.beqList] at h
  | a :: as, b :: bs, h => by
      simp [M.beqList] at h
      simp [beqList_length h.2]

theorem unionTry_lits : ∀ (n : Nat) (stk : Stack) (marker : M) (all : List M) (i : Nat) (remaining : List M)
    (r : Unit ⊕ Option (List M)), marker.isLitE = true → (∀ y ∈ all, y.isLitA = true) →
    (∀ y ∈ remaining, y.isLitA = true) → unionTry n stk marker all i remaining = .ok r →
    ∀ l, r = .inr (some l) → ∀ y ∈ l, y.isLitA = true := by
  intro n
  induction n with
  | zero => intro stk marker all i remaining r _ _ _ h; rw [unionTry.eq_def] at h; cases h
  | succ n ih =>
    intro stk marker all i remaining r hmk hall hrem h l hl
    rw [unionTry.eq_def] at h
    simp only at h
    cases remaining with
    | nil => simp at h; subst h; cases hl
    | cons mark more =>
      simp only at h
      have hmark := hrem mark (by simp)
      have hmore : ∀ y ∈ more, y.isLitA = true := fun y hy => hrem y (by simp [hy])
      split at h
      · simp [M.isLitA] at hmark
      · simp [M.isLitE] at hmk
      · rw [pure_bind] at h
        simp only at h
        cases mark with
        | leaf lf =>
          simp only at h
          obtain ⟨nm, h1, h2⟩ := bind_ok.1 h
          by_cases ha : nm.isAny = true
          · simp only [ha, if_true, pure_ok] at h2; subst h2; cases hl
          · simp only [ha, if_false, Bool.false_eq_true] at h2
            cases nm with
            | leaf l' =>
              simp only [pure_ok] at h2; subst h2
              injection hl with hl; injection hl with hl; subst hl
              intro y hy
              rcases setAt_mem hy with h3 | rfl
              · exact hall y h3
              · rfl
            | _ => exact ih stk marker all (i + 1) more r hmk hall hmore (by simpa using h2) l hl
        | any => exact ih stk marker all (i + 1) more r hmk hall hmore (by simpa using h) l hl
        | empty => simp [M.isLitA] at hmark
        | multi _ => simp [M.isLitA] at hmark
        | union _ => simp [M.isLitA] at hmark

theorem unionPass_lits : ∀ (n : Nat) (stk : Stack) (todo new l : List M), (∀ y ∈ todo, y.isLitE = true) →
    (∀ y ∈ new, y.isLitA = true) → unionPass n stk todo new = .ok (some l) → ∀ y ∈ l, y.isLitA = true := by
  intro n
  induction n with
  | zero => intro stk todo new l _ _ h; rw [unionPass.eq_def] at h; cases h
  | succ n ih =>
    intro stk todo new l ht hn h
    rw [unionPass.eq_def] at h
    simp only at h
    cases todo with
    | nil => simp at h; subst h; exact hn
    | cons marker rest =>
      simp only at h
      have hmk := ht marker (by simp)
      have hrest : ∀ y ∈ rest, y.isLitE = true := fun y hy => ht y (by simp [hy])
      by_cases hmem : M.mem marker new = true
      · simp only [hmem, if_true] at h; exact ih stk rest new l hrest hn h
      · simp only [hmem, if_false, Bool.false_eq_true] at h
        by_cases he : marker.isEmpty = true
        · simp only [he, if_true] at h; exact ih stk rest new l hrest hn h
        · simp only [he, if_false, Bool.false_eq_true] at h
          obtain ⟨t, h1, h2⟩ := bind_ok.1 h
          match t, h1, h2 with
          | .inl (), _, h2 => simp [pure_ok] at h2
          | .inr (some new'), h1, h2 =>
            simp only at h2
            have hl' := unionTry_lits n stk marker new 0 new _ hmk hn hn h1 new' rfl
            have hplain := flattenAux_plain false new' [] (by
              intro x hx; have := hl' x hx; cases x <;> simp_all [M.isLitA, M.isUnion])
            refine ih stk rest _ l hrest ?_ h2
            intro y hy
            rcases hplain.1 y hy with h3 | h3
            · simp at h3
            · exact hl' y h3
          | .inr none, _, h2 =>
            simp only at h2
            refine ih stk rest _ l hrest ?_ h2
            intro y hy
            simp at hy
            rcases hy with hy | rfl
            · exact hn y hy
            · cases y <;> simp_all [M.isLitE, M.isLitA, M.isEmpty]

theorem mkUnion_leaves {new : List M} (hne : new ≠ []) (h : ∀ y ∈ new, y.isLeaf = true) :
    (mkUnion new).isClause = true := by
  have hpl : ∀ x ∈ new, (if false then x.isMulti else x.isUnion) = false := by
    intro x hx; have := h x hx; cases x <;> simp_all [M.isLeaf, M.isUnion]
  have hplain := flattenAux_plain false new [] hpl
  have hnn := (flattenAux_plain_len false new [] hpl).2 hne
  simp only [mkUnion, flattenMarkers, M.isClause, Bool.and_eq_true, List.all_eq_true]
  refine ⟨by simpa using hnn, ?_⟩
  intro y hy
  rcases hplain.1 y hy with h3 | h3
  · simp at h3
  · exact h y h3

theorem mkMulti_leaves {new : List M} (hne : new ≠ []) (h : ∀ y ∈ new, y.isLeaf = true) :
    (mkMulti new).isCube = true := by
  have hpl : ∀ x ∈ new, (if true then x.isMulti else x.isUnion) = false := by
    intro x hx; have := h x hx; cases x <;> simp_all [M.isLeaf, M.isMulti]
  have hplain := flattenAux_plain true new [] hpl
  have hnn := (flattenAux_plain_len true new [] hpl).2 hne
  simp only [mkMulti, flattenMarkers, M.isCube, Bool.and_eq_true, List.all_eq_true]
  refine ⟨by simpa using hnn, ?_⟩
  intro y hy
  rcases hplain.1 y hy with h3 | h3
  · simp at h3
  · exact h y h3

theorem beqList_nil_left {new : List M} (h : M.beqList [] new = true) : new = [] := by
  cases new with
  | nil => rfl
  | cons a l => simp [M.beqList] at h

theorem unionOfLoop_lits : ∀ (n : Nat) (stk : Stack) (old new : List M) (r : M), (∀ y ∈ new, y.isLitE = true) →
    (old = [] ∨ ∀ y ∈ new, y.isLitA = true) → unionOfLoop n stk old new = .ok r → r.isCOut = true := by
  intro n
  induction n with
  | zero => intro stk old new r _ _ h; rw [unionOfLoop.eq_def] at h; cases h
  | succ n ih =>
    intro stk old new r hn hH h
    rw [unionOfLoop.eq_def] at h
    simp only at h
    by_cases hb : M.beqList old new = true
    · simp only [hb, if_true] at h
      have hA : ∀ y ∈ new, y.isLitA = true := by
        rcases hH with rfl | hH
        · have := beqList_nil_left hb; subst this; simp
        · exact hH
      by_cases ha : new.any M.isAny = true
      · simp only [ha, if_true] at h; cases h; rfl
      · simp only [ha, if_false, Bool.false_eq_true] at h
        have hleaf : ∀ y ∈ new, y.isLeaf = true := by
          intro y hy
          have h1 := hA y hy
          have h2 : y.isAny = false := by
            simp only [List.any_eq_true, not_exists, not_and] at ha
            simpa using ha y hy
          cases y <;> simp_all [M.isLitA, M.isAny, M.isLeaf]
        match new, hleaf, h with
        | [], _, h => cases h; rfl
        | [x], hleaf, h =>
          cases h
          have := hleaf r (by simp)
          cases r <;> simp_all [M.isLeaf, M.isCOut, M.isClause]
        | a :: b :: l, hleaf, h =>
          simp only at h; cases h
          have := mkUnion_leaves (by simp) hleaf
          simp only [mkUnion] at this ⊢
          simpa [M.isCOut] using this
    · simp only [hb, if_false, Bool.false_eq_true] at h
      obtain ⟨p, h1, h2⟩ := bind_ok.1 h
      cases p with
      | none => simp only [pure_ok] at h2; subst h2; rfl
      | some new' =>
        simp only at h2
        have hl := unionPass_lits n stk new [] new' hn (by simp) h1
        refine ih stk new new' r ?_ (Or.inr hl) h2
        intro y hy; have := hl y hy; cases y <;> simp_all [M.isLitA, M.isLitE]

/-- **`MarkerUnion.of` of clauses is a clause** (or Any/Empty) -/
theorem unionOf_clause {n : Nat} {stk : Stack} {ms : List M} {r : M} (hm : ∀ x ∈ ms, x.isCIn = true)
    (h : unionOf n stk ms = .ok r) : r.isCOut = true := by
  rw [unionOf.eq_def] at h
  cases n with
  | zero => cases h
  | succ n =>
    simp only at h
    exact unionOfLoop_lits n stk [] _ r (flattenAux_union_lits ms [] hm (by simp)) (Or.inl rfl) h

/-! ### `MultiMarker.of` on cubes (literal level) -/

theorem multiTry_lits : ∀ (n : Nat) (stk : Stack) (marker : M) (all : List M) (i : Nat) (remaining : List M)
    (r : Unit ⊕ Option (List M)), marker.isLitE = true → (∀ y ∈ all, y.isLitØ = true) →
    (∀ y ∈ remaining, y.isLitØ = true) → multiTry n stk marker all i remaining = .ok r →
    ∀ l, r = .inr (some l) → ∀ y ∈ l, y.isLitØ = true := by
  intro n
  induction n with
  | zero => intro stk marker all i remaining r _ _ _ h; rw [multiTry.eq_def] at h; cases h
  | succ n ih =>
    intro stk marker all i remaining r hmk hall hrem h l hl
    rw [multiTry.eq_def] at h
    simp only at h
    cases remaining with
    | nil => simp at h; subst h; cases hl
    | cons mark more =>
      simp only at h
      have hmark := hrem mark (by simp)
      have hmore : ∀ y ∈ more, y.isLitØ = true := fun y hy => hrem y (by simp [hy])
      split at h
      · simp [M.isLitØ] at hmark
      · simp [M.isLitE] at hmk
      · rw [pure_bind] at h
        simp only at h
        cases mark with
        | leaf lf =>
          simp only at h
          obtain ⟨nm, h1, h2⟩ := bind_ok.1 h
          by_cases ha : nm.isEmpty = true
          · simp only [ha, if_true, pure_ok] at h2; subst h2; cases hl
          · simp only [ha, if_false, Bool.false_eq_true] at h2
            cases nm with
            | leaf l' =>
              simp only [pure_ok] at h2; subst h2
              injection hl with hl; injection hl with hl; subst hl
              intro y hy
              rcases setAt_mem hy with h3 | rfl
              · exact hall y h3
              · rfl
            | _ => exact ih stk marker all (i + 1) more r hmk hall hmore (by simpa using h2) l hl
        | empty => exact ih stk marker all (i + 1) more r hmk hall hmore (by simpa using h) l hl
        | any => simp [M.isLitØ] at hmark
        | union _ => simp [M.isLitØ] at hmark
        | multi _ => simp [M.isLitØ] at hmark

theorem multiPass_lits : ∀ (n : Nat) (stk : Stack) (todo new l : List M), (∀ y ∈ todo, y.isLitE = true) →
    (∀ y ∈ new, y.isLitØ = true) → multiPass n stk todo new = .ok (some l) → ∀ y ∈ l, y.isLitØ = true := by
  intro n
  induction n with
  | zero => intro stk todo new l _ _ h; rw [multiPass.eq_def] at h; cases h
  | succ n ih =>
    intro stk todo new l ht hn h
    rw [multiPass.eq_def] at h
    simp only at h
    cases todo with
    | nil => simp at h; subst h; exact hn
    | cons marker rest =>
      simp only at h
      have hmk := ht marker (by simp)
      have hrest : ∀ y ∈ rest, y.isLitE = true := fun y hy => ht y (by simp [hy])
      by_cases hmem : M.mem marker new = true
      · simp only [hmem, if_true] at h; exact ih stk rest new l hrest hn h
      · simp only [hmem, if_false, Bool.false_eq_true] at h
        by_cases he : marker.isAny = true
        · simp only [he, if_true] at h; exact ih stk rest new l hrest hn h
        · simp only [he, if_false, Bool.false_eq_true] at h
          obtain ⟨t, h1, h2⟩ := bind_ok.1 h
          match t, h1, h2 with
          | .inl (), _, h2 => simp [pure_ok] at h2
          | .inr (some new'), h1, h2 =>
            simp only at h2
            have hl' := multiTry_lits n stk marker new 0 new _ hmk hn hn h1 new' rfl
            have hplain := flattenAux_plain true new' [] (by
              intro x hx; have := hl' x hx; cases x <;> simp_all [M.isLitØ, M.isMulti])
            refine ih stk rest _ l hrest ?_ h2
            intro y hy
            rcases hplain.1 y hy with h3 | h3
            · simp at h3
            · exact hl' y h3
          | .inr none, _, h2 =>
            simp only at h2
            refine ih stk rest _ l hrest ?_ h2
            intro y hy
            simp at hy
            rcases hy with hy | rfl
            · exact hn y hy
            · cases y <;> simp_all [M.isLitE, M.isLitØ, M.isAny]

theorem multiOfLoop_lits : ∀ (n : Nat) (stk : Stack) (old new : List M) (r : M), (∀ y ∈ new, y.isLitE = true) →
    (old = [] ∨ ∀ y ∈ new, y.isLitØ = true) → multiOfLoop n stk old new = .ok r → r.isQOut = true := by
  intro n
  induction n with
  | zero => intro stk old new r _ _ h; rw [multiOfLoop.eq_def] at h; cases h
  | succ n ih =>
    intro stk old new r hn hH h
    rw [multiOfLoop.eq_def] at h
    simp only at h
    by_cases hb : M.beqList old new = true
    · simp only [hb, if_true] at h
      have hA : ∀ y ∈ new, y.isLitØ = true := by
        rcases hH with rfl | hH
        · have := beqList_nil_left hb; subst this; simp
        · exact hH
      by_cases ha : new.any M.isEmpty = true
      · simp only [ha, if_true] at h; cases h; rfl
      · simp only [ha, if_false, Bool.false_eq_true] at h
        have hleaf : ∀ y ∈ new, y.isLeaf = true := by
          intro y hy
          have h1 := hA y hy
          have h2 : y.isEmpty = false := by
            simp only [List.any_eq_true, not_exists, not_and] at ha
            simpa using ha y hy
          cases y <;> simp_all [M.isLitØ, M.isEmpty, M.isLeaf]
        match new, hleaf, h with
        | [], _, h => cases h; rfl
        | [x], hleaf, h =>
          cases h
          have := hleaf r (by simp)
          cases r <;> simp_all [M.isLeaf, M.isQOut, M.isCube]
        | a :: b :: l, hleaf, h =>
          simp only at h; cases h
          have := mkMulti_leaves (by simp) hleaf
          simp only [mkMulti] at this ⊢
          simpa [M.isQOut] using this
    · simp only [hb, if_false, Bool.false_eq_true] at h
      obtain ⟨p, h1, h2⟩ := bind_ok.1 h
      cases p with
      | none => simp only [pure_ok] at h2; subst h2; rfl
      | some new' =>
        simp only at h2
        have hl := multiPass_lits n stk new [] new' hn (by simp) h1
        refine ih stk new new' r ?_ (Or.inr hl) h2
        intro y hy; have := hl y hy; cases y <;> simp_all [M.isLitØ, M.isLitE]

/-- **`MarkerUnion.of` of clauses is a clause** (or Any/Empty) -/
theorem multiOf_cube {n : Nat} {stk : Stack} {ms : List M} {r : M} (hm : ∀ x ∈ ms, x.isQIn = true)
    (h : multiOf n stk ms = .ok r) : r.isQOut = true := by
  rw [multiOf.eq_def] at h
  cases n with
  | zero => cases h
  | succ n =>
    simp only at h
    exact multiOfLoop_lits n stk [] _ r (flattenAux_multi_lits ms [] hm (by simp)) (Or.inl rfl) h

/-! ### `MultiMarker.of(c)` / `MarkerUnion.of(c)` of one member -/

theorem multiPass_nil {n : Nat} {stk : Stack} {acc : List M} {p : Option (List M)}
    (h : multiPass n stk [] acc = .ok p) : p = some acc := by
  rw [multiPass.eq_def] at h
  cases n with
  | zero => cases h
  | succ n => simp at h; exact h.symm

theorem unionPass_nil {n : Nat} {stk : Stack} {acc : List M} {p : Option (List M)}
    (h : unionPass n stk [] acc = .ok p) : p = some acc := by
  rw [unionPass.eq_def] at h
  cases n with
  | zero => cases h
  | succ n => simp at h; exact h.symm

theorem multiPass_single {n : Nat} {stk : Stack} {c : M} {p : Option (List M)}
    (h : multiPass n stk [c] [] = .ok p) : p = some [] ∨ p = some [c] := by
  rw [multiPass.eq_def] at h
  cases n with
  | zero => cases h
  | succ n =>
    simp only [M.mem_nil, Bool.false_eq_true, if_false] at h
    by_cases ha : c.isAny = true
    · simp only [ha, if_true] at h; exact Or.inl (multiPass_nil h)
    · simp only [ha, if_false, Bool.false_eq_true] at h
      obtain ⟨t, h1, h2⟩ := bind_ok.1 h
      rw [multiTry.eq_def] at h1
      cases n with
      | zero => cases h1
      | succ n =>
        simp only at h1; cases h1
        simp only [List.nil_append] at h2
        exact Or.inr (multiPass_nil h2)

theorem unionPass_single {n : Nat} {stk : Stack} {c : M} {p : Option (List M)}
    (h : unionPass n stk [c] [] = .ok p) : p = some [] ∨ p = some [c] := by
  rw [unionPass.eq_def] at h
  cases n with
  | zero => cases h
  | succ n =>
    simp only [M.mem_nil, Bool.false_eq_true, if_false] at h
    by_cases ha : c.isEmpty = true
    · simp only [ha, if_true] at h; exact Or.inl (unionPass_nil h)
    · simp only [ha, if_false, Bool.false_eq_true] at h
      obtain ⟨t, h1, h2⟩ := bind_ok.1 h
      rw [unionTry.eq_def] at h1
      cases n with
      | zero => cases h1
      | succ n =>
        simp only at h1; cases h1
        simp only [List.nil_append] at h2
        exact Or.inr (unionPass_nil h2)

theorem multiOfLoop_single : ∀ (n : Nat) (stk : Stack) (old : List M) (r : M),
    (multiOfLoop n stk old [] = .ok r → r = .any) ∧
    (∀ c, multiOfLoop n stk old [c] = .ok r → r = c ∨ r = .any ∨ r = .empty) := by
  intro n
  induction n with
  | zero =>
    intro stk old r
    exact ⟨fun h => (by rw [multiOfLoop.eq_def] at h; cases h),
           fun c h => (by rw [multiOfLoop.eq_def] at h; cases h)⟩
  | succ n ih =>
    intro stk old r
    refine ⟨?_, ?_⟩
    · intro h
      rw [multiOfLoop.eq_def] at h
      simp only at h
      by_cases hb : M.beqList old [] = true
      · simp [hb] at h; exact h.symm
      · simp only [hb, if_false, Bool.false_eq_true] at h
        obtain ⟨p, h1, h2⟩ := bind_ok.1 h
        have := multiPass_nil h1; subst this
        exact (ih stk [] r).1 h2
    · intro c h
      rw [multiOfLoop.eq_def] at h
      simp only at h
      by_cases hb : M.beqList old [c] = true
      · simp only [hb, if_true] at h
        by_cases he : [c].any M.isEmpty = true
        · simp only [he, if_true] at h; cases h; exact Or.inr (Or.inr rfl)
        · simp only [he, if_false, Bool.false_eq_true] at h; cases h; exact Or.inl rfl
      · simp only [hb, if_false, Bool.false_eq_true] at h
        obtain ⟨p, h1, h2⟩ := bind_ok.1 h
        rcases multiPass_single h1 with rfl | rfl
        · exact Or.inr (Or.inl ((ih stk [c] r).1 h2))
        · exact (ih stk [c] r).2 c h2

theorem unionOfLoop_single : ∀ (n : Nat) (stk : Stack) (old : List M) (r : M),
    (unionOfLoop n stk old [] = .ok r → r = .empty) ∧
    (∀ c, unionOfLoop n stk old [c] = .ok r → r = c ∨ r = .any ∨ r = .empty) := by
  intro n
  induction n with
  | zero =>
    intro stk old r
    exact ⟨fun h => (by rw [unionOfLoop.eq_def] at h; cases h),
           fun c h => (by rw [unionOfLoop.eq_def] at h; cases h)⟩
  | succ n ih =>
    intro stk old r
    refine ⟨?_, ?_⟩
    · intro h
      rw [unionOfLoop.eq_def] at h
      simp only at h
      by_cases hb : M.beqList old [] = true
      · simp [hb] at h; exact h.symm
      · simp only [hb, if_false, Bool.false_eq_true] at h
        obtain ⟨p, h1, h2⟩ := bind_ok.1 h
        have := unionPass_nil h1; subst this
        exact (ih stk [] r).1 h2
    · intro c h
      rw [unionOfLoop.eq_def] at h
      simp only at h
      by_cases hb : M.beqList old [c] = true
      · simp only [hb, if_true] at h
        by_cases he : [c].any M.isAny = true
        · simp only [he, if_true] at h; cases h; exact Or.inr (Or.inl rfl)
        · simp only [he, if_false, Bool.false_eq_true] at h; cases h; exact Or.inl rfl
      · simp only [hb, if_false, Bool.false_eq_true] at h
        obtain ⟨p, h1, h2⟩ := bind_ok.1 h
        rcases unionPass_single h1 with rfl | rfl
        · exact Or.inr (Or.inr ((ih stk [c] r).1 h2))
        · exact (ih stk [c] r).2 c h2

theorem flatten_single (b : Bool) (c : M) (hc : (if b then c.isMulti else c.isUnion) = false) :
    flattenMarkers b [c] = [c] := by
  simp only [flattenMarkers]
  rw [flattenAux.eq_def]
  cases b <;> cases c <;> simp_all [M.isMulti, M.isUnion, M.mem_nil] <;> rw [flattenAux.eq_def]

theorem multiOf_single {n : Nat} {stk : Stack} {c r : M} (hc : c.isMulti = false)
    (h : multiOf n stk [c] = .ok r) : r = c ∨ r = .any ∨ r = .empty := by
  rw [multiOf.eq_def] at h
  cases n with
  | zero => cases h
  | succ n =>
    simp only at h
    rw [flatten_single true c (by simpa using hc)] at h
    exact (multiOfLoop_single n stk [] r).2 c h

theorem unionOf_single {n : Nat} {stk : Stack} {c r : M} (hc : c.isUnion = false)
    (h : unionOf n stk [c] = .ok r) : r = c ∨ r = .any ∨ r = .empty := by
  rw [unionOf.eq_def] at h
  cases n with
  | zero => cases h
  | succ n =>
    simp only at h
    rw [flatten_single false c (by simpa using hc)] at h
    exact (unionOfLoop_single n stk [] r).2 c h

/-- a successful `_merge_single_markers` is Any, Empty or a single-marker-like -/
def MergeShape : Prop := ∀ l1 l2 im r, mergeLeaves l1 l2 im = .ok (some r) → r.isLitE = true

/-! ### `union()` of clauses is a clause -/

theorem cnf_lit {n : Nat} {stk : Stack} {x r : M} (hx : x.isLitE = true) (h : cnf n stk x = .ok r) : r = x := by
  rw [cnf.eq_def] at h
  cases n with
  | zero => cases h
  | succ n => cases x <;> simp_all [M.isLitE]

theorem mapCnf_lits {n : Nat} {stk : Stack} : ∀ (ls cs : List M), (∀ x ∈ ls, x.isLitE = true) →
    mapCnf n stk ls = .ok cs → cs = ls := by
  intro ls
  induction ls with
  | nil => intro cs _ h; rw [mapCnf.eq_def] at h; cases h; rfl
  | cons x ls ih =>
    intro cs hl h
    rw [mapCnf.eq_def] at h
    simp only at h
    obtain ⟨y, h1, h⟩ := bind_ok.1 h
    obtain ⟨ys, h2, h3⟩ := bind_ok.1 h
    rw [pure_ok] at h3; subst h3
    rw [cnf_lit (hl x (by simp)) h1, ih ys (fun z hz => hl z (by simp [hz])) h2]

theorem product_singletons (ls : List M) : product (ls.map (fun x => [x])) = [ls] := by
  induction ls with
  | nil => rfl
  | cons x ls ih => simp [product, ih]

theorem membersIfMulti_lits (ls : List M) (hl : ∀ x ∈ ls, x.isLitE = true) :
    ls.map membersIfMulti = ls.map (fun x => [x]) := by
  apply List.map_congr_left
  intro x hx
  have := hl x hx
  cases x <;> simp_all [M.isLitE, membersIfMulti]

/-- `cnf` of a clause (Any/Empty members allowed) is Any, Empty or a clause -/
theorem cnf_clause {n : Nat} {stk : Stack} {m r : M} (hm : m.isCIn = true) (h : cnf n stk m = .ok r) :
    r.isCOut = true := by
  cases m with
  | union ls =>
    rw [cnf.eq_def] at h
    cases n with
    | zero => cases h
    | succ n =>
      simp only at h
      have hl : ∀ x ∈ ls, x.isLitE = true := by simpa [M.isCIn] using hm
      obtain ⟨cs, h1, h⟩ := bind_ok.1 h
      obtain ⟨unions, h2, h3⟩ := bind_ok.1 h
      have := mapCnf_lits ls cs hl h1; subst this
      rw [membersIfMulti_lits cs hl, product_singletons] at h2
      rw [mapUnionOf.eq_def] at h2
      simp only at h2
      obtain ⟨u, hu, h2⟩ := bind_ok.1 h2
      obtain ⟨us, hus, h2⟩ := bind_ok.1 h2
      rw [mapUnionOf.eq_def] at hus
      cases hus
      rw [pure_ok] at h2; subst h2
      have hcu : u.isCOut = true := unionOf_clause (fun x hx => by
        have := hl x hx; cases x <;> simp_all [M.isLitE, M.isCIn]) hu
      rcases multiOf_single (by cases u <;> simp_all [M.isCOut, M.isClause, M.isMulti]) h3 with rfl | rfl | rfl
      · exact hcu
      · rfl
      · rfl
  | any => have := cnf_lit (by rfl) h; subst this; rfl
  | empty => have := cnf_lit (by rfl) h; subst this; rfl
  | leaf l => have := cnf_lit (by rfl) h; subst this; rfl
  | multi _ => simp [M.isCIn] at hm

theorem unwrapSingleton_CIn (k : Nat) (m : M) (hm : m.isCIn = true) : (unwrapSingleton k m).isCIn = true := by
  induction k, m using unwrapSingleton.induct with
  | case1 m => simpa [unwrapSingleton] using hm
  | case2 d x ih => simp [M.isCIn] at hm
  | case3 d x ih =>
    simp only [unwrapSingleton]
    apply ih
    have : x.isLitE = true := by simpa [M.isCIn] using hm
    cases x <;> simp_all [M.isLitE, M.isCIn]
  | case4 d m h1 h2 =>
    rw [unwrapSingleton]
    · exact hm
    · exact h1
    · exact h2

theorem unionF_clause {n : Nat} {stk : Stack} {ms : List M} {r : M} (hm : ∀ x ∈ ms, x.isCOut = true)
    (h : unionF n stk ms = .ok r) : r.isCOut = true := by
  rw [unionF.eq_def] at h
  cases n with
  | zero => cases h
  | succ n =>
    simp only at h
    by_cases hs : Stack.has stk true ms = true
    · simp [hs] at h
    · simp only [hs, if_false, Bool.false_eq_true] at h
      have hU : (unwrapSingleton (ms.length + 2) (mkUnion (ms.filter (fun m => !m.isEmpty)))).isCIn = true := by
        apply unwrapSingleton_CIn
        simp only [mkUnion, flattenMarkers, M.isCIn, List.all_eq_true]
        exact flattenAux_union_lits _ [] (fun x hx => M.isCOut_isCIn (hm x (List.mem_filter.1 hx).1)) (by simp)
      generalize unwrapSingleton (ms.length + 2) (mkUnion (ms.filter (fun m => !m.isEmpty))) = U at h hU
      cases hd : cnf n ((true, ms) :: stk) U with
      | error e => simp [hd] at h
      | ok d =>
        simp only [hd] at h
        have hdc := cnf_clause hU hd
        split at h
        · simp [M.isCOut, M.isClause] at hdc
        · cases h; exact hdc

theorem mUnion_clause (MS : MergeShape) : ∀ (n : Nat) (stk : Stack) (a b r : M), a.isCOut = true →
    b.isCOut = true → mUnion n stk a b = .ok r → r.isCOut = true := by
  intro n
  induction n with
  | zero => intro stk a b r _ _ h; rw [mUnion.eq_def] at h; cases h
  | succ n ih =>
    intro stk a b r ha hb h
    rw [mUnion.eq_def] at h
    simp only at h
    cases a with
    | any => cases h; rfl
    | empty => cases h; exact hb
    | leaf la =>
      cases b with
      | leaf lb =>
        simp only at h
        obtain ⟨o, h1, h2⟩ := bind_ok.1 h
        cases o with
        | some x =>
          rw [pure_ok] at h2; subst h2
          have := MS la lb false x h1
          cases x <;> simp_all [M.isLitE, M.isCOut, M.isClause]
        | none =>
          rw [pure_ok] at h2; subst h2
          have := mkUnion_leaves (new := [.leaf la, .leaf lb]) (by simp) (by simp [M.isLeaf])
          simp only [mkUnion] at this ⊢
          simpa [M.isCOut] using this
      | any => exact ih stk _ _ r hb ha h
      | empty => exact ih stk _ _ r hb ha h
      | multi _ => exact ih stk _ _ r hb ha h
      | union _ => exact ih stk _ _ r hb ha h
    | union ms =>
      exact unionF_clause (by intro x hx; simp at hx; rcases hx with rfl | rfl <;> assumption) h
    | multi _ => simp [M.isCOut, M.isClause] at ha

/-- `intersect_simplify` between a disjunction of leaves and a clause yields a clause -/
theorem intersectSimplify_clause (MS : MergeShape) {n : Nat} {stk : Stack} {ours : List M} {other x : M}
    (hne : ours ≠ []) (ho : ∀ y ∈ ours, y.isLeaf = true) (hoth : other.isCOut = true)
    (h : intersectSimplify n stk ours other = .ok (some x)) : x.isCOut = true := by
  rw [intersectSimplify.eq_def] at h
  cases n with
  | zero => cases h
  | succ n =>
    simp only at h
    by_cases hmem : M.mem other ours = true
    · simp only [hmem, if_true] at h; cases h; exact hoth
    · simp only [hmem, if_false, Bool.false_eq_true] at h
      cases other with
      | union theirs =>
        simp only at h
        by_cases h1 : isSubset ours theirs = true
        · simp only [h1, if_true] at h; cases h
          simp only [M.isCOut, M.isClause, Bool.and_eq_true, List.all_eq_true]
          exact ⟨by simpa using hne, ho⟩
        · simp only [h1, if_false, Bool.false_eq_true] at h
          by_cases h2 : isSubset theirs ours = true
          · simp only [h2, if_true] at h; cases h; exact hoth
          · simp only [h2, if_false, Bool.false_eq_true] at h
            by_cases h3 : (!(ours.any (fun m => M.mem m theirs))) = true
            · simp only [h3, if_true] at h; cases h
            · simp only [h3, if_false, Bool.false_eq_true] at h
              obtain ⟨ui, hi1, hi2⟩ := bind_ok.1 h
              have hC : (mkUnion (ours.filter (fun m => M.mem m theirs))).isCOut = true := by
                have hcne : ours.filter (fun m => M.mem m theirs) ≠ [] := by
                  simp only [Bool.not_eq_true', Bool.not_eq_false, List.any_eq_true] at h3
                  obtain ⟨y, hy, hmy⟩ := h3
                  intro hnil
                  have : y ∈ ours.filter (fun m => M.mem m theirs) := List.mem_filter.2 ⟨hy, hmy⟩
                  rw [hnil] at this; simp at this
                have := mkUnion_leaves (new := ours.filter (fun m => M.mem m theirs)) hcne
                  (fun y hy => ho y (List.mem_filter.1 hy).1)
                simp only [mkUnion] at this ⊢
                simpa [M.isCOut] using this
              cases ui with
              | leaf l =>
                simp only at hi2
                obtain ⟨r', hr1, hr2⟩ := bind_ok.1 hi2
                rw [pure_ok] at hr2; cases hr2
                exact mUnion_clause MS n stk _ _ x rfl hC hr1
              | empty =>
                simp only at hi2
                obtain ⟨r', hr1, hr2⟩ := bind_ok.1 hi2
                rw [pure_ok] at hr2; cases hr2
                exact mUnion_clause MS n stk _ _ x rfl hC hr1
              | any => simp only [pure_ok] at hi2; cases hi2
              | multi _ => simp only [pure_ok] at hi2; cases hi2
              | union _ => simp only [pure_ok] at hi2; cases hi2
      | any => cases h
      | empty => cases h
      | leaf _ => cases h
      | multi _ => cases h

/-! ### `intersection()` of cubes is a cube -/

theorem dnf_lit {n : Nat} {stk : Stack} {x r : M} (hx : x.isLitE = true) (h : dnf n stk x = .ok r) : r = x := by
  rw [dnf.eq_def] at h
  cases n with
  | zero => cases h
  | succ n => cases x <;> simp_all [M.isLitE]

theorem mapDnf_lits {n : Nat} {stk : Stack} : ∀ (ls cs : List M), (∀ x ∈ ls, x.isLitE = true) →
    mapDnf n stk ls = .ok cs → cs = ls := by
  intro ls
  induction ls with
  | nil => intro cs _ h; rw [mapDnf.eq_def] at h; cases h; rfl
  | cons x ls ih =>
    intro cs hl h
    rw [mapDnf.eq_def] at h
    simp only at h
    obtain ⟨y, h1, h⟩ := bind_ok.1 h
    obtain ⟨ys, h2, h3⟩ := bind_ok.1 h
    rw [pure_ok] at h3; subst h3
    rw [dnf_lit (hl x (by simp)) h1, ih ys (fun z hz => hl z (by simp [hz])) h2]

theorem membersIfUnion_lits (ls : List M) (hl : ∀ x ∈ ls, x.isLitE = true) :
    ls.map membersIfUnion = ls.map (fun x => [x]) := by
  apply List.map_congr_left
  intro x hx
  have := hl x hx
  cases x <;> simp_all [M.isLitE, membersIfUnion]

/-- `dnf` of a clause (Any/Empty members allowed) is Any, Empty or a clause -/
theorem dnf_cube {n : Nat} {stk : Stack} {m r : M} (hm : m.isQIn = true) (h : dnf n stk m = .ok r) :
    r.isQOut = true := by
  cases m with
  | multi ls =>
    rw [dnf.eq_def] at h
    cases n with
    | zero => cases h
    | succ n =>
      simp only at h
      have hl : ∀ x ∈ ls, x.isLitE = true := by simpa [M.isQIn] using hm
      obtain ⟨cs, h1, h⟩ := bind_ok.1 h
      obtain ⟨unions, h2, h3⟩ := bind_ok.1 h
      have := mapDnf_lits ls cs hl h1; subst this
      rw [membersIfUnion_lits cs hl, product_singletons] at h2
      rw [mapMultiOf.eq_def] at h2
      simp only at h2
      obtain ⟨u, hu, h2⟩ := bind_ok.1 h2
      obtain ⟨us, hus, h2⟩ := bind_ok.1 h2
      rw [mapMultiOf.eq_def] at hus
      cases hus
      rw [pure_ok] at h2; subst h2
      have hcu : u.isQOut = true := multiOf_cube (fun x hx => by
        have := hl x hx; cases x <;> simp_all [M.isLitE, M.isQIn]) hu
      rcases unionOf_single (by cases u <;> simp_all [M.isQOut, M.isCube, M.isUnion]) h3 with rfl | rfl | rfl
      · exact hcu
      · rfl
      · rfl
  | empty => have := dnf_lit (by rfl) h; subst this; rfl
  | any => have := dnf_lit (by rfl) h; subst this; rfl
  | leaf l => have := dnf_lit (by rfl) h; subst this; rfl
  | union _ => simp [M.isQIn] at hm

theorem unwrapSingleton_QIn (k : Nat) (m : M) (hm : m.isQIn = true) : (unwrapSingleton k m).isQIn = true := by
  induction k, m using unwrapSingleton.induct with
  | case1 m => simpa [unwrapSingleton] using hm
  | case3 d x ih => simp [M.isQIn] at hm
  | case2 d x ih =>
    simp only [unwrapSingleton]
    apply ih
    have : x.isLitE = true := by simpa [M.isQIn] using hm
    cases x <;> simp_all [M.isLitE, M.isQIn]
  | case4 d m h1 h2 =>
    rw [unwrapSingleton]
    · exact hm
    · exact h1
    · exact h2

theorem intersectionF_cube {n : Nat} {stk : Stack} {ms : List M} {r : M} (hm : ∀ x ∈ ms, x.isQOut = true)
    (h : intersectionF n stk ms = .ok r) : r.isQOut = true := by
  rw [intersectionF.eq_def] at h
  cases n with
  | zero => cases h
  | succ n =>
    simp only at h
    by_cases hs : Stack.has stk false ms = true
    · simp [hs] at h
    · simp only [hs, if_false, Bool.false_eq_true] at h
      have hU : (unwrapSingleton (ms.length + 2) (mkMulti (ms.filter (fun m => !m.isAny)))).isQIn = true := by
        apply unwrapSingleton_QIn
        simp only [mkMulti, flattenMarkers, M.isQIn, List.all_eq_true]
        exact flattenAux_multi_lits _ [] (fun x hx => M.isQOut_isQIn (hm x (List.mem_filter.1 hx).1)) (by simp)
      generalize unwrapSingleton (ms.length + 2) (mkMulti (ms.filter (fun m => !m.isAny))) = U at h hU
      cases hd : dnf n ((false, ms) :: stk) U with
      | error e => simp [hd] at h
      | ok d =>
        simp only [hd] at h
        have hdc := dnf_cube hU hd
        split at h
        · simp [M.isQOut, M.isCube] at hdc
        · cases h; exact hdc

theorem mIntersect_cube (MS : MergeShape) : ∀ (n : Nat) (stk : Stack) (a b r : M), a.isQOut = true →
    b.isQOut = true → mIntersect n stk a b = .ok r → r.isQOut = true := by
  intro n
  induction n with
  | zero => intro stk a b r _ _ h; rw [mIntersect.eq_def] at h; cases h
  | succ n ih =>
    intro stk a b r ha hb h
    rw [mIntersect.eq_def] at h
    simp only at h
    cases a with
    | empty => cases h; rfl
    | any => cases h; exact hb
    | leaf la =>
      cases b with
      | leaf lb =>
        simp only at h
        obtain ⟨o, h1, h2⟩ := bind_ok.1 h
        cases o with
        | some x =>
          rw [pure_ok] at h2; subst h2
          have := MS la lb true x h1
          cases x <;> simp_all [M.isLitE, M.isQOut, M.isCube]
        | none =>
          rw [pure_ok] at h2; subst h2
          have := mkMulti_leaves (new := [.leaf la, .leaf lb]) (by simp) (by simp [M.isLeaf])
          simp only [mkMulti] at this ⊢
          simpa [M.isQOut] using this
      | empty => exact ih stk _ _ r hb ha h
      | any => exact ih stk _ _ r hb ha h
      | union _ => exact ih stk _ _ r hb ha h
      | multi _ => exact ih stk _ _ r hb ha h
    | multi ms =>
      exact intersectionF_cube (by intro x hx; simp at hx; rcases hx with rfl | rfl <;> assumption) h
    | union _ => simp [M.isQOut, M.isCube] at ha

/-- `intersect_simplify` between a disjunction of leaves and a clause yields a clause -/
theorem unionSimplify_cube (MS : MergeShape) {n : Nat} {stk : Stack} {ours : List M} {other x : M}
    (hne : ours ≠ []) (ho : ∀ y ∈ ours, y.isLeaf = true) (hoth : other.isQOut = true)
    (h : unionSimplify n stk ours other = .ok (some x)) : x.isQOut = true := by
  rw [unionSimplify.eq_def] at h
  cases n with
  | zero => cases h
  | succ n =>
    simp only at h
    by_cases hmem : M.mem other ours = true
    · simp only [hmem, if_true] at h; cases h; exact hoth
    · simp only [hmem, if_false, Bool.false_eq_true] at h
      cases other with
      | multi theirs =>
        simp only at h
        by_cases h1 : isSubset ours theirs = true
        · simp only [h1, if_true] at h; cases h
          simp only [M.isQOut, M.isCube, Bool.and_eq_true, List.all_eq_true]
          exact ⟨by simpa using hne, ho⟩
        · simp only [h1, if_false, Bool.false_eq_true] at h
          by_cases h2 : isSubset theirs ours = true
          · simp only [h2, if_true] at h; cases h; exact hoth
          · simp only [h2, if_false, Bool.false_eq_true] at h
            by_cases h3 : (!(ours.any (fun m => M.mem m theirs))) = true
            · simp only [h3, if_true] at h; cases h
            · simp only [h3, if_false, Bool.false_eq_true] at h
              obtain ⟨ui, hi1, hi2⟩ := bind_ok.1 h
              have hC : (mkMulti (ours.filter (fun m => M.mem m theirs))).isQOut = true := by
                have hcne : ours.filter (fun m => M.mem m theirs) ≠ [] := by
                  simp only [Bool.not_eq_true', Bool.not_eq_false, List.any_eq_true] at h3
                  obtain ⟨y, hy, hmy⟩ := h3
                  intro hnil
                  have : y ∈ ours.filter (fun m => M.mem m theirs) := List.mem_filter.2 ⟨hy, hmy⟩
                  rw [hnil] at this; simp at this
                have := mkMulti_leaves (new := ours.filter (fun m => M.mem m theirs)) hcne
                  (fun y hy => ho y (List.mem_filter.1 hy).1)
                simp only [mkMulti] at this ⊢
                simpa [M.isQOut] using this
              cases ui with
              | leaf l =>
                simp only at hi2
                obtain ⟨r', hr1, hr2⟩ := bind_ok.1 hi2
                rw [pure_ok] at hr2; cases hr2
                exact mIntersect_cube MS n stk _ _ x rfl hC hr1
              | any =>
                simp only at hi2
                obtain ⟨r', hr1, hr2⟩ := bind_ok.1 hi2
                rw [pure_ok] at hr2; cases hr2
                exact mIntersect_cube MS n stk _ _ x rfl hC hr1
              | empty => simp only [pure_ok] at hi2; cases hi2
              | union _ => simp only [pure_ok] at hi2; cases hi2
              | multi _ => simp only [pure_ok] at hi2; cases hi2
      | empty => cases h
      | any => cases h
      | leaf _ => cases h
      | union _ => cases h

/-! ### `MultiMarker.of` on CNFs -/

theorem clause_of_COut {y : M} (h : y.isCOut = true) (ha : y.isAny = false) (he : y.isEmpty = false) :
    y.isClause = true := by
  cases y <;> simp_all [M.isCOut, M.isAny, M.isEmpty]

theorem multiTry_clauses (MS : MergeShape) : ∀ (n : Nat) (stk : Stack) (marker : M) (all : List M) (i : Nat)
    (remaining : List M) (r : Unit ⊕ Option (List M)), marker.isCOut = true →
    (∀ y ∈ all, y.isCOut = true) → (∀ y ∈ remaining, y.isCOut = true) →
    multiTry n stk marker all i remaining = .ok r →
    ∀ l, r = .inr (some l) → l.length = all.length ∧ ∀ y ∈ l, y.isCOut = true := by
  intro n
  induction n with
  | zero => intro stk marker all i remaining r _ _ _ h; rw [multiTry.eq_def] at h; cases h
  | succ n ih =>
    intro stk marker all i remaining r hmk hall hrem h l hl
    rw [multiTry.eq_def] at h
    simp only at h
    cases remaining with
    | nil => simp at h; subst h; cases hl
    | cons mark more =>
      simp only at h
      have hmark := hrem mark (by simp)
      have hmore : ∀ y ∈ more, y.isCOut = true := fun y hy => hrem y (by simp [hy])
      have hset : ∀ x, x.isCOut = true → (setAt all i x).length = all.length ∧
          ∀ y ∈ setAt all i x, y.isCOut = true := by
        intro x hx
        refine ⟨setAt_len _ _ _, ?_⟩
        intro y hy
        rcases setAt_mem hy with h3 | rfl
        · exact hall y h3
        · exact hx
      split at h
      · rename_i x0 us
        have hus' : us ≠ [] ∧ ∀ y ∈ us, y.isLeaf = true := by simpa [M.isCOut, M.isClause] using hmark
        have hus := hus'.2
        obtain ⟨r0, h1, h2⟩ := bind_ok.1 h
        cases r0 with
        | some x =>
          simp [pure, Except.pure, bind, Except.bind] at h2; subst h2
          injection hl with hl; injection hl with hl; subst hl
          exact hset x (intersectSimplify_clause MS hus'.1 hus hmk h1)
        | none =>
          simp [pure, Except.pure, bind, Except.bind] at h2
          exact ih stk _ all (i + 1) more r hmk hall hmore h2 l hl
      · rename_i us _
        have hus' : us ≠ [] ∧ ∀ y ∈ us, y.isLeaf = true := by simpa [M.isCOut, M.isClause] using hmk
        have hus := hus'.2
        obtain ⟨r0, h1, h2⟩ := bind_ok.1 h
        cases r0 with
        | some x =>
          simp [pure, Except.pure, bind, Except.bind] at h2; subst h2
          injection hl with hl; injection hl with hl; subst hl
          exact hset x (intersectSimplify_clause MS hus'.1 hus hmark h1)
        | none =>
          simp [pure, Except.pure, bind, Except.bind] at h2
          exact ih stk _ all (i + 1) more r hmk hall hmore h2 l hl
      · rw [pure_bind] at h
        simp only at h
        cases mark with
        | leaf lf =>
          simp only at h
          obtain ⟨nm, h1, h2⟩ := bind_ok.1 h
          by_cases ha : nm.isEmpty = true
          · simp only [ha, if_true, pure_ok] at h2; subst h2; cases hl
          · simp only [ha, if_false, Bool.false_eq_true] at h2
            cases nm with
            | leaf l' =>
              simp only [pure_ok] at h2; subst h2
              injection hl with hl; injection hl with hl; subst hl
              exact hset _ rfl
            | _ => exact ih stk marker all (i + 1) more r hmk hall hmore (by simpa using h2) l hl
        | _ => exact ih stk marker all (i + 1) more r hmk hall hmore (by simpa using h) l hl

theorem multiPass_clauses (MS : MergeShape) : ∀ (n : Nat) (stk : Stack) (todo acc l : List M),
    (∀ y ∈ todo, y.isCOut = true) → (∀ y ∈ acc, y.isCOut = true) →
    multiPass n stk todo acc = .ok (some l) →
    (∀ y ∈ l, y.isCOut = true) ∧ l.length ≤ acc.length + todo.length ∧
    (l.length = acc.length + todo.length → ∀ y ∈ l, y ∈ acc ∨ y.isAny = false) := by
  intro n
  induction n with
  | zero => intro stk todo acc l _ _ h; rw [multiPass.eq_def] at h; cases h
  | succ n ih =>
    intro stk todo acc l ht hn h
    rw [multiPass.eq_def] at h
    simp only at h
    cases todo with
    | nil =>
      simp at h; subst h
      exact ⟨hn, by simp, fun _ y hy => Or.inl hy⟩
    | cons marker rest =>
      simp only at h
      have hmk := ht marker (by simp)
      have hrest : ∀ y ∈ rest, y.isCOut = true := fun y hy => ht y (by simp [hy])
      by_cases hmem : M.mem marker acc = true
      · simp only [hmem, if_true] at h
        have := ih stk rest acc l hrest hn h
        refine ⟨this.1, by simp only [List.length_cons]; omega, ?_⟩
        intro he; simp only [List.length_cons] at he; omega
      · simp only [hmem, if_false, Bool.false_eq_true] at h
        by_cases he : marker.isAny = true
        · simp only [he, if_true] at h
          have := ih stk rest acc l hrest hn h
          refine ⟨this.1, by simp only [List.length_cons]; omega, ?_⟩
          intro he; simp only [List.length_cons] at he; omega
        · simp only [he, if_false, Bool.false_eq_true] at h
          obtain ⟨t, h1, h2⟩ := bind_ok.1 h
          match t, h1, h2 with
          | .inl (), _, h2 => simp [pure_ok] at h2
          | .inr (some new'), h1, h2 =>
            simp only at h2
            have hl' := multiTry_clauses MS n stk marker acc 0 acc _ hmk hn hn h1 new' rfl
            have hplain := flattenAux_plain true new' [] (by
              intro x hx; have := hl'.2 x hx; cases x <;> simp_all [M.isCOut, M.isClause, M.isMulti])
            have hf : ∀ y ∈ flattenMarkers true new', y.isCOut = true := by
              intro y hy
              rcases hplain.1 y hy with h3 | h3
              · simp at h3
              · exact hl'.2 y h3
            have := ih stk rest _ l hrest hf h2
            have hlen : (flattenMarkers true new').length ≤ acc.length := by
              have := hplain.2; simp only [List.length_nil, Nat.zero_add] at this
              simp only [flattenMarkers]; omega
            refine ⟨this.1, by simp only [List.length_cons]; omega, ?_⟩
            intro he; simp only [List.length_cons] at he; omega
          | .inr none, _, h2 =>
            simp only at h2
            have hg : ∀ y ∈ acc ++ [marker], y.isCOut = true := by
              intro y hy; simp at hy; rcases hy with hy | rfl
              · exact hn y hy
              · exact hmk
            have := ih stk rest _ l hrest hg h2
            simp only [List.length_append, List.length_cons, List.length_nil] at this
            refine ⟨this.1, by simp only [List.length_cons]; omega, ?_⟩
            intro hlen y hy
            simp only [List.length_cons] at hlen
            rcases this.2.2 (by omega) y hy with h3 | h3
            · simp at h3
              rcases h3 with h3 | rfl
              · exact Or.inl h3
              · exact Or.inr (by simpa using he)
            · exact Or.inr h3

theorem mkMulti_clauses {new : List M} (hne : new ≠ []) (h : ∀ y ∈ new, y.isClause = true) : (mkMulti new).isCnf = true := by
  have hpl : ∀ x ∈ new, (if true then x.isMulti else x.isUnion) = false := by
    intro x hx; have := h x hx; cases x <;> simp_all [M.isClause, M.isMulti]
  have hplain := flattenAux_plain true new [] hpl
  have hnn := (flattenAux_plain_len true new [] hpl).2 hne
  simp only [mkMulti, flattenMarkers, M.isCnf, Bool.and_eq_true, List.all_eq_true]
  refine ⟨by simpa using hnn, ?_⟩
  intro y hy
  rcases hplain.1 y hy with h3 | h3
  · simp at h3
  · exact h y h3

theorem multiOfLoop_clauses (MS : MergeShape) : ∀ (n : Nat) (stk : Stack) (old new : List M) (r : M),
    (∀ y ∈ new, y.isCOut = true) → (new.length = old.length → ∀ y ∈ new, y.isAny = false) →
    multiOfLoop n stk old new = .ok r → r.isCnf = true := by
  intro n
  induction n with
  | zero => intro stk old new r _ _ h; rw [multiOfLoop.eq_def] at h; cases h
  | succ n ih =>
    intro stk old new r hn hH h
    rw [multiOfLoop.eq_def] at h
    simp only at h
    by_cases hb : M.beqList old new = true
    · simp only [hb, if_true] at h
      have hA := hH (beqList_length hb).symm
      by_cases he : new.any M.isEmpty = true
      · simp only [he, if_true] at h; cases h; rfl
      · simp only [he, if_false, Bool.false_eq_true] at h
        have hcl : ∀ y ∈ new, y.isClause = true := by
          intro y hy
          have h2 : y.isEmpty = false := by
            simp only [List.any_eq_true, not_exists, not_and] at he
            simpa using he y hy
          exact clause_of_COut (hn y hy) (hA y hy) h2
        match new, hcl, h with
        | [], _, h => cases h; rfl
        | [x], hcl, h =>
          cases h
          have := hcl r (by simp)
          cases r <;> simp_all [M.isClause, M.isCnf]
        | a :: b :: l, hcl, h =>
          simp only at h; cases h
          exact mkMulti_clauses (by simp) hcl
    · simp only [hb, if_false, Bool.false_eq_true] at h
      obtain ⟨p, h1, h2⟩ := bind_ok.1 h
      cases p with
      | none => simp only [pure_ok] at h2; subst h2; rfl
      | some new' =>
        simp only at h2
        have hl := multiPass_clauses MS n stk new [] new' hn (by simp) h1
        refine ih stk new new' r hl.1 ?_ h2
        intro hlen y hy
        rcases hl.2.2 (by simpa using hlen) y hy with h3 | h3
        · simp at h3
        · exact h3

/-- **`MultiMarker.of` of CNFs is a CNF** -/
theorem multiOf_cnf (MS : MergeShape) {n : Nat} {stk : Stack} {ms : List M} {r : M}
    (hm : ∀ x ∈ ms, x.isCnf = true) (h : multiOf n stk ms = .ok r) : r.isCnf = true := by
  rw [multiOf.eq_def] at h
  cases n with
  | zero => cases h
  | succ n =>
    simp only at h
    refine multiOfLoop_clauses MS n stk [] _ r (flattenAux_multi_clauses ms [] hm (by simp)) ?_ h
    intro hlen y hy
    simp only [List.length_nil] at hlen
    have := List.eq_nil_of_length_eq_zero hlen
    rw [this] at hy; simp at hy

/-! ### `cnf` -/

theorem membersIfMulti_cnf {c : M} (hc : c.isCnf = true) : ∀ x ∈ membersIfMulti c, x.isCOut = true := by
  cases c with
  | multi cls =>
    simp only [membersIfMulti, M.isCnf, Bool.and_eq_true, List.all_eq_true] at hc ⊢
    intro x hx; have := hc.2 x hx; cases x <;> simp_all [M.isClause, M.isCOut]
  | _ => simp_all [membersIfMulti, M.isCnf, M.isCOut]

theorem mapCnf_shape {n : Nat} {stk : Stack} (hc : ∀ m r, cnf n stk m = .ok r → r.isCnf = true) :
    ∀ ms cs, mapCnf n stk ms = .ok cs → ∀ x ∈ cs, x.isCnf = true := by
  intro ms
  induction ms with
  | nil => intro cs h; rw [mapCnf.eq_def] at h; cases h; simp
  | cons m ms ihl =>
    intro cs h
    rw [mapCnf.eq_def] at h
    simp only at h
    obtain ⟨x, h1, h⟩ := bind_ok.1 h
    obtain ⟨xs, h2, h3⟩ := bind_ok.1 h
    rw [pure_ok] at h3; subst h3
    intro y hy; simp at hy; rcases hy with rfl | hy
    · exact hc m _ h1
    · exact ihl xs h2 y hy

theorem mapUnionOf_shape {n : Nat} {stk : Stack} : ∀ cs us, (∀ c ∈ cs, ∀ x ∈ c, x.isCIn = true) →
    mapUnionOf n stk cs = .ok us → ∀ u ∈ us, u.isCOut = true := by
  intro cs
  induction cs with
  | nil => intro us _ h; rw [mapUnionOf.eq_def] at h; cases h; simp
  | cons c cs ihl =>
    intro us hg h
    rw [mapUnionOf.eq_def] at h
    simp only at h
    obtain ⟨x, h1, h⟩ := bind_ok.1 h
    obtain ⟨xs, h2, h3⟩ := bind_ok.1 h
    rw [pure_ok] at h3; subst h3
    intro y hy; simp at hy; rcases hy with rfl | hy
    · exact unionOf_clause (hg c (by simp)) h1
    · exact ihl xs (fun c' hc' => hg c' (by simp [hc'])) h2 y hy

/-- **The conjunctive normal form has the promised shape** — every fuel, every stack, EVERY marker. -/
theorem cnf_shape (MS : MergeShape) : ∀ (n : Nat) (stk : Stack) (m r : M), cnf n stk m = .ok r →
    r.isCnf = true := by
  intro n
  induction n with
  | zero => intro stk m r h; rw [cnf.eq_def] at h; cases h
  | succ n ih =>
    intro stk m r h
    rw [cnf.eq_def] at h
    simp only at h
    cases m with
    | union ms =>
      simp only at h
      obtain ⟨cs, h1, h⟩ := bind_ok.1 h
      obtain ⟨unions, h2, h3⟩ := bind_ok.1 h
      have hcs := mapCnf_shape (ih stk) ms cs h1
      have hprod : ∀ c ∈ product (cs.map membersIfMulti), ∀ x ∈ c, x.isCIn = true := by
        intro c hc x hx
        obtain ⟨l, hl, hxl⟩ := product_mem hc x hx
        simp only [List.mem_map] at hl
        obtain ⟨c0, hc0, rfl⟩ := hl
        exact M.isCOut_isCIn (membersIfMulti_cnf (hcs c0 hc0) x hxl)
      have hun := mapUnionOf_shape _ unions hprod h2
      exact multiOf_cnf MS (fun x hx => M.isCOut_isCnf (hun x hx)) h3
    | multi ms =>
      simp only at h
      obtain ⟨cs, h1, h3⟩ := bind_ok.1 h
      exact multiOf_cnf MS (mapCnf_shape (ih stk) ms cs h1) h3
    | any => simp at h; subst h; rfl
    | empty => simp at h; subst h; rfl
    | leaf l => simp at h; subst h; rfl

/-! ### `MarkerUnion.of` on DNFs -/

theorem cube_of_QOut {y : M} (h : y.isQOut = true) (ha : y.isEmpty = false) (he : y.isAny = false) :
    y.isCube = true := by
  cases y <;> simp_all [M.isQOut, M.isEmpty, M.isAny]

theorem unionTry_cubes (MS : MergeShape) : ∀ (n : Nat) (stk : Stack) (marker : M) (all : List M) (i : Nat)
    (remaining : List M) (r : Unit ⊕ Option (List M)), marker.isQOut = true →
    (∀ y ∈ all, y.isQOut = true) → (∀ y ∈ remaining, y.isQOut = true) →
    unionTry n stk marker all i remaining = .ok r →
    ∀ l, r = .inr (some l) → l.length = all.length ∧ ∀ y ∈ l, y.isQOut = true := by
  intro n
  induction n with
  | zero => intro stk marker all i remaining r _ _ _ h; rw [unionTry.eq_def] at h; cases h
  | succ n ih =>
    intro stk marker all i remaining r hmk hall hrem h l hl
    rw [unionTry.eq_def] at h
    simp only at h
    cases remaining with
    | nil => simp at h; subst h; cases hl
    | cons mark more =>
      simp only at h
      have hmark := hrem mark (by simp)
      have hmore : ∀ y ∈ more, y.isQOut = true := fun y hy => hrem y (by simp [hy])
      have hset : ∀ x, x.isQOut = true → (setAt all i x).length = all.length ∧
          ∀ y ∈ setAt all i x, y.isQOut = true := by
        intro x hx
        refine ⟨setAt_len _ _ _, ?_⟩
        intro y hy
        rcases setAt_mem hy with h3 | rfl
        · exact hall y h3
        · exact hx
      split at h
      · rename_i x0 us
        have hus' : us ≠ [] ∧ ∀ y ∈ us, y.isLeaf = true := by simpa [M.isQOut, M.isCube] using hmark
        have hus := hus'.2
        obtain ⟨r0, h1, h2⟩ := bind_ok.1 h
        cases r0 with
        | some x =>
          simp [pure, Except.pure, bind, Except.bind] at h2; subst h2
          injection hl with hl; injection hl with hl; subst hl
          exact hset x (unionSimplify_cube MS hus'.1 hus hmk h1)
        | none =>
          simp [pure, Except.pure, bind, Except.bind] at h2
          exact ih stk _ all (i + 1) more r hmk hall hmore h2 l hl
      · rename_i us _
        have hus' : us ≠ [] ∧ ∀ y ∈ us, y.isLeaf = true := by simpa [M.isQOut, M.isCube] using hmk
        have hus := hus'.2
        obtain ⟨r0, h1, h2⟩ := bind_ok.1 h
        cases r0 with
        | some x =>
          simp [pure, Except.pure, bind, Except.bind] at h2; subst h2
          injection hl with hl; injection hl with hl; subst hl
          exact hset x (unionSimplify_cube MS hus'.1 hus hmark h1)
        | none =>
          simp [pure, Except.pure, bind, Except.bind] at h2
          exact ih stk _ all (i + 1) more r hmk hall hmore h2 l hl
      · rw [pure_bind] at h
        simp only at h
        cases mark with
        | leaf lf =>
          simp only at h
          obtain ⟨nm, h1, h2⟩ := bind_ok.1 h
          by_cases ha : nm.isAny = true
          · simp only [ha, if_true, pure_ok] at h2; subst h2; cases hl
          · simp only [ha, if_false, Bool.false_eq_true] at h2
            cases nm with
            | leaf l' =>
              simp only [pure_ok] at h2; subst h2
              injection hl with hl; injection hl with hl; subst hl
              exact hset _ rfl
            | _ => exact ih stk marker all (i + 1) more r hmk hall hmore (by simpa using h2) l hl
        | _ => exact ih stk marker all (i + 1) more r hmk hall hmore (by simpa using h) l hl

theorem unionPass_cubes (MS : MergeShape) : ∀ (n : Nat) (stk : Stack) (todo acc l : List M),
    (∀ y ∈ todo, y.isQOut = true) → (∀ y ∈ acc, y.isQOut = true) →
    unionPass n stk todo acc = .ok (some l) →
    (∀ y ∈ l, y.isQOut = true) ∧ l.length ≤ acc.length + todo.length ∧
    (l.length = acc.length + todo.length → ∀ y ∈ l, y ∈ acc ∨ y.isEmpty = false) := by
  intro n
  induction n with
  | zero => intro stk todo acc l _ _ h; rw [unionPass.eq_def] at h; cases h
  | succ n ih =>
    intro stk todo acc l ht hn h
    rw [unionPass.eq_def] at h
    simp only at h
    cases todo with
    | nil =>
      simp at h; subst h
      exact ⟨hn, by simp, fun _ y hy => Or.inl hy⟩
    | cons marker rest =>
      simp only at h
      have hmk := ht marker (by simp)
      have hrest : ∀ y ∈ rest, y.isQOut = true := fun y hy => ht y (by simp [hy])
      by_cases hmem : M.mem marker acc = true
      · simp only [hmem, if_true] at h
        have := ih stk rest acc l hrest hn h
        refine ⟨this.1, by simp only [List.length_cons]; omega, ?_⟩
        intro he; simp only [List.length_cons] at he; omega
      · simp only [hmem, if_false, Bool.false_eq_true] at h
        by_cases he : marker.isEmpty = true
        · simp only [he, if_true] at h
          have := ih stk rest acc l hrest hn h
          refine ⟨this.1, by simp only [List.length_cons]; omega, ?_⟩
          intro he; simp only [List.length_cons] at he; omega
        · simp only [he, if_false, Bool.false_eq_true] at h
          obtain ⟨t, h1, h2⟩ := bind_ok.1 h
          match t, h1, h2 with
          | .inl (), _, h2 => simp [pure_ok] at h2
          | .inr (some new'), h1, h2 =>
            simp only at h2
            have hl' := unionTry_cubes MS n stk marker acc 0 acc _ hmk hn hn h1 new' rfl
            have hplain := flattenAux_plain false new' [] (by
              intro x hx; have := hl'.2 x hx; cases x <;> simp_all [M.isQOut, M.isCube, M.isUnion])
            have hf : ∀ y ∈ flattenMarkers false new', y.isQOut = true := by
              intro y hy
              rcases hplain.1 y hy with h3 | h3
              · simp at h3
              · exact hl'.2 y h3
            have := ih stk rest _ l hrest hf h2
            have hlen : (flattenMarkers false new').length ≤ acc.length := by
              have := hplain.2; simp only [List.length_nil, Nat.zero_add] at this
              simp only [flattenMarkers]; omega
            refine ⟨this.1, by simp only [List.length_cons]; omega, ?_⟩
            intro he; simp only [List.length_cons] at he; omega
          | .inr none, _, h2 =>
            simp only at h2
            have hg : ∀ y ∈ acc ++ [marker], y.isQOut = true := by
              intro y hy; simp at hy; rcases hy with hy | rfl
              · exact hn y hy
              · exact hmk
            have := ih stk rest _ l hrest hg h2
            simp only [List.length_append, List.length_cons, List.length_nil] at this
            refine ⟨this.1, by simp only [List.length_cons]; omega, ?_⟩
            intro hlen y hy
            simp only [List.length_cons] at hlen
            rcases this.2.2 (by omega) y hy with h3 | h3
            · simp at h3
              rcases h3 with h3 | rfl
              · exact Or.inl h3
              · exact Or.inr (by simpa using he)
            · exact Or.inr h3

theorem mkUnion_cubes {new : List M} (hne : new ≠ []) (h : ∀ y ∈ new, y.isCube = true) : (mkUnion new).isDnf = true := by
  have hpl : ∀ x ∈ new, (if false then x.isMulti else x.isUnion) = false := by
    intro x hx; have := h x hx; cases x <;> simp_all [M.isCube, M.isUnion]
  have hplain := flattenAux_plain false new [] hpl
  have hnn := (flattenAux_plain_len false new [] hpl).2 hne
  simp only [mkUnion, flattenMarkers, M.isDnf, Bool.and_eq_true, List.all_eq_true]
  refine ⟨by simpa using hnn, ?_⟩
  intro y hy
  rcases hplain.1 y hy with h3 | h3
  · simp at h3
  · exact h y h3

theorem unionOfLoop_cubes (MS : MergeShape) : ∀ (n : Nat) (stk : Stack) (old new : List M) (r : M),
    (∀ y ∈ new, y.isQOut = true) → (new.length = old.length → ∀ y ∈ new, y.isEmpty = false) →
    unionOfLoop n stk old new = .ok r → r.isDnf = true := by
  intro n
  induction n with
  | zero => intro stk old new r _ _ h; rw [unionOfLoop.eq_def] at h; cases h
  | succ n ih =>
    intro stk old new r hn hH h
    rw [unionOfLoop.eq_def] at h
    simp only at h
    by_cases hb : M.beqList old new = true
    · simp only [hb, if_true] at h
      have hA := hH (beqList_length hb).symm
      by_cases he : new.any M.isAny = true
      · simp only [he, if_true] at h; cases h; rfl
      · simp only [he, if_false, Bool.false_eq_true] at h
        have hcl : ∀ y ∈ new, y.isCube = true := by
          intro y hy
          have h2 : y.isAny = false := by
            simp only [List.any_eq_true, not_exists, not_and] at he
            simpa using he y hy
          exact cube_of_QOut (hn y hy) (hA y hy) h2
        match new, hcl, h with
        | [], _, h => cases h; rfl
        | [x], hcl, h =>
          cases h
          have := hcl r (by simp)
          cases r <;> simp_all [M.isCube, M.isDnf]
        | a :: b :: l, hcl, h =>
          simp only at h; cases h
          exact mkUnion_cubes (by simp) hcl
    · simp only [hb, if_false, Bool.false_eq_true] at h
      obtain ⟨p, h1, h2⟩ := bind_ok.1 h
      cases p with
      | none => simp only [pure_ok] at h2; subst h2; rfl
      | some new' =>
        simp only at h2
        have hl := unionPass_cubes MS n stk new [] new' hn (by simp) h1
        refine ih stk new new' r hl.1 ?_ h2
        intro hlen y hy
        rcases hl.2.2 (by simpa using hlen) y hy with h3 | h3
        · simp at h3
        · exact h3

/-- **`MultiMarker.of` of CNFs is a CNF** -/
theorem unionOf_dnf (MS : MergeShape) {n : Nat} {stk : Stack} {ms : List M} {r : M}
    (hm : ∀ x ∈ ms, x.isDnf = true) (h : unionOf n stk ms = .ok r) : r.isDnf = true := by
  rw [unionOf.eq_def] at h
  cases n with
  | zero => cases h
  | succ n =>
    simp only at h
    refine unionOfLoop_cubes MS n stk [] _ r (flattenAux_union_cubes ms [] hm (by simp)) ?_ h
    intro hlen y hy
    simp only [List.length_nil] at hlen
    have := List.eq_nil_of_length_eq_zero hlen
    rw [this] at hy; simp at hy

/-! ### `dnf` -/

theorem membersIfUnion_dnf {c : M} (hc : c.isDnf = true) : ∀ x ∈ membersIfUnion c, x.isQOut = true := by
  cases c with
  | union cls =>
    simp only [membersIfUnion, M.isDnf, Bool.and_eq_true, List.all_eq_true] at hc ⊢
    intro x hx; have := hc.2 x hx; cases x <;> simp_all [M.isCube, M.isQOut]
  | _ => simp_all [membersIfUnion, M.isDnf, M.isQOut]

theorem mapDnf_shape {n : Nat} {stk : Stack} (hc : ∀ m r, dnf n stk m = .ok r → r.isDnf = true) :
    ∀ ms cs, mapDnf n stk ms = .ok cs → ∀ x ∈ cs, x.isDnf = true := by
  intro ms
  induction ms with
  | nil => intro cs h; rw [mapDnf.eq_def] at h; cases h; simp
  | cons m ms ihl =>
    intro cs h
    rw [mapDnf.eq_def] at h
    simp only at h
    obtain ⟨x, h1, h⟩ := bind_ok.1 h
    obtain ⟨xs, h2, h3⟩ := bind_ok.1 h
    rw [pure_ok] at h3; subst h3
    intro y hy; simp at hy; rcases hy with rfl | hy
    · exact hc m _ h1
    · exact ihl xs h2 y hy

theorem mapMultiOf_shape {n : Nat} {stk : Stack} : ∀ cs us, (∀ c ∈ cs, ∀ x ∈ c, x.isQIn = true) →
    mapMultiOf n stk cs = .ok us → ∀ u ∈ us, u.isQOut = true := by
  intro cs
  induction cs with
  | nil => intro us _ h; rw [mapMultiOf.eq_def] at h; cases h; simp
  | cons c cs ihl =>
    intro us hg h
    rw [mapMultiOf.eq_def] at h
    simp only at h
    obtain ⟨x, h1, h⟩ := bind_ok.1 h
    obtain ⟨xs, h2, h3⟩ := bind_ok.1 h
    rw [pure_ok] at h3; subst h3
    intro y hy; simp at hy; rcases hy with rfl | hy
    · exact multiOf_cube (hg c (by simp)) h1
    · exact ihl xs (fun c' hc' => hg c' (by simp [hc'])) h2 y hy

/-- **The conjunctive normal form has the promised shape** — every fuel, every stack, EVERY marker. -/
theorem dnf_shape (MS : MergeShape) : ∀ (n : Nat) (stk : Stack) (m r : M), dnf n stk m = .ok r →
    r.isDnf = true := by
  intro n
  induction n with
  | zero => intro stk m r h; rw [dnf.eq_def] at h; cases h
  | succ n ih =>
    intro stk m r h
    rw [dnf.eq_def] at h
    simp only at h
    cases m with
    | multi ms =>
      simp only at h
      obtain ⟨cs, h1, h⟩ := bind_ok.1 h
      obtain ⟨unions, h2, h3⟩ := bind_ok.1 h
      have hcs := mapDnf_shape (ih stk) ms cs h1
      have hprod : ∀ c ∈ product (cs.map membersIfUnion), ∀ x ∈ c, x.isQIn = true := by
        intro c hc x hx
        obtain ⟨l, hl, hxl⟩ := product_mem hc x hx
        simp only [List.mem_map] at hl
        obtain ⟨c0, hc0, rfl⟩ := hl
        exact M.isQOut_isQIn (membersIfUnion_dnf (hcs c0 hc0) x hxl)
      have hun := mapMultiOf_shape _ unions hprod h2
      exact unionOf_dnf MS (fun x hx => M.isQOut_isDnf (hun x hx)) h3
    | union ms =>
      simp only at h
      obtain ⟨cs, h1, h3⟩ := bind_ok.1 h
      exact unionOf_dnf MS (mapDnf_shape (ih stk) ms cs h1) h3
    | empty => simp at h; subst h; rfl
    | any => simp at h; subst h; rfl
    | leaf l => simp at h; subst h; rfl

/-! ### `MergeShape` holds: a successful `_merge_single_markers` is Any, Empty or a single-marker-like -/

theorem parseItemMarker_shape {t : String} {r : M} (h : parseItemMarker t = .ok r) : r.isLitE = true := by
  unfold parseItemMarker at h
  split at h
  · cases h
  · obtain ⟨s, _, h2⟩ := bind_ok.1 h
    rw [pure_ok] at h2; subst h2; rfl
  · cases h

/-- `_merge_single_markers` outside the python_version/python_full_version pairing -/
theorem mergeSingle_nonpy_shape (depth : Nat) (m1 m2 : Leaf) (im : Bool) (r : M)
    (hp : ((m1.name == "python_version" && m2.name == "python_full_version") ||
                (m1.name == "python_full_version" && m2.name == "python_version")) = false)
    (h : mergeSingle depth m1 m2 im = .ok (some r)) : r.isLitE = true := by
  rw [mergeSingle.eq_def] at h
  dsimp only at h
  rw [hp] at h
  rw [if_neg Bool.false_ne_true] at h
  by_cases hn : (m1.name != m2.name) = true
  · rw [if_pos hn] at h; cases h
  rw [if_neg hn] at h
  split at h
  · cases h
  · cases h
  · rename_i c1 c2 _ _
    cases im <;> simp only [Bool.false_eq_true, if_false, if_true] at h <;>
    (obtain ⟨rc, _, h⟩ := bind_ok.1 h
     by_cases e1 : rc.isEmpty = true
     · rw [if_pos e1, pure_ok] at h; cases h; rfl
     rw [if_neg e1] at h
     by_cases e2 : rc.isAny = true
     · rw [if_pos e2, pure_ok] at h; cases h; rfl
     rw [if_neg e2] at h
     by_cases e3 : rc.eqv m1.c = true
     · rw [if_pos e3, pure_ok] at h; cases h; rfl
     rw [if_neg e3] at h
     by_cases e4 : rc.eqv m2.c = true
     · rw [if_pos e4, pure_ok] at h; cases h; rfl
     rw [if_neg e4] at h
     obtain ⟨b, _, h⟩ := bind_ok.1 h
     cases b
     · rw [if_neg Bool.false_ne_true] at h
       repeat' (first
         | (split at h)
         | (obtain ⟨_, hq, h⟩ := bind_ok.1 h)
         | (rw [pure_ok] at h))
       all_goals (first | (cases h; done) | (cases h; rfl) | (cases h; cases hq; done) | (cases h; cases hq; rfl) | (cases h; simp [pure, Except.pure] at hq; done) | skip)

     · rw [if_pos rfl] at h
       obtain ⟨s, _, h⟩ := bind_ok.1 h
       rw [pure_ok] at h; cases h; rfl)

theorem mergePythonVersion_shape (depth : Nat)
    (hs : ∀ m1 m2 im r, mergeSingle depth m1 m2 im = .ok (some r) → r.isLitE = true)
    (s1 s2 : Single) (im : Bool) (r : M) (h : mergePythonVersion depth s1 s2 im = .ok (some r)) :
    r.isLitE = true := by
  rw [mergePythonVersion.eq_def] at h
  dsimp only at h
  repeat' (first
    | (split at h)
    | (obtain ⟨_, hq, h⟩ := bind_ok.1 h)
    | (rw [pure_ok] at h))
  all_goals (first
    | (cases h; done)
    | (cases h; rfl)
    | (cases h; exact parseItemMarker_shape (by assumption))
    | (cases h; exact hs _ _ _ _ (by assumption))
    | skip)

theorem mergeSingle_shape : ∀ (depth : Nat) (m1 m2 : Leaf) (im : Bool) (r : M),
    mergeSingle depth m1 m2 im = .ok (some r) → r.isLitE = true := by
  intro depth
  induction depth with
  | zero =>
    intro m1 m2 im r h
    cases hp : ((m1.name == "python_version" && m2.name == "python_full_version") ||
                (m1.name == "python_full_version" && m2.name == "python_version")) with
    | false => exact mergeSingle_nonpy_shape 0 m1 m2 im r hp h
    | true =>
      rw [mergeSingle.eq_def] at h
      dsimp only at h
      rw [hp] at h
      rw [if_pos rfl] at h
      cases h
  | succ d ih =>
    intro m1 m2 im r h
    cases hp : ((m1.name == "python_version" && m2.name == "python_full_version") ||
                (m1.name == "python_full_version" && m2.name == "python_version")) with
    | false => exact mergeSingle_nonpy_shape (d + 1) m1 m2 im r hp h
    | true =>
      rw [mergeSingle.eq_def] at h
      dsimp only at h
      rw [hp] at h
      rw [if_pos rfl] at h
      split at h
      · exact mergePythonVersion_shape d ih _ _ im r h
      · cases h

/-- **`MergeShape` holds** for the model of `_merge_single_markers` (every operand, both merge classes) -/
theorem mergeLeaves_shape : MergeShape := fun l1 l2 im r h => mergeSingle_shape 2 l1 l2 im r h

/-- the promised shapes, unconditionally: every fuel, every recursion stack, every marker -/
theorem cnf_isCnf {n : Nat} {stk : Stack} {m r : M} (h : cnf n stk m = .ok r) : r.isCnf = true :=
  cnf_shape mergeLeaves_shape n stk m r h

theorem dnf_isDnf {n : Nat} {stk : Stack} {m r : M} (h : dnf n stk m = .ok r) : r.isDnf = true :=
  dnf_shape mergeLeaves_shape n stk m r h

end Poetry.Marker
