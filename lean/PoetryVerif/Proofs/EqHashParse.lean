/-
C18 helper lemmas, part 6: every constraint the parser returns has well-formed members with strictly ordered
ends (hence no degenerate range): clauses (`parse_single_constraint`), `,` (intersection fold), `||`
(`VersionUnion.of`).
-/
import PoetryVerif.Proofs.EqHashReach
import PoetryVerif.Proofs.VersionParse
import PoetryVerif.Proofs.VRangeSpec

set_option linter.unusedSimpArgs false
set_option linter.unusedVariables false

namespace Poetry.EqHash
open Poetry Poetry.Version Poetry.Marker Poetry.VParser
attribute [local instance] lexOrd

/-! ### monadic plumbing -/

theorem mapM_ok_mem {α β : Type} (f : α → PyM β) : ∀ (l : List α) (ys : List β), l.mapM f = .ok ys →
    ∀ y ∈ ys, ∃ x ∈ l, f x = .ok y
  | [], ys, h, y, hy => by simp [pure, Except.pure] at h; rw [h] at hy; simp at hy
  | x :: xs, ys, h, y, hy => by
    simp only [List.mapM_cons, bind, Except.bind] at h
    cases hx : f x with
    | error e => simp [hx] at h
    | ok b =>
      simp only [hx] at h
      cases hr : xs.mapM f with
      | error e => simp [hr] at h
      | ok bs =>
        simp only [hr, pure, Except.pure, Except.ok.injEq] at h
        rw [← h] at hy
        simp only [List.mem_cons] at hy
        rcases hy with rfl | hy
        · exact ⟨x, by simp, hx⟩
        · obtain ⟨z, hz, hfz⟩ := mapM_ok_mem f xs bs hr y hy
          exact ⟨z, by simp [hz], hfz⟩

theorem foldlM_intersect_WF : ∀ (l : List VC) (c res : VC), l.foldlM (fun acc n => VC.intersect acc n) c = .ok res →
    vcWF c → (∀ x ∈ l, vcWF x) → vcWF res
  | [], c, res, h, hc, _ => by simp [pure, Except.pure] at h; rw [← h]; exact hc
  | x :: xs, c, res, h, hc, hl => by
    simp only [List.foldlM_cons, bind, Except.bind] at h
    cases hi : VC.intersect c x with
    | error e => simp [hi] at h
    | ok i =>
      simp only [hi] at h
      exact foldlM_intersect_WF xs i res h (vcIntersect_WF c x hc (hl x (by simp)) i hi) (fun y hy => hl y (by simp [hy]))

/-! ### groups and the whole constraint, given well-formed clauses -/

/-- every clause `parse_single_constraint` accepts yields well-formed members -/
def ClausesWF (isMarker : Bool) : Prop := ∀ p c, parseSingle p isMarker = .ok c → vcWF c

theorem parseGroup_WF (isMarker : Bool) (hcl : ClausesWF isMarker) (g : List Char) (c : VC)
    (h : parseGroup g isMarker = .ok c) : vcWF c := by
  simp only [parseGroup, bind, Except.bind] at h
  cases hm : (splitAnd (rstripSpaces (rstripCommas g))).mapM (fun p => parseSingle p isMarker) with
  | error e => simp [hm] at h
  | ok objs =>
    simp only [hm] at h
    have hall : ∀ x ∈ objs, vcWF x := by
      intro x hx
      obtain ⟨p, _, hp⟩ := mapM_ok_mem _ _ objs hm x hx
      exact hcl p x hp
    cases objs with
    | nil => simp at h
    | cons c0 rest =>
      simp only at h
      exact foldlM_intersect_WF rest c0 c h (hall c0 (by simp)) (fun x hx => hall x (by simp [hx]))

theorem parseConstraintAux_WF (isMarker : Bool) (hcl : ClausesWF isMarker) (s : String) (c : VC)
    (h : parseConstraintAux s isMarker = .ok c) : vcWF c := by
  unfold parseConstraintAux at h
  split at h
  · cases h; exact vcWF_any
  · simp only [bind, Except.bind] at h
    cases hm : (splitOr (strip s.toList)).mapM (fun g => parseGroup g isMarker) with
    | error e => simp [hm] at h
    | ok groups =>
      simp only [hm] at h
      have hall : ∀ x ∈ groups, vcWF x := by
        intro x hx
        obtain ⟨g, _, hg⟩ := mapM_ok_mem _ _ groups hm x hx
        exact parseGroup_WF isMarker hcl g x hg
      split at h
      · simp only [pure, Except.pure, Except.ok.injEq] at h; rw [← h]; exact hall _ (by simp)
      · exact unionOf_WF groups c h hall


/-! ### clauses -/

theorem num_lt (n m : Nat) (h : n < m) : compare (NumK.fin n) (NumK.fin m) = .lt := by
  rw [compare_numK_fin]; exact Nat.compare_eq_lt.2 h

/-- dev release: `V.devN` < `V.dev(N+1)`, and `V.dev0` < `V.dev(N+1)` -/
theorem xD_marker {v : Version} {d : Tag} (hd : v.dev = some d) : vk v < vk v.nextDevrelease := by
  apply lt_of_pubKey_lt
  simp only [pubKey, nextDevrelease, mk', compare_pair, preK, postK, devK, hd, tagK, Tag.next, Option.isSome_some]
  simp [compare_self_eq, Ordering.then, num_lt d.num (d.num + 1) (by omega)]

theorem xD_plain {v : Version} (hv : v.wf = true) {d : Tag} (hd : v.dev = some d) :
    vk v.firstDevrelease < vk v.nextDevrelease := by
  have hp : d.phase = .dev := wf_dev hv hd
  apply lt_of_pubKey_lt
  simp only [pubKey, firstDevrelease, nextDevrelease, mk', compare_pair, preK, postK, devK, hd, tagK, Tag.next,
    Option.isSome_some, hp]
  simp [compare_self_eq, Ordering.then, num_lt 0 (d.num + 1) (by omega)]

/-- post release without dev: `V.postN` < `V.post(N+1)` and the same with `.dev0` on both -/
theorem xP_marker {v : Version} {p : Tag} (hp : v.post = some p) (hd : v.dev = none) : vk v < vk v.nextPostrelease := by
  apply lt_of_pubKey_lt
  simp only [pubKey, nextPostrelease, mk', compare_pair, preK, postK, devK, hp, hd, tagK, Tag.next]
  simp [compare_self_eq, Ordering.then, num_lt p.num (p.num + 1) (by omega)]

theorem xP_plain {v : Version} {p : Tag} (hp : v.post = some p) (hd : v.dev = none) :
    vk v.firstDevrelease < vk v.nextPostrelease.firstDevrelease := by
  apply lt_of_pubKey_lt
  simp only [pubKey, firstDevrelease, nextPostrelease, mk', compare_pair, preK, postK, devK, hp, hd, tagK, Tag.next]
  simp [compare_self_eq, Ordering.then, num_lt p.num (p.num + 1) (by omega)]

/-- pre-release without post and dev -/
theorem xR_marker {v : Version} {t : Tag} (ht : v.pre = some t) (hp : v.post = none) (hd : v.dev = none) :
    vk v < vk v.nextPrerelease := by
  apply lt_of_pubKey_lt
  simp only [pubKey, nextPrerelease, mk', compare_pair, preK, postK, devK, ht, hp, hd, tagK, Tag.next, isDevrelease,
    isPostrelease]
  simp [compare_pair, compare_self_eq, Ordering.then, num_lt t.num (t.num + 1) (by omega)]

theorem xR_plain {v : Version} {t : Tag} (ht : v.pre = some t) (hp : v.post = none) (hd : v.dev = none) :
    vk v.firstDevrelease < vk v.nextPrerelease.firstDevrelease := by
  apply lt_of_pubKey_lt
  simp only [pubKey, firstDevrelease, nextPrerelease, mk', compare_pair, preK, postK, devK, ht, hp, hd, tagK, Tag.next,
    isDevrelease, isPostrelease]
  simp [compare_pair, compare_self_eq, Ordering.then, num_lt t.num (t.num + 1) (by omega)]

theorem incrLast_gt : ∀ r : List Nat, r ≠ [] → compare (stripZeros r) (stripZeros (incrLast r)) = .lt
  | [], h => absurd rfl h
  | [x], _ => by simp only [incrLast]; exact sz_cmp_lt_head (by omega) _ _
  | x :: y :: rest, _ => by
    have ih := incrLast_gt (y :: rest) (by simp)
    show compare (stripZeros (x :: y :: rest)) (stripZeros (x :: incrLast (y :: rest))) = .lt
    rw [sz_cmp_cons]; exact ih

/-- stable (no pre, no dev), no post: the release is bumped -/
theorem xS_rel (v : Version) (hv : v.wf = true) (hs : v.isStable = true) :
    v.nextStable.epoch = v.epoch ∧ compare (stripZeros v.release) (stripZeros v.nextStable.release) = .lt := by
  have hne := wf_release_ne hv
  simp only [nextStable, hs, if_true, mk', true_and]
  rw [relNext_eq_incrLast v.release hne]
  exact incrLast_gt v.release hne

theorem xS_marker (v : Version) (hv : v.wf = true) (hs : v.isStable = true) : vk v < vk v.nextStable := by
  obtain ⟨he, hr⟩ := xS_rel v hv hs
  exact (vk_lt_iff _ _).2 (cmp_lt_of_rel_lt he.symm hr)

theorem xS_plain (v : Version) (hv : v.wf = true) (hs : v.isStable = true) :
    vk v.firstDevrelease < vk v.nextStable.firstDevrelease := by
  obtain ⟨he, hr⟩ := xS_rel v hv hs
  exact (vk_lt_iff _ _).2 (cmp_lt_of_rel_lt (by simp [firstDevrelease, mk', he]) (by simpa [firstDevrelease, mk'] using hr))


theorem wf_nextDev {v : Version} (hv : v.wf = true) : v.nextDevrelease.wf = true := by
  obtain ⟨h0, h1, h2, h3⟩ := wf_parts hv
  unfold nextDevrelease
  cases hd : v.dev with
  | none => simp [wf, mk', optAll, h0, h1, h2]; exact ⟨by simpa [optAll] using h1, by simpa [optAll] using h2⟩
  | some d =>
    rw [hd] at h3
    simp [wf, mk', optAll, h0, Tag.next]
    exact ⟨⟨by simpa [optAll] using h1, by simpa [optAll] using h2⟩, by simpa [optAll] using h3⟩

theorem wf_nextPost {v : Version} (hv : v.wf = true) : v.nextPostrelease.wf = true := by
  obtain ⟨h0, h1, h2, h3⟩ := wf_parts hv
  unfold nextPostrelease
  cases hp : v.post with
  | none => simp [wf, mk', optAll, h0]; simpa [optAll] using h1
  | some p =>
    rw [hp] at h2
    have hpp : p.phase = .post := by simpa [optAll] using h2
    by_cases hd : v.dev.isNone = true
    · simp [wf, mk', optAll, h0, Tag.next, hd, hpp]; simpa [optAll] using h1
    · simp [wf, mk', optAll, h0, Tag.next, hd, hpp]; simpa [optAll] using h1

theorem wf_nextPre {v : Version} (hv : v.wf = true) : v.nextPrerelease.wf = true := by
  obtain ⟨h0, h1, h2, h3⟩ := wf_parts hv
  unfold nextPrerelease
  cases hp : v.pre with
  | none => simp [wf, mk', optAll, h0, Tag.isPre]
  | some t =>
    rw [hp] at h1
    have ht : t.isPre = true := by simpa [optAll] using h1
    by_cases c : (!v.isDevrelease || v.isPostrelease) = true
    · simp [wf, mk', optAll, h0, c]; simpa [Tag.isPre, Tag.next] using ht
    · simp [wf, mk', optAll, h0, c]; simpa [Tag.isPre] using ht

theorem wf_nextStable {v : Version} (hv : v.wf = true) : v.nextStable.wf = true := by
  have hne := wf_release_ne hv
  have hl : optAll (fun ps : List String => !ps.isEmpty && ps.all (fun s => !s.isEmpty)) v.loc = true := by
    simp only [wf, Bool.and_eq_true] at hv; exact hv.2
  unfold nextStable
  by_cases hs : v.isStable = true
  · have : relNext v.release ≠ [] := by
      rw [relNext_eq_incrLast _ hne]
      cases hr : v.release with
      | nil => exact absurd hr hne
      | cons x xs => cases xs <;> simp [incrLast]
    simp [wf, mk', optAll, hs, this]; simpa [optAll] using hl
  · simp [wf, mk', optAll, hs, hne]; simpa [optAll] using hl

/-- `[V, H)` with `V < H` -/
theorem halfOpen_WF {V H : Version} (hV : V.wf = true) (hH : H.wf = true) (h : vk V < vk H) :
    vcWF (.single (.rng ⟨some V, some H, true, false⟩)) := by
  apply vcWF_single
  refine ⟨wfB_of_ends (fun m hm => by simp at hm; rw [← hm]; exact hV) (fun m hm => by simp at hm; rw [← hm]; exact hH), ?_⟩
  intro m M hm hM
  simp only [Option.some.injEq] at hm hM
  rw [← hm, ← hM]; exact h

/-- the ends of `==V.*` (`_make_x_constraint_range`) -/
theorem xrange_ends (v : Version) (hv : v.wf = true) (isMarker : Bool) :
    ∃ mn mx, makeXConstraintRange v false isMarker = .ok (.single (.rng ⟨some mn, some mx, true, false⟩)) ∧
      (∀ inv, makeXConstraintRange v inv isMarker =
        if inv then VC.difference VC.any (.single (.rng ⟨some mn, some mx, true, false⟩))
        else .ok (.single (.rng ⟨some mn, some mx, true, false⟩))) ∧
      mn.wf = true ∧ mx.wf = true ∧ vk mn < vk mx := by
  refine ⟨_, _, rfl, fun inv => rfl, ?_⟩
  cases hd : v.dev with
  | some d =>
    have h1 : v.isDevrelease = true := by simp [isDevrelease, hd]
    have h2 : v.nextDevrelease.isDevrelease = true := by simp [isDevrelease, nextDevrelease, mk', hd]
    cases isMarker
    · simp only [h1, h2, if_true, Bool.false_eq_true, if_false, Bool.not_true]
      exact ⟨wf_firstDev hv, wf_nextDev hv, xD_plain hv hd⟩
    · simp only [h1, if_true]
      exact ⟨hv, wf_nextDev hv, xD_marker hd⟩
  | none =>
    have h1 : v.isDevrelease = false := by simp [isDevrelease, hd]
    cases hp : v.post with
    | some p =>
      have h2 : v.isPostrelease = true := by simp [isPostrelease, hp]
      have h3 : v.nextPostrelease.isDevrelease = false := by simp [isDevrelease, nextPostrelease, mk']
      cases isMarker
      · simp only [h1, h2, h3, if_true, Bool.false_eq_true, if_false, Bool.not_false]
        exact ⟨wf_firstDev hv, wf_firstDev (wf_nextPost hv), xP_plain hp hd⟩
      · simp only [h1, h2, if_true, Bool.false_eq_true, if_false]
        exact ⟨hv, wf_nextPost hv, xP_marker hp hd⟩
    | none =>
      have h2 : v.isPostrelease = false := by simp [isPostrelease, hp]
      by_cases hs : v.isStable = true
      · have h3 : v.nextStable.isDevrelease = false := by simp [isDevrelease, nextStable, mk']
        cases isMarker
        · simp only [h1, h2, h3, hs, if_true, Bool.false_eq_true, if_false, Bool.not_false]
          exact ⟨wf_firstDev hv, wf_firstDev (wf_nextStable hv), xS_plain v hv hs⟩
        · simp only [h1, h2, hs, if_true, Bool.false_eq_true, if_false]
          exact ⟨hv, wf_nextStable hv, xS_marker v hv hs⟩
      · have hpre : ∃ t, v.pre = some t := by
          cases ht : v.pre with
          | none => simp [isStable, isUnstable, isPrerelease, isDevrelease, ht, hd] at hs
          | some t => exact ⟨t, rfl⟩
        obtain ⟨t, ht⟩ := hpre
        have h3 : v.nextPrerelease.isDevrelease = false := by simp [isDevrelease, nextPrerelease, mk']
        cases isMarker
        · simp only [h1, h2, h3, hs, if_true, Bool.false_eq_true, if_false, Bool.not_false]
          exact ⟨wf_firstDev hv, wf_firstDev (wf_nextPre hv), xR_plain ht hp hd⟩
        · simp only [h1, h2, hs, if_true, Bool.false_eq_true, if_false]
          exact ⟨hv, wf_nextPre hv, xR_marker ht hp hd⟩

/-- `!=V.*`: the universal range minus `[mn, mx)` -/
theorem anyMinusRange_WF {mn mx : Version} (h1 : mn.wf = true) (h2 : mx.wf = true) (c : VC)
    (h : VC.difference VC.any (.single (.rng ⟨some mn, some mx, true, false⟩)) = .ok c) : vcWF c := by
  have hmax : ∃ A, (⟨some mn, some mx, true, false⟩ : VRange).allowedMax = some A := by
    have := VRange.allowedMax_isSome (r := (⟨some mn, some mx, true, false⟩ : VRange))
    simp only [Option.isSome_some] at this
    cases hA : (⟨some mn, some mx, true, false⟩ : VRange).allowedMax with
    | none => rw [hA] at this; cases this
    | some A => exact ⟨A, rfl⟩
  obtain ⟨A, hA⟩ := hmax
  have hany : (⟨none, none, false, false⟩ : VRange).allowedMax = none := rfl
  have e : VC.difference VC.any (.single (.rng ⟨some mn, some mx, true, false⟩)) =
      unionOfFlat [.rng ⟨none, some mn, false, false⟩, .rng ⟨some mx, none, true, false⟩] := by
    simp [VC.difference, VC.any, RC.difference, RC.rngDifferenceRng, RC.allowsAny, VRange.isStrictlyLower,
      VRange.isStrictlyHigher, VRange.allowedMin, VRange.any, VRange.allowsLower, VRange.allowsHigher, hA, optVerEq,
      bind, Except.bind, pure, Except.pure, hany]
  rw [e] at h
  apply unionOfFlat_WF _ c h
  intro r hr
  simp only [List.mem_cons, List.mem_nil_iff, or_false] at hr
  rcases hr with rfl | rfl
  · exact ⟨wfB_of_ends (fun m hm => by simp at hm) (fun m hm => by simp at hm; rw [← hm]; exact h1),
      fun m M hm => by simp at hm⟩
  · exact ⟨wfB_of_ends (fun m hm => by simp at hm; rw [← hm]; exact h2) (fun m hm => by simp at hm),
      fun m M _ hM => by simp at hM⟩

theorem makeX_WF (v : Version) (hv : v.wf = true) (inv isMarker : Bool) (c : VC)
    (h : makeXConstraintRange v inv isMarker = .ok c) : vcWF c := by
  obtain ⟨mn, mx, _, hall, w1, w2, hlt⟩ := xrange_ends v hv isMarker
  rw [hall inv] at h
  cases inv
  · simp only [Bool.false_eq_true, if_false, Except.ok.injEq] at h; rw [← h]; exact halfOpen_WF w1 w2 hlt
  · simp only [if_true] at h; exact anyMinusRange_WF w1 w2 c h

/-! ### the upper ends of `~V`, `~=V`, `^V` -/

theorem wf_final_form {w : Version} (hw : w = mk' w.epoch w.release none none none none) (hr : w.release ≠ []) :
    w.wf = true := by rw [hw]; exact wf_final _ _ hr

theorem wf_stable_nextMajor (v : Version) : v.stable.nextMajor.wf = true :=
  wf_final_form (by simp [nextMajor, mk']) (by rw [stable_nextMajor_release]; simp [relNextMajor])

theorem wf_stable_nextMinor (v : Version) : v.stable.nextMinor.wf = true :=
  wf_final_form (by simp [nextMinor, mk']) (by rw [stable_nextMinor_release]; unfold relNextMinor; split <;> simp)

theorem wf_nextBreaking (v : Version) : v.nextBreaking.wf = true := by
  unfold nextBreaking
  split
  · exact wf_stable_nextMajor v
  · split
    · exact wf_stable_nextMinor v
    · exact stable_nextPatch_wf v

theorem compat4_gt (v : Version) (hp : 2 ≤ v.precision) :
    vk v < vk (mk' v.epoch (bumpSecondToLast v.release) none none none none) := by
  rw [vk_lt_iff]
  apply cmp_lt_of_rel_lt (by simp [mk'])
  simp only [mk']
  rw [bump_eq _ hp, stripZeros_append_zero]
  exact incrLast_dropLast_gt _ hp

theorem compat4_wf (v : Version) (hp : 2 ≤ v.precision) :
    (mk' v.epoch (bumpSecondToLast v.release) none none none none).wf = true := by
  apply wf_final
  rw [bump_eq _ hp]; simp

theorem bindV {β : Type} (t : String) (f : Version → PyM β) (r : β) (h : (parseVersionText t >>= f) = .ok r) :
    ∃ v, Version.parse t = .ok v ∧ v.wf = true ∧ f v = .ok r := by
  unfold parseVersionText at h
  cases hp : Version.parse t with
  | error e => rw [hp] at h; simp [bind, Except.bind] at h
  | ok v => rw [hp] at h; exact ⟨v, rfl, parse_wf t v hp, by simpa [bind, Except.bind] using h⟩

theorem parseSingle_WF (isMarker : Bool) : ClausesWF isMarker := by
  intro cs c h
  unfold parseSingle at h
  split at h
  · cases h; exact vcWF_any
  · dsimp only at h
    split at h
    · -- `~V`
      obtain ⟨v, _, hv, hf⟩ := bindV _ _ _ h
      simp only [pure, Except.pure, Except.ok.injEq] at hf; rw [← hf]
      split
      · exact halfOpen_WF hv (wf_stable_nextMajor v) ((vk_lt_iff _ _).2 (stable_nextMajor_gt v hv))
      · exact halfOpen_WF hv (wf_stable_nextMinor v) ((vk_lt_iff _ _).2 (stable_nextMinor_gt v hv))
    · split at h
      · -- `~=V`
        obtain ⟨v, _, hv, hf⟩ := bindV _ _ _ h
        simp only [pure, Except.pure, Except.ok.injEq] at hf; rw [← hf]
        split
        · exact halfOpen_WF hv (wf_stable_nextMajor v) ((vk_lt_iff _ _).2 (stable_nextMajor_gt v hv))
        · split
          · exact halfOpen_WF hv (wf_stable_nextMinor v) ((vk_lt_iff _ _).2 (stable_nextMinor_gt v hv))
          · rename_i h3
            have hp : 2 ≤ v.precision := by omega
            exact halfOpen_WF hv (compat4_wf v hp) (compat4_gt v hp)
      · split at h
        · -- `^V`
          obtain ⟨v, _, hv, hf⟩ := bindV _ _ _ h
          simp only [pure, Except.pure, Except.ok.injEq] at hf; rw [← hf]
          exact halfOpen_WF hv (wf_nextBreaking v) ((vk_lt_iff _ _).2 (nextBreaking_gt v hv))
        · split at h
          · -- `V.*`, `==V.*`, `!=V.*` (X_CONSTRAINT)
            obtain ⟨v, _, hv, hf⟩ := bindV _ _ _ h
            exact makeX_WF v hv _ _ c hf
          · -- BASIC_CONSTRAINT
            split at h
            · obtain ⟨v, _, hv, hf⟩ := bindV _ _ _ h
              have half_lo : ∀ i, vcWF (.single (.rng ⟨some v, none, i, false⟩)) := fun i =>
                vcWF_single ⟨wfB_of_ends (fun m hm => by simp at hm; rw [← hm]; exact hv) (fun m hm => by simp at hm),
                  fun m M _ hM => by simp at hM⟩
              have half_hi : ∀ j, vcWF (.single (.rng ⟨none, some v, false, j⟩)) := fun j =>
                vcWF_single ⟨wfB_of_ends (fun m hm => by simp at hm) (fun m hm => by simp at hm; rw [← hm]; exact hv),
                  fun m M hm => by simp at hm⟩
              split at hf
              · simp only [pure, Except.pure, Except.ok.injEq] at hf; rw [← hf]; exact half_hi _
              · simp only [pure, Except.pure, Except.ok.injEq] at hf; rw [← hf]; exact half_hi _
              · simp only [pure, Except.pure, Except.ok.injEq] at hf; rw [← hf]; exact half_lo _
              · simp only [pure, Except.pure, Except.ok.injEq] at hf; rw [← hf]; exact half_lo _
              · split at hf
                · exact makeX_WF v hv _ _ c hf
                · split at hf
                  · simp only [pure, Except.pure, Except.ok.injEq] at hf; rw [← hf]
                    intro x hx
                    simp only [VC.flatten, List.mem_cons, List.mem_nil_iff, or_false] at hx
                    rcases hx with rfl | rfl
                    · exact half_hi false _ (by simp [VC.flatten])
                    · exact half_lo false _ (by simp [VC.flatten])
                  · simp only [pure, Except.pure, Except.ok.injEq] at hf; rw [← hf]; exact vcWF_single hv
            · cases h

/-- **every constraint the parser returns has well-formed members with strictly ordered ends** -/
theorem parseConstraint_WF (s : String) (c : VC) (h : parseConstraint s = .ok c) : vcWF c :=
  parseConstraintAux_WF false (parseSingle_WF false) s c h

theorem parseMarkerVersionConstraint_WF (s : String) (c : VC) (h : parseMarkerVersionConstraint s = .ok c) : vcWF c :=
  parseConstraintAux_WF true (parseSingle_WF true) s c h


/-- `a.union(b)` keeps every member well-formed (all operand shapes) -/
theorem vcUnionWith_WF (a b : VC) (ha : vcWF a) (hb : vcWF b) (c : VC) (h : VC.unionWith a b = .ok c) : vcWF c := by
  have both : ∀ x ∈ [a, b], vcWF x := by intro x hx; simp at hx; rcases hx with rfl | rfl <;> assumption
  cases a with
  | empty => simp only [VC.unionWith, Except.ok.injEq] at h; rw [← h]; exact hb
  | single x =>
    cases x with
    | ver v =>
      simp only [VC.unionWith, bind, Except.bind] at h
      cases hal : b.allows v with
      | error e => simp [hal] at h
      | ok t =>
        simp only [hal] at h
        cases t with
        | true => simp only [if_true, pure, Except.pure, Except.ok.injEq] at h; rw [← h]; exact hb
        | false =>
          simp only [Bool.false_eq_true, if_false] at h
          cases b with
          | single y => exact rcUnion_WF _ _ (ha _ (by simp [VC.flatten])) (hb _ (by simp [VC.flatten])) c h
          | empty => exact unionOf_WF _ c h both
          | union rs => exact unionOf_WF _ c h both
    | rng r =>
      cases b with
      | single y => exact rcUnion_WF _ _ (ha _ (by simp [VC.flatten])) (hb _ (by simp [VC.flatten])) c h
      | empty => exact unionOf_WF _ c h both
      | union rs => exact unionOf_WF _ c h both
  | union rs => exact unionOf_WF _ c h both

end Poetry.EqHash
