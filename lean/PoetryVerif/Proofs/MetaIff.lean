/-
C14, the converse direction: every header value the reference parser returns is "fold-safe" (each line end in it
is followed by a blank/tab, none at its end); hence rendered metadata parses into the declared fields IF AND ONLY IF
every written value is fold-safe.  Core Lean only.
-/
import PoetryVerif.Proofs.Meta

set_option linter.unusedSimpArgs false
set_option linter.unusedVariables false

namespace Poetry.Meta
open Poetry Poetry.Spec Poetry.Spec.Rfc822

/-- a value that survives being written after `Name: ` — every line end inside it is followed by a blank or tab
(`\r` may also be followed by `\n`), and it does not end in a line end -/
def ValueOk (v : List Char) : Prop := adjOk v = true ∧ noTrailNL v

instance (v : List Char) : Decidable (noTrailNL v) := by
  unfold noTrailNL
  cases h : v.getLast? with
  | none => exact isTrue (by intro c hc; simp at hc)
  | some c =>
    by_cases hc : isNL c = false
    · exact isTrue (by intro d hd; simp at hd; subst hd; exact hc)
    · exact isFalse (by intro hh; exact hc (hh c rfl))

instance (v : List Char) : Decidable (ValueOk v) := by unfold ValueOk; exact inferInstance

theorem valueOk_of_noNL (v : List Char) (h : NoNL v) : ValueOk v := ⟨adjOk_of_noNL v h, noTrailNL_of_noNL v h⟩

/-- joining continuation lines (each starts with a blank) keeps fold-safety of the text so far -/
theorem adjOk_append_conts (A : List Char) (hA : adjOk A = true) :
    ∀ (cs : List Line), (∀ x ∈ cs, adjOk x = true ∧ startsWS x = true) → adjOk (A ++ cs.flatten) = true
  | [], _ => by simpa using hA
  | x :: cs, h => by
    have hx := h x (by simp)
    cases x with
    | nil => simp [startsWS] at hx
    | cons w B =>
      have hw : isWS w = true := by simpa [startsWS] using hx.2
      have h1 : adjOk (A ++ w :: B) = true := adjOk_append_ws A w B hA hw hx.1
      have := adjOk_append_conts (A ++ w :: B) h1 cs (fun y hy => h y (by simp [hy]))
      simpa using this

theorem rstripNL_prefix (s : List Char) : ∃ B, s = rstripNL s ++ B := by
  refine ⟨(s.reverse.takeWhile isNL).reverse, ?_⟩
  have h : s.reverse = s.reverse.takeWhile isNL ++ s.reverse.dropWhile isNL := (List.takeWhile_append_dropWhile).symm
  have := congrArg List.reverse h
  rw [List.reverse_reverse, List.reverse_append] at this
  exact this

theorem rstripNL_noTrail (s : List Char) : noTrailNL (rstripNL s) := by
  intro c hc
  unfold rstripNL at hc
  rw [List.getLast?_reverse] at hc
  exact head_dropWhile_not isNL _ c hc

theorem dropWhile_suffix {α} (p : α → Bool) (s : List α) : ∃ A, s = A ++ s.dropWhile p :=
  ⟨s.takeWhile p, (List.takeWhile_append_dropWhile).symm⟩

/-- **what `header_source_parse` returns is always fold-safe** when the source lines are cracked lines -/
theorem sourceParse_valueOk (f : Line) (cs : List Line) (hf : adjOk f = true)
    (hcs : ∀ x ∈ cs, adjOk x = true ∧ startsWS x = true) : ValueOk (sourceParse f cs).2 := by
  simp only [sourceParse]
  -- `after` and its lstrip are suffixes of the first line
  obtain ⟨A1, h1⟩ := dropWhile_suffix (fun c => decide (c ≠ ':')) f
  have hd : adjOk (f.dropWhile (fun c => decide (c ≠ ':'))) = true := adjOk_append_right A1 _ (by rw [← h1]; exact hf)
  have hafter : adjOk ((f.dropWhile (fun c => decide (c ≠ ':'))).drop 1) = true := by
    cases hx : f.dropWhile (fun c => decide (c ≠ ':')) with
    | nil => rfl
    | cons a r => rw [hx] at hd; simpa using adjOk_tail a r hd
  obtain ⟨A2, h2⟩ := dropWhile_suffix isWS ((f.dropWhile (fun c => decide (c ≠ ':'))).drop 1)
  have hl : adjOk (lstripWS ((f.dropWhile (fun c => decide (c ≠ ':'))).drop 1)) = true :=
    adjOk_append_right A2 _ (by unfold lstripWS; rw [← h2]; exact hafter)
  have hall := adjOk_append_conts _ hl cs hcs
  obtain ⟨B, hB⟩ := rstripNL_prefix (lstripWS ((f.dropWhile (fun c => decide (c ≠ ':'))).drop 1) ++ cs.flatten)
  exact ⟨adjOk_append_left _ B (by rw [← hB]; exact hall), rstripNL_noTrail _⟩

def PendingOk (p : Option (Line × List Line)) : Prop :=
  ∀ f cs, p = some (f, cs) → adjOk f = true ∧ ∀ x ∈ cs, adjOk x = true ∧ startsWS x = true

theorem flush_headers (p : Option (Line × List Line)) (r : HRes) :
    (flush p r).headers = (match p with | some (f, cs) => [sourceParse f cs] | none => []) ++ r.headers := by
  cases p with
  | none => simp [flush]
  | some fc => obtain ⟨f, cs⟩ := fc; simp [flush]

theorem parseHeaders_valuesOk : ∀ (ls : List Line) (first : Bool) (pending : Option (Line × List Line)),
    (∀ l ∈ ls, adjOk l = true) → PendingOk pending →
    ∀ kv ∈ (parseHeaders first pending ls).headers, ValueOk kv.2
  | [], first, pending, _, hp => by
    intro kv hkv
    rw [parseHeaders.eq_def] at hkv
    simp only [flush_headers] at hkv
    cases pending with
    | none => simp at hkv
    | some fc =>
      obtain ⟨f, cs⟩ := fc
      simp at hkv; subst hkv
      exact sourceParse_valueOk f cs (hp f cs rfl).1 (hp f cs rfl).2
  | l :: rest, first, pending, hls, hp => by
    have hl := hls l (by simp)
    have hrest : ∀ x ∈ rest, adjOk x = true := fun x hx => hls x (by simp [hx])
    have hnone : PendingOk none := by intro f cs h; simp at h
    have pend : ∀ kv, kv ∈ (match pending with | some (f, cs) => [sourceParse f cs] | none => []) → ValueOk kv.2 := by
      intro kv hkv
      cases pending with
      | none => simp at hkv
      | some fc =>
        obtain ⟨f, cs⟩ := fc
        simp at hkv; subst hkv
        exact sourceParse_valueOk f cs (hp f cs rfl).1 (hp f cs rfl).2
    intro kv hkv
    rw [parseHeaders.eq_def] at hkv
    cases l with
    | nil => exact parseHeaders_valuesOk rest false pending hrest hp kv (by simpa using hkv)
    | cons c r =>
      simp only at hkv
      cases hws : isWS c with
      | true =>
        simp only [hws, if_true] at hkv
        cases pending with
        | none => exact parseHeaders_valuesOk rest false none hrest hnone kv (by simpa using hkv)
        | some fc =>
          obtain ⟨f, cs⟩ := fc
          refine parseHeaders_valuesOk rest false (some (f, cs ++ [c :: r])) hrest ?_ kv (by simpa using hkv)
          intro f' cs' h
          simp at h
          obtain ⟨rfl, rfl⟩ := h
          refine ⟨(hp f cs rfl).1, ?_⟩
          intro x hx
          simp at hx
          rcases hx with hx | rfl
          · exact (hp f cs rfl).2 x hx
          · exact ⟨hl, by simpa [startsWS] using hws⟩
      | false =>
        simp only [hws, Bool.false_eq_true, if_false] at hkv
        have ih0 := parseHeaders_valuesOk rest false none hrest hnone
        cases hfrom : startsWithFrom (c :: r) with
        | true =>
          simp only [hfrom, if_true] at hkv
          cases first with
          | true =>
            simp only [if_true, flush_headers, List.mem_append] at hkv
            rcases hkv with hkv | hkv
            · exact pend kv hkv
            · exact ih0 kv hkv
          | false =>
            simp only [Bool.false_eq_true, if_false] at hkv
            cases hempty : rest.isEmpty with
            | true =>
              simp only [hempty, if_true, flush_headers, List.mem_append] at hkv
              rcases hkv with hkv | hkv
              · exact pend kv hkv
              · simp at hkv
            | false =>
              simp only [hempty, Bool.false_eq_true, if_false, flush_headers, List.mem_append] at hkv
              rcases hkv with hkv | hkv
              · exact pend kv hkv
              · exact ih0 kv hkv
        | false =>
          simp only [hfrom, Bool.false_eq_true, if_false] at hkv
          by_cases hcolon : c = ':'
          · simp only [hcolon, if_true, flush_headers, List.mem_append] at hkv
            rcases hkv with hkv | hkv
            · exact pend kv hkv
            · exact ih0 kv hkv
          · simp only [hcolon, if_false, flush_headers, List.mem_append] at hkv
            rcases hkv with hkv | hkv
            · exact pend kv hkv
            · refine parseHeaders_valuesOk rest false (some (c :: r, [])) hrest ?_ kv hkv
              intro f' cs' h
              simp at h
              obtain ⟨rfl, rfl⟩ := h
              exact ⟨hl, by simp⟩

theorem mem_of_mem_takeWhile' {α} (p : α → Bool) (l : List α) (x : α) (h : x ∈ l.takeWhile p) : x ∈ l := by
  induction l with
  | nil => simp at h
  | cons y l ih =>
    by_cases hy : p y = true
    · simp [List.takeWhile, hy] at h
      rcases h with rfl | h
      · simp
      · simp [ih h]
    · simp [List.takeWhile, hy] at h

/-- **every header value the reference parser returns, for any text whatsoever, is fold-safe** -/
theorem parse_values_ok (s : List Char) : ∀ kv ∈ (parseChars s).headers, ValueOk kv.2 := by
  intro kv hkv
  unfold parseChars parseLines at hkv
  simp only at hkv
  have hlines : ∀ l ∈ (lines s).takeWhile isHeaderLine, adjOk l = true := by
    intro l hl
    exact linesBy_adjOk isNL (by decide) (by decide) s l (mem_of_mem_takeWhile' _ _ _ hl)
  exact parseHeaders_valuesOk _ true none hlines (by intro f cs h; simp at h) kv hkv

theorem valueOk_of_lstrip (v : List Char) (h : ValueOk (lstripWS v)) : ValueOk v := by
  obtain ⟨hadj, htr⟩ := h
  have hsplit : v = v.takeWhile isWS ++ lstripWS v := (List.takeWhile_append_dropWhile).symm
  have hws : NoNL (v.takeWhile isWS) := fun c hc => ws_not_nl c (takeWhile_all_mem isWS v c hc)
  refine ⟨by rw [hsplit, adjOk_prefix_noNL _ hws]; exact hadj, ?_⟩
  intro c hc
  by_cases hne : lstripWS v = []
  · rw [hsplit, hne, List.append_nil] at hc
    exact hws c (List.mem_of_getLast? hc)
  · apply htr c
    rw [hsplit, List.getLast?_append] at hc
    cases hl : (lstripWS v).getLast? with
    | none => simp [List.getLast?_eq_none_iff] at hl; exact absurd hl hne
    | some d => simp [hl] at hc; rw [hc]

theorem valueOk_lstrip (v : List Char) (h : ValueOk v) : ValueOk (lstripWS v) := by
  obtain ⟨hadj, htr⟩ := h
  obtain ⟨A, hA⟩ := dropWhile_suffix isWS v
  refine ⟨adjOk_append_right A _ (by unfold lstripWS; rw [← hA]; exact hadj), ?_⟩
  by_cases hne : lstripWS v = []
  · rw [hne]; intro c hc; simp at hc
  · exact noTrailNL_append_right A _ hne (by unfold lstripWS at *; rw [← hA]; exact htr)


/-! ### the written entries and the single-line fields -/

def optVal (o : Option String) : List (List Char) := match o with | some s => [s.toList] | none => []

/-- the values of the fields that are written as a single header line (everything except the licence and the
description) -/
def singleLineSegments (m : Meta) : List (List (List Char)) :=
  [[m.name.toList, m.version.toList, m.summary.toList, m.keywords.toList], optVal m.author, optVal m.authorEmail,
   optVal m.maintainer, optVal m.maintainerEmail, optVal m.requiresPython, m.classifiers.map String.toList,
   m.providesExtra.map String.toList, m.requiresDist.map String.toList, m.projectUrls.map String.toList,
   optVal m.descriptionContentType]

def singleLineFieldValues (m : Meta) : List (List Char) := (singleLineSegments m).flatten

theorem mem_singleLine (m : Meta) (seg : List (List Char)) (x : List Char) (hseg : seg ∈ singleLineSegments m)
    (hx : x ∈ seg) : x ∈ singleLineFieldValues m := List.mem_flatten.2 ⟨seg, hseg, hx⟩

theorem optEntry_mem (hd : String) (v : Option String) : ∀ e ∈ optEntry hd v, e.1 = hd.toList ∧ e.2 ∈ optVal v := by
  intro e he
  unfold optEntry at he
  split at he
  · rename_i s hs
    simp at he; subst he
    rw [truthy_some v s hs]; simp [optVal]
  · simp at he

theorem mem_optEntry (hd : String) (v : Option String) : ∀ x ∈ optVal v, x = [] ∨ (hd.toList, x) ∈ optEntry hd v := by
  intro x hx
  cases v with
  | none => simp [optVal] at hx
  | some s =>
    simp [optVal] at hx; subst hx
    by_cases hs : s = ""
    · left; subst hs; decide
    · right; simp [optEntry, truthy, hs]

/-- where each written entry comes from: the licence rule, a single-line field, or the marker of an unmodelled header -/
theorem fieldEntries_mem (m : Meta) (hd : String) :
    ∀ e ∈ fieldEntries m hd, e.1 = hd.toList ∧
      ((∃ l, e.2 = licenseValue l) ∨ e.2 ∈ singleLineFieldValues m ∨ e.2 = "<header not modelled>".toList) := by
  have sl : ∀ (e : Entry) (o : Option String), (∀ x ∈ optVal o, x ∈ singleLineFieldValues m) →
      e ∈ optEntry hd o → e.1 = hd.toList ∧ ((∃ l, e.2 = licenseValue l) ∨ e.2 ∈ singleLineFieldValues m ∨
        e.2 = "<header not modelled>".toList) := by
    intro e o ho he
    obtain ⟨h1, h2⟩ := optEntry_mem hd o e he
    exact ⟨h1, Or.inr (Or.inl (ho _ h2))⟩
  have ml : ∀ (e : Entry) (xs : List String), (∀ x ∈ xs, x.toList ∈ singleLineFieldValues m) →
      e ∈ xs.map (fun c => (hd.toList, c.toList)) → e.1 = hd.toList ∧ ((∃ l, e.2 = licenseValue l) ∨
        e.2 ∈ singleLineFieldValues m ∨ e.2 = "<header not modelled>".toList) := by
    intro e xs hxs he
    simp at he
    obtain ⟨c, hc, rfl⟩ := he
    exact ⟨rfl, Or.inr (Or.inl (hxs c hc))⟩
  unfold fieldEntries
  intro e
  by_cases h1 : hd = "License"
  · rw [if_pos h1]
    intro he
    split at he
    · simp at he; subst he
      exact ⟨by rw [h1], Or.inl ⟨_, rfl⟩⟩
    · simp at he
  rw [if_neg h1]
  by_cases h2 : hd = "Keywords"
  · rw [if_pos h2]; exact sl e _ (by
      intro x hx; simp [optVal] at hx; subst hx
      exact mem_singleLine m _ _ (List.mem_cons_self) (by simp))
  rw [if_neg h2]
  by_cases h3 : hd = "Author"
  · rw [if_pos h3]; exact sl e _ (by intro x hx; exact mem_singleLine m _ _ (by simp [singleLineSegments]) hx)
  rw [if_neg h3]
  by_cases h4 : hd = "Author-email"
  · rw [if_pos h4]; exact sl e _ (by intro x hx; exact mem_singleLine m _ _ (by simp [singleLineSegments]) hx)
  rw [if_neg h4]
  by_cases h5 : hd = "Maintainer"
  · rw [if_pos h5]; exact sl e _ (by intro x hx; exact mem_singleLine m _ _ (by simp [singleLineSegments]) hx)
  rw [if_neg h5]
  by_cases h6 : hd = "Maintainer-email"
  · rw [if_pos h6]; exact sl e _ (by intro x hx; exact mem_singleLine m _ _ (by simp [singleLineSegments]) hx)
  rw [if_neg h6]
  by_cases h7 : hd = "Requires-Python"
  · rw [if_pos h7]; exact sl e _ (by intro x hx; exact mem_singleLine m _ _ (by simp [singleLineSegments]) hx)
  rw [if_neg h7]
  by_cases h8 : hd = "Classifier"
  · rw [if_pos h8]; exact ml e _ (by
      intro x hx
      exact mem_singleLine m (m.classifiers.map String.toList) _ (by simp [singleLineSegments]) (List.mem_map.2 ⟨x, hx, rfl⟩))
  rw [if_neg h8]
  by_cases h9 : hd = "Provides-Extra"
  · rw [if_pos h9]
    exact ml e _ (by
      intro x hx
      have := (mem_sortStrs_iff _ _).1 hx
      exact mem_singleLine m (m.providesExtra.map String.toList) _ (by simp [singleLineSegments]) (List.mem_map.2 ⟨x, this, rfl⟩))
  rw [if_neg h9]
  by_cases h10 : hd = "Requires-Dist"
  · rw [if_pos h10]
    exact ml e _ (by
      intro x hx
      have := (mem_sortStrs_iff _ _).1 hx
      exact mem_singleLine m (m.requiresDist.map String.toList) _ (by simp [singleLineSegments]) (List.mem_map.2 ⟨x, this, rfl⟩))
  rw [if_neg h10]
  by_cases h11 : hd = "Project-URL"
  · rw [if_pos h11]
    exact ml e _ (by
      intro x hx
      have := (mem_sortByFirstChar _ _).1 hx
      exact mem_singleLine m (m.projectUrls.map String.toList) _ (by simp [singleLineSegments]) (List.mem_map.2 ⟨x, this, rfl⟩))
  rw [if_neg h11]
  by_cases h12 : hd = "Description-Content-Type"
  · rw [if_pos h12]; exact sl e _ (by intro x hx; exact mem_singleLine m _ _ (by simp [singleLineSegments]) hx)
  rw [if_neg h12]
  intro he
  simp at he; subst he
  exact ⟨rfl, Or.inr (Or.inr rfl)⟩

theorem licenseValue_valueOk (l : List Char) : ValueOk (licenseValue l) :=
  ⟨(licenseValue_ok l).1, (licenseValue_ok l).2.1⟩

/-- fold-safe single-line fields ⇒ every written entry is well formed (the names always are) -/
theorem allEntries_ok_of_valueOk (m : Meta) (h : ∀ v ∈ singleLineFieldValues m, ValueOk v) :
    ∀ e ∈ allEntries m, EntryOk e := by
  intro e he
  simp only [allEntries, List.mem_append] at he
  rcases he with he | he
  · simp only [baseEntries, List.mem_cons, List.not_mem_nil, or_false] at he
    rcases he with rfl | rfl | rfl | rfl
    · exact ⟨baseNames_ok.1, by decide, by intro c hc; simp at hc; subst hc; decide⟩
    · have := h m.name.toList (mem_singleLine m _ _ (List.mem_cons_self) (by simp)); exact ⟨baseNames_ok.2.1, this.1, this.2⟩
    · have := h m.version.toList (mem_singleLine m _ _ (List.mem_cons_self) (by simp)); exact ⟨baseNames_ok.2.2.1, this.1, this.2⟩
    · have := h m.summary.toList (mem_singleLine m _ _ (List.mem_cons_self) (by simp)); exact ⟨baseNames_ok.2.2.2, this.1, this.2⟩
  · simp only [optionalEntries, List.mem_flatMap] at he
    obtain ⟨hd, hhd, he⟩ := he
    obtain ⟨h1, h2⟩ := fieldEntries_mem m hd e he
    have hv : ValueOk e.2 := by
      rcases h2 with ⟨l, hl⟩ | hm | hu
      · rw [hl]; exact licenseValue_valueOk l
      · exact h _ hm
      · rw [hu]; exact valueOk_of_noNL _ (by decide)
    exact ⟨by rw [h1]; exact headerOrder_names_ok hd hhd, hv.1, hv.2⟩

/-- every non-empty single-line field value is written (for the header order of the current source) -/
theorem singleLine_written (m : Meta) : ∀ v ∈ singleLineFieldValues m, v = [] ∨ ∃ e ∈ allEntries m, e.2 = v := by
  intro v hv
  have opt : ∀ (hd : String) (o : Option String), hd ∈ Gen.metadataHeaderOrder →
      (∀ x, (hd.toList, x) ∈ optEntry hd o → (hd.toList, x) ∈ fieldEntries m hd) → v ∈ optVal o →
      v = [] ∨ ∃ e ∈ allEntries m, e.2 = v := by
    intro hd o hhd hfe hv
    rcases mem_optEntry hd o v hv with h | h
    · exact Or.inl h
    · refine Or.inr ⟨(hd.toList, v), ?_, rfl⟩
      simp only [allEntries, optionalEntries, List.mem_append, List.mem_flatMap]
      exact Or.inr ⟨hd, hhd, hfe v h⟩
  have lst : ∀ (hd : String) (xs : List String), hd ∈ Gen.metadataHeaderOrder →
      (∀ x ∈ xs, (hd.toList, x.toList) ∈ fieldEntries m hd) → v ∈ xs.map String.toList →
      v = [] ∨ ∃ e ∈ allEntries m, e.2 = v := by
    intro hd xs hhd hfe hv
    simp at hv
    obtain ⟨x, hx, rfl⟩ := hv
    refine Or.inr ⟨(hd.toList, x.toList), ?_, rfl⟩
    simp only [allEntries, optionalEntries, List.mem_append, List.mem_flatMap]
    exact Or.inr ⟨hd, hhd, hfe x hx⟩
  obtain ⟨seg, hseg, hv⟩ := List.mem_flatten.1 hv
  simp only [singleLineSegments, List.mem_cons, List.not_mem_nil, or_false] at hseg
  rcases hseg with rfl | rfl | rfl | rfl | rfl | rfl | rfl | rfl | rfl | rfl | rfl
  · simp only [List.mem_cons, List.not_mem_nil, or_false] at hv
    rcases hv with rfl | rfl | rfl | rfl
    · exact Or.inr ⟨("Name".toList, m.name.toList), by simp [allEntries, baseEntries], rfl⟩
    · exact Or.inr ⟨("Version".toList, m.version.toList), by simp [allEntries, baseEntries], rfl⟩
    · exact Or.inr ⟨("Summary".toList, m.summary.toList), by simp [allEntries, baseEntries], rfl⟩
    · exact opt "Keywords" (some m.keywords) (by decide) (by intro x hx; simpa [fieldEntries] using hx) (by simp [optVal])
  · exact opt "Author" m.author (by decide) (by intro x hx; simpa [fieldEntries] using hx) hv
  · exact opt "Author-email" m.authorEmail (by decide) (by intro x hx; simpa [fieldEntries] using hx) hv
  · exact opt "Maintainer" m.maintainer (by decide) (by intro x hx; simpa [fieldEntries] using hx) hv
  · exact opt "Maintainer-email" m.maintainerEmail (by decide) (by intro x hx; simpa [fieldEntries] using hx) hv
  · exact opt "Requires-Python" m.requiresPython (by decide) (by intro x hx; simpa [fieldEntries] using hx) hv
  · exact lst "Classifier" m.classifiers (by decide) (by intro x hx; simp [fieldEntries]; exact ⟨x, hx, rfl⟩) hv
  · exact lst "Provides-Extra" m.providesExtra (by decide)
      (by intro x hx; simp [fieldEntries]; exact ⟨x, (mem_sortStrs_iff _ _).2 hx, rfl⟩) hv
  · exact lst "Requires-Dist" m.requiresDist (by decide)
      (by intro x hx; simp [fieldEntries]; exact ⟨x, (mem_sortStrs_iff _ _).2 hx, rfl⟩) hv
  · exact lst "Project-URL" m.projectUrls (by decide)
      (by intro x hx; simp [fieldEntries]; exact ⟨x, (mem_sortByFirstChar _ _).2 hx, rfl⟩) hv
  · exact opt "Description-Content-Type" m.descriptionContentType (by decide)
      (by intro x hx; simpa [fieldEntries] using hx) hv

/-- **rendered metadata parses into the declared fields IF AND ONLY IF every single-line field is fold-safe** -/
theorem render_parse_iff_chars (m : Meta) :
    (parseChars (renderChars m)).headers = expectedFields m ↔ ∀ v ∈ singleLineFieldValues m, ValueOk v := by
  constructor
  · intro h v hv
    rcases singleLine_written m v hv with rfl | ⟨e, he, rfl⟩
    · exact valueOk_of_noNL [] (by intro c hc; simp at hc)
    · have hmem : (e.1, lstripWS e.2) ∈ (parseChars (renderChars m)).headers := by
        rw [h]; simp only [expectedFields, List.mem_map]; exact ⟨e, he, rfl⟩
      exact valueOk_of_lstrip e.2 (parse_values_ok _ _ hmem)
  · intro h
    rw [renderChars_eq, parse_entries _ _ (allEntries_ok_of_valueOk m h)]
    rfl

theorem render_parse_full_of_valueOk (m : Meta) (h : ∀ v ∈ singleLineFieldValues m, ValueOk v) :
    parseChars (renderChars m) =
      { unixFrom := none, headers := expectedFields m, body := bodyOf (m.description.map String.toList), defects := [] } := by
  rw [renderChars_eq]
  exact parse_entries _ _ (allEntries_ok_of_valueOk m h)


/-- the guard of `render_parse` says exactly that no single-line field value contains a line end -/
theorem guard_iff_noNL (m : Meta) :
    NoLineBreakInSingleLineFields m ↔ ∀ v ∈ singleLineFieldValues m, NoNL v := by
  constructor
  · intro hm v hv
    obtain ⟨seg, hseg, hv⟩ := List.mem_flatten.1 hv
    have opt : ∀ (o : Option String), (∀ s, o = some s → SingleLine s) → v ∈ optVal o → NoNL v := by
      intro o ho hv
      cases o with
      | none => simp [optVal] at hv
      | some s => simp [optVal] at hv; subst hv; exact ho s rfl
    have lst : ∀ (xs : List String), (∀ s ∈ xs, SingleLine s) → v ∈ xs.map String.toList → NoNL v := by
      intro xs hxs hv
      simp at hv
      obtain ⟨x, hx, rfl⟩ := hv
      exact hxs x hx
    simp only [singleLineSegments, List.mem_cons, List.not_mem_nil, or_false] at hseg
    rcases hseg with rfl | rfl | rfl | rfl | rfl | rfl | rfl | rfl | rfl | rfl | rfl
    · simp only [List.mem_cons, List.not_mem_nil, or_false] at hv
      rcases hv with rfl | rfl | rfl | rfl
      · exact hm.name
      · exact hm.version
      · exact hm.summary
      · exact hm.keywords
    · exact opt _ hm.author hv
    · exact opt _ hm.authorEmail hv
    · exact opt _ hm.maintainer hv
    · exact opt _ hm.maintainerEmail hv
    · exact opt _ hm.requiresPython hv
    · exact lst _ hm.classifiers hv
    · exact lst _ hm.providesExtra hv
    · exact lst _ hm.requiresDist hv
    · exact lst _ hm.projectUrls hv
    · exact opt _ hm.contentType hv
  · intro h
    have seg : ∀ (sg : List (List Char)), sg ∈ singleLineSegments m → ∀ x ∈ sg, NoNL x :=
      fun sg hsg x hx => h x (mem_singleLine m sg x hsg hx)
    have opt : ∀ (o : Option String), optVal o ∈ singleLineSegments m → ∀ s, o = some s → SingleLine s := by
      intro o ho s hs; subst hs; exact seg _ ho _ (by simp [optVal])
    have lst : ∀ (xs : List String), xs.map String.toList ∈ singleLineSegments m → ∀ s ∈ xs, SingleLine s := by
      intro xs hxs s hs; exact seg _ hxs _ (List.mem_map.2 ⟨s, hs, rfl⟩)
    have base := seg [m.name.toList, m.version.toList, m.summary.toList, m.keywords.toList] (by simp [singleLineSegments])
    exact { name := base _ (by simp), version := base _ (by simp), summary := base _ (by simp), keywords := base _ (by simp),
            author := opt _ (by simp [singleLineSegments]), authorEmail := opt _ (by simp [singleLineSegments]),
            maintainer := opt _ (by simp [singleLineSegments]), maintainerEmail := opt _ (by simp [singleLineSegments]),
            requiresPython := opt _ (by simp [singleLineSegments]), classifiers := lst _ (by simp [singleLineSegments]),
            providesExtra := lst _ (by simp [singleLineSegments]), requiresDist := lst _ (by simp [singleLineSegments]),
            projectUrls := lst _ (by simp [singleLineSegments]), contentType := opt _ (by simp [singleLineSegments]) }

end Poetry.Meta
