/-
Text level of the constraint round trip (helper lemmas for C15): single members, `||` joins and the `!=V`
spelling of a union, from printed text back through `parse_constraint`.
-/
import PoetryVerif.Proofs.VRangeTextS
import PoetryVerif.Proofs.VRangeSpec

set_option linter.unusedSimpArgs false
set_option linter.unusedVariables false
set_option linter.unnecessarySeqFocus false

namespace Poetry
open Poetry.Marker
open Version

/-! ### printing a list of members -/

theorem mapM_toStr : ∀ (rs : List RC), (∀ m ∈ rs, m.plainText) →
    rs.mapM RC.toStr = .ok (rs.map (fun m => String.ofList (memberChars m)))
  | [], _ => rfl
  | m :: ms, h => by
    rw [List.mapM_cons, memberChars_toStr m (h m (by simp)), mapM_toStr ms (fun x hx => h x (by simp [hx]))]
    rfl

theorem joinWith_bar : ∀ (l : List (List Char)),
    joinWith " || " (l.map String.ofList) = String.ofList (joinC barSep l)
  | [] => rfl
  | [x] => rfl
  | x :: y :: ys => by
    have ih := joinWith_bar (y :: ys)
    simp only [List.map_cons] at ih ⊢
    simp only [joinWith, joinC]
    rw [ih]
    exact str_eq_of_toList (by simp [barSep])

theorem mapM_parseGroup_members (b : Bool) : ∀ (rs : List RC),
    (∀ m ∈ rs, m.WF ∧ m.NE ∧ m.Tidy ∧ m.TextOK) →
    (rs.map memberChars).mapM (fun q => VParser.parseGroup q b) = .ok (rs.map VC.single)
  | [], _ => rfl
  | m :: ms, h => by
    obtain ⟨h1, h2, h3, h4⟩ := h m (by simp)
    rw [List.map_cons, List.mapM_cons, parseGroup_member b m h1 h2 h3 h4,
      mapM_parseGroup_members b ms (fun x hx => h x (by simp [hx]))]
    rfl

theorem flatMap_single (rs : List RC) : (rs.map VC.single).flatMap VC.flatten = rs := by
  induction rs with
  | nil => rfl
  | cons m ms ih => simp [VC.flatten, ih]

/-! ### a single member -/

/-- **a single version or range (not spelt with a wildcard) is read back from its text, identically** -/
theorem single_roundtrip (m : RC) (hwf : m.WF) (hne : m.NE) (htidy : m.Tidy) (ht : m.TextOK) (hp : m.plainText) :
    ∃ s, (VC.single m).toStr = .ok s ∧ VParser.parseConstraint s = .ok (.single m) := by
  refine ⟨_, memberChars_toStr m hp, ?_⟩
  by_cases hany : m = .rng ⟨none, none, false, false⟩
  · subst hany
    rfl
  · unfold VParser.parseConstraint
    rw [parseConstraintAux_one false _ (memberChars_group m ht) (memberChars_head m ht hany htidy)]
    exact parseGroup_member false m hwf hne htidy ht

/-! ### unions -/

/-- the hypotheses on a union at the text level: well-formed (what `VersionUnion.of` establishes), members tidy,
bounds with re-parsable texts, mutually regular and not local builds -/
structure UnionText (rs : List RC) : Prop where
  wf : (VC.union rs).WF
  tidy : ∀ m ∈ rs, m.Tidy
  text : ∀ m ∈ rs, m.TextOK
  reg : RegB (boundsOf rs)

theorem UnionText.member {rs : List RC} (h : UnionText rs) : ∀ m ∈ rs, RegMember (boundsOf rs) m := by
  intro m hm
  exact ⟨(h.wf.2.1 m hm).1, h.tidy m hm, (h.wf.2.1 m hm).2, fun e he => List.mem_flatMap.2 ⟨m, hm, he⟩⟩

theorem UnionText.allows {rs : List RC} (h : UnionText rs) (p : Version) :
    (VC.union rs).allows p = .ok (anyAllows rs p) := by
  rw [VC.allows_of_reg h.reg (.union rs) h.wf (by simpa [VC.flatten] using h.member) p]
  rfl

theorem first_not_any (m1 m2 : RC) (h : m1.view.isStrictlyLower m2.view = true) :
    m1 ≠ .rng ⟨none, none, false, false⟩ := by
  intro e
  subst e
  simp [VRange.isStrictlyLower, VRange.allowedMax, RC.view, RC.max] at h

/-- **a union printed as `m0 || m1 || …` is read back as an equivalent constraint**: `parse_constraint` parses
the groups to the members themselves and `VersionUnion.of` rebuilds a union admitting the same versions -/
theorem union_join_roundtrip (rs : List RC) (h : UnionText rs) (hplain : ∀ m ∈ rs, m.plainText)
    (hx : VC.excludedSingleVersion rs = .ok none) (hw : VC.excludedWildcard rs = none) :
    ∃ s c', (VC.union rs).toStr = .ok s ∧ VParser.parseConstraint s = .ok c' ∧ c'.WF ∧
      (∀ x ∈ c'.flatten, RegMember (boundsOf rs) x) ∧
      ∀ p, p.wf = true → Regular (boundsOf rs) p → c'.allows p = (VC.union rs).allows p := by
  have hstr : (VC.union rs).toStr = .ok (String.ofList (joinC barSep (rs.map memberChars))) := by
    simp only [VC.toStr, hx, hw, mapM_toStr rs hplain, bind, Except.bind, pure, Except.pure]
    rw [← joinWith_bar, List.map_map]
    rfl
  have hmem : ∀ m ∈ rs, m.WF ∧ m.NE ∧ m.Tidy ∧ m.TextOK := fun m hm =>
    ⟨(h.wf.2.1 m hm).1, (h.wf.2.1 m hm).2, h.tidy m hm, h.text m hm⟩
  obtain ⟨res, hres, hrwf, hrm, hrsem⟩ := unionOf_reg h.reg (rs.map VC.single) (by
    intro c hc x hx'
    obtain ⟨m, hm, rfl⟩ := List.mem_map.1 hc
    simp only [VC.flatten, List.mem_singleton] at hx'
    rw [hx']
    exact h.member m hm)
  rw [flatMap_single] at hrsem
  have hlen := h.wf.1
  match rs, h, hplain, hx, hw, hstr, hmem, hres, hrsem, hlen with
  | m1 :: m2 :: ms, h, hplain, hx, hw, hstr, hmem, hres, hrsem, _ =>
    have hsl : m1.view.isStrictlyLower m2.view = true := by
      have := h.wf.2.2.1
      simp only [SortedRC, List.pairwise_cons] at this
      exact this.1 m2 (by simp)
    have hgroups : ∀ q ∈ memberChars m1 :: memberChars m2 :: ms.map memberChars, GroupText q := by
      intro q hq
      rw [← List.map_cons, ← List.map_cons] at hq
      obtain ⟨m, hm, rfl⟩ := List.mem_map.1 hq
      exact memberChars_group m (h.text m hm)
    refine ⟨_, res, hstr, ?_, hrwf, hrm, fun p hp hreg => ?_⟩
    · unfold VParser.parseConstraint
      simp only [List.map_cons]
      rw [parseConstraintAux_many false _ _ _ hgroups
        (memberChars_head m1 (h.text m1 (by simp)) (first_not_any m1 m2 hsl) (h.tidy m1 (by simp)))
        ((m1 :: m2 :: ms).map VC.single) (by
          have := mapM_parseGroup_members false (m1 :: m2 :: ms) hmem
          simpa using this)]
      exact hres
    · rw [VC.allows_of_reg h.reg res hrwf hrm p, hrsem p hp hreg, h.allows p]

/-- **a union printed as `!=V` is read back as an equivalent constraint** -/
theorem union_ne_roundtrip (rs : List RC) (h : UnionText rs) (v : Version)
    (hx : VC.excludedSingleVersion rs = .ok (some v)) :
    ∃ s, (VC.union rs).toStr = .ok s ∧
      VParser.parseConstraint s = .ok (.union [.rng ⟨none, some v, false, false⟩, .rng ⟨some v, none, false, false⟩]) ∧
      v ∈ boundsOf rs ∧
      ∀ p, p.wf = true → Regular (boundsOf rs) p →
        (VC.union [.rng ⟨none, some v, false, false⟩, .rng ⟨some v, none, false, false⟩]).allows p =
          (VC.union rs).allows p := by
  -- the inverse of the union is the version `v`
  have hinv : VC.inverted rs = .ok (.single (.ver v)) := by
    unfold VC.excludedSingleVersion at hx
    cases hi : VC.inverted rs with
    | error e => simp [hi, bind, Except.bind] at hx
    | ok c =>
      simp only [hi, bind, Except.bind, pure, Except.pure] at hx
      split at hx
      · rename_i w
        injection hx with hx; injection hx with hx; subst hx; rfl
      · cases hx
  obtain ⟨hok, _⟩ := unionOK_of_reg h.reg rs h.member h.wf.2.2.1
  obtain ⟨_, hb, hsem⟩ := inverted_sem rs hok _ hinv
  have hvB : v ∈ boundsOf rs := hb v (by simp [VC.bounds, RC.bounds_ver])
  have hvt : TextOK v := by
    obtain ⟨m, hm, hmv⟩ := List.mem_flatMap.1 hvB
    exact h.text m hm v hmv
  have hvwf : v.wf = true := by
    obtain ⟨m, hm, hmv⟩ := List.mem_flatMap.1 hvB
    have := (h.wf.2.1 m hm).1
    cases m with
    | ver x => simp [RC.bounds_ver] at hmv; subst hmv; exact this
    | rng r => exact this.1 v hmv
  have hstr : (VC.union rs).toStr = .ok (String.ofList ('!' :: '=' :: v.text.toList)) := by
    simp only [VC.toStr, hx, bind, Except.bind, pure, Except.pure]
    congr 1
    exact str_eq_of_toList (by simp)
  have hpl : ∀ c ∈ '!' :: '=' :: v.text.toList, vPlain c := by
    intro c hc
    simp only [List.mem_cons] at hc
    rcases hc with rfl | rfl | hc
    · unfold vPlain; decide
    · unfold vPlain; decide
    · exact hvt.plain c hc
  refine ⟨_, hstr, ?_, hvB, fun p hp hreg => ?_⟩
  · unfold VParser.parseConstraint
    rw [parseConstraintAux_one false _ (groupText_of_vPlain _ hpl (by simp)) (by simp),
      parseGroup_plain false _ hpl]
    exact parseSingle_ne_text false hvt
  · have hr1 : Reg1 p v := hreg.reg1 hvB
    obtain ⟨b, hb1, hb2⟩ := ne_allows v p hvwf hp hr1
    rw [hb1, h.allows p]
    congr 1
    have hs := hsem p hp hreg
    simp only [VC.allowsPlain, VC.flatten, List.any_cons, List.any_nil, Bool.or_false] at hs
    have hva : (RC.ver v).allows p = true ↔ vk p = vk v := RC.ver_allows_iff v p hvwf hp hr1
    cases hb : b <;> cases ha : anyAllows rs p <;> simp_all

/-! ### every non-empty constraint not spelt with a wildcard -/

/-- not spelt with a wildcard: no member prints as `==X.*` and the union does not print as `!=X.*` -/
def PlainSpelling : VC → Prop
  | .empty => True
  | .single m => m.plainText
  | .union rs => (∀ m ∈ rs, m.plainText) ∧ VC.excludedWildcard rs = none

/-- the text round trip for single versions, plain ranges, `*`, `||` joins and `!=V` -/
theorem VC.text_roundtrip (c : VC) (hwf : c.WF) (hne : c.isEmpty = false)
    (htidy : ∀ m ∈ c.flatten, m.Tidy) (htext : ∀ e ∈ c.bounds, TextOK e)
    (hreg : ∀ rs, c = .union rs → RegB c.bounds) (hplain : PlainSpelling c) :
    ∃ s c', c.toStr = .ok s ∧ VParser.parseConstraint s = .ok c' ∧
      ∀ p, p.wf = true → Regular (c.bounds ++ c'.bounds) p → c'.allows p = c.allows p := by
  cases c with
  | empty => simp [VC.isEmpty] at hne
  | single m =>
    obtain ⟨s, h1, h2⟩ := single_roundtrip m hwf.1 hwf.2 (htidy m (by simp [VC.flatten])) htext hplain
    exact ⟨s, _, h1, h2, fun _ _ _ => rfl⟩
  | union rs =>
    have hU : UnionText rs := ⟨hwf, fun m hm => htidy m (by simpa [VC.flatten] using hm),
      fun m hm e he => htext e (List.mem_flatMap.2 ⟨m, hm, he⟩), hreg rs rfl⟩
    obtain ⟨hok, hN⟩ := unionOK_of_reg hU.reg rs hU.member hwf.2.2.1
    obtain ⟨inv, hinv⟩ := inverted_total rs hok hN
    have hxs : ∃ o, VC.excludedSingleVersion rs = .ok o := by
      unfold VC.excludedSingleVersion
      simp only [hinv, bind, Except.bind, pure, Except.pure]
      split <;> exact ⟨_, rfl⟩
    obtain ⟨o, ho⟩ := hxs
    cases o with
    | none =>
      obtain ⟨s, c', h1, h2, _, _, h5⟩ := union_join_roundtrip rs hU hplain.1 ho hplain.2
      exact ⟨s, c', h1, h2, fun p hp hr => h5 p hp (hr.mono (by intro e he; simp [VC.bounds, boundsOf] at he ⊢; exact Or.inl he))⟩
    | some v =>
      obtain ⟨s, h1, h2, _, h4⟩ := union_ne_roundtrip rs hU v ho
      exact ⟨s, _, h1, h2, fun p hp hr => h4 p hp (hr.mono (by intro e he; simp [VC.bounds, boundsOf] at he ⊢; exact Or.inl he))⟩

end Poetry
