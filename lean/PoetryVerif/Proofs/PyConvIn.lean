/-
`python_version in "X0.Y0 X1.Y1 …"`: the normaliser prints one alternative `Xi.Yi.*` per listed version, the
constraint parser reads their `||`-join as the union of the half-open ranges, and the result admits `X.Y.Z` exactly
when `(X, Y)` is listed — the reference value of the item (helper lemmas for C11).
-/
import PoetryVerif.Proofs.PyConvSplitSound
import PoetryVerif.Proofs.MarkerLeafVersionList

set_option linter.unusedSimpArgs false
set_option linter.unusedVariables false

namespace Poetry.Marker
open Poetry Poetry.Spec Poetry.Spec.Pep508 Poetry.VParser Poetry.Version

theorem relChars_bridge (x : Nat) (r : List Nat) : Marker.relChars x r = Poetry.relChars (x :: r) := by
  rw [← Marker.relText_toList, Poetry.relText_toList]

/-- the characters of the alternative `X.Y.*` -/
def starItem (p : Nat × Nat) : List Char := Poetry.relChars [p.1, p.2] ++ ['.', '*']

theorem starChars_eq (p : Nat × Nat) : starChars p = starItem p := by
  simp [starChars, starItem, relChars_bridge]

/-- the alternatives the normaliser prints for an `in` list of two-component versions -/
theorem versionListItems_in2 (p0 : Nat × Nat) (rest : List (String × (Nat × Nat))) (hs : ∀ q ∈ rest, SepRun q.1) :
    versionListItems true (verList2 p0 rest) = (p0 :: rest.map (·.2)).map (fun p => String.ofList (starItem p)) := by
  have hsplit : splitListValue (verList2 p0 rest).toList =
      (p0 :: rest.map (·.2)).map (fun p => Marker.relChars p.1 [p.2]) := by
    rw [verList2, listLit_toList, splitListValue_join _ _ (verList2_ok p0 rest hs).listOk, ← verList2_toksC]; rfl
  simp only [versionListItems, hsplit, List.map_map]
  apply List.map_congr_left
  intro p _
  simp only [Function.comp]
  have h2 : (splitDots (Marker.relChars p.1 [p.2])).length = 2 := by rw [splitDots_relChars]; simp
  simp only [h2]
  exact str_eq_of_toList (by rw [String.toList_ofList, ← starChars_eq]; exact versionListItem_two p)

/-- the text `normalize_python_version_markers` prints for the single pair `("in", list)` -/
theorem normalize_in2 (p0 : Nat × Nat) (rest : List (String × (Nat × Nat))) (hs : ∀ q ∈ rest, SepRun q.1) :
    normalizePyMarkers [[("in", verList2 p0 rest)]] =
      .ok (joinWith " || " ((p0 :: rest.map (·.2)).map (fun p => String.ofList (starItem p)))) := by
  have hc : normalizePyConj [("in", verList2 p0 rest)] [[]] =
      .ok (((p0 :: rest.map (·.2)).map (fun p => String.ofList (starItem p))).map (fun v => [v])) := by
    simp [normalizePyConj, versionListItems_in2 p0 rest hs]
  simp only [normalizePyMarkers, List.mapM_cons, List.mapM_nil, hc, bind, Except.bind, pure, Except.pure,
    List.map_map]
  congr 2
  simp [Function.comp_def, joinWith]


/-- the half-open range `[X.Y, X.(Y+1))` -/
def starVC (p : Nat × Nat) : VC :=
  .single (.rng ⟨some (finalV [p.1, p.2]), some (finalV [p.1, p.2 + 1]), true, false⟩)

theorem makeX_star (a b : Nat) : makeXConstraintRange (finalV [a, b]) false true = .ok (starVC (a, b)) := by
  have hp : (finalV [a, b]).isPostrelease = false := rfl
  have hs : (finalV [a, b]).isStable = true := rfl
  have hdv : (finalV [a, b]).isDevrelease = false := rfl
  simp [makeXConstraintRange, hdv, hp, hs, finalV_nextStable2, starVC]

theorem parseSingle_starItem (p : Nat × Nat) : parseSingle (starItem p) true = .ok (starVC p) := by
  obtain ⟨a, b⟩ := p
  rw [starItem]
  rw [Poetry.parseSingle_star true a [b] (xCore_star2 false a b), makeX_star]

theorem digit_startOK {c : Char} (h : isDigit c = true) : startOK c := by
  have hp : plainChar c = true := by simp [plainChar, h]
  refine ⟨plain_ne hp (by decide), plain_ne hp (by decide), plain_ne hp (by decide), plain_ne hp (by decide),
    plain_ne hp (by decide), isSpace_of_isDigit h⟩

theorem starItem_ok (p : Nat × Nat) : ItemOK (starItem p) ∧ starItem p ≠ ['*'] ∧ PyVCok (starVC p) := by
  obtain ⟨a, b⟩ := p
  obtain ⟨c, cs, hc, hd⟩ := relChars_head a [b]
  refine ⟨⟨?_, ?_, ?_⟩, ?_, ?_⟩
  · exact noSep_append (noSep_rel _) (noSep_cons (sp (by simp)) (noSep_cons (sp (by simp)) (fun _ h => by cases h)))
  · exact ⟨c, cs ++ ['.', '*'], by simp [starItem, hc], digit_startOK hd⟩
  · exact lastOK_star _
  · simp [starItem, hc]
  · exact ok_both _ _ (pb _) (pb _) (lt_minor2 a b)

theorem starVC_allows (p : Nat × Nat) (X Y Z : Nat) :
    (starVC p).allowsPlain (pyV X Y Z) = decide (X = p.1 ∧ Y = p.2) := by
  obtain ⟨a, b⟩ := p
  apply bool_iff
  have hrel : ∀ l, (finalV l).release = l := fun _ => rfl
  simp only [starVC, VC.allowsPlain, VC.flatten, List.any_cons, List.any_nil, Bool.or_false, RC.allows]
  rw [allows_both (finalV [a, b]) (finalV [a, b + 1]) true false (pb _) (pb _) X Y Z]
  simp only [hrel, pad3, if_true, ne_eq, lex3_gt, lex3_lt, Bool.false_eq_true, if_false, decide_eq_true_eq]
  omega

theorem orJoin_single_groups (ps : List (Nat × Nat)) :
    (joinWith " || " (ps.map (fun p => String.ofList (starItem p)))).toList =
      orJoin ((ps.map (fun p => (((starItem p, starVC p), []) : Grp))).map Grp.chars) := by
  rw [orJoin_toList]
  simp [List.map_map, Function.comp_def, Grp.chars, Grp.items, spJoin]

/-- the parse of the alternatives of an `in` list, and what it admits -/
theorem parse_starList (p0 : Nat × Nat) (ps : List (Nat × Nat)) (X Y Z : Nat) :
    ∃ res, parseMarkerVersionConstraint (joinWith " || " ((p0 :: ps).map (fun p => String.ofList (starItem p)))) = .ok res ∧
      res.allowsPlain (pyV X Y Z) = (p0 :: ps).any (fun p => decide (X = p.1 ∧ Y = p.2)) ∧
      res.allows (pyV X Y Z) = .ok (res.allowsPlain (pyV X Y Z)) := by
  let gvs : List Grp := (p0 :: ps).map (fun p => ((starItem p, starVC p), []))
  let B : List Version := gvs.flatMap (fun g => g.items.flatMap (fun q => q.2.flatten.flatMap RC.bounds))
  have hmem : ∀ g ∈ gvs, ∀ q ∈ g.items, ∃ p, q = (starItem p, starVC p) := by
    intro g hg q hq
    obtain ⟨p, _, rfl⟩ := List.mem_map.1 hg
    simp [Grp.items] at hq
    exact ⟨p, hq⟩
  have hpb : ∀ e ∈ B, PyBound e = true := by
    intro e he
    simp only [B, List.mem_flatMap] at he
    obtain ⟨g, hg, q, hq, c, hc, hec⟩ := he
    obtain ⟨p, rfl⟩ := hmem g hg q hq
    exact (((starItem_ok p).2.2).2 c hc).2.2.2 e hec
  obtain ⟨res, h1, _, h3, h4⟩ := parse_groups hpb X Y Z gvs (by simp [gvs])
    (by
      intro g hg q hq
      obtain ⟨p, rfl⟩ := hmem g hg q hq
      refine ⟨(starItem_ok p).1, parseSingle_starItem p, regVC_of_ok (starItem_ok p).2.2 ?_⟩
      intro m hm e he
      simp only [B, List.mem_flatMap]
      exact ⟨g, hg, _, hq, m, hm, he⟩)
    (by
      intro g hg q hq
      obtain ⟨p, rfl⟩ := hmem g hg q hq
      exact (starItem_ok p).2.1)
    _ (orJoin_single_groups (p0 :: ps))
  refine ⟨res, h1, ?_, h4⟩
  rw [h3]
  simp only [gvs, List.any_map, Function.comp_def, Grp.items, List.all_cons, List.all_nil, Bool.and_true, starVC_allows]


/-- reference value of `python_version in "X0.Y0 …"` on the environment of `X.Y.Z`: `(X, Y)` is listed -/
theorem evalItem_in2 (E : Env) (X Y Z : Nat) (hE : EnvPy E X Y Z) (p0 : Nat × Nat)
    (rest : List (String × (Nat × Nat))) (hs : ∀ q ∈ rest, SepRun q.1) :
    evalItem "python_version" "in" (verList2 p0 rest) false E =
      some ((p0 :: rest.map (·.2)).any (fun p => decide (X = p.1 ∧ Y = p.2))) := by
  have htok : tokens (verList2 p0 rest) = (p0 :: rest.map (·.2)).map tok2 := by
    rw [verList2, tokens_listLit _ _ (verList2_ok p0 rest hs)]
    simp [listToks, List.map_map, Function.comp_def]
  have hmapM : ((p0 :: rest.map (·.2)).map tok2).mapM parseFinal =
      some ((p0 :: rest.map (·.2)).map fun p => finalV [p.1, p.2]) := by
    generalize p0 :: rest.map (·.2) = l
    induction l with
    | nil => rfl
    | cons a as ih => simp [List.mapM_cons, tok2, Poetry.parseFinal_relText, ih]
  have h1 : canonVar "python_version" = "python_version" := by decide
  have h3 : "python_version" ∈ versionVars := by decide
  simp only [evalItem, h1, show ("python_version" == "extra") = false by decide, Bool.false_eq_true, if_false,
    hE.1, List.contains_iff_mem, h3, if_true, Poetry.parseFinal_relText, htok, hmapM]
  simp only [List.isEmpty_cons, List.map_cons, Bool.false_eq_true, if_false, if_true, Option.some.injEq,
    beq_self_eq_true]
  have key : ∀ l : List (Nat × Nat),
      ((l.map fun p => finalV [p.1, p.2]).any fun lit => Spec.cmpRef (finalV [X, Y]) lit == Ordering.eq) =
        l.any fun p => decide (X = p.1 ∧ Y = p.2) := by
    intro l
    induction l with
    | nil => rfl
    | cons p ps ih =>
      simp only [List.map_cons, List.any_cons, ih]
      congr 1
      apply bool_iff
      rw [beq_iff_eq, cmpRef_finalV, sz_pad2, sz_pad2, sz3, lex3_eq, decide_eq_true_eq]
      simp
  exact key (p0 :: rest.map (·.2))

/-- **`get_python_constraint_from_marker` of `python_version in "X0.Y0 X1.Y1 …"` is exact** -/
theorem gpcLeaf_in2 (E : Env) (X Y Z : Nat) (hE : EnvPy E X Y Z) (s : Single) (p0 : Nat × Nat)
    (rest : List (String × (Nat × Nat))) (hs : ∀ q ∈ rest, SepRun q.1)
    (hn : s.name = "python_version") (hop : s.op = "in") (hv : s.value = verList2 p0 rest) :
    ∃ vc b, gpcLeaf (.single s) = .ok vc ∧ vc.allowsPlain (pyV X Y Z) = b ∧
      vc.allows (pyV X Y Z) = .ok b ∧ evalItem s.name s.op s.value false E = some b := by
  obtain ⟨res, h1, h2, h3⟩ := parse_starList p0 (rest.map (·.2)) X Y Z
  refine ⟨res, _, ?_, h2, by rw [h3, h2], by rw [hn, hop, hv]; exact evalItem_in2 E X Y Z hE p0 rest hs⟩
  have hpy : isPyName s.name = true := by rw [hn]; decide
  simp only [gpcLeaf, Leaf.name, hpy, Bool.not_true, Bool.false_eq_true, if_false, hop, hv, normalize_in2 p0 rest hs,
    bind, Except.bind]
  exact h1

end Poetry.Marker
