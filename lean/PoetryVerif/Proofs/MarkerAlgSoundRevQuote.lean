/-
Reversed-operand leaves (`"v" in name`) whose value holds a double quote.  The constructor writes the constraint
string `"v" op` between double quotes whatever the value (`f'"{value}" {op}'`) and reads it with the backtracking
pattern `STR_CMP_CONSTRAINT` (`(?P<quote>['"])(?P<value>.+?)\1\s*(not\sin|in)$`): an inner `"` of the value is tried
as the closing quote first.  For a value WITHOUT BLANKS the rest of the text after an inner quote still holds the real
closing quote, so it is not `\s*(in|not in)$` and the pattern backtracks up to the real one.
-/
import PoetryVerif.Proofs.MarkerAlgSoundQuote

set_option linter.unusedSimpArgs false
set_option linter.unusedVariables false

namespace Poetry.Marker
open Poetry
open Poetry.Generic (GC GS)

theorem lower_dq : lowerChar '"' = '"' := by decide

theorem stripPrefixCI_some {p s o r : List Char} (h : stripPrefixCI? p s = some (o, r)) :
    lowerStr (s.take p.length) = lowerStr p ∧ r = s.drop p.length := by
  unfold stripPrefixCI? at h
  split at h
  · rename_i hc
    simp only [Bool.and_eq_true, beq_iff_eq] at hc
    cases h
    exact ⟨hc.2, rfl⟩
  · cases h

/-- after `not`, the next character of the text is not a blank -/
theorem inner_not (xs : List Char) (hx : ∀ c ∈ xs, isSpace c = false) (tl : List Char)
    (h : lowerStr ((xs ++ '"' :: tl).take 3) = ['n', 'o', 't']) (c : Char) (r2 : List Char)
    (hd : (xs ++ '"' :: tl).drop 3 = c :: r2) : isSpace c = false := by
  match xs, hx with
  | [], _ => simp [lowerStr, lower_dq] at h
  | [a], _ =>
    simp [lowerStr, lower_dq] at h
  | [a, b], _ =>
    cases tl <;> simp [lowerStr, lower_dq] at h
  | a :: b :: c' :: rest, hx =>
    simp only [List.cons_append, List.drop_succ_cons, List.drop_zero] at hd
    cases rest with
    | nil => simp at hd; rw [← hd.1]; decide
    | cons d t => simp at hd; rw [← hd.1]; exact hx d (by simp)

/-- after `in`, the text is not at its end -/
theorem inner_in (xs : List Char) (tl : List Char)
    (h : lowerStr ((xs ++ '"' :: ' ' :: tl).take 2) = ['i', 'n']) :
    (xs ++ '"' :: ' ' :: tl).drop 2 ≠ [] ∧ (xs ++ '"' :: ' ' :: tl).drop 2 ≠ ['\n'] := by
  match xs with
  | [] =>
    simp [lowerStr, lower_dq] at h
  | [a] =>
    simp [lowerStr, lower_dq] at h
  | a :: b :: rest =>
    simp only [List.cons_append, List.drop_succ_cons, List.drop_zero]
    cases rest <;> simp

/-- **no inner quote can close the string** (marker-side pattern): after an inner `"` of a value without blanks, the
rest of the text — the rest of the value, the real closing quote, a blank, the operator — is not
`\s*(not\sin|in)$` -/
theorem strCmpTail_inner (xs : List Char) (hx : ∀ c ∈ xs, isSpace c = false) (ops : List Char) :
    strCmpTail? (xs ++ '"' :: ' ' :: ops) = none := by
  have hds : dropSpaces (xs ++ '"' :: ' ' :: ops) = xs ++ '"' :: ' ' :: ops := by
    cases xs with
    | nil => exact dropSpaces_of_head _ _ (by decide)
    | cons a t => exact dropSpaces_of_head _ _ (hx a (by simp))
  unfold strCmpTail?
  simp only [hds]
  have e3 : "not".toList = ['n', 'o', 't'] := rfl
  have e2 : "in".toList = ['i', 'n'] := rfl
  have l3 : lowerStr ['n', 'o', 't'] = ['n', 'o', 't'] := by decide
  have l2 : lowerStr ['i', 'n'] = ['i', 'n'] := by decide
  rw [e3, e2]
  have hnot : ∀ o1 c r2, stripPrefixCI? ['n', 'o', 't'] (xs ++ '"' :: ' ' :: ops) = some (o1, c :: r2) →
      isSpace c = false := by
    intro o1 c r2 h
    obtain ⟨h1, h2⟩ := stripPrefixCI_some h
    rw [l3] at h1
    exact inner_not xs hx _ h1 c r2 h2.symm
  have hin : ∀ o r2, stripPrefixCI? ['i', 'n'] (xs ++ '"' :: ' ' :: ops) = some (o, r2) →
      (r2.isEmpty || r2 == ['\n']) = false := by
    intro o r2 h
    obtain ⟨h1, h2⟩ := stripPrefixCI_some h
    rw [l2] at h1
    obtain ⟨n1, n2⟩ := inner_in xs ops h1
    have h2' : r2 = List.drop 2 (xs ++ '"' :: ' ' :: ops) := h2
    rw [← h2'] at n1 n2
    cases r2 with
    | nil => exact absurd rfl n1
    | cons x t => simp only [List.isEmpty_cons, Bool.false_or]; simpa using n2
  cases h1 : stripPrefixCI? ['n', 'o', 't'] (xs ++ '"' :: ' ' :: ops) with
  | some pr =>
    obtain ⟨o1, r⟩ := pr
    cases r with
    | nil =>
      simp only []
      cases h2 : stripPrefixCI? ['i', 'n'] (xs ++ '"' :: ' ' :: ops) with
      | none => rfl
      | some pr2 => obtain ⟨o, r2⟩ := pr2; simp only [hin o r2 h2]; rfl
    | cons c r2 =>
      simp only [hnot o1 c r2 h1, Bool.false_eq_true, if_false]
      cases h2 : stripPrefixCI? ['i', 'n'] (xs ++ '"' :: ' ' :: ops) with
      | none => rfl
      | some pr2 => obtain ⟨o, r2'⟩ := pr2; simp only [hin o r2' h2]; rfl
  | none =>
    simp only []
    cases h2 : stripPrefixCI? ['i', 'n'] (xs ++ '"' :: ' ' :: ops) with
    | none => rfl
    | some pr2 => obtain ⟨o, r2⟩ := pr2; simp only [hin o r2 h2]; rfl

theorem notSpace_ne_nl {c : Char} (h : isSpace c = false) : c ≠ '\n' := by
  intro e; subst e; exact absurd h (by decide)

/-- the lazy scan of `STR_CMP_CONSTRAINT` passes over inner quotes of a value without blanks -/
theorem go_strCmpQ (ops : List Char) (o : String) (hop : strCmpTail? (' ' :: ops) = some o) :
    ∀ (post pre : List Char), pre ≠ [] → (∀ c ∈ pre ++ post, isSpace c = false) → ∀ fuel, post.length < fuel →
      matchStrCmp.go '"' (pre ++ post ++ '"' :: ' ' :: ops) pre.length fuel = some (String.ofList (pre ++ post), o) := by
  intro post
  induction post with
  | nil =>
    intro pre hne hall fuel hf
    cases fuel with
    | zero => simp at hf
    | succ fuel =>
      have hnl' : ¬ '\n' ∈ pre := fun hc => notSpace_ne_nl (hall _ (by simp [hc])) rfl
      have hnl : (pre.contains '\n') = false := by simpa using hnl'
      simp [matchStrCmp.go, hnl, hnl', hop]
  | cons c post ih =>
    intro pre hne hall fuel hf
    cases fuel with
    | zero => simp at hf
    | succ fuel =>
      have hnl' : ¬ '\n' ∈ pre := fun hc => notSpace_ne_nl (hall _ (by simp [hc])) rfl
      have hnl : (pre.contains '\n') = false := by simpa using hnl'
      have hdrop : (pre ++ c :: post ++ '"' :: ' ' :: ops).drop pre.length = c :: (post ++ '"' :: ' ' :: ops) := by
        rw [List.append_assoc, List.drop_left]; simp
      have htake : (pre ++ c :: post ++ '"' :: ' ' :: ops).take pre.length = pre := by
        rw [List.append_assoc, List.take_left]
      have hlen : ¬ pre.length > (pre ++ c :: post ++ '"' :: ' ' :: ops).length := by simp
      have hin := strCmpTail_inner post (fun d hd => hall d (by simp [hd])) ops
      have := ih (pre ++ [c]) (by simp) (by simpa using hall) fuel (by simpa using hf)
      rw [matchStrCmp.go]
      simp only [htake, hnl, hdrop, hlen, if_false, Bool.false_eq_true, hin]
      split <;> simpa using this

/-- `STR_CMP_CONSTRAINT` (marker side) on `"lit" op`, the literal free of blanks (quotes allowed) -/
theorem matchStrCmp_revQ (v : List Char) (hne : v ≠ []) (hv : ∀ c ∈ v, isSpace c = false) (ops : String)
    (gop : Generic.Op) (hop : (ops, gop) ∈ inOps) :
    matchStrCmp (revChars v ops) = some (String.ofList v, ops) := by
  obtain ⟨h1, _⟩ := inOps_facts ops gop hop
  cases v with
  | nil => exact absurd rfl hne
  | cons c cs =>
    have := go_strCmpQ ops.toList ops h1 cs [c] (by simp) (by simpa using hv)
      ((c :: (cs ++ '"' :: ' ' :: ops.toList)).length + 1) (by simp; omega)
    simp only [List.cons_append, List.nil_append, List.length_singleton] at this
    have hq : ('"' != '"' && '"' != '\'') = false := by decide
    simp only [matchStrCmp, revChars, List.cons_append, hq, Bool.false_eq_true, if_false]
    exact this

/-- **no inner quote can close the string** (generic-constraint side pattern) -/
theorem matchOpTail_inner (xs : List Char) (hx : ∀ c ∈ xs, isSpace c = false) (ops : String)
    (hops : ops = "in" ∨ ops = "not in") :
    Generic.matchOpTail (xs ++ '"' :: ' ' :: ops.toList) = none := by
  have hds : dropSpaces (xs ++ '"' :: ' ' :: ops.toList) = xs ++ '"' :: ' ' :: ops.toList := by
    cases xs with
    | nil => exact dropSpaces_of_head _ _ (by decide)
    | cons a t => exact dropSpaces_of_head _ _ (hx a (by simp))
  have q1 : Generic.ciEq '"' 'n' = false := by decide
  have q2 : Generic.ciEq '"' 'o' = false := by decide
  have q3 : Generic.ciEq '"' 't' = false := by decide
  have q4 : Generic.ciEq '"' 'i' = false := by decide
  have q5 : Generic.ciEq ' ' 'n' = false := by decide
  have q6 : Generic.ciEq ' ' 'o' = false := by decide
  have q7 : isSpace '"' = false := by decide
  have e1 : "in".toList = ['i', 'n'] := rfl
  have e2 : "not in".toList = ['n', 'o', 't', ' ', 'i', 'n'] := rfl
  unfold Generic.matchOpTail
  simp only [hds]
  match xs, hx with
  | [], _ => rcases hops with rfl | rfl <;> simp [e1, e2, q1, q2, q3, q4, q5, q6, q7, Generic.atEnd]
  | [a], _ => rcases hops with rfl | rfl <;> simp [e1, e2, q1, q2, q3, q4, q5, q6, q7, Generic.atEnd]
  | [a, b], _ => rcases hops with rfl | rfl <;> simp [e1, e2, q1, q2, q3, q4, q5, q6, q7, Generic.atEnd]
  | [a, b, c], _ => rcases hops with rfl | rfl <;> simp [e1, e2, q1, q2, q3, q4, q5, q6, q7, Generic.atEnd]
  | a :: b :: c :: d :: rest, hx =>
    have hd := hx d (by simp)
    rcases hops with rfl | rfl <;> cases rest with
    | nil => simp [e1, e2, q7, hd, Generic.atEnd]
    | cons y t => cases t <;> simp [e1, e2, q7, hd, Generic.atEnd]

theorem scanValue_litQ (ops : String) (hops : ops = "in" ∨ ops = "not in") (o : List Char)
    (hop : Generic.matchOpTail (' ' :: ops.toList) = some o) :
    ∀ (v acc : List Char), (∀ c ∈ v, isSpace c = false) → (acc ≠ [] ∨ v ≠ []) →
      Generic.scanValue '"' (v ++ '"' :: ' ' :: ops.toList) acc = some (acc.reverse ++ v, o) := by
  intro v
  induction v with
  | nil =>
    intro acc _ hne
    have hacc : acc.isEmpty = false := by
      rcases hne with h | h
      · cases acc with
        | nil => exact absurd rfl h
        | cons _ _ => rfl
      · exact absurd rfl h
    simp [Generic.scanValue, hacc, hop]
  | cons c cs ih =>
    intro acc hv _
    have hc := hv c (by simp)
    have h2 : (c == '\n') = false := by simpa using notSpace_ne_nl hc
    have hin := matchOpTail_inner cs (fun d hd => hv d (by simp [hd])) ops hops
    have := ih (c :: acc) (fun d hd => hv d (List.mem_cons_of_mem _ hd)) (Or.inl (by simp))
    simp only [List.cons_append, Generic.scanValue, hin, h2, Bool.false_eq_true, if_false]
    split <;> simpa using this

theorem revChars_PieceOkQ {sep : List Char → Option (List Char)} (hs : SepLike sep) (v : List Char)
    (hv : ∀ c ∈ v, gPlain c) (ops : String) (gop : Generic.Op) (hop : (ops, gop) ∈ inOps) :
    PieceOk sep (revChars v ops) := by
  have gq : gPlain '"' := by unfold gPlain; decide
  have gl : ∀ c : Char, c ∈ ['i', 'n', 'o', 't'] → gPlain c := by
    intro c hc; simp at hc; rcases hc with rfl | rfl | rfl | rfl <;> (unfold gPlain; decide)
  have htail : PieceOk sep (' ' :: ops.toList) := by
    rcases (inOps_facts ops gop hop).2.2.2 with rfl | rfl
    · exact PieceOk_space hs 'i' ['n'] (gl _ (by simp))
        (PieceOk_plain hs ['i', 'n'] [] (fun c hc => gl c (by simp at hc ⊢; rcases hc with rfl | rfl <;> simp)) (PieceOk_nil sep))
    · have h2 : PieceOk sep (' ' :: 'i' :: ['n']) :=
        PieceOk_space hs 'i' ['n'] (gl _ (by simp))
          (PieceOk_plain hs ['i', 'n'] [] (fun c hc => gl c (by simp at hc ⊢; rcases hc with rfl | rfl <;> simp)) (PieceOk_nil sep))
      have h3 : PieceOk sep ('n' :: 'o' :: 't' :: ' ' :: 'i' :: ['n']) :=
        PieceOk_plain hs ['n', 'o', 't'] _ (fun c hc => gl c (by simp at hc ⊢; rcases hc with rfl | rfl | rfl <;> simp)) h2
      exact PieceOk_space hs 'n' _ (gl _ (by simp)) h3
  have : revChars v ops = ('"' :: (v ++ ['"'])) ++ (' ' :: ops.toList) := by simp [revChars]
  rw [this]
  apply PieceOk_plain hs _ _ _ htail
  intro c hc
  simp at hc
  rcases hc with rfl | hc | rfl
  · exact gq
  · exact hv c hc
  · exact gq

/-- the generic parser on `"lit" in` / `"lit" not in`, the literal free of blanks, `|`, `,` (quotes allowed) -/
theorem gparseWith_revQ (v : List Char) (hne : v ≠ []) (hv : ∀ c ∈ v, gPlain c) (ops : String) (gop : Generic.Op)
    (hop : (ops, gop) ∈ inOps) :
    Generic.parseWith false (String.ofList (revChars v ops)) = .ok (.atom ⟨String.ofList v, gop, false⟩) := by
  obtain ⟨_, h2, h3, _⟩ := inOps_facts ops gop hop
  have hsc := scanValue_litQ ops (inOps_facts ops gop hop).2.2.2 ops.toList h2 v [] (fun c hc => (hv c hc).1) (Or.inr hne)
  have hps : Generic.parseSingle false (revChars v ops) = .ok ⟨String.ofList v, gop, false⟩ := by
    have hvs : Generic.strip v = v := gstrip_noSpace v (fun c hc => (hv c hc).1)
    simp only [Generic.parseSingle, Generic.matchStrCmp, revChars]
    simp [hsc, hvs, h3]
  unfold Generic.parseWith
  rw [show revChars v ops = '"' :: (v ++ '"' :: ' ' :: ops.toList) from rfl, ofList_ne_star _ _ (by decide)]
  rw [show '"' :: (v ++ '"' :: ' ' :: ops.toList) = revChars v ops from rfl]
  simp only [Bool.false_eq_true, if_false, String.toList_ofList, revChars_strip v ops gop hop,
    reSplit_of_PieceOk _ _ (revChars_PieceOkQ sepOr_like v hv ops gop hop), Generic.mapE, Generic.parseGroup,
    reSplit_of_PieceOk _ _ (revChars_PieceOkQ sepComma_like v hv ops gop hop), hps, Generic.foldIntersect]

/-- **the constructor on a reversed-operand item whose literal may hold a double quote** -/
theorem mkSingle_revQ (n v : String) (hn : n ∈ stringVarNames) (hv : GTok v) (ops : String) (gop : Generic.Op)
    (hop : (ops, gop) ∈ inOps) :
    mkSingle n (itemConstraintString ops v true) true =
      .ok ⟨aliasName n, ops, v, true, .gen (.atom ⟨v, gop, false⟩)⟩ := by
  obtain ⟨f1, f2, f3, _⟩ := stringVar_facts n hn
  have hs : itemConstraintString ops v true = String.ofList (revChars v.toList ops) :=
    str_eq_of_toList (by simp [revChars_eq])
  have hm := matchStrCmp_revQ v.toList hv.1 (fun c hc => (hv.2 c hc).1) ops gop hop
  have hp := gparseWith_revQ v.toList hv.1 hv.2 ops gop hop
  simp only [String.ofList_toList] at hm hp
  have hprep : leafPrepare n (itemConstraintString ops v true) true =
      .ok { name := aliasName n, op := ops, value := v, swapped := true,
            cstr := itemConstraintString ops v true, kind := .generic } := by
    have f3' : n ∉ Gen.pythonVersionMarkers := by simpa using f3
    unfold leafPrepare
    simp [revChars_eq, hm, f1, f3, f3']
  rw [hs] at hprep ⊢
  simp only [mkSingle, hprep, bind, Except.bind, parseByKind, Generic.parseConstraint, hp, Except.map,
    pure, Except.pure]

end Poetry.Marker
