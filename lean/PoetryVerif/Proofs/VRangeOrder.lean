/-
The version order as a Mathlib `LinearOrder` on the comparison key (`VK`), the release key
`relKey`, and the facts about `firstDevrelease`, `withoutLocal`, `withoutPostrelease` that the
range proofs use (helper lemmas for C04, C05, C12, C15).  After this file the range proofs never
unfold the key again: these lemmas are the "VersionLike" interface of DESIGN §2.2.
-/
import PoetryVerif.Proofs.VersionOrder
import PoetryVerif.Model.VRange
import Mathlib.Order.Defs.LinearOrder

set_option linter.unusedSimpArgs false
set_option linter.unusedVariables false

namespace Poetry
open Version Std

attribute [local instance] lexOrd

/-- the comparison key, wrapped so that it carries exactly one order (the lexicographic one the
Python tuple comparison uses) -/
structure VK where
  k : Key

theorem VK.ext' {a b : VK} (h : a.k = b.k) : a = b := by
  cases a; cases b; simp_all

instance : LinearOrder VK where
  le a b := compare a.k b.k ≠ .gt
  lt a b := compare a.k b.k = .lt
  le_refl a := by simp [ReflCmp.compare_self]
  le_trans a b c h1 h2 := by
    have h1' : (compare a.k b.k).isLE = true := by
      cases h : compare a.k b.k <;> simp_all [Ordering.isLE]
    have h2' : (compare b.k c.k).isLE = true := by
      cases h : compare b.k c.k <;> simp_all [Ordering.isLE]
    have := TransCmp.isLE_trans h1' h2'
    cases h : compare a.k c.k <;> simp_all [Ordering.isLE]
  lt_iff_le_not_ge a b := by
    show compare a.k b.k = .lt ↔ (compare a.k b.k ≠ .gt ∧ ¬ compare b.k a.k ≠ .gt)
    rw [OrientedCmp.eq_swap (cmp := compare) (a := b.k) (b := a.k)]
    cases compare a.k b.k <;> simp [Ordering.swap]
  le_antisymm a b h1 h2 := by
    apply VK.ext'
    apply LawfulEqCmp.eq_of_compare (cmp := compare)
    have h2' : compare b.k a.k ≠ .gt := h2
    rw [OrientedCmp.eq_swap (cmp := compare) (a := b.k) (b := a.k)] at h2'
    have h1' : compare a.k b.k ≠ .gt := h1
    cases h : compare a.k b.k <;> simp_all [Ordering.swap]
  le_total a b := by
    show compare a.k b.k ≠ .gt ∨ compare b.k a.k ≠ .gt
    rw [OrientedCmp.eq_swap (cmp := compare) (a := b.k) (b := a.k)]
    cases compare a.k b.k <;> simp [Ordering.swap]
  toDecidableLE := fun a b => inferInstanceAs (Decidable (compare a.k b.k ≠ .gt))
  toDecidableLT := fun a b => inferInstanceAs (Decidable (compare a.k b.k = .lt))

/-- the key of a version as an element of the linear order -/
def vk (v : Version) : VK := ⟨key v⟩

theorem vk_lt_iff (a b : Version) : vk a < vk b ↔ cmp a b = .lt := Iff.rfl

theorem vk_le_iff (a b : Version) : vk a ≤ vk b ↔ cmp a b ≠ .gt := Iff.rfl

theorem vk_eq_iff (a b : Version) : vk a = vk b ↔ cmp a b = .eq := by
  rw [cmp_eq_iff_key]
  constructor
  · intro h; exact congrArg VK.k h
  · intro h; exact VK.ext' h

theorem vk_eq_iff_key (a b : Version) : vk a = vk b ↔ key a = key b := by
  rw [vk_eq_iff, cmp_eq_iff_key]

theorem lt_iff (a b : Version) : Version.lt a b = true ↔ vk a < vk b := by
  unfold Version.lt; rw [beq_iff_eq]; exact Iff.rfl

theorem gt_iff (a b : Version) : Version.gt a b = true ↔ vk b < vk a := by
  unfold Version.gt; rw [beq_iff_eq, cmp_gt_iff_lt]; exact Iff.rfl

theorem eqv_iff (a b : Version) : Version.eqv a b = true ↔ vk a = vk b := by
  unfold Version.eqv; rw [beq_iff_eq, vk_eq_iff]

theorem lt_false_iff (a b : Version) : Version.lt a b = false ↔ vk b ≤ vk a := by
  rw [← Bool.not_eq_true, lt_iff]; exact _root_.not_lt

theorem gt_false_iff (a b : Version) : Version.gt a b = false ↔ vk a ≤ vk b := by
  rw [← Bool.not_eq_true, gt_iff]; exact _root_.not_lt

theorem eqv_false_iff (a b : Version) : Version.eqv a b = false ↔ vk a ≠ vk b := by
  rw [← Bool.not_eq_true, eqv_iff]

/-! ### the release key -/

/-- (epoch, release without trailing zeros): the part of the key PEP 440's exclusive-comparison
rules speak about ("the same release") -/
def relKey (v : Version) : Nat × List Nat := (v.epoch, stripZeros v.release)

/-- comparison of the release keys alone -/
def relCmp (a b : Nat × List Nat) : Ordering := (compare a.1 b.1).then (compare a.2 b.2)

theorem relCmp_eq_iff (a b : Nat × List Nat) : relCmp a b = .eq ↔ a = b := by
  obtain ⟨a1, a2⟩ := a; obtain ⟨b1, b2⟩ := b
  simp only [relCmp, Ordering.then_eq_eq, Prod.mk.injEq]
  rw [Std.compare_eq_iff_eq, Std.compare_eq_iff_eq]

/-- versions of different releases are ordered by their release keys alone -/
theorem cmp_of_relKey_ne (a b : Version) (h : relKey a ≠ relKey b) :
    cmp a b = relCmp (relKey a) (relKey b) := by
  have hne : relCmp (relKey a) (relKey b) ≠ .eq := fun e => h ((relCmp_eq_iff _ _).1 e)
  unfold Version.cmp cmpKey key
  simp only [compare_pair]
  simp only [relCmp, relKey] at hne ⊢
  cases h1 : compare a.epoch b.epoch <;> simp [h1, Ordering.then] at hne ⊢
  cases h2 : compare (stripZeros a.release) (stripZeros b.release) <;> simp [h2] at hne ⊢
  exact absurd (Std.compare_eq_iff_eq.1 h2) hne

theorem relKey_of_vk_eq {a b : Version} (h : vk a = vk b) : relKey a = relKey b := by
  have := (vk_eq_iff_key a b).1 h
  simp only [key, Prod.mk.injEq] at this
  simp [relKey, this.1, this.2.1]

theorem vk_ne_of_relKey_ne {a b : Version} (h : relKey a ≠ relKey b) : vk a ≠ vk b :=
  fun e => h (relKey_of_vk_eq e)

/-- congruence: replacing the left operand by one of the same release does not change the
comparison with a version of a different release -/
theorem lt_congr_left {a a' b : Version} (h : relKey a = relKey a') (hne : relKey a ≠ relKey b) :
    (vk a < vk b ↔ vk a' < vk b) := by
  rw [vk_lt_iff, vk_lt_iff, cmp_of_relKey_ne a b hne, cmp_of_relKey_ne a' b (h ▸ hne), h]

theorem lt_congr_right {a a' b : Version} (h : relKey a = relKey a') (hne : relKey a ≠ relKey b) :
    (vk b < vk a ↔ vk b < vk a') := by
  have hne' : relKey b ≠ relKey a := fun e => hne e.symm
  rw [vk_lt_iff, vk_lt_iff, cmp_of_relKey_ne b a hne', cmp_of_relKey_ne b a' (h ▸ hne'), h]

/-! ### derived versions keep the release key -/

@[simp] theorem relKey_firstDev (v : Version) : relKey v.firstDevrelease = relKey v := rfl
@[simp] theorem relKey_withoutLocal (v : Version) : relKey v.withoutLocal = relKey v := rfl
@[simp] theorem relKey_withoutPost (v : Version) : relKey v.withoutPostrelease = relKey v := by
  unfold withoutPostrelease; split <;> rfl
@[simp] theorem isLocal_firstDev (v : Version) : v.firstDevrelease.isLocal = false := rfl
@[simp] theorem isLocal_withoutLocal (v : Version) : v.withoutLocal.isLocal = false := rfl

/-! ### the public key (everything but the local label) -/

def pubKey (v : Version) : Nat × (List Nat × (TagK × (TagK × TagK))) :=
  (v.epoch, stripZeros v.release, preK v, postK v, devK v)

theorem pubKey_of_vk_eq {a b : Version} (h : vk a = vk b) : pubKey a = pubKey b := by
  have := (vk_eq_iff_key a b).1 h
  simp only [key, Prod.mk.injEq] at this
  simp [pubKey, this.1, this.2.1, this.2.2.1, this.2.2.2.1, this.2.2.2.2.1]

@[simp] theorem pubKey_withoutLocal (v : Version) : pubKey v.withoutLocal = pubKey v := rfl

theorem key_eq_pub (v : Version) :
    key v = ((pubKey v).1, (pubKey v).2.1, (pubKey v).2.2.1, (pubKey v).2.2.2.1, (pubKey v).2.2.2.2, locK v.loc) := rfl

/-- a strict comparison decided inside the public key -/
theorem lt_of_pubKey_lt {a b : Version} (h : compare (pubKey a) (pubKey b) = .lt) : vk a < vk b := by
  rw [vk_lt_iff]
  unfold Version.cmp cmpKey
  rw [key_eq_pub a, key_eq_pub b]
  generalize pubKey a = pa at *
  generalize pubKey b = pb at *
  obtain ⟨a1, a2, a3, a4, a5⟩ := pa
  obtain ⟨b1, b2, b3, b4, b5⟩ := pb
  simp only [compare_pair] at h ⊢
  cases h1 : compare a1 b1 <;> simp [h1, Ordering.then] at h ⊢
  cases h2 : compare a2 b2 <;> simp [h2, Ordering.then] at h ⊢
  cases h3 : compare a3 b3 <;> simp [h3, Ordering.then] at h ⊢
  cases h4 : compare a4 b4 <;> simp [h4, Ordering.then] at h ⊢
  cases h5 : compare a5 b5 <;> simp [h5, Ordering.then] at h ⊢

theorem isUnstable_false {v : Version} (h : v.isUnstable = false) : v.pre = none ∧ v.dev = none := by
  simp [isUnstable, isPrerelease, isDevrelease] at h
  exact h

/-- the first dev-release of a stable version sorts strictly below every version with the same
public key (i.e. below the version itself and all its local builds) -/
theorem firstDev_lt_pub {M w : Version} (hst : M.isUnstable = false) (hw : pubKey w = pubKey M) :
    vk M.firstDevrelease < vk w := by
  apply lt_of_pubKey_lt
  rw [hw]
  obtain ⟨hp, hd⟩ := isUnstable_false hst
  simp only [pubKey, firstDevrelease, mk', compare_pair, preK, postK, devK, hp, hd]
  cases hpost : M.post with
  | none =>
    simp [compare_self_eq, compare_negInf_inf, Ordering.then]
  | some t =>
    simp [compare_self_eq, compare_devTag_infTag, Ordering.then]

theorem firstDev_lt {M : Version} (hst : M.isUnstable = false) : vk M.firstDevrelease < vk M :=
  firstDev_lt_pub hst rfl

/-! ### key equality and the predicates -/

theorem isPost_of_vk_eq {a b : Version} (h : vk a = vk b) : a.isPostrelease = b.isPostrelease := by
  have := (vk_eq_iff_key a b).1 h
  simp only [key, Prod.mk.injEq] at this
  have hp := this.2.2.2.1
  unfold postK at hp
  unfold isPostrelease
  cases ha : a.post <;> cases hb : b.post <;> simp [ha, hb, negInfTagK, tagK, NumK.negInf, NumK.fin] at hp ⊢

theorem isLocal_of_vk_eq {a b : Version} (ha : a.wf = true) (hb : b.wf = true) (h : vk a = vk b) :
    a.isLocal = b.isLocal := by
  have hk := (vk_eq_iff_key a b).1 h
  simp only [key, Prod.mk.injEq] at hk
  have hl := hk.2.2.2.2.2
  unfold isLocal
  cases hla : a.loc <;> cases hlb : b.loc <;> simp
  · rename_i ps
    have := noLocal_lt_local ps (wf_loc hb hlb)
    rw [hla, hlb] at hl
    rw [hl, compare_self_eq] at this
    cases this
  · rename_i ps
    have := noLocal_lt_local ps (wf_loc ha hla)
    rw [hla, hlb] at hl
    rw [← hl, compare_self_eq] at this
    cases this

/-- dropping the local label of a version without one does not change the key -/
theorem vk_withoutLocal_of_not_local {v : Version} (h : v.isLocal = false) : vk v.withoutLocal = vk v := by
  rw [vk_eq_iff_key]
  simp [isLocal] at h
  simp [key, withoutLocal, mk', preK, postK, devK, h]

theorem vk_withoutPost_of_not_post {v : Version} (h : v.isPostrelease = false) : v.withoutPostrelease = v := by
  simp [withoutPostrelease, h]

end Poetry
