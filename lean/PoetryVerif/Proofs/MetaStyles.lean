/-
C14: the two pyproject table styles (`[project]` + dynamic `[tool.poetry]` keys vs. legacy `[tool.poetry]`)
configure the same package, up to `requires_python`, and hence the same core metadata.
-/
import PoetryVerif.Model.Meta

namespace Poetry.Meta
open Poetry

/-- what a project declares, independent of the table style it is written in -/
structure Common where
  name : String
  version : String
  description : String
  authors : List Person
  maintainers : List Person
  license : Option String          -- SPDX id or free text, as written in either style
  keywords : List String
  classifiers : List String        -- dynamic classifiers: [tool.poetry].classifiers in both styles
  homepage : Option String
  repository : Option String
  documentation : Option String
  customUrls : List (String × String)
  python : Option String           -- the range, written as requires-python resp. dependencies.python
  readme : Option String           -- one readme path

/-- the well-known `[project.urls]` entries, in the order they are written -/
def Common.specialUrls (c : Common) : List (String × String) :=
  (match c.homepage with | some h => [("Homepage", h)] | none => []) ++
  (match c.repository with | some r => [("Repository", r)] | none => []) ++
  (match c.documentation with | some d => [("Documentation", d)] | none => [])

/-- PEP 621 spelling -/
def Common.toProject (c : Common) : ProjectT × ToolT :=
  ({ name := some c.name, version := some c.version,
     description := if c.description = "" then none else some c.description,
     authors := c.authors, maintainers := c.maintainers,
     license := c.license.map .str,
     requiresPython := c.python,
     keywords := c.keywords,
     classifiers := [],
     urls := c.specialUrls ++ c.customUrls,
     readme := c.readme.map .path },
   { classifiers := c.classifiers })

/-- legacy `[tool.poetry]` spelling -/
def Common.toLegacy (c : Common) : ToolT :=
  { name := some c.name, version := some c.version, description := some c.description,
    authors := c.authors.map Person.text, maintainers := c.maintainers.map Person.text,
    license := c.license, python := c.python, keywords := c.keywords, classifiers := c.classifiers,
    homepage := c.homepage, repository := c.repository, documentation := c.documentation,
    urls := if c.customUrls.isEmpty then none else some c.customUrls,
    readmes := c.readme.toList }

/-! ## `configure`, field by field -/

/-- the body of the `for name, url in project["urls"].items()` loop -/
def urlStep (a : UrlAcc) (kv : String × String) : UrlAcc :=
  let l := lowerAscii kv.1
  if l = "homepage" then { a with homepage := some kv.2 }
  else if l = "repository" then { a with repository := some kv.2 }
  else if l = "documentation" then { a with documentation := some kv.2 }
  else { a with custom := dictSet a.custom kv.1 kv.2 }

def urlAccOf (proj : ProjectT) (tool : ToolT) : UrlAcc :=
  if proj.urls.isEmpty then
    { homepage := tool.homepage, repository := tool.repository, documentation := tool.documentation,
      custom := tool.urls.getD [] }
  else proj.urls.foldl urlStep {}

def readmeTriple (proj : ProjectT) (tool : ToolT) (_rs : Option String) :
    List String × Option String × Option String :=
  match proj.readme with
  | some (.path p) => if p = "" then (tool.readmes.filter (· ≠ ""), none, none) else ([p], none, none)
  | some (.file p ct) => ([p], some ct, none)
  | some (.text t ct) => ([], some ct, some t)
  | none => (tool.readmes.filter (· ≠ ""), none, none)

def rawLicenseOf (proj : ProjectT) (tool : ToolT) : String :=
  let projLicTruthy : Option ProjLicense :=
    match proj.license with
    | some (.str s) => if s = "" then none else some (.str s)
    | some (.table none none) => none
    | other => other
  match projLicTruthy with
  | some (.str s) => s
  | some (.table t f) => (match truthy t with | some x => x | none => (f.getD ""))
  | none => tool.license.getD ""

section fields
variable (proj : ProjectT) (tool : ToolT) (spdx : String → Option License) (r : Option String)
  (e rd : List String)

theorem configure_prettyName : (configure proj tool spdx r e rd).prettyName =
    (match truthy proj.name with | some n => n | none => tool.name.getD "non-package-mode") := rfl
theorem configure_version : (configure proj tool spdx r e rd).version =
    (match truthy proj.version with | some v => v | none => tool.version.getD "0") := rfl
theorem configure_authors : (configure proj tool spdx r e rd).authors =
    (if proj.authors.isEmpty then tool.authors else proj.authors.map Person.text) := rfl
theorem configure_maintainers : (configure proj tool spdx r e rd).maintainers =
    (if proj.maintainers.isEmpty then tool.maintainers else proj.maintainers.map Person.text) := rfl
theorem configure_description : (configure proj tool spdx r e rd).description =
    (match truthy proj.description with | some d => d | none => tool.description.getD "") := rfl
theorem configure_license : (configure proj tool spdx r e rd).license =
    (if rawLicenseOf proj tool = "" then none else spdx (rawLicenseOf proj tool)) := rfl
theorem configure_requiresPython : (configure proj tool spdx r e rd).requiresPython =
    proj.requiresPython.getD "*" := rfl
theorem configure_pythonVersions : (configure proj tool spdx r e rd).pythonVersions =
    (match tool.python with | some p => p | none => proj.requiresPython.getD "*") := rfl
theorem configure_keywords : (configure proj tool spdx r e rd).keywords =
    (if proj.keywords.isEmpty then tool.keywords else proj.keywords) := rfl
theorem configure_classifiers : (configure proj tool spdx r e rd).classifiers =
    (if proj.classifiers.isEmpty then tool.classifiers else proj.classifiers) := rfl
theorem configure_dynamicClassifiers : (configure proj tool spdx r e rd).dynamicClassifiers =
    proj.classifiers.isEmpty := rfl
theorem configure_homepage : (configure proj tool spdx r e rd).homepage = (urlAccOf proj tool).homepage := rfl
theorem configure_repositoryUrl : (configure proj tool spdx r e rd).repositoryUrl =
    (urlAccOf proj tool).repository := rfl
theorem configure_documentationUrl : (configure proj tool spdx r e rd).documentationUrl =
    (urlAccOf proj tool).documentation := rfl
theorem configure_customUrls : (configure proj tool spdx r e rd).customUrls = (urlAccOf proj tool).custom := rfl
theorem configure_readmes : (configure proj tool spdx r e rd).readmes = (readmeTriple proj tool r).1 := rfl
theorem configure_readmeContentType : (configure proj tool spdx r e rd).readmeContentType =
    (readmeTriple proj tool r).2.1 := rfl
theorem configure_readmeContent : (configure proj tool spdx r e rd).readmeContent =
    (readmeTriple proj tool r).2.2 := rfl
theorem configure_extras : (configure proj tool spdx r e rd).extras = e := rfl
theorem configure_requiresDist : (configure proj tool spdx r e rd).requiresDist = rd := rfl
end fields


/-! ## the url loop -/

theorem lower_Homepage : lowerAscii "Homepage" = "homepage" := by decide
theorem lower_Repository : lowerAscii "Repository" = "repository" := by decide
theorem lower_Documentation : lowerAscii "Documentation" = "documentation" := by decide

theorem dictSet_fresh (d : List (String × String)) (k v : String) (h : k ∉ d.map (·.1)) :
    dictSet d k v = d ++ [(k, v)] := by
  unfold dictSet
  have : d.any (·.1 = k) = false := by
    simp only [List.any_eq_false]
    intro x hx
    simp only [decide_eq_true_eq]
    intro e
    exact h (List.mem_map.mpr ⟨x, hx, e⟩)
  simp [this]

theorem foldl_dictSet_fresh (cu d : List (String × String))
    (h : (d.map (·.1) ++ cu.map (·.1)).Nodup) :
    cu.foldl (fun d kv => dictSet d kv.1 kv.2) d = d ++ cu := by
  induction cu generalizing d with
  | nil => simp
  | cons kv cu ih =>
    simp only [List.foldl_cons]
    have hk : kv.1 ∉ d.map (·.1) := by
      intro hm
      rw [List.nodup_append] at h
      exact h.2.2 _ hm _ (by simp) rfl
    rw [dictSet_fresh d _ _ hk, ih]
    · simp
    · simpa [List.map_append] using h

theorem foldl_urlStep_custom (cu : List (String × String)) (a : UrlAcc)
    (h : ∀ kv ∈ cu, lowerAscii kv.1 ∉ ["homepage", "repository", "documentation"]) :
    cu.foldl urlStep a = { a with custom := cu.foldl (fun d kv => dictSet d kv.1 kv.2) a.custom } := by
  induction cu generalizing a with
  | nil => simp
  | cons kv cu ih =>
    have hk := h kv List.mem_cons_self
    simp only [List.mem_cons, List.not_mem_nil, or_false, not_or] at hk
    simp only [List.foldl_cons]
    rw [ih _ (fun x hx => h x (List.mem_cons_of_mem _ hx))]
    simp [urlStep, hk.1, hk.2.1, hk.2.2]

theorem foldl_urlStep_special (c : Common) :
    c.specialUrls.foldl urlStep {} =
      { homepage := c.homepage, repository := c.repository, documentation := c.documentation, custom := [] } := by
  unfold Common.specialUrls
  cases c.homepage <;> cases c.repository <;> cases c.documentation <;>
    simp [urlStep, lower_Homepage, lower_Repository, lower_Documentation]

theorem urlAccOf_eq_foldl (proj : ProjectT) (tool : ToolT) (h1 : tool.homepage = none)
    (h2 : tool.repository = none) (h3 : tool.documentation = none) (h4 : tool.urls = none) :
    urlAccOf proj tool = proj.urls.foldl urlStep {} := by
  unfold urlAccOf
  cases hu : proj.urls with
  | nil => simp [h1, h2, h3, h4]
  | cons x xs => simp

theorem urlAccOf_toProject (c : Common)
    (hk : ∀ kv ∈ c.customUrls, lowerAscii kv.1 ∉ ["homepage", "repository", "documentation"])
    (hn : (c.customUrls.map (·.1)).Nodup) :
    urlAccOf c.toProject.1 c.toProject.2 =
      { homepage := c.homepage, repository := c.repository, documentation := c.documentation,
        custom := c.customUrls } := by
  have hfold : (c.specialUrls ++ c.customUrls).foldl urlStep {} =
      { homepage := c.homepage, repository := c.repository, documentation := c.documentation,
        custom := c.customUrls } := by
    rw [List.foldl_append, foldl_urlStep_special, foldl_urlStep_custom _ _ hk,
      foldl_dictSet_fresh _ _ (by simpa using hn)]
    simp
  rw [← hfold]
  exact urlAccOf_eq_foldl c.toProject.1 c.toProject.2 rfl rfl rfl rfl

theorem urlAccOf_toLegacy (c : Common) :
    urlAccOf {} c.toLegacy =
      { homepage := c.homepage, repository := c.repository, documentation := c.documentation,
        custom := c.customUrls } := by
  unfold urlAccOf
  simp only [Common.toLegacy, List.isEmpty_nil, if_true]
  cases h : c.customUrls <;> simp


/-! ## both styles configure the same package -/

theorem Pkg.ext' (p q : Pkg)
    (h1 : p.prettyName = q.prettyName) (h2 : p.version = q.version) (h3 : p.authors = q.authors)
    (h4 : p.maintainers = q.maintainers) (h5 : p.description = q.description) (h6 : p.license = q.license)
    (h7 : p.requiresPython = q.requiresPython) (h8 : p.pythonVersions = q.pythonVersions)
    (h9 : p.keywords = q.keywords) (h10 : p.classifiers = q.classifiers)
    (h11 : p.dynamicClassifiers = q.dynamicClassifiers) (h12 : p.homepage = q.homepage)
    (h13 : p.repositoryUrl = q.repositoryUrl) (h14 : p.documentationUrl = q.documentationUrl)
    (h15 : p.customUrls = q.customUrls) (h16 : p.readmeContent = q.readmeContent)
    (h17 : p.readmeContentType = q.readmeContentType) (h18 : p.readmes = q.readmes)
    (h19 : p.extras = q.extras) (h20 : p.requiresDist = q.requiresDist) : p = q := by
  cases p; cases q; simp_all

/-- the hypotheses under which the two spellings of `c` are interchangeable -/
structure Common.Wf (c : Common) : Prop where
  name_ne : c.name ≠ ""
  version_ne : c.version ≠ ""
  custom_not_special : ∀ kv ∈ c.customUrls, lowerAscii kv.1 ∉ ["homepage", "repository", "documentation"]
  custom_keys_nodup : (c.customUrls.map (·.1)).Nodup

/-- `requires_python` is the one field on which the two styles differ -/
theorem project_requiresPython (c : Common) (spdx : String → Option License) (extras rd : List String) :
    (configure c.toProject.1 c.toProject.2 spdx none extras rd).requiresPython = c.python.getD "*" ∧
    (configure {} c.toLegacy spdx none extras rd).requiresPython = "*" := ⟨rfl, rfl⟩

theorem project_eq_legacy_pkg (c : Common) (spdx : String → Option License) (extras rd : List String)
    (hname : c.name ≠ "") (hver : c.version ≠ "")
    (hk : ∀ kv ∈ c.customUrls, lowerAscii kv.1 ∉ ["homepage", "repository", "documentation"])
    (hn : (c.customUrls.map (·.1)).Nodup) :
    { configure c.toProject.1 c.toProject.2 spdx none extras rd with requiresPython := "*" } =
      configure {} c.toLegacy spdx none extras rd := by
  have hu := urlAccOf_toProject c hk hn
  have hl := urlAccOf_toLegacy c
  apply Pkg.ext'
  · simp [configure_prettyName, Common.toProject, Common.toLegacy, truthy, hname]
  · simp [configure_version, Common.toProject, Common.toLegacy, truthy, hver]
  · simp only [configure_authors, Common.toProject, Common.toLegacy]
    cases c.authors <;> simp
  · simp only [configure_maintainers, Common.toProject, Common.toLegacy]
    cases c.maintainers <;> simp
  · simp only [configure_description, Common.toProject, Common.toLegacy]
    by_cases hd : c.description = "" <;> simp [truthy, hd]
  · simp only [configure_license, rawLicenseOf, Common.toProject, Common.toLegacy]
    cases hlic : c.license with
    | none => simp
    | some s => by_cases hs : s = "" <;> simp [hs]
  · rfl
  · simp only [configure_pythonVersions, Common.toProject, Common.toLegacy]
    cases c.python <;> simp
  · simp only [configure_keywords, Common.toProject, Common.toLegacy]
    cases c.keywords <;> simp
  · simp [configure_classifiers, Common.toProject, Common.toLegacy]
  · simp [configure_dynamicClassifiers, Common.toProject]
  · show (configure c.toProject.1 c.toProject.2 spdx none extras rd).homepage = _
    rw [configure_homepage, configure_homepage, hu, hl]
  · show (configure c.toProject.1 c.toProject.2 spdx none extras rd).repositoryUrl = _
    rw [configure_repositoryUrl, configure_repositoryUrl, hu, hl]
  · show (configure c.toProject.1 c.toProject.2 spdx none extras rd).documentationUrl = _
    rw [configure_documentationUrl, configure_documentationUrl, hu, hl]
  · show (configure c.toProject.1 c.toProject.2 spdx none extras rd).customUrls = _
    rw [configure_customUrls, configure_customUrls, hu, hl]
  · simp only [configure_readmeContent, readmeTriple, Common.toProject, Common.toLegacy]
    cases c.readme with
    | none => simp
    | some s => by_cases hs : s = "" <;> simp [hs]
  · simp only [configure_readmeContentType, readmeTriple, Common.toProject, Common.toLegacy]
    cases c.readme with
    | none => simp
    | some s => by_cases hs : s = "" <;> simp [hs]
  · simp only [configure_readmes, readmeTriple, Common.toProject, Common.toLegacy]
    cases c.readme with
    | none => simp
    | some s => by_cases hs : s = "" <;> simp [hs]
  · rfl
  · rfl


/-! ## … and the same core metadata -/

/-- what `Metadata.from_package` puts into `Requires-Python` -/
def Pkg.metaRequiresPython (p : Pkg) (fp : String) : Option String :=
  if p.requiresPython ≠ "*" then some p.requiresPython
  else if p.pythonVersions ≠ "*" then some fp
  else none

/-- `requires_python` reaches the metadata only through `Requires-Python` -/
theorem toMeta_forget_requiresPython (p : Pkg) (texts : List String) (fp : String)
    (h : p.metaRequiresPython fp = ({ p with requiresPython := "*" } : Pkg).metaRequiresPython fp) :
    p.toMeta texts fp = ({ p with requiresPython := "*" } : Pkg).toMeta texts fp := by
  simp only [Pkg.metaRequiresPython] at h
  simp only [Pkg.toMeta, Pkg.allClassifiers, Pkg.classifierPython, Pkg.urls]
  rw [h]

theorem project_eq_legacy_meta (c : Common) (spdx : String → Option License) (extras rd : List String)
    (texts : List String) (fp : String)
    (hname : c.name ≠ "") (hver : c.version ≠ "")
    (hk : ∀ kv ∈ c.customUrls, lowerAscii kv.1 ∉ ["homepage", "repository", "documentation"])
    (hn : (c.customUrls.map (·.1)).Nodup)
    (hfp : ∀ r, c.python = some r → r ≠ "*" → fp = r) :
    (configure c.toProject.1 c.toProject.2 spdx none extras rd).toMeta texts fp =
      (configure {} c.toLegacy spdx none extras rd).toMeta texts fp := by
  rw [← project_eq_legacy_pkg c spdx extras rd hname hver hk hn]
  apply toMeta_forget_requiresPython
  cases hp : c.python with
  | none =>
    simp [Pkg.metaRequiresPython, configure_requiresPython, configure_pythonVersions, Common.toProject, hp]
  | some r =>
    by_cases hr : r = "*"
    · simp [Pkg.metaRequiresPython, configure_requiresPython, configure_pythonVersions, Common.toProject, hp, hr]
    · simp [Pkg.metaRequiresPython, configure_requiresPython, configure_pythonVersions, Common.toProject, hp, hr,
        hfp r hp hr]

/-- the same, with the canonical-spelling hypothesis as stated in the property -/
theorem project_eq_legacy_meta' (c : Common) (spdx : String → Option License) (extras rd : List String)
    (texts : List String) (fp : String) (hw : c.Wf) (hfp : ∀ r, c.python = some r → fp = r) :
    (configure c.toProject.1 c.toProject.2 spdx none extras rd).toMeta texts fp =
      (configure {} c.toLegacy spdx none extras rd).toMeta texts fp :=
  project_eq_legacy_meta c spdx extras rd texts fp hw.name_ne hw.version_ne hw.custom_not_special
    hw.custom_keys_nodup (fun r hr _ => hfp r hr)

/-! ## a concrete instance -/

def Common.demo : Common :=
  { name := "demo-pkg", version := "1.2.3", description := "A demo",
    authors := [{ name := some "Ada Lovelace", email := some "ada@example.org" }, { name := some "Bob", email := none }],
    maintainers := [{ name := none, email := some "m@example.org" }],
    license := some "MIT", keywords := ["a", "b"],
    classifiers := ["Topic :: Software Development :: Build Tools"],
    homepage := some "https://example.org", repository := none,
    documentation := some "https://example.org/docs",
    customUrls := [("Changelog", "https://example.org/changes"), ("Issues", "https://example.org/issues")],
    python := some ">=3.8", readme := some "README.md" }

example : Common.demo.Wf :=
  { name_ne := by decide, version_ne := by decide,
    custom_not_special := by decide, custom_keys_nodup := by decide }

example (spdx : String → Option License) (extras rd texts : List String) :
    (configure Common.demo.toProject.1 Common.demo.toProject.2 spdx none extras rd).toMeta texts ">=3.8" =
      (configure {} Common.demo.toLegacy spdx none extras rd).toMeta texts ">=3.8" :=
  project_eq_legacy_meta' _ _ _ _ _ _
    { name_ne := by decide, version_ne := by decide,
      custom_not_special := by decide, custom_keys_nodup := by decide }
    (by intro r hr; simp [Common.demo] at hr; exact hr)

end Poetry.Meta
