/-
Text level of the constraint round trip (helper lemmas for C15): what `parse_single_constraint` does with
`op ++ text` for the text of a version that re-parses to itself (`TextOK`), stated on characters.
Re-uses the character / recogniser lemmas of the C06 development (`Proofs/MarkerLeafVersionText.lean`).
-/
import PoetryVerif.Proofs.MarkerLeafVersionNotIn
import PoetryVerif.Model.VPrint

set_option linter.unusedSimpArgs false
set_option linter.unusedVariables false
set_option linter.unnecessarySeqFocus false

namespace Poetry
open Poetry.Marker
open Version

/-! ### the characters a version text is made of -/

/-- letters, digits and `. - _ + !` -/
def vchar (c : Char) : Bool :=
  isDigit c || isLowerAlpha c || ('A' ≤ c && c ≤ 'Z') || c == '.' || c == '-' || c == '_' || c == '+' || c == '!'

theorem vchar_toNat (c : Char) (h : vchar c = true) :
    (48 ≤ c.toNat ∧ c.toNat ≤ 57) ∨ (97 ≤ c.toNat ∧ c.toNat ≤ 122) ∨ (65 ≤ c.toNat ∧ c.toNat ≤ 90) ∨
    c.toNat = 46 ∨ c.toNat = 45 ∨ c.toNat = 95 ∨ c.toNat = 43 ∨ c.toNat = 33 := by
  simp only [vchar, isDigit, isLowerAlpha, Bool.or_eq_true, Bool.and_eq_true, decide_eq_true_eq, char_le_iff,
    beq_iff_eq] at h
  rcases h with ((((((h | h) | h) | h) | h) | h) | h) | h
  · exact Or.inl h
  · exact Or.inr (Or.inl h)
  · exact Or.inr (Or.inr (Or.inl h))
  · subst h; decide
  · subst h; decide
  · subst h; decide
  · subst h; decide
  · subst h; decide

theorem vchar_ne (c x : Char) (h : vchar c = true) (hx : vchar x = false) : c ≠ x := by
  intro e; subst e; rw [h] at hx; cases hx

theorem vchar_not_space (c : Char) (h : vchar c = true) : isSpace c = false := by
  have := vchar_toNat c h
  simp [isSpace]
  omega

theorem vchar_plain (c : Char) (h : vchar c = true) : vPlain c :=
  ⟨vchar_not_space c h, vchar_ne c '|' h (by decide), vchar_ne c ',' h (by decide)⟩

theorem vchar_badPrev (c : Char) (h : vchar c = true) : VParser.badPrev c = false := by
  have h1 := vchar_ne c '^' h (by decide)
  have h2 := vchar_ne c '~' h (by decide)
  have h3 := vchar_ne c '=' h (by decide)
  have h4 := vchar_ne c '>' h (by decide)
  have h5 := vchar_ne c '<' h (by decide)
  have h6 := vchar_ne c ' ' h (by decide)
  have h7 := vchar_ne c ',' h (by decide)
  simp [VParser.badPrev, h1, h2, h3, h4, h5, h6, h7]

theorem digit_vchar (c : Char) (h : isDigit c = true) : vchar c = true := by simp [vchar, h]

/-! ### a version whose text re-parses to itself -/

/-- **the text invariant of the round trip**: the text of the version is a digit-headed run of version
characters that `VERSION_PATTERN` consumes entirely, giving back the same fields; and it does not end in `-`
(a `-` in front of the `,` defeats the and-separator's `(?<!-)`). -/
structure TextOK (v : Version) : Prop where
  body : Version.parseBody "" (v.text.toList.map lowerChar) = some ({ v with text := "" }, [])
  chars : ∀ c ∈ v.text.toList, vchar c = true
  head : ∃ d ds, v.text.toList = d :: ds ∧ isDigit d = true
  last : ∃ pre d, v.text.toList = pre ++ [d] ∧ d ≠ '-'

theorem parseBody_text (t : String) (s : List Char) :
    Version.parseBody t s = (Version.parseBody "" s).map (fun p => ({ p.1 with text := t }, p.2)) := by
  unfold Version.parseBody
  cases parseEpochRelease (stripV s) with
  | none => rfl
  | some x => rfl

theorem lower_digit_head (d : Char) (ds : List Char) (h : isDigit d = true) :
    (d :: ds).map lowerChar = d :: ds.map lowerChar := by simp [digit_lower d h]

/-- the text parses back to the very same version -/
theorem TextOK.parse {v : Version} (h : TextOK v) : Version.parse v.text = .ok v := by
  obtain ⟨d, ds, hd, hdig⟩ := h.head
  have hne : v.text.isEmpty = false := by
    cases hv : v.text.isEmpty
    · rfl
    · have : v.text.toList = [] := by simpa [String.isEmpty_iff] using hv
      rw [hd] at this; cases this
  unfold Version.parse
  have hb := h.body
  have hs : dropSpaces (v.text.toList.map lowerChar) = v.text.toList.map lowerChar := by
    rw [hd, lower_digit_head d ds hdig]; exact dropSpaces_of_head d _ (digit_not_space d hdig)
  simp only [hs, parseBody_text v.text, hb, Option.map_some, dropSpaces, List.isEmpty_nil, hne, Bool.not_false,
    Bool.and_self, if_true]

theorem TextOK.plain {v : Version} (h : TextOK v) : ∀ c ∈ v.text.toList, vPlain c :=
  fun c hc => vchar_plain c (h.chars c hc)

theorem TextOK.noSpace {v : Version} (h : TextOK v) : ∀ c ∈ v.text.toList, isSpace c = false :=
  fun c hc => vchar_not_space c (h.chars c hc)

/-! ### `BASIC_CONSTRAINT` on the text -/

theorem basicVersion?_text {v : Version} (h : TextOK v) :
    VParser.basicVersion? v.text.toList = some (v.text, false) := by
  unfold VParser.basicVersion?
  simp [h.body, VParser.atEnd]

theorem text_ne_dev {v : Version} (h : TextOK v) : (v.text == "dev") = false := by
  rw [beq_eq_false_iff_ne]
  intro e
  obtain ⟨d, ds, hd, hdig⟩ := h.head
  have := congrArg String.toList e
  rw [hd] at this
  simp at this
  exact digit_ne d 'd' hdig (by decide) this.1

/-! ### `X_CONSTRAINT` does not match a text without `*` -/

theorem takeDigits_mem : ∀ (s : List Char), ∀ c ∈ (takeDigits s).2, c ∈ s
  | [], c, hc => by simp [takeDigits] at hc
  | x :: xs, c, hc => by
    unfold takeDigits at hc
    by_cases hx : isDigit x = true
    · simp only [hx, if_true] at hc
      exact List.mem_cons_of_mem _ (takeDigits_mem xs c hc)
    · simp only [hx] at hc
      exact hc

theorem xmore_mem (r : List Char) : ∀ c ∈ (xmore r).2, c ∈ r := by
  intro c hc
  unfold xmore at hc
  split at hc
  · rename_i cs
    by_cases he : (takeDigits cs).1.isEmpty = true
    · simp only [he, if_true] at hc; exact hc
    · simp only [he] at hc
      exact List.mem_cons_of_mem _ (takeDigits_mem cs c hc)
  · exact hc

theorem xtry_nostar (inv : Bool) (ver r : List Char) (h : ∀ c ∈ r, c ≠ '*') : xtry inv ver r = none := by
  have : VParser.xConstraint?.stars (r.length + 1) r 0 = none := by
    rw [VParser.xConstraint?.stars.eq_def]
    split
    · rfl
    · split
      · exact absurd rfl (h '*' (by simp))
      · simp
  simp [xtry, this]

theorem xcore2_nostar (inv : Bool) (s : List Char) (h : ∀ c ∈ s, c ≠ '*') : xcore2 inv s = none := by
  unfold xcore2
  have a1 := takeDigits_mem s
  generalize takeDigits s = p1 at a1
  obtain ⟨d1, r1⟩ := p1
  simp only at a1 ⊢
  split
  · rfl
  · have a2 := xmore_mem r1
    generalize xmore r1 = p2 at a2
    obtain ⟨d2, r2⟩ := p2
    simp only at a2 ⊢
    have h1 : ∀ c ∈ r1, c ≠ '*' := fun c hc => h c (a1 c hc)
    have h2 : ∀ c ∈ r2, c ≠ '*' := fun c hc => h1 c (a2 c hc)
    by_cases he : d2.isEmpty = true
    · simp [he, xtry_nostar inv _ r2 h2, xtry_nostar inv _ r1 h1]
    · have a3 := xmore_mem r2
      generalize xmore r2 = p3 at a3
      obtain ⟨d3, r3⟩ := p3
      simp only at a3
      have h3 : ∀ c ∈ r3, c ≠ '*' := fun c hc => h2 c (a3 c hc)
      simp [he, xtry_nostar inv _ r3 h3, xtry_nostar inv _ r2 h2, xtry_nostar inv _ r1 h1]

theorem xcore_text (inv : Bool) {v : Version} (h : TextOK v) : xcore inv v.text.toList = none := by
  obtain ⟨d, ds, hd, hdig⟩ := h.head
  unfold xcore
  rw [dropSpaces_noSpace _ h.noSpace, hd, vstrip_digit d ds hdig, ← hd]
  exact xcore2_nostar inv _ (fun c hc => vchar_ne c '*' (h.chars c hc) (by decide))

/-! ### `parse_single_constraint` on `op ++ text` -/

theorem parseSingle_bare_text (b : Bool) {v : Version} (h : TextOK v) :
    VParser.parseSingle v.text.toList b = .ok (.single (.ver v)) := by
  obtain ⟨d, ds, hd, hdig⟩ := h.head
  have hbv := basicVersion?_text h
  have hx := xcore_text false h
  have hdev := text_ne_dev h
  have hp := h.parse
  rw [hd] at hbv hx ⊢
  rcases digit_cases d hdig with rfl | rfl | rfl | rfl | rfl | rfl | rfl | rfl | rfl | rfl <;>
  · unfold VParser.parseSingle
    simp [VParser.isAnyPattern, xConstraint?_eq, xprefix, hx, VParser.basicOp,
      dropSpaces_of_head _ ds (digit_not_space _ hdig), hbv, hdev, VParser.parseVersionText, hp,
      bind, Except.bind, pure, Except.pure]

theorem parseSingle_ge_text (b : Bool) {v : Version} (h : TextOK v) :
    VParser.parseSingle ('>' :: '=' :: v.text.toList) b = .ok (.single (.rng ⟨some v, none, true, false⟩)) := by
  have hx : xcore false ('>' :: '=' :: v.text.toList) = none := xcore_head _ _ _ (by decide) (by decide) (by decide)
  unfold VParser.parseSingle
  simp [hx, VParser.isAnyPattern, xConstraint?_eq, xprefix, VParser.basicOp,
    dropSpaces_noSpace _ h.noSpace, basicVersion?_text h, VParser.parseVersionText,
    text_ne_dev h, h.parse, bind, Except.bind, pure, Except.pure]

theorem parseSingle_le_text (b : Bool) {v : Version} (h : TextOK v) :
    VParser.parseSingle ('<' :: '=' :: v.text.toList) b = .ok (.single (.rng ⟨none, some v, false, true⟩)) := by
  have hx : xcore false ('<' :: '=' :: v.text.toList) = none := xcore_head _ _ _ (by decide) (by decide) (by decide)
  unfold VParser.parseSingle
  simp [hx, VParser.isAnyPattern, xConstraint?_eq, xprefix, VParser.basicOp,
    dropSpaces_noSpace _ h.noSpace, basicVersion?_text h, VParser.parseVersionText,
    text_ne_dev h, h.parse, bind, Except.bind, pure, Except.pure]

theorem parseSingle_gt_text (b : Bool) {v : Version} (h : TextOK v) :
    VParser.parseSingle ('>' :: v.text.toList) b = .ok (.single (.rng ⟨some v, none, false, false⟩)) := by
  obtain ⟨d, ds, hd, hdig⟩ := h.head
  have hb : VParser.basicOp ('>' :: v.text.toList) = (.gt, v.text.toList) := by rw [hd]; exact basicOp_gt d ds hdig
  have hx : xcore false ('>' :: v.text.toList) = none := xcore_head _ _ _ (by decide) (by decide) (by decide)
  unfold VParser.parseSingle
  simp [hb, hx, VParser.isAnyPattern, xConstraint?_eq, xprefix,
    dropSpaces_noSpace _ h.noSpace, basicVersion?_text h, VParser.parseVersionText,
    text_ne_dev h, h.parse, bind, Except.bind, pure, Except.pure]

theorem parseSingle_lt_text (b : Bool) {v : Version} (h : TextOK v) :
    VParser.parseSingle ('<' :: v.text.toList) b = .ok (.single (.rng ⟨none, some v, false, false⟩)) := by
  obtain ⟨d, ds, hd, hdig⟩ := h.head
  have hb : VParser.basicOp ('<' :: v.text.toList) = (.lt, v.text.toList) := by rw [hd]; exact basicOp_lt d ds hdig
  have hx : xcore false ('<' :: v.text.toList) = none := xcore_head _ _ _ (by decide) (by decide) (by decide)
  unfold VParser.parseSingle
  simp [hb, hx, VParser.isAnyPattern, xConstraint?_eq, xprefix,
    dropSpaces_noSpace _ h.noSpace, basicVersion?_text h, VParser.parseVersionText,
    text_ne_dev h, h.parse, bind, Except.bind, pure, Except.pure]

theorem parseSingle_ne_text (b : Bool) {v : Version} (h : TextOK v) :
    VParser.parseSingle ('!' :: '=' :: v.text.toList) b =
      .ok (.union [.rng ⟨none, some v, false, false⟩, .rng ⟨some v, none, false, false⟩]) := by
  unfold VParser.parseSingle
  simp [VParser.isAnyPattern, xConstraint?_eq, xprefix, xcore_text true h, VParser.basicOp,
    dropSpaces_noSpace _ h.noSpace, basicVersion?_text h, VParser.parseVersionText,
    text_ne_dev h, h.parse, bind, Except.bind, pure, Except.pure]

end Poetry
