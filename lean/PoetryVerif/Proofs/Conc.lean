/-
Helper lemmas for C20: invariants of the three state machines of `Model/Conc.lean`, each by induction
over the schedule.
-/
import PoetryVerif.Model.Conc

set_option linter.unusedSimpArgs false
set_option linter.unusedVariables false

namespace Poetry.Conc

/-! ### TMap -/

namespace TMap
variable {α : Type}

theorem get_set_same (m : TMap α) (t : Tid) (v d : α) : get (set m t v) t d = v := by
  induction m with
  | nil => simp [set, get]
  | cons p m ih =>
    obtain ⟨t', x⟩ := p
    by_cases h : t' = t
    · simp [set, get, h]
    · simp [set, get, h, ih]

theorem get_set_other (m : TMap α) (t t' : Tid) (v d : α) (h : t ≠ t') :
    get (set m t v) t' d = get m t' d := by
  induction m with
  | nil => simp [set, get, h]
  | cons p m ih =>
    obtain ⟨t'', x⟩ := p
    by_cases h1 : t'' = t
    · subst h1; simp [set, get, h]
    · by_cases h2 : t'' = t'
      · subst h2; simp [set, get, h1]
      · simp [set, get, h1, h2, ih]

theorem get_set (m : TMap α) (t t' : Tid) (v d : α) :
    get (set m t v) t' d = if t = t' then v else get m t' d := by
  by_cases h : t = t'
  · subst h; simp [get_set_same]
  · simp [h, get_set_other m t t' v d h]

end TMap

/-! ### (a) memo cache -/

section Memo
variable {K V : Type} (s : MemoSpec K V)

/-- `==` + hash as used by the dict is a congruence for the wrapped function -/
def MemoSpec.Congr : Prop := ∀ k' k, s.hit k' k = true → s.f k' = s.f k

theorem lookup_some {c : List (K × V)} {k : K} {v : V} (h : s.lookup c k = some v) :
    ∃ k', (k', v) ∈ c ∧ s.hit k' k = true := by
  induction c with
  | nil => simp [MemoSpec.lookup] at h
  | cons p c ih =>
    obtain ⟨k', v'⟩ := p
    by_cases hm : s.hit k' k = true
    · simp [MemoSpec.lookup, hm] at h
      exact ⟨k', by simp [h], hm⟩
    · simp [MemoSpec.lookup, hm] at h
      obtain ⟨k'', hin, hh⟩ := ih h
      exact ⟨k'', by simp [hin], hh⟩

theorem store_mem {c : List (K × V)} {k k1 : K} {v v1 : V} (h : (k1, v1) ∈ s.store c k v) :
    (k1, v1) ∈ c ∨ (v1 = v ∧ (k1 = k ∨ s.hit k1 k = true)) := by
  induction c with
  | nil => simp [MemoSpec.store] at h; simp [h]
  | cons p c ih =>
    obtain ⟨k', v'⟩ := p
    by_cases hm : s.hit k' k = true
    · simp [MemoSpec.store, hm] at h
      rcases h with ⟨h1, h2⟩ | h
      · subst h1 h2; right; simp [hm]
      · left; simp [h]
    · simp [MemoSpec.store, hm] at h
      rcases h with ⟨h1, h2⟩ | h
      · left; simp [h1, h2]
      · rcases ih h with h | h
        · left; simp [h]
        · right; exact h

/-- after a store the key is found, with the stored value -/
theorem lookup_store (c : List (K × V)) (k : K) (v : V) (hrefl : s.hit k k = true) :
    s.lookup (s.store c k v) k = some v := by
  induction c with
  | nil => simp [MemoSpec.store, MemoSpec.lookup, hrefl]
  | cons p c ih =>
    obtain ⟨k', v'⟩ := p
    by_cases hm : s.hit k' k = true
    · simp [MemoSpec.store, MemoSpec.lookup, hm]
    · simp [MemoSpec.store, MemoSpec.lookup, hm, ih]

/-- the cache invariant: every stored pair is `(k, f k)`, every value a thread carries towards the
store is `f k`, every returned value is `f k` -/
structure MInv (st : MState K V) : Prop where
  cache_ok : ∀ k v, (k, v) ∈ st.cache → s.f k = .ok v
  pc_ok : ∀ t k v, st.pc.get t .idle = .computed k v → s.f k = .ok v
  log_ok : ∀ e, e ∈ st.log → e.2.2 = s.f e.2.1

theorem MInv.init : MInv s (MState.init : MState K V) := by
  constructor <;> simp [MState.init, TMap.get]

theorem pc_set_other {st : MState K V} {t : Tid} {q : MPc K V} (hq : ∀ k v, q ≠ .computed k v)
    (inv : MInv s st) : ∀ t' k v, (st.pc.set t q).get t' .idle = .computed k v → s.f k = .ok v := by
  intro t' k v h
  rw [TMap.get_set] at h
  by_cases ht : t = t'
  · simp [ht] at h; exact absurd h (hq k v)
  · simp [ht] at h; exact inv.pc_ok t' k v h

theorem MInv.step (hc : s.Congr) {st : MState K V} (inv : MInv s st) (c : Tid × MAct K) :
    MInv s (MState.step s st c) := by
  obtain ⟨t, a⟩ := c
  cases hpc : st.pc.get t .idle with
  | idle =>
    cases a with
    | call k =>
      cases hl : s.lookup st.cache k with
      | some v =>
        have h1 : MState.step s st (t, .call k) = { st with log := (t, k, .ok v) :: st.log } := by
          simp [MState.step, hpc, hl]
        rw [h1]
        obtain ⟨k', hin, hh⟩ := lookup_some s hl
        have hv := inv.cache_ok k' v hin
        refine ⟨inv.cache_ok, inv.pc_ok, ?_⟩
        intro e he
        simp only [List.mem_cons] at he
        rcases he with he | he
        · subst he; simp only; rw [← hc k' k hh]; exact hv.symm
        · exact inv.log_ok e he
      | none =>
        have h1 : MState.step s st (t, .call k) = { st with pc := st.pc.set t (.missed k) } := by
          simp [MState.step, hpc, hl]
        rw [h1]
        exact ⟨inv.cache_ok, pc_set_other s (by simp) inv, inv.log_ok⟩
    | compute =>
      have h1 : MState.step s st (t, .compute) = st := by simp [MState.step, hpc]
      rw [h1]; exact inv
    | store =>
      have h1 : MState.step s st (t, .store) = st := by simp [MState.step, hpc]
      rw [h1]; exact inv
  | missed k =>
    cases a with
    | call k' =>
      have h1 : MState.step s st (t, .call k') = st := by simp [MState.step, hpc]
      rw [h1]; exact inv
    | store =>
      have h1 : MState.step s st (t, .store) = st := by simp [MState.step, hpc]
      rw [h1]; exact inv
    | compute =>
      cases hf : s.f k with
      | ok v =>
        have h1 : MState.step s st (t, .compute) = { st with pc := st.pc.set t (.computed k v) } := by
          simp [MState.step, hpc, hf]
        rw [h1]
        refine ⟨inv.cache_ok, ?_, inv.log_ok⟩
        intro t' k' v' h
        simp only [TMap.get_set] at h
        by_cases ht : t = t'
        · simp [ht] at h; obtain ⟨h1, h2⟩ := h; subst h1 h2; exact hf
        · simp [ht] at h; exact inv.pc_ok t' k' v' h
      | error e =>
        have h1 : MState.step s st (t, .compute) =
            { st with pc := st.pc.set t .idle, log := (t, k, .error e) :: st.log } := by
          simp [MState.step, hpc, hf]
        rw [h1]
        refine ⟨inv.cache_ok, pc_set_other s (by simp) inv, ?_⟩
        intro e' he
        simp only [List.mem_cons] at he
        rcases he with he | he
        · subst he; simp [hf]
        · exact inv.log_ok e' he
  | computed k v =>
    have hk := inv.pc_ok t k v hpc
    cases a with
    | call k' =>
      have h1 : MState.step s st (t, .call k') = st := by simp [MState.step, hpc]
      rw [h1]; exact inv
    | compute =>
      have h1 : MState.step s st (t, .compute) = st := by simp [MState.step, hpc]
      rw [h1]; exact inv
    | store =>
      have h1 : MState.step s st (t, .store) =
          { cache := s.store st.cache k v, pc := st.pc.set t .idle, log := (t, k, .ok v) :: st.log } := by
        simp [MState.step, hpc]
      rw [h1]
      refine ⟨?_, pc_set_other s (by simp) inv, ?_⟩
      · intro k1 v1 h
        rcases store_mem s h with h | ⟨hv, hk1 | hk1⟩
        · exact inv.cache_ok k1 v1 h
        · subst hv hk1; exact hk
        · subst hv; rw [hc k1 k hk1]; exact hk
      · intro e' he
        simp only [List.mem_cons] at he
        rcases he with he | he
        · subst he; simp [hk]
        · exact inv.log_ok e' he

theorem MInv.run (hc : s.Congr) (sched : List (Tid × MAct K)) {st : MState K V} (inv : MInv s st) :
    MInv s (MState.run s st sched) := by
  induction sched generalizing st with
  | nil => simpa [MState.run] using inv
  | cons c cs ih =>
    simp only [MState.run, List.foldl_cons]
    exact ih (MInv.step s hc inv c)

/-- a solo call by an idle thread always completes and logs exactly one result -/
theorem soloCall_log (st : MState K V) (t : Tid) (k : K) (hidle : st.pc.get t .idle = .idle) :
    ∃ r, (MState.run s st (MState.soloCall t k)).log = (t, k, r) :: st.log := by
  simp only [MState.run, MState.soloCall, List.foldl_cons, List.foldl_nil]
  cases hl : s.lookup st.cache k with
  | some v =>
    refine ⟨.ok v, ?_⟩
    have h1 : MState.step s st (t, .call k) = { st with log := (t, k, .ok v) :: st.log } := by
      simp [MState.step, hidle, hl]
    rw [h1]
    simp [MState.step, hidle]
  | none =>
    have h1 : MState.step s st (t, .call k) = { st with pc := st.pc.set t (.missed k) } := by
      simp [MState.step, hidle, hl]
    rw [h1]
    cases hf : s.f k with
    | ok v =>
      refine ⟨.ok v, ?_⟩
      simp [MState.step, TMap.get_set_same, hf]
    | error e =>
      refine ⟨.error e, ?_⟩
      simp [MState.step, TMap.get_set_same, hf]

end Memo

theorem runCtx_pure {C K V : Type} (g : C → K → PyM V) (hash : K → Nat) (eq : K → K → Bool) (c0 : C)
    (hpure : StackPure g c0) (cs : List (C × Tid × MAct K)) (st : MState K V) :
    runCtx g hash eq st cs = MState.run ⟨g c0, hash, eq⟩ st (cs.map (·.2)) := by
  induction cs generalizing st with
  | nil => rfl
  | cons c cs ih =>
    simp only [runCtx, List.foldl_cons, MState.run, List.map_cons]
    have : stepCtx g hash eq st c = MState.step ⟨g c0, hash, eq⟩ st c.2 := by
      simp [stepCtx, hpure c.1]
    rw [this]
    simpa [runCtx, MState.run] using ih (MState.step ⟨g c0, hash, eq⟩ st c.2)

/-! ### context-reading wrapped functions that are pure on the keys and contexts that occur -/

section CtxOn
variable {C K V : Type}

theorem lookup_f_irrel (f f' : K → PyM V) (h : K → Nat) (e : K → K → Bool) (c : List (K × V)) (k : K) :
    (⟨f, h, e⟩ : MemoSpec K V).lookup c k = (⟨f', h, e⟩ : MemoSpec K V).lookup c k := by
  induction c with
  | nil => rfl
  | cons p c ih => obtain ⟨k', v⟩ := p; simp [MemoSpec.lookup, MemoSpec.hit, ih]

theorem store_f_irrel (f f' : K → PyM V) (h : K → Nat) (e : K → K → Bool) (c : List (K × V)) (k : K) (v : V) :
    (⟨f, h, e⟩ : MemoSpec K V).store c k v = (⟨f', h, e⟩ : MemoSpec K V).store c k v := by
  induction c with
  | nil => rfl
  | cons p c ih => obtain ⟨k', v'⟩ := p; simp [MemoSpec.store, MemoSpec.hit, ih]

/-- one step only looks at the wrapped function at the key the stepping thread is about to compute -/
theorem step_f_irrel (f f' : K → PyM V) (h : K → Nat) (e : K → K → Bool) (st : MState K V) (c : Tid × MAct K)
    (hf : ∀ k, st.pc.get c.1 .idle = .missed k → f k = f' k) :
    MState.step ⟨f, h, e⟩ st c = MState.step ⟨f', h, e⟩ st c := by
  obtain ⟨t, a⟩ := c
  cases hpc : st.pc.get t .idle with
  | idle =>
    cases a with
    | call k => simp [MState.step, hpc, lookup_f_irrel f f' h e]
    | compute => simp [MState.step, hpc]
    | store => simp [MState.step, hpc]
  | missed k =>
    have := hf k hpc
    cases a with
    | call k' => simp [MState.step, hpc]
    | compute => simp [MState.step, hpc, this]
    | store => simp [MState.step, hpc]
  | computed k v =>
    cases a with
    | call k' => simp [MState.step, hpc]
    | compute => simp [MState.step, hpc]
    | store => simp [MState.step, hpc, store_f_irrel f f' h e]

/-- every key a thread is about to compute satisfies `P` -/
def PendingIn (P : K → Prop) (st : MState K V) : Prop := ∀ t k, st.pc.get t .idle = .missed k → P k

theorem pendingIn_step (s : MemoSpec K V) (P : K → Prop) {st : MState K V} (hp : PendingIn P st)
    (c : Tid × MAct K) (hc : ∀ k, c.2 = .call k → P k) : PendingIn P (MState.step s st c) := by
  obtain ⟨t, a⟩ := c
  intro t' k' h'
  cases hpc : st.pc.get t .idle with
  | idle =>
    cases a with
    | call k =>
      cases hl : s.lookup st.cache k with
      | some v =>
        have h1 : MState.step s st (t, .call k) = { st with log := (t, k, .ok v) :: st.log } := by
          simp [MState.step, hpc, hl]
        rw [h1] at h'; exact hp t' k' h'
      | none =>
        have h1 : MState.step s st (t, .call k) = { st with pc := st.pc.set t (.missed k) } := by
          simp [MState.step, hpc, hl]
        rw [h1] at h'
        simp only [TMap.get_set] at h'
        by_cases ht : t = t'
        · simp [ht] at h'; subst h'; exact hc k rfl
        · simp [ht] at h'; exact hp t' k' h'
    | compute =>
      have h1 : MState.step s st (t, .compute) = st := by simp [MState.step, hpc]
      rw [h1] at h'; exact hp t' k' h'
    | store =>
      have h1 : MState.step s st (t, .store) = st := by simp [MState.step, hpc]
      rw [h1] at h'; exact hp t' k' h'
  | missed k =>
    cases a with
    | call k2 =>
      have h1 : MState.step s st (t, .call k2) = st := by simp [MState.step, hpc]
      rw [h1] at h'; exact hp t' k' h'
    | store =>
      have h1 : MState.step s st (t, .store) = st := by simp [MState.step, hpc]
      rw [h1] at h'; exact hp t' k' h'
    | compute =>
      cases hf : s.f k with
      | ok v =>
        have h1 : MState.step s st (t, .compute) = { st with pc := st.pc.set t (.computed k v) } := by
          simp [MState.step, hpc, hf]
        rw [h1] at h'
        simp only [TMap.get_set] at h'
        by_cases ht : t = t'
        · simp [ht] at h'
        · simp [ht] at h'; exact hp t' k' h'
      | error e =>
        have h1 : MState.step s st (t, .compute) =
            { st with pc := st.pc.set t .idle, log := (t, k, .error e) :: st.log } := by
          simp [MState.step, hpc, hf]
        rw [h1] at h'
        simp only [TMap.get_set] at h'
        by_cases ht : t = t'
        · simp [ht] at h'
        · simp [ht] at h'; exact hp t' k' h'
  | computed k v =>
    cases a with
    | call k2 =>
      have h1 : MState.step s st (t, .call k2) = st := by simp [MState.step, hpc]
      rw [h1] at h'; exact hp t' k' h'
    | compute =>
      have h1 : MState.step s st (t, .compute) = st := by simp [MState.step, hpc]
      rw [h1] at h'; exact hp t' k' h'
    | store =>
      have h1 : MState.step s st (t, .store) =
          { cache := s.store st.cache k v, pc := st.pc.set t .idle, log := (t, k, .ok v) :: st.log } := by
        simp [MState.step, hpc]
      rw [h1] at h'
      simp only [TMap.get_set] at h'
      by_cases ht : t = t'
      · simp [ht] at h'
      · simp [ht] at h'; exact hp t' k' h'

/-- If the context-reading function agrees with its context-free version on every key that is called (`P`) in
every context that occurs in the schedule, the run is the run of the context-free function. -/
theorem runCtx_pure_on (g : C → K → PyM V) (hash : K → Nat) (eq : K → K → Bool) (c0 : C) (P : K → Prop)
    (cs : List (C × Tid × MAct K))
    (hcall : ∀ e, e ∈ cs → ∀ k, e.2.2 = .call k → P k)
    (hpure : ∀ e, e ∈ cs → ∀ k, P k → g e.1 k = g c0 k)
    (st : MState K V) (hp : PendingIn P st) :
    runCtx g hash eq st cs = MState.run ⟨g c0, hash, eq⟩ st (cs.map (·.2)) := by
  induction cs generalizing st with
  | nil => rfl
  | cons c cs ih =>
    simp only [runCtx, List.foldl_cons, MState.run, List.map_cons]
    have h1 : stepCtx g hash eq st c = MState.step ⟨g c0, hash, eq⟩ st c.2 := by
      unfold stepCtx
      exact step_f_irrel (g c.1) (g c0) hash eq st c.2
        (fun k hk => hpure c (by simp) k (hp c.2.1 k hk))
    rw [h1]
    have := ih (fun e he => hcall e (by simp [he])) (fun e he => hpure e (by simp [he]))
      (MState.step ⟨g c0, hash, eq⟩ st c.2)
      (pendingIn_step _ P hp c.2 (hcall c (by simp)))
    simpa [runCtx, MState.run] using this

end CtxOn

/-! ### (b) recursion guard -/

section Guard
variable {A : Type} (aeq : A → A → Bool)

theorem runT_append (stk : List A) (xs ys : List (GAct A)) :
    runT aeq stk (xs ++ ys) =
      ((runT aeq (runT aeq stk xs).1 ys).1, (runT aeq stk xs).2 ++ (runT aeq (runT aeq stk xs).1 ys).2) := by
  induction xs generalizing stk with
  | nil => simp [runT]
  | cons e es ih => simp [runT, ih]

/-- outcomes of thread `t` in a global outcome list (newest first) as oldest-first list -/
def outsOf (t : Tid) (outs : List (Tid × GOut)) : List GOut :=
  ((outs.filter (fun c => c.1 == t)).map (·.2)).reverse

/-- Projection: in any interleaving, thread `t`'s list and thread `t`'s outcomes are those of `t`
running its own touches alone. -/
theorem run_proj (sched : List (Tid × GAct A)) (st : GState A) (t : Tid) :
    (GState.run aeq st sched).stacks.get t [] = (runT aeq (st.stacks.get t []) (proj t sched)).1 ∧
    outsOf t (GState.run aeq st sched).outs =
      outsOf t st.outs ++ (runT aeq (st.stacks.get t []) (proj t sched)).2 := by
  induction sched generalizing st with
  | nil => simp [GState.run, proj, runT]
  | cons c cs ih =>
    obtain ⟨t', a⟩ := c
    have ih' := ih (GState.step aeq st (t', a))
    simp only [GState.run, List.foldl_cons] at ih' ⊢
    rw [ih'.1, ih'.2]
    by_cases h : t' = t
    · subst h
      simp [proj, GState.step, TMap.get_set_same, runT, outsOf]
    · have h' : (t' == t) = false := by simp [h]
      simp [proj, GState.step, TMap.get_set_other _ _ _ _ _ h, runT, outsOf, h, h']

theorem stepT_exit_snoc (stk : List A) (a : A) : stepT aeq (stk ++ [a]) GAct.exit = (stk, GOut.popped) := by
  cases hs : stk ++ [a] with
  | nil => simp at hs
  | cons x xs => simp only [stepT]; rw [← hs]; simp

/-- one frame: entering with fresh arguments, running a list-restoring body, and the `finally` pop -/
theorem runT_frame (stk : List A) (a : A) (evs : List (GAct A)) (hm : gmem aeq stk a = false)
    (hb : (runT aeq (stk ++ [a]) evs).1 = stk ++ [a]) :
    runT aeq stk (GAct.enter a :: evs ++ [GAct.exit]) =
      (stk, GOut.pushed :: (runT aeq (stk ++ [a]) evs).2 ++ [GOut.popped]) := by
  have h1 : stepT aeq stk (GAct.enter a) = (stk ++ [a], GOut.pushed) := by simp [stepT, hm]
  rw [List.cons_append]
  simp only [runT, h1]
  rw [runT_append, hb]
  simp [runT, stepT_exit_snoc]

theorem emit_call_raise (stk : List A) (a : A) (body next : Code A) (hm : gmem aeq stk a = true) :
    emit aeq stk (.call a body next) = ([.enter a], true) := by simp [emit, hm]

theorem emit_call_escape (stk : List A) (a : A) (body next : Code A) (hm : gmem aeq stk a = false)
    (hr : (emit aeq (stk ++ [a]) body).2 = true) :
    emit aeq stk (.call a body next) = (.enter a :: (emit aeq (stk ++ [a]) body).1 ++ [.exit], true) := by
  simp [emit, hm, hr]

theorem emit_call_ok (stk : List A) (a : A) (body next : Code A) (hm : gmem aeq stk a = false)
    (hr : (emit aeq (stk ++ [a]) body).2 = false) :
    emit aeq stk (.call a body next) =
      ((.enter a :: (emit aeq (stk ++ [a]) body).1 ++ [.exit]) ++ (emit aeq stk next).1, (emit aeq stk next).2) := by
  simp [emit, hm, hr]

/-- `try/finally` discipline: executing any `Code` restores the thread's list, whatever is raised,
and never pops an empty list. -/
theorem emit_restores (c : Code A) (stk : List A) :
    (runT aeq stk (emit aeq stk c).1).1 = stk ∧ GOut.popEmpty ∉ (runT aeq stk (emit aeq stk c).1).2 := by
  induction c generalizing stk with
  | done => simp [emit, runT]
  | call a body next ihb ihn =>
    cases hm : gmem aeq stk a with
    | true =>
      rw [emit_call_raise aeq stk a body next hm]
      simp [runT, stepT, hm]
    | false =>
      have hb := ihb (stk ++ [a])
      have hn := ihn stk
      have hfr := runT_frame aeq stk a _ hm hb.1
      cases hr : (emit aeq (stk ++ [a]) body).2 with
      | true =>
        rw [emit_call_escape aeq stk a body next hm hr]
        simp only [hfr]
        refine ⟨trivial, ?_⟩
        simp [hb.2]
      | false =>
        rw [emit_call_ok aeq stk a body next hm hr]
        simp only []
        rw [runT_append, hfr]
        refine ⟨hn.1, ?_⟩
        simp [hb.2, hn.2]
  | try_ body next ihb ihn =>
    have hb := ihb stk
    have hn := ihn stk
    simp only [emit]
    rw [runT_append]
    simp only [hb.1]
    refine ⟨hn.1, ?_⟩
    simp [hb.2, hn.2]

end Guard

/-! ### (c) lazy parser slot -/

section Lazy
variable {G P T R : Type} (s : LazySpec G P T R)

structure LInv (st : LState P T R) : Prop where
  slot_ok : ∀ p, st.slot = some p → p = s.build s.grammar
  built_ok : ∀ t x p, st.pc.get t .idle = .built x p → p = s.build s.grammar
  ready_ok : ∀ t x, st.pc.get t .idle = .ready x → st.slot ≠ none
  log_ok : ∀ e, e ∈ st.log → e.2.2 = s.parseWith (s.build s.grammar) e.2.1

theorem LInv.init : LInv s (LState.init : LState P T R) := by
  constructor <;> simp [LState.init, TMap.get]

theorem lpc_set_built {st : LState P T R} {t : Tid} {q : LPc P T}
    (hq : ∀ x p, q = .built x p → p = s.build s.grammar)
    (inv : LInv s st) : ∀ t' x p, (st.pc.set t q).get t' .idle = .built x p → p = s.build s.grammar := by
  intro t' x p h
  rw [TMap.get_set] at h
  by_cases ht : t = t'
  · simp [ht] at h; exact hq x p h
  · simp [ht] at h; exact inv.built_ok t' x p h

theorem lpc_set_ready {st : LState P T R} {t : Tid} {q : LPc P T} (hq : ∀ x, q ≠ .ready x)
    (inv : LInv s st) : ∀ t' x, (st.pc.set t q).get t' .idle = .ready x → st.slot ≠ none := by
  intro t' x h
  rw [TMap.get_set] at h
  by_cases ht : t = t'
  · simp [ht] at h; exact absurd h (hq x)
  · simp [ht] at h; exact inv.ready_ok t' x h

theorem LInv.step {st : LState P T R} (inv : LInv s st) (c : Tid × LAct T) :
    LInv s (LState.step s st c) := by
  obtain ⟨t, a⟩ := c
  cases hpc : st.pc.get t .idle with
  | idle =>
    cases a with
    | test x =>
      cases hs : st.slot with
      | none =>
        have h1 : LState.step s st (t, .test x) = { st with pc := st.pc.set t (.sawNone x) } := by
          simp [LState.step, hpc, hs]
        rw [h1]
        exact ⟨inv.slot_ok, lpc_set_built s (by simp) inv, lpc_set_ready s (by simp) inv, inv.log_ok⟩
      | some p0 =>
        have h1 : LState.step s st (t, .test x) = { st with pc := st.pc.set t (.ready x) } := by
          simp [LState.step, hpc, hs]
        rw [h1]
        refine ⟨inv.slot_ok, lpc_set_built s (by simp) inv, ?_, inv.log_ok⟩
        intro t' x' _; simp [hs]
    | build =>
      have h1 : LState.step s st (t, .build) = st := by simp [LState.step, hpc]
      rw [h1]; exact inv
    | assign =>
      have h1 : LState.step s st (t, .assign) = st := by simp [LState.step, hpc]
      rw [h1]; exact inv
    | use =>
      have h1 : LState.step s st (t, .use) = st := by simp [LState.step, hpc]
      rw [h1]; exact inv
  | sawNone x =>
    cases a with
    | test x' =>
      have h1 : LState.step s st (t, .test x') = st := by simp [LState.step, hpc]
      rw [h1]; exact inv
    | assign =>
      have h1 : LState.step s st (t, .assign) = st := by simp [LState.step, hpc]
      rw [h1]; exact inv
    | use =>
      have h1 : LState.step s st (t, .use) = st := by simp [LState.step, hpc]
      rw [h1]; exact inv
    | build =>
      have h1 : LState.step s st (t, .build) =
          { st with pc := st.pc.set t (.built x (s.build s.grammar)) } := by
        simp [LState.step, hpc]
      rw [h1]
      refine ⟨inv.slot_ok, lpc_set_built s ?_ inv, lpc_set_ready s (by simp) inv, inv.log_ok⟩
      intro x' p h; simp at h; exact h.2.symm
  | built x p =>
    have hp := inv.built_ok t x p hpc
    cases a with
    | test x' =>
      have h1 : LState.step s st (t, .test x') = st := by simp [LState.step, hpc]
      rw [h1]; exact inv
    | build =>
      have h1 : LState.step s st (t, .build) = st := by simp [LState.step, hpc]
      rw [h1]; exact inv
    | use =>
      have h1 : LState.step s st (t, .use) = st := by simp [LState.step, hpc]
      rw [h1]; exact inv
    | assign =>
      have h1 : LState.step s st (t, .assign) =
          { st with slot := some p, pc := st.pc.set t (.ready x) } := by
        simp [LState.step, hpc]
      rw [h1]
      refine ⟨?_, lpc_set_built s (by simp) inv, ?_, inv.log_ok⟩
      · intro p' h; simp at h; subst h; exact hp
      · intro t' x' _; simp
  | ready x =>
    have hr := inv.ready_ok t x hpc
    cases a with
    | test x' =>
      have h1 : LState.step s st (t, .test x') = st := by simp [LState.step, hpc]
      rw [h1]; exact inv
    | build =>
      have h1 : LState.step s st (t, .build) = st := by simp [LState.step, hpc]
      rw [h1]; exact inv
    | assign =>
      have h1 : LState.step s st (t, .assign) = st := by simp [LState.step, hpc]
      rw [h1]; exact inv
    | use =>
      cases hs : st.slot with
      | none => exact absurd hs hr
      | some p =>
        have hp := inv.slot_ok p hs
        have h1 : LState.step s st (t, .use) =
            { st with pc := st.pc.set t .idle, log := (t, x, s.parseWith p x) :: st.log } := by
          simp [LState.step, hpc, hs]
        rw [h1]
        refine ⟨inv.slot_ok, lpc_set_built s (by simp) inv, ?_, ?_⟩
        · intro t' x' _; simp [hs]
        · intro e he
          simp only [List.mem_cons] at he
          rcases he with he | he
          · subst he; simp [hp]
          · exact inv.log_ok e he

theorem LInv.run (sched : List (Tid × LAct T)) {st : LState P T R} (inv : LInv s st) :
    LInv s (LState.run s st sched) := by
  induction sched generalizing st with
  | nil => simpa [LState.run] using inv
  | cons c cs ih =>
    simp only [LState.run, List.foldl_cons]
    exact ih (LInv.step s inv c)

/-- a solo parse by an idle thread completes and logs exactly one result -/
theorem soloParse_log (st : LState P T R) (t : Tid) (x : T) (hidle : st.pc.get t .idle = .idle) :
    ∃ r, (LState.run s st (LState.soloParse t x)).log = (t, x, r) :: st.log := by
  simp only [LState.run, LState.soloParse, List.foldl_cons, List.foldl_nil]
  cases hs : st.slot with
  | some p =>
    refine ⟨s.parseWith p x, ?_⟩
    have h1 : LState.step s st (t, .test x) = { st with pc := st.pc.set t (.ready x) } := by
      simp [LState.step, hidle, hs]
    rw [h1]
    simp [LState.step, TMap.get_set_same, hs]
  | none =>
    refine ⟨s.parseWith (s.build s.grammar) x, ?_⟩
    have h1 : LState.step s st (t, .test x) = { st with pc := st.pc.set t (.sawNone x) } := by
      simp [LState.step, hidle, hs]
    rw [h1]
    simp [LState.step, TMap.get_set_same]

end Lazy

end Poetry.Conc
