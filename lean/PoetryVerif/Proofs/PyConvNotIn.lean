/-
`python_version not in "X0.Y0 X1.Y1 …"`: the normaliser prints the single entry `!=X0.Y0.*, !=X1.Y1.*, …`, the
constraint parser reads it as the intersection of the excluded wildcards, and the result admits `X.Y.Z` exactly
when `(X, Y)` is not listed — the reference value of the item (helper lemmas for C11).
-/
import PoetryVerif.Proofs.PyConvIn
import PoetryVerif.Proofs.PyConvSplitSoundE
import PoetryVerif.Proofs.MarkerLeafVersionNotIn

set_option linter.unusedSimpArgs false
set_option linter.unusedVariables false

namespace Poetry.Marker
open Poetry Poetry.Spec Poetry.Spec.Pep508 Poetry.VParser Poetry.Version

/-- the characters of the clause `!=X.Y.*` -/
def neStarItem (p : Nat × Nat) : List Char := '!' :: '=' :: (Poetry.relChars [p.1, p.2] ++ ['.', '*'])

theorem neStarChars_eq (p : Nat × Nat) : neStarChars p = neStarItem p := by
  simp [neStarChars, neStarItem, starChars, relChars_bridge]

/-- what `!=X.Y.*` denotes in a marker constraint -/
def neStarVC2 (p : Nat × Nat) : VC :=
  .union [.rng ⟨none, some (finalV [p.1, p.2]), false, false⟩, .rng ⟨some (finalV [p.1, p.2 + 1]), none, true, false⟩]

theorem parseSingle_neStarItem (p : Nat × Nat) : parseSingle (neStarItem p) true = .ok (neStarVC2 p) := by
  obtain ⟨a, b⟩ := p
  exact (Poetry.parseSingle_neStar true a [b] (xCore_star2 true a b)).trans (xRange_inv2 a b)

theorem neStarItem_ok (p : Nat × Nat) : ItemOK (neStarItem p) ∧ neStarItem p ≠ ['*'] ∧ PyVCok (neStarVC2 p) := by
  obtain ⟨a, b⟩ := p
  refine ⟨⟨?_, ?_, ?_⟩, ?_, ?_⟩
  · exact noSep_cons (sp (by simp)) (noSep_cons (sp (by simp)) (noSep_append (noSep_rel _)
      (noSep_cons (sp (by simp)) (noSep_cons (sp (by simp)) (fun _ h => by cases h)))))
  · exact ⟨'!', _, rfl, startOK_op (by simp)⟩
  · exact lastOK_star ('!' :: '=' :: Poetry.relChars [a, b])
  · simp [neStarItem]
  · exact ok_neStar _ _ (pb _) (pb _) (lt_minor2 a b)

theorem neStarVC2_allows (p : Nat × Nat) (X Y Z : Nat) :
    (neStarVC2 p).allowsPlain (pyV X Y Z) = !decide (X = p.1 ∧ Y = p.2) := by
  obtain ⟨a, b⟩ := p
  rw [Bool.eq_iff_iff]
  have hrel : ∀ l, (finalV l).release = l := fun _ => rfl
  simp only [neStarVC2, VC.allowsPlain, VC.flatten, List.any_cons, List.any_nil, Bool.or_false, RC.allows,
    Bool.or_eq_true, allows_hi _ false (pb [a, b]), allows_lo _ true (pb [a, b + 1]), hrel, pad3, if_true,
    Bool.false_eq_true, if_false, ne_eq, lex3_gt, lex3_lt, Bool.not_eq_true', decide_eq_false_iff_not]
  omega

/-- the clauses the normaliser prints for a `not in` list of two-component versions -/
theorem versionListItems_notin2 (p0 : Nat × Nat) (rest : List (String × (Nat × Nat))) (hs : ∀ q ∈ rest, SepRun q.1) :
    versionListItems false (verList2 p0 rest) =
      (p0 :: rest.map (·.2)).map (fun p => String.ofList (neStarItem p)) := by
  have hsplit : splitListValue (verList2 p0 rest).toList =
      (p0 :: rest.map (·.2)).map (fun p => Marker.relChars p.1 [p.2]) := by
    rw [verList2, listLit_toList, splitListValue_join _ _ (verList2_ok p0 rest hs).listOk, ← verList2_toksC]; rfl
  simp only [versionListItems, hsplit, List.map_map]
  apply List.map_congr_left
  intro p _
  simp only [Function.comp]
  have h2 : (splitDots (Marker.relChars p.1 [p.2])).length = 2 := by rw [splitDots_relChars]; simp
  simp only [h2]
  exact str_eq_of_toList (by rw [String.toList_ofList, ← neStarChars_eq]; exact versionListItem_two_ne p)

/-- the data of the entry `!=X0.Y0.*, !=X1.Y1.*, …` -/
def neEntryD (p0 : Nat × Nat) (ps : List (Nat × Nat)) : EntryD :=
  ((neStarItem p0, neStarVC2 p0), ps.map (fun p => (neStarItem p, neStarVC2 p)))

theorem neEntryD_ok (p0 : Nat × Nat) (ps : List (Nat × Nat)) : EntryOK (neEntryD p0 ps) := by
  intro q hq
  simp only [neEntryD, EntryD.items, List.mem_cons, List.mem_map] at hq
  rcases hq with rfl | ⟨p, _, rfl⟩
  · exact ⟨(neStarItem_ok p0).1, (neStarItem_ok p0).2.1, parseSingle_neStarItem p0, (neStarItem_ok p0).2.2⟩
  · exact ⟨(neStarItem_ok p).1, (neStarItem_ok p).2.1, parseSingle_neStarItem p, (neStarItem_ok p).2.2⟩

/-- the entry text -/
def neEntry (p0 : Nat × Nat) (ps : List (Nat × Nat)) : String :=
  joinWith ", " ((p0 :: ps).map (fun p => String.ofList (neStarItem p)))

theorem neEntry_chars (p0 : Nat × Nat) (ps : List (Nat × Nat)) : (neEntryD p0 ps).chars = (neEntry p0 ps).toList := by
  simp only [neEntry, List.map_cons]
  rw [commaJoin_toList]
  simp [neEntryD, EntryD.chars, List.map_map, Function.comp_def]

theorem neEntry_shape (p0 : Nat × Nat) (ps : List (Nat × Nat)) : EntryShape (neEntry p0 ps) := by
  refine ⟨(p0 :: ps).map (fun p => String.ofList (neStarItem p)), by simp, rfl, ?_⟩
  intro it hit
  obtain ⟨p, _, rfl⟩ := List.mem_map.1 hit
  obtain ⟨h1, h2, h3⟩ := neStarItem_ok p
  exact ⟨by simpa using h1, by simpa using h2, neStarVC2 p, by simpa using parseSingle_neStarItem p, h3⟩

/-- the entry of a `not in` list means "`(X, Y)` is not listed" -/
theorem neEntry_means (p0 : Nat × Nat) (ps : List (Nat × Nat)) (X Y Z : Nat) :
    ClauseMeans (neEntry p0 ps) X Y Z (!(p0 :: ps).any (fun p => decide (X = p.1 ∧ Y = p.2))) := by
  have key : ∀ l : List (Nat × Nat), (l.all fun x => !decide (X = x.1 ∧ Y = x.2)) =
      !l.any fun p => decide (X = p.1 ∧ Y = p.2) := by
    intro l
    induction l with
    | nil => rfl
    | cons a as ih => rw [List.all_cons, List.any_cons, Bool.not_or, ih]
  have e : (neEntryD p0 ps).items.all (fun q => q.2.allowsPlain (pyV X Y Z)) =
      !(p0 :: ps).any (fun p => decide (X = p.1 ∧ Y = p.2)) := by
    rw [← key]
    simp only [neEntryD, EntryD.items, List.all_cons, List.all_map, Function.comp_def, neStarVC2_allows]
  have := entry_parse (neEntry p0 ps) (neEntryD p0 ps) (neEntry_chars p0 ps) (neEntryD_ok p0 ps) X Y Z
  rwa [e] at this

/-- the reference value of `python_version not in "…"` -/
theorem evalItem_notin2 (E : Env) (X Y Z : Nat) (hE : EnvPy E X Y Z) (p0 : Nat × Nat)
    (rest : List (String × (Nat × Nat))) (hs : ∀ q ∈ rest, SepRun q.1) :
    evalItem "python_version" "not in" (verList2 p0 rest) false E =
      some (!(p0 :: rest.map (·.2)).any (fun p => decide (X = p.1 ∧ Y = p.2))) := by
  have htok : tokens (verList2 p0 rest) = (p0 :: rest.map (·.2)).map tok2 := by
    rw [verList2, tokens_listLit _ _ (verList2_ok p0 rest hs)]
    simp [listToks, List.map_map, Function.comp_def]
  have hmapM : ((p0 :: rest.map (·.2)).map tok2).mapM parseFinal =
      some ((p0 :: rest.map (·.2)).map fun p => finalV [p.1, p.2]) := by
    generalize p0 :: rest.map (·.2) = l
    induction l with
    | nil => rfl
    | cons a as ih => simp [List.mapM_cons, tok2, Poetry.parseFinal_relText, ih]
  have h1 : canonVar "python_version" = "python_version" := by decide
  have h3 : "python_version" ∈ versionVars := by decide
  simp only [evalItem, h1, show ("python_version" == "extra") = false by decide, Bool.false_eq_true, if_false,
    hE.1, List.contains_iff_mem, h3, if_true, Poetry.parseFinal_relText, htok, hmapM]
  simp only [List.isEmpty_cons, List.map_cons, Bool.false_eq_true, if_false, if_true, Option.some.injEq,
    show ("not in" == "in") = false by decide]
  congr 1
  have key : ∀ l : List (Nat × Nat),
      ((l.map fun p => finalV [p.1, p.2]).any fun lit => Spec.cmpRef (finalV [X, Y]) lit == Ordering.eq) =
        l.any fun p => decide (X = p.1 ∧ Y = p.2) := by
    intro l
    induction l with
    | nil => rfl
    | cons p ps ih =>
      simp only [List.map_cons, List.any_cons, ih]
      congr 1
      apply bool_iff
      rw [beq_iff_eq, cmpRef_finalV, sz_pad2, sz_pad2, sz3, lex3_eq, decide_eq_true_eq]
      simp
  exact key (p0 :: rest.map (·.2))

/-- the text `normalize_python_version_markers` prints for the single pair `("not in", list)` -/
theorem normalize_notin2 (p0 : Nat × Nat) (rest : List (String × (Nat × Nat))) (hs : ∀ q ∈ rest, SepRun q.1) :
    normalizePyMarkers [[("not in", verList2 p0 rest)]] = .ok (neEntry p0 (rest.map (·.2))) := by
  have h1 : ("not in" == "in") = false := by decide
  have hc : normalizePyConj [("not in", verList2 p0 rest)] [[]] = .ok [[neEntry p0 (rest.map (·.2))]] := by
    simp [normalizePyConj, h1, versionListItems_notin2 p0 rest hs, neEntry]
  simp only [normalizePyMarkers, List.mapM_cons, List.mapM_nil, hc, bind, Except.bind, pure, Except.pure]
  simp [joinWith]

/-- **`get_python_constraint_from_marker` of `python_version not in "X0.Y0 X1.Y1 …"` is exact** -/
theorem gpcLeaf_notin2 (E : Env) (X Y Z : Nat) (hE : EnvPy E X Y Z) (s : Single) (p0 : Nat × Nat)
    (rest : List (String × (Nat × Nat))) (hs : ∀ q ∈ rest, SepRun q.1)
    (hn : s.name = "python_version") (hop : s.op = "not in") (hv : s.value = verList2 p0 rest) :
    ∃ vc b, gpcLeaf (.single s) = .ok vc ∧ vc.allowsPlain (pyV X Y Z) = b ∧
      evalItem s.name s.op s.value false E = some b := by
  obtain ⟨vc, hvc, hb⟩ := neEntry_means p0 (rest.map (·.2)) X Y Z
  refine ⟨vc, _, ?_, hb, by rw [hn, hop, hv]; exact evalItem_notin2 E X Y Z hE p0 rest hs⟩
  have hpy : isPyName s.name = true := by rw [hn]; decide
  simp only [gpcLeaf, Leaf.name, hpy, Bool.not_true, Bool.false_eq_true, if_false, hop, hv,
    normalize_notin2 p0 rest hs, bind, Except.bind]
  exact hvc

end Poetry.Marker
